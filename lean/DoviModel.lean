-- root of the library: every property module (and through them every model and proof module)
import DoviModel.Props.C13
import DoviModel.Props.C01
import DoviModel.Props.C02
import DoviModel.Props.C15
import DoviModel.Props.C05
import DoviModel.Props.C06
import DoviModel.Props.C07
import DoviModel.Props.C08
import DoviModel.Props.C18
import DoviModel.Props.C03
import DoviModel.Props.C04
import DoviModel.Props.C12
import DoviModel.Props.C14
import DoviModel.Props.C09
import DoviModel.Props.C20
import DoviModel.Props.C16
import DoviModel.Props.C17
