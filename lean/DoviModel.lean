-- root of the library: every property module (and through them every model and proof module)
import DoviModel.Props.C13
import DoviModel.Props.C01
import DoviModel.Props.C02
import DoviModel.Props.C15
