import DoviModel.Model.Ops
import DoviModel.Model.Generate
import DoviModel.Proofs.Rpu
import DoviModel.Proofs.ParseWf
import DoviModel.Proofs.WfPreserve
import DoviModel.Props.SourceTie
import DoviModel.Proofs.WriteErrors
/-! # C03 — every emitted RPU is well-formed and decodes to what was written (theorems; extended in Proofs/) -/
namespace Dovi.C03
open Dovi

/-- a successful write ends with the CRC-32 of what precedes it, the 0x80 terminator, then only the
remembered trailing zero bytes -/
theorem write_wellformed_tail (r : Rpu) (out : Bytes) (hw : writeRpu r = .ok out) :
    ∃ body : Bytes, out = body ++ bitsToBytes (toBits 32 (crc32 (body.drop 1))) ++ [0x80] ++ List.replicate r.trailing_zeroes 0 := by
  unfold writeRpu at hw
  split at hw
  · cases hw
  · cases hb : writeBody r with
    | error => simp [hb, Res.bind] at hw
    | panic => simp [hb, Res.bind] at hw
    | ok body =>
      simp only [hb, Res.bind] at hw
      split at hw
      · cases hw
      · injection hw with hw
        exact ⟨_, hw.symm⟩

/-- a value that does not fit its field is never truncated: `write_n` fails -/
theorem writeN_no_truncation (n v : Nat) (h : 2^n ≤ v) : writeN n v = .error := by
  simp [writeN]; omega

/-- a block whose values violate the level's `validate()` is not written -/
theorem invalid_block_not_written (b : Block) (h : blockValidate b = false) : ∀ w, writeBlock b ≠ .ok w := by
  intro w hw
  unfold writeBlock at hw
  simp only [h, Bool.not_false, Bool.and_true, Bool.false_eq_true, if_false] at hw
  split at hw
  · cases hw
  · split at hw
    · cases hw
    · split at hw
      · cases hw
      · cases ha : writeUe (blockBytes b.level b.length) <;> cases hb2 : writeN 8 b.level <;>
          simp [ha, hb2, wcat, Res.bind] at hw

/-- an RPU failing `validate()` (counts per level, level in the wrong container, header ranges) is not written -/
theorem invalid_rpu_not_written (r : Rpu) (h : r.validate = false) : writeRpu r = .error := by
  simp [writeRpu, h]

/-- **the error clause at the level of the whole RPU**: an extension block that fails its level's `validate()`
(value out of range, unsupported L8/L9/L10 length, …), sitting in either container of a DM payload that is part of
what is written, makes `write_rpu_data` fail — nothing is emitted, nothing is silently repaired -/
theorem invalid_block_fails_rpu_write (r : Rpu) (d : DmData) (c : Container) (b : Block)
    (ht : r.header.rpu_type = 2) (hf : r.header.vdr_dm_metadata_present_flag = true)
    (hd : r.vdr_dm_data = some d) (hc : d.cmv29 = some c ∨ d.cmv40 = some c) (hb : b ∈ c.blocks)
    (hinv : blockValidate b = false) : ∀ out, writeRpu r ≠ .ok out :=
  WriteErrors.writeRpu_block r d c b ht hf hd hc hb (WriteErrors.writeBlock_invalid b hinv)

/-- … and so does a field value that does not fit the width of its field (`i` = position in the level's write
layout; every field but L2's signed `ms_weight`): no truncation anywhere between the block and the emitted bytes -/
theorem oversized_field_fails_rpu_write (r : Rpu) (d : DmData) (c : Container) (b : Block)
    (ws : List Nat) (i w : Nat) (v : Int)
    (ht : r.header.rpu_type = 2) (hf : r.header.vdr_dm_metadata_present_flag = true)
    (hd : r.vdr_dm_data = some d) (hc : d.cmv29 = some c ∨ d.cmv40 = some c) (hb : b ∈ c.blocks)
    (hlay : blockWriteLayout b.level b.length = some ws) (hw : ws[i]? = some w)
    (hv : (blockWriteVals b)[i]? = some v) (hns : ¬ (b.level = 2 ∧ w = 13)) (hbig : 2 ^ w ≤ v.toNat) :
    ∀ out, writeRpu r ≠ .ok out :=
  WriteErrors.writeRpu_block r d c b ht hf hd hc hb
    (WriteErrors.writeBlock_field_overflow b ws i w v hlay hw hv hns hbig)

/-- non-vacuity: an L1 block with `max_pq = 5000` in the CM v2.9 container of a generated RPU meets the hypotheses
of the first, an L254 block with `dm_mode = 300` those of the second -/
example : ∃ (r : Rpu) (d : DmData) (c : Container) (b : Block),
    r.header.rpu_type = 2 ∧ r.header.vdr_dm_metadata_present_flag = true ∧ r.vdr_dm_data = some d ∧
    d.cmv29 = some c ∧ b ∈ c.blocks ∧ blockValidate b = false :=
  ⟨{ header := { rpu_type := 2, vdr_dm_metadata_present_flag := true },
     vdr_dm_data := some { cmv29 := some { num_ext_blocks := 1, blocks := [{ level := 1, length := 5, vals := [0, 5000, 0] }] } } },
   _, _, { level := 1, length := 5, vals := [0, 5000, 0] }, rfl, rfl, rfl, rfl, by simp, by decide⟩

example : blockWriteLayout 254 2 = some [8, 8] ∧ ([8, 8] : List Nat)[0]? = some 8 ∧
    (blockWriteVals { level := 254, length := 2, vals := [300, 2] })[0]? = some 300 ∧ 2 ^ 8 ≤ (300 : Int).toNat := by
  decide

/-! ## decodes to exactly what was written (write → parse), proved bottom-up in `Proofs/` -/

/-- **C03, main theorem.** For every in-memory RPU `r` of the shape the parser builds (`RpuWf`: header,
mapping/NLQ and DM payload have the shape of a parse result and every stored value is in the wire-normal form
of its field) — whatever `write_rpu_data` emits is accepted by the tool's own parser and decodes to exactly `r`:
every header, mapping, NLQ and DM field, every extension block in order with its length, the data before the
CRC and the trailing zeros; the CRC-32 field is the CRC of the emitted payload (the stored one if `r` is
unmodified) and the terminator is 0x80. Unbounded: any number of pivots, pieces, blocks, any field values. -/
theorem write_parse_sound (r : Rpu) (bytes : Bytes) (hw : writeRpu r = .ok bytes) (hwf : RpuWf r) :
    ∃ crc, parseRpu bytes = .ok { r with rpu_data_crc32 := crc, modified := false } ∧
      (r.modified = false → crc = r.rpu_data_crc32) :=
  parseRpu_writeRpu r bytes hw hwf

/-- one extension block: length byte(s), level byte, the level's fields at the widths of its length variant,
zero padding to the declared length — read back by the block parser (any level allowed in that container) -/
theorem block_write_parse (allowed other : List Nat) (b : Block) (w r : Bits)
    (hw : writeBlock b = .ok w)
    (hal : allowed.contains b.level = true) (hot : other.contains b.level = false)
    (hlen : ∀ ws, blockWriteLayout b.level b.length = some ws → ws.length ≤ (blockWriteVals b).length) :
    parseBlock allowed other (w ++ r) =
      .ok ({ level := b.level, length := blockBytes b.level b.length, vals := reparsedVals b }, r) :=
  parseBlock_writeBlock allowed other b w r hw hal hot hlen

/-- the values read back are the values held, for every level other than L2/L11 (non-negative fields, fields
beyond a short L8/L9/L10 at their defaults) -/
theorem block_values_exact (b : Block) (ws : List Nat) (hlay : blockWriteLayout b.level b.length = some ws)
    (h2 : b.level ≠ 2) (h11 : b.level ≠ 11) (hlen : ws.length ≤ b.vals.length)
    (hnn : ∀ v ∈ b.vals, 0 ≤ v)
    (hdef : (blockDefaults b.level).drop ws.length = b.vals.drop ws.length) :
    reparsedVals b = b.vals :=
  reparsedVals_eq b ws hlay h2 h11 hlen hnn hdef

/-- a whole extension-block container (count, alignment, blocks) at any bit position of an aligned stream -/
theorem container_write_parse (allowed other : List Nat) (pos : Nat) (c : Container) (w r : Bits)
    (hw : writeContainer pos c = .ok w)
    (hn : c.num_ext_blocks = c.blocks.length)
    (hfit : ∀ b ∈ c.blocks, BlockFits allowed other b)
    (halign : (pos + (w ++ r).length) % 8 = 0) :
    parseContainer allowed other (w ++ r) =
      .ok ({ num_ext_blocks := c.blocks.length, blocks := c.blocks.map Block.reparsed }, r) :=
  parseContainer_writeContainer allowed other pos c w r hw hn hfit halign

/-- `rpu_data_header` -/
theorem header_write_parse (h : Header) (w r : Bits) (hw : writeHeader h = .ok w) (hwf : h.Wf = true) :
    parseHeader (w ++ r) = .ok ({ h with rpu_nal_prefix := 0 }, r) :=
  parseHeader_writeHeader h w r hw hwf

/-- `rpu_data_mapping` + NLQ -/
theorem mapping_write_parse (h : Header) (m : Mapping) (w r : Bits)
    (hw : writeMapping h m = .ok w) (hwf : MappingWf h m = true) :
    parseMapping h (w ++ r) = .ok (m, r) :=
  parseMapping_writeMapping h m w r hw hwf

/-! ### non-vacuity: the generator's profile 8.1 CM v4.0 base RPU meets `RpuWf` and is written -/

def exRpu : Rpu :=
  match Dovi.Gen.baseRpu { level6 := some [1000, 1, 1000, 400] } with
  | .ok r => r
  | _ => default

theorem BlockFits_of_dec (allowed other : List Nat) (b : Block)
    (h : (allowed.contains b.level && !other.contains b.level && b.level != 0 &&
          (match blockWriteLayout b.level b.length with
           | some ws => decide (ws.length ≤ (blockWriteVals b).length)
           | none => true)) = true) : BlockFits allowed other b := by
  simp only [Bool.and_eq_true, Bool.not_eq_true', bne_iff_ne, ne_eq] at h
  obtain ⟨⟨⟨h1, h2⟩, h3⟩, h4⟩ := h
  refine ⟨h1, h2, h3, ?_⟩
  intro ws hws
  rw [hws] at h4
  simpa using h4

theorem exRpu_wf : RpuWf exRpu ∧ (writeRpu exRpu).isOk = true := by
  refine ⟨⟨by decide, by decide, by decide, by decide, ?_, ?_, ?_⟩, by decide⟩
  · exact ⟨_, rfl, by decide⟩
  · refine ⟨_, rfl, ⟨by decide, ⟨_, rfl, ⟨by decide, ?_⟩⟩, ?_, by decide, by decide, by decide⟩⟩
    · intro b hb
      apply BlockFits_of_dec
      revert b
      decide
    · intro c hc
      injection hc with hc
      subst hc
      refine ⟨⟨by decide, ?_⟩, by decide⟩
      intro b hb
      apply BlockFits_of_dec
      revert b
      decide
  · intro rem hr
    cases hr

/-- **source tie** (regenerated on every run from /repo by tools/gen_source_layouts.py): the field widths,
`length > k` thresholds, field order, `bytes_size()` and `required_bits()` of every extension-block level and
the 32 codings of the `vdr_dm_data` payload, as they stand in the Rust sources now, are the tables the model —
and therefore every theorem about the emitted RPUs — is built on -/
theorem source_layouts_agree :
    (∀ level length, Src.blockParse level length = blockParseLayout level length) ∧
    (∀ level length, Src.blockWrite level length = blockWriteLayout level length) ∧
    (∀ level length, Src.blockBytes level length = blockBytes level length) ∧
    (∀ level length, level ≠ 0 → Src.blockRequired level length = blockRequiredBits level length) ∧
    Src.dmMainParse.map SourceTie.conv = dmMainParseLayout ∧
    Src.dmMainWrite.map SourceTie.conv = dmMainWriteLayout ∧
    Src.signedFields = [(2, 6)] :=
  ⟨SourceTie.parse_layout_from_source, SourceTie.write_layout_from_source, SourceTie.bytes_from_source,
   SourceTie.required_from_source, SourceTie.dm_parse_from_source, SourceTie.dm_write_from_source,
   SourceTie.signed_from_source⟩

/-- **source tie, validation rules** (regenerated on every run from /repo by tools/gen_source_rules.py): the
`validate()` of every extension-block level, of the header, of the mapping (outside its per-curve loop), of
`vdr_dm_data` and of the two containers
(allowed levels, per-level count limits), and the struct fields of every block level in declaration order, as
they stand in the Rust sources now, are the rules and names of the model — for every block, header, DM payload
and container -/
theorem source_rules_agree :
    (∀ level, Src.blockFieldNames level = blockFieldNames level) ∧
    (∀ b : Block, Src.blockValidate b = blockValidate b) ∧
    (∀ (h : Header) profile, Src.headerValidate h profile = h.validate profile) ∧
    (∀ d : DmData, Src.dmValidate d = d.validate) ∧
    (∀ (m : Mapping) profile, m.validate profile =
      (Src.mappingValidateHead m profile && m.curves.all Curve.piecesOk && Src.mappingValidateTail m)) ∧
    (∀ c : Container, c.validate29 =
      (c.blocks.all (fun b => Src.cmv29Allowed.contains b.level) && Src.cmv29Counts.all (SourceTie.countRule c.blocks))) ∧
    (∀ c : Container, c.validate40 =
      (c.blocks.all (fun b => Src.cmv40Allowed.contains b.level) && Src.cmv40Counts.all (SourceTie.countRule c.blocks))) ∧
    Src.cmv29Allowed = cmv29Levels ∧ Src.cmv40Allowed = cmv40Levels :=
  ⟨SourceTie.block_names_from_source, SourceTie.block_validate_from_source, SourceTie.header_validate_from_source,
   SourceTie.dm_validate_from_source, SourceTie.mapping_validate_from_source, SourceTie.cmv29_validate_from_source, SourceTie.cmv40_validate_from_source,
   SourceTie.allowed_levels_from_source.1, SourceTie.allowed_levels_from_source.2⟩

/-! ## every parse result is inside the hypothesis of `write_parse_sound` (parse → shape), proved bottom-up in
`Proofs/ParseWf.lean` -/

/-- every RPU the parser returns is inside the hypothesis of `write_parse_sound` -/
theorem parsed_rpu_is_wf (bytes : Bytes) (r : Rpu) (hp : parseRpu bytes = .ok r)
    (hs : ∀ m, r.rpu_data_mapping = some m → m.seSmall = true) : RpuWf r :=
  parseRpu_wf bytes r hp hs

/-- hence: whatever the parser returned, once it is written the output decodes to it again (no shape hypothesis
left; `seSmall` is the `f64` bound of the third-party `get_se`) -/
theorem parsed_rpu_write_parse_sound (bytes out : Bytes) (r : Rpu) (hp : parseRpu bytes = .ok r)
    (hs : ∀ m, r.rpu_data_mapping = some m → m.seSmall = true) (hw : writeRpu r = .ok out) :
    ∃ crc, parseRpu out = .ok { r with rpu_data_crc32 := crc, modified := false } ∧
      (r.modified = false → crc = r.rpu_data_crc32) :=
  write_parse_sound r out hw (parsed_rpu_is_wf bytes r hp hs)

/-- `rpu_data_header`: every parsed header has the shape `Header.Wf` (absent parts at their defaults, derived
`coefficient_log2_denom_length`, packed `el_bit_depth`/`ext_mapping_idc` in range) -/
theorem parsed_header_is_wf (s t : Bits) (h : Header) (hp : parseHeader s = .ok (h, t)) : h.Wf = true :=
  ParseWf.parseHeader_wf hp

/-- one extension block: every parsed block belongs to its container, carries at least the fields its length
variant writes, and is in wire-normal form (re-encoding and re-decoding its values — incl. the 13-bit two's
complement L2 `ms_weight` and the folded L11 whitepoint byte — gives the same block) -/
theorem parsed_block_is_wf (allowed other : List Nat) (s t : Bits) (b : Block)
    (hp : parseBlock allowed other s = .ok (b, t)) : BlockFits allowed other b ∧ b.reparsed = b :=
  ParseWf.parseBlock_wf hp

/-- a whole extension-block container -/
theorem parsed_container_is_wf (allowed other : List Nat) (s t : Bits) (c : Container)
    (hp : parseContainer allowed other s = .ok (c, t)) : ContainerOk allowed other c ∧ c.reparsed = c :=
  ParseWf.parseContainer_wf hp

/-- `vdr_dm_data`: compressed flag from the header, 32 main values each in the range of its coding (wire-normal),
CM v2.9 always present, and without CM v4.0 fewer than 56 bits follow -/
theorem parsed_dm_is_wf (h : Header) (s t : Bits) (d : DmData) (hp : parseDmData h s = .ok (d, t)) :
    (h.reserved_zero_3bits == 1) = d.compressed ∧ d.main.length = 32 ∧ d.reparsed = d ∧
    (∃ c, d.cmv29 = some c ∧ ContainerOk cmv29Levels cmv40Levels c) ∧
    (∀ c, d.cmv40 = some c → ContainerOk cmv40Levels cmv29Levels c) ∧
    (d.cmv40 = none → t.length < 56) :=
  ParseWf.parseDmData_wf hp

/-- `read_rpu_data` on any bit string (no whole-bytes assumption): a validated result is `RpuWf` -/
theorem parsed_rpu_data_is_wf (bits rest : Bits) (r : Rpu) (hp : readRpuData bits = .ok (r, rest))
    (hval : r.validate = true) (hs : ∀ m, r.rpu_data_mapping = some m → m.seSmall = true) : RpuWf r :=
  ParseWf.readRpuData_wf hp hval hs

/-! ### non-vacuity: the bytes written for `exRpu` are accepted by the parser, with a mapping inside the bound -/

def exBytes : Bytes :=
  match writeRpu exRpu with
  | .ok b => b
  | _ => []

example : ∃ r, parseRpu exBytes = .ok r ∧ r.rpu_data_mapping.isSome = true ∧ r.vdr_dm_data.isSome = true ∧
    (∀ m, r.rpu_data_mapping = some m → m.seSmall = true) := by
  have hw : writeRpu exRpu = .ok exBytes := by
    have hok := exRpu_wf.2
    unfold exBytes
    cases h : writeRpu exRpu with
    | ok b => rfl
    | error => rw [h] at hok; cases hok
    | panic => rw [h] at hok; cases hok
  obtain ⟨crc, hp, _⟩ := write_parse_sound exRpu exBytes hw exRpu_wf.1
  refine ⟨_, hp, (by decide : exRpu.rpu_data_mapping.isSome = true), (by decide : exRpu.vdr_dm_data.isSome = true), ?_⟩
  intro m hm
  have hall : exRpu.rpu_data_mapping.all Mapping.seSmall = true := by decide
  have hm' : exRpu.rpu_data_mapping = some m := hm
  rw [hm'] at hall
  exact hall

/-! ## the write → parse theorem reaches converted, edited and generated RPUs

`write_parse_sound` assumes `RpuWf`; `parsed_rpu_is_wf` gives it for parse results.  This section carries `RpuWf`
through every operation of the tool, so that the theorem applies to "parsed RPUs after any sequence of
conversions, crops, active-area / L6 / L9 / L11 / L255 / source-PQ / scene-cut edits and block insert / replace /
remove operations" and to "all generator outputs" — with the exact side conditions, each of which is a real limit
of the tool documented by a witness (F14, F15, F16 and the ones below).

Vocabulary (Proofs/WfPreserve.lean, all decidable): `HdrSyntax`, `IntPartsCoded` (F14), `DmUncompressed` (F15),
`ConvSide`, `ConvLimits` — see Props/C04.lean §3; `Rpu.fillLinear` — the normalisation that replaces every EMPTY
`linear_interp_flag` vector by one `false` per piece (the static profile 8.4 mapping has empty vectors; the flag is
not in the syntax for pieces of order ≥ 1): identity on every `RpuWf` RPU, same bytes from the writer;
`Mapping.fillSafe` — no polynomial with an empty flag vector has a piece of order 0 (then the writer does not look
at the vector); `DmShape r d` — `DmWf r d` without its wire-normal part; `ValsFit b` — the block has at least the
values its length variant writes (a typing condition of the model: `Block.vals` is a list, the Rust structs have
all fields); `BlockNormal b` — `ValsFit b ∧ b.reparsed = b` (every value in the wire-normal form of its field,
stored length = `bytes_size()`; true of every parsed block: `parsed_block_is_wf`); `Nonempty40 d` — CM v4.0, if
present, has a block. -/
section Reach
open WfPreserve

/-- **write → parse up to the normalisation**: for every RPU whose normalisation is `RpuWf` and whose mapping is
`fillSafe`, the emitted bytes decode to the normalised RPU — to what was written, up to the representation of
`linear_interp_flag` entries that are not part of the syntax -/
theorem write_parse_sound_normalised (r : Rpu) (bytes : Bytes) (hw : writeRpu r = .ok bytes)
    (hwf : RpuWf r.fillLinear) (hs : ∀ m, r.rpu_data_mapping = some m → m.fillSafe = true) :
    ∃ crc, parseRpu bytes = .ok { r.fillLinear with rpu_data_crc32 := crc, modified := false } ∧
      (r.modified = false → crc = r.rpu_data_crc32) :=
  parseRpu_writeRpu_fill r bytes hw hwf hs

/-- the normalisation is the identity on well-formed RPUs, and the writer does not see it -/
theorem normalise_id_of_wf (r : Rpu) (hwf : RpuWf r) : r.fillLinear = r := fillLinear_of_RpuWf r hwf

theorem normalise_writes_same (r : Rpu) (hs : ∀ m, r.rpu_data_mapping = some m → m.fillSafe = true) :
    writeRpu r.fillLinear = writeRpu r := writeRpu_fill r hs

/-! ### conversions (statements with the side conditions and their witnesses: Props/C04.lean §3) -/

/-- **a parsed RPU, converted with any mode and written, decodes to the conversion result** (normalised for
mode 4; `fillLinear` is the identity for the other modes) — within the limits F14 / F15 (`ConvLimits`) -/
theorem converted_parsed_rpu_write_parse_sound (bytes0 out : Bytes) (r r' : Rpu) (m : Mode)
    (hp : parseRpu bytes0 = .ok r) (hs : ∀ mp, r.rpu_data_mapping = some mp → mp.seSmall = true)
    (hc : r.convertWithMode m = .ok r') (hl : ConvLimits m r) (hw : writeRpu r' = .ok out) :
    ∃ crc, parseRpu out = .ok { r'.fillLinear with rpu_data_crc32 := crc, modified := false } ∧
      (m ≠ .to84 → r'.fillLinear = r') :=
  convert_write_parse m r r' out (parsed_rpu_is_wf bytes0 r hp hs) hc hl hw

/-! ### DM-level block operations (`add_metadata_block`, `replace_metadata_block(s)`, `remove_metadata_level`) -/

/-- inserting a block keeps the shape of the DM payload (counts, levels in their containers, CM v4.0 non-empty,
…) as soon as the block carries enough values … -/
theorem add_block_preserves_shape (r : Rpu) (d d' : DmData) (b : Block) (hd : DmShape r d) (hb : ValsFit b)
    (h : d.addBlock b = .ok d') : DmShape r d' :=
  (addBlock_form d d' b h).shape hd hb

theorem replace_block_preserves_shape (r : Rpu) (d d' : DmData) (b : Block) (hd : DmShape r d) (hb : ValsFit b)
    (h : d.replaceBlock b = .ok d') : DmShape r d' :=
  (replaceBlock_form d d' b h).shape hd hb

theorem replace_blocks_preserve_shape (r : Rpu) (d d' : DmData) (bs : List Block) (hd : DmShape r d)
    (hb : ∀ b ∈ bs, ValsFit b) (h : d.replaceBlocks bs = .ok d') : DmShape r d' :=
  replaceBlocks_shape bs d d' hd h hb

/-- … and the whole of `DmWf` when the block is wire-normal -/
theorem add_block_preserves_wf (r : Rpu) (d d' : DmData) (b : Block) (hd : DmWf r d) (hb : BlockNormal b)
    (h : d.addBlock b = .ok d') : DmWf r d' :=
  (addBlock_form d d' b h).wf hd hb

theorem replace_block_preserves_wf (r : Rpu) (d d' : DmData) (b : Block) (hd : DmWf r d) (hb : BlockNormal b)
    (h : d.replaceBlock b = .ok d') : DmWf r d' :=
  (replaceBlock_form d d' b h).wf hd hb

theorem replace_blocks_preserve_wf (r : Rpu) (d d' : DmData) (bs : List Block) (hd : DmWf r d)
    (hb : ∀ b ∈ bs, BlockNormal b) (h : d.replaceBlocks bs = .ok d') : DmWf r d' :=
  replaceBlocks_wf bs d d' hd h hb

/-- removing a level keeps `DmShape` / `DmWf` unless it empties CM v4.0 (an empty CM v4.0 container is written
as 8 bits, and the parser then finds no CM v4.0 at all) -/
theorem remove_level_preserves_shape (r : Rpu) (d : DmData) (l : Nat) (hd : DmShape r d)
    (hn : Nonempty40 (d.removeLevel l)) : DmShape r (d.removeLevel l) :=
  removeLevel_shape d l hd hn

theorem remove_level_preserves_wf (r : Rpu) (d : DmData) (l : Nat) (hd : DmWf r d)
    (hn : Nonempty40 (d.removeLevel l)) : DmWf r (d.removeLevel l) :=
  removeLevel_wf d l hd hn

/-- removing a CM v2.9 level never empties CM v4.0 -/
theorem remove_level29_nonempty (d : DmData) (l : Nat) (hl : cmv29Levels.contains l = true) (hn : Nonempty40 d) :
    Nonempty40 (d.removeLevel l) :=
  removeLevel_nonempty29 d l hl hn

/-- `change_source_levels` (source min / max PQ) keeps an UNCOMPRESSED DM payload well formed (F15 otherwise) -/
theorem source_levels_preserve_wf (r : Rpu) (d : DmData) (hd : DmWf r d) (hc : d.compressed = false)
    (a b : Option Nat) : DmWf r (d.changeSourceLevels a b) :=
  changeSourceLevels_wf hd hc a b

/-! ### RPU-level edits -/

theorem crop_preserves_wf (r r' : Rpu) (hwf : RpuWf r) (h : r.crop = .ok r') : RpuWf r' := crop_wf r r' hwf h

theorem active_area_preserves_wf (r r' : Rpu) (l rr t b : Nat) (hwf : RpuWf r)
    (h : r.setActiveAreaOffsets l rr t b = .ok r') : RpuWf r' :=
  setActiveAreaOffsets_wf r r' l rr t b hwf h

/-- the editor's L6 / L9 / L11 / L255 options and any other `replace_metadata_block` at RPU level -/
theorem replace_block_rpu_preserves_wf (r r' : Rpu) (b : Block) (mod : Bool) (hwf : RpuWf r) (hb : BlockNormal b)
    (h : (match r.vdr_dm_data with
          | none => Res.ok { r with modified := mod }
          | some d => (d.replaceBlock b).bind fun d' => Res.ok { r with modified := mod, vdr_dm_data := some d' }) = .ok r') :
    RpuWf r' :=
  replaceBlock_rpu_wf r r' b mod hwf hb h

/-- the editor's `min_pq` / `max_pq` step -/
theorem source_levels_rpu_preserve_wf (r : Rpu) (hwf : RpuWf r) (hu : DmUncompressed r) (a b : Option Nat) :
    RpuWf { r with modified := true, vdr_dm_data := r.vdr_dm_data.map fun d => d.changeSourceLevels a b } :=
  changeSourceLevels_rpu_wf r hwf hu a b

/-- the editor's scene-cut step -/
theorem scene_flag_preserves_wf (r : Rpu) (hwf : RpuWf r) (v : Nat) :
    RpuWf (match r.vdr_dm_data with
           | some d => { r with modified := true, vdr_dm_data := some { d with scene_refresh_flag := v } }
           | none => r) :=
  sceneFlag_wf r hwf v

/-- the editor's `drop_l5` step -/
theorem drop_l5_preserves_wf (r : Rpu) (d : DmData) (hwf : RpuWf r) (hd : r.vdr_dm_data = some d) :
    RpuWf { r with modified := true, vdr_dm_data := some (d.removeLevel 5) } :=
  dropL5_wf r d hwf hd

/-- **`remove_cmv40` keeps `RpuWf` exactly when at most one byte precedes the CRC, or there was no CM v4.0**
(F16: otherwise the parser takes the data before the CRC for a CM v4.0 container) -/
theorem remove_cmv40_preserves_wf_iff (r : Rpu) (hwf : RpuWf r) :
    RpuWf r.removeCmv40 ↔
      ((∃ d, r.vdr_dm_data = some d ∧ d.cmv40.isSome = true) → (r.remaining.getD []).length ≤ 8) :=
  ⟨removeCmv40_wf_conv r, removeCmv40_wf r hwf⟩

/-- **`remove_mapping` keeps `RpuWf` exactly when the integer parts it synthesises are coded** (F14) -/
theorem remove_mapping_preserves_wf_iff (r : Rpu) (hwf : RpuWf r) : RpuWf r.removeMapping ↔ IntPartsCoded r :=
  ⟨removeMapping_wf_conv r hwf, removeMapping_wf r hwf⟩

/-! ### generator -/

/-- **the generator's base RPU** (`CfgOk`: four L5 / L6 values, wire-normal default blocks): profiles 5 / 8.1 are
`RpuWf`; profile 8.4 is `RpuWf` after the normalisation -/
theorem generator_base_wf (c : Gen.Config) (r : Rpu) (hc : CfgOk c) (h : Gen.baseRpu c = .ok r) :
    RpuWf r.fillLinear ∧ (∀ m, r.rpu_data_mapping = some m → m.fillSafe = true) ∧ (c.profile ≠ .p84 → RpuWf r) :=
  baseRpu_wf c r hc h

theorem generator_frame_wf (c : Gen.Config) (base r : Rpu) (s : Gen.Shot) (i : Nat) (hwf : RpuWf base)
    (hs : ShotOk s) (h : Gen.frameRpu c base s i = .ok r) : RpuWf r :=
  frameRpu_wf c base r s i hwf hs h

/-- **all generator outputs**: every RPU of `generate_rpu_list`, once written, decodes to itself — up to the
normalisation for profile 8.4, exactly for profiles 5 / 8.1 -/
theorem generated_rpus_write_parse_sound (c : Gen.Config) (rs : List Rpu) (hc : CfgOk c)
    (hs : ∀ s ∈ c.shots, ShotOk s) (h : Gen.generateList c = .ok rs) (r : Rpu) (hr : r ∈ rs) (bytes : Bytes)
    (hw : writeRpu r = .ok bytes) :
    ∃ crc, parseRpu bytes = .ok { r.fillLinear with rpu_data_crc32 := crc, modified := false } ∧
      (c.profile ≠ .p84 → r.fillLinear = r) := by
  obtain ⟨h1, h2⟩ := generateList_ok c rs hc hs h
  obtain ⟨crc, hp, _⟩ := parseRpu_writeRpu_fill r bytes hw (h1 r hr).1 (h1 r hr).2
  exact ⟨crc, hp, fun hne => fillLinear_of_RpuWf r (h2 hne r hr)⟩

/-! ### any sequence of operations

`WfN r` := `RpuWf r.fillLinear ∧ (mapping of r is fillSafe)` — "well formed up to the normalisation"; every parse
result and every generator output satisfies it.  `Step r r'` (Proofs/WfPreserve.lean) is one operation of the
tool with its side condition: `convert m` (`ConvSide m r`), `crop`, `activeArea`, `addBlock` / `replaceBlock` /
`replaceBlocks` (`BlockNormal`), `removeLevel` (`Nonempty40` of the result), `sourceLevels` (`DmUncompressed`),
`sceneCut`, `removeCmv40` (`Cmv40Removable`: F16), `removeMapping` (`IntPartsCoded`: F14), `setModified`.
`Steps` is its reflexive-transitive closure. -/

/-- every parse result is `WfN` … -/
theorem parsed_rpu_is_wfn (bytes : Bytes) (r : Rpu) (hp : parseRpu bytes = .ok r)
    (hs : ∀ m, r.rpu_data_mapping = some m → m.seSmall = true) : WfN r :=
  WfN_of_RpuWf r (parsed_rpu_is_wf bytes r hp hs)

/-- … every operation preserves it … -/
theorem step_preserves_wfn (r r' : Rpu) (h : Step r r') (hwf : WfN r) : WfN r' := h.wfN hwf

/-- … hence any sequence of operations does … -/
theorem steps_preserve_wfn (r r' : Rpu) (h : Steps r r') (hwf : WfN r) : WfN r' := h.wfN hwf

/-- … and whatever is written for a `WfN` RPU decodes to its normalisation -/
theorem wfn_write_parse_sound (r : Rpu) (bytes : Bytes) (hwf : WfN r) (hw : writeRpu r = .ok bytes) :
    ∃ crc, parseRpu bytes = .ok { r.fillLinear with rpu_data_crc32 := crc, modified := false } ∧
      (r.modified = false → crc = r.rpu_data_crc32) :=
  hwf.write_parse bytes hw

/-- **C03 for edited RPUs**: a parsed RPU after ANY sequence of conversions, crops, active-area / L6 / L9 / L11 /
L255 / source-PQ / scene-cut edits and block insert / replace / remove operations (each within its stated limit),
once written, is accepted by the tool's own parser and decodes to exactly what was written — up to the
normalisation `fillLinear`, which is the identity unless a mode 4 conversion put the static profile 8.4 mapping
there -/
theorem edited_parsed_rpu_write_parse_sound (bytes0 out : Bytes) (r r' : Rpu)
    (hp : parseRpu bytes0 = .ok r) (hs : ∀ m, r.rpu_data_mapping = some m → m.seSmall = true)
    (hsteps : Steps r r') (hw : writeRpu r' = .ok out) :
    ∃ crc, parseRpu out = .ok { r'.fillLinear with rpu_data_crc32 := crc, modified := false } ∧
      (r'.modified = false → crc = r'.rpu_data_crc32) :=
  (hsteps.wfN (parsed_rpu_is_wfn bytes0 r hp hs)).write_parse out hw

/-- **C03 for generator outputs, edited or not** -/
theorem edited_generated_rpu_write_parse_sound (c : Gen.Config) (rs : List Rpu) (hc : CfgOk c)
    (hs : ∀ s ∈ c.shots, ShotOk s) (h : Gen.generateList c = .ok rs) (r r' : Rpu) (hr : r ∈ rs)
    (hsteps : Steps r r') (out : Bytes) (hw : writeRpu r' = .ok out) :
    ∃ crc, parseRpu out = .ok { r'.fillLinear with rpu_data_crc32 := crc, modified := false } ∧
      (r'.modified = false → crc = r'.rpu_data_crc32) :=
  (hsteps.wfN ((generateList_ok c rs hc hs h).1 r hr)).write_parse out hw

def okOr {α} [Inhabited α] (x : Res α) : α := match x with | .ok r => r | _ => default

/-- non-vacuity: `exRpu` (a parse result: see `exBytes` above), converted with mode 4, cropped, given a new
source level and an identity mapping (`remove_mapping`), is written; the theorem applies -/
def ex1 : Rpu := okOr (exRpu.convertWithMode .to84)
def ex2 : Rpu := okOr ex1.crop
def ex3 : Rpu :=
  { ex2 with modified := true, vdr_dm_data := ex2.vdr_dm_data.map fun (d : DmData) => d.changeSourceLevels (some 7) none }
def exEdited : Rpu := ex3.removeMapping

set_option maxRecDepth 100000 in
example : Steps exRpu exEdited ∧ (writeRpu exEdited).isOk = true ∧ ex1.fillLinear ≠ ex1 := by
  have s1 : Step exRpu ex1 := .convert .to84 (by decide) (by decide)
  have s2 : Step ex1 ex2 := .crop (by decide)
  have s3 : Step ex2 ex3 := .sourceLevels (some 7) none (by decide)
  have s4 : Step ex3 exEdited := .removeMapping (by decide)
  exact ⟨.tail (.tail (.tail (.tail (.refl _) s1) s2) s3) s4, by decide, by decide⟩

/-! ### the editor pipeline (`Editor::edit`)

`HdrTame r` := `HdrSyntax r.header ∧ IntPartsCoded r ∧ DmUncompressed r ∧ r.remaining = none` — the header-level
limits (F14, F15, F16); no operation leaves this class (`Step.hdrTame`).  `Tame r` := `WfN r ∧ HdrTame r`.
`EditCfgOk c` — the blocks the editor builds from its configuration are wire-normal (L6: 4 values, L255: 6 values,
L11: a wire-normal block, i.e. 5 values, whitepoint ≤ 15, flag ∈ {0, 1}). -/

/-- every parse result within the three limits is tame (`HdrSyntax` follows from the parser's validation) -/
theorem parsed_rpu_is_tame (bytes : Bytes) (r : Rpu) (hp : parseRpu bytes = .ok r)
    (hs : ∀ m, r.rpu_data_mapping = some m → m.seSmall = true)
    (hi : IntPartsCoded r) (hd : DmUncompressed r) (hrem : r.remaining = none) : Tame r :=
  Tame_of_parse bytes r hp hs hi hd hrem

/-- no operation leaves the tame class -/
theorem steps_preserve_tame (r r' : Rpu) (h : Steps r r') (ht : Tame r) : Tame r' := h.tame ht

/-- **`execute_single_rpu`** (remove CM v4.0, convert, source levels, remove mapping, L6 / L9 / L11 / L255,
scene cuts, crop / drop L5 / active-area presets) on a tame RPU is a sequence of `Step`s, each within its limit -/
theorem editor_single_is_steps (c : Editor.Config) (r r' : Rpu) (ht : Tame r) (hc : EditCfgOk c)
    (h : Editor.executeSingle c r = .ok r') : Steps r r' :=
  executeSingle_steps c r r' ht hc h

/-- **`EditConfig::execute`** (frame removal, per-frame operations, scene-cut ranges, active-area ranges, level
replacement from a source list) keeps every remaining frame tame -/
theorem editor_execute_tame (c : Editor.Config) (rpus out : List (Option Rpu)) (hc : EditCfgOk c)
    (hsrc : ∀ src, c.source = some src → ∀ s ∈ src, WfN s) (hin : AllSome Tame rpus)
    (h : Editor.execute c rpus = .ok out) : AllSome Tame out :=
  execute_tame c rpus out hc hsrc hin h

/-- **C03 for the editor, end to end**: every NAL `Editor::edit` writes (after duplication) is `7C 01` + the
escaped `write_rpu_data` output of an in-memory RPU `r` of the pipeline, and that output is accepted by the
parser and decodes to `r` (normalised: exactly `r` unless a mode 4 conversion is involved) -/
theorem editor_output_decodes (c : Editor.Config) (rpus : List Rpu) (nals : List Bytes) (hc : EditCfgOk c)
    (hsrc : ∀ src, c.source = some src → ∀ s ∈ src, WfN s) (hin : ∀ r ∈ rpus, Tame r)
    (h : Editor.edit c rpus = .ok nals) :
    ∀ nal ∈ nals, ∃ r o crc, Tame r ∧ writeRpu r = .ok o ∧ nal = 0x7C :: 0x01 :: Esc.escape o ∧
      parseRpu o = .ok { r.fillLinear with rpu_data_crc32 := crc, modified := false } :=
  edit_nals_decode c rpus nals hc hsrc hin h

/-- non-vacuity: `exRpu` is tame, and the editor with mode 2, `remove_cmv4`, a crop, new source levels, an L6 and
an L9 edit and a duplicated frame accepts it and writes two NALs -/
def exEditCfg : Editor.Config :=
  { mode := 2, removeCmv4 := true, minPq := some 7, hasActiveArea := true, crop := true,
    level6 := some [4000, 50, 1000, 400], level9 := some 2, duplicate := some [(0, 1, 1)] }

set_option maxRecDepth 100000 in
example : Tame exRpu ∧ EditCfgOk exEditCfg ∧ (okOr (Editor.edit exEditCfg [exRpu])).length = 2 ∧
    ∃ nals, Editor.edit exEditCfg [exRpu] = .ok nals := by
  refine ⟨⟨WfN_of_RpuWf _ exRpu_wf.1, ⟨by decide, by decide, by decide, by decide⟩⟩, ⟨?_, ?_, ?_⟩, by decide, ?_⟩
  · intro v hv; injection hv with hv; subst hv; rfl
  · intro v hv; cases hv
  · intro v hv; cases hv
  · exact ⟨okOr (Editor.edit exEditCfg [exRpu]), by decide⟩

/-! ### witnesses: every hypothesis above is needed -/

/-- F16: the generator's CM v4.0 RPU with two bytes before the CRC is well formed and valid; after `remove_cmv40`
it is still valid (so it is written) but no longer `RpuWf` -/
def f16Rpu : Rpu := { exRpu with remaining := some (List.replicate 16 false) }

set_option maxRecDepth 100000 in
theorem f16_witness : RpuWf f16Rpu ∧ f16Rpu.validate = true ∧ f16Rpu.removeCmv40.validate = true ∧
    ¬ RpuWf f16Rpu.removeCmv40 := by decide

/-- removing L254 from a CM v4.0 container that holds nothing else leaves an empty container: not `DmWf`
(here the validator notices: exactly one L254 is required) -/
example : DmWf {} (d0 .p81 true) ∧ ¬ DmWf {} ((d0 .p81 true).removeLevel 254) ∧
    ((d0 .p81 true).removeLevel 254).validate = false := by decide

/-- `BlockNormal`: an L9 block of length 1 with custom primaries (possible in memory: the Rust fields are public)
passes the block validator and the RPU validator, but its primaries are not written -/
def looseL9 : Block := { level := 9, length := 1, vals := [0, 1, 2, 3, 4, 5, 6, 7, 8] }

def exDm : DmData := exRpu.vdr_dm_data.getD {}
def looseDm : DmData := okOr (exDm.replaceBlock looseL9)

set_option maxRecDepth 100000 in
example : ¬ BlockNormal looseL9 ∧ blockValidate looseL9 = true ∧ exRpu.vdr_dm_data = some exDm ∧ DmWf exRpu exDm ∧
    exDm.replaceBlock looseL9 = .ok looseDm ∧ looseDm.validate = true ∧ DmShape exRpu looseDm ∧
    ¬ DmWf exRpu looseDm := by
  have hd : DmWf exRpu exDm := by decide
  have hr : exDm.replaceBlock looseL9 = .ok looseDm := by decide
  refine ⟨by decide, by decide, by decide, hd, hr, by decide, ?_, by decide⟩
  exact replace_block_preserves_shape exRpu exDm looseDm looseL9 ((DmWf_iff _ _).mp hd).1
    (by intro ws h; simp [looseL9, blockWriteLayout] at h; subst h; decide) hr

/-- F15 for the source levels: on a compressed DM payload `change_source_levels` changes memory only -/
example : DmWf { header := { p8DefaultHeader with reserved_zero_3bits := 1 } } { compressed := true, cmv29 := some {} } ∧
    ¬ DmWf { header := { p8DefaultHeader with reserved_zero_3bits := 1 } }
        (({ compressed := true, cmv29 := some {} } : DmData).changeSourceLevels (some 7) none) := by decide

/-- `CfgOk` is a typing condition of the model (`level5` is a four-field struct in Rust): with three values the
block the model builds is not wire-normal -/
example : ¬ BlockNormal { level := 5, length := 7, vals := ([1, 2, 3] : List Nat).map Int.ofNat } := by decide

/-- non-vacuity of the generator theorems: a profile 8.4 configuration with CM v4.0, an L6 block, default L1 / L2
blocks and one shot of two frames with a per-frame edit; two RPUs are generated and written -/
def exCfg : Gen.Config :=
  { profile := .p84, level6 := some [1000, 1, 1000, 400], length := 2,
    defaults := [{ level := 2, length := 11, vals := [2081, 2048, 2048, 2048, 2048, 2048, -1] }],
    shots := [{ start := 0, duration := 2, blocks := [{ level := 1, length := 5, vals := [0, 3000, 1300] }],
                edits := [{ offset := 1, blocks := [{ level := 1, length := 5, vals := [0, 3100, 1400] }] }] }] }

def exGen (i : Nat) : Rpu := (okOr (Gen.generateList exCfg)).getD i default

set_option maxRecDepth 100000 in
example : CfgOk exCfg ∧ (∀ s ∈ exCfg.shots, ShotOk s) ∧
    Gen.generateList exCfg = .ok [exGen 0, exGen 1] ∧ (writeRpu (exGen 0)).isOk = true ∧
    (writeRpu (exGen 1)).isOk = true ∧ (exGen 0).fillLinear ≠ exGen 0 ∧ exGen 0 ≠ exGen 1 := by
  refine ⟨⟨rfl, ?_, ?_⟩, ?_, ?_⟩
  · intro v hv; injection hv with hv; subst hv; rfl
  · intro b hb
    simp only [exCfg, List.mem_singleton] at hb
    subst hb; decide
  · intro s hs
    simp only [exCfg, List.mem_singleton] at hs
    subst hs
    refine ⟨?_, ?_⟩
    · intro b hb; simp only [List.mem_singleton] at hb; subst hb; decide
    · intro e he b hb
      simp only [List.mem_singleton] at he; subst he
      simp only [List.mem_singleton] at hb; subst hb; decide
  · exact ⟨by decide, by decide, by decide, by decide, by decide⟩

end Reach

end Dovi.C03
