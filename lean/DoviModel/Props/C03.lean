import DoviModel.Model.Ops
import DoviModel.Proofs.Bits
/-! # C03 — every emitted RPU is well-formed and decodes to what was written (theorems; extended in Proofs/) -/
namespace Dovi.C03
open Dovi

/-- a successful write ends with the CRC-32 of what precedes it, the 0x80 terminator, then only the
remembered trailing zero bytes -/
theorem write_wellformed_tail (r : Rpu) (out : Bytes) (hw : writeRpu r = .ok out) :
    ∃ body : Bytes, out = body ++ bitsToBytes (toBits 32 (crc32 (body.drop 1))) ++ [0x80] ++ List.replicate r.trailing_zeroes 0 := by
  unfold writeRpu at hw
  split at hw
  · cases hw
  · cases hb : writeBody r with
    | error => simp [hb, Res.bind] at hw
    | panic => simp [hb, Res.bind] at hw
    | ok body =>
      simp only [hb, Res.bind] at hw
      split at hw
      · cases hw
      · injection hw with hw
        exact ⟨_, hw.symm⟩

/-- a value that does not fit its field is never truncated: `write_n` fails -/
theorem writeN_no_truncation (n v : Nat) (h : 2^n ≤ v) : writeN n v = .error := by
  simp [writeN]; omega

/-- a block whose values violate the level's `validate()` is not written -/
theorem invalid_block_not_written (b : Block) (h : blockValidate b = false) : ∀ w, writeBlock b ≠ .ok w := by
  intro w hw
  unfold writeBlock at hw
  simp only [h, Bool.not_false, Bool.and_true, Bool.false_eq_true, if_false] at hw
  split at hw
  · cases hw
  · split at hw
    · cases hw
    · split at hw
      · cases hw
      · cases ha : writeUe (blockBytes b.level b.length) <;> cases hb2 : writeN 8 b.level <;>
          simp [ha, hb2, wcat, Res.bind] at hw

/-- an RPU failing `validate()` (counts per level, level in the wrong container, header ranges) is not written -/
theorem invalid_rpu_not_written (r : Rpu) (h : r.validate = false) : writeRpu r = .error := by
  simp [writeRpu, h]

end Dovi.C03
