import DoviModel.Model.Ops
import DoviModel.Model.Generate
import DoviModel.Proofs.Rpu
import DoviModel.Proofs.ParseWf
import DoviModel.Props.SourceTie
/-! # C03 — every emitted RPU is well-formed and decodes to what was written (theorems; extended in Proofs/) -/
namespace Dovi.C03
open Dovi

/-- a successful write ends with the CRC-32 of what precedes it, the 0x80 terminator, then only the
remembered trailing zero bytes -/
theorem write_wellformed_tail (r : Rpu) (out : Bytes) (hw : writeRpu r = .ok out) :
    ∃ body : Bytes, out = body ++ bitsToBytes (toBits 32 (crc32 (body.drop 1))) ++ [0x80] ++ List.replicate r.trailing_zeroes 0 := by
  unfold writeRpu at hw
  split at hw
  · cases hw
  · cases hb : writeBody r with
    | error => simp [hb, Res.bind] at hw
    | panic => simp [hb, Res.bind] at hw
    | ok body =>
      simp only [hb, Res.bind] at hw
      split at hw
      · cases hw
      · injection hw with hw
        exact ⟨_, hw.symm⟩

/-- a value that does not fit its field is never truncated: `write_n` fails -/
theorem writeN_no_truncation (n v : Nat) (h : 2^n ≤ v) : writeN n v = .error := by
  simp [writeN]; omega

/-- a block whose values violate the level's `validate()` is not written -/
theorem invalid_block_not_written (b : Block) (h : blockValidate b = false) : ∀ w, writeBlock b ≠ .ok w := by
  intro w hw
  unfold writeBlock at hw
  simp only [h, Bool.not_false, Bool.and_true, Bool.false_eq_true, if_false] at hw
  split at hw
  · cases hw
  · split at hw
    · cases hw
    · split at hw
      · cases hw
      · cases ha : writeUe (blockBytes b.level b.length) <;> cases hb2 : writeN 8 b.level <;>
          simp [ha, hb2, wcat, Res.bind] at hw

/-- an RPU failing `validate()` (counts per level, level in the wrong container, header ranges) is not written -/
theorem invalid_rpu_not_written (r : Rpu) (h : r.validate = false) : writeRpu r = .error := by
  simp [writeRpu, h]

/-! ## decodes to exactly what was written (write → parse), proved bottom-up in `Proofs/` -/

/-- **C03, main theorem.** For every in-memory RPU `r` of the shape the parser builds (`RpuWf`: header,
mapping/NLQ and DM payload have the shape of a parse result and every stored value is in the wire-normal form
of its field) — whatever `write_rpu_data` emits is accepted by the tool's own parser and decodes to exactly `r`:
every header, mapping, NLQ and DM field, every extension block in order with its length, the data before the
CRC and the trailing zeros; the CRC-32 field is the CRC of the emitted payload (the stored one if `r` is
unmodified) and the terminator is 0x80. Unbounded: any number of pivots, pieces, blocks, any field values. -/
theorem write_parse_sound (r : Rpu) (bytes : Bytes) (hw : writeRpu r = .ok bytes) (hwf : RpuWf r) :
    ∃ crc, parseRpu bytes = .ok { r with rpu_data_crc32 := crc, modified := false } ∧
      (r.modified = false → crc = r.rpu_data_crc32) :=
  parseRpu_writeRpu r bytes hw hwf

/-- one extension block: length byte(s), level byte, the level's fields at the widths of its length variant,
zero padding to the declared length — read back by the block parser (any level allowed in that container) -/
theorem block_write_parse (allowed other : List Nat) (b : Block) (w r : Bits)
    (hw : writeBlock b = .ok w)
    (hal : allowed.contains b.level = true) (hot : other.contains b.level = false)
    (hlen : ∀ ws, blockWriteLayout b.level b.length = some ws → ws.length ≤ (blockWriteVals b).length) :
    parseBlock allowed other (w ++ r) =
      .ok ({ level := b.level, length := blockBytes b.level b.length, vals := reparsedVals b }, r) :=
  parseBlock_writeBlock allowed other b w r hw hal hot hlen

/-- the values read back are the values held, for every level other than L2/L11 (non-negative fields, fields
beyond a short L8/L9/L10 at their defaults) -/
theorem block_values_exact (b : Block) (ws : List Nat) (hlay : blockWriteLayout b.level b.length = some ws)
    (h2 : b.level ≠ 2) (h11 : b.level ≠ 11) (hlen : ws.length ≤ b.vals.length)
    (hnn : ∀ v ∈ b.vals, 0 ≤ v)
    (hdef : (blockDefaults b.level).drop ws.length = b.vals.drop ws.length) :
    reparsedVals b = b.vals :=
  reparsedVals_eq b ws hlay h2 h11 hlen hnn hdef

/-- a whole extension-block container (count, alignment, blocks) at any bit position of an aligned stream -/
theorem container_write_parse (allowed other : List Nat) (pos : Nat) (c : Container) (w r : Bits)
    (hw : writeContainer pos c = .ok w)
    (hn : c.num_ext_blocks = c.blocks.length)
    (hfit : ∀ b ∈ c.blocks, BlockFits allowed other b)
    (halign : (pos + (w ++ r).length) % 8 = 0) :
    parseContainer allowed other (w ++ r) =
      .ok ({ num_ext_blocks := c.blocks.length, blocks := c.blocks.map Block.reparsed }, r) :=
  parseContainer_writeContainer allowed other pos c w r hw hn hfit halign

/-- `rpu_data_header` -/
theorem header_write_parse (h : Header) (w r : Bits) (hw : writeHeader h = .ok w) (hwf : h.Wf = true) :
    parseHeader (w ++ r) = .ok ({ h with rpu_nal_prefix := 0 }, r) :=
  parseHeader_writeHeader h w r hw hwf

/-- `rpu_data_mapping` + NLQ -/
theorem mapping_write_parse (h : Header) (m : Mapping) (w r : Bits)
    (hw : writeMapping h m = .ok w) (hwf : MappingWf h m = true) :
    parseMapping h (w ++ r) = .ok (m, r) :=
  parseMapping_writeMapping h m w r hw hwf

/-! ### non-vacuity: the generator's profile 8.1 CM v4.0 base RPU meets `RpuWf` and is written -/

def exRpu : Rpu :=
  match Dovi.Gen.baseRpu { level6 := some [1000, 1, 1000, 400] } with
  | .ok r => r
  | _ => default

theorem BlockFits_of_dec (allowed other : List Nat) (b : Block)
    (h : (allowed.contains b.level && !other.contains b.level && b.level != 0 &&
          (match blockWriteLayout b.level b.length with
           | some ws => decide (ws.length ≤ (blockWriteVals b).length)
           | none => true)) = true) : BlockFits allowed other b := by
  simp only [Bool.and_eq_true, Bool.not_eq_true', bne_iff_ne, ne_eq] at h
  obtain ⟨⟨⟨h1, h2⟩, h3⟩, h4⟩ := h
  refine ⟨h1, h2, h3, ?_⟩
  intro ws hws
  rw [hws] at h4
  simpa using h4

theorem exRpu_wf : RpuWf exRpu ∧ (writeRpu exRpu).isOk = true := by
  refine ⟨⟨by decide, by decide, by decide, by decide, ?_, ?_, ?_⟩, by decide⟩
  · exact ⟨_, rfl, by decide⟩
  · refine ⟨_, rfl, ⟨by decide, ⟨_, rfl, ⟨by decide, ?_⟩⟩, ?_, by decide, by decide, by decide⟩⟩
    · intro b hb
      apply BlockFits_of_dec
      revert b
      decide
    · intro c hc
      injection hc with hc
      subst hc
      refine ⟨⟨by decide, ?_⟩, by decide⟩
      intro b hb
      apply BlockFits_of_dec
      revert b
      decide
  · intro rem hr
    cases hr

/-- **source tie** (regenerated on every run from /repo by tools/gen_source_layouts.py): the field widths,
`length > k` thresholds, field order, `bytes_size()` and `required_bits()` of every extension-block level and
the 32 codings of the `vdr_dm_data` payload, as they stand in the Rust sources now, are the tables the model —
and therefore every theorem about the emitted RPUs — is built on -/
theorem source_layouts_agree :
    (∀ level length, Src.blockParse level length = blockParseLayout level length) ∧
    (∀ level length, Src.blockWrite level length = blockWriteLayout level length) ∧
    (∀ level length, Src.blockBytes level length = blockBytes level length) ∧
    (∀ level length, level ≠ 0 → Src.blockRequired level length = blockRequiredBits level length) ∧
    Src.dmMainParse.map SourceTie.conv = dmMainParseLayout ∧
    Src.dmMainWrite.map SourceTie.conv = dmMainWriteLayout ∧
    Src.signedFields = [(2, 6)] :=
  ⟨SourceTie.parse_layout_from_source, SourceTie.write_layout_from_source, SourceTie.bytes_from_source,
   SourceTie.required_from_source, SourceTie.dm_parse_from_source, SourceTie.dm_write_from_source,
   SourceTie.signed_from_source⟩

/-! ## every parse result is inside the hypothesis of `write_parse_sound` (parse → shape), proved bottom-up in
`Proofs/ParseWf.lean` -/

/-- every RPU the parser returns is inside the hypothesis of `write_parse_sound` -/
theorem parsed_rpu_is_wf (bytes : Bytes) (r : Rpu) (hp : parseRpu bytes = .ok r)
    (hs : ∀ m, r.rpu_data_mapping = some m → m.seSmall = true) : RpuWf r :=
  parseRpu_wf bytes r hp hs

/-- hence: whatever the parser returned, once it is written the output decodes to it again (no shape hypothesis
left; `seSmall` is the `f64` bound of the third-party `get_se`) -/
theorem parsed_rpu_write_parse_sound (bytes out : Bytes) (r : Rpu) (hp : parseRpu bytes = .ok r)
    (hs : ∀ m, r.rpu_data_mapping = some m → m.seSmall = true) (hw : writeRpu r = .ok out) :
    ∃ crc, parseRpu out = .ok { r with rpu_data_crc32 := crc, modified := false } ∧
      (r.modified = false → crc = r.rpu_data_crc32) :=
  write_parse_sound r out hw (parsed_rpu_is_wf bytes r hp hs)

/-- `rpu_data_header`: every parsed header has the shape `Header.Wf` (absent parts at their defaults, derived
`coefficient_log2_denom_length`, packed `el_bit_depth`/`ext_mapping_idc` in range) -/
theorem parsed_header_is_wf (s t : Bits) (h : Header) (hp : parseHeader s = .ok (h, t)) : h.Wf = true :=
  ParseWf.parseHeader_wf hp

/-- one extension block: every parsed block belongs to its container, carries at least the fields its length
variant writes, and is in wire-normal form (re-encoding and re-decoding its values — incl. the 13-bit two's
complement L2 `ms_weight` and the folded L11 whitepoint byte — gives the same block) -/
theorem parsed_block_is_wf (allowed other : List Nat) (s t : Bits) (b : Block)
    (hp : parseBlock allowed other s = .ok (b, t)) : BlockFits allowed other b ∧ b.reparsed = b :=
  ParseWf.parseBlock_wf hp

/-- a whole extension-block container -/
theorem parsed_container_is_wf (allowed other : List Nat) (s t : Bits) (c : Container)
    (hp : parseContainer allowed other s = .ok (c, t)) : ContainerOk allowed other c ∧ c.reparsed = c :=
  ParseWf.parseContainer_wf hp

/-- `vdr_dm_data`: compressed flag from the header, 32 main values each in the range of its coding (wire-normal),
CM v2.9 always present, and without CM v4.0 fewer than 56 bits follow -/
theorem parsed_dm_is_wf (h : Header) (s t : Bits) (d : DmData) (hp : parseDmData h s = .ok (d, t)) :
    (h.reserved_zero_3bits == 1) = d.compressed ∧ d.main.length = 32 ∧ d.reparsed = d ∧
    (∃ c, d.cmv29 = some c ∧ ContainerOk cmv29Levels cmv40Levels c) ∧
    (∀ c, d.cmv40 = some c → ContainerOk cmv40Levels cmv29Levels c) ∧
    (d.cmv40 = none → t.length < 56) :=
  ParseWf.parseDmData_wf hp

/-- `read_rpu_data` on any bit string (no whole-bytes assumption): a validated result is `RpuWf` -/
theorem parsed_rpu_data_is_wf (bits rest : Bits) (r : Rpu) (hp : readRpuData bits = .ok (r, rest))
    (hval : r.validate = true) (hs : ∀ m, r.rpu_data_mapping = some m → m.seSmall = true) : RpuWf r :=
  ParseWf.readRpuData_wf hp hval hs

/-! ### non-vacuity: the bytes written for `exRpu` are accepted by the parser, with a mapping inside the bound -/

def exBytes : Bytes :=
  match writeRpu exRpu with
  | .ok b => b
  | _ => []

example : ∃ r, parseRpu exBytes = .ok r ∧ r.rpu_data_mapping.isSome = true ∧ r.vdr_dm_data.isSome = true ∧
    (∀ m, r.rpu_data_mapping = some m → m.seSmall = true) := by
  have hw : writeRpu exRpu = .ok exBytes := by
    have hok := exRpu_wf.2
    unfold exBytes
    cases h : writeRpu exRpu with
    | ok b => rfl
    | error => rw [h] at hok; cases hok
    | panic => rw [h] at hok; cases hok
  obtain ⟨crc, hp, _⟩ := write_parse_sound exRpu exBytes hw exRpu_wf.1
  refine ⟨_, hp, (by decide : exRpu.rpu_data_mapping.isSome = true), (by decide : exRpu.vdr_dm_data.isSome = true), ?_⟩
  intro m hm
  have hall : exRpu.rpu_data_mapping.all Mapping.seSmall = true := by decide
  have hm' : exRpu.rpu_data_mapping = some m := hm
  rw [hm'] at hall
  exact hall

end Dovi.C03
