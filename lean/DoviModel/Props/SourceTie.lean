import DoviModel.Model.RpuWrite
import DoviModel.Gen.SourceLayouts
/-!
# Source tie for the data-driven part of the RPU syntax

`DoviModel/Gen/SourceLayouts.lean` is regenerated from the Rust sources of /repo on every run
(tools/gen_source_layouts.py). These theorems state that the regenerated tables are the tables of the
hand-written model, for every level and every length: a source edit that changes a field width, a `length > k`
threshold, the field order, `bytes_size()` or `required_bits()` of an extension block, or a coding of the
`vdr_dm_data` payload, breaks one of them.
-/
namespace Dovi.SourceTie
open Dovi

theorem parse_layout_from_source (level length : Nat) : Src.blockParse level length = blockParseLayout level length := by
  unfold Src.blockParse blockParseLayout
  split <;> first | rfl | (split <;> first | rfl | simp_all)

theorem write_layout_from_source (level length : Nat) : Src.blockWrite level length = blockWriteLayout level length := by
  unfold Src.blockWrite blockWriteLayout
  split <;> first | rfl | (split <;> first | rfl | simp_all)

theorem bytes_from_source (level length : Nat) : Src.blockBytes level length = blockBytes level length := by
  unfold Src.blockBytes blockBytes
  split <;> first | rfl | (split <;> first | rfl | simp_all)

/-- (the model additionally gives level 0 — a Reserved block built through the API — 0 required bits) -/
theorem required_from_source (level length : Nat) (h0 : level ≠ 0) :
    Src.blockRequired level length = blockRequiredBits level length := by
  unfold Src.blockRequired blockRequiredBits
  split <;> first | rfl | (split <;> first | rfl | simp_all)

def conv : Src.F → Fld
  | .u n => .u n
  | .s16 => .s16

theorem dm_parse_from_source : Src.dmMainParse.map conv = dmMainParseLayout := by decide

theorem dm_write_from_source : Src.dmMainWrite.map conv = dmMainWriteLayout := by decide

/-- the only field written with `write_signed_n` is L2's 13-bit `ms_weight` (index 6), which is the one field
the model writes with `writeSigned16` -/
theorem signed_from_source : Src.signedFields = [(2, 6)] := by decide

theorem signed_field_is_l2_13 (level w : Nat) (v : Int) :
    writeBlockField level w v = (if level == 2 && w == 13 then writeSigned16 13 v else writeN w v.toNat) := rfl

end Dovi.SourceTie
