import DoviModel.Model.RpuWrite
import DoviModel.Gen.SourceLayouts
import DoviModel.Gen.SourceRules
import DoviModel.Model.Json
/-!
# Source tie for the data-driven part of the RPU syntax

`DoviModel/Gen/SourceLayouts.lean` is regenerated from the Rust sources of /repo on every run
(tools/gen_source_layouts.py). These theorems state that the regenerated tables are the tables of the
hand-written model, for every level and every length: a source edit that changes a field width, a `length > k`
threshold, the field order, `bytes_size()` or `required_bits()` of an extension block, or a coding of the
`vdr_dm_data` payload, breaks one of them.
-/
namespace Dovi.SourceTie
open Dovi

theorem parse_layout_from_source (level length : Nat) : Src.blockParse level length = blockParseLayout level length := by
  unfold Src.blockParse blockParseLayout
  split <;> first | rfl | (split <;> first | rfl | simp_all)

theorem write_layout_from_source (level length : Nat) : Src.blockWrite level length = blockWriteLayout level length := by
  unfold Src.blockWrite blockWriteLayout
  split <;> first | rfl | (split <;> first | rfl | simp_all)

theorem bytes_from_source (level length : Nat) : Src.blockBytes level length = blockBytes level length := by
  unfold Src.blockBytes blockBytes
  split <;> first | rfl | (split <;> first | rfl | simp_all)

/-- (the model additionally gives level 0 — a Reserved block built through the API — 0 required bits) -/
theorem required_from_source (level length : Nat) (h0 : level ≠ 0) :
    Src.blockRequired level length = blockRequiredBits level length := by
  unfold Src.blockRequired blockRequiredBits
  split <;> first | rfl | (split <;> first | rfl | simp_all)

def conv : Src.F → Fld
  | .u n => .u n
  | .s16 => .s16

theorem dm_parse_from_source : Src.dmMainParse.map conv = dmMainParseLayout := by decide

theorem dm_write_from_source : Src.dmMainWrite.map conv = dmMainWriteLayout := by decide

/-- the only field written with `write_signed_n` is L2's 13-bit `ms_weight` (index 6), which is the one field
the model writes with `writeSigned16` -/
theorem signed_from_source : Src.signedFields = [(2, 6)] := by decide

theorem signed_field_is_l2_13 (level w : Nat) (v : Int) :
    writeBlockField level w v = (if level == 2 && w == 13 then writeSigned16 13 v else writeN w v.toNat) := rfl

/-! ## validation rules (tools/gen_source_rules.py → Gen/SourceRules.lean) -/

/-- the struct fields of every block level, in declaration order, are the names (and hence the `vals` positions)
the model uses -/
theorem block_names_from_source (level : Nat) : Src.blockFieldNames level = blockFieldNames level := by
  unfold Src.blockFieldNames blockFieldNames
  split <;> first | rfl | (split <;> first | rfl | simp_all)

private theorem beq_iff {a b : Bool} : a = b ↔ (a = true ↔ b = true) := by
  cases a <;> cases b <;> simp

/-- every level's `validate()` in the source is the model's `blockValidate`, for every block -/
theorem block_validate_from_source (b : Block) : Src.blockValidate b = blockValidate b := by
  obtain ⟨level, length, vals⟩ := b
  unfold Src.blockValidate blockValidate
  simp only []
  split <;> first
    | rfl
    | (simp only [validBlockLength]; rw [beq_iff]; simp [List.range, List.range.loop, Bool.and_assoc, and_assoc] <;> omega)
    | (split <;> first | rfl | simp_all)

/-- `RpuDataHeader::validate(profile)` in the source is the model's `Header.validate` -/
theorem header_validate_from_source (h : Header) (profile : Nat) :
    Src.headerValidate h profile = h.validate profile := by
  unfold Src.headerValidate Header.validate
  split <;> simp_all

/-- `VdrDmData::validate()` in the source is the model's `DmData.validate` -/
theorem dm_validate_from_source (d : DmData) : Src.dmValidate d = d.validate := by
  cases hc : d.compressed <;> cases h29 : d.cmv29 <;> cases h40 : d.cmv40 <;>
    simp [Src.dmValidate, DmData.validate, hc, h29, h40]

def countRule (bs : List Block) (r : Nat × Bool × Nat) : Bool :=
  if r.2.1 then countLevel bs r.1 == r.2.2 else countLevel bs r.1 ≤ r.2.2

/-- `CmV29DmData::validate`: allowed levels and count limits as written in the source -/
theorem cmv29_validate_from_source (c : Container) :
    c.validate29 = (c.blocks.all (fun b => Src.cmv29Allowed.contains b.level) && Src.cmv29Counts.all (countRule c.blocks)) := by
  simp [Container.validate29, Src.cmv29Allowed, Src.cmv29Counts, cmv29Levels, countRule, Bool.and_assoc]

/-- `CmV40DmData::validate`: allowed levels and count limits as written in the source -/
theorem cmv40_validate_from_source (c : Container) :
    c.validate40 = (c.blocks.all (fun b => Src.cmv40Allowed.contains b.level) && Src.cmv40Counts.all (countRule c.blocks)) := by
  simp [Container.validate40, Src.cmv40Allowed, Src.cmv40Counts, cmv40Levels, countRule, Bool.and_assoc]

/-- the level lists that decide which container a parsed block belongs to are the source's `ALLOWED_BLOCK_LEVELS` -/
theorem allowed_levels_from_source : Src.cmv29Allowed = cmv29Levels ∧ Src.cmv40Allowed = cmv40Levels := by decide

/-- `RpuDataHeader::get_dovi_profile` in the source is the model's classification, for every header -/
theorem profile_from_source (h : Header) : Src.getDoviProfile h = h.getDoviProfile := by
  unfold Src.getDoviProfile Header.getDoviProfile
  split <;> simp_all

/-- `RpuDataNlq::is_mel` in the source is the model's MEL rule -/
theorem mel_from_source (n : Nlq) : Src.isMel n = n.isMel := rfl

/-- `RpuDataMapping::validate(profile)` in the source — the profile arms before the per-curve loop and the two
rules after it — around the model's per-curve rule, is the model's `Mapping.validate` -/
theorem mapping_validate_from_source (m : Mapping) (profile : Nat) :
    m.validate profile =
      (Src.mappingValidateHead m profile && m.curves.all Curve.piecesOk && Src.mappingValidateTail m) := by
  unfold Mapping.validate Src.mappingValidateHead Src.mappingValidateTail
  by_cases h5 : profile = 5
  · subst h5; cases hp : m.nlq_pred_pivot_value <;> simp [Bool.and_assoc]
  by_cases h7 : profile = 7
  · subst h7; cases hp : m.nlq_pred_pivot_value <;> simp [Bool.and_assoc]
  by_cases h8 : profile = 8
  · subst h8; cases hp : m.nlq_pred_pivot_value <;> simp [Bool.and_assoc]
  · have hm : (match profile with
        | 5 => m.nlq_method_idc.isNone && m.nlq_num_pivots_minus2.isNone && m.nlq_pred_pivot_value.isNone
        | 7 => m.nlq_pred_pivot_value.isSome &&
            (match m.nlq_pred_pivot_value with
             | some pv => pv.foldl (· + ·) 0 % 65536 == 1023
             | none => true)
        | 8 => m.nlq_method_idc.isNone && m.nlq_num_pivots_minus2.isNone && m.nlq_pred_pivot_value.isNone
        | _ => true) = true := by
      split <;> simp_all
    simp [h5, h7, h8, Bool.and_assoc]

end Dovi.SourceTie
