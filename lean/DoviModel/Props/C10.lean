import DoviModel.Model.Generate
import DoviModel.Proofs.EditGenProof
import DoviModel.Proofs.GenerateEntryProof
import DoviModel.Gen.SourceRules
/-! # C10 — generator output matches its config -/
namespace Dovi.C10
open Dovi Dovi.Gen

/-- a shot contributes exactly `duration` frames -/
theorem shotFrames_length (c : Config) (base : Rpu) (s : Shot) (n i : Nat) (out : List Rpu)
    (h : shotFrames c base s n i = .ok out) : out.length = n := by
  induction n generalizing i out with
  | zero => simp [shotFrames] at h; subst h; rfl
  | succ n ih =>
    simp only [shotFrames] at h
    cases hf : frameRpu c base s i with
    | error => simp [hf, Res.bind] at h
    | panic => simp [hf, Res.bind] at h
    | ok r =>
      cases ht : shotFrames c base s n (i+1) with
      | error => simp [hf, ht, Res.bind] at h
      | panic => simp [hf, ht, Res.bind] at h
      | ok t =>
        simp [hf, ht, Res.bind] at h
        subst h
        simp [ih _ _ ht]

/-- the generated list has exactly the sum of the shot durations -/
theorem allFrames_length (c : Config) (base : Rpu) (shots : List Shot) (out : List Rpu)
    (h : allFrames c base shots = .ok out) : out.length = (shots.map (·.duration)).foldl (· + ·) 0 := by
  have gen : ∀ (acc : Nat) (l : List Nat), l.foldl (· + ·) acc = acc + l.foldl (· + ·) 0 := by
    intro acc l
    induction l generalizing acc with
    | nil => simp
    | cons x xs ih => simp only [List.foldl_cons]; rw [ih (acc + x), ih (0 + x)]; omega
  induction shots generalizing out with
  | nil => simp [allFrames] at h; subst h; rfl
  | cons s rest ih =>
    simp only [allFrames] at h
    cases ha : shotFrames c base s s.duration 0 with
    | error => simp [ha, Res.bind] at h
    | panic => simp [ha, Res.bind] at h
    | ok a =>
      cases hb : allFrames c base rest with
      | error => simp [ha, hb, Res.bind] at h
      | panic => simp [ha, hb, Res.bind] at h
      | ok b =>
        simp [ha, hb, Res.bind] at h
        subst h
        simp only [List.length_append, shotFrames_length _ _ _ _ _ _ ha, ih _ hb, List.map_cons, List.foldl_cons]
        rw [gen (0 + s.duration)]; omega

/-- `generate_rpu_list` returns exactly `length` frames, and only when `length` is the sum of durations -/
theorem gen_length (c : Config) (out : List Rpu) (h : generateList c = .ok out) : out.length = c.length := by
  unfold generateList at h
  cases hb : baseRpu c with
  | error => simp [hb, Res.bind] at h
  | panic => simp [hb, Res.bind] at h
  | ok base =>
    simp only [hb, Res.bind] at h
    split at h
    · cases h
    · rename_i hl
      simp only [bne_iff_ne, ne_eq, Decidable.not_not] at hl
      rw [allFrames_length c base c.shots out h, hl]

/-- L1 values are clamped into their legal ranges -/
theorem l1_clamp_range (cmv40 : Bool) (b : Block) (h : b.level = 1) :
    let v := (clampL1 cmv40 b).vals
    0 ≤ v.getD 0 0 ∧ v.getD 0 0 ≤ 12 ∧ 2081 ≤ v.getD 1 0 ∧ v.getD 1 0 ≤ 4095 ∧
    (if cmv40 then 1229 else 819) ≤ v.getD 2 0 ∧ v.getD 2 0 ≤ v.getD 1 0 - 1 := by
  simp only [clampL1, h, beq_self_eq_true, if_true]
  simp only [List.getD_cons_zero, List.getD_cons_succ]
  cases cmv40 <;> simp <;> omega

/-- blocks other than L1 are not touched by the clamp -/
theorem clamp_other (cmv40 : Bool) (b : Block) (h : b.level ≠ 1) : clampL1 cmv40 b = b := by
  simp [clampL1, h]


/-! # More and stronger theorems (helper lemmas and the definitions used below: `Proofs/GenPart.lean`)

Vocabulary (all defined in `Dovi.EditGenProof.Gen`):
* `keyed lv` — `lv` is 2, 8 or 10; `sameKey a b` — same level and, for keyed levels, same first value
  (L2 `target_max_pq`, L8/L10 target display index). An equivalence relation on blocks.
* `Uniq d` — in every present container of `d` no two blocks have the same key.
* `holds d lv` — the container that stores level `lv` exists in `d` (CM v2.9: 1 2 4 5 6 255, CM v4.0: 3 8 9 10 11 254).
* `shell d` — `d` with the contents of its present containers blanked (everything except the blocks).
* `defaultBlocks c` — `c.defaults` without L5/L6; `statics c` — L5 (from `level5`), L6 (if given), L9, L11;
  `l254` — the L254 block `[0, 2]`.
* `editBlocks s i` — the blocks of the FIRST frame edit of `s` with offset `i` (`[]` if none);
  `cutFlag c i` — `1` if `i = 0` or long-play, else `0`.
* `accepts c b` — `b.level ≠ 0` and `b.level ∈ {8, 10} → c.cmv40`.
* `bs.reverse.find? (sameKey x) = some x` — `x` is the LAST block of `bs` with `x`'s key;
  `bs.all (fun b => !sameKey b x)` — no block of `bs` has `x`'s key.
-/
open Dovi.EditGenProof.Gen

/-! ## (a) scene cuts -/

/-- the scene-refresh flag of an RPU (none when it has no DM data) -/
def flagOf (r : Rpu) : Option Nat := r.vdr_dm_data.map (·.scene_refresh_flag)

/-- facts about the base DM data that do not concern blocks -/
theorem base_fields (c : Config) (dm0 : DmData) (h : dmFromConfig c = .ok dm0) :
    dm0.scene_refresh_flag = 0 ∧ dm0.compressed = false ∧ dm0.affected_dm_metadata_id = 0 ∧
    dm0.current_dm_metadata_id = 0 ∧ dm0.cmv29.isSome = true ∧ dm0.cmv40.isSome = c.cmv40 := by
  obtain ⟨_, _, hs, _⟩ := dmFromConfig_spec c dm0 h
  refine ⟨congrArg DmData.scene_refresh_flag hs, congrArg DmData.compressed hs,
    congrArg DmData.affected_dm_metadata_id hs, congrArg DmData.current_dm_metadata_id hs, ?_, ?_⟩
  · have := congrArg (fun d => d.cmv29.isSome) hs
    simpa [shell, dmInit] using this
  · have := congrArg (fun d => d.cmv40.isSome) hs
    cases hc : c.cmv40 <;> simpa [shell, dmInit, hc] using this

/-- **structure of the output**: the list is, shot by shot and offset by offset, the frames computed by
`frameRpu` from one base RPU — every one of them succeeded -/
theorem gen_frames (c : Config) (l : List Rpu) (h : generateList c = .ok l) :
    ∃ base dm0, baseRpu c = .ok base ∧ dmFromConfig c = .ok dm0 ∧ base = baseOf c dm0 ∧
      l.map Res.ok = c.shots.flatMap fun s => (List.range s.duration).map (frameRpu c base s) := by
  obtain ⟨base, h1, _, h3⟩ := (generateList_ok c l).1 h
  obtain ⟨dm0, h4, h5⟩ := (baseRpu_ok c base).1 h1
  exact ⟨base, dm0, h1, h4, h5, allFrames_structure c base c.shots l h3⟩

/-- **C10 (a)**: the scene-refresh flag is 1 exactly on the first frame of every shot (on every frame in
long-play mode) and 0 on all other frames; shots of duration 0 contribute nothing -/
theorem gen_scene_cuts (c : Config) (l : List Rpu) (h : generateList c = .ok l) :
    l.map flagOf = c.shots.flatMap fun s => (List.range s.duration).map fun i =>
      some (if i = 0 ∨ c.longPlay = true then 1 else 0) := by
  obtain ⟨base, h1, _, h3⟩ := (generateList_ok c l).1 h
  obtain ⟨dm0, h4, h5⟩ := (baseRpu_ok c base).1 h1
  obtain ⟨hu, _⟩ := dmFromConfig_spec c dm0 h4
  have hf := (base_fields c dm0 h4).1
  have hb : base.vdr_dm_data = some dm0 := by rw [h5]; exact baseOf_dm c dm0
  refine allFrames_map flagOf _ c base c.shots l h3 ?_
  intro s _ j r _ hr
  obtain ⟨d, rfl, _, hs, _⟩ := frameRpu_spec c base s j r dm0 hb hf hu hr
  have := congrArg DmData.scene_refresh_flag hs
  simp only [flagOf, Option.map_some]
  exact congrArg some this

/-! ## (b) precedence -/

/-- index of the first frame of shot `k` in the output: the sum of the durations of the shots before it -/
def shotStart (c : Config) (k : Nat) : Nat := ((c.shots.take k).map (·.duration)).sum

/-- the frame of shot `k` at offset `i` sits at index `shotStart c k + i` and is `frameRpu` of that shot and offset -/
theorem gen_frame_at (c : Config) (l : List Rpu) (base : Rpu)
    (h : l.map Res.ok = c.shots.flatMap fun s => (List.range s.duration).map (frameRpu c base s))
    (k : Nat) (hk : k < c.shots.length) (i : Nat) (hi : i < c.shots[k].duration) :
    ∃ r, l[shotStart c k + i]? = some r ∧ frameRpu c base c.shots[k] i = .ok r := by
  have := getElem?_flatMap_range (fun s : Shot => s.duration) (frameRpu c base) c.shots k i hk hi
  rw [← h, List.getElem?_map] at this
  unfold shotStart
  cases hl : l[((c.shots.take k).map (·.duration)).sum + i]? with
  | none => rw [hl] at this; cases this
  | some r =>
    rw [hl] at this
    simp only [Option.map_some, Option.some.injEq] at this
    exact ⟨r, rfl, this.symm⟩

/-- every output frame is the frame of some shot at some offset below its duration -/
theorem gen_frame_of_mem (c : Config) (l : List Rpu) (base : Rpu)
    (h : l.map Res.ok = c.shots.flatMap fun s => (List.range s.duration).map (frameRpu c base s))
    (r : Rpu) (hr : r ∈ l) : ∃ s ∈ c.shots, ∃ i, i < s.duration ∧ frameRpu c base s i = .ok r := by
  have : Res.ok r ∈ l.map Res.ok := List.mem_map_of_mem hr
  rw [h, List.mem_flatMap] at this
  obtain ⟨s, hs, hm⟩ := this
  rw [List.mem_map] at hm
  obtain ⟨i, hi, he⟩ := hm
  exact ⟨s, hs, i, List.mem_range.1 hi, he⟩

/-- **one override** (`replace_metadata_block`, on DM data without duplicate keys): afterwards the blocks are
`b` itself (provided its container exists) and the old blocks whose key differs from `b`'s; no duplicate
keys arise -/
theorem replaceBlock_override (d d' : DmData) (b : Block) (hu : Uniq d) (h : d.replaceBlock b = .ok d') :
    Uniq d' ∧ (∀ lv, holds d' lv ↔ holds d lv) ∧
    ∀ x : Block, x ∈ d'.levelBlocks x.level ↔
      (holds d x.level ∧ x = b) ∨ (sameKey b x = false ∧ x ∈ d.levelBlocks x.level) :=
  ⟨replaceBlock_uniq d d' b hu h, replaceBlock_holds d d' b hu h, replaceBlock_mem d d' b hu h⟩

/-- **a list of overrides** (`replace_metadata_blocks`): for every key the LAST block of `bs` with that key
wins; keys not mentioned in `bs` keep their old block -/
theorem replaceBlocks_override (d d' : DmData) (bs : List Block) (hu : Uniq d)
    (h : d.replaceBlocks bs = .ok d') :
    Uniq d' ∧ (∀ lv, holds d' lv ↔ holds d lv) ∧ shell d' = shell d ∧
    ∀ x : Block, x ∈ d'.levelBlocks x.level ↔
      (holds d x.level ∧ bs.reverse.find? (sameKey x) = some x) ∨
      (bs.all (fun b => !sameKey b x) = true ∧ x ∈ d.levelBlocks x.level) := by
  obtain ⟨a, b, c, e⟩ := replaceBlocks_spec bs d d' hu h
  exact ⟨a, c, b, e⟩

/-- under `Uniq` a key determines the block: two stored blocks with the same (level, target) are equal -/
theorem block_unique (d : DmData) (hu : Uniq d) (x y : Block)
    (hx : x ∈ d.levelBlocks x.level) (hy : y ∈ d.levelBlocks y.level) (h : sameKey x y = true) : x = y :=
  levelBlocks_unique hu hx hy h

/-- under `Uniq` an un-keyed level (every level except 2, 8, 10) holds at most one block, and `get_block`
returns it -/
theorem unkeyed_single (d : DmData) (hu : Uniq d) (lv : Nat) (hk : keyed lv = false) :
    (d.levelBlocks lv).length ≤ 1 ∧ ∀ x, d.getBlock lv = some x ↔ x ∈ d.levelBlocks lv :=
  ⟨levelBlocks_length_le_one hu lv hk, getBlock_iff hu lv hk⟩

/-- **the base DM data** (`from_generate_config`): per key, the last default block (L5/L6 defaults are
ignored) wins, else the last static block (L5 from `level5`, L6 if given, L9 zeros, L11 `[1,0,1,0,0]`),
else — for CM v4.0 — the initial L254 `[0,2]`; a block is stored only if its container exists
(CM v2.9 levels always, CM v4.0 levels iff `cmv40`); source min/max PQ are the config's values when given -/
theorem gen_base_blocks (c : Config) (dm0 : DmData) (h : dmFromConfig c = .ok dm0) :
    Uniq dm0 ∧
    (∀ lv, holds dm0 lv ↔ (lv ∈ cmv29Levels ∨ (c.cmv40 = true ∧ lv ∈ cmv40Levels))) ∧
    dm0.main.length = 32 ∧
    (∀ j, j ≠ 29 → j ≠ 30 → dm0.main[j]? = (dmMainOf c.profile)[j]?) ∧
    (∀ v, c.sourceMinPq = some v → dm0.main[29]? = some (v : Int)) ∧
    (∀ v, c.sourceMaxPq = some v → dm0.main[30]? = some (v : Int)) ∧
    ∀ x : Block, x ∈ dm0.levelBlocks x.level ↔
      (holds dm0 x.level ∧ (defaultBlocks c).reverse.find? (sameKey x) = some x) ∨
      ((defaultBlocks c).all (fun b => !sameKey b x) = true ∧ holds dm0 x.level ∧
        (statics c).reverse.find? (sameKey x) = some x) ∨
      ((defaultBlocks c).all (fun b => !sameKey b x) = true ∧ (statics c).all (fun b => !sameKey b x) = true ∧
        c.cmv40 = true ∧ x = l254) := by
  obtain ⟨a1, a2, _, a4, a5, a6, a7, a8⟩ := dmFromConfig_spec c dm0 h
  exact ⟨a1, a2, a4, a5, a6, a7, a8⟩

/-- **C10 (b), per frame**: the frame of shot `k` at offset `i` is the base RPU with new DM data `d` that
differs from the base DM data only in the scene-refresh flag and the blocks; per key the block of `d` is the
one of the frame edit at offset `i` (last block with that key of the FIRST edit with that offset), else the
last one of the shot's blocks, else the base DM's block -/
theorem gen_precedence (c : Config) (l : List Rpu) (h : generateList c = .ok l) :
    ∃ base dm0, baseRpu c = .ok base ∧ dmFromConfig c = .ok dm0 ∧ base = baseOf c dm0 ∧ Uniq dm0 ∧
      ∀ (k : Nat) (hk : k < c.shots.length) (i : Nat), i < c.shots[k].duration →
        ∃ r d, l[shotStart c k + i]? = some r ∧ r = { base with vdr_dm_data := some d } ∧ Uniq d ∧
          shell d = { shell dm0 with scene_refresh_flag := cutFlag c i } ∧
          ∀ x : Block, x ∈ d.levelBlocks x.level ↔
            (holds dm0 x.level ∧ (editBlocks c.shots[k] i).reverse.find? (sameKey x) = some x) ∨
            ((editBlocks c.shots[k] i).all (fun b => !sameKey b x) = true ∧ holds dm0 x.level ∧
              c.shots[k].blocks.reverse.find? (sameKey x) = some x) ∨
            ((editBlocks c.shots[k] i).all (fun b => !sameKey b x) = true ∧
              c.shots[k].blocks.all (fun b => !sameKey b x) = true ∧ x ∈ dm0.levelBlocks x.level) := by
  obtain ⟨base, dm0, h1, h2, h3, h4⟩ := gen_frames c l h
  obtain ⟨hu, _⟩ := dmFromConfig_spec c dm0 h2
  have hf := (base_fields c dm0 h2).1
  have hb : base.vdr_dm_data = some dm0 := by rw [h3]; exact baseOf_dm c dm0
  refine ⟨base, dm0, h1, h2, h3, hu, ?_⟩
  intro k hk i hi
  obtain ⟨r, hr1, hr2⟩ := gen_frame_at c l base h4 k hk i hi
  obtain ⟨d, e1, e2, e3, _, e5⟩ := frameRpu_spec c base c.shots[k] i r dm0 hb hf hu hr2
  exact ⟨r, d, hr1, e1, e2, e3, e5⟩

/-! ## (c) length, markers, errors, no panic -/

/-- **C10 (c), count**: a successful generation returns exactly `length` RPUs, and `length` is the sum of
the shot durations (otherwise it is an error) -/
theorem gen_errors_or_length (c : Config) (l : List Rpu) (h : generateList c = .ok l) :
    l.length = c.length ∧ c.length = (c.shots.map (·.duration)).foldl (· + ·) 0 := by
  obtain ⟨_, _, h2, _⟩ := (generateList_ok c l).1 h
  exact ⟨gen_length c l h, h2⟩

/-- `generate_rpu_list` never panics (in particular `replace_metadata_block(s)` never does, whatever the
block levels / lengths are) -/
theorem gen_no_panic (c : Config) : generateList c ≠ .panic := generateList_ne_panic c

/-- **exactly when generation succeeds**: `length` is the sum of the durations, and every block that is
actually applied — the default blocks other than L5/L6, and for every shot of positive duration its blocks
and the blocks of the applicable frame edit of every offset below the duration — is not Reserved (level 0)
and is not an L8/L10 block in a CM v2.9 config. In every other case the result is `.error` (never a panic).
Blocks of shots of duration 0 and of frame edits that never apply are not looked at. -/
theorem gen_ok_iff (c : Config) :
    (∃ l, generateList c = .ok l) ↔
      c.length = (c.shots.map (·.duration)).foldl (· + ·) 0 ∧
      (∀ b ∈ defaultBlocks c, accepts c b) ∧
      ∀ s ∈ c.shots, ∀ i, i < s.duration → ∀ b ∈ s.blocks ++ editBlocks s i, accepts c b :=
  generateList_ok_iff c

theorem gen_error_iff (c : Config) :
    generateList c = .error ↔
      ¬ (c.length = (c.shots.map (·.duration)).foldl (· + ·) 0 ∧
        (∀ b ∈ defaultBlocks c, accepts c b) ∧
        ∀ s ∈ c.shots, ∀ i, i < s.duration → ∀ b ∈ s.blocks ++ editBlocks s i, accepts c b) := by
  rw [← gen_ok_iff]
  cases h : generateList c with
  | ok l => simp
  | error => simp
  | panic => exact absurd h (gen_no_panic c)

theorem shell_fields {d d0 : DmData} {f : Nat} (hs : shell d = { shell d0 with scene_refresh_flag := f }) :
    d.main = d0.main ∧ d.compressed = d0.compressed ∧ d.affected_dm_metadata_id = d0.affected_dm_metadata_id ∧
    d.current_dm_metadata_id = d0.current_dm_metadata_id ∧ d.scene_refresh_flag = f ∧
    d.cmv29.isSome = d0.cmv29.isSome ∧ d.cmv40.isSome = d0.cmv40.isSome := by
  have e1 := congrArg DmData.main hs
  have e2 := congrArg DmData.compressed hs
  have e3 := congrArg DmData.affected_dm_metadata_id hs
  have e4 := congrArg DmData.current_dm_metadata_id hs
  have e5 := congrArg DmData.scene_refresh_flag hs
  refine ⟨e1, e2, e3, e4, e5, ?_, ?_⟩
  · have := congrArg (fun d => d.cmv29.isSome) hs
    simpa [shell] using this
  · have := congrArg (fun d => d.cmv40.isSome) hs
    simpa [shell] using this

/-- **C10 (c), markers**: every generated RPU has the requested profile's markers (dovi_profile, header,
mapping), DM data with the CM v2.9 container, the CM v4.0 container exactly when `cmv40` (then with exactly
one L254 block), no duplicate keys, the profile's `main` values except source min/max PQ (entries 29/30),
which are the config's values when given -/
theorem gen_markers (c : Config) (l : List Rpu) (h : generateList c = .ok l) : ∀ r ∈ l,
    r.dovi_profile = (match c.profile with | .p5 => 5 | _ => 8) ∧
    r.header = (match c.profile with
                | .p5 => { p8DefaultHeader with vdr_rpu_profile := 0, bl_video_full_range_flag := true }
                | _ => p8DefaultHeader) ∧
    r.rpu_data_mapping = some (match c.profile with | .p84 => profile84Mapping | _ => p81Mapping) ∧
    r.el_type = none ∧ r.remaining = none ∧ r.modified = true ∧
    ∃ d, r.vdr_dm_data = some d ∧ Uniq d ∧
      d.compressed = false ∧ d.affected_dm_metadata_id = 0 ∧ d.current_dm_metadata_id = 0 ∧
      d.cmv29.isSome = true ∧ d.cmv40.isSome = c.cmv40 ∧
      d.main.length = 32 ∧ (∀ j, j ≠ 29 → j ≠ 30 → d.main[j]? = (dmMainOf c.profile)[j]?) ∧
      (∀ v, c.sourceMinPq = some v → d.main[29]? = some (v : Int)) ∧
      (∀ v, c.sourceMaxPq = some v → d.main[30]? = some (v : Int)) ∧
      (c.cmv40 = true → ∃ x, d.levelBlocks 254 = [x]) := by
  intro r hr
  obtain ⟨base, dm0, h1, h2, h3, h4⟩ := gen_frames c l h
  obtain ⟨hu, _, _, m1, m2, m3, m4, _⟩ := dmFromConfig_spec c dm0 h2
  obtain ⟨f1, f2, f3, f4, f5, f6⟩ := base_fields c dm0 h2
  have hb : base.vdr_dm_data = some dm0 := by rw [h3]; exact baseOf_dm c dm0
  obtain ⟨s, _, i, _, hri⟩ := gen_frame_of_mem c l base h4 r hr
  obtain ⟨d, e1, e2, e3, _, _⟩ := frameRpu_spec c base s i r dm0 hb f1 hu hri
  obtain ⟨g1, g2, g3, g4, _, g6, g7⟩ := shell_fields e3
  subst e1
  refine ⟨?_, ?_, ?_, ?_, ?_, ?_, d, rfl, e2, g2.trans f2, g3.trans f3, g4.trans f4, g6.trans f5, g7.trans f6,
    by rw [g1]; exact m1, by rw [g1]; exact m2, by rw [g1]; exact m3, by rw [g1]; exact m4, ?_⟩
  · rw [h3]; unfold baseOf; cases c.profile <;> rfl
  · rw [h3]; unfold baseOf; cases c.profile <;> rfl
  · rw [h3]; unfold baseOf; cases c.profile <;> rfl
  · rw [h3]; unfold baseOf; cases c.profile <;> rfl
  · rw [h3]; unfold baseOf; cases c.profile <;> rfl
  · rw [h3]; unfold baseOf; cases c.profile <;> rfl
  · intro hc
    obtain ⟨x0, hx0⟩ := dmFromConfig_present c dm0 h2 hc
    have hl0 : x0.level = 254 := by
      obtain ⟨_, _, _, _, _, hl⟩ := (mem_levelBlocks dm0 x0 254).1 hx0; exact hl
    obtain ⟨d', x, hd', hx, _⟩ := frameRpu_present c base s i _ dm0 hb f1 hu hri x0 (by rw [hl0]; exact hx0)
    simp only [Option.some.injEq] at hd'
    subst hd'
    rw [hl0] at hx
    have hlen := levelBlocks_length_le_one e2 254 (by decide)
    cases hl : d.levelBlocks 254 with
    | nil => rw [hl] at hx; cases hx
    | cons a t =>
      cases t with
      | nil => exact ⟨a, rfl⟩
      | cons b t => rw [hl] at hlen; simp at hlen

/-- blocks of a CM v4.0 level never appear in a CM v2.9 config's output, blocks of unknown levels never appear -/
theorem gen_absent (c : Config) (l : List Rpu) (h : generateList c = .ok l) (r : Rpu) (hr : r ∈ l)
    (d : DmData) (hd : r.vdr_dm_data = some d) (x : Block) (hx : x ∈ d.levelBlocks x.level) :
    x.level ∈ cmv29Levels ∨ (c.cmv40 = true ∧ x.level ∈ cmv40Levels) := by
  obtain ⟨base, dm0, h1, h2, h3, h4⟩ := gen_frames c l h
  obtain ⟨hu, hh, _⟩ := dmFromConfig_spec c dm0 h2
  have f1 := (base_fields c dm0 h2).1
  have hb : base.vdr_dm_data = some dm0 := by rw [h3]; exact baseOf_dm c dm0
  obtain ⟨s, _, i, _, hri⟩ := gen_frame_of_mem c l base h4 r hr
  obtain ⟨d', e1, _, _, e4, _⟩ := frameRpu_spec c base s i r dm0 hb f1 hu hri
  subst e1
  simp only [Option.some.injEq] at hd
  subst hd
  exact (hh _).1 ((e4 _).1 (holds_of_mem hx))


/-! ## non-vacuity: a concrete config satisfying the hypotheses, and what the theorems say about it -/

def l2 (t a : Int) : Block := { level := 2, length := 11, vals := [t, a, 2048, 2048, 2048, 2048, 0] }

/-- two shots (2 + 1 frames); an L2 default for target 2081 overridden by the first shot and again by a frame
edit at offset 1; a second edit with the same offset and an edit beyond the shot (both never applied); an L5
default (ignored); an L1 shot block; explicit source PQ and L6 -/
def exCfg : Config :=
  { length := 3, sourceMinPq := some 7, sourceMaxPq := some 3079, level6 := some [1000, 1, 400, 100],
    defaults := [l2 2081 1, l2 2851 1, { level := 5, length := 7, vals := [9, 9, 9, 9] }],
    shots := [{ duration := 2, blocks := [l2 2081 2, { level := 1, length := 5, vals := [0, 3000, 1500] }],
                edits := [{ offset := 1, blocks := [l2 2081 3] }, { offset := 1, blocks := [l2 2081 4] },
                          { offset := 5, blocks := [l2 2081 5] }] },
              { duration := 1 }] }

/-- the hypothesis `generateList c = .ok l` of all theorems above is satisfiable -/
example : ∃ l, generateList exCfg = .ok l := ⟨_, rfl⟩
/-- … and so is `dmFromConfig c = .ok dm0` (`gen_base_blocks`) -/
example : ∃ d, dmFromConfig exCfg = .ok d := ⟨_, rfl⟩
/-- … and `Uniq d`, `d.replaceBlock b = .ok d'` / `d.replaceBlocks bs = .ok d'` (`replaceBlock(s)_override`) -/
example : ∃ d d', dmFromConfig exCfg = .ok d ∧ Uniq d ∧ d.replaceBlocks [l2 2081 2, l2 2081 7] = .ok d' := by
  obtain ⟨d, hd⟩ : ∃ d, dmFromConfig exCfg = .ok d := ⟨_, rfl⟩
  have hu := (gen_base_blocks exCfg d hd).1
  have ha : ∀ b ∈ [l2 2081 2, l2 2081 7], okFor d b := by
    intro b hb
    refine ⟨?_, fun _ => ((gen_base_blocks exCfg d hd).2.1 _).2 (.inl ?_)⟩ <;>
      · simp only [List.mem_cons, List.not_mem_nil, or_false] at hb
        rcases hb with rfl | rfl <;> decide
  obtain ⟨d', hd'⟩ := (replaceBlocks_ok_iff _ d hu).2 ha
  exact ⟨d, d', hd, hu, hd'⟩

/-- per frame: scene-refresh flag and the blocks of one level -/
def view (c : Config) (lv : Nat) : Option (List (Option Nat × List Block)) :=
  match generateList c with
  | .ok l => some (l.map fun r => (flagOf r, (r.vdr_dm_data.map (·.levelBlocks lv)).getD []))
  | _ => none

/-- cuts on the first frame of each shot; target 2081: shot block, then the FIRST edit at offset 1, then (second
shot) the default; target 2851: the default everywhere -/
example : view exCfg 2 = some [(some 1, [l2 2081 2, l2 2851 1]), (some 0, [l2 2081 3, l2 2851 1]),
    (some 1, [l2 2081 1, l2 2851 1])] := by decide
/-- an L5 block in `default_metadata_blocks` is ignored: L5 is `level5` (here the zero offsets) -/
example : view exCfg 5 = some [(some 1, [{ level := 5, length := 7, vals := [0, 0, 0, 0] }]),
    (some 0, [{ level := 5, length := 7, vals := [0, 0, 0, 0] }]),
    (some 1, [{ level := 5, length := 7, vals := [0, 0, 0, 0] }])] := by decide

/-! ## findings (concrete) -/

def v29Cfg (bs : List Block) : Config := { cmv40 := false, length := 1, shots := [{ duration := 1, blocks := bs }] }

/-- FINDING: in a CM v2.9 config, L3 / L9 / L11 / L254 blocks (and blocks of a level that has no container, e.g. 7)
are silently dropped — generation succeeds and the output is the same as without them. (General form:
`replaceBlock_dropped`, `gen_absent`.) -/
example : generateList (v29Cfg [{ level := 9, length := 1, vals := [1, 0, 0, 0, 0, 0, 0, 0, 0] },
      { level := 11, length := 4, vals := [2, 0, 1, 0, 0] }, { level := 3, length := 5, vals := [1, 2, 3] },
      { level := 254, length := 2, vals := [0, 2] }, { level := 7, length := 0, vals := [] }])
    = generateList (v29Cfg []) := by decide
/-- … whereas an L8 (or L10) block in a CM v2.9 config is an error -/
example : generateList (v29Cfg [{ level := 8, length := 10, vals := [1] }]) = .error := by decide
def neverCfg : Config :=
  { length := 1,
    shots := [{ duration := 0, blocks := [{ level := 0, length := 0, vals := [] }] },
              { duration := 1, edits := [{ offset := 1, blocks := [{ level := 0, length := 0, vals := [] }] }] }] }

/-- FINDING: blocks that are never applied are never checked: a Reserved (level 0) block in a shot of duration 0
or in a frame edit beyond the shot does not make generation fail -/
example : ∃ l, generateList neverCfg = .ok l := ⟨_, rfl⟩
def v40Cfg (bs : List Block) : Config := { length := 1, shots := [{ duration := 1, blocks := bs }] }

/-- the property text's "an unsupported L8 length currently panics": not in this model — `generate_rpu_list`
never panics (`gen_no_panic`) and the writer rejects the length with an error (`validate_length` runs first) -/
example : generate (v40Cfg [{ level := 8, length := 11, vals := [1] }]) none none = .error := by decide
/-! # The entry point `Gen.generate` (helper lemmas and definitions: `Proofs/GenerateEntryProof.lean`)

Vocabulary (`Dovi.GenerateEntryProof`):
* `durSum shots` — the sum of the shot durations (as the model computes it, a left fold).
* `baseShots c` — `c.shots`, or the single default shot `{ start := 0, duration := c.length }` when there are none.
* `clampMode c` — `c.l1AvgCmv40.getD c.cmv40`; `clampShot cm s` — `s` with `clampL1 cm` mapped over its blocks and
  over the blocks of all its frame edits.
* `normalize c po lo` — the config handed to `generate_rpu_list`: `length` defaulted from the shots when it is 0,
  default shot added, `-p` / `--long-play-mode` overrides applied, `l1AvgCmv40` fixed, `fixup_l1` run
  (its fields are spelled out by `generate_normalize_fields`).
* `L1Legal cm v` — `v` has 3 values, `0 ≤ v₀ ≤ 12`, `2081 ≤ v₁ ≤ 4095`, `(if cm then 1229 else 819) ≤ v₂ ≤ v₁ - 1`.
-/
open Dovi.GenerateEntryProof

/-- **`generate` unfolded**: an error when there is neither a length nor a shot, else `generate_rpu_list` on the
normalized config followed by the writer -/
theorem generate_eq (c : Config) (po : Option Profile) (lo : Option Bool) :
    generate c po lo =
      if c.length = 0 ∧ c.shots.isEmpty = true then .error
      else (generateList (normalize c po lo)).bind writeAll :=
  generate_unfold c po lo

/-- what `normalize` does to each field of the config -/
theorem generate_normalize_fields (c : Config) (po : Option Profile) (lo : Option Bool) :
    (normalize c po lo).cmv40 = c.cmv40 ∧
    (normalize c po lo).profile = po.getD c.profile ∧
    (normalize c po lo).longPlay = lo.getD c.longPlay ∧
    (normalize c po lo).length = (if c.length = 0 ∧ c.shots.isEmpty = false then durSum c.shots else c.length) ∧
    (normalize c po lo).sourceMinPq = c.sourceMinPq ∧ (normalize c po lo).sourceMaxPq = c.sourceMaxPq ∧
    (normalize c po lo).level5 = c.level5 ∧ (normalize c po lo).level6 = c.level6 ∧
    (normalize c po lo).l1AvgCmv40 = some (clampMode c) ∧
    (normalize c po lo).defaults = c.defaults.map (clampL1 (clampMode c)) ∧
    (normalize c po lo).shots = (baseShots c).map (clampShot (clampMode c)) :=
  normalize_fields c po lo

/-- **`generate` writes exactly `length` RPUs, the sum of the shot durations** (of the normalized config; the
clamp does not change durations, so that is the sum over the config's shots or the default shot) -/
theorem generate_length (c : Config) (po : Option Profile) (lo : Option Bool) (out : List Bytes)
    (h : generate c po lo = .ok out) :
    out.length = (normalize c po lo).length ∧
    (normalize c po lo).length = durSum (normalize c po lo).shots ∧
    durSum (normalize c po lo).shots = durSum (baseShots c) := by
  obtain ⟨a, b⟩ := generate_len c po lo out h
  exact ⟨a, b, durSum_normalize c po lo⟩

/-- neither `length` nor shots: an error -/
theorem generate_no_input (c : Config) (po : Option Profile) (lo : Option Bool)
    (hl : c.length = 0) (hs : c.shots.isEmpty = true) : generate c po lo = .error := by
  rw [generate_eq, if_pos ⟨hl, hs⟩]

/-- `length` given, shots given, and they disagree: an error -/
theorem generate_inconsistent (c : Config) (po : Option Profile) (lo : Option Bool)
    (hl : c.length ≠ 0) (hs : c.shots.isEmpty = false) (hne : c.length ≠ durSum c.shots) :
    generate c po lo = .error := by
  rw [generate_eq, if_neg (fun h => hl h.1)]
  have h1 : (normalize c po lo).length = c.length := by
    rw [(normalize_fields c po lo).2.2.2.1, if_neg (fun h => hl h.1)]
  have h2 : durSum (normalize c po lo).shots = durSum c.shots := by
    rw [durSum_normalize]; unfold baseShots; rw [hs]; rfl
  rw [generateList_length_mismatch _ (by rw [h1, h2]; exact hne)]; rfl

/-- `length` omitted (0), shots given: the output has one RPU per unit of shot duration -/
theorem generate_length_from_shots (c : Config) (po : Option Profile) (lo : Option Bool) (out : List Bytes)
    (hl : c.length = 0) (hs : c.shots.isEmpty = false) (h : generate c po lo = .ok out) :
    out.length = durSum c.shots := by
  rw [(generate_length c po lo out h).1, (normalize_fields c po lo).2.2.2.1, if_pos ⟨hl, hs⟩]

/-- no shots, `length = n > 0`: the output has `n` RPUs (one default shot) -/
theorem generate_length_no_shots (c : Config) (po : Option Profile) (lo : Option Bool) (out : List Bytes)
    (hs : c.shots.isEmpty = true) (h : generate c po lo = .ok out) :
    out.length = c.length ∧ 0 < c.length := by
  have hpos : 0 < c.length := by
    rcases Nat.eq_zero_or_pos c.length with h0 | h0
    · rw [generate_no_input c po lo h0 hs] at h; cases h
    · exact h0
  refine ⟨?_, hpos⟩
  rw [(generate_length c po lo out h).1, (normalize_fields c po lo).2.2.2.1, if_neg]
  rintro ⟨_, h2⟩; rw [hs] at h2; cases h2

/-- **L1 values are clamped**: in every frame that `generate` produces (i.e. after `fixup_l1`), every L1 block has
its three values in the legal ranges — whether it came from a frame edit, a shot or the defaults -/
theorem gen_l1_clamped (c : Config) (po : Option Profile) (lo : Option Bool) (l : List Rpu)
    (h : generateList (normalize c po lo) = .ok l) :
    ∀ r ∈ l, ∀ d, r.vdr_dm_data = some d → ∀ x ∈ d.levelBlocks 1,
      x.vals.length = 3 ∧ 0 ≤ x.vals.getD 0 0 ∧ x.vals.getD 0 0 ≤ 12 ∧
      2081 ≤ x.vals.getD 1 0 ∧ x.vals.getD 1 0 ≤ 4095 ∧
      (if c.l1AvgCmv40.getD c.cmv40 then 1229 else 819) ≤ x.vals.getD 2 0 ∧
      x.vals.getD 2 0 ≤ x.vals.getD 1 0 - 1 :=
  fun r hr d hd x hx => normalize_l1 c po lo l h r hr d hd x hx

/-- **provenance**: every block of every generated frame is a block of a frame edit or of a shot of the config, a
default block, a static block, or the initial L254 — nothing else is ever stored -/
theorem gen_block_origin (c : Config) (l : List Rpu) (h : generateList c = .ok l) (r : Rpu) (hr : r ∈ l)
    (d : DmData) (hd : r.vdr_dm_data = some d) (x : Block) (hx : x ∈ d.levelBlocks x.level) :
    (∃ s ∈ c.shots, (∃ e ∈ s.edits, x ∈ e.blocks) ∨ x ∈ s.blocks) ∨
      x ∈ defaultBlocks c ∨ x ∈ statics c ∨ x = l254 :=
  frame_block_origin c l h r hr d hd x hx

/-- **the overrides win**: the frames `generate` writes carry the markers of the `-p` profile when given (else the
config's), and with `--long-play-mode true` (or `long_play_mode` in the config and no override) every frame has the
scene-refresh flag set -/
theorem generate_overrides (c : Config) (po : Option Profile) (lo : Option Bool) (l : List Rpu)
    (h : generateList (normalize c po lo) = .ok l) : ∀ r ∈ l,
    r.dovi_profile = (match po.getD c.profile with | .p5 => 5 | _ => 8) ∧
    r.header = (match po.getD c.profile with
                | .p5 => { p8DefaultHeader with vdr_rpu_profile := 0, bl_video_full_range_flag := true }
                | _ => p8DefaultHeader) ∧
    r.rpu_data_mapping = some (match po.getD c.profile with | .p84 => profile84Mapping | _ => p81Mapping) ∧
    (∃ d, r.vdr_dm_data = some d ∧ d.cmv40.isSome = c.cmv40 ∧
      ∀ j, j ≠ 29 → j ≠ 30 → d.main[j]? = (dmMainOf (po.getD c.profile))[j]?) ∧
    (lo.getD c.longPlay = true → flagOf r = some 1) := by
  intro r hr
  obtain ⟨f1, f2, f3, _⟩ := normalize_fields c po lo
  obtain ⟨m1, m2, m3, _, _, _, d, hd, _, _, _, _, _, m4, _, m5, _⟩ := gen_markers _ l h r hr
  rw [f2] at m1 m2 m3 m5
  rw [f1] at m4
  refine ⟨m1, m2, m3, ⟨d, hd, m4, m5⟩, ?_⟩
  intro hlp
  have hc := gen_scene_cuts _ l h
  rw [f3] at hc
  have : flagOf r ∈ l.map flagOf := List.mem_map_of_mem hr
  rw [hc, List.mem_flatMap] at this
  obtain ⟨s, _, hm⟩ := this
  rw [List.mem_map] at hm
  obtain ⟨i, _, hi⟩ := hm
  rw [← hi, if_pos (.inr hlp)]

/-- **`generate` panics only inside the RPU writer**, on a frame that `generate_rpu_list` produced (everything
before the writer — normalisation, clamp, block replacement — returns a value or an error) -/
theorem generate_panics_only_in_writer (c : Config) (po : Option Profile) (lo : Option Bool)
    (h : generate c po lo = .panic) :
    ∃ l r, generateList (normalize c po lo) = .ok l ∧ r ∈ l ∧ writeRpu r = .panic :=
  generate_panic c po lo h

/-- a successful `generate` wrote every frame of `generate_rpu_list (normalize …)`, in order, one output each -/
theorem generate_ok_iff (c : Config) (po : Option Profile) (lo : Option Bool) (out : List Bytes) :
    generate c po lo = .ok out ↔
      ¬ (c.length = 0 ∧ c.shots.isEmpty = true) ∧
      ∃ l, generateList (normalize c po lo) = .ok l ∧ writeAll l = .ok out :=
  generate_ok c po lo out

/-- **the writer never panics on a generated frame**: for every frame of `generate_rpu_list` (any config),
`write_rpu` returns the bytes or an error — in particular a block with an unsupported L8/L9/L10 length is
rejected by `validate_length` before `required_bits` can be reached -/
theorem gen_writer_no_panic (c : Config) (l : List Rpu) (h : generateList c = .ok l) (r : Rpu) (hr : r ∈ l) :
    writeRpu r ≠ .panic :=
  gen_writeRpu_ne_panic c l h r hr

/-- **`generate` never panics**, for every config and every pair of overrides: it returns the RPUs or an error -/
theorem generate_no_panic (c : Config) (po : Option Profile) (lo : Option Bool) : generate c po lo ≠ .panic :=
  generate_ne_panic c po lo

/-! ## non-vacuity and the audit's counter-example for the entry point -/

def l1Raw : Block := { level := 1, length := 5, vals := [50, 100, 5000] }
/-- one shot, one frame, an L1 block with all three values out of range -/
def l1Cfg : Config := { length := 1, shots := [{ duration := 1, blocks := [l1Raw] }] }

/-- `generate_rpu_list` alone (no `fixup_l1`) keeps the out-of-range L1 block verbatim … -/
example : view l1Cfg 1 = some [(some 1, [l1Raw])] := by decide
/-- … and the writer then rejects the frame (L1 `validate`) -/
example : (generateList l1Cfg).bind writeAll = .error := by decide
/-- `generate` on the same config clamps the block (`normalize` runs `fixup_l1`) … -/
example : view (normalize l1Cfg none none) 1 =
    some [(some 1, [{ level := 1, length := 5, vals := [12, 2081, 2080] }])] := by decide
/-- … and succeeds: the hypotheses `generate … = .ok out` / `generateList (normalize …) = .ok l` are satisfiable -/
example : ∃ out, generate l1Cfg none none = .ok out := ⟨_, rfl⟩
example : ∃ l, generateList (normalize l1Cfg none none) = .ok l := ⟨_, rfl⟩

/-- `exCfg` with both overrides: 3 RPUs, every frame flagged (long-play), the in-range L1 block unchanged -/
example : ∃ out, generate exCfg (some .p5) (some true) = .ok out ∧ out.length = 3 := ⟨_, rfl, rfl⟩
example : view (normalize exCfg (some .p5) (some true)) 1 =
    some [(some 1, [{ level := 1, length := 5, vals := [0, 3000, 1500] }]),
          (some 1, [{ level := 1, length := 5, vals := [0, 3000, 1500] }]), (some 1, [])] := by decide
/-- `length` omitted: taken from the shots -/
example : ∃ out, generate { exCfg with length := 0 } none none = .ok out ∧ out.length = 3 := ⟨_, rfl, rfl⟩
/-- no shots: one default shot of `length` frames -/
example : ∃ out, generate { length := 4 } none none = .ok out ∧ out.length = 4 := ⟨_, rfl, rfl⟩
/-- `length` and shots disagree / neither given: errors -/
example : generate { exCfg with length := 4 } none none = .error := by decide
example : generate {} none none = .error := by decide


/-- **source tie** (Gen/SourceRules.lean is regenerated from /repo on every run): `clamp_values_int` of level1.rs —
its three `clamp` calls and the limits `L1_MIN_PQ_MAX_VALUE`, `L1_MAX_PQ_MIN_VALUE`, `L1_MAX_PQ_MAX_VALUE`,
`L1_AVG_PQ_MIN_VALUE(_CMV40)` as they stand in the source now — is the model's `clampL1`, for every block -/
theorem source_l1_clamp_agrees (cmv40 : Bool) (b : Block) :
    clampL1 cmv40 b =
      (if b.level == 1 then
        let r := Src.clampL1 cmv40 (b.vals.getD 0 0) (b.vals.getD 1 0) (b.vals.getD 2 0)
        { b with vals := [r.1, r.2.1, r.2.2] }
      else b) := by
  unfold clampL1 Src.clampL1
  split <;> simp

/-- **source tie** (Gen/SourceRules.lean is regenerated from /repo on every run): `source_meta_from_l6` of level6.rs —
the thresholds and the table that turn an L6 block into default source min/max PQ — as it stands in the source
now is the model's `sourceMetaFromL6`, for every block -/
theorem source_l6_levels_agree (b : Block) :
    Src.sourceMetaFromL6 b = (Int.ofNat (sourceMetaFromL6 b).1, Int.ofNat (sourceMetaFromL6 b).2) := by
  unfold Src.sourceMetaFromL6 sourceMetaFromL6
  simp only [Prod.mk.injEq]
  constructor <;> (repeat' split) <;> simp_all

end Dovi.C10
