import DoviModel.Model.Generate
/-! # C10 — generator output matches its config -/
namespace Dovi.C10
open Dovi Dovi.Gen

/-- a shot contributes exactly `duration` frames -/
theorem shotFrames_length (c : Config) (base : Rpu) (s : Shot) (n i : Nat) (out : List Rpu)
    (h : shotFrames c base s n i = .ok out) : out.length = n := by
  induction n generalizing i out with
  | zero => simp [shotFrames] at h; subst h; rfl
  | succ n ih =>
    simp only [shotFrames] at h
    cases hf : frameRpu c base s i with
    | error => simp [hf, Res.bind] at h
    | panic => simp [hf, Res.bind] at h
    | ok r =>
      cases ht : shotFrames c base s n (i+1) with
      | error => simp [hf, ht, Res.bind] at h
      | panic => simp [hf, ht, Res.bind] at h
      | ok t =>
        simp [hf, ht, Res.bind] at h
        subst h
        simp [ih _ _ ht]

/-- the generated list has exactly the sum of the shot durations -/
theorem allFrames_length (c : Config) (base : Rpu) (shots : List Shot) (out : List Rpu)
    (h : allFrames c base shots = .ok out) : out.length = (shots.map (·.duration)).foldl (· + ·) 0 := by
  have gen : ∀ (acc : Nat) (l : List Nat), l.foldl (· + ·) acc = acc + l.foldl (· + ·) 0 := by
    intro acc l
    induction l generalizing acc with
    | nil => simp
    | cons x xs ih => simp only [List.foldl_cons]; rw [ih (acc + x), ih (0 + x)]; omega
  induction shots generalizing out with
  | nil => simp [allFrames] at h; subst h; rfl
  | cons s rest ih =>
    simp only [allFrames] at h
    cases ha : shotFrames c base s s.duration 0 with
    | error => simp [ha, Res.bind] at h
    | panic => simp [ha, Res.bind] at h
    | ok a =>
      cases hb : allFrames c base rest with
      | error => simp [ha, hb, Res.bind] at h
      | panic => simp [ha, hb, Res.bind] at h
      | ok b =>
        simp [ha, hb, Res.bind] at h
        subst h
        simp only [List.length_append, shotFrames_length _ _ _ _ _ _ ha, ih _ hb, List.map_cons, List.foldl_cons]
        rw [gen (0 + s.duration)]; omega

/-- `generate_rpu_list` returns exactly `length` frames, and only when `length` is the sum of durations -/
theorem gen_length (c : Config) (out : List Rpu) (h : generateList c = .ok out) : out.length = c.length := by
  unfold generateList at h
  cases hb : baseRpu c with
  | error => simp [hb, Res.bind] at h
  | panic => simp [hb, Res.bind] at h
  | ok base =>
    simp only [hb, Res.bind] at h
    split at h
    · cases h
    · rename_i hl
      simp only [bne_iff_ne, ne_eq, Decidable.not_not] at hl
      rw [allFrames_length c base c.shots out h, hl]

/-- L1 values are clamped into their legal ranges -/
theorem l1_clamp_range (cmv40 : Bool) (b : Block) (h : b.level = 1) :
    let v := (clampL1 cmv40 b).vals
    0 ≤ v.getD 0 0 ∧ v.getD 0 0 ≤ 12 ∧ 2081 ≤ v.getD 1 0 ∧ v.getD 1 0 ≤ 4095 ∧
    (if cmv40 then 1229 else 819) ≤ v.getD 2 0 ∧ v.getD 2 0 ≤ v.getD 1 0 - 1 := by
  simp only [clampL1, h, beq_self_eq_true, if_true]
  simp only [List.getD_cons_zero, List.getD_cons_succ]
  cases cmv40 <;> simp <;> omega

/-- blocks other than L1 are not touched by the clamp -/
theorem clamp_other (cmv40 : Bool) (b : Block) (h : b.level ≠ 1) : clampL1 cmv40 b = b := by
  simp [clampL1, h]

end Dovi.C10
