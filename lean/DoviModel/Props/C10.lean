import DoviModel.Model.Generate
import DoviModel.Proofs.EditGenProof
import DoviModel.Proofs.GenerateEntryProof
import DoviModel.Proofs.GenSourcesProof
import DoviModel.Gen.SourceRules
/-! # C10 — generator output matches its config -/
namespace Dovi.C10
open Dovi Dovi.Gen

/-- a shot contributes exactly `duration` frames -/
theorem shotFrames_length (c : Config) (base : Rpu) (s : Shot) (n i : Nat) (out : List Rpu)
    (h : shotFrames c base s n i = .ok out) : out.length = n := by
  induction n generalizing i out with
  | zero => simp [shotFrames] at h; subst h; rfl
  | succ n ih =>
    simp only [shotFrames] at h
    cases hf : frameRpu c base s i with
    | error => simp [hf, Res.bind] at h
    | panic => simp [hf, Res.bind] at h
    | ok r =>
      cases ht : shotFrames c base s n (i+1) with
      | error => simp [hf, ht, Res.bind] at h
      | panic => simp [hf, ht, Res.bind] at h
      | ok t =>
        simp [hf, ht, Res.bind] at h
        subst h
        simp [ih _ _ ht]

/-- the generated list has exactly the sum of the shot durations -/
theorem allFrames_length (c : Config) (base : Rpu) (shots : List Shot) (out : List Rpu)
    (h : allFrames c base shots = .ok out) : out.length = (shots.map (·.duration)).foldl (· + ·) 0 := by
  have gen : ∀ (acc : Nat) (l : List Nat), l.foldl (· + ·) acc = acc + l.foldl (· + ·) 0 := by
    intro acc l
    induction l generalizing acc with
    | nil => simp
    | cons x xs ih => simp only [List.foldl_cons]; rw [ih (acc + x), ih (0 + x)]; omega
  induction shots generalizing out with
  | nil => simp [allFrames] at h; subst h; rfl
  | cons s rest ih =>
    simp only [allFrames] at h
    cases ha : shotFrames c base s s.duration 0 with
    | error => simp [ha, Res.bind] at h
    | panic => simp [ha, Res.bind] at h
    | ok a =>
      cases hb : allFrames c base rest with
      | error => simp [ha, hb, Res.bind] at h
      | panic => simp [ha, hb, Res.bind] at h
      | ok b =>
        simp [ha, hb, Res.bind] at h
        subst h
        simp only [List.length_append, shotFrames_length _ _ _ _ _ _ ha, ih _ hb, List.map_cons, List.foldl_cons]
        rw [gen (0 + s.duration)]; omega

/-- `generate_rpu_list` returns exactly `length` frames, and only when `length` is the sum of durations -/
theorem gen_length (c : Config) (out : List Rpu) (h : generateList c = .ok out) : out.length = c.length := by
  unfold generateList at h
  cases hb : baseRpu c with
  | error => simp [hb, Res.bind] at h
  | panic => simp [hb, Res.bind] at h
  | ok base =>
    simp only [hb, Res.bind] at h
    split at h
    · cases h
    · rename_i hl
      simp only [bne_iff_ne, ne_eq, Decidable.not_not] at hl
      rw [allFrames_length c base c.shots out h, hl]

/-- L1 values are clamped into their legal ranges -/
theorem l1_clamp_range (cmv40 : Bool) (b : Block) (h : b.level = 1) :
    let v := (clampL1 cmv40 b).vals
    0 ≤ v.getD 0 0 ∧ v.getD 0 0 ≤ 12 ∧ 2081 ≤ v.getD 1 0 ∧ v.getD 1 0 ≤ 4095 ∧
    (if cmv40 then 1229 else 819) ≤ v.getD 2 0 ∧ v.getD 2 0 ≤ v.getD 1 0 - 1 := by
  simp only [clampL1, h, beq_self_eq_true, if_true]
  simp only [List.getD_cons_zero, List.getD_cons_succ]
  cases cmv40 <;> simp <;> omega

/-- blocks other than L1 are not touched by the clamp -/
theorem clamp_other (cmv40 : Bool) (b : Block) (h : b.level ≠ 1) : clampL1 cmv40 b = b := by
  simp [clampL1, h]


/-! # More and stronger theorems (helper lemmas and the definitions used below: `Proofs/GenPart.lean`)

Vocabulary (all defined in `Dovi.EditGenProof.Gen`):
* `keyed lv` — `lv` is 2, 8 or 10; `sameKey a b` — same level and, for keyed levels, same first value
  (L2 `target_max_pq`, L8/L10 target display index). An equivalence relation on blocks.
* `Uniq d` — in every present container of `d` no two blocks have the same key.
* `holds d lv` — the container that stores level `lv` exists in `d` (CM v2.9: 1 2 4 5 6 255, CM v4.0: 3 8 9 10 11 254).
* `shell d` — `d` with the contents of its present containers blanked (everything except the blocks).
* `defaultBlocks c` — `c.defaults` without L5/L6; `statics c` — L5 (from `level5`), L6 (if given), L9, L11;
  `l254` — the L254 block `[0, 2]`.
* `editBlocks s i` — the blocks of the FIRST frame edit of `s` with offset `i` (`[]` if none);
  `cutFlag c i` — `1` if `i = 0` or long-play, else `0`.
* `accepts c b` — `b.level ≠ 0` and `b.level ∈ {8, 10} → c.cmv40`.
* `bs.reverse.find? (sameKey x) = some x` — `x` is the LAST block of `bs` with `x`'s key;
  `bs.all (fun b => !sameKey b x)` — no block of `bs` has `x`'s key.
-/
open Dovi.EditGenProof.Gen

/-! ## (a) scene cuts -/

/-- the scene-refresh flag of an RPU (none when it has no DM data) -/
def flagOf (r : Rpu) : Option Nat := r.vdr_dm_data.map (·.scene_refresh_flag)

/-- facts about the base DM data that do not concern blocks -/
theorem base_fields (c : Config) (dm0 : DmData) (h : dmFromConfig c = .ok dm0) :
    dm0.scene_refresh_flag = 0 ∧ dm0.compressed = false ∧ dm0.affected_dm_metadata_id = 0 ∧
    dm0.current_dm_metadata_id = 0 ∧ dm0.cmv29.isSome = true ∧ dm0.cmv40.isSome = c.cmv40 := by
  obtain ⟨_, _, hs, _⟩ := dmFromConfig_spec c dm0 h
  refine ⟨congrArg DmData.scene_refresh_flag hs, congrArg DmData.compressed hs,
    congrArg DmData.affected_dm_metadata_id hs, congrArg DmData.current_dm_metadata_id hs, ?_, ?_⟩
  · have := congrArg (fun d => d.cmv29.isSome) hs
    simpa [shell, dmInit] using this
  · have := congrArg (fun d => d.cmv40.isSome) hs
    cases hc : c.cmv40 <;> simpa [shell, dmInit, hc] using this

/-- **structure of the output**: the list is, shot by shot and offset by offset, the frames computed by
`frameRpu` from one base RPU — every one of them succeeded -/
theorem gen_frames (c : Config) (l : List Rpu) (h : generateList c = .ok l) :
    ∃ base dm0, baseRpu c = .ok base ∧ dmFromConfig c = .ok dm0 ∧ base = baseOf c dm0 ∧
      l.map Res.ok = c.shots.flatMap fun s => (List.range s.duration).map (frameRpu c base s) := by
  obtain ⟨base, h1, _, h3⟩ := (generateList_ok c l).1 h
  obtain ⟨dm0, h4, h5⟩ := (baseRpu_ok c base).1 h1
  exact ⟨base, dm0, h1, h4, h5, allFrames_structure c base c.shots l h3⟩

/-- **C10 (a)**: the scene-refresh flag is 1 exactly on the first frame of every shot (on every frame in
long-play mode) and 0 on all other frames; shots of duration 0 contribute nothing -/
theorem gen_scene_cuts (c : Config) (l : List Rpu) (h : generateList c = .ok l) :
    l.map flagOf = c.shots.flatMap fun s => (List.range s.duration).map fun i =>
      some (if i = 0 ∨ c.longPlay = true then 1 else 0) := by
  obtain ⟨base, h1, _, h3⟩ := (generateList_ok c l).1 h
  obtain ⟨dm0, h4, h5⟩ := (baseRpu_ok c base).1 h1
  obtain ⟨hu, _⟩ := dmFromConfig_spec c dm0 h4
  have hf := (base_fields c dm0 h4).1
  have hb : base.vdr_dm_data = some dm0 := by rw [h5]; exact baseOf_dm c dm0
  refine allFrames_map flagOf _ c base c.shots l h3 ?_
  intro s _ j r _ hr
  obtain ⟨d, rfl, _, hs, _⟩ := frameRpu_spec c base s j r dm0 hb hf hu hr
  have := congrArg DmData.scene_refresh_flag hs
  simp only [flagOf, Option.map_some]
  exact congrArg some this

/-! ## (b) precedence -/

/-- index of the first frame of shot `k` in the output: the sum of the durations of the shots before it -/
def shotStart (c : Config) (k : Nat) : Nat := ((c.shots.take k).map (·.duration)).sum

/-- the frame of shot `k` at offset `i` sits at index `shotStart c k + i` and is `frameRpu` of that shot and offset -/
theorem gen_frame_at (c : Config) (l : List Rpu) (base : Rpu)
    (h : l.map Res.ok = c.shots.flatMap fun s => (List.range s.duration).map (frameRpu c base s))
    (k : Nat) (hk : k < c.shots.length) (i : Nat) (hi : i < c.shots[k].duration) :
    ∃ r, l[shotStart c k + i]? = some r ∧ frameRpu c base c.shots[k] i = .ok r := by
  have := getElem?_flatMap_range (fun s : Shot => s.duration) (frameRpu c base) c.shots k i hk hi
  rw [← h, List.getElem?_map] at this
  unfold shotStart
  cases hl : l[((c.shots.take k).map (·.duration)).sum + i]? with
  | none => rw [hl] at this; cases this
  | some r =>
    rw [hl] at this
    simp only [Option.map_some, Option.some.injEq] at this
    exact ⟨r, rfl, this.symm⟩

/-- every output frame is the frame of some shot at some offset below its duration -/
theorem gen_frame_of_mem (c : Config) (l : List Rpu) (base : Rpu)
    (h : l.map Res.ok = c.shots.flatMap fun s => (List.range s.duration).map (frameRpu c base s))
    (r : Rpu) (hr : r ∈ l) : ∃ s ∈ c.shots, ∃ i, i < s.duration ∧ frameRpu c base s i = .ok r := by
  have : Res.ok r ∈ l.map Res.ok := List.mem_map_of_mem hr
  rw [h, List.mem_flatMap] at this
  obtain ⟨s, hs, hm⟩ := this
  rw [List.mem_map] at hm
  obtain ⟨i, hi, he⟩ := hm
  exact ⟨s, hs, i, List.mem_range.1 hi, he⟩

/-- **one override** (`replace_metadata_block`, on DM data without duplicate keys): afterwards the blocks are
`b` itself (provided its container exists) and the old blocks whose key differs from `b`'s; no duplicate
keys arise -/
theorem replaceBlock_override (d d' : DmData) (b : Block) (hu : Uniq d) (h : d.replaceBlock b = .ok d') :
    Uniq d' ∧ (∀ lv, holds d' lv ↔ holds d lv) ∧
    ∀ x : Block, x ∈ d'.levelBlocks x.level ↔
      (holds d x.level ∧ x = b) ∨ (sameKey b x = false ∧ x ∈ d.levelBlocks x.level) :=
  ⟨replaceBlock_uniq d d' b hu h, replaceBlock_holds d d' b hu h, replaceBlock_mem d d' b hu h⟩

/-- **a list of overrides** (`replace_metadata_blocks`): for every key the LAST block of `bs` with that key
wins; keys not mentioned in `bs` keep their old block -/
theorem replaceBlocks_override (d d' : DmData) (bs : List Block) (hu : Uniq d)
    (h : d.replaceBlocks bs = .ok d') :
    Uniq d' ∧ (∀ lv, holds d' lv ↔ holds d lv) ∧ shell d' = shell d ∧
    ∀ x : Block, x ∈ d'.levelBlocks x.level ↔
      (holds d x.level ∧ bs.reverse.find? (sameKey x) = some x) ∨
      (bs.all (fun b => !sameKey b x) = true ∧ x ∈ d.levelBlocks x.level) := by
  obtain ⟨a, b, c, e⟩ := replaceBlocks_spec bs d d' hu h
  exact ⟨a, c, b, e⟩

/-- under `Uniq` a key determines the block: two stored blocks with the same (level, target) are equal -/
theorem block_unique (d : DmData) (hu : Uniq d) (x y : Block)
    (hx : x ∈ d.levelBlocks x.level) (hy : y ∈ d.levelBlocks y.level) (h : sameKey x y = true) : x = y :=
  levelBlocks_unique hu hx hy h

/-- under `Uniq` an un-keyed level (every level except 2, 8, 10) holds at most one block, and `get_block`
returns it -/
theorem unkeyed_single (d : DmData) (hu : Uniq d) (lv : Nat) (hk : keyed lv = false) :
    (d.levelBlocks lv).length ≤ 1 ∧ ∀ x, d.getBlock lv = some x ↔ x ∈ d.levelBlocks lv :=
  ⟨levelBlocks_length_le_one hu lv hk, getBlock_iff hu lv hk⟩

/-- **the base DM data** (`from_generate_config`): per key, the last default block (L5/L6 defaults are
ignored) wins, else the last static block (L5 from `level5`, L6 if given, L9 zeros, L11 `[1,0,1,0,0]`),
else — for CM v4.0 — the initial L254 `[0,2]`; a block is stored only if its container exists
(CM v2.9 levels always, CM v4.0 levels iff `cmv40`); source min/max PQ are the config's values when given -/
theorem gen_base_blocks (c : Config) (dm0 : DmData) (h : dmFromConfig c = .ok dm0) :
    Uniq dm0 ∧
    (∀ lv, holds dm0 lv ↔ (lv ∈ cmv29Levels ∨ (c.cmv40 = true ∧ lv ∈ cmv40Levels))) ∧
    dm0.main.length = 32 ∧
    (∀ j, j ≠ 29 → j ≠ 30 → dm0.main[j]? = (dmMainOf c.profile)[j]?) ∧
    (∀ v, c.sourceMinPq = some v → dm0.main[29]? = some (v : Int)) ∧
    (∀ v, c.sourceMaxPq = some v → dm0.main[30]? = some (v : Int)) ∧
    ∀ x : Block, x ∈ dm0.levelBlocks x.level ↔
      (holds dm0 x.level ∧ (defaultBlocks c).reverse.find? (sameKey x) = some x) ∨
      ((defaultBlocks c).all (fun b => !sameKey b x) = true ∧ holds dm0 x.level ∧
        (statics c).reverse.find? (sameKey x) = some x) ∨
      ((defaultBlocks c).all (fun b => !sameKey b x) = true ∧ (statics c).all (fun b => !sameKey b x) = true ∧
        c.cmv40 = true ∧ x = l254) := by
  obtain ⟨a1, a2, _, a4, a5, a6, a7, a8⟩ := dmFromConfig_spec c dm0 h
  exact ⟨a1, a2, a4, a5, a6, a7, a8⟩

/-- **C10 (b), per frame**: the frame of shot `k` at offset `i` is the base RPU with new DM data `d` that
differs from the base DM data only in the scene-refresh flag and the blocks; per key the block of `d` is the
one of the frame edit at offset `i` (last block with that key of the FIRST edit with that offset), else the
last one of the shot's blocks, else the base DM's block -/
theorem gen_precedence (c : Config) (l : List Rpu) (h : generateList c = .ok l) :
    ∃ base dm0, baseRpu c = .ok base ∧ dmFromConfig c = .ok dm0 ∧ base = baseOf c dm0 ∧ Uniq dm0 ∧
      ∀ (k : Nat) (hk : k < c.shots.length) (i : Nat), i < c.shots[k].duration →
        ∃ r d, l[shotStart c k + i]? = some r ∧ r = { base with vdr_dm_data := some d } ∧ Uniq d ∧
          shell d = { shell dm0 with scene_refresh_flag := cutFlag c i } ∧
          ∀ x : Block, x ∈ d.levelBlocks x.level ↔
            (holds dm0 x.level ∧ (editBlocks c.shots[k] i).reverse.find? (sameKey x) = some x) ∨
            ((editBlocks c.shots[k] i).all (fun b => !sameKey b x) = true ∧ holds dm0 x.level ∧
              c.shots[k].blocks.reverse.find? (sameKey x) = some x) ∨
            ((editBlocks c.shots[k] i).all (fun b => !sameKey b x) = true ∧
              c.shots[k].blocks.all (fun b => !sameKey b x) = true ∧ x ∈ dm0.levelBlocks x.level) := by
  obtain ⟨base, dm0, h1, h2, h3, h4⟩ := gen_frames c l h
  obtain ⟨hu, _⟩ := dmFromConfig_spec c dm0 h2
  have hf := (base_fields c dm0 h2).1
  have hb : base.vdr_dm_data = some dm0 := by rw [h3]; exact baseOf_dm c dm0
  refine ⟨base, dm0, h1, h2, h3, hu, ?_⟩
  intro k hk i hi
  obtain ⟨r, hr1, hr2⟩ := gen_frame_at c l base h4 k hk i hi
  obtain ⟨d, e1, e2, e3, _, e5⟩ := frameRpu_spec c base c.shots[k] i r dm0 hb hf hu hr2
  exact ⟨r, d, hr1, e1, e2, e3, e5⟩

/-! ## (c) length, markers, errors, no panic -/

/-- **C10 (c), count**: a successful generation returns exactly `length` RPUs, and `length` is the sum of
the shot durations (otherwise it is an error) -/
theorem gen_errors_or_length (c : Config) (l : List Rpu) (h : generateList c = .ok l) :
    l.length = c.length ∧ c.length = (c.shots.map (·.duration)).foldl (· + ·) 0 := by
  obtain ⟨_, _, h2, _⟩ := (generateList_ok c l).1 h
  exact ⟨gen_length c l h, h2⟩

/-- `generate_rpu_list` never panics (in particular `replace_metadata_block(s)` never does, whatever the
block levels / lengths are) -/
theorem gen_no_panic (c : Config) : generateList c ≠ .panic := generateList_ne_panic c

/-- **exactly when generation succeeds**: `length` is the sum of the durations, and every block that is
actually applied — the default blocks other than L5/L6, and for every shot of positive duration its blocks
and the blocks of the applicable frame edit of every offset below the duration — is not Reserved (level 0)
and is not an L8/L10 block in a CM v2.9 config. In every other case the result is `.error` (never a panic).
Blocks of shots of duration 0 and of frame edits that never apply are not looked at. -/
theorem gen_ok_iff (c : Config) :
    (∃ l, generateList c = .ok l) ↔
      c.length = (c.shots.map (·.duration)).foldl (· + ·) 0 ∧
      (∀ b ∈ defaultBlocks c, accepts c b) ∧
      ∀ s ∈ c.shots, ∀ i, i < s.duration → ∀ b ∈ s.blocks ++ editBlocks s i, accepts c b :=
  generateList_ok_iff c

theorem gen_error_iff (c : Config) :
    generateList c = .error ↔
      ¬ (c.length = (c.shots.map (·.duration)).foldl (· + ·) 0 ∧
        (∀ b ∈ defaultBlocks c, accepts c b) ∧
        ∀ s ∈ c.shots, ∀ i, i < s.duration → ∀ b ∈ s.blocks ++ editBlocks s i, accepts c b) := by
  rw [← gen_ok_iff]
  cases h : generateList c with
  | ok l => simp
  | error => simp
  | panic => exact absurd h (gen_no_panic c)

theorem shell_fields {d d0 : DmData} {f : Nat} (hs : shell d = { shell d0 with scene_refresh_flag := f }) :
    d.main = d0.main ∧ d.compressed = d0.compressed ∧ d.affected_dm_metadata_id = d0.affected_dm_metadata_id ∧
    d.current_dm_metadata_id = d0.current_dm_metadata_id ∧ d.scene_refresh_flag = f ∧
    d.cmv29.isSome = d0.cmv29.isSome ∧ d.cmv40.isSome = d0.cmv40.isSome := by
  have e1 := congrArg DmData.main hs
  have e2 := congrArg DmData.compressed hs
  have e3 := congrArg DmData.affected_dm_metadata_id hs
  have e4 := congrArg DmData.current_dm_metadata_id hs
  have e5 := congrArg DmData.scene_refresh_flag hs
  refine ⟨e1, e2, e3, e4, e5, ?_, ?_⟩
  · have := congrArg (fun d => d.cmv29.isSome) hs
    simpa [shell] using this
  · have := congrArg (fun d => d.cmv40.isSome) hs
    simpa [shell] using this

/-- **C10 (c), markers**: every generated RPU has the requested profile's markers (dovi_profile, header,
mapping), DM data with the CM v2.9 container, the CM v4.0 container exactly when `cmv40` (then with exactly
one L254 block), no duplicate keys, the profile's `main` values except source min/max PQ (entries 29/30),
which are the config's values when given -/
theorem gen_markers (c : Config) (l : List Rpu) (h : generateList c = .ok l) : ∀ r ∈ l,
    r.dovi_profile = (match c.profile with | .p5 => 5 | _ => 8) ∧
    r.header = (match c.profile with
                | .p5 => { p8DefaultHeader with vdr_rpu_profile := 0, bl_video_full_range_flag := true }
                | _ => p8DefaultHeader) ∧
    r.rpu_data_mapping = some (match c.profile with | .p84 => profile84Mapping | _ => p81Mapping) ∧
    r.el_type = none ∧ r.remaining = none ∧ r.modified = true ∧
    ∃ d, r.vdr_dm_data = some d ∧ Uniq d ∧
      d.compressed = false ∧ d.affected_dm_metadata_id = 0 ∧ d.current_dm_metadata_id = 0 ∧
      d.cmv29.isSome = true ∧ d.cmv40.isSome = c.cmv40 ∧
      d.main.length = 32 ∧ (∀ j, j ≠ 29 → j ≠ 30 → d.main[j]? = (dmMainOf c.profile)[j]?) ∧
      (∀ v, c.sourceMinPq = some v → d.main[29]? = some (v : Int)) ∧
      (∀ v, c.sourceMaxPq = some v → d.main[30]? = some (v : Int)) ∧
      (c.cmv40 = true → ∃ x, d.levelBlocks 254 = [x]) := by
  intro r hr
  obtain ⟨base, dm0, h1, h2, h3, h4⟩ := gen_frames c l h
  obtain ⟨hu, _, _, m1, m2, m3, m4, _⟩ := dmFromConfig_spec c dm0 h2
  obtain ⟨f1, f2, f3, f4, f5, f6⟩ := base_fields c dm0 h2
  have hb : base.vdr_dm_data = some dm0 := by rw [h3]; exact baseOf_dm c dm0
  obtain ⟨s, _, i, _, hri⟩ := gen_frame_of_mem c l base h4 r hr
  obtain ⟨d, e1, e2, e3, _, _⟩ := frameRpu_spec c base s i r dm0 hb f1 hu hri
  obtain ⟨g1, g2, g3, g4, _, g6, g7⟩ := shell_fields e3
  subst e1
  refine ⟨?_, ?_, ?_, ?_, ?_, ?_, d, rfl, e2, g2.trans f2, g3.trans f3, g4.trans f4, g6.trans f5, g7.trans f6,
    by rw [g1]; exact m1, by rw [g1]; exact m2, by rw [g1]; exact m3, by rw [g1]; exact m4, ?_⟩
  · rw [h3]; unfold baseOf; cases c.profile <;> rfl
  · rw [h3]; unfold baseOf; cases c.profile <;> rfl
  · rw [h3]; unfold baseOf; cases c.profile <;> rfl
  · rw [h3]; unfold baseOf; cases c.profile <;> rfl
  · rw [h3]; unfold baseOf; cases c.profile <;> rfl
  · rw [h3]; unfold baseOf; cases c.profile <;> rfl
  · intro hc
    obtain ⟨x0, hx0⟩ := dmFromConfig_present c dm0 h2 hc
    have hl0 : x0.level = 254 := by
      obtain ⟨_, _, _, _, _, hl⟩ := (mem_levelBlocks dm0 x0 254).1 hx0; exact hl
    obtain ⟨d', x, hd', hx, _⟩ := frameRpu_present c base s i _ dm0 hb f1 hu hri x0 (by rw [hl0]; exact hx0)
    simp only [Option.some.injEq] at hd'
    subst hd'
    rw [hl0] at hx
    have hlen := levelBlocks_length_le_one e2 254 (by decide)
    cases hl : d.levelBlocks 254 with
    | nil => rw [hl] at hx; cases hx
    | cons a t =>
      cases t with
      | nil => exact ⟨a, rfl⟩
      | cons b t => rw [hl] at hlen; simp at hlen

/-- blocks of a CM v4.0 level never appear in a CM v2.9 config's output, blocks of unknown levels never appear -/
theorem gen_absent (c : Config) (l : List Rpu) (h : generateList c = .ok l) (r : Rpu) (hr : r ∈ l)
    (d : DmData) (hd : r.vdr_dm_data = some d) (x : Block) (hx : x ∈ d.levelBlocks x.level) :
    x.level ∈ cmv29Levels ∨ (c.cmv40 = true ∧ x.level ∈ cmv40Levels) := by
  obtain ⟨base, dm0, h1, h2, h3, h4⟩ := gen_frames c l h
  obtain ⟨hu, hh, _⟩ := dmFromConfig_spec c dm0 h2
  have f1 := (base_fields c dm0 h2).1
  have hb : base.vdr_dm_data = some dm0 := by rw [h3]; exact baseOf_dm c dm0
  obtain ⟨s, _, i, _, hri⟩ := gen_frame_of_mem c l base h4 r hr
  obtain ⟨d', e1, _, _, e4, _⟩ := frameRpu_spec c base s i r dm0 hb f1 hu hri
  subst e1
  simp only [Option.some.injEq] at hd
  subst hd
  exact (hh _).1 ((e4 _).1 (holds_of_mem hx))


/-! ## non-vacuity: a concrete config satisfying the hypotheses, and what the theorems say about it -/

def l2 (t a : Int) : Block := { level := 2, length := 11, vals := [t, a, 2048, 2048, 2048, 2048, 0] }

/-- two shots (2 + 1 frames); an L2 default for target 2081 overridden by the first shot and again by a frame
edit at offset 1; a second edit with the same offset and an edit beyond the shot (both never applied); an L5
default (ignored); an L1 shot block; explicit source PQ and L6 -/
def exCfg : Config :=
  { length := 3, sourceMinPq := some 7, sourceMaxPq := some 3079, level6 := some [1000, 1, 400, 100],
    defaults := [l2 2081 1, l2 2851 1, { level := 5, length := 7, vals := [9, 9, 9, 9] }],
    shots := [{ duration := 2, blocks := [l2 2081 2, { level := 1, length := 5, vals := [0, 3000, 1500] }],
                edits := [{ offset := 1, blocks := [l2 2081 3] }, { offset := 1, blocks := [l2 2081 4] },
                          { offset := 5, blocks := [l2 2081 5] }] },
              { duration := 1 }] }

/-- the hypothesis `generateList c = .ok l` of all theorems above is satisfiable -/
example : ∃ l, generateList exCfg = .ok l := ⟨_, rfl⟩
/-- … and so is `dmFromConfig c = .ok dm0` (`gen_base_blocks`) -/
example : ∃ d, dmFromConfig exCfg = .ok d := ⟨_, rfl⟩
/-- … and `Uniq d`, `d.replaceBlock b = .ok d'` / `d.replaceBlocks bs = .ok d'` (`replaceBlock(s)_override`) -/
example : ∃ d d', dmFromConfig exCfg = .ok d ∧ Uniq d ∧ d.replaceBlocks [l2 2081 2, l2 2081 7] = .ok d' := by
  obtain ⟨d, hd⟩ : ∃ d, dmFromConfig exCfg = .ok d := ⟨_, rfl⟩
  have hu := (gen_base_blocks exCfg d hd).1
  have ha : ∀ b ∈ [l2 2081 2, l2 2081 7], okFor d b := by
    intro b hb
    refine ⟨?_, fun _ => ((gen_base_blocks exCfg d hd).2.1 _).2 (.inl ?_)⟩ <;>
      · simp only [List.mem_cons, List.not_mem_nil, or_false] at hb
        rcases hb with rfl | rfl <;> decide
  obtain ⟨d', hd'⟩ := (replaceBlocks_ok_iff _ d hu).2 ha
  exact ⟨d, d', hd, hu, hd'⟩

/-- per frame: scene-refresh flag and the blocks of one level -/
def view (c : Config) (lv : Nat) : Option (List (Option Nat × List Block)) :=
  match generateList c with
  | .ok l => some (l.map fun r => (flagOf r, (r.vdr_dm_data.map (·.levelBlocks lv)).getD []))
  | _ => none

/-- cuts on the first frame of each shot; target 2081: shot block, then the FIRST edit at offset 1, then (second
shot) the default; target 2851: the default everywhere -/
example : view exCfg 2 = some [(some 1, [l2 2081 2, l2 2851 1]), (some 0, [l2 2081 3, l2 2851 1]),
    (some 1, [l2 2081 1, l2 2851 1])] := by decide
/-- an L5 block in `default_metadata_blocks` is ignored: L5 is `level5` (here the zero offsets) -/
example : view exCfg 5 = some [(some 1, [{ level := 5, length := 7, vals := [0, 0, 0, 0] }]),
    (some 0, [{ level := 5, length := 7, vals := [0, 0, 0, 0] }]),
    (some 1, [{ level := 5, length := 7, vals := [0, 0, 0, 0] }])] := by decide

/-! ## findings (concrete) -/

def v29Cfg (bs : List Block) : Config := { cmv40 := false, length := 1, shots := [{ duration := 1, blocks := bs }] }

/-- FINDING: in a CM v2.9 config, L3 / L9 / L11 / L254 blocks (and blocks of a level that has no container, e.g. 7)
are silently dropped — generation succeeds and the output is the same as without them. (General form:
`replaceBlock_dropped`, `gen_absent`.) -/
example : generateList (v29Cfg [{ level := 9, length := 1, vals := [1, 0, 0, 0, 0, 0, 0, 0, 0] },
      { level := 11, length := 4, vals := [2, 0, 1, 0, 0] }, { level := 3, length := 5, vals := [1, 2, 3] },
      { level := 254, length := 2, vals := [0, 2] }, { level := 7, length := 0, vals := [] }])
    = generateList (v29Cfg []) := by decide
/-- … whereas an L8 (or L10) block in a CM v2.9 config is an error -/
example : generateList (v29Cfg [{ level := 8, length := 10, vals := [1] }]) = .error := by decide
def neverCfg : Config :=
  { length := 1,
    shots := [{ duration := 0, blocks := [{ level := 0, length := 0, vals := [] }] },
              { duration := 1, edits := [{ offset := 1, blocks := [{ level := 0, length := 0, vals := [] }] }] }] }

/-- FINDING: blocks that are never applied are never checked: a Reserved (level 0) block in a shot of duration 0
or in a frame edit beyond the shot does not make generation fail -/
example : ∃ l, generateList neverCfg = .ok l := ⟨_, rfl⟩
def v40Cfg (bs : List Block) : Config := { length := 1, shots := [{ duration := 1, blocks := bs }] }

/-- the property text's "an unsupported L8 length currently panics": not in this model — `generate_rpu_list`
never panics (`gen_no_panic`) and the writer rejects the length with an error (`validate_length` runs first) -/
example : generate (v40Cfg [{ level := 8, length := 11, vals := [1] }]) none none = .error := by decide
/-! # The entry point `Gen.generate` (helper lemmas and definitions: `Proofs/GenerateEntryProof.lean`)

Vocabulary (`Dovi.GenerateEntryProof`):
* `durSum shots` — the sum of the shot durations (as the model computes it, a left fold).
* `baseShots c` — `c.shots`, or the single default shot `{ start := 0, duration := c.length }` when there are none.
* `clampMode c` — `c.l1AvgCmv40.getD c.cmv40`; `clampShot cm s` — `s` with `clampL1 cm` mapped over its blocks and
  over the blocks of all its frame edits.
* `normalize c po lo` — the config handed to `generate_rpu_list`: `length` defaulted from the shots when it is 0,
  default shot added, `-p` / `--long-play-mode` overrides applied, `l1AvgCmv40` fixed, `fixup_l1` run
  (its fields are spelled out by `generate_normalize_fields`).
* `L1Legal cm v` — `v` has 3 values, `0 ≤ v₀ ≤ 12`, `2081 ≤ v₁ ≤ 4095`, `(if cm then 1229 else 819) ≤ v₂ ≤ v₁ - 1`.
-/
open Dovi.GenerateEntryProof

/-- **`generate` unfolded**: an error when there is neither a length nor a shot, else `generate_rpu_list` on the
normalized config followed by the writer -/
theorem generate_eq (c : Config) (po : Option Profile) (lo : Option Bool) :
    generate c po lo =
      if c.length = 0 ∧ c.shots.isEmpty = true then .error
      else (generateList (normalize c po lo)).bind writeAll :=
  generate_unfold c po lo

/-- what `normalize` does to each field of the config -/
theorem generate_normalize_fields (c : Config) (po : Option Profile) (lo : Option Bool) :
    (normalize c po lo).cmv40 = c.cmv40 ∧
    (normalize c po lo).profile = po.getD c.profile ∧
    (normalize c po lo).longPlay = lo.getD c.longPlay ∧
    (normalize c po lo).length = (if c.length = 0 ∧ c.shots.isEmpty = false then durSum c.shots else c.length) ∧
    (normalize c po lo).sourceMinPq = c.sourceMinPq ∧ (normalize c po lo).sourceMaxPq = c.sourceMaxPq ∧
    (normalize c po lo).level5 = c.level5 ∧ (normalize c po lo).level6 = c.level6 ∧
    (normalize c po lo).l1AvgCmv40 = some (clampMode c) ∧
    (normalize c po lo).defaults = c.defaults.map (clampL1 (clampMode c)) ∧
    (normalize c po lo).shots = (baseShots c).map (clampShot (clampMode c)) :=
  normalize_fields c po lo

/-- **`generate` writes exactly `length` RPUs, the sum of the shot durations** (of the normalized config; the
clamp does not change durations, so that is the sum over the config's shots or the default shot) -/
theorem generate_length (c : Config) (po : Option Profile) (lo : Option Bool) (out : List Bytes)
    (h : generate c po lo = .ok out) :
    out.length = (normalize c po lo).length ∧
    (normalize c po lo).length = durSum (normalize c po lo).shots ∧
    durSum (normalize c po lo).shots = durSum (baseShots c) := by
  obtain ⟨a, b⟩ := generate_len c po lo out h
  exact ⟨a, b, durSum_normalize c po lo⟩

/-- neither `length` nor shots: an error -/
theorem generate_no_input (c : Config) (po : Option Profile) (lo : Option Bool)
    (hl : c.length = 0) (hs : c.shots.isEmpty = true) : generate c po lo = .error := by
  rw [generate_eq, if_pos ⟨hl, hs⟩]

/-- `length` given, shots given, and they disagree: an error -/
theorem generate_inconsistent (c : Config) (po : Option Profile) (lo : Option Bool)
    (hl : c.length ≠ 0) (hs : c.shots.isEmpty = false) (hne : c.length ≠ durSum c.shots) :
    generate c po lo = .error := by
  rw [generate_eq, if_neg (fun h => hl h.1)]
  have h1 : (normalize c po lo).length = c.length := by
    rw [(normalize_fields c po lo).2.2.2.1, if_neg (fun h => hl h.1)]
  have h2 : durSum (normalize c po lo).shots = durSum c.shots := by
    rw [durSum_normalize]; unfold baseShots; rw [hs]; rfl
  rw [generateList_length_mismatch _ (by rw [h1, h2]; exact hne)]; rfl

/-- `length` omitted (0), shots given: the output has one RPU per unit of shot duration -/
theorem generate_length_from_shots (c : Config) (po : Option Profile) (lo : Option Bool) (out : List Bytes)
    (hl : c.length = 0) (hs : c.shots.isEmpty = false) (h : generate c po lo = .ok out) :
    out.length = durSum c.shots := by
  rw [(generate_length c po lo out h).1, (normalize_fields c po lo).2.2.2.1, if_pos ⟨hl, hs⟩]

/-- no shots, `length = n > 0`: the output has `n` RPUs (one default shot) -/
theorem generate_length_no_shots (c : Config) (po : Option Profile) (lo : Option Bool) (out : List Bytes)
    (hs : c.shots.isEmpty = true) (h : generate c po lo = .ok out) :
    out.length = c.length ∧ 0 < c.length := by
  have hpos : 0 < c.length := by
    rcases Nat.eq_zero_or_pos c.length with h0 | h0
    · rw [generate_no_input c po lo h0 hs] at h; cases h
    · exact h0
  refine ⟨?_, hpos⟩
  rw [(generate_length c po lo out h).1, (normalize_fields c po lo).2.2.2.1, if_neg]
  rintro ⟨_, h2⟩; rw [hs] at h2; cases h2

/-- **L1 values are clamped**: in every frame that `generate` produces (i.e. after `fixup_l1`), every L1 block has
its three values in the legal ranges — whether it came from a frame edit, a shot or the defaults -/
theorem gen_l1_clamped (c : Config) (po : Option Profile) (lo : Option Bool) (l : List Rpu)
    (h : generateList (normalize c po lo) = .ok l) :
    ∀ r ∈ l, ∀ d, r.vdr_dm_data = some d → ∀ x ∈ d.levelBlocks 1,
      x.vals.length = 3 ∧ 0 ≤ x.vals.getD 0 0 ∧ x.vals.getD 0 0 ≤ 12 ∧
      2081 ≤ x.vals.getD 1 0 ∧ x.vals.getD 1 0 ≤ 4095 ∧
      (if c.l1AvgCmv40.getD c.cmv40 then 1229 else 819) ≤ x.vals.getD 2 0 ∧
      x.vals.getD 2 0 ≤ x.vals.getD 1 0 - 1 :=
  fun r hr d hd x hx => normalize_l1 c po lo l h r hr d hd x hx

/-- **provenance**: every block of every generated frame is a block of a frame edit or of a shot of the config, a
default block, a static block, or the initial L254 — nothing else is ever stored -/
theorem gen_block_origin (c : Config) (l : List Rpu) (h : generateList c = .ok l) (r : Rpu) (hr : r ∈ l)
    (d : DmData) (hd : r.vdr_dm_data = some d) (x : Block) (hx : x ∈ d.levelBlocks x.level) :
    (∃ s ∈ c.shots, (∃ e ∈ s.edits, x ∈ e.blocks) ∨ x ∈ s.blocks) ∨
      x ∈ defaultBlocks c ∨ x ∈ statics c ∨ x = l254 :=
  frame_block_origin c l h r hr d hd x hx

/-- **the overrides win**: the frames `generate` writes carry the markers of the `-p` profile when given (else the
config's), and with `--long-play-mode true` (or `long_play_mode` in the config and no override) every frame has the
scene-refresh flag set -/
theorem generate_overrides (c : Config) (po : Option Profile) (lo : Option Bool) (l : List Rpu)
    (h : generateList (normalize c po lo) = .ok l) : ∀ r ∈ l,
    r.dovi_profile = (match po.getD c.profile with | .p5 => 5 | _ => 8) ∧
    r.header = (match po.getD c.profile with
                | .p5 => { p8DefaultHeader with vdr_rpu_profile := 0, bl_video_full_range_flag := true }
                | _ => p8DefaultHeader) ∧
    r.rpu_data_mapping = some (match po.getD c.profile with | .p84 => profile84Mapping | _ => p81Mapping) ∧
    (∃ d, r.vdr_dm_data = some d ∧ d.cmv40.isSome = c.cmv40 ∧
      ∀ j, j ≠ 29 → j ≠ 30 → d.main[j]? = (dmMainOf (po.getD c.profile))[j]?) ∧
    (lo.getD c.longPlay = true → flagOf r = some 1) := by
  intro r hr
  obtain ⟨f1, f2, f3, _⟩ := normalize_fields c po lo
  obtain ⟨m1, m2, m3, _, _, _, d, hd, _, _, _, _, _, m4, _, m5, _⟩ := gen_markers _ l h r hr
  rw [f2] at m1 m2 m3 m5
  rw [f1] at m4
  refine ⟨m1, m2, m3, ⟨d, hd, m4, m5⟩, ?_⟩
  intro hlp
  have hc := gen_scene_cuts _ l h
  rw [f3] at hc
  have : flagOf r ∈ l.map flagOf := List.mem_map_of_mem hr
  rw [hc, List.mem_flatMap] at this
  obtain ⟨s, _, hm⟩ := this
  rw [List.mem_map] at hm
  obtain ⟨i, _, hi⟩ := hm
  rw [← hi, if_pos (.inr hlp)]

/-- **`generate` panics only inside the RPU writer**, on a frame that `generate_rpu_list` produced (everything
before the writer — normalisation, clamp, block replacement — returns a value or an error) -/
theorem generate_panics_only_in_writer (c : Config) (po : Option Profile) (lo : Option Bool)
    (h : generate c po lo = .panic) :
    ∃ l r, generateList (normalize c po lo) = .ok l ∧ r ∈ l ∧ writeRpu r = .panic :=
  generate_panic c po lo h

/-- a successful `generate` wrote every frame of `generate_rpu_list (normalize …)`, in order, one output each -/
theorem generate_ok_iff (c : Config) (po : Option Profile) (lo : Option Bool) (out : List Bytes) :
    generate c po lo = .ok out ↔
      ¬ (c.length = 0 ∧ c.shots.isEmpty = true) ∧
      ∃ l, generateList (normalize c po lo) = .ok l ∧ writeAll l = .ok out :=
  generate_ok c po lo out

/-- **the writer never panics on a generated frame**: for every frame of `generate_rpu_list` (any config),
`write_rpu` returns the bytes or an error — in particular a block with an unsupported L8/L9/L10 length is
rejected by `validate_length` before `required_bits` can be reached -/
theorem gen_writer_no_panic (c : Config) (l : List Rpu) (h : generateList c = .ok l) (r : Rpu) (hr : r ∈ l) :
    writeRpu r ≠ .panic :=
  gen_writeRpu_ne_panic c l h r hr

/-- **`generate` never panics**, for every config and every pair of overrides: it returns the RPUs or an error -/
theorem generate_no_panic (c : Config) (po : Option Profile) (lo : Option Bool) : generate c po lo ≠ .panic :=
  generate_ne_panic c po lo

/-! ## non-vacuity and the audit's counter-example for the entry point -/

def l1Raw : Block := { level := 1, length := 5, vals := [50, 100, 5000] }
/-- one shot, one frame, an L1 block with all three values out of range -/
def l1Cfg : Config := { length := 1, shots := [{ duration := 1, blocks := [l1Raw] }] }

/-- `generate_rpu_list` alone (no `fixup_l1`) keeps the out-of-range L1 block verbatim … -/
example : view l1Cfg 1 = some [(some 1, [l1Raw])] := by decide
/-- … and the writer then rejects the frame (L1 `validate`) -/
example : (generateList l1Cfg).bind writeAll = .error := by decide
/-- `generate` on the same config clamps the block (`normalize` runs `fixup_l1`) … -/
example : view (normalize l1Cfg none none) 1 =
    some [(some 1, [{ level := 1, length := 5, vals := [12, 2081, 2080] }])] := by decide
/-- … and succeeds: the hypotheses `generate … = .ok out` / `generateList (normalize …) = .ok l` are satisfiable -/
example : ∃ out, generate l1Cfg none none = .ok out := ⟨_, rfl⟩
example : ∃ l, generateList (normalize l1Cfg none none) = .ok l := ⟨_, rfl⟩

/-- `exCfg` with both overrides: 3 RPUs, every frame flagged (long-play), the in-range L1 block unchanged -/
example : ∃ out, generate exCfg (some .p5) (some true) = .ok out ∧ out.length = 3 := ⟨_, rfl, rfl⟩
example : view (normalize exCfg (some .p5) (some true)) 1 =
    some [(some 1, [{ level := 1, length := 5, vals := [0, 3000, 1500] }]),
          (some 1, [{ level := 1, length := 5, vals := [0, 3000, 1500] }]), (some 1, [])] := by decide
/-- `length` omitted: taken from the shots -/
example : ∃ out, generate { exCfg with length := 0 } none none = .ok out ∧ out.length = 3 := ⟨_, rfl, rfl⟩
/-- no shots: one default shot of `length` frames -/
example : ∃ out, generate { length := 4 } none none = .ok out ∧ out.length = 4 := ⟨_, rfl, rfl⟩
/-- `length` and shots disagree / neither given: errors -/
example : generate { exCfg with length := 4 } none none = .error := by decide
example : generate {} none none = .error := by decide


/-- **source tie** (Gen/SourceRules.lean is regenerated from /repo on every run): `clamp_values_int` of level1.rs —
its three `clamp` calls and the limits `L1_MIN_PQ_MAX_VALUE`, `L1_MAX_PQ_MIN_VALUE`, `L1_MAX_PQ_MAX_VALUE`,
`L1_AVG_PQ_MIN_VALUE(_CMV40)` as they stand in the source now — is the model's `clampL1`, for every block. (The
translator reads the `let` and the three assignments; that the function body consists of nothing else is held by the
source pin of `clamp_values_int` in tools/check_source_pins.py.) -/
theorem source_l1_clamp_agrees (cmv40 : Bool) (b : Block) :
    clampL1 cmv40 b =
      (if b.level == 1 then
        let r := Src.clampL1 cmv40 (b.vals.getD 0 0) (b.vals.getD 1 0) (b.vals.getD 2 0)
        { b with vals := [r.1, r.2.1, r.2.2] }
      else b) := by
  unfold clampL1 Src.clampL1
  split <;> simp

/-- **source tie** (Gen/SourceRules.lean is regenerated from /repo on every run): `source_meta_from_l6` of level6.rs —
the thresholds and the table that turn an L6 block into default source min/max PQ — as it stands in the source
now is the model's `sourceMetaFromL6`, for every block -/
theorem source_l6_levels_agree (b : Block) :
    Src.sourceMetaFromL6 b = (Int.ofNat (sourceMetaFromL6 b).1, Int.ofNat (sourceMetaFromL6 b).2) := by
  unfold Src.sourceMetaFromL6 sourceMetaFromL6
  simp only [Prod.mk.injEq]
  constructor <;> (repeat' split) <;> simp_all

/-! # The HDR10+ and madVR source paths (`Model/GenSources.lean`; helper lemmas: `Proofs/GenSourcesProof.lean`)

Vocabulary (`Dovi.GenSourcesProof` unless said otherwise):
* `copyMetadataFromShot self other excl`, `mergeShot cfgShots k s`, `l1Block cm max avg`, `madvrConfig`, `hdr10plusConfig`,
  `generateFrom`, `generateMadvr`, `generateHdr10plus`, `MadvrScene.length`, `fillL6` — the model (`Dovi.Gen`).
* `cfgBlocks cfgShots k` — the blocks of the config's shot `k` that are not L1 (`[]` when there is no shot `k`);
  `cfgEditBlocks cfgShots k i` — the not-L1 blocks of the FIRST frame edit of that shot with offset `i`.
* `ScenesDefined src` — no scene has an end word of 0 or an end before its start; `ScenesInRange src` — every scene ends
  below `frameCount`; `madvrResult c src custom` — the config after `generate_metadata_from_madvr`.
* `customL1 cm on targets s i` — `some` L1 of frame `i` of scene `s` (target of frame `start + i`, scene average) when
  custom targets are on and `i` is inside the scene, else `none`.
* `HdrFits src f0`, `hdrFirstFrames src f0`, `hdrResult c src f0` — the HDR10+ counterparts.
The PQ codes (`maxCode`, `avgCode`, `targets`, the HDR10+ per-frame pairs) are inputs: see the named parameter `PqCode`
in `Model/GenSources.lean`. -/
open Dovi.GenSourcesProof

/-- **`copy_metadata_from_shot`, exactly**: start and duration stay; the kept blocks of `other` are appended to the
blocks; at every offset the applicable edit blocks are the shot's own (first edit at that offset) followed by the kept
blocks of `other`'s first edit at that offset — an existing edit is extended, never replaced, and an offset without an
own edit gets `other`'s edit reduced to its kept blocks. With `excl = some [1]` "kept" means "not L1". -/
theorem copy_metadata_spec (self other : Shot) (excl : Option (List Nat)) :
    (copyMetadataFromShot self other excl).start = self.start ∧
    (copyMetadataFromShot self other excl).duration = self.duration ∧
    (copyMetadataFromShot self other excl).blocks = self.blocks ++ other.blocks.filter (keepBlock excl) ∧
    ∀ i, editBlocks (copyMetadataFromShot self other excl) i =
      editBlocks self i ++ (editBlocks other i).filter (keepBlock excl) :=
  ⟨rfl, rfl, rfl, editBlocks_copy self other excl⟩

/-- a frame of a shot that starts with one L1 block `b1` followed by not-L1 blocks `B`, whose applicable edit at offset
`i` is an optional L1 block `e` followed by not-L1 blocks `E`: the frame's only L1 block is `e` if present, else `b1`;
every other level follows the three-way precedence `E`, then `B`, then the base DM data -/
theorem gen_frame_with_source_l1 (c : Config) (l : List Rpu) (h : generateList c = .ok l)
    (k : Nat) (hk : k < c.shots.length) (i : Nat) (hi : i < c.shots[k].duration)
    (b1 : Block) (B : List Block) (hb : c.shots[k].blocks = b1 :: B) (hb1 : b1.level = 1) (hB : ∀ y ∈ B, y.level ≠ 1)
    (e : Option Block) (E : List Block) (he : editBlocks c.shots[k] i = e.toList ++ E)
    (he1 : ∀ b, e = some b → b.level = 1) (hE : ∀ y ∈ E, y.level ≠ 1) :
    ∃ base dm0 r d, baseRpu c = .ok base ∧ dmFromConfig c = .ok dm0 ∧ Uniq dm0 ∧
      l[shotStart c k + i]? = some r ∧ r = { base with vdr_dm_data := some d } ∧ Uniq d ∧
      shell d = { shell dm0 with scene_refresh_flag := cutFlag c i } ∧
      d.levelBlocks 1 = [e.getD b1] ∧
      ∀ x : Block, x.level ≠ 1 → (x ∈ d.levelBlocks x.level ↔
        (holds dm0 x.level ∧ E.reverse.find? (sameKey x) = some x) ∨
        (E.all (fun b => !sameKey b x) = true ∧ holds dm0 x.level ∧ B.reverse.find? (sameKey x) = some x) ∨
        (E.all (fun b => !sameKey b x) = true ∧ B.all (fun b => !sameKey b x) = true ∧
          x ∈ dm0.levelBlocks x.level)) := by
  obtain ⟨base, dm0, h1, h2, _, hu0, hf⟩ := gen_precedence c l h
  obtain ⟨r, d, hr, hrd, hud, hsh, hmem⟩ := hf k hk i hi
  have hholds1 : holds dm0 1 := ((gen_base_blocks c dm0 h2).2.1 1).2 (.inl (by decide))
  refine ⟨base, dm0, r, d, h1, h2, hu0, hr, hrd, hud, hsh, ?_, ?_⟩
  · -- the L1 block
    have hL : (e.getD b1).level = 1 := by
      cases e with
      | none => exact hb1
      | some b => exact he1 b rfl
    have hin : e.getD b1 ∈ d.levelBlocks (e.getD b1).level := by
      rw [hmem]
      cases e with
      | none =>
        right; left
        simp only [Option.toList_none, List.nil_append] at he
        simp only [Option.getD_none]
        rw [he, hb]
        exact ⟨all_not_l1 b1 hb1 E hE, by rw [hb1]; exact hholds1, find_last_l1 b1 hb1 B hB⟩
      | some b =>
        left
        simp only [Option.toList_some, List.singleton_append] at he
        simp only [Option.getD_some]
        rw [he]
        exact ⟨by rw [he1 b rfl]; exact hholds1, find_last_l1 b (he1 b rfl) E hE⟩
    rw [hL] at hin
    have hlen := (unkeyed_single d hud 1 (by decide)).1
    cases hl1 : d.levelBlocks 1 with
    | nil => rw [hl1] at hin; cases hin
    | cons a t =>
      cases t with
      | nil => rw [hl1] at hin; simp only [List.mem_singleton] at hin; rw [hin]
      | cons a2 t2 => rw [hl1] at hlen; simp at hlen
  · intro x hx
    rw [hmem, hb, he]
    have hBf : (b1 :: B).reverse.find? (sameKey x) = B.reverse.find? (sameKey x) := find_skip_l1 x hx b1 hb1 B
    have hBa : (b1 :: B).all (fun y => !sameKey y x) = B.all (fun y => !sameKey y x) := all_skip_l1 x hx b1 hb1 B
    cases e with
    | none =>
      simp only [Option.toList_none, List.nil_append]
      rw [hBf, hBa]
    | some b =>
      simp only [Option.toList_some, List.singleton_append]
      rw [find_skip_l1 x hx b (he1 b rfl) E, all_skip_l1 x hx b (he1 b rfl) E, hBf, hBa]

/-- **a frame of a source shot after the rest of `execute`** (`normalize`: default shot, overrides, `fixup_l1`), for any
config `c'` whose shot `k` is `mergeShot cs k s` with `s` carrying one clamped L1 block `b1` and at most one clamped L1
block `e i` per offset: at index (durations of the shots before `k`) + `i` of the output the only L1 block is `e i` if
present, else `b1` — nothing of the config's shot `cs[k]` can change it — and every other level follows the precedence:
not-L1 blocks of the config shot's first edit at `i`, then its not-L1 blocks, then the base DM data (defaults / statics) -/
theorem source_frame (c' : Config) (po : Option Profile) (lo : Option Bool) (l : List Rpu)
    (hl : generateList (normalize c' po lo) = .ok l)
    (cs : List Shot) (k : Nat) (hk : k < c'.shots.length) (s : Shot) (hs : c'.shots[k] = mergeShot cs k s)
    (b1 : Block) (hb : s.blocks = [b1]) (hb1 : b1.level = 1) (hc1 : clampL1 (clampMode c') b1 = b1)
    (e : Nat → Option Block) (he : ∀ i, editBlocks s i = (e i).toList)
    (he1 : ∀ i b, e i = some b → b.level = 1 ∧ clampL1 (clampMode c') b = b)
    (i : Nat) (hi : i < s.duration) :
    ∃ base dm0 r d, baseRpu (normalize c' po lo) = .ok base ∧ dmFromConfig (normalize c' po lo) = .ok dm0 ∧ Uniq dm0 ∧
      l[((c'.shots.take k).map (·.duration)).sum + i]? = some r ∧ r = { base with vdr_dm_data := some d } ∧ Uniq d ∧
      shell d = { shell dm0 with scene_refresh_flag := if i = 0 ∨ lo.getD c'.longPlay = true then 1 else 0 } ∧
      d.levelBlocks 1 = [(e i).getD b1] ∧
      ∀ x : Block, x.level ≠ 1 → (x ∈ d.levelBlocks x.level ↔
        (holds dm0 x.level ∧ (cfgEditBlocks cs k i).reverse.find? (sameKey x) = some x) ∨
        ((cfgEditBlocks cs k i).all (fun b => !sameKey b x) = true ∧ holds dm0 x.level ∧
          (cfgBlocks cs k).reverse.find? (sameKey x) = some x) ∨
        ((cfgEditBlocks cs k i).all (fun b => !sameKey b x) = true ∧
          (cfgBlocks cs k).all (fun b => !sameKey b x) = true ∧ x ∈ dm0.levelBlocks x.level)) := by
  have hne : c'.shots.isEmpty = false := by
    cases hsh : c'.shots with
    | nil => rw [hsh] at hk; simp at hk
    | cons a t => rfl
  have hbase : baseShots c' = c'.shots := by unfold baseShots; rw [hne]; rfl
  obtain ⟨_, _, f3, _, _, _, _, _, _, _, f11⟩ := normalize_fields c' po lo
  rw [hbase] at f11
  have hk' : k < (normalize c' po lo).shots.length := by rw [f11, List.length_map]; exact hk
  have hshot : (normalize c' po lo).shots[k] = clampShot (clampMode c') (mergeShot cs k s) := by
    simp only [f11, List.getElem_map, hs]
  have hdur : (normalize c' po lo).shots[k].duration = s.duration := by
    rw [hshot]; exact mergeShot_duration cs k s
  have hblocks : (normalize c' po lo).shots[k].blocks = b1 :: cfgBlocks cs k := by
    rw [hshot]
    show (mergeShot cs k s).blocks.map (clampL1 (clampMode c')) = _
    rw [mergeShot_blocks, hb, List.map_append, cfgBlocks_clamp]
    simp [hc1]
  have hedit : editBlocks (normalize c' po lo).shots[k] i = (e i).toList ++ cfgEditBlocks cs k i := by
    rw [hshot, editBlocks_clampShot, mergeShot_editBlocks, he, List.map_append, cfgEditBlocks_clamp]
    cases hei : e i with
    | none => rfl
    | some b => simp [(he1 i b hei).2]
  have hstart : shotStart (normalize c' po lo) k = ((c'.shots.take k).map (·.duration)).sum := by
    unfold shotStart
    rw [f11, ← List.map_take, List.map_map]
    rfl
  obtain ⟨base, dm0, r, d, g1, g2, g3, g4, g5, g6, g7, g8, g9⟩ :=
    gen_frame_with_source_l1 (normalize c' po lo) l hl k hk' i (by rw [hdur]; exact hi)
      b1 (cfgBlocks cs k) hblocks hb1 (cfgBlocks_level cs k)
      (e i) (cfgEditBlocks cs k i) hedit (fun b hb => (he1 i b hb).1) (cfgEditBlocks_level cs k i)
  rw [hstart] at g4
  have hcut : cutFlag (normalize c' po lo) i = if i = 0 ∨ lo.getD c'.longPlay = true then 1 else 0 := by
    unfold cutFlag; rw [f3]
  rw [hcut] at g7
  exact ⟨base, dm0, r, d, g1, g2, g3, g4, g5, g6, g7, g8, g9⟩

/-! ## madVR (`generate_metadata_from_madvr`) -/

/-- **the three outcomes of the madVR step, exactly**: a panic iff some scene's stored end word is 0 or its end lies
before its start (`u32` subtraction in `parse_scenes`, dev profile); otherwise an error iff some scene ends at or after
`frame_count` ("scene end higher than frame count"); otherwise the config of `madvrResult` -/
theorem madvr_config_outcome (c : Config) (src : MadvrSource) (custom : Bool) :
    (madvrConfig c src custom = .panic ↔ ¬ ScenesDefined src) ∧
    (madvrConfig c src custom = .error ↔ ScenesDefined src ∧ ¬ ScenesInRange src) ∧
    (madvrConfig c src custom = .ok (madvrResult c src custom) ↔ ScenesDefined src ∧ ScenesInRange src) := by
  rcases madvrConfig_cases c src custom with ⟨h1, h2⟩ | ⟨h1, h2, h3⟩ | ⟨h1, h2, h3⟩ <;> rw [h1]
  · exact ⟨⟨fun _ => h2, fun _ => rfl⟩, ⟨fun h => (by cases h), fun h => absurd h.1 h2⟩,
      ⟨fun h => (by cases h), fun h => absurd h.1 h2⟩⟩
  · exact ⟨⟨fun h => (by cases h), fun h => absurd h2 h⟩, ⟨fun _ => ⟨h2, h3⟩, fun _ => rfl⟩,
      ⟨fun h => (by cases h), fun h => absurd h.2 h3⟩⟩
  · exact ⟨⟨fun h => (by cases h), fun h => absurd h2 h⟩, ⟨fun h => (by cases h), fun h => absurd h3 h.2⟩,
      ⟨fun _ => ⟨h2, h3⟩, fun _ => rfl⟩⟩

/-- index of the first frame of scene `k` in the output: the lengths of the scenes before it -/
def sceneStart (src : MadvrSource) (k : Nat) : Nat := ((src.scenes.take k).map (·.length)).sum

/-- **C10 (a) for madVR — frame count**: when `generate --madvr-file` succeeds it wrote exactly `frame_count` RPUs;
no scene's arithmetic wrapped, every scene ends inside the frames, and (when there is a scene at all) the scene lengths
add up to `frame_count` -/
theorem madvr_frame_count (c : Config) (src : MadvrSource) (custom : Bool) (po : Option Profile) (lo : Option Bool)
    (out : List Bytes) (h : generateMadvr c src custom po lo = .ok out) :
    out.length = src.frameCount ∧ ScenesDefined src ∧ ScenesInRange src ∧
    (src.scenes ≠ [] → (src.scenes.map (·.length)).sum = src.frameCount) := by
  unfold generateMadvr at h
  obtain ⟨c', hc, hg⟩ := (bind_ok_iff _ _ _).1 h
  obtain ⟨rfl, hd, hr⟩ := madvr_ok c src custom c' hc
  rw [madvr_generateFrom c src custom po lo hr] at hg
  obtain ⟨g1, g2, g3⟩ := generate_length _ po lo out hg
  have hlen : (normalize (madvrResult c src custom) po lo).length = src.frameCount := by
    rw [(normalize_fields _ po lo).2.2.2.1]
    split
    · rename_i hh
      -- `length = 0` with shots cannot happen
      have h0 : src.frameCount = 0 := hh.1
      cases hs : src.scenes with
      | nil =>
        have : (madvrResult c src custom).shots.isEmpty = true := by
          show (madvrShots c src custom).isEmpty = true
          simp [madvrShots, hs]
        rw [this] at hh; cases hh.2
      | cons s t =>
        have := hr s (by rw [hs]; exact List.mem_cons_self)
        omega
    · rfl
  refine ⟨g1.trans hlen, hd, hr, ?_⟩
  intro hne
  rw [← hlen, g2, g3, madvr_shots_nonempty c src custom hne, durSum_eq_sum, madvrShots_durations]

/-- **the link to the frame theorems**: what `generate --madvr-file` writes is the writer's output on the frames of
`generate_rpu_list (normalize c')`, `c'` the config of the madVR step — the list `l` that `madvr_frame`,
`madvr_scene_cuts`, `madvr_beyond_config_shots` (and all `gen_*` theorems above) speak about -/
theorem madvr_output (c : Config) (src : MadvrSource) (custom : Bool) (po : Option Profile) (lo : Option Bool)
    (out : List Bytes) (h : generateMadvr c src custom po lo = .ok out) :
    ∃ c' l, madvrConfig c src custom = .ok c' ∧ generateList (normalize c' po lo) = .ok l ∧ writeAll l = .ok out ∧
      out.length = l.length := by
  unfold generateMadvr at h
  obtain ⟨c', hc, hg⟩ := (bind_ok_iff _ _ _).1 h
  obtain ⟨rfl, _, hr⟩ := madvr_ok c src custom c' hc
  rw [madvr_generateFrom c src custom po lo hr] at hg
  obtain ⟨_, l, h1, h2⟩ := (generate_ok_iff _ po lo out).1 hg
  exact ⟨_, l, hc, h1, h2, writeAll_length l out h2⟩

/-- **… and exactly when it does not**: a scene whose arithmetic wraps makes the command panic (the real tool aborts
with "attempt to subtract with overflow") -/
theorem madvr_undefined_panics (c : Config) (src : MadvrSource) (custom : Bool) (po : Option Profile) (lo : Option Bool)
    (h : ¬ ScenesDefined src) : generateMadvr c src custom po lo = .panic := by
  unfold generateMadvr
  rw [(madvr_config_outcome c src custom).1.2 h]; rfl

/-- a scene that ends at or after `frame_count` is an error -/
theorem madvr_out_of_range_errors (c : Config) (src : MadvrSource) (custom : Bool) (po : Option Profile)
    (lo : Option Bool) (hd : ScenesDefined src) (h : ¬ ScenesInRange src) :
    generateMadvr c src custom po lo = .error := by
  unfold generateMadvr
  rw [(madvr_config_outcome c src custom).2.1.2 ⟨hd, h⟩]; rfl

/-- scenes that lie inside the frames but do not tile them (their lengths do not add up to `frame_count`: a gap, an
overlap, a duplicate) are an error ("Config length is not the same as shots total duration") -/
theorem madvr_not_tiling_errors (c : Config) (src : MadvrSource) (custom : Bool) (po : Option Profile) (lo : Option Bool)
    (hd : ScenesDefined src) (hr : ScenesInRange src) (hne : src.scenes ≠ [])
    (hsum : (src.scenes.map (·.length)).sum ≠ src.frameCount) :
    generateMadvr c src custom po lo = .error := by
  cases hg : generateMadvr c src custom po lo with
  | error => rfl
  | ok out => exact absurd ((madvr_frame_count c src custom po lo out hg).2.2.2 hne) hsum
  | panic =>
    unfold generateMadvr at hg
    rw [(madvr_config_outcome c src custom).2.2.2 ⟨hd, hr⟩] at hg
    simp only [Res.bind] at hg
    rw [madvr_generateFrom c src custom po lo hr] at hg
    exact absurd hg (generate_no_panic _ po lo)

/-- with well-defined scenes the command never panics -/
theorem madvr_no_panic (c : Config) (src : MadvrSource) (custom : Bool) (po : Option Profile) (lo : Option Bool)
    (hd : ScenesDefined src) : generateMadvr c src custom po lo ≠ .panic := by
  intro hg
  unfold generateMadvr at hg
  rcases madvrConfig_cases c src custom with ⟨_, h2⟩ | ⟨h1, _, _⟩ | ⟨h1, _, hr⟩
  · exact h2 hd
  · rw [h1] at hg; cases hg
  · rw [h1] at hg
    simp only [Res.bind] at hg
    rw [madvr_generateFrom c src custom po lo hr] at hg
    exact generate_no_panic _ po lo hg

/-- **C10 (b), (c), (e) for madVR — one frame**: frame `i` of scene `k` sits at index `sceneStart src k + i`; it is the
base RPU of the normalized config with DM data `d` whose
* scene-refresh flag is 1 iff `i = 0` (or long-play mode, from `--long-play-mode` else the config),
* only L1 block is the clamped (0, scene peak code, scene average code) — with `--use-custom-targets` on a flags-3 file
  the clamped (0, target code of frame `start + i`, scene average code) — whatever L1 blocks the config's shot `k`, its
  frame edits or the defaults carry,
* blocks of every other level follow the precedence: not-L1 blocks of the config shot `k`'s first frame edit at offset
  `i`, then its not-L1 blocks, then the base DM data (defaults, statics). -/
theorem madvr_frame (c : Config) (src : MadvrSource) (custom : Bool) (po : Option Profile) (lo : Option Bool)
    (c' : Config) (hc : madvrConfig c src custom = .ok c') (l : List Rpu)
    (hl : generateList (normalize c' po lo) = .ok l)
    (k : Nat) (hk : k < src.scenes.length) (i : Nat) (hi : i < src.scenes[k].length) :
    ∃ base dm0 r d, baseRpu (normalize c' po lo) = .ok base ∧ dmFromConfig (normalize c' po lo) = .ok dm0 ∧ Uniq dm0 ∧
      l[sceneStart src k + i]? = some r ∧ r = { base with vdr_dm_data := some d } ∧ Uniq d ∧
      d.scene_refresh_flag = (if i = 0 ∨ lo.getD c.longPlay = true then 1 else 0) ∧
      d.levelBlocks 1 =
        [if custom = true ∧ src.flags = 3
         then l1Block (clampMode c) (src.targets.getD (src.scenes[k].start + i) 0) src.scenes[k].avgCode
         else l1Block (clampMode c) src.scenes[k].maxCode src.scenes[k].avgCode] ∧
      ∀ x : Block, x.level ≠ 1 → (x ∈ d.levelBlocks x.level ↔
        (holds dm0 x.level ∧ (cfgEditBlocks c.shots k i).reverse.find? (sameKey x) = some x) ∨
        ((cfgEditBlocks c.shots k i).all (fun b => !sameKey b x) = true ∧ holds dm0 x.level ∧
          (cfgBlocks c.shots k).reverse.find? (sameKey x) = some x) ∨
        ((cfgEditBlocks c.shots k i).all (fun b => !sameKey b x) = true ∧
          (cfgBlocks c.shots k).all (fun b => !sameKey b x) = true ∧ x ∈ dm0.levelBlocks x.level)) := by
  obtain ⟨rfl, _, _⟩ := madvr_ok c src custom c' hc
  have hk' : k < (madvrResult c src custom).shots.length := by
    show k < (madvrShots c src custom).length
    rw [madvrShots_length]; exact hk
  have hs : (madvrResult c src custom).shots[k] = mergeShot c.shots k
      (madvrSceneShot (clampMode c) (custom && src.flags == 3) src.targets src.scenes[k]) :=
    madvrShots_getElem c src custom k hk
  obtain ⟨base, dm0, r, d, g1, g2, g3, g4, g5, g6, g7, g8, g9⟩ :=
    source_frame (madvrResult c src custom) po lo l hl c.shots k hk' _ hs
      (l1Block (clampMode c) src.scenes[k].maxCode src.scenes[k].avgCode) rfl (l1Block_level _ _ _) (clamp_l1Block _ _ _)
      (customL1 (clampMode c) (custom && src.flags == 3) src.targets src.scenes[k])
      (editBlocks_sceneShot _ _ _ _)
      (by
        intro j b hb
        unfold customL1 at hb
        split at hb
        · cases hb; exact ⟨l1Block_level _ _ _, clamp_l1Block _ _ _⟩
        · cases hb)
      i hi
  have hstart : (((madvrResult c src custom).shots.take k).map (·.duration)).sum = sceneStart src k := by
    unfold sceneStart
    rw [List.map_take, List.map_take]
    show (((madvrShots c src custom).map (·.duration)).take k).sum = _
    rw [madvrShots_durations]
  rw [hstart] at g4
  refine ⟨base, dm0, r, d, g1, g2, g3, g4, g5, g6, (shell_fields g7).2.2.2.2.1, ?_, g9⟩
  rw [g8]
  unfold customL1
  by_cases hcu : custom = true ∧ src.flags = 3
  · simp [hi, hcu]
  · have : (custom && src.flags == 3) = false := by
      cases custom <;> simp at hcu ⊢
      exact hcu
    simp [this, hcu]

/-- **C10 (c) for madVR — scenes beyond the config's shots are untouched**: when the config has no shot `k`, the frames
of scene `k` carry the source L1 and otherwise exactly the blocks of the base DM data -/
theorem madvr_beyond_config_shots (c : Config) (src : MadvrSource) (custom : Bool) (po : Option Profile)
    (lo : Option Bool) (c' : Config) (hc : madvrConfig c src custom = .ok c') (l : List Rpu)
    (hl : generateList (normalize c' po lo) = .ok l)
    (k : Nat) (hk : k < src.scenes.length) (hcs : c.shots.length ≤ k) (i : Nat) (hi : i < src.scenes[k].length) :
    ∃ dm0 r d, dmFromConfig (normalize c' po lo) = .ok dm0 ∧ l[sceneStart src k + i]? = some r ∧
      r.vdr_dm_data = some d ∧ ∀ x : Block, x.level ≠ 1 → (x ∈ d.levelBlocks x.level ↔ x ∈ dm0.levelBlocks x.level) := by
  obtain ⟨base, dm0, r, d, _, g2, _, g4, g5, _, _, _, g9⟩ := madvr_frame c src custom po lo c' hc l hl k hk i hi
  refine ⟨dm0, r, d, g2, g4, by rw [g5], ?_⟩
  intro x hx
  rw [g9 x hx, cfgBlocks_beyond c.shots k hcs, cfgEditBlocks_beyond c.shots k i hcs]
  simp

/-- **C10 (e) for madVR — scene cuts**: the scene-refresh flags of the output are, scene by scene, 1 on the first frame
and 0 on the others (1 everywhere in long-play mode) -/
theorem madvr_scene_cuts (c : Config) (src : MadvrSource) (custom : Bool) (po : Option Profile) (lo : Option Bool)
    (c' : Config) (hc : madvrConfig c src custom = .ok c') (hne : src.scenes ≠ []) (l : List Rpu)
    (hl : generateList (normalize c' po lo) = .ok l) :
    l.map flagOf = src.scenes.flatMap fun s => (List.range s.length).map fun i =>
      some (if i = 0 ∨ lo.getD c.longPlay = true then 1 else 0) := by
  obtain ⟨rfl, _, _⟩ := madvr_ok c src custom c' hc
  rw [gen_scene_cuts _ l hl]
  obtain ⟨_, _, f3, _, _, _, _, _, _, _, f11⟩ := normalize_fields (madvrResult c src custom) po lo
  rw [f3]
  have h1 : ∀ (shots : List Shot), (shots.flatMap fun s => (List.range s.duration).map fun i =>
        some (if i = 0 ∨ lo.getD (madvrResult c src custom).longPlay = true then 1 else 0)) =
      (shots.map (·.duration)).flatMap fun n => (List.range n).map fun i =>
        some (if i = 0 ∨ lo.getD c.longPlay = true then 1 else 0) := by
    intro shots; rw [List.flatMap_map]; rfl
  rw [h1, f11, madvr_shots_nonempty c src custom hne, List.map_map]
  have h2 : ((fun (s : Shot) => s.duration) ∘ clampShot (clampMode (madvrResult c src custom))) = fun s => s.duration := rfl
  rw [h2, madvrShots_durations, List.flatMap_map]

/-- **C10 (d) for madVR — the L6 fill-in**: a config without `level6` stays without; in a config's L6
`[max_mdl, min_mdl, MaxCLL, MaxFALL]` a `MaxCLL` / `MaxFALL` of 0 is replaced by the low 16 bits of the file's header word
(`as u16`), a non-zero one is kept; the two mastering-display values are never touched. This `level6` is what reaches
`generate_rpu_list` (`normalize` does not change it). -/
theorem madvr_l6 (c : Config) (src : MadvrSource) (custom : Bool) (c' : Config)
    (hc : madvrConfig c src custom = .ok c') (po : Option Profile) (lo : Option Bool) :
    (normalize c' po lo).level6 = c'.level6 ∧
    (c.level6 = none → c'.level6 = none) ∧
    ∀ a b cll fall, c.level6 = some [a, b, cll, fall] →
      c'.level6 = some [a, b, if cll = 0 then src.maxcll % 65536 else cll,
                              if fall = 0 then src.maxfall % 65536 else fall] := by
  obtain ⟨rfl, _, _⟩ := madvr_ok c src custom c' hc
  refine ⟨(normalize_fields _ po lo).2.2.2.2.2.2.2.1, ?_, ?_⟩
  · intro h; show c.level6.map _ = none; rw [h]; rfl
  · intro a b cll fall h
    show c.level6.map _ = _
    rw [h]
    simp only [Option.map_some, fillL6]
    by_cases h1 : cll = 0 <;> by_cases h2 : fall = 0 <;> simp [h1, h2]

/-- the rest of the config is handed on unchanged, `length` becomes `frame_count`, and there is one shot per scene
with the scene's start and length -/
theorem madvr_config_fields (c : Config) (src : MadvrSource) (custom : Bool) (c' : Config)
    (hc : madvrConfig c src custom = .ok c') :
    c'.length = src.frameCount ∧ c'.cmv40 = c.cmv40 ∧ c'.profile = c.profile ∧ c'.longPlay = c.longPlay ∧
    c'.sourceMinPq = c.sourceMinPq ∧ c'.sourceMaxPq = c.sourceMaxPq ∧ c'.l1AvgCmv40 = c.l1AvgCmv40 ∧
    c'.level5 = c.level5 ∧ c'.defaults = c.defaults ∧
    c'.shots.map (fun s => (s.start, s.duration)) = src.scenes.map (fun s => (s.start, s.length)) := by
  obtain ⟨rfl, _, _⟩ := madvr_ok c src custom c' hc
  refine ⟨rfl, rfl, rfl, rfl, rfl, rfl, rfl, rfl, rfl, ?_⟩
  apply List.ext_getElem
  · simp [madvrResult, madvrShots_length]
  · intro i h1 h2
    have hk : i < src.scenes.length := by simpa using h2
    have hk2 : i < (madvrShots c src custom).length := by rw [madvrShots_length]; exact hk
    rw [List.getElem_map, List.getElem_map]
    show ((madvrShots c src custom)[i].start, (madvrShots c src custom)[i].duration) = _
    rw [madvrShots_getElem c src custom i hk, mergeShot_start, mergeShot_duration]
    rfl

/-! ## HDR10+ (`parse_hdr10plus_for_l1`) -/

/-- **the outcomes of the HDR10+ step, exactly** (`parse_hdr10plus_for_l1` as repaired by /repo 3502e27): it never
panics; it returns an error iff the summary arrays do not fit the frames (`HdrFits`: empty `SceneFirstFrameIndex`, an
entry below the first one, a visited frame without a peak value for the chosen source, fewer `SceneFrameNumbers` than
visited frames); otherwise it returns `hdrResult` -/
theorem hdr_config_outcome (c : Config) (src : HdrSource) :
    hdr10plusConfig c src ≠ .panic ∧
    (hdr10plusConfig c src = .error ↔ ¬ ∃ f0, HdrFits src f0) ∧
    ∀ c', hdr10plusConfig c src = .ok c' → ∃ f0, HdrFits src f0 ∧ c' = hdrResult c src f0 := by
  rcases hdr10plusConfig_cases c src with ⟨h1, h2⟩ | ⟨f0, h1, h2⟩ <;> rw [h1]
  · exact ⟨fun h => (by cases h), ⟨fun _ => h2, fun _ => rfl⟩, fun c' h => (by cases h)⟩
  · refine ⟨fun h => (by cases h), ⟨fun h => (by cases h), fun h => absurd ⟨f0, h2⟩ h⟩, ?_⟩
    intro c' h; cases h; exact ⟨f0, h2, rfl⟩

/-- **C10 (a) for HDR10+ — frame count**: when `generate --hdr10plus-json` succeeds it wrote exactly one RPU per
`SceneInfo` entry; the summary arrays fit the frames, and (when a frame is visited at all) the first `m` scene lengths,
`m` the number of visited first frames, add up to the frame count -/
theorem hdr_frame_count (c : Config) (src : HdrSource) (po : Option Profile) (lo : Option Bool)
    (out : List Bytes) (h : generateHdr10plus c src po lo = .ok out) :
    out.length = src.frames.length ∧ ∃ f0, HdrFits src f0 ∧
      (hdrFirstFrames src f0 ≠ [] → (src.lengths.take (hdrFirstFrames src f0).length).sum = src.frames.length) := by
  unfold generateHdr10plus at h
  obtain ⟨c', hc, hg⟩ := (bind_ok_iff _ _ _).1 h
  obtain ⟨f0, hfit, rfl⟩ := (hdr_config_outcome c src).2.2 c' hc
  rw [hdr_generateFrom c src f0 po lo] at hg
  obtain ⟨g1, g2, g3⟩ := generate_length _ po lo out hg
  have hlen : (normalize (hdrResult c src f0) po lo).length = src.frames.length := by
    rw [(normalize_fields _ po lo).2.2.2.1]
    split
    · rename_i hh
      have h0 : src.frames.length = 0 := hh.1
      have : (hdrResult c src f0).shots.isEmpty = true := by
        show (hdrShots c src f0).isEmpty = true
        simp [hdrShots, hdrFirstFrames, h0]
      rw [this] at hh; cases hh.2
    · rfl
  refine ⟨g1.trans hlen, f0, hfit, ?_⟩
  intro hne
  rw [← hlen, g2, g3, hdr_shots_nonempty c src f0 hne, durSum_eq_sum, hdrShots_durations c src f0 hfit.2.2.2]

/-- the link to the frame theorems for HDR10+ (see `madvr_output`) -/
theorem hdr_output (c : Config) (src : HdrSource) (po : Option Profile) (lo : Option Bool)
    (out : List Bytes) (h : generateHdr10plus c src po lo = .ok out) :
    ∃ c' l, hdr10plusConfig c src = .ok c' ∧ generateList (normalize c' po lo) = .ok l ∧ writeAll l = .ok out ∧
      out.length = l.length := by
  unfold generateHdr10plus at h
  obtain ⟨c', hc, hg⟩ := (bind_ok_iff _ _ _).1 h
  obtain ⟨f0, _, rfl⟩ := (hdr_config_outcome c src).2.2 c' hc
  rw [hdr_generateFrom c src f0 po lo] at hg
  obtain ⟨_, l, h1, h2⟩ := (generate_ok_iff _ po lo out).1 hg
  exact ⟨_, l, hc, h1, h2, writeAll_length l out h2⟩

/-- summary arrays that do not fit the frames make the command fail with an error message (empty
`SceneFirstFrameIndex`, an entry below the first one, a missing peak value, a missing `SceneFrameNumbers` entry) -/
theorem hdr_unfit_errors (c : Config) (src : HdrSource) (po : Option Profile) (lo : Option Bool)
    (h : ¬ ∃ f0, HdrFits src f0) : generateHdr10plus c src po lo = .error := by
  unfold generateHdr10plus
  rw [(hdr_config_outcome c src).2.1.2 h]; rfl

/-- **`generate --hdr10plus-json` never panics**, whatever the source and the config are; and summary arrays that fit
but whose (first `m`) scene lengths do not add up to the frame count are an error ("Config length is not the same as
shots total duration") -/
theorem hdr_no_panic (c : Config) (src : HdrSource) (po : Option Profile) (lo : Option Bool) :
    generateHdr10plus c src po lo ≠ .panic ∧
    ∀ f0, HdrFits src f0 → hdrFirstFrames src f0 ≠ [] →
      (src.lengths.take (hdrFirstFrames src f0).length).sum ≠ src.frames.length →
      generateHdr10plus c src po lo = .error := by
  have hnp : generateHdr10plus c src po lo ≠ .panic := by
    intro hg
    unfold generateHdr10plus at hg
    rcases hdr10plusConfig_cases c src with ⟨h1, _⟩ | ⟨g0, h1, _⟩
    · rw [h1] at hg; cases hg
    · rw [h1] at hg
      simp only [Res.bind] at hg
      rw [hdr_generateFrom c src g0 po lo] at hg
      exact generate_no_panic _ po lo hg
  refine ⟨hnp, ?_⟩
  intro f0 hfit hne hsum
  cases hg : generateHdr10plus c src po lo with
  | error => rfl
  | panic => exact absurd hg hnp
  | ok out =>
    obtain ⟨_, g0, hg0, hs⟩ := hdr_frame_count c src po lo out hg
    have : g0 = f0 := by
      have a := hg0.1; have b := hfit.1; rw [a] at b; simpa using b
    subst this
    exact absurd (hs hne) hsum

/-- **C10 (b), (c), (e) for HDR10+ — one frame**: `k` counts the visited first frames (`hdrFirstFrames`), the `k`-th of
them being frame `n`; frame `i` of that scene sits at index (first `k` scene lengths) + `i`; its scene-refresh flag is 1
iff `i = 0` (or long-play); its only L1 block is the clamped (0, max code, avg code) of frame `n` — never the config's;
every other level follows the precedence config shot `k`'s first edit at `i` (not-L1 blocks), its not-L1 blocks, base -/
theorem hdr_frame (c : Config) (src : HdrSource) (po : Option Profile) (lo : Option Bool)
    (c' : Config) (hc : hdr10plusConfig c src = .ok c') (l : List Rpu)
    (hl : generateList (normalize c' po lo) = .ok l) :
    ∃ f0, HdrFits src f0 ∧
    ∀ (k : Nat) (hk : k < (hdrFirstFrames src f0).length) (i : Nat), i < src.lengths.getD k 0 →
    ∃ base dm0 r d, baseRpu (normalize c' po lo) = .ok base ∧ dmFromConfig (normalize c' po lo) = .ok dm0 ∧ Uniq dm0 ∧
      l[(src.lengths.take k).sum + i]? = some r ∧ r = { base with vdr_dm_data := some d } ∧ Uniq d ∧
      d.scene_refresh_flag = (if i = 0 ∨ lo.getD c.longPlay = true then 1 else 0) ∧
      d.levelBlocks 1 =
        [l1Block (clampMode c) ((src.frames.getD (hdrFirstFrames src f0)[k] none).getD (0, 0)).1
                               ((src.frames.getD (hdrFirstFrames src f0)[k] none).getD (0, 0)).2] ∧
      ∀ x : Block, x.level ≠ 1 → (x ∈ d.levelBlocks x.level ↔
        (holds dm0 x.level ∧ (cfgEditBlocks c.shots k i).reverse.find? (sameKey x) = some x) ∨
        ((cfgEditBlocks c.shots k i).all (fun b => !sameKey b x) = true ∧ holds dm0 x.level ∧
          (cfgBlocks c.shots k).reverse.find? (sameKey x) = some x) ∨
        ((cfgEditBlocks c.shots k i).all (fun b => !sameKey b x) = true ∧
          (cfgBlocks c.shots k).all (fun b => !sameKey b x) = true ∧ x ∈ dm0.levelBlocks x.level)) := by
  obtain ⟨f0, hfit, rfl⟩ := (hdr_config_outcome c src).2.2 c' hc
  refine ⟨f0, hfit, ?_⟩
  intro k hk i hi
  have hk' : k < (hdrResult c src f0).shots.length := by
    show k < (hdrShots c src f0).length
    rw [hdrShots_length]; exact hk
  have hs := hdrShots_getElem c src f0 k hk
  have hgetD : (hdrFirstFrames src f0).getD k 0 = (hdrFirstFrames src f0)[k] := by
    rw [List.getD_eq_getElem?_getD, List.getElem?_eq_getElem hk]; rfl
  obtain ⟨base, dm0, r, d, g1, g2, g3, g4, g5, g6, g7, g8, g9⟩ :=
    source_frame (hdrResult c src f0) po lo l hl c.shots k hk' _ hs
      _ rfl (l1Block_level _ _ _) (clamp_l1Block _ _ _)
      (fun _ => none) (fun _ => rfl) (fun _ _ h => (by cases h)) i hi
  have hstart : (((hdrResult c src f0).shots.take k).map (·.duration)).sum = (src.lengths.take k).sum := by
    rw [List.map_take]
    show (((hdrShots c src f0).map (·.duration)).take k).sum = _
    rw [hdrShots_durations c src f0 hfit.2.2.2, List.take_take]
    congr 2
    omega
  rw [hstart] at g4
  refine ⟨base, dm0, r, d, g1, g2, g3, g4, g5, g6, (shell_fields g7).2.2.2.2.1, ?_, g9⟩
  rw [g8, hgetD]
  rfl

/-- **C10 (e) for HDR10+ — scene cuts**: scene by scene (the first `m` scene lengths), 1 on the first frame and 0 on the
others (1 everywhere in long-play mode) -/
theorem hdr_scene_cuts (c : Config) (src : HdrSource) (po : Option Profile) (lo : Option Bool)
    (c' : Config) (hc : hdr10plusConfig c src = .ok c') (l : List Rpu)
    (hl : generateList (normalize c' po lo) = .ok l) :
    ∃ f0, HdrFits src f0 ∧ (hdrFirstFrames src f0 ≠ [] →
      l.map flagOf = (src.lengths.take (hdrFirstFrames src f0).length).flatMap fun n => (List.range n).map fun i =>
        some (if i = 0 ∨ lo.getD c.longPlay = true then 1 else 0)) := by
  obtain ⟨f0, hfit, rfl⟩ := (hdr_config_outcome c src).2.2 c' hc
  refine ⟨f0, hfit, ?_⟩
  intro hne
  rw [gen_scene_cuts _ l hl]
  obtain ⟨_, _, f3, _, _, _, _, _, _, _, f11⟩ := normalize_fields (hdrResult c src f0) po lo
  rw [f3]
  have h1 : ∀ (shots : List Shot), (shots.flatMap fun s => (List.range s.duration).map fun i =>
        some (if i = 0 ∨ lo.getD (hdrResult c src f0).longPlay = true then 1 else 0)) =
      (shots.map (·.duration)).flatMap fun n => (List.range n).map fun i =>
        some (if i = 0 ∨ lo.getD c.longPlay = true then 1 else 0) := by
    intro shots; rw [List.flatMap_map]; rfl
  rw [h1, f11, hdr_shots_nonempty c src f0 hne, List.map_map]
  have h2 : ((fun (s : Shot) => s.duration) ∘ clampShot (clampMode (hdrResult c src f0))) = fun s => s.duration := rfl
  rw [h2, hdrShots_durations c src f0 hfit.2.2.2]

/-! ## non-vacuity for the source paths: concrete sources satisfying the hypotheses, and what the theorems say -/

def l1v (a b c : Int) : Block := { level := 1, length := 5, vals := [a, b, c] }

/-- a config with one shot: an L2 for target 2081 and an L1 (must be dropped); frame edits at offset 1 (L2 and L1), a second
one at offset 1 (never applies), one beyond the scene; L6 with MaxCLL 0 (filled in) and MaxFALL 400 (kept) -/
def mvCfg : Config :=
  { level6 := some [1000, 1, 0, 400],
    shots := [{ blocks := [l2 2081 2, l1v 0 3000 1500],
                edits := [{ offset := 1, blocks := [l2 2081 3, l1v 0 3500 1600] }, { offset := 1, blocks := [l2 2081 4] },
                          { offset := 7, blocks := [l2 2081 5] }] }] }

/-- a flags-3 measurement: 5 frames, scenes 0..2 and 3..4; the second scene's peak code is above 4095 (12000 nits), the
first scene's average below the CM v4.0 floor; MaxCLL 70000 does not fit 16 bits -/
def mvSrc : MadvrSource :=
  { flags := 3, maxcll := 70000, maxfall := 120, frameCount := 5,
    scenes := [{ start := 0, endRaw := 3, maxCode := 3079, avgCode := 100 },
               { start := 3, endRaw := 5, maxCode := 4200, avgCode := 2000 }],
    targets := [2081, 2500, 3000, 3500, 4000] }

/-- the hypotheses of `madvr_frame`, `madvr_scene_cuts`, `madvr_l6`, … are satisfiable, with and without custom targets -/
example : ∃ c' l, madvrConfig mvCfg mvSrc true = .ok c' ∧ generateList (normalize c' none none) = .ok l := ⟨_, _, rfl, rfl⟩
example : ∃ c' l, madvrConfig mvCfg mvSrc false = .ok c' ∧ generateList (normalize c' none none) = .ok l := ⟨_, _, rfl, rfl⟩
example : ScenesDefined mvSrc ∧ ScenesInRange mvSrc ∧ mvSrc.scenes ≠ [] := by
  refine ⟨?_, ?_, by decide⟩ <;> (intro s hs; simp [mvSrc] at hs; rcases hs with rfl | rfl <;> decide)
/-- … and so is the hypothesis of `madvr_frame_count`: 5 RPUs -/
example : ∃ out, generateMadvr mvCfg mvSrc true none none = .ok out ∧ out.length = 5 := ⟨_, rfl, rfl⟩

/-- per frame of the source path's output: scene-refresh flag and the blocks of one level -/
def viewMadvr (c : Config) (src : MadvrSource) (custom : Bool) (lv : Nat) : Option (List (Option Nat × List Block)) :=
  match madvrConfig c src custom with
  | .ok c' => view (normalize c' none none) lv
  | _ => none

/-- (b), (e) without custom targets: cuts at frames 0 and 3; every frame of a scene carries the scene's clamped L1
(average 100 raised to 1229, peak 4200 cut to 4095) — not the config's L1 blocks -/
example : viewMadvr mvCfg mvSrc false 1 =
    some [(some 1, [l1v 0 3079 1229]), (some 0, [l1v 0 3079 1229]), (some 0, [l1v 0 3079 1229]),
          (some 1, [l1v 0 4095 2000]), (some 0, [l1v 0 4095 2000])] := by decide
/-- (b) with custom targets: frame `i` of a scene carries the clamped target of frame `start + i` and the scene's average -/
example : viewMadvr mvCfg mvSrc true 1 =
    some [(some 1, [l1v 0 2081 1229]), (some 0, [l1v 0 2500 1229]), (some 0, [l1v 0 3000 1229]),
          (some 1, [l1v 0 3500 2000]), (some 0, [l1v 0 4000 2000])] := by decide
/-- (c): the config shot's L2 on the frames of scene 0, its FIRST edit at offset 1 on frame 1 (merged into the custom edit
or added), nothing on scene 1 (the config has no second shot) -/
example : viewMadvr mvCfg mvSrc true 2 =
    some [(some 1, [l2 2081 2]), (some 0, [l2 2081 3]), (some 0, [l2 2081 2]), (some 1, []), (some 0, [])] := by decide
example : viewMadvr mvCfg mvSrc false 2 = viewMadvr mvCfg mvSrc true 2 := by decide
/-- (d): MaxCLL 0 is filled in with 70000 mod 65536, MaxFALL 400 is kept -/
example : viewMadvr mvCfg mvSrc false 6 =
    some (List.replicate 5 (some 0, [{ level := 6, length := 8, vals := [1000, 1, 4464, 400] }])
      |>.set 0 (some 1, [{ level := 6, length := 8, vals := [1000, 1, 4464, 400] }])
      |>.set 3 (some 1, [{ level := 6, length := 8, vals := [1000, 1, 4464, 400] }])) := by decide
/-- `copy_metadata_from_shot` on the example: the L1 of the override is dropped, its first offset-1 edit is merged into the
existing custom edit, its second offset-1 edit is not added (the offset exists), the offset-7 edit is added -/
example : (copyMetadataFromShot
      { blocks := [l1v 0 3079 1229], edits := [{ offset := 0, blocks := [l1v 0 1 1] }, { offset := 1, blocks := [l1v 0 2 2] }] }
      (mvCfg.shots.getD 0 {}) (some [1])) =
    ({ blocks := [l1v 0 3079 1229, l2 2081 2],
       edits := [{ offset := 0, blocks := [l1v 0 1 1] }, { offset := 1, blocks := [l1v 0 2 2, l2 2081 3] },
                 { offset := 7, blocks := [l2 2081 5] }] } : Shot) := rfl
/-- the error / panic cases: scenes not tiling the frames (6 frames), a scene beyond the frames, an end word of 0, an end
before the start -/
example : generateMadvr mvCfg { mvSrc with frameCount := 6 } false none none = .error := by decide
example : generateMadvr mvCfg { mvSrc with frameCount := 4 } false none none = .error := by decide
example : generateMadvr mvCfg { mvSrc with scenes := [{ start := 0, endRaw := 0, maxCode := 0, avgCode := 0 }] } false none none
    = .panic := by decide
example : generateMadvr mvCfg { mvSrc with scenes := [{ start := 3, endRaw := 3, maxCode := 0, avgCode := 0 }] } false none none
    = .panic := by decide
/-- no scene at all: one default shot of `frame_count` frames without any L1 -/
example : viewMadvr mvCfg { mvSrc with scenes := [] } false 1 =
    some [(some 1, []), (some 0, []), (some 0, []), (some 0, []), (some 0, [])] := by decide

/-- HDR10+: first-frame indices 5 and 7 (rebased to 0 and 2), scene lengths 2 and 1, three frames -/
def hdrSrc : HdrSource :=
  { firsts := [5, 7], lengths := [2, 1], frames := [some (3000, 1500), some (1, 1), some (2500, 900)] }

example : HdrFits hdrSrc 5 ∧ hdrFirstFrames hdrSrc 5 = [0, 2] := by
  refine ⟨⟨rfl, by decide, by decide, by decide⟩, by decide⟩
example : ∃ c' l, hdr10plusConfig mvCfg hdrSrc = .ok c' ∧ generateList (normalize c' none none) = .ok l := ⟨_, _, rfl, rfl⟩
example : ∃ out, generateHdr10plus mvCfg hdrSrc none none = .ok out ∧ out.length = 3 := ⟨_, rfl, rfl⟩

def viewHdr (c : Config) (src : HdrSource) (lv : Nat) : Option (List (Option Nat × List Block)) :=
  match hdr10plusConfig c src with
  | .ok c' => view (normalize c' none none) lv
  | _ => none

/-- L1 of the scene's first frame on every frame of the scene; cuts at the scene starts; the config shot's L2 and its first
offset-1 edit on scene 0 -/
example : viewHdr mvCfg hdrSrc 1 =
    some [(some 1, [l1v 0 3000 1500]), (some 0, [l1v 0 3000 1500]), (some 1, [l1v 0 2500 1229])] := by decide
example : viewHdr mvCfg hdrSrc 2 = some [(some 1, [l2 2081 2]), (some 0, [l2 2081 3]), (some 1, [])] := by decide
/-- the errors (panics before /repo 3502e27): empty first-frame list, an entry below the first, a missing scene length, a
first frame without peak value; and scene lengths not adding up -/
example : generateHdr10plus mvCfg { hdrSrc with firsts := [] } none none = .error := by decide
example : generateHdr10plus mvCfg { hdrSrc with firsts := [5, 3] } none none = .error := by decide
example : generateHdr10plus mvCfg { hdrSrc with lengths := [2] } none none = .error := by decide
example : generateHdr10plus mvCfg { hdrSrc with frames := [some (3000, 1500), some (1, 1), none] } none none = .error := by
  decide
/-- … and `hdr_unfit_errors`' hypothesis is satisfiable: no `f0` fits an empty first-frame list -/
example : ¬ ∃ f0, HdrFits { hdrSrc with firsts := [] } f0 := by
  rintro ⟨f0, h, _⟩; cases h
example : generateHdr10plus mvCfg { hdrSrc with lengths := [2, 2] } none none = .error := by decide

end Dovi.C10
