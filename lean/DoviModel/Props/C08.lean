import DoviModel.Model.Av1
import DoviModel.Proofs.Bits
/-! # C08 — parsing untrusted bytes always returns (model theorems; extended in Proofs/NoPanic.lean) -/
namespace Dovi.C08
open Dovi

/-- the bit reader never panics -/
theorem readN_no_panic (n : Nat) (s : Bits) : readN n s ≠ .panic := by
  unfold readN; split <;> simp

theorem readBit_no_panic (s : Bits) : readBit s ≠ .panic := by
  cases s <;> simp [readBit]

/-- too-short buffers are rejected before any slicing (the `rpu_end > 5` guard) -/
theorem parseRpu_short_is_error (data : Bytes) (h : data.length - trailingZeroes data ≤ 5) :
    parseRpu data = .error := by
  simp [parseRpu, h]

/-- a buffer below the 25-byte minimum is an error at every prefix-trimming entry point -/
theorem trimPrefix_short (data : Bytes) (h : data.length < 25) : trimPrefix data = .error := by
  simp [trimPrefix, h]

end Dovi.C08
