import DoviModel.Model.Av1
import DoviModel.Proofs.Bits
import DoviModel.Proofs.NoPanic
import DoviModel.Proofs.NoPanic2
/-! # C08 — parsing untrusted bytes always returns (model theorems; extended in Proofs/NoPanic.lean) -/
namespace Dovi.C08
open Dovi

/-- the bit reader never panics -/
theorem readN_no_panic (n : Nat) (s : Bits) : readN n s ≠ .panic := by
  unfold readN; split <;> simp

theorem readBit_no_panic (s : Bits) : readBit s ≠ .panic := by
  cases s <;> simp [readBit]

/-- too-short buffers are rejected before any slicing (the `rpu_end > 5` guard) -/
theorem parseRpu_short_is_error (data : Bytes) (h : data.length - trailingZeroes data ≤ 5) :
    parseRpu data = .error := by
  simp [parseRpu, h]

/-- a buffer below the 25-byte minimum is an error at every prefix-trimming entry point -/
theorem trimPrefix_short (data : Bytes) (h : data.length < 25) : trimPrefix data = .error := by
  simp [trimPrefix, h]

/-- **no panic outside the two third-party exp-Golomb sites.** `Good` = the syntax bits contain no run of 63
zero bits; both third-party panics (`get_ue` with 64 leading zeros, `get_se` at `i64::MIN`) need such a run.
On every other input the model of `DoviRpu::parse` returns a value or an error. -/
theorem parse_no_panic (data : Bytes)
    (hg : Good (bytesToBits (data.take (data.length - trailingZeroes data)))) : parseRpu data ≠ .panic :=
  parseRpu_no_panic data hg

/-- the raw entry point (`parse_rpu`): prefix trimming cannot panic either -/
theorem parse_entry_no_panic (data t : Bytes) (ht : trimPrefix data = .ok t)
    (hg : Good (bytesToBits (t.take (t.length - trailingZeroes t)))) : parseRpuEntry data ≠ .panic := by
  simp [parseRpuEntry, ht, Res.bind]
  exact parseRpu_no_panic t hg

theorem trimPrefix_no_panic (data : Bytes) : trimPrefix data ≠ .panic := by
  unfold trimPrefix
  split
  · simp
  · split <;> simp

/-- the hypothesis is not vacuous the other way round: with 64 leading zeros the model does panic — the
replayable witness of known finding KF-C08-ue64 (corpus/C08/ue64_witness.case) -/
theorem ue64_witness_panics :
    parseRpu [25, 8, 9, 8, 64, 0, 0, 0, 0, 0, 0, 0, 4, 0, 0, 0, 0, 0, 0, 0, 0, 142, 70, 139, 135, 128] = .panic := by
  decide +kernel

/-- … and a well-formed sample header is `Good` -/
example : Good (bytesToBits [25, 8, 9, 8, 64, 97, 54, 80]) := by decide

/-! ## the other parsing entry points -/

/-- unwrapping an AV1 T.35 OBU payload (EMDF container: header constants, variable-length size field with
`u32` accumulator, payload copy) never panics, for every byte string -/
theorem av1_unwrap_never_panics (data : Bytes) : Av1.unwrap data ≠ .panic :=
  Av1.unwrap_never_panics data

/-- the AV1 entry point panics only where the RPU parser does (third-party exp-Golomb sites) -/
theorem av1_parse_no_panic (data : Bytes)
    (hg : ∀ b, Av1.unwrap data = .ok b → Good (bytesToBits (b.take (b.length - trailingZeroes b)))) :
    Av1.parseObu data ≠ .panic :=
  Av1.parseObu_no_panic data hg

/-- the HEVC NAL entry point (prefix trimming + emulation-prevention removal + parse) -/
theorem nalu_parse_no_panic (d : Bytes)
    (hg : ∀ t, trimPrefix d = .ok t →
      Good (bytesToBits ((Esc.unescape t).take ((Esc.unescape t).length - trailingZeroes (Esc.unescape t))))) :
    parseNalu d ≠ .panic :=
  parseNalu_no_panic d hg

/-- the RPU file reader, for every read chunk size: it panics only if the NAL parser panics on a slice of the
file (the chunk loop, its carry-over and its slicing arithmetic cannot panic) -/
theorem rpu_file_no_panic (c : Nat) (file : Bytes)
    (hnp : ∀ d, d <:+: file → RpuFile.parseNalu d ≠ .panic) : RpuFile.parseRpuFile c file ≠ .panic :=
  RpuFile.parseRpuFile_no_panic c file hnp

/-- the ST 2094-10 ITU-T T.35 SEI parser (CM data with its pivot / polynomial / MMR / NLQ loops, DM data with a
CM v2.9 container): panics only at the third-party exp-Golomb sites -/
theorem st2094_no_panic (data : Bytes)
    (hg : ∀ t, St2094.trim data = .ok t → Good (bytesToBits (Esc.unescape t))) : St2094.parse data ≠ .panic :=
  St2094.parse_no_panic data hg

end Dovi.C08
