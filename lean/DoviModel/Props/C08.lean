import DoviModel.Model.Av1
import DoviModel.Proofs.Bits
import DoviModel.Proofs.NoPanic
import DoviModel.Proofs.NoPanic2
import DoviModel.Proofs.PanicSites
import DoviModel.Props.C03
/-! # C08 — parsing untrusted bytes always returns (model theorems; extended in Proofs/NoPanic.lean) -/
namespace Dovi.C08
open Dovi

/-- the bit reader never panics -/
theorem readN_no_panic (n : Nat) (s : Bits) : readN n s ≠ .panic := by
  unfold readN; split <;> simp

theorem readBit_no_panic (s : Bits) : readBit s ≠ .panic := by
  cases s <;> simp [readBit]

/-- too-short buffers are rejected before any slicing (the `rpu_end > 5` guard) -/
theorem parseRpu_short_is_error (data : Bytes) (h : data.length - trailingZeroes data ≤ 5) :
    parseRpu data = .error := by
  simp [parseRpu, h]

/-- a buffer below the 25-byte minimum is an error at every prefix-trimming entry point -/
theorem trimPrefix_short (data : Bytes) (h : data.length < 25) : trimPrefix data = .error := by
  simp [trimPrefix, h]

/-- (WEAKER, global-hypothesis version of `parse_panic_only_at_ue` below: `Good` fails for practically every real
RPU, see `ordinary_not_Good`; kept because it is implied by the positional theorem, `good_implies_no_site`.)
**no panic outside the two third-party exp-Golomb sites.** `Good` = the syntax bits contain no run of 63
zero bits; both third-party panics (`get_ue` with 64 leading zeros, `get_se` at `i64::MIN`) need such a run.
On every other input the model of `DoviRpu::parse` returns a value or an error. -/
theorem parse_no_panic (data : Bytes)
    (hg : Good (bytesToBits (data.take (data.length - trailingZeroes data)))) : parseRpu data ≠ .panic :=
  parseRpu_no_panic data hg

/-- (weaker, global-hypothesis version of `parse_entry_panic_only_at_ue`) the raw entry point (`parse_rpu`):
prefix trimming cannot panic either -/
theorem parse_entry_no_panic (data t : Bytes) (ht : trimPrefix data = .ok t)
    (hg : Good (bytesToBits (t.take (t.length - trailingZeroes t)))) : parseRpuEntry data ≠ .panic := by
  simp [parseRpuEntry, ht, Res.bind]
  exact parseRpu_no_panic t hg

theorem trimPrefix_no_panic (data : Bytes) : trimPrefix data ≠ .panic := by
  unfold trimPrefix
  split
  · simp
  · split <;> simp

/-- the hypothesis is not vacuous the other way round: with 64 leading zeros the model does panic — the
replayable witness of known finding KF-C08-ue64 (corpus/C08/ue64_witness.case) -/
theorem ue64_witness_panics :
    parseRpu [25, 8, 9, 8, 64, 0, 0, 0, 0, 0, 0, 0, 4, 0, 0, 0, 0, 0, 0, 0, 0, 142, 70, 139, 135, 128] = .panic := by
  decide +kernel

/-- … and a well-formed sample header is `Good` -/
example : Good (bytesToBits [25, 8, 9, 8, 64, 97, 54, 80]) := by decide

/-! ## the other parsing entry points -/

/-- unwrapping an AV1 T.35 OBU payload (EMDF container: header constants, variable-length size field with
`u32` accumulator, payload copy) never panics, for every byte string -/
theorem av1_unwrap_never_panics (data : Bytes) : Av1.unwrap data ≠ .panic :=
  Av1.unwrap_never_panics data

/-- (weaker, global-hypothesis version of `av1_panic_only_at_ue`) the AV1 entry point panics only where the RPU
parser does (third-party exp-Golomb sites) -/
theorem av1_parse_no_panic (data : Bytes)
    (hg : ∀ b, Av1.unwrap data = .ok b → Good (bytesToBits (b.take (b.length - trailingZeroes b)))) :
    Av1.parseObu data ≠ .panic :=
  Av1.parseObu_no_panic data hg

/-- (weaker, global-hypothesis version of `nalu_panic_only_at_ue`) the HEVC NAL entry point (prefix trimming +
emulation-prevention removal + parse) -/
theorem nalu_parse_no_panic (d : Bytes)
    (hg : ∀ t, trimPrefix d = .ok t →
      Good (bytesToBits ((Esc.unescape t).take ((Esc.unescape t).length - trailingZeroes (Esc.unescape t))))) :
    parseNalu d ≠ .panic :=
  parseNalu_no_panic d hg

/-- (see `rpu_file_panic_only_at_ue` for the composed, positional version) the RPU file reader, for every read
chunk size: it panics only if the NAL parser panics on a slice of the file (the chunk loop, its carry-over and
its slicing arithmetic cannot panic) -/
theorem rpu_file_no_panic (c : Nat) (file : Bytes)
    (hnp : ∀ d, d <:+: file → RpuFile.parseNalu d ≠ .panic) : RpuFile.parseRpuFile c file ≠ .panic :=
  RpuFile.parseRpuFile_no_panic c file hnp

/-- (weaker, global-hypothesis version of `st2094_panic_only_at_ue`) the ST 2094-10 ITU-T T.35 SEI parser (CM
data with its pivot / polynomial / MMR / NLQ loops, DM data with a CM v2.9 container): panics only at the
third-party exp-Golomb sites -/
theorem st2094_no_panic (data : Bytes)
    (hg : ∀ t, St2094.trim data = .ok t → Good (bytesToBits (Esc.unescape t))) : St2094.parse data ≠ .panic :=
  St2094.parse_no_panic data hg

/-! ## positional version: for EVERY input, a panic is a panic of an exp-Golomb read at some position

The `Good`-based theorems above assume that the input has no run of 63 zero bits ANYWHERE, which excludes
practically every real RPU (an ordinary `vdr_dm_data` payload has `signal_eotf_param0/1/2 = 0`: 64 zero bits —
`ordinary_not_Good`). The theorems below have no hypothesis on the input (tower in `Proofs/PanicSites.lean`). -/

open Dovi.PanicSites

/-- **`get_ue` panics exactly on 64 zero bits, a one, and at least 64 further bits** (`1 << 64`, KF-C08-ue64) -/
theorem ue_site_exact (t : Bits) :
    readUe t = .panic ↔ ∃ r, t = List.replicate 64 false ++ true :: r ∧ 64 ≤ r.length :=
  readUe_panic_iff t

/-- **`get_se` panics exactly when its `get_ue` does, or on an even code number `≥ 2^64 - 1024`** (KF-C08-se-min;
NOT only the code `2^64 - 2` of `i64::MIN`: the detour through `f64` rounds `code + 1` up to `2^64` for all 512 of
them, so `m = 2^63`, `m as i64 = i64::MIN` and the negation overflows) -/
theorem se_site_exact (t : Bits) :
    readSe t = .panic ↔
      (readUe t = .panic ∨ ∃ code r, readUe t = .ok (code, r) ∧ code % 2 = 0 ∧ 2^64 - 1024 ≤ code) :=
  readSe_panic_iff t

/-- the same on the bit level: 63 zero bits, a one, 53 one bits, any 9 bits, a one -/
theorem se_site_exact_bits (t : Bits) :
    readSe t = .panic ↔
      (readUe t = .panic ∨ ∃ m r, m.length = 9 ∧
        t = List.replicate 63 false ++ true :: (List.replicate 53 true ++ m ++ true :: r)) :=
  readSe_panic_bits t

/-- **a panic of the RPU parser implies that the payload contains, at some bit offset, the pattern on which an
exp-Golomb read panics** (64 leading zero bits …, or the se(v) codes the `f64` detour maps to `i64::MIN`) — for
EVERY input, with no hypothesis. This is a NECESSARY condition on the raw bits, not a statement about where the
parser reads: the proof (`Proofs/PanicSites.lean`) does show that the panic is raised by `readUe`/`readSe` on the
bits still to be read at that moment, but the statement only keeps "some suffix"; an accepted ordinary RPU can
contain such a pattern at an offset where no exp-Golomb code is read (example below, bit 699). The exact
characterisation lives one level down, at the reader (`ue_site_exact`, `se_site_exact`); that the Rust code has no
*other* panic site than the ones the model carries (slicing, allocation sizes, `unreachable!`) is not a theorem:
it rests on the correspondence runs of this check (dev profile, overflow checks on). -/
theorem parse_panic_only_at_ue (data : Bytes) (h : parseRpu data = .panic) :
    ∃ t, t <:+ bytesToBits (data.take (data.length - trailingZeroes data)) ∧ UePanic t :=
  parseRpu_panic data h

/-- the raw entry point `parse_rpu` (prefix trimming never panics) -/
theorem parse_entry_panic_only_at_ue (data : Bytes) (h : parseRpuEntry data = .panic) :
    ∃ b t, trimPrefix data = .ok b ∧ t <:+ bytesToBits (b.take (b.length - trailingZeroes b)) ∧ UePanic t :=
  parseRpuEntry_panic data h

/-- the HEVC NAL entry point: a suffix of the bits of the unescaped payload -/
theorem nalu_panic_only_at_ue (d : Bytes) (h : parseNalu d = .panic) :
    ∃ b t, trimPrefix d = .ok b ∧
      t <:+ bytesToBits ((Esc.unescape b).take ((Esc.unescape b).length - trailingZeroes (Esc.unescape b))) ∧
      UePanic t :=
  parseNalu_panic d h

/-- the AV1 T.35 OBU entry point: unwrapping never panics (`av1_unwrap_never_panics`), so a panic is one of the
RPU parser on the unwrapped payload -/
theorem av1_panic_only_at_ue (data : Bytes) (h : Av1.parseObu data = .panic) :
    ∃ b t, Av1.unwrap data = .ok b ∧ t <:+ bytesToBits (b.take (b.length - trailingZeroes b)) ∧ UePanic t :=
  parseObu_panic data h

/-- the ST 2094-10 ITU-T T.35 SEI parser -/
theorem st2094_panic_only_at_ue (data : Bytes) (h : St2094.parse data = .panic) :
    ∃ b t, St2094.trim data = .ok b ∧ t <:+ bytesToBits (Esc.unescape b) ∧ UePanic t :=
  PanicSites.St.parse_panic data h

/-- the RPU file reader, every read chunk size: a panic is a panic of the NAL parser on a slice of the file … -/
theorem rpu_file_panic_at_slice (c : Nat) (file : Bytes) (h : RpuFile.parseRpuFile c file = .panic) :
    ∃ slice, slice <:+: file ∧ RpuFile.parseNalu slice = .panic :=
  parseRpuFile_panic c file h

/-- … hence an exp-Golomb panic at some position of the unescaped payload of a slice of the file -/
theorem rpu_file_panic_only_at_ue (c : Nat) (file : Bytes) (h : RpuFile.parseRpuFile c file = .panic) :
    ∃ slice b t, slice <:+: file ∧ trimPrefix slice = .ok b ∧
      t <:+ bytesToBits ((Esc.unescape b).take ((Esc.unescape b).length - trailingZeroes (Esc.unescape b))) ∧
      UePanic t := by
  obtain ⟨slice, hs, hp⟩ := parseRpuFile_panic c file h
  obtain ⟨b, t, h1, h2, h3⟩ := parseNalu_panic slice hp
  exact ⟨slice, b, t, hs, h1, h2, h3⟩

/-- contrapositive form: an input whose bits contain the pattern at NO offset is parsed or rejected. (Rarely
applicable to real RPUs — ordinary DM payloads contain 64 zero bits — see the remark at `parse_panic_only_at_ue`.) -/
theorem parse_no_panic_of_no_site (data : Bytes)
    (h : ∀ t, t <:+ bytesToBits (data.take (data.length - trailingZeroes data)) → ¬ UePanic t) :
    parseRpu data ≠ .panic := by
  intro hp
  obtain ⟨t, h1, h2⟩ := parse_panic_only_at_ue data hp
  exact h t h1 h2

/-- every site starts with 63 zero bits, so `Good` excludes all sites: the positional theorem implies the
`Good`-based one (`parse_no_panic` is `parse_no_panic_of_no_site ∘ good_implies_no_site`) -/
theorem good_implies_no_site (s : Bits) (hs : Good s) : ∀ t, t <:+ s → ¬ UePanic t :=
  Good.no_site hs

/-! ### non-vacuity on an ordinary RPU -/

set_option maxRecDepth 1000000

/-- the bytes written for the generator's profile 8.1 CM v4.0 RPU `C03.exRpu` -/
def ordinaryBytes : Bytes :=
  [25, 8, 9, 8, 64, 97, 54, 80, 111, 0, 63, 248, 1, 255, 192, 15, 255, 208, 0, 0, 8, 0, 0, 6, 128, 0, 0, 64, 0, 0, 52,
   0, 0, 2, 0, 0, 1, 201, 89, 128, 0, 13, 122, 137, 89, 190, 127, 58, 199, 9, 89, 145, 50, 128, 0, 0, 64, 0, 0, 2, 0,
   0, 0, 2, 0, 0, 0, 7, 13, 136, 144, 192, 97, 130, 151, 140, 35, 129, 69, 0, 0, 0, 105, 143, 150, 191, 255, 192, 0, 0,
   0, 0, 0, 0, 0, 24, 8, 3, 224, 56, 84, 192, 16, 10, 0, 0, 0, 0, 0, 0, 0, 36, 24, 15, 160, 0, 4, 15, 160, 6, 64, 128,
   65, 32, 5, 11, 1, 16, 0, 0, 127, 192, 0, 64, 70, 18, 179, 106, 128]

theorem ordinaryBytes_eq : C03.exBytes = ordinaryBytes := by decide +kernel

/-- the ordinary RPU is accepted … -/
theorem ordinary_parses : (parseRpu ordinaryBytes).isOk = true := by decide +kernel

/-- … although its bits are NOT `Good` (64 zero bits of `signal_eotf_param0/1/2`): the `Good`-based theorems say
nothing about it -/
theorem ordinary_not_Good :
    ¬ Good (bytesToBits (ordinaryBytes.take (ordinaryBytes.length - trailingZeroes ordinaryBytes))) := by
  decide +kernel

/-- it even contains a position (bit 699, inside the zero `signal_eotf_param`s) where an exp-Golomb read WOULD
panic — harmless, because no exp-Golomb code is read there: what matters is where the parser reads, which is why
no decidable "site-free" condition on the raw bits is offered -/
example : ∃ t, t <:+ bytesToBits ordinaryBytes ∧ UePanic t :=
  ⟨(bytesToBits ordinaryBytes).drop 699, List.drop_suffix _ _, Or.inl (by decide +kernel)⟩

/-- the ordinary RPU with 64 zero bits inserted in front of its `vdr_rpu_id` ue(v) code (bit 68) -/
def mutatedBytes : Bytes :=
  [25, 8, 9, 8, 64, 97, 54, 80, 96, 0, 0, 0, 0, 0, 0, 0, 15, 0, 63, 248, 1, 255, 192, 15, 255, 208, 0, 0, 8, 0, 0, 6,
   128, 0, 0, 64, 0, 0, 52, 0, 0, 2, 0, 0, 1, 201, 89, 128, 0, 13, 122, 137, 89, 190, 127, 58, 199, 9, 89, 145, 50, 128,
   0, 0, 64, 0, 0, 2, 0, 0, 0, 2, 0, 0, 0, 7, 13, 136, 144, 192, 97, 130, 151, 140, 35, 129, 69, 0, 0, 0, 105, 143,
   150, 191, 255, 192, 0, 0, 0, 0, 0, 0, 0, 24, 8, 3, 224, 56, 84, 192, 16, 10, 0, 0, 0, 0, 0, 0, 0, 36, 24, 15, 160,
   0, 4, 15, 160, 6, 64, 128, 65, 32, 5, 11, 1, 16, 0, 0, 127, 192, 0, 64, 70, 18, 179, 106, 128]

theorem mutatedBytes_eq :
    mutatedBytes = bitsToBytes ((bytesToBits ordinaryBytes).take 68 ++ List.replicate 64 false ++
      (bytesToBits ordinaryBytes).drop 68) := by decide +kernel

/-- the hypothesis of `parse_panic_only_at_ue` is satisfiable: the mutated RPU does panic … -/
theorem mutated_panics : parseRpu mutatedBytes = .panic := by decide +kernel

/-- … and the witness the theorem promises is the position of the mutated field: `get_ue` panics on the suffix
starting at bit 68 -/
example : ∃ t, t <:+ bytesToBits (mutatedBytes.take (mutatedBytes.length - trailingZeroes mutatedBytes)) ∧
    readUe t = .panic :=
  ⟨(bytesToBits (mutatedBytes.take (mutatedBytes.length - trailingZeroes mutatedBytes))).drop 68,
   List.drop_suffix _ _, by decide +kernel⟩

/-- the `se(v)` site is wider than the single code of `i64::MIN`: code number `2^64 - 1024` (63 zeros, a one,
53 ones, nine zeros, a one) panics in `get_se` as well, while `get_ue` returns it -/
example : readSe (List.replicate 63 false ++ true :: (List.replicate 53 true ++ List.replicate 9 false ++ [true]))
      = .panic ∧
    readUe (List.replicate 63 false ++ true :: (List.replicate 53 true ++ List.replicate 9 false ++ [true]))
      = .ok (2^64 - 1024, []) := by
  constructor <;> decide +kernel

end Dovi.C08
