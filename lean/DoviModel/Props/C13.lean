import DoviModel.Proofs.Esc
import DoviModel.Proofs.Split
/-!
# C13 — start-code emulation prevention is exact and output NAL framing is unambiguous

Property theorems. Statements are about the models in `Model/Esc.lean` and `Model/Split.lean`, which the
correspondence check `./check C13` ties to `dolby_vision::utils::{add,clear}_start_code_emulation_prevention_3_byte`
(exhaustively over the alphabet named in the property) and to the files the commands write.
-/
namespace Dovi.C13
open Dovi.Esc Dovi.Split

/-- Removing emulation-prevention bytes from the escaped form returns the payload exactly — for every
payload whose first byte is non-zero (the RPU prefix `0x19` at every call site), including payloads that end
in zero bytes or contain `00 00 03` themselves. -/
theorem unesc_esc (b0 : UInt8) (xs : Bytes) (h0 : b0 ≠ 0) :
    unescape (escape (b0 :: xs)) = b0 :: xs := by
  simp only [escape, unescape]
  simp [esc, unesc, h0]
  exact Esc.unesc_esc 1 0 xs (by omega)

/-- The escaped form contains no byte-aligned `00 00 00`, `00 00 01`, `00 00 02`: wherever two zero bytes
are adjacent the next byte is ≥ 3. -/
theorem esc_no_forbidden (b0 : UInt8) (xs : Bytes) (h0 : b0 ≠ 0) (i : Nat) (b : UInt8)
    (hi0 : (escape (b0 :: xs))[i]? = some 0) (hi1 : (escape (b0 :: xs))[i+1]? = some 0)
    (hi2 : (escape (b0 :: xs))[i+2]? = some b) : b ≥ 3 := by
  have hne : NoEmul 0 (escape (b0 :: xs)) := by
    simp only [escape]
    simp only [esc]
    simp only [show ¬ (0 > 2 ∧ 0 ≥ 2 ∧ b0 ≤ 3) by omega, if_false, if_neg h0, Nat.zero_add]
    refine ⟨by omega, ?_⟩
    rw [if_neg h0]
    exact esc_noEmul 1 0 xs (by omega)
  exact noEmul_index 0 _ hne i b hi0 hi1 hi2

/-- Every `00 00 03` in the escaped form is an inserted escape byte, never payload: in the tagged output
(`true` = inserted), after two zero bytes the next byte is > 3 or it is an inserted 3; and the untagged
bytes are exactly the payload in order. -/
theorem esc_03_is_escape (b0 : UInt8) (xs : Bytes) (h0 : b0 ≠ 0) :
    OkM 0 (escM 0 0 (b0 :: xs)) ∧
    (escM 0 0 (b0 :: xs)).map Prod.fst = escape (b0 :: xs) ∧
    ((escM 0 0 (b0 :: xs)).filter (fun p => !p.2)).map Prod.fst = b0 :: xs := by
  refine ⟨?_, escM_fst 0 0 _, escM_payload 0 0 _⟩
  simp only [escM]
  simp only [show ¬ (0 > 2 ∧ 0 ≥ 2 ∧ b0 ≤ 3) by omega, if_false, if_neg h0, Nat.zero_add]
  refine ⟨by omega, ?_⟩
  rw [if_neg h0]
  exact esc_okM 1 0 xs (by omega)

/-- The HEVC NAL the tool writes for an RPU payload (`7C 01` ++ escaped `19 …`) contains no start code. -/
theorem nal_no_start_code (xs : Bytes) :
    (split (0x7C :: 0x01 :: escape (0x19 :: xs))).2 = [] := by
  apply noEmul_noSC 0
  have h19 : ((0x19 : UInt8) = 0) = False := by decide
  have h7c : ((0x7C : UInt8) = 0) = False := by decide
  have h01 : ((0x01 : UInt8) = 0) = False := by decide
  simp only [NoEmul, escape, esc, h19, h7c, h01, if_false]
  simp only [show ¬ (0 > 2 ∧ 0 ≥ 2 ∧ (0x19:UInt8) ≤ 3) by omega, if_false]
  refine ⟨by omega, by omega, by omega, ?_⟩
  exact esc_noEmul 1 0 xs (by omega)

/-- … and parsing it back (strip `7C 01`, unescape) returns the payload. -/
theorem nal_roundtrip (xs : Bytes) :
    unescape ((0x7C :: 0x01 :: escape (0x19 :: xs)).drop 2) = 0x19 :: xs := by
  simpa using unesc_esc 0x19 xs (by decide)

/-- Splitting a written file at start codes yields exactly the units that were written: for any list of
units, each free of start codes (true of every written RPU NAL by `nal_no_start_code`), written with any
mixture of 3- and 4-byte start codes, the scan returns each payload, followed only by the leading zero of
the next 4-byte start code. -/
theorem split_written_file (fs : List Split.Unit) (h : ∀ u ∈ fs, (split u.2).2 = []) :
    (split (render fs)).2 = expectSegs fs :=
  split_render fs h

/-- … in particular the count is preserved: nothing is split or merged. -/
theorem split_written_file_count (fs : List Split.Unit) (h : ∀ u ∈ fs, (split u.2).2 = []) :
    (split (render fs)).2.length = fs.length := by
  rw [split_render fs h]
  induction fs using expectSegs.induct <;> simp_all [expectSegs]

/-- … and after the `size − 1` rule of `split_nals`, when no payload ends in a zero byte (an RPU without
trailing zeros ends in `0x80`), the payloads come back byte for byte. -/
theorem split_written_file_exact (fs : List Split.Unit) (h : ∀ u ∈ fs, (split u.2).2 = [])
    (hz : ∀ u ∈ fs, u.2.getLast? ≠ some 0) :
    fixAll (expectSegs fs) = fs.map Prod.snd := by
  induction fs using expectSegs.induct with
  | case1 => simp [expectSegs, fixAll]
  | case2 f p => simp [expectSegs, fixAll]
  | case3 f p f2 p2 rest ih =>
    have hp : p.getLast? ≠ some 0 := hz (f, p) (by simp)
    have ih' := ih (fun u hu => h u (by simp [hu])) (fun u hu => hz u (by simp [hu]))
    have e : fixTrail (p ++ lead f2) = p := by
      cases f2
      · simp [lead, fixTrail, hp]
      · simp [lead, fixTrail]
    cases rest with
    | nil => simp [expectSegs, fixAll, e]
    | cons u3 r3 =>
      obtain ⟨f3, p3⟩ := u3
      simp only [expectSegs, fixAll, e, List.map_cons] at ih' ⊢
      rw [ih']

/-! ### non-vacuity -/

example : unescape (escape [0x19, 0, 0, 3, 0, 0, 0, 1, 0, 0]) = [0x19, 0, 0, 3, 0, 0, 0, 1, 0, 0] := by decide
example : escape [0x19, 0, 0, 3, 0, 0] = [0x19, 0, 0, 3, 3, 0, 0] := by decide
example : (split (render [(true, [0x7C, 1, 0x19, 8]), (false, [0x7C, 1, 0x19, 9, 0x80])])).2
    = [[0x7C, 1, 0x19, 8], [0x7C, 1, 0x19, 9, 0x80]] := by
  simp [render, lead, SC, split]
/-- the hypothesis `b0 ≠ 0` is necessary: a payload starting `00 00 03` is not round-tripped -/
example : unescape (escape [0, 0, 3]) ≠ [0, 0, 3] := by decide

end Dovi.C13
