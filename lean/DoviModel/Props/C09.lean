import DoviModel.Model.Editor
import DoviModel.Proofs.EditGenProof
import DoviModel.Proofs.EditorOpsProof
import DoviModel.Gen.SourceRules
/-! # C09 — the RPU editor applies exactly the configured edits to exactly the configured frames -/
namespace Dovi.C09
open Dovi Dovi.Editor Dovi.EditGenProof Dovi.EditorOpsProof

/-- the empty config does nothing before encoding: every frame is kept, in order -/
theorem execute_empty (rpus : List (Option Rpu)) : execute {} rpus = .ok rpus := by
  have h : ∀ l : List (Option Rpu), mapSome (executeSingle {}) l = .ok l := by
    intro l
    induction l with
    | nil => rfl
    | cons x xs ih =>
      cases x with
      | none => simp [mapSome, ih, Res.bind]
      | some r =>
        have : executeSingle {} r = .ok r := by simp [executeSingle, Res.bind]
        simp [mapSome, this, ih, Res.bind]
  simp [execute, h, Res.bind]

/-- a range whose end is not below the list length is an error, for removal … -/
theorem remove_end_out_of_range (s e : Nat) (k : String) (rest : List String) (rpus : List (Option Rpu))
    (hk : k.toList.contains '-' = true) (ht : rangeTuple k = some (s, e)) (he : rpus.length ≤ e) :
    removeFrames (k :: rest) rpus = .error := by
  have : ¬ e < rpus.length := by omega
  have hk' : '-' ∈ k.toList := by simpa using hk
  simp [removeFrames, hk', ht, this]

/-- … an inverted range is an error … -/
theorem remove_inverted_range (s e : Nat) (k : String) (rest : List String) (rpus : List (Option Rpu))
    (hk : k.toList.contains '-' = true) (ht : rangeTuple k = some (s, e)) (hse : e < s) :
    removeFrames (k :: rest) rpus = .error := by
  have hk' : '-' ∈ k.toList := by simpa using hk
  by_cases he : e < rpus.length
  · have : ¬ s ≤ e := by omega
    simp [removeFrames, hk', ht, he, this]
  · simp [removeFrames, hk', ht, he]

/-- … and the same for scene-cut ranges -/
theorem scene_cut_range_errors (s e : Nat) (k : String) (v : Bool) (rest : List (String × Bool))
    (rpus : List (Option Rpu)) (hall : k.toLower ≠ "all") (ht : rangeTuple k = some (s, e))
    (hbad : rpus.length ≤ e ∨ e < s) : sceneCutRanges ((k, v) :: rest) rpus = .error := by
  unfold sceneCutRanges
  simp only [beq_iff_eq, hall, if_false, ht]
  rcases hbad with h | h
  · simp [h]
  · by_cases he : e ≥ rpus.length
    · simp [he]
    · have : ¬ s ≤ e := by omega
      simp [he, this]

/-- duplication: the output grows by exactly `length` copies and nothing else changes -/
theorem duplicate_length (src off len : Nat) (rest : List (Nat × Nat × Nat)) (data out : List Bytes)
    (h : duplicateAll ((src, off, len) :: rest) data = .ok out) (hrest : rest = []) :
    out.length = data.length + len := by
  subst hrest
  unfold duplicateAll at h
  split at h
  · cases h
  · rename_i hc
    simp only [duplicateAll] at h
    injection h with h
    subst h
    have : off ≤ data.length := by
      simp at hc
      exact hc.2
    simp [List.length_take, List.length_drop]; omega

/-! ## (a) frame accounting -/

/-- **edit_length** — a successful run of the editor writes exactly `input − removed + duplicated` NALs, where
`removed` is the number of distinct in-range positions listed in `remove` (`removedCount`) and `duplicated` the sum
of the `length` fields of the `duplicate` entries (`dupTotal`): no frame disappears silently. For every config and
every input list. (A frame whose RPU cannot be written makes the whole run fail — `Editor::edit` collects the
writes into a `Result` — so it cannot be dropped from a successful run either; `edit c rpus = .ok out` is the
hypothesis, and `edit` is `.error` in that case.) -/
theorem edit_length (c : Config) (rpus : List Rpu) (out : List Bytes) (h : edit c rpus = .ok out) :
    out.length = rpus.length - removedCount (c.remove.getD []) rpus.length + dupTotal (c.duplicate.getD []) := by
  have h1 := edit_length_add c rpus out h
  have h2 := removedCount_le (c.remove.getD []) rpus.length
  omega

/-- before encoding: the list keeps its length, and a position is empty afterwards iff it was empty before or
is listed in `remove` — no pass other than `remove` drops a frame -/
theorem execute_keeps_frames (c : Config) (l out : List (Option Rpu)) (h : execute c l = .ok out) :
    out.length = l.length ∧ ∀ (j : Nat) (x : Option Rpu), l[j]? = some x →
      ∃ y, out[j]? = some y ∧ y.isSome = (x.isSome && !removed (c.remove.getD []) j) := by
  have := execute_shape c l out h
  exact ⟨this.1, fun j x hx => by simpa using this.2 j x hx⟩

/-- a writable RPU: the generator's profile 8.1 CM v4.0 base RPU (the same value as `Dovi.C03.exRpu`) -/
def exRpu : Rpu :=
  match Dovi.Gen.baseRpu { level6 := some [1000, 1, 1000, 400] } with
  | .ok r => r
  | _ => default

/-- non-vacuity of `edit_length`, on the real hypothesis `edit c rpus = .ok out`: three writable frames, frame 1
removed, frame 0 duplicated twice at offset 2: the editor succeeds and writes 3 − 1 + 2 = 4 NALs -/
example :
    let c : Config := { remove := some ["1"], duplicate := some [(0, 2, 2)] }
    ∃ out, edit c [exRpu, exRpu, exRpu] = .ok out ∧ out.length = 4 ∧
      removedCount (c.remove.getD []) 3 = 1 ∧ dupTotal (c.duplicate.getD []) = 2 := by
  intro c
  have hok : (edit c [exRpu, exRpu, exRpu]).isOk = true := by decide
  cases he : edit c [exRpu, exRpu, exRpu] with
  | ok out =>
    have hl := edit_length c [exRpu, exRpu, exRpu] out he
    have h1 : removedCount (c.remove.getD []) 3 = 1 := by decide
    have h2 : dupTotal (c.duplicate.getD []) = 2 := by decide
    refine ⟨out, rfl, ?_, h1, h2⟩
    rw [show [exRpu, exRpu, exRpu].length = 3 from rfl, h1, h2] at hl
    omega
  | error => rw [he] at hok; cases hok
  | panic => rw [he] at hok; cases hok

/-! ## (d) invalid input is an error, never a panic -/

/-- **invalid_is_error_not_panic** — for every config and every list the editor model before encoding
(`EditConfig::execute`: remove, per-frame operations, scene cuts, active area, source replacement) returns a list or
an error, never a panic -/
theorem invalid_is_error_not_panic (c : Config) (l : List (Option Rpu)) :
    (∃ out, execute c l = .ok out) ∨ execute c l = .error := by
  have := execute_np c l
  cases h : execute c l with
  | ok out => exact Or.inl ⟨out, rfl⟩
  | error => exact Or.inr rfl
  | panic => exact absurd h this

/-- … and the whole editor (with encoding and duplication) can panic only inside the RPU writer, on a frame that
`execute` produced (the writer's panics are the subject of C03/C08). Allocation is not modelled: a `duplicate`
entry whose `length` is astronomically large makes the real `Vec::splice` fail with "capacity overflow" or an
allocation abort (the request is for that many copies; the model's `List.replicate` has no such limit) — named in
DESIGN.md P2.9 as a limit of the model, outside this theorem -/
theorem edit_panics_only_in_writer (c : Config) (rpus : List Rpu) (h : edit c rpus = .panic) :
    ∃ out r, execute c (rpus.map some) = .ok out ∧ some r ∈ out ∧ writeRpu r = .panic :=
  edit_panic c rpus h

/-- an active-area range that ends beyond the list, is inverted, or names an unknown preset is an error -/
theorem active_area_range_errors (ps : List Preset) (s e id : Nat) (k : String) (rest : List (String × Nat))
    (rpus : List (Option Rpu)) (hall : k.toLower ≠ "all") (ht : rangeTuple k = some (s, e))
    (hbad : rpus.length ≤ e ∨ e < s ∨ ps.find? (fun p => p.id == id) = none) :
    activeAreaRanges ps ((k, id) :: rest) rpus = .error := by
  unfold activeAreaRanges
  simp only [beq_iff_eq, hall, if_false, ht]
  by_cases he : e ≥ rpus.length
  · simp [he]
  · by_cases hse : s ≤ e
    · rcases hbad with h | h | h
      · omega
      · omega
      · simp [he, hse, h]
    · simp [he, hse]

/-- a single `remove` index beyond the list is an error -/
theorem remove_index_out_of_range (k : String) (i : Nat) (rest : List String) (rpus : List (Option Rpu))
    (hk : k.toList.contains '-' = false) (hp : parseUsize k = some i) (hi : rpus.length ≤ i) :
    removeFrames (k :: rest) rpus = .error := by
  have hk' : ¬ ('-' ∈ k.toList) := by simpa using hk
  have : ¬ i < rpus.length := by omega
  simp [removeFrames, hk', hp, this]

/-- a `duplicate` entry whose source or offset is outside the (current) list is an error -/
theorem duplicate_out_of_bounds (src off len : Nat) (rest : List (Nat × Nat × Nat)) (data : List Bytes)
    (h : data.length ≤ src ∨ data.length < off) : duplicateAll ((src, off, len) :: rest) data = .error := by
  unfold duplicateAll
  have : (decide (src < data.length) && decide (off ≤ data.length)) = false := by
    rcases h with h | h
    · have : ¬ src < data.length := by omega
      simp [this]
    · have : ¬ off ≤ data.length := by omega
      simp [this]
  simp [this]

/-- all duplications together add exactly the sum of their lengths (any number of entries) -/
theorem duplicate_length_all (dups : List (Nat × Nat × Nat)) (data out : List Bytes)
    (h : duplicateAll dups data = .ok out) : out.length = data.length + dupTotal dups :=
  duplicateAll_length dups data out h

/-! ## (c) ranges are inclusive, 0-based positions of the input list -/

/-- **ranges_inclusive** (scene cuts) — a valid range entry `a-b` sets the flag on exactly the present frames at
positions `a..b` inclusive (positions are those of the input list: removed frames keep their slot) and leaves
every other position alone -/
theorem ranges_inclusive (k : String) (v : Bool) (a b : Nat) (l : List (Option Rpu))
    (hk : k.toLower ≠ "all") (ht : rangeTuple k = some (a, b)) (hab : a ≤ b) (hb : b < l.length) :
    ∃ out, sceneCutRanges [(k, v)] l = .ok out ∧ out.length = l.length ∧
      ∀ (j : Nat) (x : Option Rpu), l[j]? = some x →
        out[j]? = some (if a ≤ j ∧ j ≤ b then x.map (setCut v) else x) :=
  sceneCutRanges_single k v a b l hk ht hab hb

/-- **ranges_inclusive** (active area) — a valid range entry `a-b` with a known preset sets the preset's offsets
on exactly the present frames at positions `a..b` inclusive -/
theorem ranges_inclusive_active_area (ps : List Preset) (k : String) (id : Nat) (p : Preset) (a b : Nat)
    (l : List (Option Rpu)) (hk : k.toLower ≠ "all") (ht : rangeTuple k = some (a, b)) (hab : a ≤ b)
    (hb : b < l.length) (hp : ps.find? (fun p => p.id == id) = some p) :
    ∃ out, activeAreaRanges ps [(k, id)] l = .ok out ∧ out.length = l.length ∧
      ∀ (j : Nat) (x : Option Rpu), l[j]? = some x →
        (¬ (a ≤ j ∧ j ≤ b) → out[j]? = some x) ∧
        (a ≤ j ∧ j ≤ b → x = none → out[j]? = some none) ∧
        (a ≤ j ∧ j ≤ b → ∀ r, x = some r → ∃ r', setOffsets r p = .ok r' ∧ out[j]? = some (some r')) :=
  activeAreaRanges_single ps k id p a b l hk ht hab hb hp

/-- any number of scene-cut entries: position `j` gets exactly the entries whose range contains `j`, in map order -/
theorem scene_cuts_frame_local (edits : List (String × Bool)) (l out : List (Option Rpu))
    (h : sceneCutRanges edits l = .ok out) :
    out.length = l.length ∧ ∀ (j : Nat) (x : Option Rpu), l[j]? = some x →
      out[j]? = some (x.map (scFrame edits j)) := by
  have hs := sceneCutRanges_spec edits l out h
  refine ⟨hs.1, ?_⟩
  intro j x hx
  obtain ⟨y, hy, hl⟩ := hs.2 j x hx
  rw [hy]
  cases x with
  | none => simp [Lift] at hl; subst hl; rfl
  | some r =>
    obtain ⟨r', hr', rfl⟩ := hl
    simp only [Nat.zero_add] at hr'
    injection hr' with hr'; subst hr'; rfl

/-- the key texts the tool's users write: a decimal index lists exactly that position, `a-b` exactly the
positions `a..b` inclusive (decimal printer / `splitOn("-")` / `parse::<usize>()` round trip, proved) -/
theorem remove_index_text (i j : Nat) (hi : i < 2 ^ 64) : removedBy (toString i) j = (i == j) :=
  removedBy_index_text i j hi

theorem remove_range_text (a b j : Nat) (ha : a < 2 ^ 64) (hb : b < 2 ^ 64) :
    removedBy (Str.fmtKey a b) j = (decide (a ≤ j) && decide (j ≤ b)) :=
  removedBy_range_text a b j ha hb

theorem range_key_text (a b j : Nat) (ha : a < 2 ^ 64) (hb : b < 2 ^ 64) :
    coversKey (Str.fmtKey a b) j ↔ a ≤ j ∧ j ≤ b :=
  coversKey_range_text a b j ha hb

/-- non-vacuity of `ranges_inclusive`: the key `"1-2"` (as printed by `Str.fmtKey 1 2`) on a four-slot list with a
removed frame in slot 1 -/
example : ∃ out, sceneCutRanges [(Str.fmtKey 1 2, true)] [some ({} : Rpu), none, some {}, some {}] = .ok out ∧
    out.length = 4 ∧ out[0]? = some (some ({} : Rpu)) ∧ out[1]? = some none ∧
    out[2]? = some (some (setCut true ({} : Rpu))) := by
  obtain ⟨out, h1, h2, h3⟩ := ranges_inclusive (Str.fmtKey 1 2) true 1 2 [some ({} : Rpu), none, some {}, some {}]
    (Str.fmtKey_not_all 1 2) (Str.rangeTuple_fmtKey 1 2 (by decide) (by decide)) (by decide) (by decide)
  refine ⟨out, h1, h2, ?_, ?_, ?_⟩
  · simpa using h3 0 (some {}) rfl
  · simpa using h3 1 none rfl
  · simpa using h3 2 (some {}) rfl

/-! ## (b) frame-local semantics: the documented pass order, and untouched frames -/

/-- **edit_semantics** — the editor's list result, frame by frame (config without `source_rpu`): the length is
kept; position `j` is empty iff it was empty or is listed in `remove`; otherwise it holds `frameSem c j r` =
per-frame operations (`executeSingle`), then the scene-cut entries covering `j`, then the active-area entries
covering `j` — the documented order remove → per-frame → scene cuts → active area -/
theorem edit_semantics (c : Config) (hsrc : c.source = none) (l out : List (Option Rpu))
    (h : execute c l = .ok out) :
    out.length = l.length ∧ ∀ (j : Nat) (x : Option Rpu), l[j]? = some x →
      (removed (c.remove.getD []) j = true → out[j]? = some none) ∧
      (x = none → out[j]? = some none) ∧
      (removed (c.remove.getD []) j = false → ∀ r, x = some r →
         ∃ r', frameSem c j r = .ok r' ∧ out[j]? = some (some r')) := by
  have hs := execute_frame c hsrc l out h
  refine ⟨hs.1, ?_⟩
  intro j x hx
  obtain ⟨y, hy, hl⟩ := hs.2 j x hx
  simp only [Nat.zero_add] at hl
  rw [hy]
  refine ⟨?_, ?_, ?_⟩
  · intro hr; simp only [hr, if_true] at hl; rw [hl]
  · intro hx0; subst hx0
    by_cases hr : removed (c.remove.getD []) j = true
    · simp only [hr, if_true] at hl; rw [hl]
    · simp only [hr, Bool.false_eq_true, if_false, Lift] at hl; rw [hl]
  · intro hr r hxr; subst hxr
    simp only [hr, Bool.false_eq_true, if_false] at hl
    obtain ⟨r', hr', rfl⟩ := hl
    exact ⟨r', hr', rfl⟩

/-- **edit_frame_local** — under a config without per-frame global options (`Plain`: only `remove`, range-keyed
scene cuts / active-area edits, `duplicate`) and without `source_rpu`, a present frame that is not listed in
`remove` and lies outside every configured range is returned unchanged (equal to the input RPU), at its position -/
theorem edit_frame_local (c : Config) (hp : Plain c) (hsrc : c.source = none) (l out : List (Option Rpu))
    (h : execute c l = .ok out) (j : Nat) (r : Rpu) (hj : l[j]? = some (some r))
    (hrem : removed (c.remove.getD []) j = false)
    (hsc : ∀ e, c.sceneCuts = some e → ∀ kv ∈ e, ¬ coversKey kv.1 j)
    (haa : ∀ e, c.aaEdits = some e → ∀ kv ∈ e, ¬ coversKey kv.1 j) : out[j]? = some (some r) := by
  obtain ⟨r', hr', ho⟩ := (edit_semantics c hsrc l out h).2 j _ hj |>.2.2 hrem r rfl
  rw [ho]
  unfold frameSem at hr'
  rw [executeSingle_plain c hp r] at hr'
  simp only [Res.bind] at hr'
  have h1 : scFrame (scEdits c) j r = r := by
    apply scFrame_nocover
    intro kv hkv
    unfold scEdits at hkv
    cases hs : c.sceneCuts with
    | none => simp [hs] at hkv
    | some e => simp only [hs] at hkv; exact hsc e hs kv (asMap_sub _ _ hkv)
  rw [h1] at hr'
  have h2 : r' = r := by
    apply aaFrame_nocover _ _ _ _ _ ?_ hr'
    intro kv hkv
    unfold aaEditsOf at hkv
    cases ha : c.hasActiveArea with
    | false => simp [ha] at hkv
    | true =>
      cases he : c.aaEdits with
      | none => simp [ha, he] at hkv
      | some e =>
        cases hps : c.presets with
        | none => simp [ha, he, hps] at hkv
        | some ps => simp only [ha, he, hps, if_true] at hkv; exact haa e he kv (asMap_sub _ _ hkv)
  rw [h2]

/-- **position and bytes** — same hypotheses, no `duplicate`: in the written file the frame's NAL (`7C 01` +
the escaped output of the RPU writer on the *input* RPU) sits at the input position minus the number of removed
positions before it -/
theorem edit_frame_position (c : Config) (hp : Plain c) (hsrc : c.source = none) (hdup : c.duplicate = none)
    (rpus : List Rpu) (data : List Bytes) (h : edit c rpus = .ok data) (j : Nat) (hj : j < rpus.length)
    (hrem : removed (c.remove.getD []) j = false)
    (hsc : ∀ e, c.sceneCuts = some e → ∀ kv ∈ e, ¬ coversKey kv.1 j)
    (haa : ∀ e, c.aaEdits = some e → ∀ kv ∈ e, ¬ coversKey kv.1 j) :
    ∃ o, writeRpu rpus[j] = .ok o ∧ data[j - removedCount (c.remove.getD []) j]? = some (nalOf o) := by
  unfold edit at h
  simp only [bind_ok_iff, hdup] at h
  obtain ⟨out, h1, d, h2, h3⟩ := h
  injection h3 with h3; subst h3
  have hin : (rpus.map some)[j]? = some (some rpus[j]) := by simp [hj]
  have hout := edit_frame_local c hp hsrc _ out h1 j rpus[j] hin hrem hsc haa
  obtain ⟨o, ho, hd⟩ := encodeAll_get out d h2 j rpus[j] hout
  have hc := countP_take_shape _ rpus out (execute_shape c _ _ h1) j (by omega)
  refine ⟨o, ho, ?_⟩
  have : j - removedCount (c.remove.getD []) j = (out.take j).countP Option.isSome := by omega
  rw [this]; exact hd

/-- one `duplicate` entry moves positions as a splice: before `off` unchanged, then `len` copies of the source
NAL, then the rest shifted up by `len` -/
theorem duplicate_positions (src off len : Nat) (data out : List Bytes)
    (h : duplicateAll [(src, off, len)] data = .ok out) (p : Nat) :
    out[p]? = if p < off then data[p]? else if p < off + len then some (data.getD src []) else data[p - len]? := by
  unfold duplicateAll at h
  split at h
  · cases h
  · rename_i hc
    have ho : off ≤ data.length := by simp at hc; exact hc.2
    simp only [duplicateAll] at h
    injection h with h; subst h
    exact splice_get data off len _ p ho

/-! ## level replacement from `source_rpu` -/

/-- **source_alignment** — `replace_from_rpus`, frame by frame: the present frame at position `j` takes its levels
from the source frame whose index is the number of *present* frames before `j` — the remaining frames are zipped
with the source list from its start — and is left alone when the source list is exhausted. Without `remove`
this is source frame `j`; with `remove` the source list is the list for the remaining frames (see the examples below). -/
theorem source_alignment (lv : List Nat) (l out : List (Option Rpu)) (src : List Rpu)
    (h : replaceFromSource lv l src = .ok out) :
    out.length = l.length ∧ ∀ (j : Nat) (x : Option Rpu), l[j]? = some x →
      (x = none → out[j]? = some none) ∧
      (∀ r, x = some r → ∃ r', out[j]? = some (some r') ∧
         match src[(l.take j).countP Option.isSome]? with
         | some s => r.replaceLevelsFrom s lv = .ok r'
         | none => r' = r) :=
  replaceFromSource_spec lv l out src h

/-- `remove` together with `source_rpu` (repaired defect, /repo d9dcc39): the source list pairs with the frames
that remain, so its length must be the remaining count; with frame 0 removed, frame 1 receives the L5 of source
frame 0 (`[1,1,1,1]`) from a one-entry source list … -/
example :
    let f (v : Int) : Rpu :=
      { vdr_dm_data := some { cmv29 := some { num_ext_blocks := 1, blocks := [{ level := 5, length := 7, vals := [v, v, v, v] }] } } }
    let c : Config := { remove := some ["0"], source := some [f 1], levels := some [5] }
    (match execute c [some (f 0), some (f 0)] with
     | .ok out => out.map (Option.map Dovi.Export.l5Of)
     | _ => []) = [none, some [1, 1, 1, 1]] := by decide

/-- … and a source list of the original length (which used to be accepted and applied shifted) is an error -/
example :
    let f (v : Int) : Rpu :=
      { vdr_dm_data := some { cmv29 := some { num_ext_blocks := 1, blocks := [{ level := 5, length := 7, vals := [v, v, v, v] }] } } }
    let c : Config := { remove := some ["0"], source := some [f 1, f 2], levels := some [5] }
    execute c [some (f 0), some (f 0)] = .error := by decide

/-- **execute_with_source** — the whole `execute` for a config with `source_rpu = src`, frame by frame
(`edit_semantics` composed with `source_alignment`): it succeeds only with a level list and only when the number of
frames that remain (present and not listed in `remove`, `keptBefore … l.length`) equals `src.length`; position `j`
is empty iff it was empty or removed; otherwise it holds `frameSem c j r` (per-frame operations, then scene cuts,
then active area) with the listed levels replaced from source entry `keptBefore … j` — the number of remaining
frames before `j` -/
theorem execute_with_source (c : Config) (src : List Rpu) (hs : c.source = some src) (l out : List (Option Rpu))
    (h : execute c l = .ok out) :
    ∃ lv, c.levels = some lv ∧ out.length = l.length ∧
      keptBefore (c.remove.getD []) l l.length = src.length ∧
      ∀ (j : Nat) (x : Option Rpu), l[j]? = some x →
        (removed (c.remove.getD []) j = true → out[j]? = some none) ∧
        (x = none → out[j]? = some none) ∧
        (removed (c.remove.getD []) j = false → ∀ r, x = some r →
           ∃ r1 s r', frameSem c j r = .ok r1 ∧ src[keptBefore (c.remove.getD []) l j]? = some s ∧
             r1.replaceLevelsFrom s lv = .ok r' ∧ out[j]? = some (some r')) :=
  EditorOpsProof.execute_with_source c src hs l out h

/-- the exact success condition of the source pass: `execute` without the source, the length check on the frames
that remain, the level list, `replace_from_rpus` -/
theorem execute_source_iff (c : Config) (src : List Rpu) (hs : c.source = some src) (l out : List (Option Rpu)) :
    execute c l = .ok out ↔
      ∃ mid lv, execute (noSource c) l = .ok mid ∧ mid.countP Option.isSome = src.length ∧ c.levels = some lv ∧
        replaceFromSource lv mid src = .ok out :=
  execute_source_split c src hs l out

/-! ## untouched parts of a touched frame: what each per-frame operation keeps

`RpuKept r r'`: profile, el_type, header, mapping, unparsed remainder, CRC field and trailing zeroes are equal (only
`modified` and the DM data may differ). `DmOfKept r r' lv`: `r'` has DM data iff `r` has, and its DM data is that of
`r` up to the blocks of level `lv` (`DmKept`: same `main`, scene flag, ids, `compressed`, the same containers
present, and for every other level the same blocks — as a multiset, because a touched container is re-sorted). -/

/-- **level6 / level9 / level11 / level255** — `executeSingle` applies `replaceIfDm r b _` with `b` the L6 / L9 / L11
/ L255 block of the config: only the blocks of that level can change -/
theorem level_replacement_keeps (r r' : Rpu) (b : Block) (a : Bool) (h : replaceIfDm r b a = .ok r') :
    RpuKept r r' ∧ DmOfKept r r' b.level :=
  replaceIfDm_kept r r' b a h

/-- … and the new block is then the only block of its level (levels 6, 9, 11, 255 are not keyed; the level's
container must exist — otherwise the operation is a silent no-op) -/
theorem level_replacement_stores (r r' : Rpu) (b : Block) (a : Bool) (h : replaceIfDm r b a = .ok r') (d : DmData)
    (hd : r.vdr_dm_data = some d) (hk : Gen.keyed b.level = false) (hh : Gen.holds d b.level) :
    ∃ d', r'.vdr_dm_data = some d' ∧ d'.levelBlocks b.level = [b] :=
  replaceIfDm_stored r r' b a h d hd hk hh

/-- the DM-data core of the above: `replace_metadata_block` touches only its own level (any block, keyed or not) -/
theorem replace_block_keeps (d d' : DmData) (b : Block) (h : d.replaceBlock b = .ok d') : DmKept d d' b.level :=
  replaceBlock_kept d d' b h

/-- **crop** and the **active-area presets**: only the L5 block can change -/
theorem crop_keeps (r r' : Rpu) (h : r.crop = .ok r') : RpuKept r r' ∧ DmOfKept r r' 5 := crop_kept r r' h

theorem preset_keeps (r r' : Rpu) (p : Preset) (h : setOffsets r p = .ok r') : RpuKept r r' ∧ DmOfKept r r' 5 :=
  setOffsets_kept r r' p h

/-- **drop_l5**: only the L5 blocks go, and they are gone -/
theorem drop_l5_keeps (r : Rpu) (d : DmData) (hd : r.vdr_dm_data = some d) :
    let r' : Rpu := { r with modified := true, vdr_dm_data := some (d.removeLevel 5) }
    RpuKept r r' ∧ DmOfKept r r' 5 ∧ (d.removeLevel 5).levelBlocks 5 = [] :=
  dropL5_kept r d hd

/-- **min_pq / max_pq**: every block, both containers and every DM field other than entries 29 / 30 of `main`
(`source_min_pq`, `source_max_pq`) are kept (the RPU fields outside the DM data are kept by construction:
`executeSingle` builds `{ r with modified := true, vdr_dm_data := … }`) -/
theorem source_levels_keep (d : DmData) (a b : Option Nat) :
    (d.changeSourceLevels a b).cmv29 = d.cmv29 ∧ (d.changeSourceLevels a b).cmv40 = d.cmv40 ∧
    (d.changeSourceLevels a b).scene_refresh_flag = d.scene_refresh_flag ∧
    (d.changeSourceLevels a b).compressed = d.compressed ∧
    (d.changeSourceLevels a b).affected_dm_metadata_id = d.affected_dm_metadata_id ∧
    (d.changeSourceLevels a b).current_dm_metadata_id = d.current_dm_metadata_id ∧
    (d.changeSourceLevels a b).main.length = d.main.length ∧
    ∀ j, j ≠ 29 → j ≠ 30 → (d.changeSourceLevels a b).main[j]? = d.main[j]? :=
  changeSourceLevels_kept d a b

/-- **remove_mapping**: the DM data, the header, the profile and the remainder are kept; a mapping stays a mapping -/
theorem remove_mapping_keeps (r : Rpu) :
    r.removeMapping.vdr_dm_data = r.vdr_dm_data ∧ r.removeMapping.header = r.header ∧
    r.removeMapping.dovi_profile = r.dovi_profile ∧ r.removeMapping.el_type = r.el_type ∧
    r.removeMapping.remaining = r.remaining ∧ r.removeMapping.trailing_zeroes = r.trailing_zeroes ∧
    r.removeMapping.rpu_data_mapping.isSome = r.rpu_data_mapping.isSome :=
  removeMapping_kept r

/-- **remove_cmv4**: only the CM v4.0 container goes -/
theorem remove_cmv4_keeps (r : Rpu) :
    RpuKept r r.removeCmv40 ∧
    match r.vdr_dm_data with
    | none => r.removeCmv40.vdr_dm_data = none
    | some d => r.removeCmv40.vdr_dm_data = some { d with cmv40 := none } :=
  removeCmv40_kept r

/-- **mode** (any conversion mode): both block containers, the scene flag, the DM ids, the entries of `main` from
`signal_eotf` on except the colour-space entry (so in particular the source levels), and the unparsed remainder,
CRC field and trailing zeroes are kept (`ModeKept`, `DmBlocksSame`) -/
theorem mode_keeps (r r' : Rpu) (m : Mode) (h : r.convertWithMode m = .ok r') : ModeKept r r' :=
  convertWithMode_kept r r' m h

/-- **the per-frame pass as a whole** (`execute_single_rpu`, every config, all operations composed): the frame keeps
its unparsed remainder, CRC field and trailing zeroes, and it has DM data afterwards iff it had before
(`Skeleton`) — no per-frame operation creates or deletes the DM data -/
theorem per_frame_pass_keeps (c : Config) (r r' : Rpu) (h : executeSingle c r = .ok r') : Skeleton r r' :=
  executeSingle_skeleton c r r' h

/-- non-vacuity: replacing L6 on the writable example frame keeps its L5, L9, L11, L254 blocks -/
example : ∃ r', replaceIfDm exRpu { level := 6, length := 8, vals := [4000, 50, 0, 0] } true = .ok r' ∧
    RpuKept exRpu r' := by
  have hok : (replaceIfDm exRpu { level := 6, length := 8, vals := [4000, 50, 0, 0] } true).isOk = true := by decide
  cases he : replaceIfDm exRpu { level := 6, length := 8, vals := [4000, 50, 0, 0] } true with
  | ok r' => exact ⟨r', rfl, (level_replacement_keeps _ _ _ _ he).1⟩
  | error => rw [he] at hok; cases hok
  | panic => rw [he] at hok; cases hok

/-- `Plain` is satisfiable by a non-trivial config: remove + range scene cuts + range active-area edits + duplicate -/
example : Plain { remove := some ["0", "3-4"], sceneCuts := some [("1-2", true)], hasActiveArea := true,
                  presets := some [⟨0, 0, 0, 138, 138⟩], aaEdits := some [("5-9", 0)],
                  duplicate := some [(0, 1, 2)] } := by
  refine ⟨rfl, rfl, rfl, rfl, rfl, rfl, rfl, rfl, rfl, rfl, rfl, ?_, ?_⟩
  · intro e he kv hkv
    injection he with he; subst he
    simp only [List.mem_singleton] at hkv; subst hkv
    intro hall
    have := congrArg String.toList hall
    simp [String.toLower, String.toList_map] at this
  · intro e he kv hkv
    injection he with he; subst he
    simp only [List.mem_singleton] at hkv; subst hkv
    intro hall
    have := congrArg String.toList hall
    simp [String.toLower, String.toList_map] at this

/-- **min_pq / max_pq, the named fields**: a given value is stored in entry 29 (`source_min_pq`) resp. 30
(`source_max_pq`) of the DM payload, whatever L6 says (the L6-derived defaults apply only to a value that is not
given and currently 0) -/
theorem source_levels_set (d : DmData) (a b : Nat) (h : 31 ≤ d.main.length) :
    (d.changeSourceLevels (some a) (some b)).main[29]? = some (a : Int) ∧
    (d.changeSourceLevels (some a) (some b)).main[30]? = some (b : Int) := by
  unfold DmData.changeSourceLevels
  simp only []
  split <;> simp [List.getElem?_set, h] <;> omega

/-- … and a value that is not given stays as it is unless it is 0 and an L6 block is present, in which case it
becomes the L6-derived default (`sourceMetaFromL6`, tied to the source below) -/
theorem source_levels_default (d : DmData) (l6 : Block) (h : 31 ≤ d.main.length) (h6 : d.getBlock 6 = some l6) :
    (d.changeSourceLevels none none).main[29]? =
      some (if d.main.getD 29 0 == 0 then ((sourceMetaFromL6 l6).1 : Int) else d.main.getD 29 0) ∧
    (d.changeSourceLevels none none).main[30]? =
      some (if d.main.getD 30 0 == 0 then ((sourceMetaFromL6 l6).2 : Int) else d.main.getD 30 0) := by
  obtain ⟨x29, hx29⟩ : ∃ x, d.main[29]? = some x := ⟨d.main[29], List.getElem?_eq_getElem (by omega)⟩
  obtain ⟨x30, hx30⟩ : ∃ x, d.main[30]? = some x := ⟨d.main[30], List.getElem?_eq_getElem (by omega)⟩
  unfold DmData.changeSourceLevels
  have hg : ({ d with main := d.main } : DmData).getBlock 6 = some l6 := h6
  simp only [hg, Option.isNone_none, Bool.true_and, List.getD_eq_getElem?_getD, hx29, hx30, Option.getD_some]
  have hlt29 : 29 < d.main.length := by omega
  have hlt30 : 30 < d.main.length := by omega
  have e29 : d.main[29] = x29 := by
    have := List.getElem?_eq_getElem hlt29; rw [this] at hx29; exact Option.some.inj hx29
  have e30 : d.main[30] = x30 := by
    have := List.getElem?_eq_getElem hlt30; rw [this] at hx30; exact Option.some.inj hx30
  by_cases h0 : x29 = 0 <;> by_cases h1 : x30 = 0 <;>
    simp [h0, h1, hx29, hx30, e29, e30, List.getElem?_set, hlt29, hlt30]

/-- **source tie** (Gen/SourceRules.lean is regenerated from /repo on every run): `source_meta_from_l6` of level6.rs —
the thresholds and the table that turn an L6 block into default source min/max PQ — as it stands in the source
now is the model's `sourceMetaFromL6`, for every block -/
theorem source_l6_levels_agree (b : Block) :
    Src.sourceMetaFromL6 b = (Int.ofNat (sourceMetaFromL6 b).1, Int.ofNat (sourceMetaFromL6 b).2) := by
  unfold Src.sourceMetaFromL6 sourceMetaFromL6
  simp only [Prod.mk.injEq]
  constructor <;> (repeat' split) <;> simp_all

end Dovi.C09
