import DoviModel.Model.Editor
/-! # C09 — the RPU editor applies exactly the configured edits to exactly the configured frames -/
namespace Dovi.C09
open Dovi Dovi.Editor

/-- the empty config does nothing before encoding: every frame is kept, in order -/
theorem execute_empty (rpus : List (Option Rpu)) : execute {} rpus = .ok rpus := by
  have h : ∀ l : List (Option Rpu), mapSome (executeSingle {}) l = .ok l := by
    intro l
    induction l with
    | nil => rfl
    | cons x xs ih =>
      cases x with
      | none => simp [mapSome, ih, Res.bind]
      | some r =>
        have : executeSingle {} r = .ok r := by simp [executeSingle, Res.bind]
        simp [mapSome, this, ih, Res.bind]
  simp [execute, h, Res.bind]

/-- a range whose end is not below the list length is an error, for removal … -/
theorem remove_end_out_of_range (s e : Nat) (k : String) (rest : List String) (rpus : List (Option Rpu))
    (hk : k.toList.contains '-' = true) (ht : rangeTuple k = some (s, e)) (he : rpus.length ≤ e) :
    removeFrames (k :: rest) rpus = .error := by
  have : ¬ e < rpus.length := by omega
  have hk' : '-' ∈ k.toList := by simpa using hk
  simp [removeFrames, hk', ht, this]

/-- … an inverted range is an error … -/
theorem remove_inverted_range (s e : Nat) (k : String) (rest : List String) (rpus : List (Option Rpu))
    (hk : k.toList.contains '-' = true) (ht : rangeTuple k = some (s, e)) (hse : e < s) :
    removeFrames (k :: rest) rpus = .error := by
  have hk' : '-' ∈ k.toList := by simpa using hk
  by_cases he : e < rpus.length
  · have : ¬ s ≤ e := by omega
    simp [removeFrames, hk', ht, he, this]
  · simp [removeFrames, hk', ht, he]

/-- … and the same for scene-cut ranges -/
theorem scene_cut_range_errors (s e : Nat) (k : String) (v : Bool) (rest : List (String × Bool))
    (rpus : List (Option Rpu)) (hall : k.toLower ≠ "all") (ht : rangeTuple k = some (s, e))
    (hbad : rpus.length ≤ e ∨ e < s) : sceneCutRanges ((k, v) :: rest) rpus = .error := by
  unfold sceneCutRanges
  simp only [beq_iff_eq, hall, if_false, ht]
  rcases hbad with h | h
  · simp [h]
  · by_cases he : e ≥ rpus.length
    · simp [he]
    · have : ¬ s ≤ e := by omega
      simp [he, this]

/-- duplication: the output grows by exactly `length` copies and nothing else changes -/
theorem duplicate_length (src off len : Nat) (rest : List (Nat × Nat × Nat)) (data out : List Bytes)
    (h : duplicateAll ((src, off, len) :: rest) data = .ok out) (hrest : rest = []) :
    out.length = data.length + len := by
  subst hrest
  unfold duplicateAll at h
  split at h
  · cases h
  · rename_i hc
    simp only [duplicateAll] at h
    injection h with h
    subst h
    have : off ≤ data.length := by
      simp at hc
      exact hc.2
    simp [List.length_take, List.length_drop]; omega

end Dovi.C09
