import DoviModel.Model.Export
/-! # C16 — info/export are faithful views -/
namespace Dovi.C16
open Dovi Dovi.Export

/-- every listed scene index is a frame whose scene-refresh flag is 1 -/
theorem scenes_sound (l : List Rpu) (i : Nat) (h : i ∈ scenes l) :
    ∃ r d, l[i]? = some r ∧ r.vdr_dm_data = some d ∧ d.scene_refresh_flag = 1 := by
  unfold scenes at h
  simp only [List.mem_filterMap] at h
  obtain ⟨⟨j, r⟩, hm, hs⟩ := h
  have hz := List.of_mem_zip hm
  cases hd : r.vdr_dm_data with
  | none => simp [hd] at hs
  | some d =>
    simp only [hd] at hs
    split at hs
    · rename_i hf
      injection hs with hs; subst hs
      refine ⟨r, d, ?_, hd, by simpa using hf⟩
      -- (j, r) ∈ zip (range n) l  ⇒  l[j]? = some r
      rw [List.mem_iff_getElem?] at hm
      obtain ⟨k, hk⟩ := hm
      rw [List.getElem?_zip_eq_some] at hk
      obtain ⟨h1, h2⟩ := hk
      rw [List.getElem?_range] at h1
      · injection h1 with h1
        simp only at h1 h2
        subst h1
        exact h2
      · have := (List.getElem?_eq_some_iff.mp h1).1
        simpa using this
    · cases hs

/-- the scene list is strictly ascending (0-based indices in file order) -/
theorem scenes_ascending (l : List Rpu) : (scenes l).Pairwise (· < ·) := by
  unfold scenes
  apply List.Pairwise.filterMap (R := fun (a b : Nat × Rpu) => a.1 < b.1)
  · intro a b hab x hx y hy
    obtain ⟨i, r⟩ := a; obtain ⟨j, s⟩ := b
    simp only at hx hy hab
    cases hr : r.vdr_dm_data <;> simp [hr] at hx
    cases hs : s.vdr_dm_data <;> simp [hs] at hy
    obtain ⟨_, rfl⟩ := hx
    obtain ⟨_, rfl⟩ := hy
    exact hab
  · have : (List.range l.length).Pairwise (· < ·) := List.pairwise_lt_range
    exact List.Pairwise.imp_of_mem (l := (List.range l.length).zip l) (fun _ _ h => h)
      (List.pairwise_map.mp (by
        have hz : ((List.range l.length).zip l).map Prod.fst = List.range l.length := by
          simp [List.map_fst_zip]
        rw [hz]; exact this))

end Dovi.C16
