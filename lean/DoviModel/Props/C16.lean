import DoviModel.Model.Export
import DoviModel.Model.Json
import DoviModel.Proofs.EditGenProof
/-! # C16 — info/export are faithful views -/
namespace Dovi.C16
open Dovi Dovi.Export Dovi.Editor Dovi.EditGenProof

/-- every listed scene index is a frame whose scene-refresh flag is 1 -/
theorem scenes_sound (l : List Rpu) (i : Nat) (h : i ∈ scenes l) :
    ∃ r d, l[i]? = some r ∧ r.vdr_dm_data = some d ∧ d.scene_refresh_flag = 1 := by
  unfold scenes at h
  simp only [List.mem_filterMap] at h
  obtain ⟨⟨j, r⟩, hm, hs⟩ := h
  have hz := List.of_mem_zip hm
  cases hd : r.vdr_dm_data with
  | none => simp [hd] at hs
  | some d =>
    simp only [hd] at hs
    split at hs
    · rename_i hf
      injection hs with hs; subst hs
      refine ⟨r, d, ?_, hd, by simpa using hf⟩
      -- (j, r) ∈ zip (range n) l  ⇒  l[j]? = some r
      rw [List.mem_iff_getElem?] at hm
      obtain ⟨k, hk⟩ := hm
      rw [List.getElem?_zip_eq_some] at hk
      obtain ⟨h1, h2⟩ := hk
      rw [List.getElem?_range] at h1
      · injection h1 with h1
        simp only at h1 h2
        subst h1
        exact h2
      · have := (List.getElem?_eq_some_iff.mp h1).1
        simpa using this
    · cases hs

/-- the scene list is strictly ascending (0-based indices in file order) -/
theorem scenes_ascending (l : List Rpu) : (scenes l).Pairwise (· < ·) := by
  unfold scenes
  apply List.Pairwise.filterMap (R := fun (a b : Nat × Rpu) => a.1 < b.1)
  · intro a b hab x hx y hy
    obtain ⟨i, r⟩ := a; obtain ⟨j, s⟩ := b
    simp only at hx hy hab
    cases hr : r.vdr_dm_data <;> simp [hr] at hx
    cases hs : s.vdr_dm_data <;> simp [hs] at hy
    obtain ⟨_, rfl⟩ := hx
    obtain ⟨_, rfl⟩ := hy
    exact hab
  · have : (List.range l.length).Pairwise (· < ·) := List.pairwise_lt_range
    exact List.Pairwise.imp_of_mem (l := (List.range l.length).zip l) (fun _ _ h => h)
      (List.pairwise_map.mp (by
        have hz : ((List.range l.length).zip l).map Prod.fst = List.range l.length := by
          simp [List.map_fst_zip]
        rw [hz]; exact this))

/-! ## scene list: exactly the flagged frames -/

/-- **scenes_exact** — `export -d scenes` is *exactly* the ascending list of the 0-based positions whose frame
has DM data with `scene_refresh_flag = 1` (`cutAt l i`): nothing missing, nothing extra, no repetition -/
theorem scenes_exact (l : List Rpu) : scenes l = (List.range l.length).filter (cutAt l) :=
  scenes_eq_filter l

/-- completeness in the form matching `scenes_sound`: every flagged frame is listed -/
theorem scenes_complete (l : List Rpu) (i : Nat) (r : Rpu) (d : DmData) (hi : l[i]? = some r)
    (hd : r.vdr_dm_data = some d) (hf : d.scene_refresh_flag = 1) : i ∈ scenes l := by
  rw [scenes_exact, List.mem_filter]
  have hlt : i < l.length := (List.getElem?_eq_some_iff.mp hi).1
  exact ⟨List.mem_range.mpr hlt, by simp [cutAt, hi, isCut, hd, hf]⟩

/-- sound and complete in one statement -/
theorem mem_scenes_iff (l : List Rpu) (i : Nat) :
    i ∈ scenes l ↔ ∃ r d, l[i]? = some r ∧ r.vdr_dm_data = some d ∧ d.scene_refresh_flag = 1 :=
  ⟨scenes_sound l i, fun ⟨r, d, h1, h2, h3⟩ => scenes_complete l i r d h1 h2 h3⟩

/-- the number of scenes reported by `info --summary` is the number of flagged frames -/
theorem summary_sceneCount (l : List Rpu) :
    (summary l).sceneCount = ((List.range l.length).filter (cutAt l)).length := by
  simp [summary, scenes_exact]

/-- hypotheses are satisfiable: a three-frame list with cuts at 0 and 2 -/
example :
    let f (flag : Nat) : Rpu := { vdr_dm_data := some { scene_refresh_flag := flag } }
    scenes [f 1, f 0, f 1] = [0, 2] := by decide

/-! ## level-5 export: the round trip through the editor -/

/-- the round trip for an arbitrary key text. `key s e` is the text of the range key; the one fact used about it
(`KeyOk`) is that the editor's `range_string_to_tuple` reads it back as `(s, e)` and that it is not the word `all`.
The order in which the `BTreeMap` holds the keys (`"10-19" < "2-9"`) is covered: the ranges are disjoint, so the
last covering edit is the only one. -/
theorem l5_export_replays_key (key : Nat → Nat → String) (l target : List Rpu) (hkey : KeyOk l.length key)
    (hlen : target.length = l.length) (hwf : ∀ r ∈ l, L5Wf r) (hv : ∀ r ∈ target, HasV29 r) :
    ∃ out, execute (l5EditorConfig key (level5Config l)) (target.map some) = .ok out ∧ out.length = l.length ∧
      ∀ (i : Nat) (r : Rpu), l[i]? = some r → ∃ r', out[i]? = some (some r') ∧ l5Of r' = l5Of r :=
  l5_replay key l target hkey hlen hwf hv

/-- the tool's own key text, `format!("{}-{}", s, e)`, is read back by the editor's `range_string_to_tuple` as
`(s, e)` (decimal printer, `splitOn("-")`, `parse::<usize>()` — proved, not assumed), and is never `all` -/
theorem key_text_roundtrip (s e : Nat) (hs : s < 2 ^ 64) (he : e < 2 ^ 64) :
    rangeTuple (Str.fmtKey s e) = some (s, e) ∧ (Str.fmtKey s e).toLower ≠ "all" :=
  ⟨Str.rangeTuple_fmtKey s e hs he, Str.fmtKey_not_all s e⟩

/-- **l5_export_replays** — the key round trip of C16. Let `l` be any RPU list (of a length a `usize` can hold)
whose L5 offsets are four non-negative numbers per frame (frames without L5 / without DM data count as
`[0,0,0,0]`), and `target` any list of the same length whose frames have DM data with a CM v2.9 container.
Executing the editor model with the exported config (`{"active_area": {"crop": true, "presets": …,
"edits": {"s-e": id}}}` with the tool's key text `Str.fmtKey`) on `target` succeeds, keeps every frame, and frame
`i` of the result has exactly the L5 offsets of frame `i` of `l`. -/
theorem l5_export_replays (l target : List Rpu) (hsize : l.length ≤ 2 ^ 64)
    (hlen : target.length = l.length) (hwf : ∀ r ∈ l, L5Wf r) (hv : ∀ r ∈ target, HasV29 r) :
    ∃ out, execute (l5EditorConfig Str.fmtKey (level5Config l)) (target.map some) = .ok out ∧
      out.length = l.length ∧
      ∀ (i : Nat) (r : Rpu), l[i]? = some r → ∃ r', out[i]? = some (some r') ∧ l5Of r' = l5Of r :=
  l5_replay Str.fmtKey l target (keyOk_fmtKey l.length hsize) hlen hwf hv

/-- in particular replaying on the exported file itself restores it: every frame keeps its L5 offsets -/
theorem l5_export_replays_self (l : List Rpu) (hsize : l.length ≤ 2 ^ 64) (hwf : ∀ r ∈ l, L5Wf r)
    (hv : ∀ r ∈ l, HasV29 r) :
    ∃ out, execute (l5EditorConfig Str.fmtKey (level5Config l)) (l.map some) = .ok out ∧
      out.length = l.length ∧
      ∀ (i : Nat) (r : Rpu), l[i]? = some r → ∃ r', out[i]? = some (some r') ∧ l5Of r' = l5Of r :=
  l5_export_replays l l hsize rfl hwf hv

#guard (List.range 40).all fun e => (List.range (e + 1)).all fun s =>
  rangeTuple (Str.fmtKey s e) == some (s, e) && (Str.fmtKey s e).toLower != "all"

/-- structure of the exported config, for all lists: every edit is a non-empty inclusive range inside the
list, on which the source frames all carry the edit's preset; and the ranges cover every frame -/
theorem l5_export_ranges (l : List Rpu) (hne : l ≠ []) :
    (∀ t ∈ (level5Config l).2, t.1 ≤ t.2.1 ∧ t.2.1 < l.length ∧
        ∀ j, t.1 ≤ j → j ≤ t.2.1 → ∃ r, l[j]? = some r ∧ (level5Config l).1[t.2.2]? = some (l5Of r)) ∧
    (∀ j, j < l.length → ∃ t ∈ (level5Config l).2, t.1 ≤ j ∧ j ≤ t.2.1) :=
  level5Config_spec l hne

/-- the other hypotheses are satisfiable by a non-trivial list (two runs, a frame without L5) -/
example :
    let f (v : List Int) : Rpu :=
      { vdr_dm_data := some { cmv29 := some { num_ext_blocks := 1, blocks := [{ level := 5, length := 7, vals := v }] } } }
    let g : Rpu := { vdr_dm_data := some { cmv29 := some {} } }
    let l := [f [0, 0, 276, 276], f [0, 0, 276, 276], g, f [1, 2, 3, 4]]
    (∀ r ∈ l, L5Wf r) ∧ (∀ r ∈ l, HasV29 r) ∧
    level5Config l = ([[0, 0, 276, 276], [0, 0, 0, 0], [1, 2, 3, 4]], [(0, 1, 0), (2, 2, 1), (3, 3, 2)]) := by
  refine ⟨?_, ?_, by decide⟩
  · intro r hr
    simp only [List.mem_cons, List.not_mem_nil, or_false] at hr
    rcases hr with rfl | rfl | rfl | rfl
    · exact ⟨0, 0, 276, 276, by decide⟩
    · exact ⟨0, 0, 276, 276, by decide⟩
    · exact ⟨0, 0, 0, 0, by decide⟩
    · exact ⟨1, 2, 3, 4, by decide⟩
  · intro r hr
    simp only [List.mem_cons, List.not_mem_nil, or_false] at hr
    rcases hr with rfl | rfl | rfl | rfl <;> exact ⟨_, rfl, rfl⟩

/-- **corner (finding)**: the round trip needs the target frames to have a CM v2.9 container. On a target frame
without DM data the replay "succeeds" but the frame keeps zero offsets — the exported offsets are silently not
applied (`set_active_area_offsets` is a no-op without `vdr_dm_data`) -/
theorem l5_replay_corner_no_dm :
    let src : Rpu :=
      { vdr_dm_data := some { cmv29 := some { num_ext_blocks := 1, blocks := [{ level := 5, length := 7, vals := [1, 2, 3, 4] }] } } }
    let tgt : Rpu := {}
    ∃ r', execute (l5EditorConfig Str.fmtKey (level5Config [src])) [some tgt] = .ok [some r'] ∧
      l5Of r' = [0, 0, 0, 0] ∧ l5Of src = [1, 2, 3, 4] := by
  obtain ⟨hk1, hk2⟩ := key_text_roundtrip 0 0 (by decide) (by decide)
  have hcfg : level5Config [({ vdr_dm_data := some { cmv29 := some { num_ext_blocks := 1, blocks := [{ level := 5, length := 7, vals := [1, 2, 3, 4] }] } } } : Rpu)]
      = ([[1, 2, 3, 4]], [(0, 0, 0)]) := by decide
  refine ⟨{ modified := true }, ?_, by decide, by decide⟩
  simp only [hcfg]
  simp [execute, l5EditorConfig, mapSome, executeSingle, activeAreaSingle, Rpu.crop, Res.bind, asMap, insertByKey,
    activeAreaSingle.go, hk2, activeAreaRanges, hk1, presetsFrom, presetOf, mapRange, mapRange.go, setOffsets, withDm]

/-! ## export all -/

/-- `export -d all`: the JSON array of the per-frame views (`Rpu.toJson` = what `info -f i` prints; the model
has no separate definition for the array, the harness compares element `i` with `info -f i` on the real CLI) -/
def exportAll (l : List Rpu) : Json := .arr (l.map Rpu.toJson)

/-- **export_all_length_order** — one element per RPU, in file order, each the frame's `info -f` view -/
theorem export_all_length_order (l : List Rpu) :
    ∃ js, exportAll l = .arr js ∧ js.length = l.length ∧ ∀ i : Nat, js[i]? = (l[i]?).map Rpu.toJson :=
  ⟨l.map Rpu.toJson, rfl, by simp, fun i => by simp⟩

/-- the summary's frame count is the list length -/
theorem summary_count (l : List Rpu) : (summary l).count = l.length := by simp [summary]

end Dovi.C16
