import DoviModel.Model.Export
import DoviModel.Model.Json
import DoviModel.Proofs.EditGenProof
import DoviModel.Proofs.SummaryProof
/-! # C16 — info/export are faithful views -/
namespace Dovi.C16
open Dovi Dovi.Export Dovi.Editor Dovi.EditGenProof Dovi.SummaryProof

/-- every listed scene index is a frame whose scene-refresh flag is 1 -/
theorem scenes_sound (l : List Rpu) (i : Nat) (h : i ∈ scenes l) :
    ∃ r d, l[i]? = some r ∧ r.vdr_dm_data = some d ∧ d.scene_refresh_flag = 1 := by
  unfold scenes at h
  simp only [List.mem_filterMap] at h
  obtain ⟨⟨j, r⟩, hm, hs⟩ := h
  have hz := List.of_mem_zip hm
  cases hd : r.vdr_dm_data with
  | none => simp [hd] at hs
  | some d =>
    simp only [hd] at hs
    split at hs
    · rename_i hf
      injection hs with hs; subst hs
      refine ⟨r, d, ?_, hd, by simpa using hf⟩
      -- (j, r) ∈ zip (range n) l  ⇒  l[j]? = some r
      rw [List.mem_iff_getElem?] at hm
      obtain ⟨k, hk⟩ := hm
      rw [List.getElem?_zip_eq_some] at hk
      obtain ⟨h1, h2⟩ := hk
      rw [List.getElem?_range] at h1
      · injection h1 with h1
        simp only at h1 h2
        subst h1
        exact h2
      · have := (List.getElem?_eq_some_iff.mp h1).1
        simpa using this
    · cases hs

/-- the scene list is strictly ascending (0-based indices in file order) -/
theorem scenes_ascending (l : List Rpu) : (scenes l).Pairwise (· < ·) := by
  unfold scenes
  apply List.Pairwise.filterMap (R := fun (a b : Nat × Rpu) => a.1 < b.1)
  · intro a b hab x hx y hy
    obtain ⟨i, r⟩ := a; obtain ⟨j, s⟩ := b
    simp only at hx hy hab
    cases hr : r.vdr_dm_data <;> simp [hr] at hx
    cases hs : s.vdr_dm_data <;> simp [hs] at hy
    obtain ⟨_, rfl⟩ := hx
    obtain ⟨_, rfl⟩ := hy
    exact hab
  · have : (List.range l.length).Pairwise (· < ·) := List.pairwise_lt_range
    exact List.Pairwise.imp_of_mem (l := (List.range l.length).zip l) (fun _ _ h => h)
      (List.pairwise_map.mp (by
        have hz : ((List.range l.length).zip l).map Prod.fst = List.range l.length := by
          simp [List.map_fst_zip]
        rw [hz]; exact this))

/-! ## scene list: exactly the flagged frames -/

/-- **scenes_exact** — `export -d scenes` is *exactly* the ascending list of the 0-based positions whose frame
has DM data with `scene_refresh_flag = 1` (`cutAt l i`): nothing missing, nothing extra, no repetition -/
theorem scenes_exact (l : List Rpu) : scenes l = (List.range l.length).filter (cutAt l) :=
  scenes_eq_filter l

/-- completeness in the form matching `scenes_sound`: every flagged frame is listed -/
theorem scenes_complete (l : List Rpu) (i : Nat) (r : Rpu) (d : DmData) (hi : l[i]? = some r)
    (hd : r.vdr_dm_data = some d) (hf : d.scene_refresh_flag = 1) : i ∈ scenes l := by
  rw [scenes_exact, List.mem_filter]
  have hlt : i < l.length := (List.getElem?_eq_some_iff.mp hi).1
  exact ⟨List.mem_range.mpr hlt, by simp [cutAt, hi, isCut, hd, hf]⟩

/-- sound and complete in one statement -/
theorem mem_scenes_iff (l : List Rpu) (i : Nat) :
    i ∈ scenes l ↔ ∃ r d, l[i]? = some r ∧ r.vdr_dm_data = some d ∧ d.scene_refresh_flag = 1 :=
  ⟨scenes_sound l i, fun ⟨r, d, h1, h2, h3⟩ => scenes_complete l i r d h1 h2 h3⟩

/-- the number of scenes reported by `info --summary` is the number of flagged frames -/
theorem summary_sceneCount (l : List Rpu) :
    (summary l).sceneCount = ((List.range l.length).filter (cutAt l)).length := by
  simp [summary, scenes_exact]

/-- hypotheses are satisfiable: a three-frame list with cuts at 0 and 2 -/
example :
    let f (flag : Nat) : Rpu := { vdr_dm_data := some { scene_refresh_flag := flag } }
    scenes [f 1, f 0, f 1] = [0, 2] := by decide

/-! ## level-5 export: the round trip through the editor -/

/-- the round trip for an arbitrary key text. `key s e` is the text of the range key; the one fact used about it
(`KeyOk`) is that the editor's `range_string_to_tuple` reads it back as `(s, e)` and that it is not the word `all`.
The order in which the `BTreeMap` holds the keys (`"10-19" < "2-9"`) is covered: the ranges are disjoint, so the
last covering edit is the only one. -/
theorem l5_export_replays_key (key : Nat → Nat → String) (l target : List Rpu) (hkey : KeyOk l.length key)
    (hlen : target.length = l.length) (hwf : ∀ r ∈ l, L5Wf r) (hv : ∀ r ∈ target, HasV29 r) :
    ∃ out, execute (l5EditorConfig key (level5Config l)) (target.map some) = .ok out ∧ out.length = l.length ∧
      ∀ (i : Nat) (r : Rpu), l[i]? = some r → ∃ r', out[i]? = some (some r') ∧ l5Of r' = l5Of r :=
  l5_replay key l target hkey hlen hwf hv

/-- the tool's own key text, `format!("{}-{}", s, e)`, is read back by the editor's `range_string_to_tuple` as
`(s, e)` (decimal printer, `splitOn("-")`, `parse::<usize>()` — proved, not assumed), and is never `all` -/
theorem key_text_roundtrip (s e : Nat) (hs : s < 2 ^ 64) (he : e < 2 ^ 64) :
    rangeTuple (Str.fmtKey s e) = some (s, e) ∧ (Str.fmtKey s e).toLower ≠ "all" :=
  ⟨Str.rangeTuple_fmtKey s e hs he, Str.fmtKey_not_all s e⟩

/-- **l5_export_replays** — the key round trip of C16. Let `l` be any RPU list (of a length a `usize` can hold)
whose L5 offsets are four non-negative numbers per frame (frames without L5 / without DM data count as
`[0,0,0,0]`), and `target` any list of the same length whose frames have DM data with a CM v2.9 container.
Executing the editor model with the exported config (`{"active_area": {"crop": true, "presets": …,
"edits": {"s-e": id}}}` with the tool's key text `Str.fmtKey`) on `target` succeeds, keeps every frame, and frame
`i` of the result has exactly the L5 offsets of frame `i` of `l`.

The hypothesis `HasV29` on the target frames (DM data with a CM v2.9 container — the place an L5 block lives in; true
of every parsed RPU that has DM data) is NEEDED: on a target frame without DM data the replay reports success but
leaves zero offsets, see the witness `l5_replay_corner_no_dm` below. -/
theorem l5_export_replays (l target : List Rpu) (hsize : l.length ≤ 2 ^ 64)
    (hlen : target.length = l.length) (hwf : ∀ r ∈ l, L5Wf r) (hv : ∀ r ∈ target, HasV29 r) :
    ∃ out, execute (l5EditorConfig Str.fmtKey (level5Config l)) (target.map some) = .ok out ∧
      out.length = l.length ∧
      ∀ (i : Nat) (r : Rpu), l[i]? = some r → ∃ r', out[i]? = some (some r') ∧ l5Of r' = l5Of r :=
  l5_replay Str.fmtKey l target (keyOk_fmtKey l.length hsize) hlen hwf hv

/-- in particular replaying on the exported file itself restores it: every frame keeps its L5 offsets -/
theorem l5_export_replays_self (l : List Rpu) (hsize : l.length ≤ 2 ^ 64) (hwf : ∀ r ∈ l, L5Wf r)
    (hv : ∀ r ∈ l, HasV29 r) :
    ∃ out, execute (l5EditorConfig Str.fmtKey (level5Config l)) (l.map some) = .ok out ∧
      out.length = l.length ∧
      ∀ (i : Nat) (r : Rpu), l[i]? = some r → ∃ r', out[i]? = some (some r') ∧ l5Of r' = l5Of r :=
  l5_export_replays l l hsize rfl hwf hv

#guard (List.range 40).all fun e => (List.range (e + 1)).all fun s =>
  rangeTuple (Str.fmtKey s e) == some (s, e) && (Str.fmtKey s e).toLower != "all"

/-- structure of the exported config, for all lists: every edit is a non-empty inclusive range inside the
list, on which the source frames all carry the edit's preset; and the ranges cover every frame -/
theorem l5_export_ranges (l : List Rpu) (hne : l ≠ []) :
    (∀ t ∈ (level5Config l).2, t.1 ≤ t.2.1 ∧ t.2.1 < l.length ∧
        ∀ j, t.1 ≤ j → j ≤ t.2.1 → ∃ r, l[j]? = some r ∧ (level5Config l).1[t.2.2]? = some (l5Of r)) ∧
    (∀ j, j < l.length → ∃ t ∈ (level5Config l).2, t.1 ≤ j ∧ j ≤ t.2.1) :=
  level5Config_spec l hne

/-- the other hypotheses are satisfiable by a non-trivial list (two runs, a frame without L5) -/
example :
    let f (v : List Int) : Rpu :=
      { vdr_dm_data := some { cmv29 := some { num_ext_blocks := 1, blocks := [{ level := 5, length := 7, vals := v }] } } }
    let g : Rpu := { vdr_dm_data := some { cmv29 := some {} } }
    let l := [f [0, 0, 276, 276], f [0, 0, 276, 276], g, f [1, 2, 3, 4]]
    (∀ r ∈ l, L5Wf r) ∧ (∀ r ∈ l, HasV29 r) ∧
    level5Config l = ([[0, 0, 276, 276], [0, 0, 0, 0], [1, 2, 3, 4]], [(0, 1, 0), (2, 2, 1), (3, 3, 2)]) := by
  refine ⟨?_, ?_, by decide⟩
  · intro r hr
    simp only [List.mem_cons, List.not_mem_nil, or_false] at hr
    rcases hr with rfl | rfl | rfl | rfl
    · exact ⟨0, 0, 276, 276, by decide⟩
    · exact ⟨0, 0, 276, 276, by decide⟩
    · exact ⟨0, 0, 0, 0, by decide⟩
    · exact ⟨1, 2, 3, 4, by decide⟩
  · intro r hr
    simp only [List.mem_cons, List.not_mem_nil, or_false] at hr
    rcases hr with rfl | rfl | rfl | rfl <;> exact ⟨_, rfl, rfl⟩

/-- **corner (finding)**: the round trip needs the target frames to have a CM v2.9 container. On a target frame
without DM data the replay "succeeds" but the frame keeps zero offsets — the exported offsets are silently not
applied (`set_active_area_offsets` is a no-op without `vdr_dm_data`) -/
theorem l5_replay_corner_no_dm :
    let src : Rpu :=
      { vdr_dm_data := some { cmv29 := some { num_ext_blocks := 1, blocks := [{ level := 5, length := 7, vals := [1, 2, 3, 4] }] } } }
    let tgt : Rpu := {}
    ∃ r', execute (l5EditorConfig Str.fmtKey (level5Config [src])) [some tgt] = .ok [some r'] ∧
      l5Of r' = [0, 0, 0, 0] ∧ l5Of src = [1, 2, 3, 4] := by
  obtain ⟨hk1, hk2⟩ := key_text_roundtrip 0 0 (by decide) (by decide)
  have hcfg : level5Config [({ vdr_dm_data := some { cmv29 := some { num_ext_blocks := 1, blocks := [{ level := 5, length := 7, vals := [1, 2, 3, 4] }] } } } : Rpu)]
      = ([[1, 2, 3, 4]], [(0, 0, 0)]) := by decide
  refine ⟨{ modified := true }, ?_, by decide, by decide⟩
  simp only [hcfg]
  simp [execute, l5EditorConfig, mapSome, executeSingle, activeAreaSingle, Rpu.crop, Res.bind, asMap, insertByKey,
    activeAreaSingle.go, hk2, activeAreaRanges, hk1, presetsFrom, presetOf, mapRange, mapRange.go, setOffsets, withDm]

/-! ## export all -/

/-- `export -d all`: the JSON array of the per-frame views (`Rpu.toJson` = what `info -f i` prints; the model
has no separate definition for the array, the harness compares element `i` with `info -f i` on the real CLI) -/
def exportAll (l : List Rpu) : Json := .arr (l.map Rpu.toJson)

/-- **export_all_length_order** — NOT a theorem about the tool: it only unfolds the definition `exportAll`
introduced just above in this file (the exported array := the list of per-frame `Rpu.toJson` views, one per RPU, in
order). The tie between `export -d all` element `i` and `info -f i` of the real CLI is the harness oracle, not a
Lean statement; the per-frame view `Rpu.toJson` itself is validated differentially. -/
theorem export_all_length_order (l : List Rpu) :
    ∃ js, exportAll l = .arr js ∧ js.length = l.length ∧ ∀ i : Nat, js[i]? = (l[i]?).map Rpu.toJson :=
  ⟨l.map Rpu.toJson, rfl, by simp, fun i => by simp⟩

/-- the summary's frame count is the list length -/
theorem summary_count (l : List Rpu) : (summary l).count = l.length := by simp [summary]

/-! ## `info --summary`: the figures equal the values computed from the per-frame data -/

/-- **summary_maxcll_maxfall** — the three L1 figures of the summary (as PQ codes; the tool prints max_pq as
"MaxCLL" and avg_pq as "MaxFALL" after `pq_to_nits`) are the maxima over the frames of the per-frame L1 min_pq /
max_pq / avg_pq (`l1Of`: frames without L1 count as the clamped zero block of the CM version the summary
assumes, `cm40Any l`): each figure is attained by some frame and dominates every frame -/
theorem summary_maxcll_maxfall (l : List Rpu) (hne : l ≠ []) :
    ((∃ r ∈ l, (summary l).maxL1.1 = (l1Of (cm40Any l) r).getD 0 0) ∧
      ∀ r ∈ l, (l1Of (cm40Any l) r).getD 0 0 ≤ (summary l).maxL1.1) ∧
    ((∃ r ∈ l, (summary l).maxL1.2.1 = (l1Of (cm40Any l) r).getD 1 0) ∧
      ∀ r ∈ l, (l1Of (cm40Any l) r).getD 1 0 ≤ (summary l).maxL1.2.1) ∧
    ((∃ r ∈ l, (summary l).maxL1.2.2 = (l1Of (cm40Any l) r).getD 2 0) ∧
      ∀ r ∈ l, (l1Of (cm40Any l) r).getD 2 0 ≤ (summary l).maxL1.2.2) := by
  rw [summary_maxL1]
  have key : ∀ k : Nat, (∃ r ∈ l, maxOf ((l.map (l1Of (cm40Any l))).map (·.getD k 0)) = (l1Of (cm40Any l) r).getD k 0) ∧
      ∀ r ∈ l, (l1Of (cm40Any l) r).getD k 0 ≤ maxOf ((l.map (l1Of (cm40Any l))).map (·.getD k 0)) := by
    intro k
    obtain ⟨h1, h2⟩ := maxOf_spec ((l.map (l1Of (cm40Any l))).map (·.getD k 0)) (by simpa using hne)
    constructor
    · rw [List.mem_map] at h1
      obtain ⟨v, hv, he⟩ := h1
      rw [List.mem_map] at hv
      obtain ⟨r, hr, rfl⟩ := hv
      exact ⟨r, hr, he.symm⟩
    · intro r hr
      exact h2 _ (List.mem_map.mpr ⟨_, List.mem_map.mpr ⟨r, hr, rfl⟩, rfl⟩)
  exact ⟨key 0, key 1, key 2⟩

/-- with no frames the three figures are 0 -/
theorem summary_maxl1_empty : (summary []).maxL1 = (0, 0, 0) := by decide

/-- the CM version assumed for frames without L1 is v4.0 iff some frame has a CM v4.0 container -/
theorem cm40Any_iff (l : List Rpu) :
    cm40Any l = true ↔ ∃ r ∈ l, ∃ d, r.vdr_dm_data = some d ∧ d.cmv40.isSome = true := by
  unfold cm40Any v2Count
  simp only [decide_eq_true_eq, gt_iff_lt, List.length_pos_iff_exists_mem, List.mem_filter]
  constructor
  · rintro ⟨r, hr, h⟩
    unfold hasCm40 at h
    cases hd : r.vdr_dm_data with
    | none => simp [hd] at h
    | some d => exact ⟨r, hr, d, hd, by simpa [hd] using h⟩
  · rintro ⟨r, hr, d, hd, h⟩
    exact ⟨r, hr, by simp [hasCm40, hd, h]⟩

/-- **mem_l2_targets_iff** — a target code is in the summary's L2 list iff some frame carries an L2 block with that
`target_max_pq`; the list has no duplicates -/
theorem mem_l2_targets_iff (l : List Rpu) (x : Int) :
    x ∈ (summary l).l2Targets ↔
      ∃ r ∈ l, ∃ d, r.vdr_dm_data = some d ∧ ∃ b ∈ d.levelBlocks 2, b.vals.getD 0 0 = x := by
  rw [summary_l2, mem_uniq, List.mem_flatMap]
  constructor
  · rintro ⟨r, hr, hx⟩
    unfold l2Of at hx
    cases hd : r.vdr_dm_data with
    | none => simp [hd] at hx
    | some d =>
      simp only [hd, List.mem_map] at hx
      obtain ⟨b, hb, he⟩ := hx
      exact ⟨r, hr, d, hd, b, hb, he⟩
  · rintro ⟨r, hr, d, hd, b, hb, he⟩
    exact ⟨r, hr, by simp only [l2Of, hd, List.mem_map]; exact ⟨b, hb, he⟩⟩

theorem l2_targets_nodup (l : List Rpu) : (summary l).l2Targets.Nodup := by
  rw [summary_l2]; exact uniq_nodup _

/-- **mem_l6_list_iff** — an L6 value list is in the summary's L6 list iff it is the L6 block of some frame; the
list has no duplicates -/
theorem mem_l6_list_iff (l : List Rpu) (x : List Int) :
    x ∈ (summary l).l6 ↔ ∃ r ∈ l, ∃ d b, r.vdr_dm_data = some d ∧ d.getBlock 6 = some b ∧ b.vals = x := by
  rw [summary_l6, mem_uniq, List.mem_filterMap]
  constructor
  · rintro ⟨r, hr, hx⟩
    unfold l6Of at hx
    cases hd : r.vdr_dm_data with
    | none => simp [hd] at hx
    | some d =>
      cases hb : d.getBlock 6 with
      | none => simp [hd, hb] at hx
      | some b => exact ⟨r, hr, d, b, hd, hb, by simpa [hd, hb] using hx⟩
  · rintro ⟨r, hr, d, b, hd, hb, he⟩
    exact ⟨r, hr, by simp [l6Of, hd, hb, he]⟩

theorem l6_list_nodup (l : List Rpu) : (summary l).l6.Nodup := by
  rw [summary_l6]; exact uniq_nodup _

/-- the mastering-display (source min/max PQ) pairs of the summary: exactly the pairs of the frames with DM data,
without duplicates -/
theorem mem_source_pq_iff (l : List Rpu) (x : Int × Int) :
    x ∈ (summary l).sourcePq ↔
      ∃ r ∈ l, ∃ d, r.vdr_dm_data = some d ∧ (d.main.getD 29 0, d.main.getD 30 0) = x := by
  rw [summary_src, (List.mergeSort_perm _ _).mem_iff, mem_uniq, List.mem_filterMap]
  constructor
  · rintro ⟨r, hr, hx⟩
    unfold srcOf at hx
    cases hd : r.vdr_dm_data with
    | none => simp [hd] at hx
    | some d => exact ⟨r, hr, d, hd, by simpa [srcOf, hd] using hx⟩
  · rintro ⟨r, hr, d, hd, he⟩
    exact ⟨r, hr, by simp only [srcOf, hd, Option.map_some, he]⟩

theorem source_pq_nodup (l : List Rpu) : (summary l).sourcePq.Nodup := by
  rw [summary_src, (List.mergeSort_perm _ _).nodup_iff]; exact uniq_nodup _

/-- **dm_version_counts** — the DM-version line: with `v1` = number of frames with a CM v2.9 container and `v2` =
number of frames with a CM v4.0 container, the summary says "2 (CM v4.0)" when `v2 = v1`, "1 (CM v2.9)" when
`v2 = 0 ≠ v1`, and otherwise "1 + 2" with the two counts -/
theorem dm_version_counts (l : List Rpu) :
    ((summary l).dmCounts, (summary l).dmVersion) =
      if v2Count l = v1Count l then (none, "2 (CM v4.0)")
      else if v2Count l = 0 then (none, "1 (CM v2.9)")
      else (some (v1Count l, v2Count l), "1 + 2 (CM 2.9 and 4.0)") :=
  summary_dm l

/-- … and when every frame with DM data has a CM v2.9 container (true of every parsed RPU) the first count is
the number of frames with DM data, which the two kinds partition: frames with CM v2.9 only + frames with CM v4.0 -/
theorem dm_version_counts_partition (l : List Rpu)
    (h : ∀ r ∈ l, ∀ d, r.vdr_dm_data = some d → d.cmv29.isSome = true) :
    v1Count l = (l.filter fun r => r.vdr_dm_data.isSome).length ∧
    (l.filter fun r => hasCm29 r && !hasCm40 r).length + v2Count l = v1Count l ∧ v2Count l ≤ v1Count l :=
  dm_counts_partition l h

/-- **profiles** — the numbers in the profile line (`uniqSorted` of the per-frame `dovi_profile`; the line is
`"Profile: "`/`"Profiles: "` + these joined by `", "`) are exactly the distinct profiles of the frames, ascending -/
theorem summary_profiles_list (l : List Rpu) :
    (∀ p, p ∈ uniqSorted (l.map (·.dovi_profile)) ↔ ∃ r ∈ l, r.dovi_profile = p) ∧
    (uniqSorted (l.map (·.dovi_profile))).Pairwise (· < ·) := by
  refine ⟨fun p => ?_, uniqSorted_ascending _⟩
  rw [mem_uniqSorted, List.mem_map]

/-- the profile line when no frame is profile 7 (more precisely: when the digit 7 does not occur in it) -/
theorem summary_profiles_str (l : List Rpu)
    (h7 : (joinComma ((uniqSorted (l.map (·.dovi_profile))).map toString)).toList.contains '7' = false) :
    (summary l).profiles =
      (if ((joinComma ((uniqSorted (l.map (·.dovi_profile))).map toString)).splitOn ", ").length > 1
       then "Profiles: " else "Profile: ") ++ joinComma ((uniqSorted (l.map (·.dovi_profile))).map toString) := by
  refine summary_cases l (fun s => s.profiles = _) (fun _ _ => ?_)
  simp only [profilesStr, h7, Bool.false_eq_true, if_false]

/-- non-vacuity: a mixed list (CM v2.9 + CM v4.0 frames, two L2 targets, one L6, L1 on one frame) -/
example :
    let f (bs : List Block) (c40 : Option Container) : Rpu :=
      { dovi_profile := 8, vdr_dm_data := some { cmv29 := some { num_ext_blocks := bs.length, blocks := bs }, cmv40 := c40 } }
    let l := [f [{ level := 1, length := 5, vals := [0, 3000, 1500] }, { level := 2, length := 11, vals := [2081, 0, 0, 0, 0, 0, 0] }] none,
              f [{ level := 2, length := 11, vals := [2851, 0, 0, 0, 0, 0, 0] }, { level := 6, length := 8, vals := [1000, 1, 800, 400] }] (some {}),
              { dovi_profile := 5 }]
    (summary l).maxL1 = (0, 3000, 1500) ∧ (summary l).l2Targets = [2081, 2851] ∧ (summary l).l6 = [[1000, 1, 800, 400]] ∧
    (summary l).dmCounts = some (2, 1) := by decide

end Dovi.C16
