import DoviModel.Proofs.Split
import DoviModel.Proofs.Esc
/-! # C07 — model theorems are added here as the stream-level model (M7/M8) is completed -/
namespace Dovi.C07
open Dovi Dovi.Split

/-- both layers are read through the same chunked reader: the NAL list each layer contributes does not depend
on where its read boundaries fall -/
theorem layer_chunking_irrelevant (cs cs' : List Bytes) (l l' : Bytes)
    (h : cs.flatten ++ l = cs'.flatten ++ l') : run [] cs l = run [] cs' l' := by
  rw [run_eq_split, run_eq_split]; simp [h]

end Dovi.C07
