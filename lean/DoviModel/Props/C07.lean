import DoviModel.Proofs.Split
import DoviModel.Proofs.Esc
import DoviModel.Proofs.Hevc
/-!
# C07 — RPU k belongs to displayed frame k, for both extract-rpu and inject-rpu

Theorems about the model `Model/Hevc.lean` (`extract`, `inject`), which `./check C07` ties to the real CLI on
every generated stream (driver ops `hevc.extract`, `hevc.inject`).  The frame labels of hevc_parser
(`Item.au`, `pres`, `nFrames`) and the library's RPU rewrite (`conv`) are parameters: the theorems hold for
every value of them that satisfies the stated hypotheses.

`nFrames` also decides what `finalize` does with the last frame buffer: hevc_parser labels the NALs that follow the
last slice of a stream (an AUD, a prefix SEI, parameter sets …) with the frame count, and inject-rpu does not write
a last buffer with that number.  The theorems that say "every NAL is kept" therefore carry the hypothesis
`hfr : ∀ it ∈ items, it.au < nFrames` (every NAL belongs to a frame that has a slice); `inject_drops_trailing_nals`
says what happens otherwise.
-/
namespace Dovi.C07
open Dovi Dovi.Split Dovi.Hevc

/-- both layers are read through the same chunked reader: the NAL list each layer contributes does not depend
on where its read boundaries fall -/
theorem layer_chunking_irrelevant (cs cs' : List Bytes) (l l' : Bytes)
    (h : cs.flatten ++ l = cs'.flatten ++ l') : run [] cs l = run [] cs' l' := by
  rw [run_eq_split, run_eq_split]; simp [h]

/-! ## extract-rpu -/

/-- The RPUs extract-rpu collects are, in stream (= decode) order, exactly the RPU NALs of the input without
their 2-byte header — each rewritten by the library when a mode is set, the command failing iff the library
refuses one — for every stream in which no RPU is attributed to the same (non-zero) frame as the RPU before
it (`NoDupFrom`; implied by "at most one RPU per access unit", `noDupFrom_of_pairwise`). -/
theorem extract_collects_decode_order (c : Cfg) (conv : Bytes → Option Bytes) (items : List Item)
    (hsl : c.sl = false) (hdrop : c.drop = false) (hrpu : c.rpu = true) (hnd : NoDupFrom 0 (rpuAus items)) :
    (general c conv items).map (fun s => s.rpu) =
      optMap (fun it => (rpuConv c.convSet conv it.data).map (fun m => m.drop 2)) (items.filter isRpu) :=
  run_rpu_spec c conv {} items hsl hdrop hrpu hnd

/-- **RPU k of the file belongs to the frame displayed k-th.**  If every frame carries one RPU (`rs`, decode
order, as many as frames) and `pres` (decode index ↦ presentation number) permutes `0..n-1`, then the file
extract-rpu writes has `n` entries and its entry number `pres k` is the RPU of the frame decoded `k`-th. -/
theorem extract_display_order (pres : Nat → Nat) (n : Nat) (c : Cfg) (conv : Bytes → Option Bytes)
    (items : List Item) (rs : List Bytes) (hsl : c.sl = false) (hdrop : c.drop = false) (hrpu : c.rpu = true)
    (hnd : NoDupFrom 0 (rpuAus items))
    (hrs : optMap (fun it => (rpuConv c.convSet conv it.data).map (fun m => m.drop 2)) (items.filter isRpu) = some rs)
    (hn : n ≠ 0) (hlen : rs.length = n) (hperm : ((List.range n).map pres).Perm (List.range n)) :
    ∃ out, extract pres n c conv items = some out ∧ out.length = n ∧ ∀ k, k < n → out[pres k]? = rs[k]? :=
  extract_of_rpus pres n c conv items rs hsl hdrop hrpu hnd hrs hn hlen hperm

/-- **… stated on frames.**  The hypothesis that was only in the comment above, made explicit: when the RPUs of
the stream are attributed to the frames `0, 1, …, n-1` in this order (`rpuAus items = List.range n`: every frame
carries exactly one RPU), entry number `pres k` of the written file is the RPU NAL attributed to frame `k` (its
payload without the 2-byte header, rewritten by the library when a mode is set) — the k-th RPU of the output
belongs to the frame displayed k-th. -/
theorem extract_display_order_by_frame (pres : Nat → Nat) (n : Nat) (c : Cfg) (conv : Bytes → Option Bytes)
    (items : List Item) (rs : List Bytes) (hsl : c.sl = false) (hdrop : c.drop = false) (hrpu : c.rpu = true)
    (hau : rpuAus items = List.range n)
    (hrs : optMap (fun it => (rpuConv c.convSet conv it.data).map (fun m => m.drop 2)) (items.filter isRpu) = some rs)
    (hn : n ≠ 0) (hperm : ((List.range n).map pres).Perm (List.range n)) :
    ∃ out, extract pres n c conv items = some out ∧ out.length = n ∧
      ∀ k, k < n → ∃ it, it ∈ items ∧ isRpu it = true ∧ it.au = k ∧
        (rpuConv c.convSet conv it.data).map (fun m => m.drop 2) = out[pres k]? := by
  have hlenf : (items.filter isRpu).length = n := by
    have := congrArg List.length hau
    simpa [rpuAus] using this
  have hlen : rs.length = n := by rw [optMap_length _ _ _ hrs, hlenf]
  have hnd : NoDupFrom 0 (rpuAus items) := by
    rw [hau]
    have : ∀ (m a : Nat), NoDupFrom (if a = 0 then 0 else a - 1) ((List.range' a m)) := by
      intro m
      induction m with
      | zero => intro a; trivial
      | succ m ih =>
        intro a
        simp only [List.range'_succ, NoDupFrom]
        refine ⟨?_, ?_⟩
        · by_cases ha : a = 0
          · left; simp [ha]
          · right; simp [ha]; omega
        · have := ih (a + 1)
          simpa using this
    have h0 := this n 0
    simpa [List.range_eq_range'] using h0
  obtain ⟨out, ho, hol, hk⟩ := extract_display_order pres n c conv items rs hsl hdrop hrpu hnd hrs hn hlen hperm
  refine ⟨out, ho, hol, ?_⟩
  intro k hkn
  have hk' : k < (items.filter isRpu).length := by omega
  have hmem : (items.filter isRpu)[k] ∈ items.filter isRpu := List.getElem_mem hk'
  refine ⟨(items.filter isRpu)[k], (List.mem_filter.mp hmem).1, (List.mem_filter.mp hmem).2, ?_, ?_⟩
  · have h1 : (rpuAus items)[k]? = some k := by rw [hau]; simp [hkn]
    simp only [rpuAus, List.getElem?_map] at h1
    rw [List.getElem?_eq_getElem hk'] at h1
    simpa using h1
  · rw [hk k hkn]
    have := optMap_getElem _ _ _ hrs k hk'
    simpa using this

/-- the sort is by presentation number and stable, for any `pres` (also when frames lack RPUs and the
k-th RPU is therefore matched with frame k — what the tool does, see the model) -/
theorem extract_sorted_by_presentation (pres : Nat → Nat) (rs : List Bytes) :
    (sortK (keyed pres 0 rs)).Perm (keyed pres 0 rs) ∧ SortedK (sortK (keyed pres 0 rs)) :=
  ⟨sortK_perm _, sortK_sorted _⟩

/-! ## inject-rpu -/

/-- **Placement.**  A written frame consists of the frame's NALs other than its old RPU (led by the
regenerated AUD unless --no-add-aud), with the new RPU placed after all of them except a trailing run of
EOS/EOB NALs: `pre ++ RPU :: post` where `pre ++ post` is that NAL list, `post` holds only EOS/EOB and `pre`
does not end in one. -/
theorem inject_places_rpu (c : ICfg) (aud : Nat → Bytes) (r : Bytes) (fr : Nat × List Item) :
    (frameOut c aud r fr).map pay = preEos (injBody c aud fr) ++ (NAL_UNSPEC62, r) :: postEos (injBody c aud fr) ∧
    preEos (injBody c aud fr) ++ postEos (injBody c aud fr) = injBody c aud fr ∧
    (∀ x ∈ postEos (injBody c aud fr), isEos x.1 = true) ∧
    (∀ x, (preEos (injBody c aud fr)).getLast? = some x → isEos x.1 = false) :=
  ⟨withSc_pay _ _, pre_post_append _, postEos_all _, preEos_last _⟩

/-- **Which RPU.**  With a list that covers every frame, inject-rpu succeeds and writes, frame buffer by
frame buffer in stream order, `frameOut` with the list entry number `pres au` — for every stream in which every
NAL belongs to a frame (`hfr`: no NAL labelled with the frame count, i.e. none behind the last slice) and
each frame holds a NAL that is neither an RPU nor EOS/EOB (a slice, in a video). -/
theorem inject_spec (c : ICfg) (aud : Nat → Bytes) (pres : Nat → Nat) (nFrames : Nat) (rpus : List Bytes)
    (items : List Item) (hd : c.drop = false) (hn : nFrames ≠ 0) (hi : items ≠ [])
    (hfr : ∀ it ∈ items, it.au < nFrames)
    (hr : ∀ fr ∈ frames (keepAud c items), pres fr.1 < rpus.length)
    (hb : ∀ fr ∈ frames (keepAud c items), preEos (injBody0 fr) ≠ []) :
    inject c aud pres nFrames rpus items =
      some ((frames (keepAud c items)).flatMap (fun fr => frameOut c aud (rpus.getD (pres fr.1) []) fr)) :=
  inject_matched c aud pres nFrames rpus items hd hn hi hfr hr hb

/-- **Every other NAL unchanged and in order.**  For any class `q` of NAL types that excludes the RPUs (and
the AUDs, unless --no-add-aud), the NALs of that class read the same, bytes and order, before and after — in a
stream whose every NAL belongs to a frame (`hfr`; NALs behind the last slice are lost:
`inject_drops_trailing_nals`). -/
theorem inject_keeps_other_nals (c : ICfg) (aud : Nat → Bytes) (pres : Nat → Nat) (nFrames : Nat)
    (rpus : List Bytes) (items : List Item) (out : List Out) (hd : c.drop = false) (hn : nFrames ≠ 0)
    (hi : items ≠ []) (hfr : ∀ it ∈ items, it.au < nFrames)
    (hr : ∀ fr ∈ frames (keepAud c items), pres fr.1 < rpus.length)
    (hb : ∀ fr ∈ frames (keepAud c items), preEos (injBody0 fr) ≠ [])
    (hout : inject c aud pres nFrames rpus items = some out)
    (q : Nat → Bool) (hq : q NAL_UNSPEC62 = false) (ha : c.noAddAud = true ∨ q NAL_AUD = false) :
    (out.map pay).filter (fun x => q x.1) = (items.map payI).filter (fun x => q x.1) := by
  rw [inject_matched c aud pres nFrames rpus items hd hn hi hfr hr hb] at hout
  simp only [Option.some.injEq] at hout
  rw [← hout]
  exact inject_conserves c aud pres rpus items q hq ha

/-- **Exactly one RPU per frame, existing ones replaced.**  The RPUs of the output, in stream order, are the
list entries `pres au` of the successive frames — whatever RPUs the input carried. -/
theorem inject_one_rpu_per_frame (c : ICfg) (aud : Nat → Bytes) (pres : Nat → Nat) (nFrames : Nat)
    (rpus : List Bytes) (items : List Item) (out : List Out) (hd : c.drop = false) (hn : nFrames ≠ 0)
    (hi : items ≠ []) (hfr : ∀ it ∈ items, it.au < nFrames)
    (hr : ∀ fr ∈ frames (keepAud c items), pres fr.1 < rpus.length)
    (hb : ∀ fr ∈ frames (keepAud c items), preEos (injBody0 fr) ≠ [])
    (hout : inject c aud pres nFrames rpus items = some out) :
    (out.map pay).filter (fun x => x.1 == NAL_UNSPEC62) =
      (frames (keepAud c items)).map (fun fr => (NAL_UNSPEC62, rpus.getD (pres fr.1) [])) := by
  rw [inject_matched c aud pres nFrames rpus items hd hn hi hfr hr hb] at hout
  simp only [Option.some.injEq] at hout
  rw [← hout]
  exact inject_rpus c aud pres rpus _

/-- **List shorter than the video: the tool's choice.**  A frame whose presentation number lies beyond the
list receives the RPU written last (in decode order) — `last_metadata_written` — and the command fails when
nothing was written yet.  (The property accepts any member of the list; `./check C07` records which.) -/
theorem inject_shorter_list_choice (c : ICfg) (aud : Nat → Bytes) (pres : Nat → Nat) (nFrames : Nat) (rpus : List Bytes)
    (last : Option Bytes) (final : Bool) (fr : Nat × List Item) (hlt : fr.1 < nFrames)
    (hnone : rpus[pres fr.1]? = none) (hb : preEos (injBody0 fr) ≠ []) :
    injectFrame c aud pres nFrames rpus true last final fr =
      match last with
      | some r => some (frameOut c aud r fr, some r)
      | none => none := by
  have hb0 : injBody0 fr ≠ [] := by
    intro h; rw [h] at hb; simp [preEos] at hb
  have hpre : preEos (injBody c aud fr) ≠ [] := by
    rw [preEos_ne_nil_iff] at hb ⊢
    obtain ⟨y, hy, hye⟩ := hb
    refine ⟨y, ?_, hye⟩
    unfold injBody; split
    · exact hy
    · exact List.mem_cons_of_mem _ hy
  unfold injectFrame
  simp only [if_pos hlt, hnone, if_true]
  have e0 : (List.map payI (List.filter (fun it => decide (it.typ ≠ NAL_UNSPEC62)) fr.2)) = injBody0 fr := rfl
  rw [e0, if_neg (by intro h; rcases h.2 with h | h; exact absurd h (by omega); exact hb0 h),
    if_neg (by intro h; have := h.2; omega)]
  have e1 : (if c.noAddAud = true then injBody0 fr else (NAL_AUD, aud fr.1) :: injBody0 fr) = injBody c aud fr := rfl
  simp only [e1]
  cases last with
  | none => rfl
  | some r => simp only [if_neg hpre]; rfl

/-- **NALs behind the last slice are dropped.**  hevc_parser labels the NALs that follow the last slice of the
stream and would open a new access unit (an AUD, a prefix SEI, VPS/SPS/PPS …) with the frame count; they form the
last frame buffer, and `finalize` does not write a last buffer with that number.  For `items` as in the theorems
above (every NAL belongs to a frame; the last frame buffer holds a NAL other than an RPU) followed by any such
`tail`, inject-rpu writes exactly what it writes for `items` alone: no NAL of `tail` reaches the output (also
under --no-add-aud, also parameter sets), no RPU is written for them, the exit status is the same. -/
theorem inject_drops_trailing_nals (c : ICfg) (aud : Nat → Bytes) (pres : Nat → Nat) (nFrames : Nat)
    (rpus : List Bytes) (items tail : List Item) (hd : c.drop = false)
    (hfr : ∀ it ∈ items, it.au < nFrames) (htail : ∀ it ∈ tail, it.au = nFrames)
    (hlast : ∀ fr, (frames (keepAud c items)).getLast? = some fr → injBody0 fr ≠ []) :
    inject c aud pres nFrames rpus (items ++ tail) = inject c aud pres nFrames rpus items :=
  inject_trailing_dropped c aud pres nFrames rpus items tail hd hfr htail hlast

/-- **extract(inject(rpus)) = rpus.**  For a stream whose frame buffers are numbered `0..n-1` in stream order,
a list of `n` RPUs and a `pres` that permutes `0..n-1`: whatever frame labels the injected stream is read
back with (as long as its RPUs are not taken for duplicates), extract-rpu returns the injected list. -/
theorem extract_inject_id (c : ICfg) (aud : Nat → Bytes) (pres : Nat → Nat) (n : Nat) (rpus : List Bytes)
    (items : List Item) (out : List Out) (its2 : List Item)
    (hd : c.drop = false) (hn : n ≠ 0) (hi : items ≠ []) (hlen : rpus.length = n)
    (hperm : ((List.range n).map pres).Perm (List.range n))
    (hlab : (frames (keepAud c items)).map (·.1) = List.range n)
    (hb : ∀ fr ∈ frames (keepAud c items), preEos (injBody0 fr) ≠ [])
    (hout : inject c aud pres n rpus items = some out)
    (hits : its2.map payI = out.map pay) (hnd : NoDupFrom 0 (rpuAus its2)) (conv : Bytes → Option Bytes) :
    extract pres n cfgExtract conv its2 = some (rpus.map (fun r => r.drop 2)) :=
  Hevc.extract_inject_id c aud pres n rpus items out its2 hd hn hi hlen hperm hlab hb hout hits hnd conv

/-! ## non-vacuity: a three-frame stream decoded I P B, displayed I B P -/

/-- every frame: [AUD] slice [EL] [suffix SEI] RPU, the last one closed by EOS -/
def exItems : List Item :=
  [⟨35, [0x46, 1, 0x10], 0⟩, ⟨19, [0x26, 1, 0xAA], 0⟩, ⟨63, [0x7E, 1, 0x02, 0x01], 0⟩, ⟨62, [0x7C, 1, 0x19, 0xA0], 0⟩,
   ⟨1, [0x02, 1, 0xBB], 1⟩, ⟨62, [0x7C, 1, 0x19, 0xA1], 1⟩,
   ⟨1, [0x02, 1, 0xCC], 2⟩, ⟨40, [0x50, 1, 5, 1, 7, 0x80], 2⟩, ⟨62, [0x7C, 1, 0x19, 0xA2], 2⟩, ⟨36, [0x48, 1], 2⟩]

def exPres : Nat → Nat := fun k => [0, 2, 1].getD k 0
def exAud : Nat → Bytes := fun k => [[0x46, 1, 0x10], [0x46, 1, 0x30], [0x46, 1, 0x50]].getD k []
def exRpus : List Bytes := [[0x7C, 1, 0x19, 0xB0], [0x7C, 1, 0x19, 0xB1], [0x7C, 1, 0x19, 0xB2]]

/-- the hypotheses of `extract_display_order` hold and the reordering is visible: file = RPU of frame 0, 2, 1 -/
example : NoDupFrom 0 (rpuAus exItems) ∧ ((List.range 3).map exPres).Perm (List.range 3) ∧
    extract exPres 3 cfgExtract (fun _ => none) exItems = some [[0x19, 0xA0], [0x19, 0xA2], [0x19, 0xA1]] := by decide

/-- the hypotheses of `inject_spec` / `extract_inject_id` hold on it … -/
example : (frames (keepAud {} exItems)).map (·.1) = List.range 3 ∧
    (∀ fr ∈ frames (keepAud {} exItems), preEos (injBody0 fr) ≠ []) ∧
    (∀ fr ∈ frames (keepAud {} exItems), exPres fr.1 < exRpus.length) := by decide

/-- … and the injected stream: regenerated AUDs, old RPUs replaced by entry `pres au`, RPU in front of the EOS -/
example : (inject {} exAud exPres 3 exRpus exItems).map (fun o => o.map pay) = some
    [(35, [0x46, 1, 0x10]), (19, [0x26, 1, 0xAA]), (63, [0x7E, 1, 0x02, 0x01]), (62, [0x7C, 1, 0x19, 0xB0]),
     (35, [0x46, 1, 0x30]), (1, [0x02, 1, 0xBB]), (62, [0x7C, 1, 0x19, 0xB2]),
     (35, [0x46, 1, 0x50]), (1, [0x02, 1, 0xCC]), (40, [0x50, 1, 5, 1, 7, 0x80]), (62, [0x7C, 1, 0x19, 0xB1]), (36, [0x48, 1])] := by
  decide

/-- a list of two RPUs for the three frames: the frame displayed third (decoded second) repeats the RPU
written last before it, here entry 0 — not the last entry of the list -/
example : ((inject {} exAud exPres 3 (exRpus.take 2) exItems).map (fun o => (o.map pay).filter (fun x => x.1 == 62))) = some
    [(62, [0x7C, 1, 0x19, 0xB0]), (62, [0x7C, 1, 0x19, 0xB0]), (62, [0x7C, 1, 0x19, 0xB1])] := by decide

/-- the stream above followed by an AUD and a prefix SEI (both labelled 3 = the frame count by hevc_parser): with
--no-add-aud, which keeps the stream's own AUDs, neither reaches the output — it is that of the stream alone -/
def exTail : List Item := [⟨35, [0x46, 1, 0x50], 3⟩, ⟨39, [0x4E, 1, 5, 1, 7, 0x80], 3⟩]

example : inject { noAddAud := true } exAud exPres 3 exRpus (exItems ++ exTail) =
    inject { noAddAud := true } exAud exPres 3 exRpus exItems ∧
    ((inject { noAddAud := true } exAud exPres 3 exRpus (exItems ++ exTail)).map (fun o => o.map (·.typ))) =
      some [35, 19, 63, 62, 1, 62, 1, 40, 62, 36] := by decide

/-- a trailing AUD alone, AUDs regenerated: no fourth AUD, no fourth RPU -/
example : ((inject {} exAud exPres 3 exRpus (exItems ++ exTail.take 1)).map (fun o => o.map (·.typ))) =
    some [35, 19, 63, 62, 35, 1, 62, 35, 1, 40, 62, 36] := by decide

/-- the hypotheses of `inject_drops_trailing_nals` hold on it -/
example : (∀ it ∈ exItems, it.au < 3) ∧ (∀ it ∈ exTail, it.au = 3) ∧
    (∀ fr, (frames (keepAud { noAddAud := true } exItems)).getLast? = some fr → injBody0 fr ≠ []) := by
  refine ⟨by decide, by decide, ?_⟩
  intro fr h
  have : (frames (keepAud { noAddAud := true } exItems)).getLast? =
      some (2, [⟨1, [0x02, 1, 0xCC], 2⟩, ⟨40, [0x50, 1, 5, 1, 7, 0x80], 2⟩, ⟨62, [0x7C, 1, 0x19, 0xA2], 2⟩, ⟨36, [0x48, 1], 2⟩]) := by
    decide
  rw [this] at h
  simp only [Option.some.injEq] at h
  subst h
  decide

end Dovi.C07
