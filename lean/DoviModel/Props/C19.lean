import DoviModel.Proofs.PqReal
import DoviModel.Gen.SourceRules
/-!
# C19 — PQ ↔ nits conversions are exact inverses on code values and match ST 2084

`Dovi.Pq.nitsToPq`, `Dovi.Pq.pqToNits` (`Proofs/PqReal.lean`) are `nits_to_pq`, `pq_to_nits` of
`dolby_vision/src/utils.rs` over ℝ.  `Dovi.PqTable.codeOfNits`, `codeOfMinLum`, `nitsRound100`, `nitsRound1000`
(`Model/PqTable.lean`) are the integer tables the model driver answers from; the theorems below say that these
tables are the correctly rounded values of the real functions, with a margin of `mu = 10⁻⁶` code units that the
`f64` implementation is then *checked* (exhaustively, not proved) to stay within.

The finite parts are closed by `decide +kernel` over integer certificates (`Proofs/PqCert.lean`) and lifted to ℝ
by `nitsToPq_lt_of_certLt` / `nitsToPq_gt_of_certGt`.
-/
namespace Dovi.C19
open Dovi.Pq Dovi.PqTable

/-- both conversions are strictly increasing (nits → PQ on all of `[0, ∞)`; PQ → nits wherever the clamp of
`pq_to_nits` is inactive, `[c1^m2, 1]`), and PQ → nits is non-decreasing on all of `(-∞, 1]` -/
theorem pq_strictMono :
    (∀ a b : ℝ, 0 ≤ a → a < b → nitsToPq a < nitsToPq b) ∧
    (∀ a b : ℝ, Pq.c1 ^ Pq.m2 ≤ a → a < b → b ≤ 1 → pqToNits a < pqToNits b) ∧
    (∀ a b : ℝ, a ≤ b → b ≤ 1 → pqToNits a ≤ pqToNits b) :=
  ⟨fun _ _ ha hab => nitsToPq_strictMono ha hab, fun _ _ ha hab hb => pqToNits_strictMono ha hab hb,
   fun _ _ hab hb => pqToNits_mono hab hb⟩

/-- non-vacuity: the range `[c1^m2, 1]` contains every code value `c/4095`, `c ≥ 1` -/
example : Pq.c1 ^ Pq.m2 ≤ (1 : ℝ) / 4095 ∧ (1 : ℝ) / 4095 < 1 ∧ (1 : ℝ) ≤ 1 := by
  refine ⟨?_, by norm_num, le_refl _⟩
  have := (code_in_inv_range (c := 1) (le_refl _) (by norm_num)).1
  simpa using this

/-- the two conversions are mutually inverse: nits → PQ → nits on every luminance `≥ 0`; PQ → nits → PQ on
`[c1^m2, 1]` (every PQ value from code 0.003 up to code 4095) -/
theorem pq_inverse :
    (∀ v : ℝ, 0 ≤ v → pqToNits (nitsToPq v) = v) ∧
    (∀ x : ℝ, Pq.c1 ^ Pq.m2 ≤ x → x ≤ 1 → nitsToPq (pqToNits x) = x) :=
  ⟨fun _ hv => pqToNits_nitsToPq hv, fun _ h1 h2 => nitsToPq_pqToNits h1 h2⟩

example : Pq.c1 ^ Pq.m2 ≤ (1 : ℝ) ∧ (1 : ℝ) ≤ 1 :=
  ⟨by have := (code_in_inv_range (c := 4095) (by norm_num) (le_refl _)).1; simpa using this, le_refl _⟩

/-- end points: 10000 nits ↔ PQ 1 (code 4095); PQ 0 → 0 nits by the `x > 0` branch; 0 nits → PQ `c1^m2`, whose
code value `4095·c1^m2 ≈ 0.003` rounds to code 0; the table ends are 0 and 4095 -/
theorem pq_endpoints :
    nitsToPq 10000 = 1 ∧ pqToNits 1 = 10000 ∧ pqToNits 0 = 0 ∧
    |4095 * nitsToPq 0 - 0| < 1 / 2 ∧ 4095 * nitsToPq 10000 = 4095 ∧
    codeOfNits 0 = 0 ∧ codeOfNits 10000 = 4095 ∧ codeOfMinLum 0 = 0 := by
  refine ⟨nitsToPq_yMax, pqToNits_one, pqToNits_zero, ?_, by rw [nitsToPq_yMax]; norm_num,
    by decide +kernel, by decide +kernel, by decide +kernel⟩
  rw [nitsToPq_zero, sub_zero, abs_of_nonneg (by have := Real.rpow_pos_of_pos c1_pos Pq.m2; positivity)]
  have := c1_rpow_m2_lt
  linarith

/-- **the table of integer nits is the correctly rounded ST 2084 code**, with margin `mu = 10⁻⁶` -/
theorem pq_table_certified :
    ∀ n : ℕ, n ≤ 10000 → |4095 * nitsToPq n - codeOfNits n| < 1 / 2 - 1 / 1000000 :=
  fun _ hn => nits_table_certified hn

example : (5000 : ℕ) ≤ 10000 := by norm_num

/-- the same for the min-luminance grid `k/10000` nits, `k = 0..10000` -/
theorem pq_minlum_certified :
    ∀ k : ℕ, k ≤ 10000 → |4095 * nitsToPq ((k : ℝ) / 10000) - codeOfMinLum k| < 1 / 2 - 1 / 1000000 :=
  fun _ hk => minLum_table_certified hk

/-- the standard anchors (and the fixed values of `source_meta_from_l6`: 2000 → 3388, 10000 → 4095,
0.0001 nits → 7, 0.005 nits → 62) -/
theorem anchors :
    |4095 * nitsToPq 100 - 2081| < 1 / 2 ∧ |4095 * nitsToPq 600 - 2851| < 1 / 2 ∧
    |4095 * nitsToPq 1000 - 3079| < 1 / 2 ∧ |4095 * nitsToPq 4000 - 3696| < 1 / 2 ∧
    |4095 * nitsToPq 2000 - 3388| < 1 / 2 ∧ |4095 * nitsToPq 10000 - 4095| < 1 / 2 ∧
    |4095 * nitsToPq (1 / 10000) - 7| < 1 / 2 ∧ |4095 * nitsToPq (50 / 10000) - 62| < 1 / 2 := by
  have e100 : codeOfNits 100 = 2081 := by decide +kernel
  have e600 : codeOfNits 600 = 2851 := by decide +kernel
  have e1000 : codeOfNits 1000 = 3079 := by decide +kernel
  have e4000 : codeOfNits 4000 = 3696 := by decide +kernel
  have e2000 : codeOfNits 2000 = 3388 := by decide +kernel
  have e10000 : codeOfNits 10000 = 4095 := by decide +kernel
  have em1 : codeOfMinLum 1 = 7 := by decide +kernel
  have em50 : codeOfMinLum 50 = 62 := by decide +kernel
  have hmu : mu = 1 / 1000000 := rfl
  have h100 := nits_table_certified (n := 100) (by norm_num)
  have h600 := nits_table_certified (n := 600) (by norm_num)
  have h1000 := nits_table_certified (n := 1000) (by norm_num)
  have h4000 := nits_table_certified (n := 4000) (by norm_num)
  have h2000 := nits_table_certified (n := 2000) (by norm_num)
  have h10000 := nits_table_certified (n := 10000) (by norm_num)
  have k1 := minLum_table_certified (k := 1) (by norm_num)
  have k50 := minLum_table_certified (k := 50) (by norm_num)
  rw [e100] at h100; rw [e600] at h600; rw [e1000] at h1000; rw [e4000] at h4000
  rw [e2000] at h2000; rw [e10000] at h10000; rw [em1] at k1; rw [em50] at k50
  push_cast at h100 h600 h1000 h4000 h2000 h10000 k1 k50
  refine ⟨?_, ?_, ?_, ?_, ?_, ?_, ?_, ?_⟩ <;> linarith

/-- every real luminance in the certified bracket `[brLo c, brHi c]` of a code `c` (ends at the tie-point
witnesses `c ∓ 1/2 ± 3·10⁻⁶`) has exact code value within `1/2 - 10⁻⁶` of `c`; this is what `codeOfRat` (the
model's answer for an arbitrary `f64` luminance) relies on -/
theorem code_bracket :
    ∀ c : ℕ, c ≤ 4095 → ∀ v : ℝ, 0 ≤ v → v ≤ 10000 → (c = 0 ∨ brLo c ≤ v) → (c = 4095 ∨ v ≤ brHi c) →
      |4095 * nitsToPq v - c| < 1 / 2 - 1 / 1000000 :=
  fun _ hc _ h0 h1 hlo hhi => code_of_real hc h0 h1 hlo hhi

example : (0 : ℕ) ≤ 4095 ∧ (0 : ℝ) ≤ 0 ∧ (0 : ℝ) ≤ 10000 ∧ ((0 : ℕ) = 0 ∨ brLo 0 ≤ 0) ∧ ((0 : ℕ) = 4095 ∨ (0 : ℝ) ≤ brHi 0) :=
  ⟨by norm_num, le_refl _, by norm_num, Or.inl rfl, Or.inr (brHi_nonneg 0)⟩

/-- `codeOfRat yn yd` (binary search + bracket check) only answers with a certified code -/
theorem codeOfRat_certified :
    ∀ yn yd c : ℕ, codeOfRat yn yd = some c →
      |4095 * nitsToPq (10000 * ((yn : ℝ) / yd)) - c| < 1 / 2 - 1 / 1000000 :=
  fun _ _ _ h => codeOfRat_sound h

example : codeOfRat 100 10000 = some 2081 := by decide +kernel

/-- code → nits → code over the reals: the exact luminance of every 12-bit code converts back to that code;
moreover (codes ≥ 1) it lies strictly inside the neighbouring tie-point witnesses, i.e. at least
`1/2 - 3·10⁻⁶` code units away from where the rounded code would change -/
theorem code_roundtrip_real :
    (∀ c : ℕ, c ≤ 4095 → |4095 * nitsToPq (pqToNits ((c : ℝ) / 4095)) - c| < 1 / 2) ∧
    (∀ c : ℕ, 1 ≤ c → c ≤ 4095 →
      brHi (c - 1) < pqToNits ((c : ℝ) / 4095) ∧ (c < 4095 → pqToNits ((c : ℝ) / 4095) < brLo (c + 1))) := by
  refine ⟨fun c hc => ?_, fun c h1 hc => pqToNits_code_between h1 hc⟩
  rcases Nat.eq_zero_or_pos c with h | h
  · subst h
    simp only [Nat.cast_zero, zero_div, pqToNits_zero, sub_zero]
    rw [nitsToPq_zero, abs_of_nonneg (by have := Real.rpow_pos_of_pos c1_pos Pq.m2; positivity)]
    have := c1_rpow_m2_lt
    linarith
  · rw [code_value_of_pqToNits hc h]; simp

/-- the integer tables are non-decreasing (as the real functions are) -/
theorem tables_monotone :
    (∀ n : ℕ, n < 10000 → codeOfNits n ≤ codeOfNits (n + 1)) ∧
    (∀ k : ℕ, k < 10000 → codeOfMinLum k ≤ codeOfMinLum (k + 1)) := by
  have h1 : allRange (fun n => decide (codeOfNits n ≤ codeOfNits (n + 1))) 0 10000 = true := by decide +kernel
  have h2 : allRange (fun n => decide (codeOfMinLum n ≤ codeOfMinLum (n + 1))) 0 10000 = true := by decide +kernel
  exact ⟨fun n hn => of_decide_eq_true (allRange_ok h1 (Nat.zero_le n) (by omega)),
         fun n hn => of_decide_eq_true (allRange_ok h2 (Nat.zero_le n) (by omega))⟩

/-- summary values derived from a code (`rpu_info.rs`): the nits of a code rounded to 100 nits (L2 trim targets)
and to 1000 nits (mastering display maximum) are the model's `nitsRound100`, `nitsRound1000`, never at a tie -/
theorem summary_rounding :
    (∀ c : ℕ, c ≤ 4095 → |pqToNits ((c : ℝ) / 4095) / 100 - nitsRound100 c| < 1 / 2) ∧
    (∀ c : ℕ, c ≤ 4095 → |pqToNits ((c : ℝ) / 4095) / 1000 - nitsRound1000 c| < 1 / 2) :=
  ⟨fun _ hc => round100_certified hc, fun _ hc => round1000_certified hc⟩

/-- the documented pairs: code 2081 ↦ 100 nits, 2851 ↦ 600, 3079 ↦ 1000, 3696 ↦ 4000, 4095 ↦ 10000 -/
example : nitsRound100 2081 = 1 ∧ nitsRound100 2851 = 6 ∧ nitsRound100 3079 = 10 ∧
    nitsRound1000 3079 = 1 ∧ nitsRound1000 3696 = 4 ∧ nitsRound1000 4095 = 10 := by decide +kernel


/-- **source tie**: the ST 2084 constants of utils.rs (`ST2084_M1 … C3`, `ST2084_Y_MAX`), evaluated as exact
fractions from the source text on every run, are the rationals the certified table and the real-number theorems use -/
theorem source_st2084_constants_agree :
    Dovi.Src.st2084_m1.1 * Dovi.PqTable.m1.2 = Dovi.PqTable.m1.1 * Dovi.Src.st2084_m1.2 ∧
    Dovi.Src.st2084_m2.1 * Dovi.PqTable.m2.2 = Dovi.PqTable.m2.1 * Dovi.Src.st2084_m2.2 ∧
    Dovi.Src.st2084_c1.1 * Dovi.PqTable.c1.2 = Dovi.PqTable.c1.1 * Dovi.Src.st2084_c1.2 ∧
    Dovi.Src.st2084_c2.1 * Dovi.PqTable.c2.2 = Dovi.PqTable.c2.1 * Dovi.Src.st2084_c2.2 ∧
    Dovi.Src.st2084_c3.1 * Dovi.PqTable.c3.2 = Dovi.PqTable.c3.1 * Dovi.Src.st2084_c3.2 ∧
    Dovi.Src.st2084_y_max = (10000, 1) := by decide

end Dovi.C19
