import DoviModel.Proofs.Split
import DoviModel.Proofs.Esc
import DoviModel.Proofs.Hevc
/-!
# C06 — mux and demux are inverse; layers stay frame-aligned

Theorems about the model `Hevc.mux` (BL frame buffer against the queue of EL frames, `Model/Hevc.lean`) and its
composition with `Hevc.general (cfgDemux ..)`.  `./check C06` ties the model to the real CLI on every generated
pair (driver ops `hevc.mux`, `hevc.general demux`), including the cases the property leaves open (EL shorter
than BL), where the model states what the tool does.  Frame labels (`Item.au`), the frame count of the BL
(`nFrames`), regenerated AUD bytes (`aud`) and RPU rewrites (`conv`) are parameters.

`nFrames` decides what `finalize` does with the last BL frame buffer: hevc_parser labels the NALs that follow the
last slice of a stream (an AUD, a prefix SEI, parameter sets …) with the frame count, and mux does not write a last
buffer with that number.  The theorems that say "every NAL is kept" therefore carry the hypothesis
`hfr : ∀ it ∈ bl, it.au < nFrames` (every BL NAL belongs to a frame that has a slice); `mux_drops_trailing_nals`
says what happens otherwise.
-/
namespace Dovi.C06
open Dovi Dovi.Split Dovi.Hevc

/-- both layers are read through the same chunked reader: the NAL list each layer contributes does not depend
on where its read boundaries fall -/
theorem layer_chunking_irrelevant (cs cs' : List Bytes) (l l' : Bytes)
    (h : cs.flatten ++ l = cs'.flatten ++ l') : Split.run [] cs l = Split.run [] cs' l' := by
  rw [run_eq_split, run_eq_split]; simp [h]

/-! ## frame alignment -/

/-- **Alignment.**  With as many EL frames as BL frames, mux succeeds without error and its output is, for
k = 0, 1, …, the muxed frame built from BL frame buffer k and EL frame k (`muxFrame`, structure below) —
for every pair of streams (every BL NAL belonging to a frame, `hfr`; the last BL frame buffer holding at least one
NAL that is kept). -/
theorem mux_alignment (c : MCfg) (aud : Nat → Bytes) (conv : Bytes → Option Bytes) (nFrames : Nat) (bl el : List Item)
    (els : List (List Out)) (hdrop : c.drop = false) (hels : elFrames c conv (runs el) = some els)
    (hlen : (frames bl).length = (runs el).length)
    (hfr : ∀ it ∈ bl, it.au < nFrames)
    (hlast : ∀ fr, (frames bl).getLast? = some fr → blBody c fr.2 ≠ []) :
    mux c aud conv nFrames bl el = some (((frames bl).zip els).flatMap (fun p => muxFrame c aud p.1 p.2), false) :=
  mux_aligned c aud conv nFrames bl el els hdrop hels hlen hfr hlast

/-- **Frame structure.**  A muxed frame is: the buffered BL NALs of the frame — led by exactly one regenerated
AUD unless --no-add-aud (`muxBody`; existing AUDs are not buffered then), UNSPEC62/63 NALs of the BL not carried
over — with its EOS/EOB NALs held back, then the EL frame, then the held-back EOS/EOB; with --eos-before-el all
BL NALs, then the EL frame. -/
theorem mux_frame_structure (c : MCfg) (aud : Nat → Bytes) (fr : Nat × List Item) (e : List Out) :
    (muxFrame c aud fr e).map pay =
      if c.eosBeforeEl then muxBody c aud fr ++ e.map pay
      else (muxBody c aud fr).filter (fun x => !isEos x.1) ++ e.map pay ++ (muxBody c aud fr).filter (fun x => isEos x.1) :=
  muxFrame_pay c aud fr e

/-- **EL frame.**  Every EL NAL is written wrapped as UNSPEC63 (`7E 01` in front of its bytes), the RPU as
itself or as its library rewrite, in the EL's order; with --discard only the RPU; the command fails iff the
library refuses an RPU. -/
theorem mux_el_frame_wrapped (c : MCfg) (conv : Bytes → Option Bytes) (l : List Item) :
    (elFrame c conv l).map (fun e => e.map pay) = (optMap (elPaySpec c conv) l).map List.flatten :=
  elFrame_pay c conv l

/-- with --discard only the RPU of the EL is kept -/
theorem mux_discard_keeps_only_rpu (c : MCfg) (conv : Bytes → Option Bytes) (l : List Item) (e : List Out)
    (hd : c.discard = true) (h : elFrame c conv l = some e) : ∀ o ∈ e, o.typ = NAL_UNSPEC62 := by
  induction l generalizing e with
  | nil => simp [elFrame] at h; subst h; simp
  | cons it rest ih =>
    simp only [elFrame] at h
    cases hn : elNal c conv it with
    | none => simp [hn] at h
    | some oo =>
      cases hr : elFrame c conv rest with
      | none => cases oo <;> simp [hn, hr] at h
      | some os =>
        cases oo with
        | none => simp [hn, hr] at h; subst h; exact ih os hr
        | some o =>
          simp [hn, hr] at h; subst h
          intro x hx
          rcases List.mem_cons.mp hx with rfl | hx
          · unfold elNal at hn
            split at hn
            · cases hn
            · rename_i hnot
              split at hn
              · rename_i h62; exact absurd ⟨hd, h62⟩ hnot
              · cases hc : (if c.convSet = true then conv it.data else some it.data) with
                | none => simp [hc] at hn
                | some m => simp only [hc, Option.some.injEq] at hn; subst hn; rfl
          · exact ih os hr x hx

/-- **EL longer than BL** must end with an error status and an output trimmed to the BL length: the aligned
interleave of the BL frames with the first EL frames, error flag set. -/
theorem mux_el_longer_errors (c : MCfg) (aud : Nat → Bytes) (conv : Bytes → Option Bytes) (nFrames : Nat) (bl el : List Item)
    (els : List (List Out)) (hdrop : c.drop = false) (hels : elFrames c conv (runs el) = some els)
    (hlen : (frames bl).length < (runs el).length)
    (hfr : ∀ it ∈ bl, it.au < nFrames)
    (hlast : ∀ fr, (frames bl).getLast? = some fr → blBody c fr.2 ≠ []) :
    mux c aud conv nFrames bl el = some (((frames bl).zip els).flatMap (fun p => muxFrame c aud p.1 p.2), true) :=
  mux_el_longer c aud conv nFrames bl el els hdrop hels hlen hfr hlast

/-- **BL NALs behind the last slice are dropped — and the last EL frame with them.**  hevc_parser labels the NALs
that follow the last slice of the BL and would open a new access unit (an AUD, a prefix SEI, VPS/SPS/PPS …) with
the frame count; they close the buffer of the last frame and form the last frame buffer themselves, which
`finalize` does not write.  For a BL `bl` whose every NAL belongs to a frame, followed by at least one such NAL
(`tail`), and as many EL frames as `bl` has frame buffers: the output is the aligned interleave of `bl` with the
EL in which the last EL frame is replaced by nothing — no NAL of `tail` is written (also under --no-add-aud), the
EL frame (and RPU) of the last picture is never written, and the exit status is 0. -/
theorem mux_drops_trailing_nals (c : MCfg) (aud : Nat → Bytes) (conv : Bytes → Option Bytes) (nFrames : Nat)
    (bl tail el : List Item) (els : List (List Out)) (hdrop : c.drop = false)
    (hels : elFrames c conv (runs el) = some els) (hlen : (frames bl).length = (runs el).length)
    (hn : nFrames ≠ 0) (hfr : ∀ it ∈ bl, it.au < nFrames)
    (htail : ∀ it ∈ tail, it.au = nFrames) (hne : tail ≠ []) :
    mux c aud conv nFrames (bl ++ tail) el =
      some (((frames bl).zip (els.dropLast ++ [[]])).flatMap (fun p => muxFrame c aud p.1 p.2), false) :=
  mux_trailing_dropped c aud conv nFrames bl tail el els hdrop hels hlen hn hfr htail hne

/-! ## inverses -/

/-- **demux(mux(BL, EL)) returns both layers' NAL payloads.**  Equal frame counts, no --discard, no mode:
whatever frame labels the muxed stream is read back with, demux's EL file holds exactly the NALs of the EL that
was muxed in (every byte, RPUs in place) and its BL file holds, frame by frame, the buffered BL NALs
(`muxBlPart`: regenerated AUD first unless --no-add-aud, EOS/EOB moved behind unless --eos-before-el) — for a BL
whose every NAL belongs to a frame (`hfr`). -/
theorem mux_demux_id (c : MCfg) (aud : Nat → Bytes) (conv conv' : Bytes → Option Bytes) (nFrames : Nat) (bl el : List Item)
    (out : List Out) (e : Bool) (mo : List Item) (s : Sinks) (annexb' : Bool)
    (hdrop : c.drop = false) (hd : c.discard = false) (hcs : c.convSet = false)
    (hlen : (frames bl).length = (runs el).length)
    (hfr : ∀ it ∈ bl, it.au < nFrames)
    (hlast : ∀ fr, (frames bl).getLast? = some fr → blBody c fr.2 ≠ [])
    (hmux : mux c aud conv nFrames bl el = some (out, e))
    (hmo : mo.map payI = out.map pay) (hnd : NoDupFrom 0 (rpuAus mo))
    (hdemux : general { cfgDemux false with annexb := annexb' } conv' mo = some s) :
    e = false ∧
    s.el.map pay = el.map (fun it => if it.typ ≠ NAL_UNSPEC62 then (nalType it.data, it.data) else (NAL_UNSPEC62, it.data)) ∧
    s.bl.map pay = (frames bl).flatMap (muxBlPart c aud) :=
  mux_demux c aud conv conv' nFrames bl el out e mo s annexb' hdrop hd hcs hlen hfr hlast hmux hmo hnd hdemux

/-- … and with --no-add-aud --eos-before-el the BL comes back exactly (its own UNSPEC62/63 NALs aside) -/
theorem mux_demux_bl_exact (c : MCfg) (aud : Nat → Bytes) (bl : List Item)
    (hna : c.noAddAud = true) (heos : c.eosBeforeEl = true) :
    (frames bl).flatMap (muxBlPart c aud) = (bl.filter isBl).map payI := by
  have hp : ∀ x : Item, decide (x.typ ≠ NAL_UNSPEC62 ∧ x.typ ≠ NAL_UNSPEC63 ∧ (c.noAddAud = true ∨ x.typ ≠ NAL_AUD)) = isBl x := by
    intro x
    by_cases h1 : x.typ = NAL_UNSPEC62 <;> by_cases h2 : x.typ = NAL_UNSPEC63 <;> simp [isBl, h1, h2, hna]
  have hfr : muxBlPart c aud = fun fr => (fr.2.filter isBl).map payI := by
    funext fr
    simp only [muxBlPart, heos, if_true, muxBody, blBody]
    rw [if_pos hna]
    congr 1
    apply List.filter_congr
    intro x _
    exact hp x
  rw [hfr, ← List.map_flatMap]
  congr 1
  have := frames_flatten bl
  conv => rhs; rw [← this]
  induction frames bl with
  | nil => rfl
  | cons fr rest ih => simp [List.flatMap_cons, List.filter_append, ih]

/-- **mux(demux(s)) = s.**  For every dual-layer stream whose access units have the layout
[BL NALs][EL NALs + RPU][EOS/EOB] (`DlFrame.Wf`: at least one BL NAL and one EL-bound NAL per unit, UNSPEC63 NALs
with the header `7E 01`, units numbered from 0 with adjacent numbers distinct), muxing the BL half with the EL
half — the halves as `demux_partition` (C05) says demux writes them — under --no-add-aud yields the original
NAL sequence, every NAL with its bytes, and no error; `nFrames` = the frame count of the BL half, every NAL
belonging to a frame (`hfr`). -/
theorem demux_mux_id (c : MCfg) (aud : Nat → Bytes) (conv : Bytes → Option Bytes) (nFrames : Nat) (f0 : DlFrame) (rest : List DlFrame)
    (hna : c.noAddAud = true) (heos : c.eosBeforeEl = false) (hd : c.discard = false) (hcs : c.convSet = false)
    (hdrop : c.drop = false) (h0 : f0.au = 0) (hl : LabelsOk f0.au rest) (hwf : ∀ f ∈ f0 :: rest, f.Wf)
    (hfr : ∀ it ∈ (f0 :: rest).flatMap DlFrame.all, it.au < nFrames) :
    ∃ out, mux c aud conv nFrames (((f0 :: rest).flatMap DlFrame.all).filter isBl)
        ((((f0 :: rest).flatMap DlFrame.all).filter isEl).map unwrapItem) = some (out, false) ∧
      out.map pay = ((f0 :: rest).flatMap DlFrame.all).map payI :=
  Hevc.demux_mux_id c aud conv nFrames f0 rest hna heos hd hcs hdrop h0 hl hwf hfr

/-- **mux(demux(s)) = s with AUDs regenerated**: the same for a source in canonical form — every access unit led by
the very AUD the tool regenerates for it (`DlFrame.CanonAud`) — without --no-add-aud. -/
theorem demux_mux_id_canonical (c : MCfg) (aud : Nat → Bytes) (conv : Bytes → Option Bytes) (nFrames : Nat) (f0 : DlFrame) (rest : List DlFrame)
    (hna : c.noAddAud = false) (heos : c.eosBeforeEl = false) (hd : c.discard = false) (hcs : c.convSet = false)
    (hdrop : c.drop = false) (h0 : f0.au = 0) (hl : LabelsOk f0.au rest) (hwf : ∀ f ∈ f0 :: rest, f.Wf)
    (hfr : ∀ it ∈ (f0 :: rest).flatMap DlFrame.all, it.au < nFrames)
    (hca : ∀ f ∈ f0 :: rest, f.CanonAud aud) :
    ∃ out, mux c aud conv nFrames (((f0 :: rest).flatMap DlFrame.all).filter isBl)
        ((((f0 :: rest).flatMap DlFrame.all).filter isEl).map unwrapItem) = some (out, false) ∧
      out.map pay = ((f0 :: rest).flatMap DlFrame.all).map payI :=
  Hevc.demux_mux_id_canonical c aud conv nFrames f0 rest hna heos hd hcs hdrop h0 hl hwf hfr hca

/-- … **byte-identical**: with the start-code preset `four` (the default) every NAL mux writes is behind a 4-byte
start code, so for a canonical source written with 4-byte start codes (and no trailing zero bytes) the muxed file
equals the source byte for byte -/
theorem mux_start_codes_four (c : MCfg) (aud : Nat → Bytes) (conv : Bytes → Option Bytes) (nFrames : Nat) (bl el : List Item)
    (out : List Out) (e : Bool) (h : c.annexb = false) (hm : mux c aud conv nFrames bl el = some (out, e)) :
    ∀ o ∈ out, o.sc = 4 :=
  mux_four c aud conv nFrames bl el out e h hm

/-- **mux(demux(s)) = s, byte for byte**: the two theorems above combined on the level of the written file — for a
source in canonical form (every access unit led by the AUD the tool regenerates, `hca`) the bytes mux writes with
the default start-code preset are the source's NAL units, each behind a 4-byte start code, in the source's order:
exactly the source file when that was written with 4-byte start codes and no trailing zero bytes -/
theorem demux_mux_bytes_identical (c : MCfg) (aud : Nat → Bytes) (conv : Bytes → Option Bytes) (nFrames : Nat)
    (f0 : DlFrame) (rest : List DlFrame)
    (hna : c.noAddAud = false) (heos : c.eosBeforeEl = false) (hd : c.discard = false) (hcs : c.convSet = false)
    (hdrop : c.drop = false) (hab : c.annexb = false) (h0 : f0.au = 0) (hl : LabelsOk f0.au rest)
    (hwf : ∀ f ∈ f0 :: rest, f.Wf) (hfr : ∀ it ∈ (f0 :: rest).flatMap DlFrame.all, it.au < nFrames)
    (hca : ∀ f ∈ f0 :: rest, f.CanonAud aud) :
    ∃ out, mux c aud conv nFrames (((f0 :: rest).flatMap DlFrame.all).filter isBl)
        ((((f0 :: rest).flatMap DlFrame.all).filter isEl).map unwrapItem) = some (out, false) ∧
      Split.render (out.map fun o => (o.sc == 4, o.data)) =
        Split.render (((f0 :: rest).flatMap DlFrame.all).map fun it => (true, it.data)) := by
  obtain ⟨out, hm, hp⟩ := demux_mux_id_canonical c aud conv nFrames f0 rest hna heos hd hcs hdrop h0 hl hwf hfr hca
  refine ⟨out, hm, ?_⟩
  have hsc := mux_start_codes_four c aud conv nFrames _ _ out false hab hm
  have hdata : out.map (·.data) = ((f0 :: rest).flatMap DlFrame.all).map (·.data) := by
    have := congrArg (List.map Prod.snd) hp
    simpa [List.map_map, Function.comp_def, pay, payI] using this
  have h1 : out.map (fun o => (o.sc == 4, o.data)) = (out.map (·.data)).map (fun d => (true, d)) := by
    rw [List.map_map]
    apply List.map_congr_left
    intro o ho
    simp [hsc o ho]
  rw [h1, hdata, List.map_map]
  rfl

/-! ## non-vacuity: two frames, the first closed by EOS -/

def exBl : List Item :=
  [⟨35, [0x46, 1, 0x50], 0⟩, ⟨32, [0x40, 1, 0x0C], 0⟩, ⟨19, [0x26, 1, 0xAA], 0⟩, ⟨36, [0x48, 1], 0⟩,
   ⟨1, [0x02, 1, 0xBB], 1⟩, ⟨40, [0x50, 1, 5, 1, 7, 0x80], 1⟩]
def exEl : List Item :=
  [⟨19, [0x26, 1, 0xAB], 0⟩, ⟨62, [0x7C, 1, 0x19, 0xA0], 0⟩, ⟨1, [0x02, 1, 0xBC], 1⟩, ⟨62, [0x7C, 1, 0x19, 0xA1], 1⟩]
def exAud : Nat → Bytes := fun k => [[0x46, 1, 0x10], [0x46, 1, 0x30]].getD k []

/-- the hypotheses of `mux_alignment` hold (two frames) … -/
example : (frames exBl).length = (runs exEl).length ∧
    (∀ fr, (frames exBl).getLast? = some fr → blBody {} fr.2 ≠ []) ∧
    (elFrames {} (fun _ => none) (runs exEl)).isSome = true ∧ (∀ it ∈ exBl, it.au < 2) := by
  refine ⟨by decide, ?_, by decide, by decide⟩
  intro fr h
  have : (frames exBl).getLast? = some (1, [⟨1, [0x02, 1, 0xBB], 1⟩, ⟨40, [0x50, 1, 5, 1, 7, 0x80], 1⟩]) := by decide
  rw [this] at h
  simp only [Option.some.injEq] at h
  subst h
  decide

/-- … and the muxed stream: AUD regenerated (the BL's own dropped), EOS after the EL, EL wrapped, RPU as is -/
example : (mux {} exAud (fun _ => none) 2 exBl exEl).map (fun r => (r.1.map pay, r.2)) = some
    ([(35, [0x46, 1, 0x10]), (32, [0x40, 1, 0x0C]), (19, [0x26, 1, 0xAA]), (63, [0x7E, 1, 0x26, 1, 0xAB]),
      (62, [0x7C, 1, 0x19, 0xA0]), (36, [0x48, 1]),
      (35, [0x46, 1, 0x30]), (1, [0x02, 1, 0xBB]), (40, [0x50, 1, 5, 1, 7, 0x80]), (63, [0x7E, 1, 0x02, 1, 0xBC]),
      (62, [0x7C, 1, 0x19, 0xA1])], false) := by decide

/-- EL longer than BL: same output for the BL's frames, error flag -/
example : ((mux {} exAud (fun _ => none) 1 (exBl.take 4) exEl).map (fun r => (r.1.length, r.2))) = some (6, true) := by decide

/-- EL shorter than BL (left open by the property): the tool holds the last EL frame back for the last BL frame -/
example : ((mux {} exAud (fun _ => none) 2 exBl (exEl.take 2)).map (fun r => r.1.map (·.typ))) =
    some [35, 32, 19, 36, 35, 1, 40, 63, 62] := by decide

/-- the BL above followed by an AUD (labelled 2 = the frame count by hevc_parser): under --no-add-aud, which keeps
the BL's own AUDs, the trailing AUD is not written — and neither is the EL frame (NAL + RPU) of the last picture;
no error -/
example : (mux { noAddAud := true } exAud (fun _ => none) 2 (exBl ++ [⟨35, [0x46, 1, 0x50], 2⟩]) exEl).map
      (fun r => (r.1.map (·.typ), r.2)) = some ([35, 32, 19, 63, 62, 36, 1, 40], false) ∧
    (mux { noAddAud := true } exAud (fun _ => none) 2 exBl exEl).map
      (fun r => (r.1.map (·.typ), r.2)) = some ([35, 32, 19, 63, 62, 36, 1, 40, 63, 62], false) := by decide

/-- the same with AUDs regenerated and a trailing AUD + prefix SEI + VPS -/
example : (mux {} exAud (fun _ => none) 2
      (exBl ++ [⟨35, [0x46, 1, 0x50], 2⟩, ⟨39, [0x4E, 1, 5, 1, 7, 0x80], 2⟩, ⟨32, [0x40, 1, 0x0C], 2⟩]) exEl).map
      (fun r => (r.1.map (·.typ), r.2)) = some ([35, 32, 19, 63, 62, 36, 35, 1, 40], false) := by decide

/-- a well-formed dual-layer stream for `demux_mux_id` -/
def exDl : List DlFrame :=
  [⟨0, [⟨35, [0x46, 1, 0x10], 0⟩, ⟨19, [0x26, 1, 0xAA], 0⟩], [⟨63, [0x7E, 1, 0x26, 1, 0xAB], 0⟩, ⟨62, [0x7C, 1, 0x19, 0xA0], 0⟩], [⟨36, [0x48, 1], 0⟩]⟩,
   ⟨1, [⟨1, [0x02, 1, 0xBB], 1⟩], [⟨62, [0x7C, 1, 0x19, 0xA1], 1⟩], []⟩]

example : (mux { noAddAud := true } exAud (fun _ => none) 2 ((exDl.flatMap DlFrame.all).filter isBl)
    (((exDl.flatMap DlFrame.all).filter isEl).map unwrapItem)).map (fun r => (r.1.map pay, r.2)) =
    some ((exDl.flatMap DlFrame.all).map payI, false) := by decide

/-- a canonical source (AUD the tool regenerates, first in every access unit) for `demux_mux_id_canonical` -/
def exDlCanon : List DlFrame :=
  [⟨0, [⟨35, [0x46, 1, 0x10], 0⟩, ⟨19, [0x26, 1, 0xAA], 0⟩], [⟨63, [0x7E, 1, 0x26, 1, 0xAB], 0⟩, ⟨62, [0x7C, 1, 0x19, 0xA0], 0⟩], [⟨36, [0x48, 1], 0⟩]⟩,
   ⟨1, [⟨35, [0x46, 1, 0x30], 1⟩, ⟨1, [0x02, 1, 0xBB], 1⟩], [⟨62, [0x7C, 1, 0x19, 0xA1], 1⟩], []⟩]

example : (mux {} exAud (fun _ => none) 2 ((exDlCanon.flatMap DlFrame.all).filter isBl)
    (((exDlCanon.flatMap DlFrame.all).filter isEl).map unwrapItem)).map (fun r => (r.1.map pay, r.1.map (·.sc), r.2)) =
    some ((exDlCanon.flatMap DlFrame.all).map payI, [4, 4, 4, 4, 4, 4, 4, 4], false) := by decide

end Dovi.C06
