import DoviModel.Model.Ops
/-! # C12 — extension-block edits keep each DM container consistent -/
namespace Dovi.C12
open Dovi

/-- the count stored by `update_extension_block_info` is the number of blocks -/
theorem insertSorted_length (b : Block) (l : List Block) : (insertSorted b l).length = l.length + 1 := by
  induction l with
  | nil => rfl
  | cons x xs ih =>
    simp only [insertSorted]
    split <;> simp [ih]

theorem sortBlocks_length (l : List Block) : (sortBlocks l).length = l.length := by
  induction l with
  | nil => rfl
  | cons x xs ih => simp [sortBlocks, List.foldr, insertSorted_length] at *; exact ih

/-- after any touching operation the stored count equals the number of blocks -/
theorem update_count (c : Container) : c.update.num_ext_blocks = c.update.blocks.length := by
  simp [Container.update, sortBlocks_length]

/-- sorting only permutes: a block is in the sorted list iff it was in the list -/
theorem mem_insertSorted (b x : Block) (l : List Block) : x ∈ insertSorted b l ↔ x = b ∨ x ∈ l := by
  induction l with
  | nil => simp [insertSorted]
  | cons y ys ih =>
    simp only [insertSorted]
    split
    · simp [ih]; constructor
      · rintro (h | h | h) <;> simp [h]
      · rintro (h | h | h) <;> simp [h]
    · simp

theorem mem_sortBlocks (x : Block) (l : List Block) : x ∈ sortBlocks l ↔ x ∈ l := by
  induction l with
  | nil => simp [sortBlocks]
  | cons y ys ih =>
    have : sortBlocks (y :: ys) = insertSorted y (sortBlocks ys) := rfl
    rw [this, mem_insertSorted, ih]; simp

/-- `add_block` never stores a block of a level the container does not allow -/
theorem addBlock_levels (allowed : List Nat) (c c' : Container) (b : Block)
    (hc : ∀ x ∈ c.blocks, x.level ∈ allowed) (h : c.addBlock allowed b = .ok c') :
    ∀ x ∈ c'.blocks, x.level ∈ allowed := by
  unfold Container.addBlock at h
  split at h
  · rename_i hb
    injection h with h; subst h
    intro x hx
    simp only [Container.update] at hx
    rw [mem_sortBlocks] at hx
    simp only [List.mem_append, List.mem_singleton] at hx
    rcases hx with hx | rfl
    · exact hc x hx
    · simpa using hb
  · cases h

/-- `remove_level` keeps the level invariant and removes every block of that level -/
theorem removeLevel_spec (c : Container) (level : Nat) :
    (∀ x ∈ (c.removeLevel level).blocks, x ∈ c.blocks ∧ x.level ≠ level) := by
  intro x hx
  simp only [Container.removeLevel, Container.update] at hx
  rw [mem_sortBlocks] at hx
  simpa using hx

/-- a block whose container is absent is never stored: the operation is a no-op -/
theorem addBlock_absent (d : DmData) (b : Block) (w : Which) (hw : whichContainer b.level = some w)
    (hd : d.get w = none) : d.addBlock b = .ok d := by
  simp [DmData.addBlock, hw, hd]

/-- … and the keyed replacement of L2/L8/L10 is an error -/
theorem replaceBlock_absent_keyed (d : DmData) (b : Block) (w : Which)
    (hl : b.level = 2 ∨ b.level = 8 ∨ b.level = 10) (hw : whichContainer b.level = some w)
    (hd : d.get w = none) : d.replaceBlock b = .error := by
  unfold DmData.replaceBlock
  rcases hl with h | h | h <;> simp [h] at hw ⊢ <;> simp [hw, hd]

end Dovi.C12
