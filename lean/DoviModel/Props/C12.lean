import DoviModel.Model.Ops
import DoviModel.Gen.SourceRules
/-! # C12 — extension-block edits keep each DM container consistent -/
namespace Dovi.C12
open Dovi

/-- the count stored by `update_extension_block_info` is the number of blocks -/
theorem insertSorted_length (b : Block) (l : List Block) : (insertSorted b l).length = l.length + 1 := by
  induction l with
  | nil => rfl
  | cons x xs ih =>
    simp only [insertSorted]
    split <;> simp [ih]

theorem sortBlocks_length (l : List Block) : (sortBlocks l).length = l.length := by
  induction l with
  | nil => rfl
  | cons x xs ih => simp [sortBlocks, List.foldr, insertSorted_length] at *; exact ih

/-- after any touching operation the stored count equals the number of blocks -/
theorem update_count (c : Container) : c.update.num_ext_blocks = c.update.blocks.length := by
  simp [Container.update, sortBlocks_length]

/-- sorting only permutes: a block is in the sorted list iff it was in the list -/
theorem mem_insertSorted (b x : Block) (l : List Block) : x ∈ insertSorted b l ↔ x = b ∨ x ∈ l := by
  induction l with
  | nil => simp [insertSorted]
  | cons y ys ih =>
    simp only [insertSorted]
    split
    · simp [ih]; constructor
      · rintro (h | h | h) <;> simp [h]
      · rintro (h | h | h) <;> simp [h]
    · simp

theorem mem_sortBlocks (x : Block) (l : List Block) : x ∈ sortBlocks l ↔ x ∈ l := by
  induction l with
  | nil => simp [sortBlocks]
  | cons y ys ih =>
    have : sortBlocks (y :: ys) = insertSorted y (sortBlocks ys) := rfl
    rw [this, mem_insertSorted, ih]; simp

/-- `add_block` never stores a block of a level the container does not allow -/
theorem addBlock_levels (allowed : List Nat) (c c' : Container) (b : Block)
    (hc : ∀ x ∈ c.blocks, x.level ∈ allowed) (h : c.addBlock allowed b = .ok c') :
    ∀ x ∈ c'.blocks, x.level ∈ allowed := by
  unfold Container.addBlock at h
  split at h
  · rename_i hb
    injection h with h; subst h
    intro x hx
    simp only [Container.update] at hx
    rw [mem_sortBlocks] at hx
    simp only [List.mem_append, List.mem_singleton] at hx
    rcases hx with hx | rfl
    · exact hc x hx
    · simpa using hb
  · cases h

/-- `remove_level` keeps the level invariant and removes every block of that level -/
theorem removeLevel_spec (c : Container) (level : Nat) :
    (∀ x ∈ (c.removeLevel level).blocks, x ∈ c.blocks ∧ x.level ≠ level) := by
  intro x hx
  simp only [Container.removeLevel, Container.update] at hx
  rw [mem_sortBlocks] at hx
  simpa using hx

/-- a block whose container is absent is never stored: the operation is a no-op -/
theorem addBlock_absent (d : DmData) (b : Block) (w : Which) (hw : whichContainer b.level = some w)
    (hd : d.get w = none) : d.addBlock b = .ok d := by
  simp [DmData.addBlock, hw, hd]

/-- … and the keyed replacement of L2/L8/L10 is an error -/
theorem replaceBlock_absent_keyed (d : DmData) (b : Block) (w : Which)
    (hl : b.level = 2 ∨ b.level = 8 ∨ b.level = 10) (hw : whichContainer b.level = some w)
    (hd : d.get w = none) : d.replaceBlock b = .error := by
  unfold DmData.replaceBlock
  rcases hl with h | h | h <;> simp [h] at hw ⊢ <;> simp [hw, hd]

/-! ## sortedness, permutation, upsert -/

/-- `keyLt` is the strict lexicographic order on the (level, target) key -/
theorem keyLt_iff (a b : Block) :
    keyLt a b = true ↔ a.sortKey.1 < b.sortKey.1 ∨ (a.sortKey.1 = b.sortKey.1 ∧ a.sortKey.2 < b.sortKey.2) := by
  simp [keyLt]

/-- a list of blocks is sorted by (level, target): no later block has a strictly smaller key -/
def Sorted (l : List Block) : Prop := l.Pairwise (fun a b => keyLt b a = false)

theorem keyLt_asymm {a b : Block} (h : keyLt a b = true) : keyLt b a = false := by
  have h' := (keyLt_iff a b).mp h
  cases hb : keyLt b a with
  | false => rfl
  | true =>
    have := (keyLt_iff b a).mp hb
    omega

theorem not_keyLt_trans {a b c : Block} (h1 : keyLt b a = false) (h2 : keyLt c b = false) : keyLt c a = false := by
  cases hc : keyLt c a with
  | false => rfl
  | true =>
    have hc' := (keyLt_iff c a).mp hc
    have n1 : ¬ (b.sortKey.1 < a.sortKey.1 ∨ (b.sortKey.1 = a.sortKey.1 ∧ b.sortKey.2 < a.sortKey.2)) := by
      intro h; have := (keyLt_iff b a).mpr h; rw [h1] at this; cases this
    have n2 : ¬ (c.sortKey.1 < b.sortKey.1 ∨ (c.sortKey.1 = b.sortKey.1 ∧ c.sortKey.2 < b.sortKey.2)) := by
      intro h; have := (keyLt_iff c b).mpr h; rw [h2] at this; cases this
    omega

theorem insertSorted_sorted (b : Block) (l : List Block) (h : Sorted l) : Sorted (insertSorted b l) := by
  induction l with
  | nil => simp [insertSorted, Sorted]
  | cons x xs ih =>
    unfold Sorted at h ih ⊢
    rw [List.pairwise_cons] at h
    obtain ⟨hx, hxs⟩ := h
    simp only [insertSorted]
    split
    · rename_i hlt
      rw [List.pairwise_cons]
      refine ⟨?_, ih hxs⟩
      intro y hy
      rcases (mem_insertSorted b y xs).mp hy with rfl | hy'
      · exact keyLt_asymm hlt
      · exact hx y hy'
    · rename_i hnlt
      have hxb : keyLt x b = false := by simpa using hnlt
      rw [List.pairwise_cons]
      refine ⟨?_, List.pairwise_cons.mpr ⟨hx, hxs⟩⟩
      intro y hy
      rcases List.mem_cons.mp hy with rfl | hy'
      · exact hxb
      · exact not_keyLt_trans hxb (hx y hy')

/-- **`update_extension_block_info` leaves the container sorted by level and then by target** -/
theorem sortBlocks_sorted (l : List Block) : Sorted (sortBlocks l) := by
  induction l with
  | nil => simp [sortBlocks, Sorted]
  | cons x xs ih =>
    show Sorted (insertSorted x (sortBlocks xs))
    exact insertSorted_sorted x _ ih

theorem insertSorted_perm (b : Block) (l : List Block) : (insertSorted b l).Perm (b :: l) := by
  induction l with
  | nil => simp [insertSorted]
  | cons x xs ih =>
    simp only [insertSorted]
    split
    · exact (List.Perm.cons x ih).trans (List.Perm.swap b x xs)
    · exact List.Perm.refl _

/-- sorting neither loses, duplicates nor alters a block -/
theorem sortBlocks_perm (l : List Block) : (sortBlocks l).Perm l := by
  induction l with
  | nil => simp [sortBlocks]
  | cons x xs ih =>
    show (insertSorted x (sortBlocks xs)).Perm (x :: xs)
    exact (insertSorted_perm x _).trans (List.Perm.cons x ih)

/-- every edit that touches a container leaves it sorted, with the stored count equal to the number of blocks -/
theorem addBlock_sorted (allowed : List Nat) (c c' : Container) (b : Block) (h : c.addBlock allowed b = .ok c') :
    Sorted c'.blocks ∧ c'.num_ext_blocks = c'.blocks.length ∧ c'.blocks.Perm (c.blocks ++ [b]) := by
  unfold Container.addBlock at h
  split at h
  · injection h with h
    subst h
    exact ⟨sortBlocks_sorted _, update_count _, sortBlocks_perm _⟩
  · cases h

theorem removeLevel_sorted (c : Container) (level : Nat) :
    Sorted (c.removeLevel level).blocks ∧ (c.removeLevel level).num_ext_blocks = (c.removeLevel level).blocks.length ∧
    (c.removeLevel level).blocks.Perm (c.blocks.filter (fun b => b.level != level)) :=
  ⟨sortBlocks_sorted _, update_count _, sortBlocks_perm _⟩

/-- the (level, target) match used by the keyed replacement -/
def sameKey (b x : Block) : Bool := x.level == b.level && x.vals.getD 0 0 == b.vals.getD 0 0

theorem sameKey_self (b : Block) : sameKey b b = true := by simp [sameKey]

theorem replaceFirstOrPush_count (b : Block) (l : List Block) :
    (replaceFirstOrPush (sameKey b) b l).countP (sameKey b) = max 1 (l.countP (sameKey b)) := by
  induction l with
  | nil => simp [replaceFirstOrPush, sameKey_self]
  | cons x xs ih =>
    simp only [replaceFirstOrPush]
    by_cases hx : sameKey b x = true
    · simp only [hx, if_true, List.countP_cons_of_pos (sameKey_self b), List.countP_cons_of_pos hx]
      omega
    · simp only [hx, if_false, Bool.false_eq_true]
      rw [List.countP_cons_of_neg (by simpa using hx), List.countP_cons_of_neg (by simpa using hx), ih]

theorem replaceFirstOrPush_others (b : Block) (l : List Block) :
    (replaceFirstOrPush (sameKey b) b l).filter (fun x => !sameKey b x) = l.filter (fun x => !sameKey b x) := by
  induction l with
  | nil => simp [replaceFirstOrPush, sameKey_self]
  | cons x xs ih =>
    simp only [replaceFirstOrPush]
    by_cases hx : sameKey b x = true
    · simp [hx, sameKey_self]
    · simp only [hx, if_false, Bool.false_eq_true]
      simp only [List.filter_cons, ih]

/-- **replacement is an upsert keyed by (level, target)**: afterwards the container is sorted, the count is
right, a key that had one block still has exactly one (it adds no second block; a key that had none has one),
the new block is present, and the blocks with other keys are exactly the old ones -/
theorem replaceKeyed_upsert (c : Container) (b : Block) :
    Sorted (c.replaceKeyed b).blocks ∧
    (c.replaceKeyed b).num_ext_blocks = (c.replaceKeyed b).blocks.length ∧
    b ∈ (c.replaceKeyed b).blocks ∧
    (c.replaceKeyed b).blocks.countP (sameKey b) = max 1 (c.blocks.countP (sameKey b)) ∧
    ((c.replaceKeyed b).blocks.filter (fun x => !sameKey b x)).Perm (c.blocks.filter (fun x => !sameKey b x)) := by
  have hp : (c.replaceKeyed b).blocks.Perm (replaceFirstOrPush (sameKey b) b c.blocks) := sortBlocks_perm _
  refine ⟨sortBlocks_sorted _, update_count _, ?_, ?_, ?_⟩
  · apply hp.symm.subset
    clear hp
    induction c.blocks with
    | nil => simp [replaceFirstOrPush]
    | cons x xs ih =>
      simp only [replaceFirstOrPush]
      split
      · simp
      · exact List.mem_cons_of_mem _ ih
  · rw [hp.countP_eq, replaceFirstOrPush_count]
  · exact (hp.filter _).trans (by rw [replaceFirstOrPush_others])

/-- non-vacuity: an unsorted container with two L2 trims and an L1 block -/
example : Sorted (sortBlocks [{ level := 2, length := 11, vals := [3079, 0, 0, 0, 0, 0, 0] },
    { level := 1, length := 5, vals := [0, 1, 2] }, { level := 2, length := 11, vals := [2081, 0, 0, 0, 0, 0, 0] }]) :=
  sortBlocks_sorted _

/-! ## the invariant over arbitrary operation sequences -/

/-- a container is consistent: stored count = number of blocks, every block's level belongs to the container -/
def ContOk (w : Which) (c : Container) : Prop :=
  c.num_ext_blocks = c.blocks.length ∧ ∀ x ∈ c.blocks, (allowedOf w).contains x.level = true

/-- the DM payload is consistent: each present container is -/
def DmInv (d : DmData) : Prop := ∀ w c, d.get w = some c → ContOk w c

theorem get_set_same (d : DmData) (w : Which) (c : Container) : (d.set w c).get w = some c := by
  cases w <;> rfl

theorem get_set_other (d : DmData) (w w' : Which) (c : Container) (h : w' ≠ w) : (d.set w c).get w' = d.get w' := by
  cases w <;> cases w' <;> first | rfl | exact absurd rfl h

theorem whichContainer_allowed {level : Nat} {w : Which} (h : whichContainer level = some w) :
    (allowedOf w).contains level = true := by
  unfold whichContainer at h
  split at h
  · injection h with h; subst h; assumption
  · split at h
    · injection h with h; subst h; assumption
    · cases h

theorem inv_set (d : DmData) (w : Which) (c : Container) (hd : DmInv d) (hc : ContOk w c) : DmInv (d.set w c) := by
  intro w' c' hg
  by_cases hw : w' = w
  · subst hw
    rw [get_set_same] at hg
    injection hg with hg
    subst hg
    exact hc
  · rw [get_set_other d w w' c hw] at hg
    exact hd w' c' hg

theorem addBlock_inv (d d' : DmData) (b : Block) (hd : DmInv d) (h : d.addBlock b = .ok d') : DmInv d' := by
  unfold DmData.addBlock at h
  split at h
  · injection h with h; subst h; exact hd
  · rename_i w hw
    split at h
    · injection h with h; subst h; exact hd
    · rename_i c hc
      cases ha : c.addBlock (allowedOf w) b with
      | error => simp [ha, Res.bind] at h
      | panic => simp [ha, Res.bind] at h
      | ok c' =>
        simp only [ha, Res.bind] at h
        injection h with h
        subst h
        obtain ⟨_, hcnt, _⟩ := addBlock_sorted _ c c' b ha
        refine inv_set d w c' hd ⟨hcnt, ?_⟩
        have hlv := addBlock_levels (allowedOf w) c c' b (fun x hx => by
          have := (hd w c hc).2 x hx
          simpa using this) ha
        intro x hx
        simpa using hlv x hx

theorem removeLevel_inv (d : DmData) (level : Nat) (hd : DmInv d) : DmInv (d.removeLevel level) := by
  unfold DmData.removeLevel
  split
  · exact hd
  · rename_i w hw
    split
    · exact hd
    · rename_i c hc
      refine inv_set d w _ hd ⟨(removeLevel_sorted c level).2.1, ?_⟩
      intro x hx
      exact (hd w c hc).2 x (removeLevel_spec c level x hx).1

theorem replaceBlock_inv (d d' : DmData) (b : Block) (hd : DmInv d) (h : d.replaceBlock b = .ok d') : DmInv d' := by
  unfold DmData.replaceBlock at h
  split at h
  · split at h
    · cases h
    · rename_i w hw
      split at h
      · cases h
      · rename_i c hc
        injection h with h
        subst h
        obtain ⟨_, hcnt, _, _, _⟩ := replaceKeyed_upsert c b
        refine inv_set d w _ hd ⟨hcnt, ?_⟩
        intro x hx
        have hp : (c.replaceKeyed b).blocks.Perm (replaceFirstOrPush (sameKey b) b c.blocks) := sortBlocks_perm _
        have hx' := hp.subset hx
        -- every element of the upserted list is `b` or an old block
        have : ∀ (l : List Block) (y : Block), y ∈ replaceFirstOrPush (sameKey b) b l → y = b ∨ y ∈ l := by
          intro l
          induction l with
          | nil => intro y hy; simp [replaceFirstOrPush] at hy; exact Or.inl hy
          | cons z zs ih =>
            intro y hy
            simp only [replaceFirstOrPush] at hy
            split at hy
            · rcases List.mem_cons.mp hy with rfl | hy'
              · exact Or.inl rfl
              · exact Or.inr (List.mem_cons_of_mem _ hy')
            · rcases List.mem_cons.mp hy with rfl | hy'
              · exact Or.inr (by simp)
              · rcases ih y hy' with rfl | h2
                · exact Or.inl rfl
                · exact Or.inr (List.mem_cons_of_mem _ h2)
        rcases this _ x hx' with rfl | hold
        · exact whichContainer_allowed hw
        · exact (hd w c hc).2 x hold
  · split at h
    · cases h
    · unfold DmData.replaceLevel at h
      exact addBlock_inv _ d' b (removeLevel_inv d b.level hd) h

theorem replaceBlocks_inv (bs : List Block) : ∀ (d d' : DmData), DmInv d → d.replaceBlocks bs = .ok d' → DmInv d' := by
  induction bs with
  | nil => intro d d' hd h; simp only [DmData.replaceBlocks] at h; injection h with h; subst h; exact hd
  | cons b bs ih =>
    intro d d' hd h
    simp only [DmData.replaceBlocks] at h
    cases hb : d.replaceBlock b with
    | error => simp [hb, Res.bind] at h
    | panic => simp [hb, Res.bind] at h
    | ok d1 =>
      simp only [hb, Res.bind] at h
      exact ih d1 d' (replaceBlock_inv d d1 b hd hb) h

/-- the block operations of the public surface -/
inductive BlockOp where
  | add (b : Block)
  | replace (b : Block)
  | replaceLevel (b : Block)
  | removeLevel (level : Nat)
  | replaceMany (bs : List Block)

def applyOp (d : DmData) : BlockOp → Res DmData
  | .add b => d.addBlock b
  | .replace b => d.replaceBlock b
  | .replaceLevel b => d.replaceLevel b
  | .removeLevel l => .ok (d.removeLevel l)
  | .replaceMany bs => d.replaceBlocks bs

def applyOps : DmData → List BlockOp → Res DmData
  | d, [] => .ok d
  | d, op :: ops => (applyOp d op).bind fun d' => applyOps d' ops

/-- **C12, invariant over every operation sequence**: starting from a consistent DM payload (e.g. any parse
result), after any sequence of add / replace / replace-level / remove-level / replace-many operations that
succeeds, every block still lives in the container its level belongs to and each stored count equals the
number of blocks. -/
theorem ops_preserve_inv (ops : List BlockOp) : ∀ (d d' : DmData), DmInv d → applyOps d ops = .ok d' → DmInv d' := by
  induction ops with
  | nil => intro d d' hd h; simp only [applyOps] at h; injection h with h; subst h; exact hd
  | cons op ops ih =>
    intro d d' hd h
    simp only [applyOps] at h
    cases ho : applyOp d op with
    | error => simp [ho, Res.bind] at h
    | panic => simp [ho, Res.bind] at h
    | ok d1 =>
      simp only [ho, Res.bind] at h
      refine ih d1 d' ?_ h
      cases op with
      | add b => exact addBlock_inv d d1 b hd ho
      | replace b => exact replaceBlock_inv d d1 b hd ho
      | replaceLevel b =>
        simp only [applyOp, DmData.replaceLevel] at ho
        exact addBlock_inv _ d1 b (removeLevel_inv d b.level hd) ho
      | removeLevel l =>
        simp only [applyOp] at ho
        injection ho with ho
        subst ho
        exact removeLevel_inv d l hd
      | replaceMany bs => exact replaceBlocks_inv bs d d1 hd ho

/-- the presence of the containers never changes: an absent container stays absent (nothing is stored for it) -/
theorem ops_keep_presence (ops : List BlockOp) : ∀ (d d' : DmData) (w : Which), applyOps d ops = .ok d' →
    (d'.get w).isSome = (d.get w).isSome := by
  have hset : ∀ (d : DmData) (w w' : Which) (c c0 : Container), d.get w = some c0 →
      ((d.set w c).get w').isSome = (d.get w').isSome := by
    intro d w w' c c0 h0
    by_cases hw : w' = w
    · subst hw; rw [get_set_same, h0]; rfl
    · rw [get_set_other d w w' c hw]
  have hadd : ∀ (d d1 : DmData) (b : Block) (w : Which), d.addBlock b = .ok d1 → (d1.get w).isSome = (d.get w).isSome := by
    intro d d1 b w h
    unfold DmData.addBlock at h
    split at h
    · injection h with h; subst h; rfl
    · rename_i w0 hw0
      split at h
      · injection h with h; subst h; rfl
      · rename_i c hc
        cases ha : c.addBlock (allowedOf w0) b with
        | error => simp [ha, Res.bind] at h
        | panic => simp [ha, Res.bind] at h
        | ok c' =>
          simp only [ha, Res.bind] at h
          injection h with h; subst h
          exact hset d w0 w c' c hc
  have hrem : ∀ (d : DmData) (l : Nat) (w : Which), ((d.removeLevel l).get w).isSome = (d.get w).isSome := by
    intro d l w
    unfold DmData.removeLevel
    split
    · rfl
    · rename_i w0 hw0
      split
      · rfl
      · rename_i c hc
        exact hset d w0 w _ c hc
  have hrep : ∀ (d d1 : DmData) (b : Block) (w : Which), d.replaceBlock b = .ok d1 → (d1.get w).isSome = (d.get w).isSome := by
    intro d d1 b w h
    unfold DmData.replaceBlock at h
    split at h
    · split at h
      · cases h
      · rename_i w0 hw0
        split at h
        · cases h
        · rename_i c hc
          injection h with h; subst h
          exact hset d w0 w _ c hc
    · split at h
      · cases h
      · unfold DmData.replaceLevel at h
        rw [hadd _ d1 b w h, hrem]
  have hmany : ∀ (bs : List Block) (d d1 : DmData) (w : Which), d.replaceBlocks bs = .ok d1 →
      (d1.get w).isSome = (d.get w).isSome := by
    intro bs
    induction bs with
    | nil => intro d d1 w h; simp only [DmData.replaceBlocks] at h; injection h with h; subst h; rfl
    | cons b bs ih =>
      intro d d1 w h
      simp only [DmData.replaceBlocks] at h
      cases hb : d.replaceBlock b with
      | error => simp [hb, Res.bind] at h
      | panic => simp [hb, Res.bind] at h
      | ok d2 =>
        simp only [hb, Res.bind] at h
        rw [ih d2 d1 w h, hrep d d2 b w hb]
  induction ops with
  | nil => intro d d' w h; simp only [applyOps] at h; injection h with h; subst h; rfl
  | cons op ops ih =>
    intro d d' w h
    simp only [applyOps] at h
    cases ho : applyOp d op with
    | error => simp [ho, Res.bind] at h
    | panic => simp [ho, Res.bind] at h
    | ok d1 =>
      simp only [ho, Res.bind] at h
      rw [ih d1 d' w h]
      cases op with
      | add b => exact hadd d d1 b w ho
      | replace b => exact hrep d d1 b w ho
      | replaceLevel b =>
        simp only [applyOp, DmData.replaceLevel] at ho
        rw [hadd _ d1 b w ho, hrem]
      | removeLevel l =>
        simp only [applyOp] at ho
        injection ho with ho; subst ho
        exact hrem d l w
      | replaceMany bs => exact hmany bs d d1 w ho

/-- non-vacuity: the generator-style payload (CM v2.9 with L1, CM v4.0 with L254) is consistent -/
example : DmInv { cmv29 := some { num_ext_blocks := 1, blocks := [{ level := 1, length := 5, vals := [0, 1, 2] }] },
                  cmv40 := some { num_ext_blocks := 1, blocks := [{ level := 254, length := 2, vals := [0, 2] }] } } := by
  intro w c h
  cases w <;> (injection h with h; subst h; exact ⟨rfl, by decide⟩)

/-! ## the touched container is sorted (DM level), and the RPU-level operations -/

/-- after a successful `add_metadata_block` the container the block belongs to is sorted -/
theorem addBlock_touched_sorted (d d' : DmData) (b : Block) (w : Which) (c : Container)
    (hw : whichContainer b.level = some w) (hc : d.get w = some c) (h : d.addBlock b = .ok d') :
    ∃ c', d'.get w = some c' ∧ Sorted c'.blocks ∧ c'.blocks.Perm (c.blocks ++ [b]) := by
  unfold DmData.addBlock at h
  simp only [hw, hc] at h
  cases ha : c.addBlock (allowedOf w) b with
  | error => simp [ha, Res.bind] at h
  | panic => simp [ha, Res.bind] at h
  | ok c' =>
    simp only [ha, Res.bind] at h
    injection h with h
    subst h
    obtain ⟨hs, _, hp⟩ := addBlock_sorted _ c c' b ha
    exact ⟨c', get_set_same d w c', hs, hp⟩

/-- after `remove_metadata_level` the container of that level is sorted and holds no block of the level -/
theorem removeLevel_touched_sorted (d : DmData) (level : Nat) (w : Which) (c : Container)
    (hw : whichContainer level = some w) (hc : d.get w = some c) :
    ∃ c', (d.removeLevel level).get w = some c' ∧ Sorted c'.blocks ∧ ∀ x ∈ c'.blocks, x ∈ c.blocks ∧ x.level ≠ level := by
  unfold DmData.removeLevel
  simp only [hw, hc]
  exact ⟨_, get_set_same d w _, (removeLevel_sorted c level).1, removeLevel_spec c level⟩

/-- after a successful keyed replacement (L2/L8/L10) the container is sorted and the replacement is an upsert -/
theorem replaceBlock_keyed_touched (d d' : DmData) (b : Block) (w : Which) (c : Container)
    (hl : b.level = 2 ∨ b.level = 8 ∨ b.level = 10) (hw : whichContainer b.level = some w) (hc : d.get w = some c)
    (h : d.replaceBlock b = .ok d') :
    d'.get w = some (c.replaceKeyed b) ∧ Sorted (c.replaceKeyed b).blocks ∧ b ∈ (c.replaceKeyed b).blocks ∧
    (c.replaceKeyed b).blocks.countP (sameKey b) = max 1 (c.blocks.countP (sameKey b)) := by
  unfold DmData.replaceBlock at h
  have hk : (b.level == 2 || b.level == 8 || b.level == 10) = true := by
    rcases hl with h' | h' | h' <;> simp [h']
  simp only [hk, if_true, hw, hc] at h
  injection h with h
  subst h
  obtain ⟨hs, _, hm, hcnt, _⟩ := replaceKeyed_upsert c b
  exact ⟨get_set_same d w _, hs, hm, hcnt⟩

/-- the invariant lifted to an RPU -/
def RpuInv (r : Rpu) : Prop := ∀ d, r.vdr_dm_data = some d → DmInv d

/-- the block-related operations of the RPU-level public surface -/
inductive RpuOp where
  | dm (op : BlockOp)                       -- any DM-level operation
  | crop
  | setOffsets (l r t b : Nat)
  | removeCmv40
  | copyLevels (src : Rpu) (levels : List Nat)

def applyRpuOp (r : Rpu) : RpuOp → Res Rpu
  | .dm op => match r.vdr_dm_data with
      | some d => (applyOp d op).bind fun d' => .ok { r with vdr_dm_data := some d' }
      | none => .ok r
  | .crop => r.crop
  | .setOffsets l rr t b => r.setActiveAreaOffsets l rr t b
  | .removeCmv40 => .ok r.removeCmv40
  | .copyLevels src lv => r.replaceLevelsFrom src lv

def applyRpuOps : Rpu → List RpuOp → Res Rpu
  | r, [] => .ok r
  | r, op :: ops => (applyRpuOp r op).bind fun r' => applyRpuOps r' ops

theorem applyOp_inv (d d' : DmData) (op : BlockOp) (hd : DmInv d) (h : applyOp d op = .ok d') : DmInv d' :=
  ops_preserve_inv [op] d d' hd (by simp [applyOps, h, Res.bind])

theorem replaceLevelsFrom_go_inv (sd : DmData) (lv : List Nat) :
    ∀ (d d' : DmData), DmInv d → Rpu.replaceLevelsFrom.go sd d lv = .ok d' → DmInv d' := by
  induction lv with
  | nil => intro d d' hd h; simp only [Rpu.replaceLevelsFrom.go] at h; injection h with h; subst h; exact hd
  | cons l ls ih =>
    intro d d' hd h
    simp only [Rpu.replaceLevelsFrom.go] at h
    cases hb : d.replaceBlocks (sd.levelBlocks l) with
    | error => simp [hb, Res.bind] at h
    | panic => simp [hb, Res.bind] at h
    | ok d1 =>
      simp only [hb, Res.bind] at h
      exact ih d1 d' (replaceBlocks_inv _ d d1 hd hb) h

theorem applyRpuOp_inv (r r' : Rpu) (op : RpuOp) (hr : RpuInv r) (h : applyRpuOp r op = .ok r') : RpuInv r' := by
  have hl5 : ∀ (rr : Rpu) (blk : Block), RpuInv rr →
      (match rr.vdr_dm_data with
       | none => Res.ok rr
       | some d => (d.replaceBlock blk).bind fun d' => .ok { rr with vdr_dm_data := some d' }) = .ok r' → RpuInv r' := by
    intro rr blk hrr hh
    cases hd : rr.vdr_dm_data with
    | none => rw [hd] at hh; injection hh with hh; subst hh; exact hrr
    | some d =>
      rw [hd] at hh
      cases hb : d.replaceBlock blk with
      | error => simp [hb, Res.bind] at hh
      | panic => simp [hb, Res.bind] at hh
      | ok d1 =>
        simp only [hb, Res.bind] at hh
        injection hh with hh
        subst hh
        intro d2 hd2
        injection hd2 with hd2
        subst hd2
        exact replaceBlock_inv d d1 blk (hrr d hd) hb
  cases op with
  | dm op =>
    simp only [applyRpuOp] at h
    cases hd : r.vdr_dm_data with
    | none => rw [hd] at h; injection h with h; subst h; exact hr
    | some d =>
      rw [hd] at h
      cases ho : applyOp d op with
      | error => simp [ho, Res.bind] at h
      | panic => simp [ho, Res.bind] at h
      | ok d1 =>
        simp only [ho, Res.bind] at h
        injection h with h
        subst h
        intro d2 hd2
        injection hd2 with hd2
        subst hd2
        exact applyOp_inv d d1 op (hr d hd) ho
  | crop =>
    simp only [applyRpuOp, Rpu.crop] at h
    exact hl5 { r with modified := true } _ (fun d hd => hr d hd) h
  | setOffsets l rr t b =>
    simp only [applyRpuOp, Rpu.setActiveAreaOffsets] at h
    exact hl5 { r with modified := true } _ (fun d hd => hr d hd) h
  | removeCmv40 =>
    simp only [applyRpuOp] at h
    injection h with h
    subst h
    unfold Rpu.removeCmv40
    cases hd : r.vdr_dm_data with
    | none => simpa [hd] using hr
    | some d =>
      simp only []
      split
      · intro d2 hd2
        injection hd2 with hd2
        subst hd2
        intro w c hg
        cases w with
        | v29 => exact hr d hd .v29 c hg
        | v40 => cases hg
      · exact hr
  | copyLevels src lv =>
    simp only [applyRpuOp, Rpu.replaceLevelsFrom] at h
    split at h
    · cases h
    · split at h
      · rename_i d sd hd hsd
        cases hg : Rpu.replaceLevelsFrom.go sd d lv with
        | error => simp [hg, Res.bind] at h
        | panic => simp [hg, Res.bind] at h
        | ok d1 =>
          simp only [hg, Res.bind] at h
          injection h with h
          subst h
          intro d2 hd2
          injection hd2 with hd2
          subst hd2
          exact replaceLevelsFrom_go_inv sd lv d d1 (hr d hd) hg
      · injection h with h; subst h; exact hr

/-- **C12 over the whole public surface**: after any sequence of block insert / replace / remove / replace-many,
crop, set-offsets, remove-CM-v4.0 and copy-levels-from-another-RPU operations that succeeds, every block of the
RPU still lives in the container of its level and each stored count equals the number of blocks -/
theorem rpu_ops_preserve_inv (ops : List RpuOp) : ∀ (r r' : Rpu), RpuInv r → applyRpuOps r ops = .ok r' → RpuInv r' := by
  induction ops with
  | nil => intro r r' hr h; simp only [applyRpuOps] at h; injection h with h; subst h; exact hr
  | cons op ops ih =>
    intro r r' hr h
    simp only [applyRpuOps] at h
    cases ho : applyRpuOp r op with
    | error => simp [ho, Res.bind] at h
    | panic => simp [ho, Res.bind] at h
    | ok r1 =>
      simp only [ho, Res.bind] at h
      exact ih r1 r' (applyRpuOp_inv r r1 op hr ho) h

/-- non-vacuity: a sequence crop; add an L2 trim; remove CM v4.0; copy L6 from another RPU on a concrete RPU -/
example :
    let d : DmData := { cmv29 := some { num_ext_blocks := 1, blocks := [{ level := 1, length := 5, vals := [0, 1, 2] }] },
                        cmv40 := some { num_ext_blocks := 1, blocks := [{ level := 254, length := 2, vals := [0, 2] }] } }
    let r : Rpu := { vdr_dm_data := some d }
    (applyRpuOps r [.crop, .dm (.add { level := 2, length := 11, vals := [2081, 0, 0, 0, 0, 0, 0] }), .removeCmv40,
        .copyLevels { vdr_dm_data := some { cmv29 := some { num_ext_blocks := 1, blocks := [{ level := 6, length := 8, vals := [1000, 1, 0, 0] }] } } } [6]]).isOk = true := by
  decide

/-! ## sortedness as an invariant over operation sequences -/

/-- every present container is sorted by `(level, target)` -/
def SortedDm (d : DmData) : Prop := ∀ w c, d.get w = some c → Sorted c.blocks

theorem sorted_set (d : DmData) (w : Which) (c : Container) (hd : SortedDm d) (hc : Sorted c.blocks) :
    SortedDm (d.set w c) := by
  intro w' c' hg
  by_cases hw : w' = w
  · subst hw
    rw [get_set_same] at hg
    injection hg with hg
    subst hg
    exact hc
  · rw [get_set_other d w w' c hw] at hg
    exact hd w' c' hg

theorem addBlock_sortedDm (d d' : DmData) (b : Block) (hd : SortedDm d) (h : d.addBlock b = .ok d') : SortedDm d' := by
  unfold DmData.addBlock at h
  split at h
  · injection h with h; subst h; exact hd
  · rename_i w hw
    split at h
    · injection h with h; subst h; exact hd
    · rename_i c hc
      cases ha : c.addBlock (allowedOf w) b with
      | error => simp [ha, Res.bind] at h
      | panic => simp [ha, Res.bind] at h
      | ok c' =>
        simp only [ha, Res.bind] at h
        injection h with h
        subst h
        exact sorted_set d w c' hd (addBlock_sorted _ c c' b ha).1

theorem removeLevel_sortedDm (d : DmData) (level : Nat) (hd : SortedDm d) : SortedDm (d.removeLevel level) := by
  unfold DmData.removeLevel
  split
  · exact hd
  · split
    · exact hd
    · rename_i c _
      exact sorted_set d _ _ hd (removeLevel_sorted c level).1

theorem replaceBlock_sortedDm (d d' : DmData) (b : Block) (hd : SortedDm d) (h : d.replaceBlock b = .ok d') :
    SortedDm d' := by
  unfold DmData.replaceBlock at h
  split at h
  · split at h
    · cases h
    · split at h
      · cases h
      · rename_i c _
        injection h with h
        subst h
        exact sorted_set d _ _ hd (replaceKeyed_upsert c b).1
  · split at h
    · cases h
    · unfold DmData.replaceLevel at h
      exact addBlock_sortedDm _ d' b (removeLevel_sortedDm d b.level hd) h

theorem replaceBlocks_sortedDm (bs : List Block) :
    ∀ (d d' : DmData), SortedDm d → d.replaceBlocks bs = .ok d' → SortedDm d' := by
  induction bs with
  | nil => intro d d' hd h; simp only [DmData.replaceBlocks] at h; injection h with h; subst h; exact hd
  | cons b bs ih =>
    intro d d' hd h
    simp only [DmData.replaceBlocks] at h
    cases hb : d.replaceBlock b with
    | error => simp [hb, Res.bind] at h
    | panic => simp [hb, Res.bind] at h
    | ok d1 =>
      simp only [hb, Res.bind] at h
      exact ih d1 d' (replaceBlock_sortedDm d d1 b hd hb) h

theorem applyOp_sortedDm (d d' : DmData) (op : BlockOp) (hd : SortedDm d) (h : applyOp d op = .ok d') :
    SortedDm d' := by
  cases op with
  | add b => exact addBlock_sortedDm d d' b hd h
  | replace b => exact replaceBlock_sortedDm d d' b hd h
  | replaceLevel b =>
    simp only [applyOp, DmData.replaceLevel] at h
    exact addBlock_sortedDm _ d' b (removeLevel_sortedDm d b.level hd) h
  | removeLevel l =>
    simp only [applyOp] at h
    injection h with h
    subst h
    exact removeLevel_sortedDm d l hd
  | replaceMany bs => exact replaceBlocks_sortedDm bs d d' hd h

/-- **sortedness over every operation sequence** (DM level): starting from a payload whose containers are sorted
(every generated RPU; every parsed RPU whose blocks were stored in order — and any payload after its containers have
been touched once, by `*_touched_sorted`), every successful sequence of add / replace / replace-level /
remove-level / replace-many leaves every container sorted by `(level, target)` -/
theorem ops_preserve_sorted (ops : List BlockOp) :
    ∀ (d d' : DmData), SortedDm d → applyOps d ops = .ok d' → SortedDm d' := by
  induction ops with
  | nil => intro d d' hd h; simp only [applyOps] at h; injection h with h; subst h; exact hd
  | cons op ops ih =>
    intro d d' hd h
    simp only [applyOps] at h
    cases ho : applyOp d op with
    | error => simp [ho, Res.bind] at h
    | panic => simp [ho, Res.bind] at h
    | ok d1 =>
      simp only [ho, Res.bind] at h
      exact ih d1 d' (applyOp_sortedDm d d1 op hd ho) h

def RpuSorted (r : Rpu) : Prop := ∀ d, r.vdr_dm_data = some d → SortedDm d

theorem replaceLevelsFrom_go_sorted (sd : DmData) (lv : List Nat) :
    ∀ (d d' : DmData), SortedDm d → Rpu.replaceLevelsFrom.go sd d lv = .ok d' → SortedDm d' := by
  induction lv with
  | nil => intro d d' hd h; simp only [Rpu.replaceLevelsFrom.go] at h; injection h with h; subst h; exact hd
  | cons l ls ih =>
    intro d d' hd h
    simp only [Rpu.replaceLevelsFrom.go] at h
    cases hb : d.replaceBlocks (sd.levelBlocks l) with
    | error => simp [hb, Res.bind] at h
    | panic => simp [hb, Res.bind] at h
    | ok d1 =>
      simp only [hb, Res.bind] at h
      exact ih d1 d' (replaceBlocks_sortedDm _ d d1 hd hb) h

theorem applyRpuOp_sorted (r r' : Rpu) (op : RpuOp) (hr : RpuSorted r) (h : applyRpuOp r op = .ok r') :
    RpuSorted r' := by
  have hl5 : ∀ (rr : Rpu) (blk : Block), RpuSorted rr →
      (match rr.vdr_dm_data with
       | none => Res.ok rr
       | some d => (d.replaceBlock blk).bind fun d' => .ok { rr with vdr_dm_data := some d' }) = .ok r' →
      RpuSorted r' := by
    intro rr blk hrr hh
    cases hd : rr.vdr_dm_data with
    | none => rw [hd] at hh; injection hh with hh; subst hh; exact hrr
    | some d =>
      rw [hd] at hh
      cases hb : d.replaceBlock blk with
      | error => simp [hb, Res.bind] at hh
      | panic => simp [hb, Res.bind] at hh
      | ok d1 =>
        simp only [hb, Res.bind] at hh
        injection hh with hh
        subst hh
        intro d2 hd2
        injection hd2 with hd2
        subst hd2
        exact replaceBlock_sortedDm d d1 blk (hrr d hd) hb
  cases op with
  | dm op =>
    simp only [applyRpuOp] at h
    cases hd : r.vdr_dm_data with
    | none => rw [hd] at h; injection h with h; subst h; exact hr
    | some d =>
      rw [hd] at h
      cases ho : applyOp d op with
      | error => simp [ho, Res.bind] at h
      | panic => simp [ho, Res.bind] at h
      | ok d1 =>
        simp only [ho, Res.bind] at h
        injection h with h
        subst h
        intro d2 hd2
        injection hd2 with hd2
        subst hd2
        exact applyOp_sortedDm d d1 op (hr d hd) ho
  | crop =>
    simp only [applyRpuOp, Rpu.crop] at h
    exact hl5 { r with modified := true } _ (fun d hd => hr d hd) h
  | setOffsets l rr t b =>
    simp only [applyRpuOp, Rpu.setActiveAreaOffsets] at h
    exact hl5 { r with modified := true } _ (fun d hd => hr d hd) h
  | removeCmv40 =>
    simp only [applyRpuOp] at h
    injection h with h
    subst h
    unfold Rpu.removeCmv40
    cases hd : r.vdr_dm_data with
    | none => simpa [hd] using hr
    | some d =>
      simp only []
      split
      · intro d2 hd2
        injection hd2 with hd2
        subst hd2
        intro w c hg
        cases w with
        | v29 => exact hr d hd .v29 c hg
        | v40 => cases hg
      · exact hr
  | copyLevels src lv =>
    simp only [applyRpuOp, Rpu.replaceLevelsFrom] at h
    split at h
    · cases h
    · split at h
      · rename_i d sd hd hsd
        cases hg : Rpu.replaceLevelsFrom.go sd d lv with
        | error => simp [hg, Res.bind] at h
        | panic => simp [hg, Res.bind] at h
        | ok d1 =>
          simp only [hg, Res.bind] at h
          injection h with h
          subst h
          intro d2 hd2
          injection hd2 with hd2
          subst hd2
          exact replaceLevelsFrom_go_sorted sd lv d d1 (hr d hd) hg
      · injection h with h; subst h; exact hr

/-- **sortedness over the whole public surface**: block operations, crop, set-offsets, remove-CM-v4.0 and
copy-levels, in any successful sequence, keep every container of the RPU sorted -/
theorem rpu_ops_preserve_sorted (ops : List RpuOp) :
    ∀ (r r' : Rpu), RpuSorted r → applyRpuOps r ops = .ok r' → RpuSorted r' := by
  induction ops with
  | nil => intro r r' hr h; simp only [applyRpuOps] at h; injection h with h; subst h; exact hr
  | cons op ops ih =>
    intro r r' hr h
    simp only [applyRpuOps] at h
    cases ho : applyRpuOp r op with
    | error => simp [ho, Res.bind] at h
    | panic => simp [ho, Res.bind] at h
    | ok r1 =>
      simp only [ho, Res.bind] at h
      exact ih r1 r' (applyRpuOp_sorted r r1 op hr ho) h

/-- non-vacuity: the generator-style payload is sorted -/
example : SortedDm { cmv29 := some { num_ext_blocks := 2, blocks := [{ level := 1, length := 5, vals := [0, 1, 2] },
                                                                     { level := 5, length := 7, vals := [0, 0, 0, 0] }] },
                     cmv40 := some { num_ext_blocks := 1, blocks := [{ level := 254, length := 2, vals := [0, 2] }] } } := by
  intro w c h
  cases w <;> (injection h with h; subst h; unfold Sorted; decide)

/-- **source tie** (Gen/SourceRules.lean is regenerated from /repo on every run by tools/gen_source_rules.py): the
`sort_key()` of every block level as it stands in the source now — `(level, 0)` by default, `(level, field)` for the
levels that override it — is the model's `Block.sortKey`, on which every ordering theorem above is built -/
theorem source_sort_key_agrees (b : Block) (hl : b.level ∈ [1, 2, 3, 4, 5, 6, 8, 9, 10, 11, 254, 255]) :
    b.sortKey = (b.level, match Src.sortKeyField.lookup b.level with
                          | some (some i) => (b.vals.getD i 0).toNat
                          | _ => 0) := by
  obtain ⟨l, len, vals⟩ := b
  simp only [List.mem_cons, List.mem_nil_iff, or_false] at hl
  rcases hl with h | h | h | h | h | h | h | h | h | h | h | h <;> subst h <;> rfl

end Dovi.C12
