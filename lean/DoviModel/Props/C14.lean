import DoviModel.Model.RpuFile
import DoviModel.Proofs.RpuFileProof
import DoviModel.Model.Generate
import DoviModel.Proofs.Rpu
/-! # C14 — reading an RPU file returns exactly the RPUs written, or an error (theorems; extended in Proofs/) -/
namespace Dovi.C14
open Dovi Dovi.RpuFile Dovi.RpuFileProof

/-- a successful read returned exactly as many RPUs as start codes were counted: no entry was dropped -/
theorem ok_count (c : Nat) (file : Bytes) (rs : List Rpu) (h : parseRpuFile c file = .ok rs) : rs ≠ [] := by
  unfold parseRpuFile at h
  split at h
  · rename_i s hs
    split at h
    · rename_i hc
      injection h with h; subst h
      simp only [Bool.and_eq_true, decide_eq_true_eq, beq_iff_eq] at hc
      intro he
      rw [he] at hc
      simp at hc
      omega
    · cases h
  · cases h
  · cases h

/-- the empty file is an error -/
theorem empty_file_is_error (c : Nat) : parseRpuFile c [] = .error := by
  simp [parseRpuFile, loop, step]

/-- a chunk without a start code is an error -/
theorem no_start_code_bails (c : Nat) (s : St) (h : findSC4 0 (s.chunk ++ s.rest.take c) = [])
    (hne : ¬ ((s.rest.take c).length == 0 && s.chunk.isEmpty) = true) :
    (match step c s with | .bail => true | _ => false) = true := by
  unfold step
  simp only [hne, if_false, h, List.getLast?_nil, Bool.false_eq_true]


/-!
## The written file, its framing, and the chunked reader (helper lemmas: `Proofs/RpuFileProof.lean`)

`write_rpu_file` (`src/dovi/mod.rs`) writes, for every RPU, the 4-byte start code `00 00 00 01` followed by the
escaped payload `19 …` (the encoded NAL without its `7C 01` header): `renderFile`. The reader
(`parse_rpu_file`, model `parseRpuFile c`, real code `c = 100000`) scans each chunk for `00 00 00 01`
(`findSC4`), hands the slice from each start code to the next one to `parse_unspec62_nalu` (`parseNalu`, which
accepts the `00 00 00 01 19 …` form) and carries the last, possibly incomplete, slice into the next chunk.

**Trailing zero bytes.** An entry may end in any number of `00` bytes (`… 80 00 | 00 00 00 01`): the 4-byte
pattern can only match where its last byte is `01`, so the start code is found at its true position and the
zero bytes stay with the entry in front of it (`written_file_slices`). The reader's `size - 1` adjustment
("if the 4 bytes beginning one byte before the next offset are a start code") can never fire, because two start
codes cannot begin at adjacent positions (`size_minus_one_branch_dead`) — the model omits it. The only
hypothesis on entry contents is `NoSC`: no `00 00 00 01` inside an entry, true of every escaped payload
(`escaped_rpu_noSC`).
-/

/-- the file `write_rpu_file` writes for the given escaped payloads -/
theorem renderFile_def (entries : List Bytes) :
    renderFile entries = entries.flatMap (fun e => [0, 0, 0, 1] ++ e) := rfl

/-- `NoSC e`: the scan finds no `00 00 00 01` in `e` -/
theorem noSC_def (e : Bytes) : NoSC e ↔ findSC4 0 e = [] := Iff.rfl

/-- every escaped RPU payload (first byte `0x19`), whatever its content and trailing zero bytes, is free of
`00 00 00 01` -/
theorem escaped_rpu_noSC (xs : Bytes) : NoSC (Esc.escape (0x19 :: xs)) :=
  noSC_escape 0x19 xs (by decide)

/-- the `size - 1` branch of the reader is dead code: if a start code begins at `b+1` none begins at `b` -/
theorem size_minus_one_branch_dead (chunk : Bytes) (b : Nat) (h : (chunk.drop (b+1)).take 4 = [0, 0, 0, 1]) :
    (chunk.drop b).take 4 ≠ [0, 0, 0, 1] :=
  adjacent_start_codes_impossible chunk b h

/-- the start codes found in a written file are exactly the entry starts — entries may end in zero bytes -/
theorem written_file_start_codes (entries : List Bytes) (hsc : ∀ e ∈ entries, NoSC e) :
    findSC4 0 (renderFile entries) = starts 0 entries := by
  simpa using findSC4_structured (pre := []) noSC_nil hsc

/-- … and the slices between consecutive start codes (the last one up to the end of the file) are exactly
the written entries, each with its start code and all of its trailing zero bytes -/
theorem written_file_slices (entries : List Bytes) (hsc : ∀ e ∈ entries, NoSC e) :
    sl (renderFile entries) (findSC4 0 (renderFile entries)) (renderFile entries).length
      = entries.map (fun e => [0, 0, 0, 1] ++ e) := by
  rw [written_file_start_codes entries hsc]
  simpa using sl_structured [] entries

/-! ### 1. round trip, for every sufficient chunk size -/

/-- the per-entry parse results as a function of the entry -/
theorem parse_fun (entries : List Bytes) (rpus : List Rpu)
    (hparse : entries.map (fun e => parseNalu ([0, 0, 0, 1] ++ e)) = rpus.map .ok) :
    ∃ f : Bytes → Rpu, (∀ e ∈ entries, parseNalu (blk e) = .ok (f e)) ∧ entries.map f = rpus := by
  cases rpus with
  | nil =>
    cases entries with
    | nil => exact ⟨fun _ => default, by simp, rfl⟩
    | cons a b => simp at hparse
  | cons dflt rest =>
    let f : Bytes → Rpu := fun e => match parseNalu (blk e) with | .ok r => r | _ => dflt
    have hf : ∀ e ∈ entries, parseNalu (blk e) = .ok (f e) := by
      intro e he
      have hm : parseNalu ([0, 0, 0, 1] ++ e) ∈ (dflt :: rest).map Res.ok := by
        rw [← hparse]; exact List.mem_map.mpr ⟨e, he, rfl⟩
      obtain ⟨r, _, hr⟩ := List.mem_map.mp hm
      have hr' : parseNalu (blk e) = .ok r := hr.symm
      simp only [f, hr']
    refine ⟨f, hf, ?_⟩
    have : (entries.map f).map Res.ok = (dflt :: rest).map Res.ok := by
      rw [← hparse, List.map_map]
      apply List.map_congr_left
      intro e he
      exact (hf e he).symm
    exact (List.map_inj_right (fun x y h => by injection h)).mp this

/-- **C14, round trip.** For every list of entries (any count, any sizes, any trailing zero bytes) that contain
no `00 00 00 01` and parse to `rpus`, and every read chunk size `c` such that the first read contains the whole
file or at least the first entry and the next start code (`c ≥ |e₀| + 8`; the real `c` is 100000), reading the
written file returns exactly `rpus`: same RPUs, same order, none dropped, duplicated, merged or truncated —
however many chunks the file spans and wherever the chunk boundaries fall relative to the start codes.

Why the bound: a full first read that holds only one complete start code leaves no parsed RPU after the last
offset has been set aside for the next chunk, and the reader gives up with "No valid RPUs parsed for chunk"
(with less than 4 bytes: "No NALU start codes found in chunk"); see `small_first_chunk_is_error`. After the
first iteration no bound is needed: a chunk with only the carried start code just keeps accumulating. -/
theorem roundtrip (c : Nat) (entries : List Bytes) (rpus : List Rpu) (e0 : Bytes)
    (hhead : entries.head? = some e0) (hsc : ∀ e ∈ entries, NoSC e)
    (hparse : entries.map (fun e => parseNalu ([0, 0, 0, 1] ++ e)) = rpus.map .ok)
    (hc : e0.length + 8 ≤ c ∨ (renderFile entries).length < c) :
    parseRpuFile c (renderFile entries) = .ok rpus := by
  obtain ⟨f, hf, rfl⟩ := parse_fun entries rpus hparse
  exact parseRpuFile_render_ok c f entries e0 hhead hsc hf hc

/-- the bound of `roundtrip` is sharp: if the first read neither contains the whole file nor the first entry
and the complete next start code, the read fails (with an error, never a wrong list) — whatever the entries
contain -/
theorem small_first_chunk_is_error (c : Nat) (entries : List Bytes) (e0 : Bytes)
    (hhead : entries.head? = some e0) (hsc : ∀ e ∈ entries, NoSC e)
    (hc1 : c < e0.length + 8) (hc2 : c ≤ (renderFile entries).length) :
    parseRpuFile c (renderFile entries) = .error :=
  parseRpuFile_render_small c entries e0 hhead hsc hc1 hc2

/-- hence for *every* chunk size: the written list, or an error -/
theorem roundtrip_or_error (c : Nat) (entries : List Bytes) (rpus : List Rpu)
    (hsc : ∀ e ∈ entries, NoSC e)
    (hparse : entries.map (fun e => parseNalu ([0, 0, 0, 1] ++ e)) = rpus.map .ok) :
    parseRpuFile c (renderFile entries) = .ok rpus ∨ parseRpuFile c (renderFile entries) = .error := by
  cases entries with
  | nil => exact Or.inr (empty_file_is_error c)
  | cons e0 es =>
    by_cases hc : e0.length + 8 ≤ c ∨ (renderFile (e0 :: es)).length < c
    · exact Or.inl (roundtrip c _ rpus e0 rfl hsc hparse hc)
    · exact Or.inr (small_first_chunk_is_error c _ e0 rfl hsc (by omega) (by omega))

/-- oddity of the real reader (consequence of `small_first_chunk_is_error`): a file that consists of a single
entry and is exactly one chunk long is rejected, valid or not -/
theorem single_entry_file_of_exactly_one_chunk_is_error (e : Bytes) (hsc : NoSC e) :
    parseRpuFile (e.length + 4) (renderFile [e]) = .error :=
  small_first_chunk_is_error _ [e] e rfl (by simpa using hsc) (by omega)
    (by rw [renderFile_length_cons]; simp)

/-- oddity: bytes in front of the first start code (free of `00 00 00 01`) are ignored without any message -/
theorem leading_bytes_ignored (c : Nat) (pre : Bytes) (entries : List Bytes) (rpus : List Rpu) (e0 : Bytes)
    (hhead : entries.head? = some e0) (hpre : NoSC pre) (hsc : ∀ e ∈ entries, NoSC e)
    (hparse : entries.map (fun e => parseNalu ([0, 0, 0, 1] ++ e)) = rpus.map .ok)
    (hc : pre.length + e0.length + 8 ≤ c ∨ (pre ++ renderFile entries).length < c) :
    parseRpuFile c (pre ++ renderFile entries) = .ok rpus := by
  obtain ⟨f, hf, rfl⟩ := parse_fun entries rpus hparse
  exact parseRpuFile_pre_render_ok c f pre entries e0 hhead hpre hsc hf hc

/-! ### 2. never silently wrong: every chunk size, any file content -/

/-- **C14, a successful read is the parse of the whole file.** For every chunk size and every byte string:
if the read succeeds, the returned list is — in order — the parse of every slice between consecutive start
codes of the whole file (the last one up to the end of the file), each of which parsed successfully. No entry
is dropped, duplicated, merged with its neighbour or cut at a chunk boundary. -/
theorem ok_is_whole_file_parse (c : Nat) (file : Bytes) (rs : List Rpu) (h : parseRpuFile c file = .ok rs) :
    (sl file (findSC4 0 file) file.length).map parseNalu = rs.map .ok :=
  parseRpuFile_ok_whole c file rs h

/-- … in particular exactly as many RPUs as there are start codes in the file -/
theorem ok_count_exact (c : Nat) (file : Bytes) (rs : List Rpu) (h : parseRpuFile c file = .ok rs) :
    rs.length = (findSC4 0 file).length := by
  have := congrArg List.length (ok_is_whole_file_parse c file rs h)
  simpa using this.symm

/-- for a written file: a successful read (any chunk size) returns, entry by entry, the parse of what was
written -/
theorem ok_read_of_written_is_exact (c : Nat) (entries : List Bytes) (rs : List Rpu)
    (hsc : ∀ e ∈ entries, NoSC e) (h : parseRpuFile c (renderFile entries) = .ok rs) :
    entries.map (fun e => parseNalu ([0, 0, 0, 1] ++ e)) = rs.map .ok := by
  have := ok_is_whole_file_parse c _ rs h
  rw [written_file_slices entries hsc, List.map_map] at this
  exact this

/-! ### 3. errors are complete -/

/-- **C14, an invalid entry makes the read fail** — at the first, a middle or the last position, in the first
or a later chunk, for every chunk size: if some written entry does not parse, the result is not `.ok`. -/
theorem invalid_entry_is_error (c : Nat) (entries : List Bytes) (hsc : ∀ e ∈ entries, NoSC e)
    (e : Bytes) (he : e ∈ entries) (hbad : ∀ r, parseNalu ([0, 0, 0, 1] ++ e) ≠ .ok r) :
    ∀ rs, parseRpuFile c (renderFile entries) ≠ .ok rs := by
  intro rs h
  have h1 := ok_read_of_written_is_exact c entries rs hsc h
  have hm : parseNalu ([0, 0, 0, 1] ++ e) ∈ rs.map Res.ok := by
    rw [← h1]; exact List.mem_map.mpr ⟨e, he, rfl⟩
  obtain ⟨r, _, hr⟩ := List.mem_map.mp hm
  exact hbad r hr.symm

/-- a file without any start code is an error, for every chunk size (the empty file: `empty_file_is_error`) -/
theorem no_start_code_is_error (c : Nat) (file : Bytes) (h : findSC4 0 file = []) :
    ∀ rs, parseRpuFile c file ≠ .ok rs := by
  intro rs hok
  have h1 := ok_count_exact c file rs hok
  rw [h] at h1
  exact ok_count c file rs hok (List.eq_nil_of_length_eq_zero h1)

/-! ### 4. chunk-size independence -/

/-- any two chunk sizes that both succeed — on any file content — return the same list -/
theorem chunk_size_independent (c c' : Nat) (file : Bytes) (rs rs' : List Rpu)
    (h : parseRpuFile c file = .ok rs) (h' : parseRpuFile c' file = .ok rs') : rs = rs' := by
  have h1 := ok_is_whole_file_parse c file rs h
  have h2 := ok_is_whole_file_parse c' file rs' h'
  rw [h1] at h2
  exact (List.map_inj_right (fun x y h => by injection h)).mp h2

/-- on a written file, all chunk sizes satisfying the bound of `roundtrip` agree on success and on the result -/
theorem chunk_size_independent_written (c c' : Nat) (entries : List Bytes) (e0 : Bytes)
    (hhead : entries.head? = some e0) (hsc : ∀ e ∈ entries, NoSC e)
    (hc : e0.length + 8 ≤ c ∨ (renderFile entries).length < c)
    (hc' : e0.length + 8 ≤ c' ∨ (renderFile entries).length < c') (rs : List Rpu) :
    parseRpuFile c (renderFile entries) = .ok rs ↔ parseRpuFile c' (renderFile entries) = .ok rs := by
  constructor
  · intro h
    exact roundtrip c' entries rs e0 hhead hsc (ok_read_of_written_is_exact c entries rs hsc h) hc'
  · intro h
    exact roundtrip c entries rs e0 hhead hsc (ok_read_of_written_is_exact c' entries rs hsc h) hc


/-! ### the writer side: what `write_rpu_file` writes for in-memory RPUs satisfies the hypotheses -/

/-- the encoded payload of an RPU starts with the prefix byte `0x19` -/
theorem writeRpu_head (r : Rpu) (out : Bytes) (hw : writeRpu r = .ok out) (hwf : RpuWf r) :
    ∃ xs, out = 0x19 :: xs := by
  unfold writeRpu at hw
  split at hw
  · cases hw
  · cases hb : writeBody r with
    | error => simp [hb, Res.bind] at hw
    | panic => simp [hb, Res.bind] at hw
    | ok body =>
      obtain ⟨hbits, mbits, dbits, _, _, _, rfl⟩ := writeBody_parts r body hwf hb
      simp only [hb, Res.bind] at hw
      split at hw
      · cases hw
      · injection hw with hw
        have h25 : toBits 8 25 = [false, false, false, true, true, false, false, true] := by decide
        rw [h25] at hw
        simp only [List.cons_append, List.nil_append, bitsToBytes] at hw
        exact ⟨_, hw.symm⟩

/-- the reader's slice of a written entry (`00 00 00 01` ++ escaped payload, at least 25 bytes) is unescaped
back to the payload, trailing zero bytes included, and parsed -/
theorem parseNalu_blk_escape (xs : Bytes) (hlen : 21 ≤ (Esc.escape (0x19 :: xs)).length) :
    parseNalu ([0, 0, 0, 1] ++ Esc.escape (0x19 :: xs)) = parseRpu (0x19 :: xs) := by
  have hu : Esc.unescape (Esc.escape (0x19 :: xs)) = 0x19 :: xs := by
    simp only [Esc.escape, Esc.unescape]
    simp [Esc.esc, Esc.unesc]
    exact Esc.unesc_esc 1 0 xs (by omega)
  have he : Esc.escape (0x19 :: xs) = 0x19 :: Esc.esc 1 0 xs := by
    simp [Esc.escape, Esc.esc]
  unfold parseNalu
  rw [he] at hlen hu ⊢
  have ht : trimPrefix ([0, 0, 0, 1] ++ 0x19 :: Esc.esc 1 0 xs) = .ok (0x19 :: Esc.esc 1 0 xs) := by
    unfold trimPrefix
    simp only [List.cons_append, List.nil_append, List.length_cons] at hlen ⊢
    rw [if_neg (by omega)]
    simp
  rw [ht]
  simp only [Res.bind]
  rw [hu]

/-- the CRC-32 field the parser reads back from an encoded payload -/
def rereadCrc (out : Bytes) : Nat := match parseRpu out with | .ok r => r.rpu_data_crc32 | _ => 0

/-- every entry `write_rpu_file` writes for an RPU of the parser's shape (`RpuWf`, `C03`) is free of start
codes and is read back as that RPU (CRC field as written, `modified` cleared; for an unmodified RPU: the RPU
itself) — provided the slice reaches the reader's minimum of 25 bytes -/
theorem written_entry_parses (r : Rpu) (out : Bytes) (hw : writeRpu r = .ok out) (hwf : RpuWf r)
    (hlen : 21 ≤ (Esc.escape out).length) :
    NoSC (Esc.escape out) ∧
    parseNalu ([0, 0, 0, 1] ++ Esc.escape out) = .ok { r with rpu_data_crc32 := rereadCrc out, modified := false } ∧
    (r.modified = false → ({ r with rpu_data_crc32 := rereadCrc out, modified := false } : Rpu) = r) := by
  obtain ⟨xs, rfl⟩ := writeRpu_head r out hw hwf
  refine ⟨escaped_rpu_noSC xs, ?_⟩
  rw [parseNalu_blk_escape xs hlen]
  obtain ⟨crc, h1, h2⟩ := parseRpu_writeRpu r _ hw hwf
  have hcrc : rereadCrc (0x19 :: xs) = crc := by simp [rereadCrc, h1]
  rw [hcrc]
  refine ⟨h1, ?_⟩
  intro hm
  rw [h2 hm]
  cases r
  simp_all

/-- **C14 for written RPUs.** Any list of RPUs of the parser's shape, written by `write_rpu_file`, is read back
as exactly that list (each with the CRC field as written and `modified` cleared), for every chunk size
satisfying the bound of `roundtrip`. -/
theorem written_rpus_roundtrip (c : Nat) (ws : List (Rpu × Bytes)) (p0 : Rpu × Bytes)
    (hws : ∀ p ∈ ws, writeRpu p.1 = .ok p.2 ∧ RpuWf p.1 ∧ 21 ≤ (Esc.escape p.2).length)
    (hhead : ws.head? = some p0)
    (hc : (Esc.escape p0.2).length + 8 ≤ c ∨ (renderFile (ws.map fun p => Esc.escape p.2)).length < c) :
    parseRpuFile c (renderFile (ws.map fun p => Esc.escape p.2))
      = .ok (ws.map fun p => { p.1 with rpu_data_crc32 := rereadCrc p.2, modified := false }) := by
  apply roundtrip c _ _ (Esc.escape p0.2) (by rw [List.head?_map, hhead]; rfl) _ _ hc
  · intro e he
    obtain ⟨p, hp, rfl⟩ := List.mem_map.mp he
    obtain ⟨h1, h2, h4⟩ := hws p hp
    exact (written_entry_parses p.1 p.2 h1 h2 h4).1
  · rw [List.map_map, List.map_map]
    apply List.map_congr_left
    intro p hp
    obtain ⟨h1, h2, h4⟩ := hws p hp
    exact (written_entry_parses p.1 p.2 h1 h2 h4).2.1

/-- … for unmodified RPUs: exactly the RPUs that were written -/
theorem written_unmodified_rpus_roundtrip (c : Nat) (ws : List (Rpu × Bytes)) (p0 : Rpu × Bytes)
    (hws : ∀ p ∈ ws, writeRpu p.1 = .ok p.2 ∧ RpuWf p.1 ∧ 21 ≤ (Esc.escape p.2).length)
    (hm : ∀ p ∈ ws, p.1.modified = false)
    (hhead : ws.head? = some p0)
    (hc : (Esc.escape p0.2).length + 8 ≤ c ∨ (renderFile (ws.map fun p => Esc.escape p.2)).length < c) :
    parseRpuFile c (renderFile (ws.map fun p => Esc.escape p.2)) = .ok (ws.map (·.1)) := by
  rw [written_rpus_roundtrip c ws p0 hws hhead hc]
  congr 1
  apply List.map_congr_left
  intro p hp
  obtain ⟨h1, h2, h4⟩ := hws p hp
  exact (written_entry_parses p.1 p.2 h1 h2 h4).2.2 (hm p hp)

/-! ### non-vacuity -/

/-- the generator's profile 8.1 CM v4.0 base RPU with an L6 block (the example of `C03`) -/
def exRpu : Rpu :=
  match Dovi.Gen.baseRpu { level6 := some [1000, 1, 1000, 400] } with
  | .ok r => r
  | _ => default

set_option maxRecDepth 100000 in
theorem exRpu_wf : RpuWf exRpu := RpuWf_of_B exRpu (by decide)

/-- the bytes `write_rpu_data` emits for it -/
def exOut : Bytes := match writeRpu exRpu with | .ok o => o | _ => []

theorem exOut_written : writeRpu exRpu = .ok exOut := by
  have h : (writeRpu exRpu).isOk = true := by decide
  unfold exOut
  cases hw : writeRpu exRpu with
  | ok o => rfl
  | error => rw [hw] at h; cases h
  | panic => rw [hw] at h; cases h

set_option maxRecDepth 100000 in
theorem exOut_len : 21 ≤ (Esc.escape exOut).length := by decide

/-- the hypotheses of `roundtrip` / `written_rpus_roundtrip` are satisfiable: a file of three written RPUs is
read back as three RPUs for every admissible chunk size (several chunks for small `c`, one chunk for the real
100000) -/
example (c : Nat) (hc : (Esc.escape exOut).length + 8 ≤ c) :
    parseRpuFile c (renderFile [Esc.escape exOut, Esc.escape exOut, Esc.escape exOut])
      = .ok (List.replicate 3 { exRpu with rpu_data_crc32 := rereadCrc exOut, modified := false }) :=
  written_rpus_roundtrip c (List.replicate 3 (exRpu, exOut)) (exRpu, exOut)
    (by
      intro p hp
      rw [(List.mem_replicate.mp hp).2]
      exact ⟨exOut_written, exRpu_wf, exOut_len⟩)
    rfl (Or.inl hc)

/-- … and with a chunk size below the bound the same file is an error, never a wrong list -/
example : parseRpuFile ((Esc.escape exOut).length + 7)
    (renderFile [Esc.escape exOut, Esc.escape exOut, Esc.escape exOut]) = .error := by
  obtain ⟨hsc, _⟩ := written_entry_parses _ _ exOut_written exRpu_wf exOut_len
  apply small_first_chunk_is_error _ _ (Esc.escape exOut) rfl
  · intro e he
    simp only [List.mem_cons, List.not_mem_nil, or_false, or_self] at he
    rw [he]; exact hsc
  · omega
  · rw [renderFile_length_cons, renderFile_length_cons]; omega

/-- entries ending in zero bytes directly in front of the next start code: found at the true positions, the
zero bytes stay with their entry -/
example : findSC4 0 (renderFile [[0x19, 0x80, 0, 0], [0x19, 0x80, 0], [0x19, 0x80]]) = [0, 8, 15] ∧
    sl (renderFile [[0x19, 0x80, 0, 0], [0x19, 0x80, 0], [0x19, 0x80]]) [0, 8, 15] 21
      = [[0, 0, 0, 1, 0x19, 0x80, 0, 0], [0, 0, 0, 1, 0x19, 0x80, 0], [0, 0, 0, 1, 0x19, 0x80]] := by
  constructor
  · simp [renderFile, findSC4_cons]
  · simp [renderFile, sl]

/-- `NoSC` is a real restriction on raw bytes (and the escaper establishes it) -/
example : ¬ NoSC [0x19, 0, 0, 0, 1] ∧ NoSC (Esc.escape [0x19, 0, 0, 0, 1]) := by
  refine ⟨?_, escaped_rpu_noSC _⟩
  simp [NoSC, findSC4_cons]

end Dovi.C14
