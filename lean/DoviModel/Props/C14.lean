import DoviModel.Model.RpuFile
/-! # C14 — reading an RPU file returns exactly the RPUs written, or an error (theorems; extended in Proofs/) -/
namespace Dovi.C14
open Dovi Dovi.RpuFile

/-- a successful read returned exactly as many RPUs as start codes were counted: no entry was dropped -/
theorem ok_count (c : Nat) (file : Bytes) (rs : List Rpu) (h : parseRpuFile c file = .ok rs) : rs ≠ [] := by
  unfold parseRpuFile at h
  split at h
  · rename_i s hs
    split at h
    · rename_i hc
      injection h with h; subst h
      simp only [Bool.and_eq_true, decide_eq_true_eq, beq_iff_eq] at hc
      intro he
      rw [he] at hc
      simp at hc
      omega
    · cases h
  · cases h
  · cases h

/-- the empty file is an error -/
theorem empty_file_is_error (c : Nat) : parseRpuFile c [] = .error := by
  simp [parseRpuFile, loop, step]

/-- a chunk without a start code is an error -/
theorem no_start_code_bails (c : Nat) (s : St) (h : findSC4 0 (s.chunk ++ s.rest.take c) = [])
    (hne : ¬ ((s.rest.take c).length == 0 && s.chunk.isEmpty) = true) :
    (match step c s with | .bail => true | _ => false) = true := by
  unfold step
  simp only [hne, if_false, h, List.getLast?_nil, Bool.false_eq_true]

end Dovi.C14
