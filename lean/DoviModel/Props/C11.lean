import DoviModel.Model.XmlSpec
import DoviModel.Props.C10
/-!
# C11 — CM XML documents generate the documented integer encodings

The encodings are the functions of `Model/XmlSpec.lean` over scaled decimals (value · 10^6); the
generation path is `Xml.generateXml` (shots sorted stably by start, one RPU per frame, no L1 fix-up).
`vlib/c11.py` ties both to the real tool on every run: the functions against the exact-rational
specification and the generation against the CLI's bytes.
-/
namespace Dovi.C11
open Dovi Dovi.Gen Dovi.Xml

/-! ## rounding -/

/-- `roundDivNat num den` is a nearest integer to `num / den`: `|2·den·q − 2·num| ≤ den`, ties going up -/
theorem roundDivNat_nearest (num den : Nat) (h : 0 < den) :
    2 * den * roundDivNat num den ≤ 2 * num + den ∧ 2 * num < 2 * den * roundDivNat num den + den := by
  unfold roundDivNat
  have h2 : 0 < 2 * den := by omega
  have a := Nat.div_mul_le_self (2 * num + den) (2 * den)
  have b := Nat.lt_mul_div_succ (2 * num + den) h2
  rw [Nat.mul_comm] at a
  rw [Nat.mul_add] at b
  constructor <;> omega

/-- half away from zero: the rounding is odd -/
theorem roundHalfAway_neg (num : Int) (den : Nat) (h : num ≠ 0) :
    roundHalfAway (-num) den = -roundHalfAway num den := by
  unfold roundHalfAway
  rw [Int.natAbs_neg]
  by_cases hn : num < 0
  · have h2 : ¬ (-num < 0) := by omega
    rw [if_pos hn, if_neg h2, Int.neg_neg]
  · have h2 : -num < 0 := by omega
    rw [if_neg hn, if_pos h2]

example : roundHalfAway 5 2 = 3 ∧ roundHalfAway (-5) 2 = -3 ∧ roundHalfAway 7 3 = 2 ∧ roundHalfAway (-1) 3 = 0 := by decide

/-- a nearest integer never exceeds the multiplier when the ratio is at most one -/
theorem roundDivNat_mul_le (n a b : Nat) (hb : 0 < b) (hab : a ≤ b) : roundDivNat (n * a) b ≤ n := by
  unfold roundDivNat
  have h2 : 0 < 2 * b := by omega
  have hm : n * a ≤ n * b := Nat.mul_le_mul_left n hab
  have : (2 * (n * a) + b) / (2 * b) < n + 1 := by
    rw [Nat.div_lt_iff_lt_mul h2]
    have e : (n + 1) * (2 * b) = 2 * (n * b) + 2 * b := by
      rw [Nat.add_mul, Nat.one_mul, Nat.mul_left_comm]
    rw [e]
    omega
  omega

/-! ## trims -/

/-- every trim output fits its field: 12 bits for the trims, 8 bits for the vector fields -/
theorem trim_range (lift gain gamma v : Int) :
    slope12 lift gain ≤ 4095 ∧ offset12 lift gain ≤ 4095 ∧ power12 gamma ≤ 4095 ∧ lin12 v ≤ 4095 ∧ vec8 v ≤ 255 := by
  refine ⟨?_, ?_, ?_, ?_, ?_⟩
  · exact Nat.min_le_left _ _
  · exact Nat.min_le_left _ _
  · exact Nat.min_le_left _ _
  · exact Nat.min_le_left _ _
  · exact Nat.min_le_left _ _

/-- neutral trims encode as the mid-point 2048 (128 for the vector fields) -/
theorem trim_neutral :
    slope12 0 0 = 2048 ∧ offset12 0 0 = 2048 ∧ power12 0 = 2048 ∧ lin12 0 = 2048 ∧ vec8 0 = 128 := by decide

/-- the documented extremes: +1 clamps to 4095, −1 is 0; gamma +1 → 683, gamma −1 → 4095 (6144 clamped) -/
theorem trim_extremes :
    lin12 1000000 = 4095 ∧ lin12 (-1000000) = 0 ∧ lin12 (-3000000) = 0 ∧ lin12 100000000 = 4095 ∧
    vec8 1000000 = 255 ∧ vec8 (-1000000) = 0 ∧ power12 1000000 = 683 ∧ power12 (-1000000) = 4095 := by decide

/-- gamma is clamped to [−1, 1] before the power formula -/
theorem power_gamma_clamped (g : Int) :
    (1000000 ≤ g → power12 g = power12 1000000) ∧ (g ≤ -1000000 → power12 g = power12 (-1000000)) := by
  constructor
  · intro h
    have : clampGamma g = clampGamma 1000000 := by
      simp only [clampGamma, M]; omega
    simp only [power12, this]
  · intro h
    have : clampGamma g = clampGamma (-1000000) := by
      simp only [clampGamma, M]; omega
    simp only [power12, this]

-- the repository's sample trim (lift −0.015945, gain −0.032541, gamma 0.419015): 2013 / 2016 / 1339
example : slope12 (-15945) (-32541) = 2013 ∧ offset12 (-15945) (-32541) = 2016 ∧ power12 419015 = 1339 := by decide

/-- the L1 block of any `ImageCharacter` triple lies in the legal L1 ranges -/
theorem l1_range (cmv40 : Bool) (mn av mx : Int) :
    let v := (l1Block cmv40 mn av mx).vals
    0 ≤ v.getD 0 0 ∧ v.getD 0 0 ≤ 12 ∧ 2081 ≤ v.getD 1 0 ∧ v.getD 1 0 ≤ 4095 ∧
    (if cmv40 then 1229 else 819) ≤ v.getD 2 0 ∧ v.getD 2 0 ≤ v.getD 1 0 - 1 :=
  C10.l1_clamp_range cmv40 _ rfl

-- sample: "0 0.3 0.508078" → min 0, max 2081, avg 1229
example : (l1Block true 0 300000 508078).vals = [0, 2081, 1229] := by decide

/-! ## L8 length -/

theorem l8Length_mem (b : L8) : l8Length b = 10 ∨ l8Length b = 12 ∨ l8Length b = 13 ∨ l8Length b = 19 ∨ l8Length b = 25 := by
  unfold l8Length
  split
  · simp
  · split
    · simp
    · split
      · simp
      · split <;> simp

/-- decoding the block at the chosen length reproduces every field: the omitted ones hold their defaults -/
theorem l8_length_lossless (b : L8) : l8DecodeAt (l8Length b) b.vals = b.vals := by
  unfold l8Length
  by_cases hh : b.hueDefault
  · by_cases hs : b.satDefault
    · by_cases hc : b.clip = 2048
      · by_cases hm : b.mid = 2048
        · simp only [L8.hueDefault, L8.satDefault, Bool.and_eq_true, beq_iff_eq] at hh hs
          obtain ⟨⟨⟨⟨⟨h0, h1⟩, h2⟩, h3⟩, h4⟩, h5⟩ := hh
          obtain ⟨⟨⟨⟨⟨s0, s1⟩, s2⟩, s3⟩, s4⟩, s5⟩ := hs
          simp [L8.hueDefault, L8.satDefault, l8DecodeAt, blockParseLayout, blockDefaults, L8.vals, *]
        · simp only [L8.hueDefault, L8.satDefault, Bool.and_eq_true, beq_iff_eq] at hh hs
          obtain ⟨⟨⟨⟨⟨h0, h1⟩, h2⟩, h3⟩, h4⟩, h5⟩ := hh
          obtain ⟨⟨⟨⟨⟨s0, s1⟩, s2⟩, s3⟩, s4⟩, s5⟩ := hs
          simp [L8.hueDefault, L8.satDefault, l8DecodeAt, blockParseLayout, blockDefaults, L8.vals, *]
      · simp only [L8.hueDefault, L8.satDefault, Bool.and_eq_true, beq_iff_eq] at hh hs
        obtain ⟨⟨⟨⟨⟨h0, h1⟩, h2⟩, h3⟩, h4⟩, h5⟩ := hh
        obtain ⟨⟨⟨⟨⟨s0, s1⟩, s2⟩, s3⟩, s4⟩, s5⟩ := hs
        simp [L8.hueDefault, L8.satDefault, l8DecodeAt, blockParseLayout, blockDefaults, L8.vals, *]
    · simp only [L8.hueDefault, Bool.and_eq_true, beq_iff_eq] at hh
      obtain ⟨⟨⟨⟨⟨h0, h1⟩, h2⟩, h3⟩, h4⟩, h5⟩ := hh
      simp [L8.hueDefault, l8DecodeAt, blockParseLayout, blockDefaults, L8.vals, *]
  · simp [hh, l8DecodeAt, blockParseLayout, blockDefaults, L8.vals]

/-- no shorter length of the syntax holds the block: some non-default field would be lost -/
theorem l8_length_minimal (b : L8) (len : Nat) (hlen : len = 10 ∨ len = 12 ∨ len = 13 ∨ len = 19 ∨ len = 25)
    (hlt : len < l8Length b) : l8DecodeAt len b.vals ≠ b.vals := by
  intro heq
  unfold l8Length at hlt
  by_cases hh : b.hueDefault
  · by_cases hs : b.satDefault
    · by_cases hc : b.clip = 2048
      · by_cases hm : b.mid = 2048
        · simp [hh, hs, hc, hm] at hlt
          omega
        · simp [hh, hs, hc, hm] at hlt
          have : len = 10 := by omega
          subst this
          simp [l8DecodeAt, blockParseLayout, blockDefaults, L8.vals] at heq
          omega
      · simp [hh, hs, hc] at hlt
        have : len = 10 ∨ len = 12 := by omega
        rcases this with rfl | rfl <;>
          simp [l8DecodeAt, blockParseLayout, blockDefaults, L8.vals] at heq <;> omega
    · simp [hh, hs] at hlt
      have : len = 10 ∨ len = 12 ∨ len = 13 := by omega
      apply hs
      rcases this with rfl | rfl | rfl <;>
        simp [l8DecodeAt, blockParseLayout, blockDefaults, L8.vals] at heq <;>
        simp [L8.satDefault] <;> omega
  · simp [hh] at hlt
    have : len = 10 ∨ len = 12 ∨ len = 13 ∨ len = 19 := by omega
    apply hh
    rcases this with rfl | rfl | rfl | rfl <;>
      simp [l8DecodeAt, blockParseLayout, blockDefaults, L8.vals] at heq <;>
      simp [L8.hueDefault] <;> omega

/-- the two facts together, as the property states them -/
theorem l8_length_minimal_lossless (b : L8) :
    l8DecodeAt (l8Length b) b.vals = b.vals ∧
    ∀ len, (len = 10 ∨ len = 12 ∨ len = 13 ∨ len = 19 ∨ len = 25) → len < l8Length b → l8DecodeAt len b.vals ≠ b.vals :=
  ⟨l8_length_lossless b, fun len h1 h2 => l8_length_minimal b len h1 h2⟩

theorem l8_block_valid_of (b : L8)
    (h : b.slope ≤ 4095 ∧ b.offset ≤ 4095 ∧ b.power ≤ 4095 ∧ b.chroma ≤ 4095 ∧ b.satGain ≤ 4095 ∧ b.ms ≤ 4095 ∧
         b.mid ≤ 4095 ∧ b.clip ≤ 4095) : blockValidate b.block = true := by
  have hv1 : validBlockLength 8 (l8Length b) = true := by
    rcases l8Length_mem b with h | h | h | h | h <;> simp [validBlockLength, h]
  simp only [blockValidate, L8.block, L8.vals, List.getD_cons_zero, List.getD_cons_succ, hv1, Bool.and_eq_true,
    decide_eq_true_eq, true_and]
  omega

/-- the L8 block built from any XML values passes the writer's validation (length and 12-bit ranges) -/
theorem l8_block_valid (tid : Nat) (lift gain gamma chroma sat ms mid clip : Int) (sv hv : List Int) :
    blockValidate (l8OfXml tid lift gain gamma chroma sat ms mid clip sv hv).block = true := by
  apply l8_block_valid_of
  have r := trim_range lift gain gamma
  exact ⟨(r chroma).1, (r chroma).2.1, (r chroma).2.2.1, (r chroma).2.2.2.1, (r sat).2.2.2.1, (r ms).2.2.2.1,
         (r mid).2.2.2.1, (r clip).2.2.2.1⟩

-- the custom-displays sample: hue vector 0.25 at index 1 forces the full length 25
example : l8Length (l8OfXml 255 10000 20000 30000 40000 50000 60000 20000 (-18066) [0, 0, 0, 0, 170000, 0] [0, 250000, 0, 0, 0, 0]) = 25 := by decide
example : (l8OfXml 255 10000 20000 30000 40000 50000 60000 20000 (-18066) [0, 0, 0, 0, 170000, 0] [0, 250000, 0, 0, 0, 0]).vals =
    [255, 2068, 2069, 1987, 2130, 2150, 2171, 2089, 2011, 128, 128, 128, 128, 150, 128, 128, 160, 128, 128, 128, 128] := by decide
example : l8Length (l8OfXml 1 0 0 0 0 0 0 0 (-18066) [] []) = 13 := by decide

/-! ## L5 -/

/-- equal aspect ratios: zero offsets -/
theorem l5_equal (cw ch c : Nat) : l5Offsets cw ch c c = [0, 0, 0, 0] := by simp [l5Offsets]

/-- image narrower than the canvas: pillarbox; left + right = cw − round(cw·i/c), the halves differ by at most one -/
theorem l5_offsets_sum (cw ch c i : Nat) (hi : 0 < i) (hic : i < c) :
    ∃ l r, l5Offsets cw ch c i = [l, r, 0, 0] ∧ l + r + roundDivNat (cw * i) c = cw ∧ (r = l ∨ r = l + 1) := by
  have hle := roundDivNat_mul_le cw i c (by omega) (by omega)
  refine ⟨(cw - roundDivNat (cw * i) c) / 2, (cw - roundDivNat (cw * i) c) - (cw - roundDivNat (cw * i) c) / 2, ?_, ?_, ?_⟩
  · have h1 : c ≠ i := by omega
    have h2 : ¬ (i > c) := by omega
    simp [l5Offsets, h1, h2]
  · omega
  · omega

/-- image wider than the canvas: letterbox; top + bottom = ch − round(ch·c/i) -/
theorem l5_offsets_sum_wide (cw ch c i : Nat) (hc : 0 < c) (hci : c < i) :
    ∃ t b, l5Offsets cw ch c i = [0, 0, t, b] ∧ t + b + roundDivNat (ch * c) i = ch ∧ (b = t ∨ b = t + 1) := by
  have hle := roundDivNat_mul_le ch c i (by omega) (by omega)
  refine ⟨(ch - roundDivNat (ch * c) i) / 2, (ch - roundDivNat (ch * c) i) - (ch - roundDivNat (ch * c) i) / 2, ?_, ?_, ?_⟩
  · have h1 : c ≠ i := by omega
    have h2 : i > c := by omega
    simp [l5Offsets, h1, h2]
  · omega
  · omega

/-- without a canvas size the offsets are zero -/
theorem l5_no_canvas (c i : Nat) : (l5OfXml none c i).vals = [0, 0, 0, 0] := rfl

-- the samples: 3840x2160, canvas 1.77778: image 1.33333 → (480, 480, 0, 0); image 2.38806 → (0, 0, 276, 276)
example : l5Offsets 3840 2160 1777780 1333330 = [480, 480, 0, 0] ∧ l5Offsets 3840 2160 1777780 2388060 = [0, 0, 276, 276] := by decide

/-! ## primaries, L9, L10 -/

/-- the primaries index is one of the 9 + 10 presets or 255 (custom) -/
theorem primaries_preset_or_custom (rd : Bool) (p : List Int) : primaryIndex rd p = 255 ∨ primaryIndex rd p < 19 := by
  unfold primaryIndex
  split
  · rename_i k hk
    obtain ⟨h, _⟩ := List.findIdx?_eq_some_iff_getElem.mp hk
    have : colorspacePrimaries.length = 9 := rfl
    omega
  · split
    · split
      · rename_i k hk
        obtain ⟨h, _⟩ := List.findIdx?_eq_some_iff_getElem.mp hk
        have : colorspacePrimaries.length = 9 := rfl
        have : realdevicePrimaries.length = 10 := rfl
        omega
      · exact Or.inl rfl
    · exact Or.inl rfl

/-- a preset index is only given on an exact match with a table row -/
theorem primaries_preset_exact (rd : Bool) (p : List Int) (h : primaryIndex rd p ≠ 255) :
    p ∈ colorspacePrimaries ∨ (rd = true ∧ p ∈ realdevicePrimaries) := by
  unfold primaryIndex at h
  split at h
  · rename_i k hk
    obtain ⟨hlt, heq, _⟩ := List.findIdx?_eq_some_iff_getElem.mp hk
    have : colorspacePrimaries[k] = p := by simpa using heq
    exact Or.inl (this ▸ List.getElem_mem hlt)
  · split at h
    · rename_i hrd
      split at h
      · rename_i k hk
        obtain ⟨hlt, heq, _⟩ := List.findIdx?_eq_some_iff_getElem.mp hk
        have : realdevicePrimaries[k] = p := by simpa using heq
        exact Or.inr ⟨hrd, this ▸ List.getElem_mem hlt⟩
      · exact absurd rfl h
    · exact absurd rfl h

/-- every colour-space preset is recognised (never encoded as custom) -/
theorem primaries_preset_recognised (rd : Bool) (p : List Int) (h : p ∈ colorspacePrimaries) : primaryIndex rd p < 9 := by
  unfold primaryIndex
  split
  · rename_i k hk
    obtain ⟨hlt, _⟩ := List.findIdx?_eq_some_iff_getElem.mp hk
    have : colorspacePrimaries.length = 9 := rfl
    omega
  · rename_i hnone
    have := List.findIdx?_eq_none_iff.mp hnone p h
    simp at this

/-- L9: length 1 with a preset index, or length 17 with index 255 and the custom values -/
theorem l9_preset_or_custom (p : List Int) :
    ((l9OfXml p).length = 1 ∧ (l9OfXml p).vals.getD 0 0 ≠ 255 ∧ (l9OfXml p).vals.getD 0 0 < 19) ∨
    ((l9OfXml p).length = 17 ∧ (l9OfXml p).vals = (255 : Int) :: p.map fun v => (prim16 v : Int)) := by
  unfold l9OfXml
  by_cases h : primaryIndex true p = 255
  · right; simp [h]
  · left
    have := primaries_preset_or_custom true p
    simp [h]
    omega

/-- L10 blocks are produced only for custom target ids -/
theorem l10_only_custom_ids (ts : List (Nat × Nat × Nat × List Int)) :
    ∀ b ∈ l10Defaults ts, ∀ k ∈ presetTargets, b.vals.getD 0 0 ≠ (k : Int) := by
  intro b hb k hk
  unfold l10Defaults at hb
  obtain ⟨t, ht, rfl⟩ := List.mem_map.mp hb
  obtain ⟨_, hf⟩ := List.mem_filter.mp ht
  have hne : t.1 ≠ k := by
    intro e
    subst e
    simp [hk] at hf
  unfold l10OfXml
  by_cases h : primaryIndex false t.2.2.2 = 255
  · simp [h]; omega
  · simp [h]; omega

-- BT.709 → 1; the first real-device row → 9; DCI-P3 D65 (also real-device row 3) → 0; one unit off → custom
example : primaryIndex true [640000, 330000, 300000, 600000, 150000, 60000, 312700, 329000] = 1 ∧
    primaryIndex true [693000, 304000, 208000, 761000, 146700, 52700, 312700, 329000] = 9 ∧
    primaryIndex false [693000, 304000, 208000, 761000, 146700, 52700, 312700, 329000] = 255 ∧
    primaryIndex true [680000, 320000, 265000, 690000, 150000, 60000, 312700, 329000] = 0 ∧
    primaryIndex true [680000, 320000, 265000, 690000, 150000, 60000, 312700, 329001] = 255 := by decide
-- the custom-displays sample: L9 custom values
example : (l9OfXml [681000, 322000, 265300, 694000, 155000, 66000, 312770, 329800]).vals =
    [255, 22314, 10551, 8693, 22740, 5079, 2163, 10249, 10807] := by decide
example : (l10Defaults [(1, 2081, 62, [640000, 330000, 300000, 600000, 150000, 60000, 312700, 329000]),
                        (255, 2081, 62, [641000, 332000, 330000, 640000, 155000, 66000, 312770, 329800])]).map (·.length) = [21] := by decide

/-! ## shots -/

theorem insertShot_perm (s : Shot) (l : List Shot) : (insertShot s l).Perm (s :: l) := by
  induction l with
  | nil => exact List.Perm.refl _
  | cons x xs ih =>
    simp only [insertShot]
    split
    · exact (List.Perm.cons x ih).trans (List.Perm.swap s x xs)
    · exact List.Perm.refl _

/-- sorting only reorders the shots -/
theorem sortShots_perm (l : List Shot) : (sortShots l).Perm l := by
  induction l with
  | nil => exact List.Perm.refl _
  | cons s rest ih => exact (insertShot_perm s _).trans (List.Perm.cons s ih)

theorem insertShot_sorted (s : Shot) (l : List Shot) (h : l.Pairwise (fun a b => a.start ≤ b.start)) :
    (insertShot s l).Pairwise (fun a b => a.start ≤ b.start) := by
  induction l with
  | nil => simp [insertShot]
  | cons x xs ih =>
    rw [List.pairwise_cons] at h
    simp only [insertShot]
    split
    · rename_i hlt
      rw [List.pairwise_cons]
      refine ⟨?_, ih h.2⟩
      intro y hy
      have := (insertShot_perm s xs).mem_iff.mp hy
      rcases List.mem_cons.mp this with rfl | hm
      · omega
      · exact h.1 y hm
    · rename_i hge
      rw [List.pairwise_cons]
      refine ⟨?_, List.pairwise_cons.mpr h⟩
      intro y hy
      rcases List.mem_cons.mp hy with rfl | hm
      · omega
      · have := h.1 y hm
        omega

/-- the generated shot order is ascending by start frame -/
theorem shots_sorted (l : List Shot) : (sortShots l).Pairwise (fun a b => a.start ≤ b.start) := by
  induction l with
  | nil => simp [sortShots]
  | cons s rest ih => exact insertShot_sorted s _ ih

theorem insertShot_filter (s : Shot) (l : List Shot) (k : Nat) :
    (insertShot s l).filter (fun x => x.start == k) = (s :: l).filter (fun x => x.start == k) := by
  induction l with
  | nil => rfl
  | cons x xs ih =>
    simp only [insertShot]
    split
    · rename_i hlt
      by_cases hx : x.start = k
      · have hs : ¬ (s.start = k) := by omega
        simp [hx, hs] at ih ⊢
        exact ih
      · by_cases hs : s.start = k
        · simp [hx, hs] at ih ⊢
          exact ih
        · simp [hx, hs] at ih ⊢
          exact ih
    · rfl

/-- the sort is stable: shots with equal starts keep their document order -/
theorem shots_sort_stable (l : List Shot) (k : Nat) :
    (sortShots l).filter (fun x => x.start == k) = l.filter (fun x => x.start == k) := by
  induction l with
  | nil => rfl
  | cons s rest ih =>
    simp only [sortShots]
    rw [insertShot_filter, List.filter_cons, List.filter_cons, ih]

theorem insertShot_sum (s : Shot) (l : List Shot) : sumDurations (insertShot s l) = s.duration + sumDurations l := by
  induction l with
  | nil => rfl
  | cons x xs ih =>
    simp only [insertShot]
    split
    · simp only [sumDurations, ih]; omega
    · rfl

theorem sortShots_sum (l : List Shot) : sumDurations (sortShots l) = sumDurations l := by
  induction l with
  | nil => rfl
  | cons s rest ih => simp only [sortShots, insertShot_sum, sumDurations, ih]

-- three shots in shuffled document order with two equal starts
example : (sortShots [{ start := 20, duration := 1 }, { start := 10, duration := 2 }, { start := 20, duration := 3 }, { start := 0, duration := 4 }]).map
    (fun s => (s.start, s.duration)) = [(0, 4), (10, 2), (20, 1), (20, 3)] := by decide

/-! ## generation -/

theorem foldl_durations (l : List Shot) : (l.map (·.duration)).foldl (· + ·) 0 = sumDurations l := by
  have gen : ∀ (acc : Nat) (l : List Shot), (l.map (·.duration)).foldl (· + ·) acc = acc + sumDurations l := by
    intro acc l
    induction l generalizing acc with
    | nil => simp [sumDurations]
    | cons x xs ih => simp only [List.map_cons, List.foldl_cons, sumDurations, ih]; omega
  simpa using gen 0 l

theorem writeAll_length (rs : List Rpu) (out : List Bytes) (h : writeAll rs = .ok out) : out.length = rs.length := by
  induction rs generalizing out with
  | nil => simp [writeAll] at h; subst h; rfl
  | cons r rest ih =>
    simp only [writeAll] at h
    cases hw : writeRpu r with
    | error => simp [hw, Res.bind] at h
    | panic => simp [hw, Res.bind] at h
    | ok o =>
      cases ht : writeAll rest with
      | error => simp [hw, ht, Res.bind] at h
      | panic => simp [hw, ht, Res.bind] at h
      | ok t =>
        simp [hw, ht, Res.bind] at h
        subst h
        simp [ih _ ht]

/-- one RPU per frame of every shot: the output has exactly the sum of the shot durations -/
theorem frame_count (c : Config) (l254 : Option (Nat × Nat)) (out : List Bytes) (h : generateXml c l254 = .ok out) :
    out.length = sumDurations c.shots := by
  unfold generateXml at h
  cases hl : generateListXml c l254 with
  | error => simp [hl, Res.bind] at h
  | panic => simp [hl, Res.bind] at h
  | ok rs =>
    simp only [hl, Res.bind] at h
    rw [writeAll_length rs out h]
    unfold generateListXml at hl
    cases hb : baseRpuXml c l254 with
    | error => simp [hb, Res.bind] at hl
    | panic => simp [hb, Res.bind] at hl
    | ok base =>
      simp only [hb, Res.bind] at hl
      rw [C10.allFrames_length c base _ rs hl, foldl_durations, sortShots_sum]

-- the hypothesis is satisfiable and the count is what the shots say (two shots in shuffled order: 3 + 2 frames)
example : sumDurations (sortShots [{ start := 5, duration := 2 }, { start := 0, duration := 3 }]) = 5 := by decide

/-- per-frame trims override the shot's trims only on their frame: a frame that no edit names is generated
from the shot's blocks alone -/
theorem frame_edit_only_its_frame (c : Config) (base : Rpu) (s : Shot) (i : Nat)
    (h : ∀ e ∈ s.edits, e.offset ≠ i) : frameRpu c base s i = frameRpu c base { s with edits := [] } i := by
  have hf : s.edits.find? (fun (e : FrameEdit) => e.offset == i) = none := by
    rw [List.find?_eq_none]
    intro e he
    simpa using h e he
  unfold frameRpu
  cases base.vdr_dm_data with
  | none => rfl
  | some d => simp [hf]

-- a shot with one edit at offset 1: frames 0 and 2 satisfy the hypothesis, frame 1 does not
example : (∀ e ∈ ([{ offset := 1, blocks := [] }] : List FrameEdit), e.offset ≠ 0) ∧
    ¬ (∀ e ∈ ([{ offset := 1, blocks := [] }] : List FrameEdit), e.offset ≠ 1) := by decide

/-- on its own frame, the edit's blocks are applied after (so: over) the shot's blocks -/
theorem frame_edit_on_its_frame (c : Config) (base : Rpu) (s : Shot) (i : Nat) (d : DmData) (e : FrameEdit)
    (hd : base.vdr_dm_data = some d) (he : s.edits.find? (fun (e : FrameEdit) => e.offset == i) = some e) :
    frameRpu c base s i =
      (((if i == 0 || c.longPlay then { d with scene_refresh_flag := 1 } else d).replaceBlocks s.blocks).bind
        fun d => d.replaceBlocks e.blocks).bind fun d => .ok { base with vdr_dm_data := some d } := by
  unfold frameRpu
  simp [hd, he]
  cases (DmData.replaceBlocks (if i = 0 ∨ c.longPlay = true then { d with scene_refresh_flag := 1 } else d) s.blocks) <;> rfl

end Dovi.C11
