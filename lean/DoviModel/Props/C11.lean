import DoviModel.Model.XmlSpec
import DoviModel.Props.C10
import DoviModel.Proofs.XmlMoreProof
import DoviModel.Proofs.XmlDocProof
/-!
# C11 — CM XML documents generate the documented integer encodings

The encodings are the functions of `Model/XmlSpec.lean` over scaled decimals (value · 10^6); the
generation path is `Xml.generateXml` (shots sorted stably by start, one RPU per frame, no L1 fix-up).
`vlib/c11.py` ties both to the real tool on every run: the functions against the exact-rational
specification and the generation against the CLI's bytes.
-/
namespace Dovi.C11
open Dovi Dovi.Gen Dovi.Xml

/-! ## rounding -/

/-- `roundDivNat num den` is a nearest integer to `num / den`: `|2·den·q − 2·num| ≤ den`, ties going up -/
theorem roundDivNat_nearest (num den : Nat) (h : 0 < den) :
    2 * den * roundDivNat num den ≤ 2 * num + den ∧ 2 * num < 2 * den * roundDivNat num den + den := by
  unfold roundDivNat
  have h2 : 0 < 2 * den := by omega
  have a := Nat.div_mul_le_self (2 * num + den) (2 * den)
  have b := Nat.lt_mul_div_succ (2 * num + den) h2
  rw [Nat.mul_comm] at a
  rw [Nat.mul_add] at b
  constructor <;> omega

/-- half away from zero: the rounding is odd -/
theorem roundHalfAway_neg (num : Int) (den : Nat) (h : num ≠ 0) :
    roundHalfAway (-num) den = -roundHalfAway num den := by
  unfold roundHalfAway
  rw [Int.natAbs_neg]
  by_cases hn : num < 0
  · have h2 : ¬ (-num < 0) := by omega
    rw [if_pos hn, if_neg h2, Int.neg_neg]
  · have h2 : -num < 0 := by omega
    rw [if_neg hn, if_pos h2]

example : roundHalfAway 5 2 = 3 ∧ roundHalfAway (-5) 2 = -3 ∧ roundHalfAway 7 3 = 2 ∧ roundHalfAway (-1) 3 = 0 := by decide

/-- a nearest integer never exceeds the multiplier when the ratio is at most one -/
theorem roundDivNat_mul_le (n a b : Nat) (hb : 0 < b) (hab : a ≤ b) : roundDivNat (n * a) b ≤ n := by
  unfold roundDivNat
  have h2 : 0 < 2 * b := by omega
  have hm : n * a ≤ n * b := Nat.mul_le_mul_left n hab
  have : (2 * (n * a) + b) / (2 * b) < n + 1 := by
    rw [Nat.div_lt_iff_lt_mul h2]
    have e : (n + 1) * (2 * b) = 2 * (n * b) + 2 * b := by
      rw [Nat.add_mul, Nat.one_mul, Nat.mul_left_comm]
    rw [e]
    omega
  omega

/-! ## trims -/

/-- every trim output fits its field: 12 bits for the trims, 8 bits for the vector fields -/
theorem trim_range (lift gain gamma v : Int) :
    slope12 lift gain ≤ 4095 ∧ offset12 lift gain ≤ 4095 ∧ power12 gamma ≤ 4095 ∧ lin12 v ≤ 4095 ∧ vec8 v ≤ 255 := by
  refine ⟨?_, ?_, ?_, ?_, ?_⟩
  · exact Nat.min_le_left _ _
  · exact Nat.min_le_left _ _
  · exact Nat.min_le_left _ _
  · exact Nat.min_le_left _ _
  · exact Nat.min_le_left _ _

/-- neutral trims encode as the mid-point 2048 (128 for the vector fields) -/
theorem trim_neutral :
    slope12 0 0 = 2048 ∧ offset12 0 0 = 2048 ∧ power12 0 = 2048 ∧ lin12 0 = 2048 ∧ vec8 0 = 128 := by decide

/-- the documented extremes: +1 clamps to 4095, −1 is 0; gamma +1 → 683, gamma −1 → 4095 (6144 clamped) -/
theorem trim_extremes :
    lin12 1000000 = 4095 ∧ lin12 (-1000000) = 0 ∧ lin12 (-3000000) = 0 ∧ lin12 100000000 = 4095 ∧
    vec8 1000000 = 255 ∧ vec8 (-1000000) = 0 ∧ power12 1000000 = 683 ∧ power12 (-1000000) = 4095 := by decide

/-- gamma is clamped to [−1, 1] before the power formula -/
theorem power_gamma_clamped (g : Int) :
    (1000000 ≤ g → power12 g = power12 1000000) ∧ (g ≤ -1000000 → power12 g = power12 (-1000000)) := by
  constructor
  · intro h
    have : clampGamma g = clampGamma 1000000 := by
      simp only [clampGamma, M]; omega
    simp only [power12, this]
  · intro h
    have : clampGamma g = clampGamma (-1000000) := by
      simp only [clampGamma, M]; omega
    simp only [power12, this]

-- the repository's sample trim (lift −0.015945, gain −0.032541, gamma 0.419015): 2013 / 2016 / 1339
example : slope12 (-15945) (-32541) = 2013 ∧ offset12 (-15945) (-32541) = 2016 ∧ power12 419015 = 1339 := by decide

/-- the L1 block of any `ImageCharacter` triple lies in the legal L1 ranges -/
theorem l1_range (cmv40 : Bool) (mn av mx : Int) :
    let v := (l1Block cmv40 mn av mx).vals
    0 ≤ v.getD 0 0 ∧ v.getD 0 0 ≤ 12 ∧ 2081 ≤ v.getD 1 0 ∧ v.getD 1 0 ≤ 4095 ∧
    (if cmv40 then 1229 else 819) ≤ v.getD 2 0 ∧ v.getD 2 0 ≤ v.getD 1 0 - 1 :=
  C10.l1_clamp_range cmv40 _ rfl

-- sample: "0 0.3 0.508078" → min 0, max 2081, avg 1229
example : (l1Block true 0 300000 508078).vals = [0, 2081, 1229] := by decide

/-! ## L8 length -/

theorem l8Length_mem (b : L8) : l8Length b = 10 ∨ l8Length b = 12 ∨ l8Length b = 13 ∨ l8Length b = 19 ∨ l8Length b = 25 := by
  unfold l8Length
  split
  · simp
  · split
    · simp
    · split
      · simp
      · split <;> simp

/-- decoding the block at the chosen length reproduces every field: the omitted ones hold their defaults -/
theorem l8_length_lossless (b : L8) : l8DecodeAt (l8Length b) b.vals = b.vals := by
  unfold l8Length
  by_cases hh : b.hueDefault
  · by_cases hs : b.satDefault
    · by_cases hc : b.clip = 2048
      · by_cases hm : b.mid = 2048
        · simp only [L8.hueDefault, L8.satDefault, Bool.and_eq_true, beq_iff_eq] at hh hs
          obtain ⟨⟨⟨⟨⟨h0, h1⟩, h2⟩, h3⟩, h4⟩, h5⟩ := hh
          obtain ⟨⟨⟨⟨⟨s0, s1⟩, s2⟩, s3⟩, s4⟩, s5⟩ := hs
          simp [L8.hueDefault, L8.satDefault, l8DecodeAt, blockParseLayout, blockDefaults, L8.vals, *]
        · simp only [L8.hueDefault, L8.satDefault, Bool.and_eq_true, beq_iff_eq] at hh hs
          obtain ⟨⟨⟨⟨⟨h0, h1⟩, h2⟩, h3⟩, h4⟩, h5⟩ := hh
          obtain ⟨⟨⟨⟨⟨s0, s1⟩, s2⟩, s3⟩, s4⟩, s5⟩ := hs
          simp [L8.hueDefault, L8.satDefault, l8DecodeAt, blockParseLayout, blockDefaults, L8.vals, *]
      · simp only [L8.hueDefault, L8.satDefault, Bool.and_eq_true, beq_iff_eq] at hh hs
        obtain ⟨⟨⟨⟨⟨h0, h1⟩, h2⟩, h3⟩, h4⟩, h5⟩ := hh
        obtain ⟨⟨⟨⟨⟨s0, s1⟩, s2⟩, s3⟩, s4⟩, s5⟩ := hs
        simp [L8.hueDefault, L8.satDefault, l8DecodeAt, blockParseLayout, blockDefaults, L8.vals, *]
    · simp only [L8.hueDefault, Bool.and_eq_true, beq_iff_eq] at hh
      obtain ⟨⟨⟨⟨⟨h0, h1⟩, h2⟩, h3⟩, h4⟩, h5⟩ := hh
      simp [L8.hueDefault, l8DecodeAt, blockParseLayout, blockDefaults, L8.vals, *]
  · simp [hh, l8DecodeAt, blockParseLayout, blockDefaults, L8.vals]

/-- no shorter length of the syntax holds the block: some non-default field would be lost -/
theorem l8_length_minimal (b : L8) (len : Nat) (hlen : len = 10 ∨ len = 12 ∨ len = 13 ∨ len = 19 ∨ len = 25)
    (hlt : len < l8Length b) : l8DecodeAt len b.vals ≠ b.vals := by
  intro heq
  unfold l8Length at hlt
  by_cases hh : b.hueDefault
  · by_cases hs : b.satDefault
    · by_cases hc : b.clip = 2048
      · by_cases hm : b.mid = 2048
        · simp [hh, hs, hc, hm] at hlt
          omega
        · simp [hh, hs, hc, hm] at hlt
          have : len = 10 := by omega
          subst this
          simp [l8DecodeAt, blockParseLayout, blockDefaults, L8.vals] at heq
          omega
      · simp [hh, hs, hc] at hlt
        have : len = 10 ∨ len = 12 := by omega
        rcases this with rfl | rfl <;>
          simp [l8DecodeAt, blockParseLayout, blockDefaults, L8.vals] at heq <;> omega
    · simp [hh, hs] at hlt
      have : len = 10 ∨ len = 12 ∨ len = 13 := by omega
      apply hs
      rcases this with rfl | rfl | rfl <;>
        simp [l8DecodeAt, blockParseLayout, blockDefaults, L8.vals] at heq <;>
        simp [L8.satDefault] <;> omega
  · simp [hh] at hlt
    have : len = 10 ∨ len = 12 ∨ len = 13 ∨ len = 19 := by omega
    apply hh
    rcases this with rfl | rfl | rfl | rfl <;>
      simp [l8DecodeAt, blockParseLayout, blockDefaults, L8.vals] at heq <;>
      simp [L8.hueDefault] <;> omega

/-- the two facts together, as the property states them -/
theorem l8_length_minimal_lossless (b : L8) :
    l8DecodeAt (l8Length b) b.vals = b.vals ∧
    ∀ len, (len = 10 ∨ len = 12 ∨ len = 13 ∨ len = 19 ∨ len = 25) → len < l8Length b → l8DecodeAt len b.vals ≠ b.vals :=
  ⟨l8_length_lossless b, fun len h1 h2 => l8_length_minimal b len h1 h2⟩

theorem l8_block_valid_of (b : L8)
    (h : b.slope ≤ 4095 ∧ b.offset ≤ 4095 ∧ b.power ≤ 4095 ∧ b.chroma ≤ 4095 ∧ b.satGain ≤ 4095 ∧ b.ms ≤ 4095 ∧
         b.mid ≤ 4095 ∧ b.clip ≤ 4095) : blockValidate b.block = true := by
  have hv1 : validBlockLength 8 (l8Length b) = true := by
    rcases l8Length_mem b with h | h | h | h | h <;> simp [validBlockLength, h]
  simp only [blockValidate, L8.block, L8.vals, List.getD_cons_zero, List.getD_cons_succ, hv1, Bool.and_eq_true,
    decide_eq_true_eq, true_and]
  omega

/-- the L8 block built from any XML values passes the writer's validation (length and 12-bit ranges) -/
theorem l8_block_valid (tid : Nat) (lift gain gamma chroma sat ms mid clip : Int) (sv hv : List Int) :
    blockValidate (l8OfXml tid lift gain gamma chroma sat ms mid clip sv hv).block = true := by
  apply l8_block_valid_of
  have r := trim_range lift gain gamma
  exact ⟨(r chroma).1, (r chroma).2.1, (r chroma).2.2.1, (r chroma).2.2.2.1, (r sat).2.2.2.1, (r ms).2.2.2.1,
         (r mid).2.2.2.1, (r clip).2.2.2.1⟩

-- the custom-displays sample: hue vector 0.25 at index 1 forces the full length 25
example : l8Length (l8OfXml 255 10000 20000 30000 40000 50000 60000 20000 (-18066) [0, 0, 0, 0, 170000, 0] [0, 250000, 0, 0, 0, 0]) = 25 := by decide
example : (l8OfXml 255 10000 20000 30000 40000 50000 60000 20000 (-18066) [0, 0, 0, 0, 170000, 0] [0, 250000, 0, 0, 0, 0]).vals =
    [255, 2068, 2069, 1987, 2130, 2150, 2171, 2089, 2011, 128, 128, 128, 128, 150, 128, 128, 160, 128, 128, 128, 128] := by decide
example : l8Length (l8OfXml 1 0 0 0 0 0 0 0 (-18066) [] []) = 13 := by decide

/-! ## L5 -/

/-- equal aspect ratios: zero offsets -/
theorem l5_equal (cw ch c : Nat) : l5Offsets cw ch c c = [0, 0, 0, 0] := by simp [l5Offsets]

/-- image narrower than the canvas: pillarbox; left + right = cw − round(cw·i/c), the halves differ by at most one -/
theorem l5_offsets_sum (cw ch c i : Nat) (hi : 0 < i) (hic : i < c) :
    ∃ l r, l5Offsets cw ch c i = [l, r, 0, 0] ∧ l + r + roundDivNat (cw * i) c = cw ∧ (r = l ∨ r = l + 1) := by
  have hle := roundDivNat_mul_le cw i c (by omega) (by omega)
  refine ⟨(cw - roundDivNat (cw * i) c) / 2, (cw - roundDivNat (cw * i) c) - (cw - roundDivNat (cw * i) c) / 2, ?_, ?_, ?_⟩
  · have h1 : c ≠ i := by omega
    have h2 : ¬ (i > c) := by omega
    simp [l5Offsets, h1, h2]
  · omega
  · omega

/-- image wider than the canvas: letterbox; top + bottom = ch − round(ch·c/i) -/
theorem l5_offsets_sum_wide (cw ch c i : Nat) (hc : 0 < c) (hci : c < i) :
    ∃ t b, l5Offsets cw ch c i = [0, 0, t, b] ∧ t + b + roundDivNat (ch * c) i = ch ∧ (b = t ∨ b = t + 1) := by
  have hle := roundDivNat_mul_le ch c i (by omega) (by omega)
  refine ⟨(ch - roundDivNat (ch * c) i) / 2, (ch - roundDivNat (ch * c) i) - (ch - roundDivNat (ch * c) i) / 2, ?_, ?_, ?_⟩
  · have h1 : c ≠ i := by omega
    have h2 : i > c := by omega
    simp [l5Offsets, h1, h2]
  · omega
  · omega

/-- without a canvas size the offsets are zero -/
theorem l5_no_canvas (c i : Nat) : (l5OfXml none c i).vals = [0, 0, 0, 0] := rfl

-- the samples: 3840x2160, canvas 1.77778: image 1.33333 → (480, 480, 0, 0); image 2.38806 → (0, 0, 276, 276)
example : l5Offsets 3840 2160 1777780 1333330 = [480, 480, 0, 0] ∧ l5Offsets 3840 2160 1777780 2388060 = [0, 0, 276, 276] := by decide

/-! ## primaries, L9, L10 -/

/-- the primaries index is one of the 9 + 10 presets or 255 (custom) -/
theorem primaries_preset_or_custom (rd : Bool) (p : List Int) : primaryIndex rd p = 255 ∨ primaryIndex rd p < 19 := by
  unfold primaryIndex
  split
  · rename_i k hk
    obtain ⟨h, _⟩ := List.findIdx?_eq_some_iff_getElem.mp hk
    have : colorspacePrimaries.length = 9 := rfl
    omega
  · split
    · split
      · rename_i k hk
        obtain ⟨h, _⟩ := List.findIdx?_eq_some_iff_getElem.mp hk
        have : colorspacePrimaries.length = 9 := rfl
        have : realdevicePrimaries.length = 10 := rfl
        omega
      · exact Or.inl rfl
    · exact Or.inl rfl

/-- a preset index is only given on an exact match with a table row -/
theorem primaries_preset_exact (rd : Bool) (p : List Int) (h : primaryIndex rd p ≠ 255) :
    p ∈ colorspacePrimaries ∨ (rd = true ∧ p ∈ realdevicePrimaries) := by
  unfold primaryIndex at h
  split at h
  · rename_i k hk
    obtain ⟨hlt, heq, _⟩ := List.findIdx?_eq_some_iff_getElem.mp hk
    have : colorspacePrimaries[k] = p := by simpa using heq
    exact Or.inl (this ▸ List.getElem_mem hlt)
  · split at h
    · rename_i hrd
      split at h
      · rename_i k hk
        obtain ⟨hlt, heq, _⟩ := List.findIdx?_eq_some_iff_getElem.mp hk
        have : realdevicePrimaries[k] = p := by simpa using heq
        exact Or.inr ⟨hrd, this ▸ List.getElem_mem hlt⟩
      · exact absurd rfl h
    · exact absurd rfl h

/-- every colour-space preset is recognised (never encoded as custom) -/
theorem primaries_preset_recognised (rd : Bool) (p : List Int) (h : p ∈ colorspacePrimaries) : primaryIndex rd p < 9 := by
  unfold primaryIndex
  split
  · rename_i k hk
    obtain ⟨hlt, _⟩ := List.findIdx?_eq_some_iff_getElem.mp hk
    have : colorspacePrimaries.length = 9 := rfl
    omega
  · rename_i hnone
    have := List.findIdx?_eq_none_iff.mp hnone p h
    simp at this

/-- L9: length 1 with a preset index, or length 17 with index 255 and the custom values -/
theorem l9_preset_or_custom (p : List Int) :
    ((l9OfXml p).length = 1 ∧ (l9OfXml p).vals.getD 0 0 ≠ 255 ∧ (l9OfXml p).vals.getD 0 0 < 19) ∨
    ((l9OfXml p).length = 17 ∧ (l9OfXml p).vals = (255 : Int) :: p.map fun v => (prim16 v : Int)) := by
  unfold l9OfXml
  by_cases h : primaryIndex true p = 255
  · right; simp [h]
  · left
    have := primaries_preset_or_custom true p
    simp [h]
    omega

/-- L10 blocks are produced only for custom target ids -/
theorem l10_only_custom_ids (ts : List (Nat × Nat × Nat × List Int)) :
    ∀ b ∈ l10Defaults ts, ∀ k ∈ presetTargets, b.vals.getD 0 0 ≠ (k : Int) := by
  intro b hb k hk
  unfold l10Defaults at hb
  obtain ⟨t, ht, rfl⟩ := List.mem_map.mp hb
  obtain ⟨_, hf⟩ := List.mem_filter.mp ht
  have hne : t.1 ≠ k := by
    intro e
    subst e
    simp [hk] at hf
  unfold l10OfXml
  by_cases h : primaryIndex false t.2.2.2 = 255
  · simp [h]; omega
  · simp [h]; omega

-- BT.709 → 1; the first real-device row → 9; DCI-P3 D65 (also real-device row 3) → 0; one unit off → custom
example : primaryIndex true [640000, 330000, 300000, 600000, 150000, 60000, 312700, 329000] = 1 ∧
    primaryIndex true [693000, 304000, 208000, 761000, 146700, 52700, 312700, 329000] = 9 ∧
    primaryIndex false [693000, 304000, 208000, 761000, 146700, 52700, 312700, 329000] = 255 ∧
    primaryIndex true [680000, 320000, 265000, 690000, 150000, 60000, 312700, 329000] = 0 ∧
    primaryIndex true [680000, 320000, 265000, 690000, 150000, 60000, 312700, 329001] = 255 := by decide
-- the custom-displays sample: L9 custom values
example : (l9OfXml [681000, 322000, 265300, 694000, 155000, 66000, 312770, 329800]).vals =
    [255, 22314, 10551, 8693, 22740, 5079, 2163, 10249, 10807] := by decide
example : (l10Defaults [(1, 2081, 62, [640000, 330000, 300000, 600000, 150000, 60000, 312700, 329000]),
                        (255, 2081, 62, [641000, 332000, 330000, 640000, 155000, 66000, 312770, 329800])]).map (·.length) = [21] := by decide

/-! ## shots -/

theorem insertShot_perm (s : Shot) (l : List Shot) : (insertShot s l).Perm (s :: l) := by
  induction l with
  | nil => exact List.Perm.refl _
  | cons x xs ih =>
    simp only [insertShot]
    split
    · exact (List.Perm.cons x ih).trans (List.Perm.swap s x xs)
    · exact List.Perm.refl _

/-- sorting only reorders the shots -/
theorem sortShots_perm (l : List Shot) : (sortShots l).Perm l := by
  induction l with
  | nil => exact List.Perm.refl _
  | cons s rest ih => exact (insertShot_perm s _).trans (List.Perm.cons s ih)

theorem insertShot_sorted (s : Shot) (l : List Shot) (h : l.Pairwise (fun a b => a.start ≤ b.start)) :
    (insertShot s l).Pairwise (fun a b => a.start ≤ b.start) := by
  induction l with
  | nil => simp [insertShot]
  | cons x xs ih =>
    rw [List.pairwise_cons] at h
    simp only [insertShot]
    split
    · rename_i hlt
      rw [List.pairwise_cons]
      refine ⟨?_, ih h.2⟩
      intro y hy
      have := (insertShot_perm s xs).mem_iff.mp hy
      rcases List.mem_cons.mp this with rfl | hm
      · omega
      · exact h.1 y hm
    · rename_i hge
      rw [List.pairwise_cons]
      refine ⟨?_, List.pairwise_cons.mpr h⟩
      intro y hy
      rcases List.mem_cons.mp hy with rfl | hm
      · omega
      · have := h.1 y hm
        omega

/-- the generated shot order is ascending by start frame -/
theorem shots_sorted (l : List Shot) : (sortShots l).Pairwise (fun a b => a.start ≤ b.start) := by
  induction l with
  | nil => simp [sortShots]
  | cons s rest ih => exact insertShot_sorted s _ ih

theorem insertShot_filter (s : Shot) (l : List Shot) (k : Nat) :
    (insertShot s l).filter (fun x => x.start == k) = (s :: l).filter (fun x => x.start == k) := by
  induction l with
  | nil => rfl
  | cons x xs ih =>
    simp only [insertShot]
    split
    · rename_i hlt
      by_cases hx : x.start = k
      · have hs : ¬ (s.start = k) := by omega
        simp [hx, hs] at ih ⊢
        exact ih
      · by_cases hs : s.start = k
        · simp [hx, hs] at ih ⊢
          exact ih
        · simp [hx, hs] at ih ⊢
          exact ih
    · rfl

/-- the sort is stable: shots with equal starts keep their document order -/
theorem shots_sort_stable (l : List Shot) (k : Nat) :
    (sortShots l).filter (fun x => x.start == k) = l.filter (fun x => x.start == k) := by
  induction l with
  | nil => rfl
  | cons s rest ih =>
    simp only [sortShots]
    rw [insertShot_filter, List.filter_cons, List.filter_cons, ih]

theorem insertShot_sum (s : Shot) (l : List Shot) : sumDurations (insertShot s l) = s.duration + sumDurations l := by
  induction l with
  | nil => rfl
  | cons x xs ih =>
    simp only [insertShot]
    split
    · simp only [sumDurations, ih]; omega
    · rfl

theorem sortShots_sum (l : List Shot) : sumDurations (sortShots l) = sumDurations l := by
  induction l with
  | nil => rfl
  | cons s rest ih => simp only [sortShots, insertShot_sum, sumDurations, ih]

-- three shots in shuffled document order with two equal starts
example : (sortShots [{ start := 20, duration := 1 }, { start := 10, duration := 2 }, { start := 20, duration := 3 }, { start := 0, duration := 4 }]).map
    (fun s => (s.start, s.duration)) = [(0, 4), (10, 2), (20, 1), (20, 3)] := by decide

/-! ## generation -/

theorem foldl_durations (l : List Shot) : (l.map (·.duration)).foldl (· + ·) 0 = sumDurations l := by
  have gen : ∀ (acc : Nat) (l : List Shot), (l.map (·.duration)).foldl (· + ·) acc = acc + sumDurations l := by
    intro acc l
    induction l generalizing acc with
    | nil => simp [sumDurations]
    | cons x xs ih => simp only [List.map_cons, List.foldl_cons, sumDurations, ih]; omega
  simpa using gen 0 l

theorem writeAll_length (rs : List Rpu) (out : List Bytes) (h : writeAll rs = .ok out) : out.length = rs.length := by
  induction rs generalizing out with
  | nil => simp [writeAll] at h; subst h; rfl
  | cons r rest ih =>
    simp only [writeAll] at h
    cases hw : writeRpu r with
    | error => simp [hw, Res.bind] at h
    | panic => simp [hw, Res.bind] at h
    | ok o =>
      cases ht : writeAll rest with
      | error => simp [hw, ht, Res.bind] at h
      | panic => simp [hw, ht, Res.bind] at h
      | ok t =>
        simp [hw, ht, Res.bind] at h
        subst h
        simp [ih _ ht]

/-- one RPU per frame of every shot: the output has exactly the sum of the shot durations -/
theorem frame_count (c : Config) (l254 : Option (Nat × Nat)) (out : List Bytes) (h : generateXml c l254 = .ok out) :
    out.length = sumDurations c.shots := by
  unfold generateXml at h
  cases hl : generateListXml c l254 with
  | error => simp [hl, Res.bind] at h
  | panic => simp [hl, Res.bind] at h
  | ok rs =>
    simp only [hl, Res.bind] at h
    rw [writeAll_length rs out h]
    unfold generateListXml at hl
    cases hb : baseRpuXml c l254 with
    | error => simp [hb, Res.bind] at hl
    | panic => simp [hb, Res.bind] at hl
    | ok base =>
      simp only [hb, Res.bind] at hl
      rw [C10.allFrames_length c base _ rs hl, foldl_durations, sortShots_sum]

-- the hypothesis is satisfiable and the count is what the shots say (two shots in shuffled order: 3 + 2 frames)
example : sumDurations (sortShots [{ start := 5, duration := 2 }, { start := 0, duration := 3 }]) = 5 := by decide

/-- per-frame trims override the shot's trims only on their frame: a frame that no edit names is generated
from the shot's blocks alone -/
theorem frame_edit_only_its_frame (c : Config) (base : Rpu) (s : Shot) (i : Nat)
    (h : ∀ e ∈ s.edits, e.offset ≠ i) : frameRpu c base s i = frameRpu c base { s with edits := [] } i := by
  have hf : s.edits.find? (fun (e : FrameEdit) => e.offset == i) = none := by
    rw [List.find?_eq_none]
    intro e he
    simpa using h e he
  unfold frameRpu
  cases base.vdr_dm_data with
  | none => rfl
  | some d => simp [hf]

-- a shot with one edit at offset 1: frames 0 and 2 satisfy the hypothesis, frame 1 does not
example : (∀ e ∈ ([{ offset := 1, blocks := [] }] : List FrameEdit), e.offset ≠ 0) ∧
    ¬ (∀ e ∈ ([{ offset := 1, blocks := [] }] : List FrameEdit), e.offset ≠ 1) := by decide

/-- on its own frame, the edit's blocks are applied after (so: over) the shot's blocks -/
theorem frame_edit_on_its_frame (c : Config) (base : Rpu) (s : Shot) (i : Nat) (d : DmData) (e : FrameEdit)
    (hd : base.vdr_dm_data = some d) (he : s.edits.find? (fun (e : FrameEdit) => e.offset == i) = some e) :
    frameRpu c base s i =
      (((if i == 0 || c.longPlay then { d with scene_refresh_flag := 1 } else d).replaceBlocks s.blocks).bind
        fun d => d.replaceBlocks e.blocks).bind fun d => .ok { base with vdr_dm_data := some d } := by
  unfold frameRpu
  simp [hd, he]
  cases (DmData.replaceBlocks (if i = 0 ∨ c.longPlay = true then { d with scene_refresh_flag := 1 } else d) s.blocks) <;> rfl

end Dovi.C11

/-! # Audit additions: PQ from nits, L6, L3, L11, L254, L10, clamp order, per-frame override at list level

`Model/XmlSpec.lean` takes the PQ codes of a target display, `config.level6`, the L11 default block and the L254
pair as already-computed integers.  Their value functions over scaled decimals are `Dovi.XmlMore.pqOfNits`,
`pqOfDecimal`, `pqOfMinLum`, `l6OfXml`, `l11OfXml`, `l254Block` (`Proofs/XmlMoreProof.lean`); the PQ codes are
the certified tables of `Model/PqTable.lean` (`C19.pq_table_certified`, `pq_minlum_certified`,
`codeOfRat_certified`: within `1/2 − 10⁻⁶` of `4095·PQ`).  Every encoding of `Model/XmlSpec.lean` is
`clampRound hi A D = min hi (toNat (round_half_away (A / D)))`, characterised by `clampRound_ge_iff`.
-/
namespace Dovi.C11
open Dovi Dovi.Gen Dovi.Xml Dovi.XmlMore Dovi.PqTable Dovi.EditGenProof.Gen

/-! ## rounding, clamping, and their order -/

/-- **all encodings round to nearest (ties away from zero) and clamp AFTER the affine map**: for `1 ≤ k ≤ hi` the
encoded value is at least `k` exactly when the exact un-clamped value `A / D` is at least `k − 1/2` -/
theorem encoding_threshold (hi k : Nat) (A : Int) (D : Nat) (hD : 0 < D) (hk : 1 ≤ k) (hkh : k ≤ hi) :
    k ≤ clampRound hi A D ↔ (2 * (k : Int) - 1) * D ≤ 2 * A :=
  clampRound_ge_iff hi k A D hD hk hkh

example : (0 : Nat) < M ∧ 1 ≤ 2048 ∧ 2048 ≤ 4095 := by decide

/-- the three regimes of an encoding: 0 below 1/2, `hi` from `hi − 1/2` on, the nearest integer in between;
monotone in the exact value; exact on integers -/
theorem encoding_regimes (hi : Nat) (A : Int) (D : Nat) (hD : 0 < D) (hhi : 1 ≤ hi) :
    clampRound hi A D ≤ hi ∧
    (clampRound hi A D = 0 ↔ 2 * A < D) ∧
    (clampRound hi A D = hi ↔ (2 * (hi : Int) - 1) * D ≤ 2 * A) ∧
    (1 ≤ clampRound hi A D → clampRound hi A D < hi →
      (2 * (clampRound hi A D : Int) - 1) * D ≤ 2 * A ∧ 2 * A < (2 * (clampRound hi A D : Int) + 1) * D) ∧
    (∀ B : Int, A ≤ B → clampRound hi A D ≤ clampRound hi B D) ∧
    (∀ k : Nat, k ≤ hi → clampRound hi ((k : Int) * D) D = k) :=
  ⟨clampRound_le hi A D, clampRound_eq_zero_iff hi A D hD hhi, clampRound_eq_hi_iff hi A D hD hhi,
   clampRound_nearest hi A D hD, fun B h => clampRound_mono hi A B D hD h, fun k hk => clampRound_int hi k D hD hk⟩

/-- which `clampRound` each encoding of `Model/XmlSpec.lean` is: the exact numerator is built from the
UN-clamped document values (only gamma is clamped before the map, as documented) -/
theorem encodings_are_clampRound (lift gain gamma v : Int) :
    lin12 v = clampRound 4095 (v * 2048 + 2048 * M) M ∧
    slope12 lift gain = clampRound 4095 (((gain + 2 * M) * (2 * M - lift) - 4 * M * M) * 2048 + 2048 * (2 * M * M)) (2 * M * M) ∧
    offset12 lift gain = clampRound 4095 ((gain + 2 * M) * lift * 2048 + 2048 * (2 * M * M)) (2 * M * M) ∧
    power12 gamma = clampRound 4095 (2048 * (2 * M - clampGamma gamma)) (2 * M + clampGamma gamma).toNat ∧
    vec8 v = clampRound 255 (v * 128 + 128 * M) M ∧
    pq12 v = clampRound 65535 (v * 4095) M ∧
    l3off v = clampRound 65535 (v * 2048 + 2048 * M) M ∧
    prim16 v = clampRound 65535 (v * 32767) M :=
  ⟨lin12_eq v, slope12_eq lift gain, offset12_eq lift gain, power12_eq gamma, vec8_eq v, pq12_eq v, l3off_eq v, prim16_eq v⟩

/-- the linear trims are monotone in the document value and saturate exactly where the exact value crosses
4094.5 (resp. 0.5): `v·2048 + 2048 ≥ 4094.5 ⇔ v ≥ 0.999267578125` -/
theorem lin12_mono_sat (v w : Int) :
    (v ≤ w → lin12 v ≤ lin12 w) ∧ (lin12 v = 4095 ↔ 999267578125 ≤ v * 1000000) ∧
    (lin12 v = 0 ↔ v * 1000000 < -999755859375) := by
  refine ⟨fun h => ?_, ?_, ?_⟩
  · rw [lin12_eq, lin12_eq]
    exact clampRound_mono _ _ _ _ M_pos (by omega)
  · rw [lin12_eq, clampRound_eq_hi_iff _ _ _ M_pos (by decide)]
    simp only [M]
    omega
  · rw [lin12_eq, clampRound_eq_zero_iff _ _ _ M_pos (by decide)]
    simp only [M]
    omega

/-- the same for the vector fields, L1 values, L3 offsets and custom primaries -/
theorem encodings_mono (v w : Int) (h : v ≤ w) :
    vec8 v ≤ vec8 w ∧ pq12 v ≤ pq12 w ∧ l3off v ≤ l3off w ∧ prim16 v ≤ prim16 w := by
  rw [vec8_eq, vec8_eq, pq12_eq, pq12_eq, l3off_eq, l3off_eq, prim16_eq, prim16_eq]
  exact ⟨clampRound_mono _ _ _ _ M_pos (by omega), clampRound_mono _ _ _ _ M_pos (by omega),
    clampRound_mono _ _ _ _ M_pos (by omega), clampRound_mono _ _ _ _ M_pos (by omega)⟩

/-- slope is monotone in gain (for lift ≤ 2) and offset is monotone in gain (for lift ≥ 0): the products use the
un-clamped factors -/
theorem slope_offset_mono_gain (lift g g' : Int) (h : g ≤ g') :
    (lift ≤ 2 * M → slope12 lift g ≤ slope12 lift g') ∧ (0 ≤ lift → offset12 lift g ≤ offset12 lift g') := by
  have hD : 0 < 2 * M * M := by decide
  constructor
  · intro hl
    rw [slope12_eq, slope12_eq]
    apply clampRound_mono _ _ _ _ hD
    have h1 : (g + 2 * M) * (2 * M - lift) ≤ (g' + 2 * M) * (2 * M - lift) :=
      Int.mul_le_mul_of_nonneg_right (by omega) (by omega)
    omega
  · intro hl
    rw [offset12_eq, offset12_eq]
    apply clampRound_mono _ _ _ _ hD
    have h1 : (g + 2 * M) * lift ≤ (g' + 2 * M) * lift := Int.mul_le_mul_of_nonneg_right (by omega) hl
    have h2 : (g + 2 * M) * lift * 2048 ≤ (g' + 2 * M) * lift * 2048 := Int.mul_le_mul_of_nonneg_right h1 (by decide)
    omega

/-- **clamp order**: lift and gain enter the slope / offset products un-clamped and only the result is clamped.
Lift 2.0, gain 1.0: the exact slope value is −2048 → 0, whereas clamping the inputs to [−1, 1] first (the seeded
change C11-2) gives 1024.  Lift 1.0, gain −1.5: offset 2560, with the gain clamped first 3072.  Values beyond
the range saturate at the ends: slope 4095 for lift −2.0 / gain 1.0 and for gain 3.0, 0 for gain −3.0 -/
theorem clamp_after_map_witness :
    slope12 2000000 1000000 = 0 ∧ slope12 (max (-1000000) (min 1000000 2000000)) 1000000 = 1024 ∧
    slope12 (-2000000) 1000000 = 4095 ∧ slope12 0 3000000 = 4095 ∧ slope12 0 (-3000000) = 0 ∧
    offset12 1000000 2000000 = 4095 ∧ offset12 1000000 (-1500000) = 2560 ∧
    offset12 1000000 (max (-1000000) (min 1000000 (-1500000))) = 3072 := by decide

/-- **clamp order, for a whole region of inputs**: for every lift ≥ 2.0 and gain ≥ 1.0 the slope is 0 (the exact
value is negative: the factors are used un-clamped), whereas the same formula on inputs clamped to [−1, 1]
first gives 1024 — the two orders disagree on all of these documents -/
theorem slope_clamp_order (lift gain : Int) (hl : 2 * M ≤ lift) (hg : (M : Int) ≤ gain) :
    slope12 lift gain = 0 ∧ slope12 (max (-(M : Int)) (min M lift)) (max (-(M : Int)) (min M gain)) = 1024 := by
  constructor
  · rw [slope12_eq, clampRound_eq_zero_iff _ _ _ (by decide) (by decide)]
    have h0 : (0 : Int) ≤ gain + 2 * M := by simp only [M] at hg ⊢; omega
    have h1 : (2 * (M : Int) - lift) ≤ 0 := by omega
    have hp : (gain + 2 * M) * (2 * M - lift) ≤ (gain + 2 * M) * 0 := Int.mul_le_mul_of_nonneg_left h1 h0
    rw [Int.mul_zero] at hp
    generalize (gain + 2 * M) * (2 * M - lift) = pr at hp
    simp only [M]
    omega
  · have e1 : max (-(M : Int)) (min M lift) = M := by simp only [M] at hl ⊢; omega
    have e2 : max (-(M : Int)) (min M gain) = M := by simp only [M] at hg ⊢; omega
    rw [e1, e2]
    decide

example : 2 * (M : Int) ≤ 2500000 ∧ (M : Int) ≤ 1000000 := by decide

/-! ## PQ codes from nits (L2 / L10 targets, source levels) -/

/-- the code of an integer luminance is a 12-bit value, non-decreasing in the luminance, over all `u16` inputs -/
theorem pq_nits_range_mono : (∀ n, pqOfNits n ≤ 4095) ∧ (∀ a b, a ≤ b → pqOfNits a ≤ pqOfNits b) :=
  ⟨pqOfNits_le, pqOfNits_mono⟩

/-- the anchors: 0 → 0, 100 → 2081, 600 → 2851, 1000 → 3079, 2000 → 3388, 4000 → 3696, 10000 → 4095, and the
saturation above 10000 nits -/
theorem pq_nits_anchors :
    pqOfNits 0 = 0 ∧ pqOfNits 100 = 2081 ∧ pqOfNits 600 = 2851 ∧ pqOfNits 1000 = 3079 ∧ pqOfNits 2000 = 3388 ∧
    pqOfNits 4000 = 3696 ∧ pqOfNits 10000 = 4095 ∧ pqOfNits 10001 = 4095 ∧ pqOfNits 65535 = 4095 := by
  decide +kernel

/-- inside the table the code is the certified one (`C19.pq_table_certified`: within 1/2 − 10⁻⁶ of `4095·PQ(n)`) -/
theorem pq_nits_table (n : Nat) (hn : n ≤ 10000) : pqOfNits n = codeOfNits n ∧ inBracket n 10000 (pqOfNits n) = true := by
  have : pqOfNits n = codeOfNits n := by simp [pqOfNits, hn]
  exact ⟨this, this ▸ nits_inBracket n hn⟩

/-- decimal luminances (`target_min_pq`): 12-bit, non-decreasing, the integer-nits table on whole nits and the
min-luminance table on the four-decimal grid -/
theorem pq_decimal_props :
    (∀ mn c, pqOfDecimal mn = some c → c ≤ 4095) ∧
    (∀ a b c c', a ≤ b → pqOfDecimal a = some c → pqOfDecimal b = some c' → c ≤ c') ∧
    (∀ n c, n ≤ 10000 → pqOfDecimal (n * M) = some c → c = pqOfNits n) ∧
    (∀ k c, k ≤ 10000 → pqOfDecimal (k * 100) = some c → c = pqOfMinLum k) := by
  refine ⟨pqOfDecimal_le, pqOfDecimal_mono, ?_, pqOfDecimal_grid⟩
  intro n c hn h
  rw [pqOfDecimal_nits n c hn h]
  simp [pqOfNits, hn]

-- 0.005 nits → 62, 0.0001 nits → 7, 0 → 0, 100 nits → 2081, 0.0007 nits → 21 (0.0006 would be 19), 10000 → 4095, above: none
example : pqOfDecimal 5000 = some 62 ∧ pqOfDecimal 100 = some 7 ∧ pqOfDecimal 0 = some 0 ∧
    pqOfDecimal 100000000 = some 2081 ∧ pqOfDecimal 700 = some 21 ∧ pqOfDecimal 600 = some 19 ∧
    pqOfDecimal 10000000000 = some 4095 ∧ pqOfDecimal 10000000001 = none := by decide +kernel

/-- the source minimum code (from the L6 minimum luminance in 1/10000 nit): 12-bit, non-decreasing, anchors -/
theorem pq_minlum_props :
    (∀ k, k ≤ 10000 → pqOfMinLum k ≤ 4095) ∧ (∀ a b, a ≤ b → b ≤ 10000 → pqOfMinLum a ≤ pqOfMinLum b) ∧
    pqOfMinLum 0 = 0 ∧ pqOfMinLum 1 = 7 ∧ pqOfMinLum 6 = 19 ∧ pqOfMinLum 7 = 21 ∧ pqOfMinLum 50 = 62 ∧
    pqOfMinLum 10000 = 614 := by
  refine ⟨codeOfMinLum_le, codeOfMinLum_mono, ?_, ?_, ?_, ?_, ?_, ?_⟩ <;> decide +kernel

/-- **L2**: the block of a trim for a target of `n ≤ 10000` nits carries the target's PQ code in its first field
and passes the writer's validation for every trim value -/
theorem l2_target (n : Nat) (hn : n ≤ 10000) (lift gain gamma chroma sat ms : Int) :
    let b := l2OfXml (pqOfNits n) lift gain gamma chroma sat ms
    b.vals.getD 0 0 = (pqOfNits n : Int) ∧ b.level = 2 ∧ b.length = 11 ∧ blockValidate b = true := by
  have h0 := pqOfNits_le n
  have r := trim_range lift gain gamma
  have r1 := (r chroma).1
  have r2 := (r chroma).2.1
  have r3 := (r chroma).2.2.1
  have r4 := (r chroma).2.2.2.1
  have r5 := (r sat).2.2.2.1
  have r6 := (r ms).2.2.2.1
  refine ⟨rfl, rfl, rfl, ?_⟩
  simp only [blockValidate, l2OfXml, List.getD_cons_zero, List.getD_cons_succ, Bool.and_eq_true, decide_eq_true_eq]
  omega

example : (l2OfXml (pqOfNits 100) (-15945) (-32541) 419015 0 0 0).vals = [2081, 2013, 2016, 1339, 2048, 2048, 2048] := by
  decide +kernel

/-! ## L6: MaxCLL, MaxFALL, mastering display luminances -/

/-- every L6 field computed from the document fits 16 bits; negative values read as 0 -/
theorem l6_range (v : Int) :
    l6Light v ≤ 65535 ∧ l6MinLum v ≤ 65535 ∧ (v ≤ 0 → l6Light v = 0 ∧ l6MinLum v = 0) := by
  refine ⟨clampRound_le _ _ _, clampRound_le _ _ _, fun h => ⟨?_, ?_⟩⟩
  · exact (clampRound_eq_zero_iff _ _ _ M_pos (by decide)).2 (by simp only [M]; omega)
  · exact (clampRound_eq_zero_iff _ _ _ M_pos (by decide)).2 (by simp only [M]; omega)

/-- **the minimum luminance is rounded to the nearest 1/10000 nit** (not truncated): strictly inside the `u16`
range the stored value `q` satisfies `q − 1/2 ≤ v·10000 < q + 1/2`; it is 0 below 0.00005 nits; it is
non-decreasing in `v` -/
theorem l6_minlum_nearest (v : Int) :
    (1 ≤ l6MinLum v → l6MinLum v < 65535 →
      (2 * (l6MinLum v : Int) - 1) * M ≤ 2 * (v * 10000) ∧ 2 * (v * 10000) < (2 * (l6MinLum v : Int) + 1) * M) ∧
    (l6MinLum v = 0 ↔ v < 50) ∧ (∀ w, v ≤ w → l6MinLum v ≤ l6MinLum w) := by
  refine ⟨clampRound_nearest _ _ _ M_pos, ?_, fun w h => clampRound_mono _ _ _ _ M_pos (by omega)⟩
  unfold l6MinLum
  rw [clampRound_eq_zero_iff _ _ _ M_pos (by decide)]
  simp only [M]
  omega

/-- every four-decimal value `k/10000` is read as `k` — in particular 0.0007 as 7 (the repaired defect read 6) -/
theorem l6_minlum_grid (k : Nat) (hk : k ≤ 65535) : l6MinLum ((k : Int) * 100) = k := by
  unfold l6MinLum
  have : (k : Int) * 100 * 10000 = (k : Int) * M := by simp only [M]; omega
  rw [this]
  exact clampRound_int _ k M M_pos hk

example : l6MinLum 700 = 7 ∧ l6MinLum 50 = 1 ∧ l6MinLum 49 = 0 ∧ l6MinLum 799 = 8 ∧ l6MinLum 749 = 7 ∧ l6MinLum 750 = 8 ∧
    l6MinLum 5000 = 50 ∧ l6MinLum 100 = 1 ∧ l6MinLum (-700) = 0 ∧ l6MinLum 7000000 = 65535 := by decide

/-- MaxCLL / MaxFALL are rounded to the nearest integer (ties up), exact on integers, non-decreasing -/
theorem l6_light (v : Int) :
    (1 ≤ l6Light v → l6Light v < 65535 →
      (2 * (l6Light v : Int) - 1) * M ≤ 2 * v ∧ 2 * v < (2 * (l6Light v : Int) + 1) * M) ∧
    (∀ k : Nat, k ≤ 65535 → l6Light ((k : Int) * M) = k) ∧ (∀ w, v ≤ w → l6Light v ≤ l6Light w) :=
  ⟨clampRound_nearest _ _ _ M_pos, fun k hk => clampRound_int _ k M M_pos hk,
   fun w h => clampRound_mono _ _ _ _ M_pos h⟩

example : l6Light 1000000000 = 1000 ∧ l6Light 400500000 = 401 ∧ l6Light 400499999 = 400 ∧ l6Light (-1) = 0 ∧
    l6Light 70000000000 = 65535 := by decide

/-- the L6 block of the document: fields in struct order, and it passes the writer's validation exactly when
all four values are at most 10000 -/
theorem l6_block (peak : Nat) (minLum maxCll maxFall : Int) :
    (l6Block (l6OfXml peak minLum maxCll maxFall)).vals =
      [(peak : Int), (l6MinLum minLum : Int), (l6Light maxCll : Int), (l6Light maxFall : Int)] ∧
    (blockValidate (l6Block (l6OfXml peak minLum maxCll maxFall)) = true ↔
      peak ≤ 10000 ∧ l6MinLum minLum ≤ 10000 ∧ l6Light maxCll ≤ 10000 ∧ l6Light maxFall ≤ 10000) := by
  refine ⟨rfl, ?_⟩
  simp only [blockValidate, l6Block, l6OfXml, List.map_cons, List.map_nil, List.getD_cons_zero, List.getD_cons_succ,
    Bool.and_eq_true, decide_eq_true_eq, Int.ofNat_eq_natCast]
  omega

-- the repository sample: 1000 / 0.0001 nits mastering display, MaxCLL 1000, MaxFALL 400
example : l6OfXml 1000 100 1000000000 400000000 = [1000, 1, 1000, 400] ∧ sourceMinPqOfXml 100 = 7 ∧
    pqOfNits 1000 = 3079 := by decide +kernel

/-- the source levels derived from the mastering display: both are 12-bit codes for a mastering display inside
the PQ range, `source_min_pq` is non-decreasing in the minimum luminance and `source_max_pq` in the peak -/
theorem source_levels (minLum minLum' : Int) (peak peak' : Nat) :
    (l6MinLum minLum ≤ 10000 → sourceMinPqOfXml minLum ≤ 4095) ∧
    (minLum ≤ minLum' → l6MinLum minLum' ≤ 10000 → sourceMinPqOfXml minLum ≤ sourceMinPqOfXml minLum') ∧
    pqOfNits peak ≤ 4095 ∧ (peak ≤ peak' → pqOfNits peak ≤ pqOfNits peak') :=
  ⟨fun h => codeOfMinLum_le _ h,
   fun h h' => codeOfMinLum_mono _ _ ((l6_minlum_nearest minLum).2.2 minLum' h) h',
   pqOfNits_le peak, pqOfNits_mono peak peak'⟩

/-! ## L3 -/

/-- L3 offsets: neutral 0 ↦ 2048, non-decreasing, NOT clamped to 12 bits — the value fits 12 bits exactly for
offsets below 0.999755859375, so an offset of +1.0 encodes as 4096 and the block is not writable -/
theorem l3_props (v : Int) :
    l3off 0 = 2048 ∧ l3off (-1000000) = 0 ∧ l3off 1000000 = 4096 ∧ l3off v ≤ 65535 ∧
    (l3off v ≤ 4095 ↔ v * 1000000 < 999755859375) := by
  refine ⟨by decide, by decide, by decide, ?_, ?_⟩
  · rw [l3off_eq]; exact clampRound_le _ _ _
  · rw [l3off_eq]
    have := clampRound_ge_iff 65535 4096 (v * 2048 + 2048 * M) M M_pos (by decide) (by decide)
    simp only [M] at this ⊢
    omega

/-- the L3 block: XML order (min, avg, max) ↦ struct order (min, max, avg); writable iff all three fit 12 bits -/
theorem l3_block (mn av mx : Int) :
    (l3Block mn av mx).vals = [(l3off mn : Int), (l3off mx : Int), (l3off av : Int)] ∧
    (blockValidate (l3Block mn av mx) = true ↔ l3off mn ≤ 4095 ∧ l3off mx ≤ 4095 ∧ l3off av ≤ 4095) := by
  refine ⟨rfl, ?_⟩
  simp only [blockValidate, l3Block, List.getD_cons_zero, List.getD_cons_succ, Bool.and_eq_true, decide_eq_true_eq]
  omega

example : (l3Block (-10000) 20000 30000).vals = [2028, 2109, 2089] ∧ blockValidate (l3Block 0 0 1000000) = false := by decide

/-! ## L11 and L254 -/

/-- the L11 block of a `Level11` node: content type, white point, reference mode flag 0, reserved 0;
writable iff both values are at most 15 -/
theorem l11_block (ct wp : Nat) :
    (l11OfXml ct wp).vals = [(ct : Int), (wp : Int), 0, 0, 0] ∧ (l11OfXml ct wp).length = 4 ∧
    (blockValidate (l11OfXml ct wp) = true ↔ ct ≤ 15 ∧ wp ≤ 15) := by
  refine ⟨rfl, rfl, ?_⟩
  simp only [blockValidate, l11OfXml, List.getD_cons_zero, List.getD_cons_succ, Bool.and_eq_true, decide_eq_true_eq,
    beq_self_eq_true, and_true]
  omega

/-- **L11 of the base DM data**: for a CM v4.0 document the stored L11 block is the last L11 default block
(the one built from the `Level11` node), and the static default `[1, 0, 1, 0, 0]` exactly when there is none;
CM v2.9 documents have no L11 -/
theorem xml_base_l11 (c : Config) (l254 : Option (Nat × Nat)) (dm0 : DmData) (h : dmFromXmlConfig c l254 = .ok dm0)
    (x : Block) (hx : x.level = 11) :
    x ∈ dm0.levelBlocks 11 ↔
      c.cmv40 = true ∧ (c.defaults.reverse.find? (fun b => b.level == 11) = some x ∨
        (c.defaults.all (fun b => b.level != 11) = true ∧ x = l11Static)) := by
  obtain ⟨_, _, hh, _, _, _, _, hm⟩ := dmFromXmlConfig_spec c l254 dm0 h
  have hk : ∀ b : Block, sameKey x b = (b.level == 11) := by
    intro b
    rw [sameKey_unkeyed (by rw [hx]; rfl), hx]
    exact Bool.beq_comm
  have hk' : ∀ b : Block, sameKey b x = (b.level == 11) := by
    intro b; rw [sameKey_symm]; exact hk b
  have hfun : sameKey x = fun b => b.level == 11 := funext hk
  have hdef : (defaultBlocks c).reverse.find? (fun b => b.level == 11) = c.defaults.reverse.find? (fun b => b.level == 11) := by
    unfold defaultBlocks
    rw [← List.filter_reverse, List.find?_filter]
    congr 1
    funext b
    by_cases hb : b.level = 11 <;> simp [hb]
  have hall : (defaultBlocks c).all (fun b => !sameKey b x) = c.defaults.all (fun b => b.level != 11) := by
    unfold defaultBlocks
    rw [List.all_filter]
    congr 1
    funext b
    rw [hk']
    by_cases hb : b.level = 11
    · simp [hb]
    · have e : (b.level == 11) = false := by simpa using hb
      simp [e, bne]
  have hholds : holds dm0 11 ↔ c.cmv40 = true := by
    rw [hh]; simp [cmv29Levels, cmv40Levels]
  have hst : (statics c).reverse.find? (sameKey x) = some l11Static := by
    rw [hfun]
    unfold statics
    cases c.level6 <;> rfl
  have hstall : (statics c).all (fun b => !sameKey b x) = false := by
    unfold statics
    cases c.level6 <;> simp [hk']
  have := hm x
  rw [hx] at this
  rw [this, hfun, hdef, hall, hholds, ← hfun, hst, hstall]
  constructor
  · rintro (⟨a, b⟩ | ⟨a, b, e⟩ | ⟨_, e, _⟩)
    · exact ⟨a, .inl b⟩
    · exact ⟨b, .inr ⟨a, by injection e with e; exact e.symm⟩⟩
    · cases e
  · rintro ⟨a, b | ⟨b, e⟩⟩
    · exact .inl ⟨a, b⟩
    · exact .inr (.inl ⟨b, a, by rw [e]⟩)

-- a document with a Level11 node (content type 2, white point 0) and one without
example : ([l11OfXml 2 0] : List Block).reverse.find? (fun b => b.level == 11) = some (l11OfXml 2 0) ∧
    ([] : List Block).all (fun b => b.level != 11) = true := by decide

/-- **L254 by CM version**: a CM v4.0 document (XML 4.0.2 / 5.x) stores exactly one L254 block, with the
`Level254` node's `DMMode` / `DMVersion` or `(0, 2)` without a node; a CM v2.9 document (XML 2.0.5) stores none
(there is no CM v4.0 container at all) -/
theorem xml_base_l254 (c : Config) (l254 : Option (Nat × Nat)) (dm0 : DmData) (h : dmFromXmlConfig c l254 = .ok dm0)
    (hd : ∀ b ∈ c.defaults, b.level ≠ 254) (x : Block) (hx : x.level = 254) :
    (x ∈ dm0.levelBlocks 254 ↔ c.cmv40 = true ∧ x = l254Block l254) ∧
    (l254Block none).vals = [0, 2] ∧ (∀ m v, (l254Block (some (m, v))).vals = [(m : Int), (v : Int)]) ∧
    (c.cmv40 = false → ∀ lv ∈ cmv40Levels, ¬ holds dm0 lv) := by
  obtain ⟨_, _, hh, _, _, _, _, hm⟩ := dmFromXmlConfig_spec c l254 dm0 h
  refine ⟨?_, rfl, fun _ _ => rfl, ?_⟩
  · have hk' : ∀ b : Block, sameKey b x = (b.level == 254) := by
      intro b
      rw [sameKey_symm, sameKey_unkeyed (by rw [hx]; rfl), hx]
      exact Bool.beq_comm
    have hdall : (defaultBlocks c).all (fun b => !sameKey b x) = true := by
      rw [List.all_eq_true]
      intro b hb
      have hb' : b ∈ c.defaults := (List.mem_filter.1 hb).1
      rw [hk']
      simp [hd b hb']
    have hsall : (statics c).all (fun b => !sameKey b x) = true := by
      unfold statics
      cases c.level6 <;> simp [hk']
    have hdn := (all_not_iff_find_none _ x).1 hdall
    have hsn := (all_not_iff_find_none _ x).1 hsall
    have := hm x
    rw [hx] at this
    rw [this, hdn, hsn, hdall, hsall]
    simp
  · intro hc lv hlv
    rw [hh]
    simp only [hc, Bool.false_eq_true, false_and, or_false]
    revert lv
    decide

/-- **L6 of every generated frame**: the L6 block of the base DM data is the block of `config.level6` (default
blocks of level 6 are ignored), the source levels are the config's -/
theorem xml_base_l6 (c : Config) (l254 : Option (Nat × Nat)) (dm0 : DmData) (h : dmFromXmlConfig c l254 = .ok dm0)
    (v : List Nat) (hv : c.level6 = some v) (x : Block) (hx : x.level = 6) :
    (x ∈ dm0.levelBlocks 6 ↔ x = l6Block v) ∧
    (∀ a, c.sourceMinPq = some a → dm0.main[29]? = some (a : Int)) ∧
    (∀ a, c.sourceMaxPq = some a → dm0.main[30]? = some (a : Int)) := by
  obtain ⟨_, _, hh, _, _, h29, h30, hm⟩ := dmFromXmlConfig_spec c l254 dm0 h
  refine ⟨?_, h29, h30⟩
  have hk' : ∀ b : Block, sameKey b x = (b.level == 6) := by
    intro b
    rw [sameKey_symm, sameKey_unkeyed (by rw [hx]; rfl), hx]
    exact Bool.beq_comm
  have hfun : sameKey x = fun b => b.level == 6 := by
    funext b; rw [sameKey_symm]; exact hk' b
  have hdall : (defaultBlocks c).all (fun b => !sameKey b x) = true := by
    rw [List.all_eq_true]
    intro b hb
    have hb' := (List.mem_filter.1 hb).2
    rw [hk']
    simp only [Bool.and_eq_true, bne_iff_ne, ne_eq] at hb'
    simp [hb'.2]
  have hdn := (all_not_iff_find_none _ x).1 hdall
  have hst : (statics c).reverse.find? (sameKey x) = some (l6Block v) := by
    rw [hfun]; unfold statics; rw [hv]; rfl
  have hholds : holds dm0 6 := by rw [hh]; simp [cmv29Levels]
  have hsall : (statics c).all (fun b => !sameKey b x) = false := by
    unfold statics; rw [hv]; simp [hk']
  have := hm x
  rw [hx] at this
  rw [this, hdn, hst, hdall, hsall]
  simp only [reduceCtorEq, and_false, false_or, true_and, Bool.false_eq_true, false_and, or_false, Option.some.injEq]
  constructor
  · rintro ⟨_, e⟩; exact e.symm
  · intro e; exact ⟨hholds, e.symm⟩

-- the hypotheses of the three base-DM theorems are satisfiable, and the stored blocks are the documented ones:
-- a CM v4.0 document with a Level11 node (2, 0), a Level254 node (0, 2), 1000 / 0.0001-nit mastering display
def exXmlCfg : Config :=
  { level6 := some (l6OfXml 1000 100 1000000000 400000000), defaults := [l11OfXml 2 0],
    sourceMinPq := some (sourceMinPqOfXml 100), sourceMaxPq := some 3079 }

example : ∃ dm0, dmFromXmlConfig exXmlCfg (some (0, 2)) = .ok dm0 ∧
    dm0.levelBlocks 11 = [l11OfXml 2 0] ∧ dm0.levelBlocks 254 = [l254Block (some (0, 2))] ∧
    dm0.levelBlocks 6 = [l6Block [1000, 1, 1000, 400]] ∧ dm0.main[29]? = some 7 ∧ dm0.main[30]? = some 3079 := by
  refine ⟨_, rfl, ?_⟩
  decide +kernel

-- without a Level11 node the static default is stored; a CM v2.9 document stores neither L11 nor L254
example : ∃ dm0, dmFromXmlConfig { exXmlCfg with defaults := [] } none = .ok dm0 ∧
    dm0.levelBlocks 11 = [l11Static] ∧ dm0.levelBlocks 254 = [l254Block none] := by
  refine ⟨_, rfl, ?_⟩
  decide +kernel

example : ∃ dm0, dmFromXmlConfig { exXmlCfg with cmv40 := false } none = .ok dm0 ∧
    dm0.levelBlocks 11 = [] ∧ dm0.levelBlocks 254 = [] ∧ dm0.cmv40 = none := by
  refine ⟨_, rfl, ?_⟩
  decide +kernel

/-! ## L10: one block per custom target display -/

/-- custom primaries: non-negative 16-bit values, `round(v·32767)`; 1.0 ↦ 32767; values below 0.0000153 (in
particular negative coordinates) encode as 0, which the L9 / L10 syntax does not accept for a custom set -/
theorem prim16_props (v : Int) :
    prim16 v ≤ 65535 ∧ prim16 0 = 0 ∧ prim16 1000000 = 32767 ∧ (prim16 v = 0 ↔ v ≤ 15) ∧
    (1 ≤ prim16 v → prim16 v < 65535 →
      (2 * (prim16 v : Int) - 1) * M ≤ 2 * (v * 32767) ∧ 2 * (v * 32767) < (2 * (prim16 v : Int) + 1) * M) := by
  refine ⟨by rw [prim16_eq]; exact clampRound_le _ _ _, by decide, by decide, ?_, ?_⟩
  · rw [prim16_eq, clampRound_eq_zero_iff _ _ _ M_pos (by decide)]
    simp only [M]
    omega
  · rw [prim16_eq]
    exact clampRound_nearest _ _ _ M_pos

/-- L10 (colour-space presets only): the index is 255 exactly when the primaries are not a preset row -/
theorem primaries_custom_iff (p : List Int) : primaryIndex false p = 255 ↔ p ∉ colorspacePrimaries := by
  constructor
  · intro h hp
    have := primaries_preset_recognised false p hp
    omega
  · intro h
    apply Decidable.byContradiction
    intro hne
    rcases primaries_preset_exact false p hne with h1 | ⟨h2, _⟩
    · exact h h1
    · cases h2

/-- **the L10 block of a target display**: id, maximum and minimum PQ in the first three fields; index 255,
length 21 and the custom values `round(v·32767)` exactly when the primaries are not a colour-space preset,
otherwise the preset's index (below 9), length 5 and zeros -/
theorem l10_block_fields (tid mx mn : Nat) (p : List Int) :
    (l10OfXml tid mx mn p).level = 10 ∧
    (l10OfXml tid mx mn p).vals.take 3 = [(tid : Int), (mx : Int), (mn : Int)] ∧
    ((l10OfXml tid mx mn p).vals.getD 3 0 = 255 ↔ p ∉ colorspacePrimaries) ∧
    (p ∉ colorspacePrimaries → (l10OfXml tid mx mn p).length = 21 ∧
      (l10OfXml tid mx mn p).vals.drop 4 = p.map fun v => (prim16 v : Int)) ∧
    (p ∈ colorspacePrimaries → (l10OfXml tid mx mn p).length = 5 ∧
      (l10OfXml tid mx mn p).vals.getD 3 0 = (primaryIndex false p : Int) ∧ primaryIndex false p < 9 ∧
      (l10OfXml tid mx mn p).vals.drop 4 = List.replicate 8 0) := by
  have hc := primaries_custom_iff p
  unfold l10OfXml
  by_cases h : primaryIndex false p = 255
  · have hp := hc.1 h
    simp [h, hp]
  · have hp : p ∈ colorspacePrimaries := Decidable.not_not.1 (fun hn => h (hc.2 hn))
    have hlt := primaries_preset_recognised false p hp
    simp [h, hp, hlt]
    omega

/-- **one L10 block per custom target display, in target order**; preset ids get none -/
theorem l10_one_per_custom_target (ts : List (Nat × Nat × Nat × List Int)) :
    (l10Defaults ts).map (fun b => b.vals.getD 0 0) =
      (ts.filter fun t => !presetTargets.contains t.1).map (fun t => (t.1 : Int)) ∧
    (l10Defaults ts).length = (ts.filter fun t => !presetTargets.contains t.1).length ∧
    (∀ b ∈ l10Defaults ts, ∃ t ∈ ts, t.1 ∉ presetTargets ∧ b = l10OfXml t.1 t.2.1 t.2.2.1 t.2.2.2) ∧
    (∀ t ∈ ts, t.1 ∉ presetTargets → l10OfXml t.1 t.2.1 t.2.2.1 t.2.2.2 ∈ l10Defaults ts) := by
  have hid : ∀ (tid mx mn : Nat) (p : List Int), (l10OfXml tid mx mn p).vals.getD 0 0 = (tid : Int) := by
    intro tid mx mn p
    unfold l10OfXml
    by_cases h : primaryIndex false p = 255 <;> simp [h]
  refine ⟨?_, by simp [l10Defaults], ?_, ?_⟩
  · unfold l10Defaults
    rw [List.map_map]
    apply List.map_congr_left
    intro t _
    exact hid _ _ _ _
  · intro b hb
    unfold l10Defaults at hb
    obtain ⟨t, ht, rfl⟩ := List.mem_map.1 hb
    obtain ⟨h1, h2⟩ := List.mem_filter.1 ht
    exact ⟨t, h1, by simpa using h2, rfl⟩
  · intro t ht hn
    unfold l10Defaults
    exact List.mem_map.2 ⟨t, List.mem_filter.2 ⟨ht, by simpa using hn⟩, rfl⟩

/-- with the PQ codes computed from the target's nits (`peak` integer nits, minimum `mn·10⁻⁶` nits), both codes
are 12-bit values -/
theorem l10_target_codes (tid peak mn minPq : Nat) (p : List Int) (h : pqOfDecimal mn = some minPq) :
    (l10OfXml tid (pqOfNits peak) minPq p).vals.getD 1 0 = (pqOfNits peak : Int) ∧ pqOfNits peak ≤ 4095 ∧
    (l10OfXml tid (pqOfNits peak) minPq p).vals.getD 2 0 = (minPq : Int) ∧ minPq ≤ 4095 := by
  have h3 := (l10_block_fields tid (pqOfNits peak) minPq p).2.1
  have e1 : (l10OfXml tid (pqOfNits peak) minPq p).vals.getD 1 0 = ((l10OfXml tid (pqOfNits peak) minPq p).vals.take 3).getD 1 0 := by
    simp [List.getD_eq_getElem?_getD, List.getElem?_take]
  have e2 : (l10OfXml tid (pqOfNits peak) minPq p).vals.getD 2 0 = ((l10OfXml tid (pqOfNits peak) minPq p).vals.take 3).getD 2 0 := by
    simp [List.getD_eq_getElem?_getD, List.getElem?_take]
  rw [e1, e2, h3]
  exact ⟨rfl, pqOfNits_le peak, rfl, pqOfDecimal_le mn minPq h⟩

-- target 255: 100 nits, 0.005 nits, custom primaries → max 2081, min 62, length 21; target 1 (preset id): no block
example : (l10Defaults [(1, pqOfNits 100, 62, [640000, 330000, 300000, 600000, 150000, 60000, 312700, 329000]),
                        (255, pqOfNits 100, 62, [641000, 332000, 330000, 640000, 155000, 66000, 312770, 329800])]).map
            (fun b => (b.length, b.vals.take 4)) = [(21, [255, 2081, 62, 255])] ∧ pqOfDecimal 5000 = some 62 := by
  decide +kernel

/-! ## per-frame trims override the shot's trims only on their frame — at list level -/

/-- an edit applies to offset `i` exactly when some edit of the shot names `i` (the first such edit is used) -/
theorem frame_edit_exists_iff (s : Shot) (i : Nat) :
    (∃ e, s.edits.find? (fun (e : FrameEdit) => e.offset == i) = some e) ↔ ∃ e ∈ s.edits, e.offset = i :=
  find_edit_iff s i

/-- **per-frame override, over the whole generated list**: for every shot (in sorted order) and every offset
`i` below its duration, the RPU at index `start + i` of the output is built from the shot-only frame (the frame
the shot generates without any edits — it always exists): it IS that frame when no edit names offset `i`, and
when the first edit naming `i` is `e` it is that frame with `e`'s blocks replaced in: per key the last block of
`e` with that key, every other key keeps the shot-only frame's block -/
theorem xml_frame_override (c : Config) (l254 : Option (Nat × Nat)) (l : List Rpu)
    (h : generateListXml c l254 = .ok l) :
    ∃ dm0, dmFromXmlConfig c l254 = .ok dm0 ∧
      ∀ (k : Nat) (hk : k < (sortShots c.shots).length) (i : Nat), i < (sortShots c.shots)[k].duration →
        ∃ r d0, l[startOf (sortShots c.shots) k + i]? = some r ∧
          frameRpu c (baseXml dm0) { (sortShots c.shots)[k] with edits := [] } i =
            .ok { baseXml dm0 with vdr_dm_data := some d0 } ∧ Uniq d0 ∧
          ((∀ e ∈ (sortShots c.shots)[k].edits, e.offset ≠ i) → r = { baseXml dm0 with vdr_dm_data := some d0 }) ∧
          (∀ e, (sortShots c.shots)[k].edits.find? (fun (e : FrameEdit) => e.offset == i) = some e →
            ∃ d, r = { baseXml dm0 with vdr_dm_data := some d } ∧ d0.replaceBlocks e.blocks = .ok d ∧ Uniq d ∧
              shell d = shell d0 ∧
              ∀ x : Block, x ∈ d.levelBlocks x.level ↔
                (holds d0 x.level ∧ e.blocks.reverse.find? (sameKey x) = some x) ∨
                (e.blocks.all (fun b => !sameKey b x) = true ∧ x ∈ d0.levelBlocks x.level)) := by
  obtain ⟨dm0, h1, hu, hf, hall⟩ := generateListXml_frames c l254 l h
  refine ⟨dm0, h1, ?_⟩
  intro k hk i hi
  obtain ⟨r, hr1, hr2⟩ := hall k hk i hi
  obtain ⟨d0, d, e1, u0, _, _, e2, e3⟩ := frameRpu_split c (baseXml dm0) _ i r dm0 rfl hf hu hr2
  refine ⟨r, d0, hr1, e1, u0, ?_, ?_⟩
  · intro hno
    rw [editBlocks_nil_of_no_edit _ i hno] at e2
    simp only [DmData.replaceBlocks, Res.ok.injEq] at e2
    rw [e3, e2]
  · intro e he
    have hb : editBlocks (sortShots c.shots)[k] i = e.blocks := by simp [editBlocks, he]
    rw [hb] at e2
    obtain ⟨a1, a2, _, a4⟩ := replaceBlocks_spec e.blocks d0 d u0 e2
    exact ⟨d, e3, e2, a1, a2, a4⟩

-- the hypotheses are satisfiable: a CM v4.0 document with two shots in shuffled document order; the shot
-- starting at 5 has an L3 edit at offset 1 → output index 2; only that frame carries the L3 block
def exEditCfg : Config :=
  { level6 := some [1000, 1, 1000, 400],
    shots := [{ start := 5, duration := 2, edits := [{ offset := 1, blocks := [l3Block 0 0 0] }] },
              { start := 0, duration := 1 }] }

example : ∃ l, generateListXml exEditCfg none = .ok l ∧ l.length = 3 ∧
    l.map (fun r => r.vdr_dm_data.map fun d => d.levelBlocks 3) = [some [], some [], some [l3Block 0 0 0]] ∧
    l.map (fun r => r.vdr_dm_data.map fun d => d.levelBlocks 6) =
      [some [l6Block [1000, 1, 1000, 400]], some [l6Block [1000, 1, 1000, 400]], some [l6Block [1000, 1, 1000, 400]]] := by
  refine ⟨_, rfl, ?_⟩
  decide +kernel

example : ∀ s ∈ exEditCfg.shots, (∀ b ∈ s.blocks, b.level ≠ 6) ∧ ∀ e ∈ s.edits, ∀ b ∈ e.blocks, b.level ≠ 6 := by decide

/-- **precedence, over the whole generated list** (the XML counterpart of `C10.gen_precedence`): per key the
block of a frame is the one of the applicable frame edit, else the shot's, else the base DM data's -/
theorem xml_precedence (c : Config) (l254 : Option (Nat × Nat)) (l : List Rpu)
    (h : generateListXml c l254 = .ok l) :
    ∃ dm0, dmFromXmlConfig c l254 = .ok dm0 ∧ Uniq dm0 ∧
      ∀ (k : Nat) (hk : k < (sortShots c.shots).length) (i : Nat), i < (sortShots c.shots)[k].duration →
        ∃ r d, l[startOf (sortShots c.shots) k + i]? = some r ∧ r = { baseXml dm0 with vdr_dm_data := some d } ∧
          Uniq d ∧ shell d = { shell dm0 with scene_refresh_flag := cutFlag c i } ∧
          (∀ lv, holds d lv ↔ holds dm0 lv) ∧
          ∀ x : Block, x ∈ d.levelBlocks x.level ↔
            (holds dm0 x.level ∧ (editBlocks (sortShots c.shots)[k] i).reverse.find? (sameKey x) = some x) ∨
            ((editBlocks (sortShots c.shots)[k] i).all (fun b => !sameKey b x) = true ∧ holds dm0 x.level ∧
              (sortShots c.shots)[k].blocks.reverse.find? (sameKey x) = some x) ∨
            ((editBlocks (sortShots c.shots)[k] i).all (fun b => !sameKey b x) = true ∧
              (sortShots c.shots)[k].blocks.all (fun b => !sameKey b x) = true ∧ x ∈ dm0.levelBlocks x.level) := by
  obtain ⟨dm0, h1, hu, hf, hall⟩ := generateListXml_frames c l254 l h
  refine ⟨dm0, h1, hu, ?_⟩
  intro k hk i hi
  obtain ⟨r, hr1, hr2⟩ := hall k hk i hi
  obtain ⟨d, e1, e2, e3, e4, e5⟩ := frameRpu_spec c (baseXml dm0) _ i r dm0 rfl hf hu hr2
  exact ⟨r, d, hr1, e1, e2, e3, e4, e5⟩

/-- **L6 and the source levels of every generated frame**: a CM XML document has no per-shot L6, so every frame
carries exactly the L6 block of the document's `Level6` / `MasteringDisplay` nodes -/
theorem xml_l6_every_frame (c : Config) (l254 : Option (Nat × Nat)) (l : List Rpu)
    (h : generateListXml c l254 = .ok l) (v : List Nat) (hv : c.level6 = some v)
    (hs : ∀ s ∈ c.shots, (∀ b ∈ s.blocks, b.level ≠ 6) ∧ ∀ e ∈ s.edits, ∀ b ∈ e.blocks, b.level ≠ 6) :
    ∀ (k : Nat) (hk : k < (sortShots c.shots).length) (i : Nat), i < (sortShots c.shots)[k].duration →
      ∃ r d, l[startOf (sortShots c.shots) k + i]? = some r ∧ r.vdr_dm_data = some d ∧
        ∀ x : Block, x.level = 6 → (x ∈ d.levelBlocks 6 ↔ x = l6Block v) := by
  obtain ⟨dm0, h1, hu, hall⟩ := xml_precedence c l254 l h
  intro k hk i hi
  obtain ⟨r, d, hr, e1, _, _, _, e5⟩ := hall k hk i hi
  refine ⟨r, d, hr, by rw [e1], ?_⟩
  intro x hx
  have hmem : (sortShots c.shots)[k] ∈ c.shots := (sortShots_perm c.shots).mem_iff.1 (List.getElem_mem hk)
  obtain ⟨hsb, hse⟩ := hs _ hmem
  have hnot : ∀ bs : List Block, (∀ b ∈ bs, b.level ≠ 6) → bs.all (fun b => !sameKey b x) = true := by
    intro bs hb
    rw [List.all_eq_true]
    intro b hbm
    have : sameKey b x = false := sameKey_false_of_level (by rw [hx]; exact hb b hbm)
    simp [this]
  have hedit : ∀ b ∈ editBlocks (sortShots c.shots)[k] i, b.level ≠ 6 := by
    intro b hb
    unfold editBlocks at hb
    split at hb
    · rename_i e he
      exact hse e (List.mem_of_find?_eq_some he) b hb
    · cases hb
  have a1 := hnot _ hedit
  have a2 := hnot _ hsb
  have n1 := (all_not_iff_find_none _ x).1 a1
  have n2 := (all_not_iff_find_none _ x).1 a2
  have := e5 x
  rw [hx] at this
  rw [this, n1, n2, a1, a2]
  simp only [reduceCtorEq, and_false, false_or, true_and]
  exact (xml_base_l6 c l254 dm0 h1 v hv x hx).1

end Dovi.C11

/-! # Document level: from the tokenised XML document to the RPUs (`Model/XmlDoc.lean`)

`XmlDoc.configOfDoc` is `CmXmlParser::new` on an already tokenised document (`XmlDoc.Doc`: what roxmltree's
lookups return, decimals as scaled integers): version detection, the `HOME` filter of the target displays, which
trims are kept (`trim_target_is_known`), block order, defaults, errors and `unwrap()` panics in the parser's
order.  `XmlDoc.generateDoc` composes it with `Xml.generateXml`; `vlib/c11.py` runs every generated document
through it (`xml.doc`) and compares the model's RPUs with the real CLI's byte for byte.
The theorems below are about that composition: (a) frame count and contiguity, (b) what every frame of a shot
carries, (c) which trims are dropped, (d) the global blocks, (e) when the parser fails or panics.
-/
namespace Dovi.C11
open Dovi Dovi.Gen Dovi.Xml Dovi.XmlMore Dovi.PqTable Dovi.EditGenProof.Gen Dovi.XmlDoc Dovi.XmlDocProof

/-! ## (e) when the parser succeeds, fails, panics -/

/-- **the parser succeeds exactly on the valid documents whose integers fit their Rust types, and then the
config is `docConfig`**: `docValid` = a version (`DolbyLabsMDF@version` or `Version`) that the fold classifies as
2.0.5, 4.0.2, 5.0.0 or ≥ 5.1.0; an `Output` and a `Video` node; every `TargetDisplay` with 8 primaries values and
(XML ≥ 5.0) an `ApplicationType`; every level node of every shot and frame edit well formed (`nodeOk`: L1 / L3 with
3 values, L5 with 2, L9 with 8, and — only when its `TID` names a kept target — L2 with 9, L8 with 6 + 6 + 6 values
and a target id below 256).  `docFits` = mastering peak and every target peak ≤ 65535, L254 / L11 values ≤ 255,
and for CM v4.0 documents every kept target id ≤ 255 -/
theorem doc_config_ok_iff (o : Opts) (d : Doc) (c : Config) :
    configOfDoc o d = .ok c ↔ docValid o d ∧ docFits d ∧ c = docConfig o d :=
  configOfDoc_ok_iff o d c

/-- **`configOfDoc` never panics on a document whose integers fit** (version of at most four components, each at
most 15 — every version the parser accepts is of this form — and `docFits`), **nor does the generation that
follows** (`generateDoc` panics only where `configOfDoc` does: the generator and the writer return errors),
**and then `configOfDoc` errors exactly on the documents that are not valid**.  (Outside `docFits` the parser does
panic: the examples below.)  Not covered: `usize` overflow of `Record/In`, `Duration`, `EditOffset` and of the
duration sum -/
theorem doc_config_no_panic (o : Opts) (d : Doc)
    (hver : ∀ comps, d.version = some comps → comps.length ≤ 4 ∧ ∀ v ∈ comps, v ≤ 15) (hf : docFits d) :
    configOfDoc o d ≠ .panic ∧ generateDoc o d ≠ .panic ∧ (configOfDoc o d = .error ↔ ¬ docValid o d) := by
  have hnp : configOfDoc o d ≠ .panic :=
    configOfDoc_ne_panic o d (fun comps hc => versionRev_ne_panic comps (hver comps hc).1 (hver comps hc).2) hf
  refine ⟨hnp, fun h => hnp ((generateDoc_panic_iff o d).1 h), ?_⟩
  cases hc : configOfDoc o d with
  | panic => exact absurd hc hnp
  | error =>
    simp only [true_iff]
    intro hv
    have := (configOfDoc_ok_iff o d (docConfig o d)).2 ⟨hv, hf, rfl⟩
    rw [hc] at this; cases this
  | ok c =>
    simp only [reduceCtorEq, false_iff]
    exact fun hn => hn ((configOfDoc_ok_iff o d c).1 hc).1

/-- version detection: `a.b.c ↦ 0xabc`; 2.0.5 is CM v2.9, 4.0.2 / 5.0.0 / 5.1.0 and everything above 5.1.0 is
CM v4.0, from 5.0.0 on with the `HOME` filter; 4.0.3, 5.0.1, 2.0.4, … are rejected; a fifth component, a component
above 65535 or a sum above 65535 panics (dev profile) -/
theorem doc_version_classes :
    versionRev [2, 0, 5] = .ok 0x205 ∧ versionRev [4, 0, 2] = .ok 0x402 ∧ versionRev [5, 1, 0] = .ok 0x510 ∧
    (∀ rev, versionSupported rev = true ↔ rev = 0x205 ∨ rev = 0x402 ∨ rev = 0x500 ∨ rev ≥ 0x510) ∧
    (∀ rev, versionSupported rev = true → (isCmv4 rev = true ↔ rev ≠ 0x205) ∧ (isV5 rev = true ↔ rev ≥ 0x500)) ∧
    versionRev [4, 0, 2, 0, 0] = .panic ∧ versionRev [70000] = .panic ∧ versionRev [15, 15, 15, 16] = .panic ∧
    versionRev [256, 0, 0] = .ok 0 := by
  refine ⟨by decide, by decide, by decide, ?_, ?_, by decide, by decide, by decide, by decide⟩
  · intro rev
    unfold versionSupported
    split
    · simp only [Bool.or_eq_true, beq_iff_eq, decide_eq_true_eq]; omega
    · simp only [beq_iff_eq]; omega
  · intro rev h
    unfold versionSupported at h
    unfold isCmv4 isV5
    simp only [decide_eq_true_eq]
    refine ⟨?_, trivial⟩
    split at h
    · simp only [Bool.or_eq_true, beq_iff_eq, decide_eq_true_eq] at h; omega
    · simp only [beq_iff_eq] at h; omega

/-! ## (a) one RPU per frame of every shot, shots by `Record/In`, frames of a shot contiguous -/

/-- **frame count**: the output has one RPU per frame of every `Shot` node: the sum of the `Record/Duration`s
(0 for a shot without `Record`) -/
theorem doc_frame_count (o : Opts) (d : Doc) (out : List Bytes) (h : generateDoc o d = .ok out) :
    out.length = (d.shotNodes.map ShotNode.duration).sum := by
  obtain ⟨rs, hrs, hw⟩ := generateDoc_ok o d out h
  obtain ⟨_, _, _, hg⟩ := generateListDoc_ok o d rs hrs
  have hx : generateXml (docConfig o d) (l254OfDoc d) = .ok out := by
    unfold generateXml; rw [hg]; exact hw
  rw [frame_count _ _ out hx]
  show sumDurations (sortShots (d.shotNodes.map (shotOf (d.ctx o)))) = _
  rw [sortShots_sum, sumDurations_map]

/-- **the shots of the config**: the document's `Shot` nodes converted one by one (`shotOf`: start and duration
from `Record`, own trims, one edit per `Frame`), sorted by start — non-decreasing, a permutation, shots with equal
starts in document order — and the config length is the sum of the durations -/
theorem doc_shots_sorted (o : Opts) (d : Doc) (c : Config) (h : configOfDoc o d = .ok c) :
    c.shots = sortShots (d.shotNodes.map (shotOf (d.ctx o))) ∧
    c.shots.Pairwise (fun a b => a.start ≤ b.start) ∧
    c.shots.Perm (d.shotNodes.map (shotOf (d.ctx o))) ∧
    (∀ k, c.shots.filter (fun s => s.start == k) = (d.shotNodes.map (shotOf (d.ctx o))).filter (fun s => s.start == k)) ∧
    (∀ s ∈ c.shots, ∃ n ∈ d.shotNodes, s = shotOf (d.ctx o) n) ∧
    c.length = (d.shotNodes.map ShotNode.duration).sum := by
  obtain ⟨_, _, rfl⟩ := (configOfDoc_ok_iff o d c).1 h
  refine ⟨rfl, shots_sorted _, sortShots_perm _, shots_sort_stable _, ?_, ?_⟩
  · intro s hs
    have : s ∈ d.shotNodes.map (shotOf (d.ctx o)) := (sortShots_perm _).mem_iff.1 hs
    obtain ⟨n, hn, rfl⟩ := List.mem_map.1 this
    exact ⟨n, hn, rfl⟩
  · show sumDurations (d.shotNodes.map (shotOf (d.ctx o))) = _
    rw [sumDurations_map]

/-- **contiguity**: the frames of the `k`-th shot (in sorted order) are the outputs at positions
`startOf k .. startOf k + duration − 1` (`startOf k` = the durations of the shots before it), offset by offset:
the bytes at position `startOf k + i` are the written `frameRpu` of that shot at offset `i` -/
theorem doc_frames_contiguous (o : Opts) (d : Doc) (out : List Bytes) (h : generateDoc o d = .ok out) :
    ∃ c dm0, configOfDoc o d = .ok c ∧ dmFromXmlConfig c (l254OfDoc d) = .ok dm0 ∧
      ∀ (k : Nat) (hk : k < c.shots.length) (i : Nat), i < c.shots[k].duration →
        ∃ r b, out[startOf c.shots k + i]? = some b ∧ writeRpu r = .ok b ∧
          frameRpu c (baseXml dm0) c.shots[k] i = .ok r := by
  obtain ⟨rs, hrs, hw⟩ := generateDoc_ok o d out h
  obtain ⟨_, _, hc, hg⟩ := generateListDoc_ok o d rs hrs
  obtain ⟨dm0, h1, _, _, hall⟩ := generateListXml_frames _ _ rs hg
  rw [docConfig_shots_sorted] at hall
  refine ⟨docConfig o d, dm0, hc, h1, ?_⟩
  intro k hk i hi
  obtain ⟨r, hr1, hr2⟩ := hall k hk i hi
  obtain ⟨b, hb1, hb2⟩ := (writeAll_get rs out hw).2 _ r hr1
  exact ⟨r, b, hb1, hb2, hr2⟩

/-! ## (b) what every frame of a shot carries -/

/-- **every frame of a shot carries the shot's trims unless the `Frame` at its offset names the same key**.
For the `k`-th shot of the sorted list — it is `shotOf` of some `Shot` node `n` — and every offset `i` below its
duration, the RPU at position `startOf k + i` is the base RPU with DM data `dm` where, per key (level, plus
`target_max_pq` for L2 and the target display index for L8):
* the block is the LAST block with that key among `frameTrims n i` = the trims of the FIRST `Frame` child of `n`
  whose `EditOffset` is `i` (no such `Frame`: no blocks), if there is one;
* else the last block with that key among the shot's own trims `trimsOf n.levels` (the blocks of the shot's level
  nodes in document order: L1 clamped by the document's CM version, L2 / L8 per known target, L3, L5, L9);
* else the block of the base DM data `dm0` (the global blocks, the same for every frame);
and nothing else: a frame edit replaces exactly the keys it names.  Blocks of a level whose container does not
exist (`¬ holds dm0`: L3 / L9 in a CM v2.9 document) are not stored.  The scene-refresh flag is set on offset 0 only -/
theorem doc_frame_blocks (o : Opts) (d : Doc) (rs : List Rpu) (h : generateListDoc o d = .ok rs) :
    ∃ c dm0, configOfDoc o d = .ok c ∧ dmFromXmlConfig c (l254OfDoc d) = .ok dm0 ∧ Uniq dm0 ∧
      ∀ (k : Nat) (hk : k < c.shots.length) (i : Nat), i < c.shots[k].duration →
        ∃ n r dm, n ∈ d.shotNodes ∧ c.shots[k] = shotOf (d.ctx o) n ∧
          rs[startOf c.shots k + i]? = some r ∧ r = { baseXml dm0 with vdr_dm_data := some dm } ∧ Uniq dm ∧
          shell dm = { shell dm0 with scene_refresh_flag := if i = 0 then 1 else 0 } ∧
          (∀ lv, holds dm lv ↔ holds dm0 lv) ∧
          ∀ x : Block, x ∈ dm.levelBlocks x.level ↔
            (holds dm0 x.level ∧ (frameTrims (d.ctx o) n i).reverse.find? (sameKey x) = some x) ∨
            ((frameTrims (d.ctx o) n i).all (fun b => !sameKey b x) = true ∧ holds dm0 x.level ∧
              (trimsOf (d.ctx o) n.levels).reverse.find? (sameKey x) = some x) ∨
            ((frameTrims (d.ctx o) n i).all (fun b => !sameKey b x) = true ∧
              (trimsOf (d.ctx o) n.levels).all (fun b => !sameKey b x) = true ∧ x ∈ dm0.levelBlocks x.level) := by
  obtain ⟨_, _, hc, hg⟩ := generateListDoc_ok o d rs h
  obtain ⟨dm0, h1, hu, hf, hall⟩ := generateListXml_frames _ _ rs hg
  rw [docConfig_shots_sorted] at hall
  refine ⟨docConfig o d, dm0, hc, h1, hu, ?_⟩
  intro k hk i hi
  obtain ⟨r, hr1, hr2⟩ := hall k hk i hi
  obtain ⟨_, _, _, _, hmem, _⟩ := doc_shots_sorted o d _ hc
  obtain ⟨n, hn, hs⟩ := hmem _ (List.getElem_mem hk)
  obtain ⟨dm, e1, e2, e3, e4, e5⟩ := frameRpu_spec _ (baseXml dm0) _ i r dm0 rfl hf hu hr2
  refine ⟨n, r, dm, hn, hs, hr1, e1, e2, ?_, e4, ?_⟩
  · rw [e3]
    have : cutFlag (docConfig o d) i = if i = 0 then 1 else 0 := by
      unfold cutFlag
      show (if i = 0 ∨ false = true then 1 else 0) = _
      simp
    rw [this]
  · intro x
    have := e5 x
    rw [hs, editBlocks_shotOf] at this
    exact this

/-- in particular: a block of the shot's own trims that is the last with its key, whose container exists, and whose
key no trim of the `Frame` at offset `i` has, is in the frame at offset `i`; and every block of the applicable
`Frame` that is the last with its key is in its frame -/
theorem doc_frame_carries (o : Opts) (d : Doc) (rs : List Rpu) (h : generateListDoc o d = .ok rs) :
    ∃ c dm0, configOfDoc o d = .ok c ∧ dmFromXmlConfig c (l254OfDoc d) = .ok dm0 ∧
      ∀ (k : Nat) (hk : k < c.shots.length) (i : Nat), i < c.shots[k].duration →
        ∃ n r dm, n ∈ d.shotNodes ∧ c.shots[k] = shotOf (d.ctx o) n ∧
          rs[startOf c.shots k + i]? = some r ∧ r.vdr_dm_data = some dm ∧
          (∀ b, (trimsOf (d.ctx o) n.levels).reverse.find? (sameKey b) = some b → holds dm0 b.level →
            (frameTrims (d.ctx o) n i).all (fun e => !sameKey e b) = true → b ∈ dm.levelBlocks b.level) ∧
          (∀ b, (frameTrims (d.ctx o) n i).reverse.find? (sameKey b) = some b → holds dm0 b.level →
            b ∈ dm.levelBlocks b.level) := by
  obtain ⟨c, dm0, hc, h1, _, hall⟩ := doc_frame_blocks o d rs h
  refine ⟨c, dm0, hc, h1, ?_⟩
  intro k hk i hi
  obtain ⟨n, r, dm, hn, hs, hr, e1, _, _, _, e5⟩ := hall k hk i hi
  refine ⟨n, r, dm, hn, hs, hr, by rw [e1], ?_, ?_⟩
  · intro b hb hh hall'
    exact (e5 b).2 (.inr (.inl ⟨hall', hh, hb⟩))
  · intro b hb hh
    exact (e5 b).2 (.inl ⟨hh, hb⟩)

/-! ## (c) which trims are dropped -/

/-- **a level node is dropped exactly when it is an L2 / L8 trim whose `TID` is missing or is not the id of a kept
target display, or has a `level` other than 1, 2, 3, 5, 8, 9** — every other node yields exactly one block -/
theorem doc_trim_dropped_iff (cx : Ctx) (n : LevelNode) :
    nodeBlock cx n = none ↔
      n = .other ∨ (∃ tid trim, n = .l2 tid trim ∧ knownTarget cx.targets tid = none) ∨
      (∃ tid trim mid clip sat hue, n = .l8 tid trim mid clip sat hue ∧ knownTarget cx.targets tid = none) := by
  cases n <;> simp [nodeBlock]

/-- **the known targets**: a `TID` is known exactly when it is the id of a `TargetDisplay` node that the parser
kept — any of them before XML 5.0, one with `ApplicationType` `HOME` from 5.0 on -/
theorem doc_target_known_iff (o : Opts) (d : Doc) (tid : Option Nat) :
    (knownTarget (d.ctx o).targets tid).isSome = true ↔
      ∃ id, tid = some id ∧ ∃ t ∈ d.targetNodes, t.id = id ∧ (isV5 d.rev = false ∨ t.home = some true) := by
  rw [knownTarget_isSome]
  show (∃ id, tid = some id ∧ ∃ t ∈ d.kept, t.id = id) ↔ _
  unfold Doc.kept
  constructor
  · rintro ⟨id, h1, t, ht, h2⟩
    obtain ⟨a, b⟩ := List.mem_filter.1 ht
    refine ⟨id, h1, t, a, h2, ?_⟩
    cases hv : isV5 d.rev
    · exact .inl rfl
    · right; simpa [hv] using b
  · rintro ⟨id, h1, t, ht, h2, h3⟩
    refine ⟨id, h1, t, List.mem_filter.2 ⟨ht, ?_⟩, h2⟩
    rcases h3 with h3 | h3
    · simp [h3]
    · simp [h3]

/-- **the trims of a shot / frame edit are the blocks of its kept level nodes, in document order, one per node**;
without a dynamic-data node there are none -/
theorem doc_trims_kept (cx : Ctx) (ns : List LevelNode) :
    trimsOf cx (some ns) = ns.filterMap (nodeBlock cx) ∧ trimsOf cx none = [] ∧
    (trimsOf cx (some ns)).length = ns.countP (fun n => (nodeBlock cx n).isSome) := by
  refine ⟨rfl, rfl, ?_⟩
  show (ns.filterMap (nodeBlock cx)).length = _
  induction ns with
  | nil => rfl
  | cons n rest ih =>
    rw [List.filterMap_cons, List.countP_cons]
    cases hb : nodeBlock cx n with
    | none => simp [ih]
    | some b => simp [ih]

/-- **the block of a kept trim**: the target is the LAST kept target display with the trim's `TID`; an L2 trim
carries that target's `target_max_pq` (from its peak nits) and the six encoded trims, an L8 trim the target's id -/
theorem doc_trim_blocks (cx : Ctx) (id : Nat) (t : Target) (hk : lookup cx.targets id = some t) :
    t.id = id ∧ (∃ pre post, cx.targets = pre ++ t :: post ∧ ∀ u ∈ post, u.id ≠ id) ∧
    (∀ trim, nodeBlock cx (.l2 (some id) trim) = some (l2OfXml (pqOfNitsRaw t.peak) (trim.getD 3 0) (trim.getD 4 0)
      (trim.getD 5 0) (trim.getD 6 0) (trim.getD 7 0) (trim.getD 8 0))) ∧
    (∀ trim mid clip sat hue, nodeBlock cx (.l8 (some id) trim mid clip sat hue) =
      some (l8OfXml t.id (trim.getD 0 0) (trim.getD 1 0) (trim.getD 2 0) (trim.getD 3 0) (trim.getD 4 0)
        (trim.getD 5 0) mid clip sat hue).block) := by
  refine ⟨(lookup_some hk).2, ?_, ?_, ?_⟩
  · unfold lookup at hk
    rw [List.find?_eq_some_iff_append] at hk
    obtain ⟨_, as, bs, e, hno⟩ := hk
    refine ⟨bs.reverse, as.reverse, ?_, ?_⟩
    · have := congrArg List.reverse e
      simpa using this
    · intro u hu
      have := hno u (List.mem_reverse.1 hu)
      simpa using this
  · intro trim
    simp [nodeBlock, knownTarget, hk]
  · intro trim mid clip sat hue
    simp [nodeBlock, knownTarget, hk]

/-! ## (d) the global blocks are the same on every frame -/

/-- **the base DM data of a document** (what every frame starts from):
* L6: max / min mastering display luminance from `MasteringDisplay` (`PeakBrightness`; `MinimumBrightness` in
  1/10000 nit, rounded), MaxCLL / MaxFALL from `Level6` (rounded) — zeros for missing nodes;
* L254 by version: CM v4.0 documents (XML ≥ 4.0.2) carry exactly one, with the `Level254` node's `DMMode` /
  `DMVersion` (defaults 0 / 2; `(0, 2)` without a node); XML 2.0.5 documents carry none;
* L11 (CM v4.0 only): the `Level11` node's content type / white point when both are present, else the static
  default `[1, 0, 1, 0, 0]`;
* L10 (CM v4.0 only): one block per kept target display (per id the last one) whose id is NOT a preset id, none
  for preset ids;
* the source levels: `source_min_pq` / `source_max_pq` from the mastering display's luminances -/
theorem doc_base_blocks (o : Opts) (d : Doc) (dm0 : DmData)
    (h : dmFromXmlConfig (docConfig o d) (l254OfDoc d) = .ok dm0) :
    (∀ x, x ∈ dm0.levelBlocks 6 ↔ x = l6Block (level6OfVideo d.video)) ∧
    (∀ x, x ∈ dm0.levelBlocks 254 ↔ isCmv4 d.rev = true ∧ x = l254Block (l254OfDoc d)) ∧
    (∀ x, x ∈ dm0.levelBlocks 11 ↔ isCmv4 d.rev = true ∧ x = (level11OfVideo d.video).headD l11Static) ∧
    (∀ x, x ∈ dm0.levelBlocks 10 ↔
      isCmv4 d.rev = true ∧ ∃ t ∈ lastOcc d.kept, t.id ∉ presetTargets ∧ x = l10OfTarget t) ∧
    dm0.main[29]? = some ((minPqOfDecimal (masteringMin d.video * 100) : Nat) : Int) ∧
    dm0.main[30]? = some ((pqOfNitsRaw (masteringPeak d.video) : Nat) : Int) := by
  have hl6 : (docConfig o d).level6 = some (level6OfVideo d.video) := rfl
  have hdef : (docConfig o d).defaults = level11OfVideo d.video ++ docL10 d := rfl
  have hcm : (docConfig o d).cmv40 = isCmv4 d.rev := rfl
  have hlev : ∀ b ∈ (docConfig o d).defaults, b.level = 11 ∨ b.level = 10 := by
    intro b hb
    rw [hdef] at hb
    rcases List.mem_append.1 hb with hb | hb
    · exact .inl (level11OfVideo_level _ b hb)
    · exact .inr (docL10_level d b hb)
  have hl10find : ∀ p : Block → Bool, (∀ b, b.level = 10 → p b = false) → (docL10 d).reverse.find? p = none := by
    intro p hp
    rw [List.find?_eq_none]
    intro b hb
    rw [hp b (docL10_level d b (List.mem_reverse.1 hb))]
    simp
  refine ⟨?_, ?_, ?_, ?_, ?_, ?_⟩
  · intro x
    constructor
    · intro hx
      exact ((xml_base_l6 _ _ dm0 h _ hl6 x (level_of_mem_levelBlocks hx)).1).1 hx
    · rintro rfl
      exact ((xml_base_l6 _ _ dm0 h _ hl6 _ rfl).1).2 rfl
  · have hd : ∀ b ∈ (docConfig o d).defaults, b.level ≠ 254 := by
      intro b hb; rcases hlev b hb with e | e <;> omega
    intro x
    constructor
    · intro hx
      have := ((xml_base_l254 _ _ dm0 h hd x (level_of_mem_levelBlocks hx)).1).1 hx
      rwa [hcm] at this
    · rintro ⟨hc, rfl⟩
      exact ((xml_base_l254 _ _ dm0 h hd _ rfl).1).2 ⟨by rw [hcm]; exact hc, rfl⟩
  · have key : ∀ x : Block, x.level = 11 → (x ∈ dm0.levelBlocks 11 ↔
        isCmv4 d.rev = true ∧ x = (level11OfVideo d.video).headD l11Static) := by
      intro x hx
      rw [xml_base_l11 _ _ dm0 h x hx, hcm, hdef]
      have hn := hl10find (fun b => b.level == 11) (by intro b hb; simp [hb])
      rcases level11OfVideo_cases d.video with e | ⟨ct, wp, e⟩
      · rw [e, List.nil_append, hn]
        have hall : (docL10 d).all (fun b => b.level != 11) = true := by
          rw [List.all_eq_true]
          intro b hb
          simp [docL10_level d b hb]
        rw [hall]
        simp
      · rw [e, List.reverse_append, List.find?_append, hn]
        have f1 : [l11OfXml ct wp].reverse.find? (fun b => b.level == 11) = some (l11OfXml ct wp) := rfl
        have f2 : ([l11OfXml ct wp] ++ docL10 d).all (fun b => b.level != 11) = false := by
          simp [l11OfXml]
        rw [f1, f2]
        simp only [Option.none_or, Option.some.injEq, Bool.false_eq_true, false_and, or_false, List.headD_cons]
        constructor
        · rintro ⟨a, b⟩; exact ⟨a, b.symm⟩
        · rintro ⟨a, b⟩; exact ⟨a, b.symm⟩
    intro x
    constructor
    · intro hx
      exact (key x (level_of_mem_levelBlocks hx)).1 hx
    · rintro ⟨hc, e⟩
      have hx : x.level = 11 := by
        rw [e]
        rcases level11OfVideo_cases d.video with e' | ⟨ct, wp, e'⟩ <;> rw [e'] <;> rfl
      exact (key x hx).2 ⟨hc, e⟩
  · intro x
    rw [← docL10_mem]
    constructor
    · intro hx
      exact (base_l10 o d dm0 h x (level_of_mem_levelBlocks hx)).1 hx
    · intro hx
      exact (base_l10 o d dm0 h x (docL10_level d x hx)).2 hx
  · exact (xml_base_l6 _ _ dm0 h _ hl6 (l6Block (level6OfVideo d.video)) rfl).2.1 _ rfl
  · exact (xml_base_l6 _ _ dm0 h _ hl6 (l6Block (level6OfVideo d.video)) rfl).2.2 _ rfl

/-- **the PQ codes of the document-level model are the certified ones** (`C19`): a target peak / mastering peak up
to 10000 nits gives the table's code (`target_max_pq` of L2 and L10, `source_max_pq`); a decimal minimum luminance
gives the certified code of the exact rational wherever the certified search decides — everywhere but inside the
6·10⁻⁶ code units wide gaps around the rounding ties, where `minPqOfDecimal` is one of the two neighbours (the
check counts such sites as `tie_ambiguous`) —, and on the 1/10000-nit grid of `source_min_pq` that is the
min-luminance table's code -/
theorem doc_pq_codes_certified :
    (∀ n, n ≤ 10000 → pqOfNitsRaw n = codeOfNits n ∧ pqOfNitsRaw n = pqOfNits n ∧ inBracket n 10000 (pqOfNitsRaw n) = true) ∧
    (∀ mn c, pqOfDecimal mn = some c → minPqOfDecimal mn = c ∧ inBracket mn (10000 * M) (minPqOfDecimal mn) = true) ∧
    (∀ k c, k ≤ 10000 → pqOfDecimal (k * 100) = some c → minPqOfDecimal (k * 100) = codeOfMinLum k) := by
  refine ⟨?_, ?_, ?_⟩
  · intro n hn
    obtain ⟨a, b⟩ := pqOfNitsRaw_table n hn
    exact ⟨a, b, by rw [a]; exact nits_inBracket n hn⟩
  · intro mn c h
    have e := minPqOfDecimal_certified mn c h
    exact ⟨e, by rw [e]; exact codeOfRat_inBracket h⟩
  · intro k c hk h
    rw [minPqOfDecimal_certified _ c h]
    exact pqOfDecimal_grid k c hk h

example : minPqOfDecimal 5000 = 62 ∧ pqOfDecimal 5000 = some 62 ∧ minPqOfDecimal (1 * 100) = codeOfMinLum 1 ∧
    pqOfNitsRaw 100 = 2081 ∧ pqOfNitsRaw 10011 = 4095 ∧ pqOfNitsRaw 10012 = 4096 ∧ minPqOfDecimal 20000000000 = 4095 := by
  decide +kernel

/-- **the global blocks are the same on every frame**: in every generated RPU the L6, L10, L11 and L254 blocks
are exactly those of the base DM data (`doc_base_blocks`) — no level node of a shot or frame edit yields a block of
these levels — and so are the source PQ levels -/
theorem doc_global_blocks (o : Opts) (d : Doc) (rs : List Rpu) (h : generateListDoc o d = .ok rs) :
    ∃ dm0, dmFromXmlConfig (docConfig o d) (l254OfDoc d) = .ok dm0 ∧
      ∀ r ∈ rs, ∃ dm, r.vdr_dm_data = some dm ∧ dm.main = dm0.main ∧
        ∀ x : Block, x.level = 6 ∨ x.level = 10 ∨ x.level = 11 ∨ x.level = 254 →
          (x ∈ dm.levelBlocks x.level ↔ x ∈ dm0.levelBlocks x.level) := by
  obtain ⟨_, _, hc, hg⟩ := generateListDoc_ok o d rs h
  obtain ⟨dm0, h1, hu, hf, _⟩ := generateListXml_frames _ _ rs hg
  refine ⟨dm0, h1, ?_⟩
  intro r hr
  obtain ⟨dm0', h1', s, hs, i, _, hfr⟩ := mem_generateListXml _ _ rs hg r hr
  rw [h1] at h1'; cases h1'
  rw [docConfig_shots_sorted] at hs
  obtain ⟨_, _, _, _, hmem, _⟩ := doc_shots_sorted o d _ hc
  obtain ⟨n, _, rfl⟩ := hmem s hs
  obtain ⟨dm, e1, _, e3, _, e5⟩ := frameRpu_spec _ (baseXml dm0) _ i r dm0 rfl hf hu hfr
  refine ⟨dm, by rw [e1], ?_, ?_⟩
  · have := congrArg DmData.main e3
    simpa [shell] using this
  · intro x hx
    have a1 : (editBlocks (shotOf (d.ctx o) n) i).all (fun b => !sameKey b x) = true := by
      apply all_not_sameKey_of_level
      intro b hb
      rw [editBlocks_shotOf] at hb
      have := frameTrims_level _ _ _ b hb
      omega
    have a2 : (shotOf (d.ctx o) n).blocks.all (fun b => !sameKey b x) = true := by
      apply all_not_sameKey_of_level
      intro b hb
      have := trimsOf_level _ _ b hb
      omega
    have n1 := (all_not_iff_find_none _ x).1 a1
    have n2 := (all_not_iff_find_none _ x).1 a2
    rw [e5 x, n1, n2, a1, a2]
    simp

/-! ## non-vacuity: a document that exercises every clause -/

def exP709 : List Int := [640000, 330000, 300000, 600000, 150000, 60000, 312700, 329000]
def exPCustom : List Int := [641000, 332000, 330000, 640000, 155000, 66000, 312770, 329800]

/-- a document around the given version, target displays and shots: canvas 1.77778, image 2.38806, MaxFALL 400,
MaxCLL 1000, mastering display 0.0001 .. 1000 nits, `Level254` (0, 2), `Level11` (2, 0) -/
def exDocWith (ver : List Nat) (targets : List Target) (shots : List ShotNode) : Doc :=
  { version := some ver,
    output := some {
      canvasAr := some 1777780, imageAr := some 2388060,
      video := some {
        level6 := some (some 400000000, some 1000000000), mastering := some (some 100, some 1000),
        level254 := some (some 0, some 2), level11 := some (some 2, some 0),
        targets := targets, shots := shots } } }

/-- targets 1 (HOME, 100 nits, BT.709: a preset id), 60 (HOME, 600 nits, custom primaries: a custom id) and 48
(CINEMA: not kept from XML 5.0 on) -/
def exTargets : List Target :=
  [{ id := 1, peak := 100, minNits := 5000, prim := exP709 },
   { id := 60, peak := 600, minNits := 5000, prim := exPCustom },
   { id := 48, peak := 1000, minNits := 5000, prim := exP709, home := some false }]

/-- two shots in shuffled document order.  The shot recorded at 5 (2 frames) has an L1 node, an L2 trim for
target 1, an L2 trim for target 48, an L8 trim for target 60, a node of level 4, and a `Frame` at offset 1 with
another L2 trim for target 1; the shot recorded at 0 (1 frame) has an L1 node only -/
def exShots : List ShotNode :=
  [{ record := some (5, 2),
     levels := some [.l1 [100, 200000, 500000],
                     .l2 (some 1) [0, 0, 0, 10000, -20000, 30000, 40000, 50000, 100000],
                     .l2 (some 48) [0, 0, 0, 0, 0, 0, 0, 0, 0],
                     .l8 (some 60) [10000, 20000, 30000, 40000, 50000, 60000] 20000 (-10000) [0, 0, 0, 0, 170000, 0] [0, 250000, 0, 0, 0, 0],
                     .other],
     frames := [{ offset := 1, levels := some [.l2 (some 1) [0, 0, 0, 0, 0, 0, 0, 0, 500000]] }] },
   { record := some (0, 1), levels := some [.l1 [0, 100000, 300000]] }]

def exDoc : Doc := exDocWith [5, 1, 0] exTargets exShots
def exOpts : Opts := { canvasWidth := some 3840, canvasHeight := some 2160 }

/-- the value of a successful run (for stating examples without an existential) -/
def okVal {α β} (r : Res α) (f : α → β) : Option β :=
  match r with
  | .ok a => some (f a)
  | _ => none

-- (e) the parser accepts the document; (a) shots sorted by start, 3 frames; the config's global values
example :
    okVal (configOfDoc exOpts exDoc) (fun c => (c.cmv40, c.length)) = some (true, 3) ∧
    okVal (configOfDoc exOpts exDoc) (fun c => c.shots.map fun s => (s.start, s.duration, s.blocks.map (·.level))) =
      some [(0, 1, [1]), (5, 2, [1, 2, 8])] ∧
    okVal (configOfDoc exOpts exDoc) (fun c => c.shots.map fun s => s.edits.map fun e => (e.offset, e.blocks.map (·.level))) =
      some [[], [(1, [2])]] ∧
    okVal (configOfDoc exOpts exDoc) (fun c => (c.level5, c.level6)) = some ([0, 0, 276, 276], some [1000, 1, 1000, 400]) ∧
    okVal (configOfDoc exOpts exDoc) (fun c => (c.sourceMinPq, c.sourceMaxPq)) = some (some 7, some 3079) ∧
    okVal (configOfDoc exOpts exDoc) (fun c => c.defaults.map fun b => (b.level, b.vals.take 4)) =
      some [(11, [2, 0, 0, 0]), (10, [60, 2851, 62, 255])] := by
  decide +kernel

-- (c) only the trim for the non-HOME target 48 and the level-4 node are dropped; in XML 4.0.2 the same
-- target is kept (no ApplicationType filter) and only the level-4 node is dropped
example : (exShots.map fun s => (s.levels.getD []).map fun n => (nodeBlock (exDoc.ctx exOpts) n).isSome) =
      [[true, true, false, true, false], [true]] ∧
    (exShots.map fun s => (s.levels.getD []).map fun n =>
        (nodeBlock ((exDocWith [4, 0, 2] exTargets exShots).ctx exOpts) n).isSome) =
      [[true, true, true, true, false], [true]] := by
  decide +kernel

-- (a), (b), (d) on the generated list: 3 RPUs; position 0 is the shot recorded at 0, positions 1 and 2 the shot
-- recorded at 5; the shot's L2 trim (ms_weight 0.1 ↦ 2253) is on its frame 0, the Frame's (0.5 ↦ 3072) replaces
-- it on frame 1 only, where the shot's L1 and L8 stay; L6 / L10 / L11 / L254 are the same on all three
example : okVal (generateListDoc exOpts exDoc) List.length = some 3 := by decide +kernel
example : okVal (generateListDoc exOpts exDoc)
      (fun rs => rs.map fun r => r.vdr_dm_data.map fun dm => (dm.levelBlocks 1).map (·.vals)) =
    some [some [[0, 2081, 1229]], some [[0, 2081, 1229]], some [[0, 2081, 1229]]] := by decide +kernel
example : okVal (generateListDoc exOpts exDoc)
      (fun rs => rs.map fun r => r.vdr_dm_data.map fun dm => (dm.levelBlocks 2).map (·.vals)) =
    some [some [], some [[2081, 1987, 2068, 1987, 2130, 2150, 2253]], some [[2081, 2048, 2048, 2048, 2048, 2048, 3072]]] := by
  decide +kernel
example : okVal (generateListDoc exOpts exDoc)
      (fun rs => rs.map fun r => r.vdr_dm_data.map fun dm => (dm.levelBlocks 8).map fun b => (b.length, b.vals.take 2)) =
    some [some [], some [(25, [60, 2068])], some [(25, [60, 2068])]] := by decide +kernel
example : okVal (generateListDoc exOpts exDoc)
      (fun rs => rs.map fun r => r.vdr_dm_data.map fun dm => (dm.levelBlocks 6).map (·.vals)) =
    some [some [[1000, 1, 1000, 400]], some [[1000, 1, 1000, 400]], some [[1000, 1, 1000, 400]]] := by decide +kernel
example : okVal (generateListDoc exOpts exDoc)
      (fun rs => rs.map fun r => r.vdr_dm_data.map fun dm => (dm.levelBlocks 10).map fun b => b.vals.take 4) =
    some [some [[60, 2851, 62, 255]], some [[60, 2851, 62, 255]], some [[60, 2851, 62, 255]]] := by decide +kernel
example : okVal (generateListDoc exOpts exDoc)
      (fun rs => rs.map fun r => r.vdr_dm_data.map fun dm => (dm.levelBlocks 11 ++ dm.levelBlocks 254).map (·.vals)) =
    some [some [[2, 0, 0, 0, 0], [0, 2]], some [[2, 0, 0, 0, 0], [0, 2]], some [[2, 0, 0, 0, 0], [0, 2]]] := by decide +kernel
example : okVal (generateListDoc exOpts exDoc) (fun rs => rs.map fun r => r.vdr_dm_data.map (·.scene_refresh_flag)) =
    some [some 1, some 1, some 0] := by decide +kernel

-- the bytes exist: generation of the document succeeds with three payloads
example : okVal (generateDoc exOpts exDoc) List.length = some 3 := by
  decide +kernel

-- XML 2.0.5: CM v2.9 (L1 average clamped at 819 instead of 1229), no L254 / L10 / L11, the L8 trim is an error
example : okVal (generateListDoc exOpts (exDocWith [2, 0, 5] exTargets [{ record := some (0, 1), levels := some [.l1 [0, 100000, 300000]] }]))
      (fun rs => rs.map (fun r => r.vdr_dm_data.map fun dm => ((dm.levelBlocks 1).map (·.vals), dm.cmv40.isNone))) =
      some [some ([[0, 2081, 819]], true)] ∧
    okVal (generateListDoc exOpts (exDocWith [2, 0, 5] exTargets exShots)) List.length = none := by
  decide +kernel

-- (e) errors: unsupported version, missing Output, a known L2 trim with 8 values, a target with 7 primaries values,
-- XML 5.x target without ApplicationType; an L2 trim with 8 values for an unknown target is NOT an error
example : configOfDoc exOpts (exDocWith [4, 0, 3] exTargets exShots) = .error ∧
    configOfDoc exOpts { exDoc with output := none } = .error ∧
    configOfDoc exOpts (exDocWith [5, 1, 0] exTargets [{ record := some (0, 1), levels := some [.l2 (some 1) [0, 0, 0, 0, 0, 0, 0, 0]] }]) = .error ∧
    configOfDoc exOpts (exDocWith [5, 1, 0] [{ id := 1, peak := 100, minNits := 0, prim := exP709.take 7 }] []) = .error ∧
    configOfDoc exOpts (exDocWith [5, 1, 0] [{ id := 1, peak := 100, minNits := 0, prim := exP709, home := none }] []) = .error ∧
    (∃ c, configOfDoc exOpts (exDocWith [5, 1, 0] exTargets [{ record := some (0, 1), levels := some [.l2 (some 48) [0, 0, 0, 0, 0, 0, 0, 0]] }]) = .ok c) := by
  refine ⟨rfl, rfl, rfl, rfl, rfl, _, rfl⟩

-- (e) panics outside `docFits`: a target id above 255 in a CM v4.0 document (`id.parse::<u8>().unwrap()` when the
-- L10 blocks are built) — the same document as XML 2.0.5 is accepted —, a target peak above 65535, a fifth
-- version component
example : configOfDoc exOpts (exDocWith [4, 0, 2] [{ id := 300, peak := 100, minNits := 0, prim := exP709 }] []) = .panic ∧
    (∃ c, configOfDoc exOpts (exDocWith [2, 0, 5] [{ id := 300, peak := 100, minNits := 0, prim := exP709 }] []) = .ok c) ∧
    configOfDoc exOpts (exDocWith [4, 0, 2] [{ id := 3, peak := 65536, minNits := 0, prim := exP709 }] []) = .panic ∧
    configOfDoc exOpts (exDocWith [4, 0, 2, 0, 0] [] []) = .panic := by
  refine ⟨rfl, ⟨_, rfl⟩, rfl, rfl⟩

-- the hypotheses of `doc_config_no_panic` hold for the example document
example : (∀ comps, exDoc.version = some comps → comps.length ≤ 4 ∧ ∀ v ∈ comps, v ≤ 15) ∧ docFits exDoc := by
  refine ⟨?_, by decide, ?_, ?_⟩
  · intro comps h
    have : comps = [5, 1, 0] := by
      have : some [5, 1, 0] = some comps := h
      injection this with e; exact e.symm
    subst this
    decide
  · decide
  · intro _; decide

end Dovi.C11
