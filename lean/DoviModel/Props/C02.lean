import DoviModel.Model.RpuWrite
import DoviModel.Props.SourceTie
import DoviModel.Proofs.PwRpu
/-! # C02 — reported values are the values encoded; profile / EL classification follows the documented rules -/
namespace Dovi.C02
open Dovi

/-- The Dolby Vision profile reported for a header (docs/profiles.md, rpu_data_header.rs:178-194), stated
outright as a total table. -/
theorem profile_table (h : Header) :
    h.getDoviProfile =
      if h.vdr_rpu_profile = 0 then (if h.bl_video_full_range_flag then 5 else 0)
      else if h.vdr_rpu_profile = 1 then
        (if h.el_spatial_resampling_filter_flag = true ∧ h.disable_residual_flag = false then
          (if h.vdr_bit_depth_minus8 = 4 then 7 else 4) else 8)
      else 0 := by
  unfold Header.getDoviProfile
  by_cases h0 : h.vdr_rpu_profile = 0
  · simp [h0]
  · by_cases h1 : h.vdr_rpu_profile = 1
    · cases h.el_spatial_resampling_filter_flag <;> cases h.disable_residual_flag <;> simp [h1]
    · simp [h0, h1]

/-- the reported profile is always one of 0, 4, 5, 7, 8 -/
theorem profile_range (h : Header) : h.getDoviProfile ∈ [0, 4, 5, 7, 8] := by
  rw [profile_table]
  split <;> (try split) <;> (try split) <;> (try split) <;> simp

/-- The enhancement-layer subtype is reported iff NLQ data is present, and it is MEL exactly when the
seven NLQ conditions hold (offsets 0, vdr_in_max_int 1, everything else 0). -/
theorem el_type_rule (m : Mapping) :
    m.elType = match m.nlq with
      | none => none
      | some n => some (if n.nlq_offset.all (· == 0) ∧ n.vdr_in_max_int.all (· == 1) ∧ n.vdr_in_max.all (· == 0) ∧
                          n.linear_deadzone_slope_int.all (· == 0) ∧ n.linear_deadzone_slope.all (· == 0) ∧
                          n.linear_deadzone_threshold_int.all (· == 0) ∧ n.linear_deadzone_threshold.all (· == 0)
                        then .mel else .fel) := by
  unfold Mapping.elType
  cases m.nlq with
  | none => rfl
  | some n =>
    simp only [Option.map, Nlq.isMel, Bool.and_eq_true]
    congr 1
    by_cases h : n.nlq_offset.all (· == 0) = true ∧ n.vdr_in_max_int.all (· == 1) = true ∧ n.vdr_in_max.all (· == 0) = true ∧
        n.linear_deadzone_slope_int.all (· == 0) = true ∧ n.linear_deadzone_slope.all (· == 0) = true ∧
        n.linear_deadzone_threshold_int.all (· == 0) = true ∧ n.linear_deadzone_threshold.all (· == 0) = true
    · obtain ⟨a, b, c, d, e, f, g⟩ := h
      simp [a, b, c, d, e, f, g]
    · rw [if_neg h, if_neg]
      intro hh
      exact h ⟨hh.1.1.1.1.1.1, hh.1.1.1.1.1.2, hh.1.1.1.1.2, hh.1.1.1.2, hh.1.1.2, hh.1.2, hh.2⟩

/-! non-vacuity -/
example : ({ vdr_rpu_profile := 1, el_spatial_resampling_filter_flag := true, vdr_bit_depth_minus8 := 4 } : Header).getDoviProfile = 7 := by decide
example : ({ vdr_rpu_profile := 0, bl_video_full_range_flag := true } : Header).getDoviProfile = 5 := by decide

/-- **source tie** (regenerated on every run from /repo by tools/gen_source_layouts.py): the field widths,
`length > k` thresholds, field order, `bytes_size()` and `required_bits()` of every extension-block level and
the 32 codings of the `vdr_dm_data` payload, as they stand in the Rust sources now, are the tables the model —
and therefore every theorem about the reported values — is built on -/
theorem source_layouts_agree :
    (∀ level length, Src.blockParse level length = blockParseLayout level length) ∧
    (∀ level length, Src.blockWrite level length = blockWriteLayout level length) ∧
    (∀ level length, Src.blockBytes level length = blockBytes level length) ∧
    (∀ level length, level ≠ 0 → Src.blockRequired level length = blockRequiredBits level length) ∧
    Src.dmMainParse.map SourceTie.conv = dmMainParseLayout ∧
    Src.dmMainWrite.map SourceTie.conv = dmMainWriteLayout ∧
    Src.signedFields = [(2, 6)] :=
  ⟨SourceTie.parse_layout_from_source, SourceTie.write_layout_from_source, SourceTie.bytes_from_source,
   SourceTie.required_from_source, SourceTie.dm_parse_from_source, SourceTie.dm_write_from_source,
   SourceTie.signed_from_source⟩

/-- **source tie, validation rules** (regenerated on every run from /repo by tools/gen_source_rules.py): the
`validate()` of every extension-block level, of the header, of the mapping (outside its per-curve loop), of
`vdr_dm_data` and of the two containers
(allowed levels, per-level count limits), and the struct fields of every block level in declaration order, as
they stand in the Rust sources now, are the rules and names of the model — for every block, header, DM payload
and container -/
theorem source_rules_agree :
    (∀ level, Src.blockFieldNames level = blockFieldNames level) ∧
    (∀ b : Block, Src.blockValidate b = blockValidate b) ∧
    (∀ (h : Header) profile, Src.headerValidate h profile = h.validate profile) ∧
    (∀ d : DmData, Src.dmValidate d = d.validate) ∧
    (∀ (m : Mapping) profile, m.validate profile =
      (Src.mappingValidateHead m profile && m.curves.all Curve.piecesOk && Src.mappingValidateTail m)) ∧
    (∀ c : Container, c.validate29 =
      (c.blocks.all (fun b => Src.cmv29Allowed.contains b.level) && Src.cmv29Counts.all (SourceTie.countRule c.blocks))) ∧
    (∀ c : Container, c.validate40 =
      (c.blocks.all (fun b => Src.cmv40Allowed.contains b.level) && Src.cmv40Counts.all (SourceTie.countRule c.blocks))) ∧
    Src.cmv29Allowed = cmv29Levels ∧ Src.cmv40Allowed = cmv40Levels :=
  ⟨SourceTie.block_names_from_source, SourceTie.block_validate_from_source, SourceTie.header_validate_from_source,
   SourceTie.dm_validate_from_source, SourceTie.mapping_validate_from_source, SourceTie.cmv29_validate_from_source, SourceTie.cmv40_validate_from_source,
   SourceTie.allowed_levels_from_source.1, SourceTie.allowed_levels_from_source.2⟩

/-! ## the reported structure and the bitstream determine each other -/

/-- **C02, main theorem**: the parser and the writer are mutually inverse on what the parser accepts.
(1) Whatever is written for a structure of the parser's shape is reported back as exactly that structure
(every field, block, count, flag); (2) the bits of an accepted input are exactly the encoding of the reported
structure (nothing the parser reports comes from anywhere but the corresponding field of the input, and no
input bit is ignored), for integer coefficient parts below 2^52. Together with `source_layouts_agree` (the field
widths and orders are the ones in the Rust sources now) and the semantic decode rules below, the reported values
are the encoded values. -/
theorem parse_and_write_are_inverse :
    (∀ (r : Rpu) (bytes : Bytes), writeRpu r = .ok bytes → RpuWf r →
      ∃ crc, parseRpu bytes = .ok { r with rpu_data_crc32 := crc, modified := false } ∧
        (r.modified = false → crc = r.rpu_data_crc32)) ∧
    (∀ (bytes out : Bytes) (r : Rpu), parseRpu bytes = .ok r →
      (∀ m, r.rpu_data_mapping = some m → m.seSmall = true) → writeRpu r = .ok out → out = bytes) :=
  ⟨parseRpu_writeRpu, writeRpu_parseRpu⟩

/-- semantic decode rule: L2 `ms_weight` is the 13-bit field read as two's complement -/
theorem l2_ms_weight_signed (a b c d e f ms : Int) :
    blockPostParse 2 [a, b, c, d, e, f, ms] = [a, b, c, d, e, f, if ms > 4095 then ms - 8192 else ms] := rfl

/-- semantic decode rule: the L11 whitepoint byte carries `reference_mode_flag` in bit 4 -/
theorem l11_reference_mode_split (ct wp r2 r3 : Int) :
    blockPostParse 11 [ct, wp, r2, r3] = (if wp > 15 then [ct, wp - 16, 1, r2, r3] else [ct, wp, 0, r2, r3]) := rfl

/-- every other level reports its fields as read -/
theorem other_levels_as_read (level : Nat) (raw : List Int) (h2 : level ≠ 2) (h11 : level ≠ 11) :
    blockPostParse level raw = raw := by
  unfold blockPostParse
  split
  · exact absurd rfl h2
  · exact absurd rfl h11
  · rfl

/-- semantic decode rule: 16-bit DM matrix coefficients are two's complement -/
theorem dm_s16_decode (v : Nat) : Fld.decode .s16 v = if v ≥ 32768 then (v : Int) - 65536 else v := rfl

/-- **source tie, classification rules**: `get_dovi_profile` and `is_mel` as they stand in the Rust sources now
(tools/gen_source_rules.py) are the profile (4/5/7/8) and MEL/FEL rules of the model -/
theorem source_classification_agrees :
    (∀ h : Header, Src.getDoviProfile h = h.getDoviProfile) ∧ (∀ n : Nlq, Src.isMel n = n.isMel) :=
  ⟨SourceTie.profile_from_source, SourceTie.mel_from_source⟩

end Dovi.C02
