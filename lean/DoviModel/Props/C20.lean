import Lean.Elab.Term
import DoviModel.Model.CView
import DoviModel.Model.Ops
import DoviModel.Proofs.CViewProof
import DoviModel.Gen.SourceCStructs
import DoviModel.Props.C03
/-!
# C20 — the C API presents the same data as the Rust API and reports failures as errors

Theorems about the model of the C layer (`Model/CView.lean`): the handle returned by the three parse
wrappers carries an error exactly when parsing failed; the getters return null exactly for absent parts; the
`-1` / empty markers; the L2/L8/L10 lists are the container's blocks of that level, complete and in order;
single-instance level pointers are faithful and no block of a valid RPU is lost; every object the getters
allocate is released exactly once by the matching free functions and no null pointer reaches a deallocator.
The C-side structures of the model are field-by-field mirrors of the `#[repr(C)]` structs (not the Rust structures):
`cview_injective_parsed` states exactly which Rust fields equal C views determine, `cHeader_not_injective` and
`cview_not_injective_ext_mapping_idc_0_4` / `…_5_7` prove that the fields the C structs lack really are lost.
The tie between this model and the real `extern "C"` functions is the correspondence check of `./check C20`, and,
for the struct declarations and `From` impls, the translator `tools/gen_source_cstructs.py` with the
`source_cstructs_agree…` theorems at the end of this file.
-/
namespace Dovi.C20
open Dovi

/-! ## error string ⇔ parse failure -/

/-- the handle built from a parse result: error set ⇔ not `Ok`, and then no RPU; a panic yields no handle -/
theorem handle_ofRes (x : Res Rpu) :
    (∀ h, Handle.ofRes x = some h →
      (h.getError = true ↔ ∀ r, x ≠ .ok r) ∧
      (h.getError = false ↔ ∃ r, x = .ok r ∧ h.rpu = some r) ∧
      (h.getError = true ↔ h.rpu = none)) ∧
    (Handle.ofRes x = none ↔ x = .panic) := by
  cases x with
  | ok r =>
    refine ⟨?_, by simp [Handle.ofRes]⟩
    intro h hh
    simp only [Handle.ofRes, Option.some.injEq] at hh
    subst hh
    simp [Handle.getError]
  | error =>
    refine ⟨?_, by simp [Handle.ofRes]⟩
    intro h hh
    simp only [Handle.ofRes, Option.some.injEq] at hh
    subst hh
    simp [Handle.getError]
  | panic => simp [Handle.ofRes]

/-- the three parse functions of the C API: the error string is set if and only if parsing failed -/
theorem err_iff_fail (d : Bytes) (h : Handle) :
    (cParseRpu d = some h → (h.getError = true ↔ (parseRpuEntry d).isOk = false)) ∧
    (cParseNalu d = some h → (h.getError = true ↔ (parseNaluEntry d).isOk = false)) ∧
    (cParseAv1 d = some h → (h.getError = true ↔ (Av1.parseObu d).isOk = false)) := by
  have key : ∀ x : Res Rpu, Handle.ofRes x = some h → (h.getError = true ↔ x.isOk = false) := by
    intro x hx
    cases x with
    | ok r => simp only [Handle.ofRes, Option.some.injEq] at hx; subst hx; simp [Handle.getError, Res.isOk]
    | error => simp only [Handle.ofRes, Option.some.injEq] at hx; subst hx; simp [Handle.getError, Res.isOk]
    | panic => simp [Handle.ofRes] at hx
  exact ⟨key _, key _, key _⟩

/-- on a handle with an error every getter returns null; without an error the header getter does not -/
theorem getters_of_handle (x : Res Rpu) (h : Handle) (hx : Handle.ofRes x = some h) :
    (h.getError = true → h.getHeader = none ∧ h.getMapping = none ∧ h.getDm = none) ∧
    (h.getError = false → ∃ r, x = .ok r ∧ h.getHeader = some (cview r).header ∧
       h.getMapping = (cview r).mapping ∧ h.getDm = (cview r).dm) := by
  cases x with
  | ok r =>
    simp only [Handle.ofRes, Option.some.injEq] at hx; subst hx
    simp [Handle.getError, Handle.getHeader, Handle.getMapping, Handle.getDm, cview]
  | error =>
    simp only [Handle.ofRes, Option.some.injEq] at hx; subst hx
    simp [Handle.getError, Handle.getHeader, Handle.getMapping, Handle.getDm]
  | panic => simp [Handle.ofRes] at hx

/-! ## null pointers ⇔ absent parts -/

theorem lastOfLevel_none (bs : List Block) (l : Nat) :
    lastOfLevel bs l = none ↔ ∀ b ∈ bs, b.level ≠ l := by
  simp [lastOfLevel]

theorem lastOfLevel_mem (bs : List Block) (l : Nat) (b : Block) (h : lastOfLevel bs l = some b) :
    b ∈ bs ∧ b.level = l := by
  have hm : b ∈ bs.filter (·.level == l) := List.mem_of_getLast? h
  simpa [List.mem_filter] using hm

/-- mapping / DM data / NLQ / curve / `el_type` pointers are null exactly when the Rust `Option` is `None` -/
theorem cview_null_iff_absent (r : Rpu) :
    ((cview r).mapping = none ↔ r.rpu_data_mapping = none) ∧
    ((cview r).dm = none ↔ r.vdr_dm_data = none) ∧
    ((cview r).header.el_type = none ↔ r.el_type = none) ∧
    (∀ m, r.rpu_data_mapping = some m → ∃ cm, (cview r).mapping = some cm ∧
      (cm.nlq = none ↔ m.nlq = none) ∧
      (cm.nlq_pred_data_null = true ↔ m.nlq_pred_pivot_value = none) ∧
      cm.curves.length = 3 ∧
      ∀ i, i < 3 → (((cm.curves.getD i (cCurve {})).polynomial = none ↔ (m.curve i).polynomial = none) ∧
                    ((cm.curves.getD i (cCurve {})).mmr = none ↔ (m.curve i).mmr = none))) := by
  refine ⟨by simp [cview], by simp [cview], by simp [cview, cHeader], ?_⟩
  intro m hm
  refine ⟨cMapping m, by simp [cview, hm], by simp [cMapping], by simp [cMapping], by simp [cMapping], ?_⟩
  intro i hi
  have : i = 0 ∨ i = 1 ∨ i = 2 := by omega
  rcases this with rfl | rfl | rfl <;> simp [cMapping, cCurve]

/-- every single-instance level pointer of the C `DmData` is null exactly when no block of that level exists
in either container, and otherwise points to a block of that level taken from the containers -/
theorem cview_level_null_iff_absent (d : DmData) :
    let x := cLevels d
    (∀ p ∈ [(1, x.level1), (3, x.level3), (4, x.level4), (5, x.level5), (6, x.level6), (9, x.level9),
            (11, x.level11), (254, x.level254), (255, x.level255)],
      (p.2 = none ↔ ∀ b ∈ d.allBlocks, b.level ≠ p.1) ∧
      (∀ b, p.2 = some b → b ∈ d.allBlocks ∧ b.level = p.1)) := by
  intro x p hp
  simp only [List.mem_cons, List.not_mem_nil, or_false] at hp
  rcases hp with rfl | rfl | rfl | rfl | rfl | rfl | rfl | rfl | rfl <;>
    exact ⟨lastOfLevel_none _ _, fun b hb => lastOfLevel_mem _ _ b hb⟩

/-! ## markers of absent NLQ fields -/

theorem optMarker_neg (o : Option Nat) : optMarker o = -1 ↔ o = none := by
  cases o with
  | none => simp [optMarker]
  | some v => simp [optMarker]

/-- absent `nlq_method_idc` / `nlq_num_pivots_minus2` are `-1` (and only then), present ones keep their value;
an absent `nlq_pred_pivot_value` is the empty buffer with a null data pointer -/
theorem nlq_markers (m : Mapping) :
    ((cMapping m).nlq_method_idc = -1 ↔ m.nlq_method_idc = none) ∧
    ((cMapping m).nlq_num_pivots_minus2 = -1 ↔ m.nlq_num_pivots_minus2 = none) ∧
    (∀ v, m.nlq_method_idc = some v → (cMapping m).nlq_method_idc = (v : Int)) ∧
    (∀ v, m.nlq_num_pivots_minus2 = some v → (cMapping m).nlq_num_pivots_minus2 = (v : Int)) ∧
    (m.nlq_pred_pivot_value = none → (cMapping m).nlq_pred_pivot_value = [] ∧ (cMapping m).nlq_pred_data_null = true) ∧
    (∀ l, m.nlq_pred_pivot_value = some l → (cMapping m).nlq_pred_pivot_value = l ∧ (cMapping m).nlq_pred_data_null = false) := by
  refine ⟨optMarker_neg _, optMarker_neg _, ?_, ?_, ?_, ?_⟩
  · intro v hv; simp [cMapping, hv, optMarker]
  · intro v hv; simp [cMapping, hv, optMarker]
  · intro h; simp [cMapping, h]
  · intro l h; simp [cMapping, h]

/-! ## L2 / L8 / L10 lists: complete and in container order -/

theorem levelList_spec (bs : List Block) (l : Nat) :
    (∀ b, b ∈ levelList bs l ↔ b ∈ bs ∧ b.level = l) ∧ (levelList bs l).Sublist bs ∧
    (levelList bs l).length = countLevel bs l := by
  refine ⟨?_, List.filter_sublist, rfl⟩
  intro b
  simp [levelList, List.mem_filter]

/-- the three lists of the view are exactly the container's blocks of that level, in container order
(a sublist that contains every block of the level), and the `len` a C caller reads is their number -/
theorem cview_lists_complete (d : DmData) :
    let x := cLevels d
    ((∀ b, b ∈ x.level2 ↔ b ∈ containerBlocks d.cmv29 ∧ b.level = 2) ∧ x.level2.Sublist (containerBlocks d.cmv29) ∧
      x.level2.length = countLevel (containerBlocks d.cmv29) 2) ∧
    ((∀ b, b ∈ x.level8 ↔ b ∈ containerBlocks d.cmv40 ∧ b.level = 8) ∧ x.level8.Sublist (containerBlocks d.cmv40) ∧
      x.level8.length = countLevel (containerBlocks d.cmv40) 8) ∧
    ((∀ b, b ∈ x.level10 ↔ b ∈ containerBlocks d.cmv40 ∧ b.level = 10) ∧ x.level10.Sublist (containerBlocks d.cmv40) ∧
      x.level10.length = countLevel (containerBlocks d.cmv40) 10) ∧
    x.num_ext_blocks = containerCount d.cmv29 + containerCount d.cmv40 :=
  ⟨levelList_spec _ 2, levelList_spec _ 8, levelList_spec _ 10, rfl⟩

/-! ## single-instance pointers are faithful; no block of a valid RPU is lost -/

theorem countLevel_append (a b : List Block) (l : Nat) : countLevel (a ++ b) l = countLevel a l + countLevel b l := by
  simp [countLevel, List.filter_append]

theorem countLevel_zero_of_levels (bs : List Block) (L : List Nat) (l : Nat)
    (h : ∀ b ∈ bs, b.level ∈ L) (hl : l ∉ L) : countLevel bs l = 0 := by
  simp only [countLevel, List.length_eq_zero_iff, List.filter_eq_nil_iff]
  intro b hb hbl
  have : b.level = l := by simpa using hbl
  exact hl (this ▸ h b hb)

/-- with at most one block of the level, the pointer shows that block -/
theorem single_faithful (bs : List Block) (l : Nat) (b : Block) (hc : countLevel bs l ≤ 1)
    (hb : b ∈ bs) (hl : b.level = l) : lastOfLevel bs l = some b := by
  have hm : b ∈ bs.filter (·.level == l) := by simp [List.mem_filter, hb, hl]
  unfold countLevel at hc
  unfold lastOfLevel
  generalize bs.filter (·.level == l) = f at hm hc
  match f, hm, hc with
  | [], hm, _ => simp at hm
  | [x], hm, _ => simp at hm; simp [hm]
  | _ :: _ :: _, _, hc => simp at hc

theorem all_levels {p : Block → Bool} {bs : List Block} (h : bs.all p = true) : ∀ b ∈ bs, p b = true := by
  simpa [List.all_eq_true] using h

/-- what a valid DM payload guarantees about its containers (`CmV29DmData::validate`, `CmV40DmData::validate`) -/
theorem validate_levels (d : DmData) (hv : d.validate = true) :
    (∀ b ∈ containerBlocks d.cmv29, b.level ∈ cmv29Levels) ∧ (∀ b ∈ containerBlocks d.cmv40, b.level ∈ cmv40Levels) ∧
    (∀ l ∈ [1, 4, 5, 6, 255], countLevel (containerBlocks d.cmv29) l ≤ 1) ∧
    (∀ l ∈ [3, 9, 11, 254], countLevel (containerBlocks d.cmv40) l ≤ 1) := by
  simp only [DmData.validate, Bool.and_eq_true] at hv
  obtain ⟨⟨_, h29⟩, h40⟩ := hv
  refine ⟨?_, ?_, ?_, ?_⟩
  · cases hc : d.cmv29 with
    | none => simp [containerBlocks]
    | some c =>
      simp only [hc, Container.validate29, Bool.and_eq_true] at h29
      intro b hb
      have := all_levels h29.1.1.1.1.1.1 b (by simpa [containerBlocks] using hb)
      simpa using this
  · cases hc : d.cmv40 with
    | none => simp [containerBlocks]
    | some c =>
      simp only [hc, Container.validate40, Bool.and_eq_true] at h40
      intro b hb
      have := all_levels h40.1.1.1.1.1.1 b (by simpa [containerBlocks] using hb)
      simpa using this
  · cases hc : d.cmv29 with
    | none => simp [containerBlocks, countLevel]
    | some c =>
      simp only [hc, Container.validate29, Bool.and_eq_true, decide_eq_true_eq] at h29
      intro l hl
      simp only [List.mem_cons, List.not_mem_nil, or_false] at hl
      rcases hl with rfl | rfl | rfl | rfl | rfl <;> simp only [containerBlocks] <;> omega
  · cases hc : d.cmv40 with
    | none => simp [containerBlocks, countLevel]
    | some c =>
      simp only [hc, Container.validate40, Bool.and_eq_true, decide_eq_true_eq, beq_iff_eq] at h40
      intro l hl
      simp only [List.mem_cons, List.not_mem_nil, or_false] at hl
      rcases hl with rfl | rfl | rfl | rfl <;> simp only [containerBlocks] <;> omega

/-- a valid DM payload has at most one block per single-instance level over both containers -/
theorem singlesOnce_of_validate (d : DmData) (hv : d.validate = true) : d.singlesOnce = true := by
  obtain ⟨h29, h40, c29, c40⟩ := validate_levels d hv
  have z29 : ∀ l, l ∉ cmv29Levels → countLevel (containerBlocks d.cmv29) l = 0 :=
    fun l hl => countLevel_zero_of_levels _ _ l h29 hl
  have z40 : ∀ l, l ∉ cmv40Levels → countLevel (containerBlocks d.cmv40) l = 0 :=
    fun l hl => countLevel_zero_of_levels _ _ l h40 hl
  simp only [DmData.singlesOnce, List.all_eq_true, decide_eq_true_eq]
  intro l hl
  rw [DmData.allBlocks, countLevel_append]
  simp only [singleLevels, List.mem_cons, List.not_mem_nil, or_false] at hl
  rcases hl with rfl | rfl | rfl | rfl | rfl | rfl | rfl | rfl | rfl
  · have := c29 1 (by simp); have := z40 1 (by decide); omega
  · have := c40 3 (by simp); have := z29 3 (by decide); omega
  · have := c29 4 (by simp); have := z40 4 (by decide); omega
  · have := c29 5 (by simp); have := z40 5 (by decide); omega
  · have := c29 6 (by simp); have := z40 6 (by decide); omega
  · have := c40 9 (by simp); have := z29 9 (by decide); omega
  · have := c40 11 (by simp); have := z29 11 (by decide); omega
  · have := c40 254 (by simp); have := z29 254 (by decide); omega
  · have := c29 255 (by simp); have := z40 255 (by decide); omega

/-- a block is observable through the C `DmData` -/
def Visible (x : CLevels) (b : Block) : Prop :=
  b ∈ x.level2 ∨ b ∈ x.level8 ∨ b ∈ x.level10 ∨
  some b ∈ [x.level1, x.level3, x.level4, x.level5, x.level6, x.level9, x.level11, x.level254, x.level255]

/-- for a valid DM payload every block of both containers is observable through the C view: L2/L8/L10 blocks
in their lists, every other block behind the pointer of its level -/
theorem cview_no_block_lost (d : DmData) (hv : d.validate = true) :
    ∀ b ∈ d.allBlocks, Visible (cLevels d) b := by
  obtain ⟨h29, h40, _, _⟩ := validate_levels d hv
  have hs := singlesOnce_of_validate d hv
  simp only [DmData.singlesOnce, List.all_eq_true, decide_eq_true_eq] at hs
  intro b hb
  have single : b.level ∈ singleLevels → lastOfLevel d.allBlocks b.level = some b :=
    fun hl => single_faithful _ _ b (hs _ hl) hb rfl
  have hb' := hb
  simp only [DmData.allBlocks, List.mem_append] at hb'
  unfold Visible
  rcases hb' with h | h
  · have hl := h29 b h
    simp only [cmv29Levels, List.mem_cons, List.not_mem_nil, or_false] at hl
    rcases hl with hl | hl | hl | hl | hl | hl
    · have := single (by simp [singleLevels, hl]); rw [hl] at this; simp [cLevels, this]
    · left; simp [cLevels, levelList, List.mem_filter, h, hl]
    · have := single (by simp [singleLevels, hl]); rw [hl] at this; simp [cLevels, this]
    · have := single (by simp [singleLevels, hl]); rw [hl] at this; simp [cLevels, this]
    · have := single (by simp [singleLevels, hl]); rw [hl] at this; simp [cLevels, this]
    · have := single (by simp [singleLevels, hl]); rw [hl] at this; simp [cLevels, this]
  · have hl := h40 b h
    simp only [cmv40Levels, List.mem_cons, List.not_mem_nil, or_false] at hl
    rcases hl with hl | hl | hl | hl | hl | hl
    · have := single (by simp [singleLevels, hl]); rw [hl] at this; simp [cLevels, this]
    · right; left; simp [cLevels, levelList, List.mem_filter, h, hl]
    · have := single (by simp [singleLevels, hl]); rw [hl] at this; simp [cLevels, this]
    · right; right; left; simp [cLevels, levelList, List.mem_filter, h, hl]
    · have := single (by simp [singleLevels, hl]); rw [hl] at this; simp [cLevels, this]
    · have := single (by simp [singleLevels, hl]); rw [hl] at this; simp [cLevels, this]

/-! ## write / conversion wrappers return what the Rust calls return -/

/-- a write wrapper returns a `Data` with exactly the Rust bytes when the Rust writer succeeds and a null
pointer exactly when it fails; the return code of the converting / editing wrappers is 0 exactly on `Ok` -/
theorem wrappers_same_result :
    (∀ (w : Res Bytes) (o : Bytes), cData w = some (some o) ↔ w = .ok o) ∧
    (∀ w : Res Bytes, cData w = some none ↔ w = .error) ∧
    (∀ {α} (x : Res α), cRc x = some 0 ↔ x.isOk = true) ∧
    (∀ {α} (x : Res α), cRc x = some (-1) ↔ x = .error) := by
  refine ⟨?_, ?_, ?_, ?_⟩
  · intro w o; cases w <;> simp [cData]
  · intro w; cases w <;> simp [cData]
  · intro α x; cases x <;> simp [cRc, Res.isOk]
  · intro α x; cases x <;> simp [cRc]

/-- the four writers agree with each other: the NAL form is `7C 01` + the escaped raw form, the complete AV1
form is `B5` + the T.35 payload form; all four fail when the raw writer fails -/
theorem writers_consistent (r : Rpu) :
    ∃ w p, rustWriters r = [w, w.bind (fun o => .ok (0x7C :: 0x01 :: Esc.escape o)), p, p.bind (fun o => .ok (0xB5 :: o))] ∧
      (w = .error → rustWriters r = [.error, .error, .error, .error]) := by
  refine ⟨writeRpu r, (writeRpu r).bind Av1.wrap, ?_, ?_⟩
  · simp only [rustWriters]
    cases writeRpu r <;> rfl
  · intro h; simp only [rustWriters, h]; rfl

/-! ## ownership: every allocated object is released exactly once, no null pointer reaches a deallocator -/

/-- no deallocation site of the free functions is reached with a null pointer -/
theorem no_null_freed (r : Rpu) : none ∉ freeCalls (cview r) := by
  have g : ∀ p : Ptr, none ∉ guarded p := by
    intro p; cases p <;> simp [guarded]
  have fc : ∀ i c, none ∉ freeCurve i c := by
    intro i c
    unfold freeCurve
    cases hp : c.polynomial with
    | none => simpa [hp] using g _
    | some p => simp [ptrOf]
  have fl : ∀ l bs, none ∉ freeList l bs := by
    intro l bs; simp [freeList]
  have fm : ∀ m, none ∉ freeMapping m := by
    intro m
    simp only [freeMapping, List.mem_append, not_or]
    exact ⟨⟨⟨⟨⟨fc _ _, fc _ _⟩, fc _ _⟩, g _⟩, g _⟩, by simp⟩
  have fd : ∀ d, none ∉ freeDm d := by
    intro d
    simp only [freeDm, List.mem_append, not_or]
    exact ⟨⟨⟨⟨⟨⟨⟨⟨⟨⟨⟨⟨g _, fl _ _⟩, g _⟩, g _⟩, g _⟩, g _⟩, fl _ _⟩, g _⟩, fl _ _⟩, g _⟩, g _⟩, g _⟩, by simp⟩
  unfold freeCalls
  simp only [List.mem_append, not_or]
  refine ⟨⟨by simp, ?_⟩, ?_⟩
  · cases (cview r).mapping with
    | none => simp
    | some m => exact fm m
  · cases (cview r).dm with
    | none => simp
    | some d => exact fd d

theorem fm_guarded (p : Ptr) : (guarded p).filterMap id = p.toList := by
  cases p <;> rfl

theorem fm_someIf {α} (o : Obj) (x : Option α) : (ptrOf o x).toList = someIf x.isSome o := by
  cases x <;> rfl

/-- under the no-mixed-curve hypothesis `ReshapingCurve::free` releases what `ReshapingCurve::from` allocated -/
theorem freeCurve_eq (i : Nat) (c : Curve) (h : c.notMixed = true) :
    (freeCurve i (cCurve c)).filterMap id = allocsCurve i c := by
  unfold Curve.notMixed at h
  cases hp : c.polynomial <;> cases hm : c.mmr <;>
    simp_all [freeCurve, allocsCurve, cCurve, guarded, ptrOf, someIf]

theorem count_mapping (m : Mapping) (h : m.notMixed = true) (o : Obj) :
    ((freeMapping (cMapping m)).filterMap id).count o = (allocsMapping m).count o := by
  simp only [Mapping.notMixed, Bool.and_eq_true] at h
  have e0 : (cMapping m).curves.getD 0 (cCurve {}) = cCurve (m.curve 0) := rfl
  have e1 : (cMapping m).curves.getD 1 (cCurve {}) = cCurve (m.curve 1) := rfl
  have e2 : (cMapping m).curves.getD 2 (cCurve {}) = cCurve (m.curve 2) := rfl
  have ep : (guarded (if (cMapping m).nlq_pred_data_null then none else some Obj.nlqPred)).filterMap id
      = someIf m.nlq_pred_pivot_value.isSome .nlqPred := by
    cases hq : m.nlq_pred_pivot_value <;> simp [cMapping, hq, guarded, someIf]
  have en : (guarded (ptrOf Obj.nlq (cMapping m).nlq)).filterMap id = someIf m.nlq.isSome .nlq := by
    rw [fm_guarded, fm_someIf]; simp [cMapping]
  simp only [freeMapping, allocsMapping, List.filterMap_append, e0, e1, e2, freeCurve_eq _ _ h.1.1,
    freeCurve_eq _ _ h.1.2, freeCurve_eq _ _ h.2, ep, en, List.count_append]
  have : List.filterMap id [some Obj.map] = [Obj.map] := rfl
  rw [this]
  omega

theorem count_itemsOf (l n : Nat) (o : Obj) :
    (itemsOf l n).count o = match o with | .item l' i => if l' = l ∧ i < n then 1 else 0 | _ => 0 := by
  induction n with
  | zero => cases o <;> simp [itemsOf]
  | succ n ih =>
    have : itemsOf l (n + 1) = itemsOf l n ++ [Obj.item l n] := by
      simp [itemsOf, List.range_succ]
    rw [this, List.count_append, ih]
    cases o <;> simp [List.count_cons]
    rename_i l' i
    by_cases hl : l' = l
    · subst hl
      by_cases hi : i < n
      · have : ¬ n = i := by omega
        simp [hi, this]; omega
      · by_cases hn : n = i
        · subst hn; simp
        · have : ¬ i < n + 1 := by omega
          simp [hi, hn, this]
    · have : ¬ l = l' := fun e => hl e.symm
      simp [hl, this]

theorem fm_freeList (l : Nat) (bs : List Block) :
    (freeList l bs).filterMap id = [Obj.list l] ++ itemsOf l bs.length := by
  simp [freeList, List.filterMap_map]

theorem count_allocsSingles (bs : List Block) (o : Obj) :
    (allocsSingles bs).count o =
      match o with | .single l => if l ∈ singleLevels then countLevel bs l else 0 | _ => 0 := by
  induction bs with
  | nil => cases o <;> simp [allocsSingles, countLevel]
  | cons b bs ih =>
    have step : allocsSingles (b :: bs) =
        (if b.level ∈ singleLevels then [Obj.single b.level] else []) ++ allocsSingles bs := by
      simp only [allocsSingles, List.filterMap_cons]
      by_cases hs : b.level ∈ singleLevels
      · simp [hs]
      · simp [hs]
    rw [step, List.count_append, ih]
    have cl : ∀ l, countLevel (b :: bs) l = (if b.level = l then 1 else 0) + countLevel bs l := by
      intro l
      simp only [countLevel, List.filter_cons]
      by_cases hb : b.level = l <;> simp [hb] <;> omega
    cases o with
    | single l =>
      simp only [cl]
      by_cases hs : b.level ∈ singleLevels
      · by_cases hb : b.level = l
        · subst hb; simp [hs] <;> omega
        · simp [hs, hb]
      · by_cases hb : b.level = l
        · subst hb; simp [hs]
        · simp [hs, hb]
    | _ => split <;> simp

theorem lastOfLevel_isSome (bs : List Block) (l : Nat) : (lastOfLevel bs l).isSome = decide (countLevel bs l ≠ 0) := by
  unfold lastOfLevel countLevel
  generalize bs.filter (·.level == l) = f
  cases f with
  | nil => simp
  | cons x xs => simp [List.getLast?_isSome]

theorem count_singlePtr (bs : List Block) (k : Nat) (o : Obj) :
    ((guarded (ptrOf (.single k) (lastOfLevel bs k))).filterMap id).count o =
      if o = .single k ∧ countLevel bs k ≠ 0 then 1 else 0 := by
  rw [fm_guarded, fm_someIf, lastOfLevel_isSome]
  by_cases hc : countLevel bs k = 0
  · simp [hc, someIf]
  · simp only [hc, ne_eq, not_false_eq_true, decide_true, someIf, and_true, if_true]
    by_cases ho : o = .single k
    · subst ho; simp
    · have : ¬ Obj.single k = o := fun e => ho e.symm
      simp [ho, this]

theorem count_dm (d : DmData) (h : d.singlesOnce = true) (o : Obj) :
    ((freeDm (cDm d)).filterMap id).count o = (allocsDm d).count o := by
  simp only [DmData.singlesOnce, List.all_eq_true, decide_eq_true_eq] at h
  have hdm : List.filterMap id [some Obj.dm] = [Obj.dm] := rfl
  simp only [freeDm, allocsDm, cDm, cLevels, List.filterMap_append, fm_freeList, List.count_append,
    count_singlePtr, count_allocsSingles, hdm]
  cases o with
  | single l =>
    simp only [Obj.single.injEq, reduceCtorEq, if_false, List.count_cons, List.count_nil,
      beq_iff_eq, count_itemsOf]
    by_cases hs : l ∈ singleLevels
    · have hle := h l hs
      simp only [singleLevels, List.mem_cons, List.not_mem_nil, or_false] at hs
      rcases hs with rfl | rfl | rfl | rfl | rfl | rfl | rfl | rfl | rfl <;>
        simp [singleLevels] <;> first | omega | (split <;> omega)
    · have hne : l ≠ 1 ∧ l ≠ 3 ∧ l ≠ 4 ∧ l ≠ 5 ∧ l ≠ 6 ∧ l ≠ 9 ∧ l ≠ 11 ∧ l ≠ 254 ∧ l ≠ 255 := by
        simp only [singleLevels, List.mem_cons, List.not_mem_nil, or_false, not_or] at hs
        exact hs
      obtain ⟨h1, h3, h4, h5, h6, h9, h11, h254, h255⟩ := hne
      simp [hs, h1, h3, h4, h5, h6, h9, h11, h254, h255]
  | _ => simp [List.count_cons, count_itemsOf] <;> omega

theorem count_someIf (b : Bool) (x o : Obj) : (someIf b x).count o = if b = true ∧ x = o then 1 else 0 := by
  cases b <;> simp [someIf, List.count_cons]

theorem count_allocsCurve (i : Nat) (c : Curve) (o : Obj) :
    (allocsCurve i c).count o = match o with
      | .pivots j => if i = j then 1 else 0
      | .poly j => if c.polynomial.isSome = true ∧ i = j then 1 else 0
      | .mmr j => if c.mmr.isSome = true ∧ i = j then 1 else 0
      | _ => 0 := by
  simp only [allocsCurve, List.count_append, count_someIf, List.count_cons, List.count_nil]
  cases o <;> simp

/-- no object is allocated twice by the three getters -/
theorem alloc_once (r : Rpu) (h : r.ownershipOk = true) (o : Obj) : (allocs r).count o ≤ 1 := by
  simp only [Rpu.ownershipOk, Bool.and_eq_true] at h
  have hs : ∀ d, r.vdr_dm_data = some d → ∀ l ∈ singleLevels, countLevel d.allBlocks l ≤ 1 := by
    intro d hd
    simp only [hd] at h
    simpa [DmData.singlesOnce, List.all_eq_true] using h.2
  unfold allocs
  cases hm : r.rpu_data_mapping <;> cases hd : r.vdr_dm_data <;>
    simp only [allocsMapping, allocsDm, List.count_append, count_allocsCurve, count_someIf,
      count_allocsSingles, count_itemsOf, List.append_nil] <;>
    cases o <;> simp [List.count_cons]
  all_goals first | omega | ((repeat' split) <;> first | omega | (rename_i hx; have := hs _ hd _ hx; omega))

/-- **free once**: for an RPU satisfying the ownership hypotheses, the objects released by the three free
functions are exactly the objects the three getters allocated, each exactly once (equal multiplicities, and
no object is allocated twice) -/
theorem free_once (r : Rpu) (h : r.ownershipOk = true) :
    (∀ o, (frees (cview r)).count o = (allocs r).count o) ∧ (∀ o, (allocs r).count o ≤ 1) ∧
    (frees (cview r)).Perm (allocs r) := by
  have h0 := h
  simp only [Rpu.ownershipOk, Bool.and_eq_true] at h
  have hcount : ∀ o, (frees (cview r)).count o = (allocs r).count o := by
    intro o
    have hh : List.filterMap id [some Obj.hdr] = [Obj.hdr] := rfl
    simp only [frees, freeCalls, allocs, cview, List.filterMap_append, List.count_append, hh]
    cases hm : r.rpu_data_mapping with
    | none =>
      cases hd : r.vdr_dm_data with
      | none => simp
      | some d =>
        simp only [hd] at h
        simp [count_dm d h.2 o]
    | some m =>
      simp only [hm] at h
      cases hd : r.vdr_dm_data with
      | none => simp [count_mapping m h.1 o]
      | some d =>
        simp only [hd] at h
        simp [count_mapping m h.1 o, count_dm d h.2 o]
  exact ⟨hcount, alloc_once r h0, List.perm_iff_count.mpr hcount⟩

/-- the DM half of the ownership hypothesis holds for every RPU the parser accepts (`validate` is the last
step of `DoviRpu::parse`) -/
theorem singlesOnce_of_rpu_validate (r : Rpu) (hv : r.validate = true) :
    match r.vdr_dm_data with | some d => d.singlesOnce = true | none => True := by
  cases hd : r.vdr_dm_data with
  | none => trivial
  | some d =>
    simp only [Rpu.validate, hd, Bool.and_eq_true] at hv
    exact singlesOnce_of_validate d hv.2

/-- `validate` is the last step of `DoviRpu::parse`: whatever the three entry points accept is valid -/
theorem parseRpu_validates (d : Bytes) (r : Rpu) (h : parseRpu d = .ok r) : r.validate = true := by
  unfold parseRpu at h
  simp only at h
  split at h
  · cases h
  · split at h
    · cases h
    · split at h
      · cases h
      · cases h
      · split at h
        · cases h
        · split at h
          · injection h with h; subst h; assumption
          · cases h

/-- … hence the DM half of the ownership hypothesis of `free_once` holds for every handle the C parse
functions return without an error (the curve half is evaluated by the model driver on every case) -/
theorem parsed_singlesOnce (d : Bytes) (r : Rpu) (h : parseRpu d = .ok r) :
    match r.vdr_dm_data with | some dm => dm.singlesOnce = true | none => True :=
  singlesOnce_of_rpu_validate r (parseRpu_validates d r h)

/-- the pre-fix behaviour of `DmData::free` (no null checks: finding F9) is excluded by `no_null_freed`:
an unguarded site on an absent level passes a null pointer -/
example : none ∈ ([ptrOf (Obj.single 1) (lastOfLevel [] 1)] : List Ptr) := by decide

/-! ## non-vacuity -/

def exDm : DmData :=
  { cmv29 := some { num_ext_blocks := 3, blocks := [⟨1, 5, [0, 100, 50]⟩, ⟨2, 11, [2081, 1, 2, 3, 4, 5, 6]⟩, ⟨2, 11, [3079, 1, 2, 3, 4, 5, 6]⟩] },
    cmv40 := some { num_ext_blocks := 2, blocks := [⟨254, 2, [0, 2]⟩, ⟨8, 10, [1, 1, 2, 3, 4, 5, 6]⟩] } }

def exRpu : Rpu :=
  { dovi_profile := 8, rpu_data_mapping := some { curves := [{ polynomial := some {} }, { mmr := some {} }, {}] },
    vdr_dm_data := some exDm }

example : exRpu.ownershipOk = true := by decide
example : (cLevels exDm).level2.length = 2 ∧ (cLevels exDm).level1.isSome ∧ (cLevels exDm).level3 = none ∧
    (cLevels exDm).num_ext_blocks = 5 := by decide
example : (allocs exRpu).length = (frees (cview exRpu)).length ∧ (allocs exRpu).length > 12 := by decide
example : (cMapping {}).nlq_method_idc = -1 ∧ (cMapping {}).nlq_pred_pivot_value = [] := by decide
example : cParseRpu [] = some { rpu := none, error := true } := by decide

end Dovi.C20

/-! # Audit additions: ownership for every parsed RPU; the C structures determine the Rust structures -/
namespace Dovi.C20
open Dovi Dovi.CViewP

/-! ## ownership hypotheses hold for every parse result -/

/-- **both halves of the ownership hypothesis hold for every RPU `DoviRpu::parse` returns**: the DM half from
`validate` (single-instance levels occur at most once), the curve half because the parser builds each component
piece by piece and `validate` (`Curve.piecesOk`, repository fix 324e2a5) rejects a component whose pieces went
to both boxes: what is left has exactly one of `polynomial` / `mmr` (`parseMapping_shape`) -/
theorem parsed_ownershipOk (d : Bytes) (r : Rpu) (h : parseRpu d = .ok r) : r.ownershipOk = true := by
  have hdm := parsed_singlesOnce d r h
  have hmp := parseRpu_mapping_shape h
  unfold Rpu.ownershipOk
  rw [Bool.and_eq_true]
  constructor
  · cases hm : r.rpu_data_mapping with
    | none => rfl
    | some m => exact shape_notMixed r.header m (hmp m hm)
  · cases hd : r.vdr_dm_data with
    | none => rfl
    | some dm => rw [hd] at hdm; exact hdm

/-- **free once, for every parsed RPU, without further hypotheses**: the objects released by the three free
functions are exactly the objects the three getters allocated, each exactly once, and no deallocation site is
reached with a null pointer -/
theorem parsed_free_once (d : Bytes) (r : Rpu) (h : parseRpu d = .ok r) :
    (∀ o, (frees (cview r)).count o = (allocs r).count o) ∧ (∀ o, (allocs r).count o ≤ 1) ∧
    (frees (cview r)).Perm (allocs r) ∧ none ∉ freeCalls (cview r) :=
  have hf := free_once r (parsed_ownershipOk d r h)
  ⟨hf.1, hf.2.1, hf.2.2, no_null_freed r⟩

theorem parsed_alloc_once (d : Bytes) (r : Rpu) (h : parseRpu d = .ok r) (o : Obj) : (allocs r).count o ≤ 1 :=
  alloc_once r (parsed_ownershipOk d r h) o

/-- a handle that holds an RPU got it from `DoviRpu::parse` on some (trimmed / unescaped / unwrapped) buffer -/
theorem handle_rpu_parsed (d : Bytes) (h : Handle) (r : Rpu)
    (hh : cParseRpu d = some h ∨ cParseNalu d = some h ∨ cParseAv1 d = some h) (hr : h.rpu = some r) :
    ∃ t, parseRpu t = .ok r := by
  have key : ∀ (x : Res Bytes) (f : Bytes → Bytes), Handle.ofRes (x.bind fun t => parseRpu (f t)) = some h →
      ∃ t, parseRpu t = .ok r := by
    intro x f hx
    cases x with
    | error => simp only [Res.bind, Handle.ofRes, Option.some.injEq] at hx; subst hx; cases hr
    | panic => simp [Res.bind, Handle.ofRes] at hx
    | ok t =>
      simp only [Res.bind] at hx
      cases hp : parseRpu (f t) with
      | error => rw [hp] at hx; simp only [Handle.ofRes, Option.some.injEq] at hx; subst hx; cases hr
      | panic => rw [hp] at hx; simp [Handle.ofRes] at hx
      | ok r' =>
        rw [hp] at hx
        simp only [Handle.ofRes, Option.some.injEq] at hx
        subst hx
        injection hr with hr
        subst hr
        exact ⟨f t, hp⟩
  rcases hh with hh | hh | hh
  · exact key (trimPrefix d) id hh
  · exact key (trimPrefix d) Esc.unescape hh
  · exact key (Av1.unwrap d) id hh

/-- **every object returned for a handle of the three C parse functions can be freed exactly once without
fault** (the last clause of the property, for all input buffers) -/
theorem c_parse_free_once (d : Bytes) (h : Handle) (r : Rpu)
    (hh : cParseRpu d = some h ∨ cParseNalu d = some h ∨ cParseAv1 d = some h) (hr : h.rpu = some r) :
    (∀ o, (frees (cview r)).count o = (allocs r).count o) ∧ (∀ o, (allocs r).count o ≤ 1) ∧
    (frees (cview r)).Perm (allocs r) ∧ none ∉ freeCalls (cview r) := by
  obtain ⟨t, ht⟩ := handle_rpu_parsed d h r hh hr
  exact parsed_free_once t r ht

-- the hypotheses are satisfiable: `parsed_ownershipOk` is applied to real parse results by `./check C20`; the
-- curve half is not a consequence of `piecesOk` alone (a hand-built component with both boxes passes it):
example : ({ polynomial := some { poly_order_minus1 := [0] }, mmr := some {} } : Curve).piecesOk = true ∧
    ({ polynomial := some { poly_order_minus1 := [0] }, mmr := some {} } : Curve).notMixed = false := by decide

/-! ## the header view determines every exported header field -/

/-- the JSON rendering of the C header (what the correspondence check compares with the real `repr(C)` struct)
is injective on the C struct: `guessed_profile`, `el_type` and each of its 21 copied fields is printed under its
own key, no two fields are merged -/
theorem header_json_injective (c c' : CHeader) (h : c.toJson = c'.toJson) : c = c' := by
  obtain ⟨g, e, f1, f2, f3, f4, f5, f6, f7, f8, f9, f10, f11, f12, f13, f14, f15, f16, f17, f18, f19, f20, f21⟩ := c
  obtain ⟨g', e', k1, k2, k3, k4, k5, k6, k7, k8, k9, k10, k11, k12, k13, k14, k15, k16, k17, k18, k19, k20, k21⟩ := c'
  simp only [CHeader.toJson, cn, CJ.obj.injEq, List.cons.injEq, Prod.mk.injEq, CJ.num.injEq, CJ.bool.injEq,
    Int.natCast_inj, true_and, and_true] at h
  obtain ⟨h1, h2, h3⟩ := h
  have he : e = e' := by
    cases e with
    | none => cases e' with
      | none => rfl
      | some x => cases x <;> simp at h2
    | some x => cases e' with
      | none => cases x <;> simp at h2
      | some y => cases x <;> cases y <;> simp at h2 <;> rfl
  subst h1; subst he
  simp only [CHeader.mk.injEq, true_and]
  simp_all

/-- **the C header carries every Rust header field except three**: two Rust headers whose C structs
(`RpuDataHeader::from`) are equal agree in all fields but `coefficient_log2_denom_length`, `ext_mapping_idc_0_4`,
`ext_mapping_idc_5_7` (the C struct has no such members); for headers of the parser's shape the first of these
is a function of carried fields (`derivedDenomLength`), so only the two `ext_mapping_idc` fields stay open -/
theorem cHeader_determines (h h' : Header) (hc : cHeaderFrom h = cHeaderFrom h') :
    h = { h' with coefficient_log2_denom_length := h.coefficient_log2_denom_length,
                  ext_mapping_idc_0_4 := h.ext_mapping_idc_0_4, ext_mapping_idc_5_7 := h.ext_mapping_idc_5_7 } ∧
    (h.Wf = true → h'.Wf = true →
      h = { h' with ext_mapping_idc_0_4 := h.ext_mapping_idc_0_4, ext_mapping_idc_5_7 := h.ext_mapping_idc_5_7 }) :=
  ⟨cHeaderFrom_eq h h' hc, fun hw hw' => cHeaderFrom_eq_wf h h' hw hw' hc⟩

/-- **the limit is real, for arbitrary Rust headers**: each of the three fields the C struct lacks can be changed
without changing the C header (these are `pub` fields: an RPU built or edited through the Rust API may hold any
value there) -/
theorem cHeader_not_injective :
    cHeaderFrom { coefficient_log2_denom_length := 7 } = cHeaderFrom {} ∧
    cHeaderFrom { ext_mapping_idc_0_4 := 7 } = cHeaderFrom {} ∧
    cHeaderFrom { ext_mapping_idc_5_7 := 7 } = cHeaderFrom {} := by decide

/-! ## the C mapping determines the Rust mapping -/

/-- reading the C `RpuDataMapping` back gives the Rust mapping: no field is lost, merged or reordered
(three components; `-1` markers, the empty buffer and the null data pointer decode uniquely) -/
theorem cMapping_roundtrip (m : Mapping) (hl : m.curves.length = 3) : toMapping (cMapping m) = m :=
  toMapping_cMapping m hl

/-- hence the conversion is injective on mappings with three components -/
theorem cMapping_injective (m m' : Mapping) (hl : m.curves.length = 3) (hl' : m'.curves.length = 3)
    (h : cMapping m = cMapping m') : m = m' := by
  rw [← toMapping_cMapping m hl, ← toMapping_cMapping m' hl', h]

example : ({} : Mapping).curves.length = 3 := rfl

/-- the length hypothesis is needed: a fourth component is not visible through the fixed array of three -/
example : cMapping { curves := [{}, {}, {}, { num_pivots_minus2 := 7 }] } = cMapping {} := by decide

/-! ## the C `DmData` determines, level by level, the blocks of the DM payload -/

/-- reading the C `DmData` back level by level: for a valid DM payload the list / pointer of level `l` holds
exactly the blocks of level `l` of both containers, in container order -/
theorem cLevels_perLevel (d : DmData) (hv : d.validate = true) (l : Nat) :
    perLevel (cLevels d) l = levelList d.allBlocks l := by
  obtain ⟨h29, h40, _, _⟩ := validate_levels d hv
  have hs := singlesOnce_of_validate d hv
  simp only [DmData.singlesOnce, List.all_eq_true, decide_eq_true_eq] at hs
  have n29 : ∀ k, k ∉ cmv29Levels → levelList (containerBlocks d.cmv29) k = [] :=
    fun k hk => levelList_nil_of_levels _ _ k h29 hk
  have n40 : ∀ k, k ∉ cmv40Levels → levelList (containerBlocks d.cmv40) k = [] :=
    fun k hk => levelList_nil_of_levels _ _ k h40 hk
  rw [DmData.allBlocks, levelList_append]
  by_cases h2 : l = 2
  · subst h2
    rw [n40 2 (by decide), List.append_nil]; rfl
  by_cases h8 : l = 8
  · subst h8
    rw [n29 8 (by decide), List.nil_append]; rfl
  by_cases h10 : l = 10
  · subst h10
    rw [n29 10 (by decide), List.nil_append]; rfl
  simp only [perLevel, h2, h8, h10, if_false]
  by_cases hsl : l ∈ singleLevels
  · rw [single_cLevels d l hsl, ← levelList_append, ← DmData.allBlocks]
    exact getLast?_toList_of_le_one _ (hs l hsl)
  · have hl29 : l ∉ cmv29Levels := by
      simp only [singleLevels, cmv29Levels, List.mem_cons, List.not_mem_nil, or_false, not_or] at hsl ⊢
      omega
    have hl40 : l ∉ cmv40Levels := by
      simp only [singleLevels, cmv40Levels, List.mem_cons, List.not_mem_nil, or_false, not_or] at hsl ⊢
      omega
    rw [n29 l hl29, n40 l hl40]
    have : single (cLevels d) l = none := by
      simp only [singleLevels, List.mem_cons, List.not_mem_nil, or_false, not_or] at hsl
      obtain ⟨a1, a3, a4, a5, a6, a9, a11, a254, a255⟩ := hsl
      simp [single, a1, a3, a4, a5, a6, a9, a11, a254, a255]
    rw [this]; rfl

theorem levelList_c29 (d : DmData) (hv : d.validate = true) (l : Nat) :
    levelList (containerBlocks d.cmv29) l = if l ∈ cmv29Levels then levelList d.allBlocks l else [] := by
  obtain ⟨h29, h40, _, _⟩ := validate_levels d hv
  split
  · rename_i hl
    have : l ∉ cmv40Levels := by
      simp only [cmv29Levels, cmv40Levels, List.mem_cons, List.not_mem_nil, or_false, not_or] at hl ⊢
      omega
    rw [DmData.allBlocks, levelList_append, levelList_nil_of_levels _ _ l h40 this, List.append_nil]
  · rename_i hl
    exact levelList_nil_of_levels _ _ l h29 hl

theorem levelList_c40 (d : DmData) (hv : d.validate = true) (l : Nat) :
    levelList (containerBlocks d.cmv40) l = if l ∈ cmv40Levels then levelList d.allBlocks l else [] := by
  obtain ⟨h29, h40, _, _⟩ := validate_levels d hv
  split
  · rename_i hl
    have : l ∉ cmv29Levels := by
      simp only [cmv29Levels, cmv40Levels, List.mem_cons, List.not_mem_nil, or_false, not_or] at hl ⊢
      omega
    rw [DmData.allBlocks, levelList_append, levelList_nil_of_levels _ _ l h29 this, List.nil_append]
  · rename_i hl
    exact levelList_nil_of_levels _ _ l h40 hl

/-- **the information content of the C `DmData`**: two valid DM payloads have the same C level structure if and
only if each container holds, level by level, the same blocks in the same order, and the block counts add up to
the same number.  Nothing of a level is lost or merged; what the per-level pointers cannot show is only how
blocks of *different* levels were interleaved inside a container (and how the count splits) -/
theorem cLevels_eq_iff (d d' : DmData) (hv : d.validate = true) (hv' : d'.validate = true) :
    cLevels d = cLevels d' ↔
      (∀ l, levelList (containerBlocks d.cmv29) l = levelList (containerBlocks d'.cmv29) l) ∧
      (∀ l, levelList (containerBlocks d.cmv40) l = levelList (containerBlocks d'.cmv40) l) ∧
      containerCount d.cmv29 + containerCount d.cmv40 = containerCount d'.cmv29 + containerCount d'.cmv40 := by
  constructor
  · intro h
    have hall : ∀ l, levelList d.allBlocks l = levelList d'.allBlocks l := by
      intro l
      rw [← cLevels_perLevel d hv l, ← cLevels_perLevel d' hv' l, h]
    refine ⟨fun l => ?_, fun l => ?_, ?_⟩
    · rw [levelList_c29 d hv, levelList_c29 d' hv', hall]
    · rw [levelList_c40 d hv, levelList_c40 d' hv', hall]
    · exact congrArg CLevels.num_ext_blocks h
  · rintro ⟨a, b, c⟩
    have a' : ∀ l, List.filter (fun x : Block => x.level == l) (containerBlocks d.cmv29) =
        List.filter (fun x : Block => x.level == l) (containerBlocks d'.cmv29) := a
    have b' : ∀ l, List.filter (fun x : Block => x.level == l) (containerBlocks d.cmv40) =
        List.filter (fun x : Block => x.level == l) (containerBlocks d'.cmv40) := b
    simp only [cLevels, lastOfLevel, levelList, DmData.allBlocks, List.filter_append, a', b', c]

/-- lists with the same blocks per level are permutations of each other -/
theorem perm_of_levelLists (a b : List Block) (h : ∀ l, levelList a l = levelList b l) : a.Perm b := by
  rw [List.perm_iff_count]
  intro x
  have e : ∀ l : List Block, List.count x (levelList l x.level) = List.count x l := by
    intro l
    unfold levelList
    exact List.count_filter (by simp)
  rw [← e a, ← e b, h]

/-- the interleaving of levels really is not visible: two valid payloads, same C structure, different order -/
example :
    let d : DmData := { cmv29 := some { num_ext_blocks := 2, blocks := [⟨1, 5, [0, 100, 50]⟩, ⟨5, 7, [0, 0, 0, 0]⟩] },
                        main := (List.replicate 32 (0 : Int)).set 25 12 |>.set 21 65535 }
    let d' : DmData := { d with cmv29 := some { num_ext_blocks := 2, blocks := [⟨5, 7, [0, 0, 0, 0]⟩, ⟨1, 5, [0, 100, 50]⟩] } }
    d.validate = true ∧ d'.validate = true ∧ cLevels d = cLevels d' ∧ d ≠ d' := by decide

/-! ## two parsed RPUs with the same C view -/

/-- two DM payloads that agree in every scalar field and, container by container and level by level, in their
blocks (hence up to a permutation that keeps the order inside each level) -/
def DmSame (d d' : DmData) : Prop :=
  d.compressed = d'.compressed ∧ d.affected_dm_metadata_id = d'.affected_dm_metadata_id ∧
  d.current_dm_metadata_id = d'.current_dm_metadata_id ∧ d.scene_refresh_flag = d'.scene_refresh_flag ∧
  d.main = d'.main ∧ d.cmv29.isSome = d'.cmv29.isSome ∧ d.cmv40.isSome = d'.cmv40.isSome ∧
  containerCount d.cmv29 = containerCount d'.cmv29 ∧ containerCount d.cmv40 = containerCount d'.cmv40 ∧
  (∀ l, levelList (containerBlocks d.cmv29) l = levelList (containerBlocks d'.cmv29) l) ∧
  (∀ l, levelList (containerBlocks d.cmv40) l = levelList (containerBlocks d'.cmv40) l) ∧
  (containerBlocks d.cmv29).Perm (containerBlocks d'.cmv29) ∧ (containerBlocks d.cmv40).Perm (containerBlocks d'.cmv40)

/-- container facts of a parsed DM payload: CM v2.9 container present, counts are the list lengths, the
CM v4.0 container is present exactly when there is an L254 block -/
theorem parsed_dm_containers (a : Bytes) (r : Rpu) (hp : parseRpu a = .ok r) (d : DmData) (hd : r.vdr_dm_data = some d) :
    d.validate = true ∧ d.cmv29.isSome = true ∧ containerCount d.cmv29 = (containerBlocks d.cmv29).length ∧
    containerCount d.cmv40 = (containerBlocks d.cmv40).length ∧
    (d.cmv40.isSome = true ↔ levelList (containerBlocks d.cmv40) 254 ≠ []) ∧ d.main.length = 32 := by
  obtain ⟨hval, bits, rest, r0, hrd, rfl⟩ := parseRpu_parts hp
  obtain ⟨_, _, _, _, _, hdm⟩ := readRpuData_parts hrd
  obtain ⟨s, s', hs⟩ := hdm d hd
  obtain ⟨_, hmain, _, ⟨c29, hc29, ok29⟩, ok40, _⟩ := ParseWf.parseDmData_wf hs
  have hdv : d.validate = true := by
    simp only [Rpu.validate, Bool.and_eq_true] at hval
    have := hval.2
    dsimp only at hd this
    rw [hd] at this
    exact this
  refine ⟨hdv, by simp [hc29], by simp [hc29, containerCount, containerBlocks, ok29.count], ?_, ?_, hmain⟩
  · cases hc40 : d.cmv40 with
    | none => rfl
    | some c => simp [containerCount, containerBlocks, (ok40 c hc40).count]
  · cases hc40 : d.cmv40 with
    | none => simp [containerBlocks, levelList]
    | some c =>
      simp only [DmData.validate, hc40, Bool.and_eq_true] at hdv
      have h254 := hdv.2
      simp only [Container.validate40, Bool.and_eq_true, beq_iff_eq] at h254
      have : countLevel c.blocks 254 = 1 := h254.1.1.1.1.1.2
      simp only [Option.isSome_some, containerBlocks, true_iff]
      intro hnil
      have : (levelList c.blocks 254).length = 1 := this
      rw [hnil] at this
      cases this

/-- **what two parsed RPUs with the same C view have in common** — exactly the Rust fields the C structs carry:

* the header in every field **except `ext_mapping_idc_0_4` and `ext_mapping_idc_5_7`**, which the C
  `RpuDataHeader` does not have (`cview_not_injective_ext_mapping_idc_0_4` / `…_5_7` below: they really can differ).
  `coefficient_log2_denom_length` is not a C field either, but for a parsed header it is a function of
  `vdr_seq_info_present_flag`, `coefficient_data_type`, `coefficient_log2_denom` (`denomLength_of_wf`), so it agrees;
* `dovi_profile` (= the C `guessed_profile`, recomputed from the header) and `el_type`;
* the mapping: every scalar, pivot, coefficient, NLQ field and `-1` / null marker;
* the DM payload in all scalar fields and, container by container and level by level, in its blocks
  (`DmSame`): the interleaving of blocks of different levels inside a container is **not** determined.

Not determined either, having no getter: `remaining`, `rpu_data_crc32`, `modified`, `trailing_zeroes` -/
theorem cview_injective_parsed (a b : Bytes) (r r' : Rpu) (hp : parseRpu a = .ok r) (hp' : parseRpu b = .ok r')
    (hc : cview r = cview r') :
    r.header = { r'.header with ext_mapping_idc_0_4 := r.header.ext_mapping_idc_0_4,
                                ext_mapping_idc_5_7 := r.header.ext_mapping_idc_5_7 } ∧
    r.dovi_profile = r'.dovi_profile ∧ r.el_type = r'.el_type ∧
    r.rpu_data_mapping = r'.rpu_data_mapping ∧
    (r.vdr_dm_data = none ↔ r'.vdr_dm_data = none) ∧
    ∀ d d', r.vdr_dm_data = some d → r'.vdr_dm_data = some d' → DmSame d d' := by
  have hch : cHeaderFrom r.header = cHeaderFrom r'.header :=
    congrArg (fun v => ({ v.header with el_type := none } : CHeader)) hc
  have hh := cHeaderFrom_eq_wf r.header r'.header (parseRpu_header_wf hp) (parseRpu_header_wf hp') hch
  have hel : r.el_type = r'.el_type := congrArg (fun v => v.header.el_type) hc
  have hgp : r.header.getDoviProfile = r'.header.getDoviProfile := congrArg (fun v => v.header.guessed_profile) hc
  have hprof : r.dovi_profile = r'.dovi_profile := by
    obtain ⟨_, _, _, r0, hrd, rfl⟩ := parseRpu_parts hp
    obtain ⟨_, _, _, r0', hrd', rfl⟩ := parseRpu_parts hp'
    have e1 := (readRpuData_parts hrd).1
    have e2 := (readRpuData_parts hrd').1
    dsimp only at hgp ⊢
    rw [e1, e2, hgp]
  have hmap : r.rpu_data_mapping.map cMapping = r'.rpu_data_mapping.map cMapping := congrArg CView.mapping hc
  have hdm : r.vdr_dm_data.map cDm = r'.vdr_dm_data.map cDm := congrArg CView.dm hc
  refine ⟨hh, hprof, hel, ?_, ?_, ?_⟩
  · cases hm : r.rpu_data_mapping with
    | none =>
      cases hm' : r'.rpu_data_mapping with
      | none => rfl
      | some m' => rw [hm, hm'] at hmap; cases hmap
    | some m =>
      cases hm' : r'.rpu_data_mapping with
      | none => rw [hm, hm'] at hmap; cases hmap
      | some m' =>
        rw [hm, hm'] at hmap
        simp only [Option.map_some, Option.some.injEq] at hmap
        have l1 := (shape_curves _ _ m (parseRpu_mapping_shape hp m hm)).1
        have l2 := (shape_curves _ _ m' (parseRpu_mapping_shape hp' m' hm')).1
        rw [cMapping_injective m m' l1 l2 hmap]
  · cases hd : r.vdr_dm_data <;> cases hd' : r'.vdr_dm_data <;> rw [hd, hd'] at hdm <;> simp at hdm ⊢
  · intro d d' hd hd'
    rw [hd, hd'] at hdm
    simp only [Option.map_some, Option.some.injEq] at hdm
    obtain ⟨v, s29, n29, n40, i40, m32⟩ := parsed_dm_containers a r hp d hd
    obtain ⟨v', s29', n29', n40', i40', m32'⟩ := parsed_dm_containers b r' hp' d' hd'
    have hlev : cLevels d = cLevels d' := congrArg CDm.dm_data hdm
    have hmain : d.main = d'.main := by
      rw [← cDm_mainVals d m32, ← cDm_mainVals d' m32', hdm]
    obtain ⟨e29, e40, _⟩ := (cLevels_eq_iff d d' v v').1 hlev
    have p29 := perm_of_levelLists _ _ e29
    have p40 := perm_of_levelLists _ _ e40
    refine ⟨congrArg CDm.compressed hdm, congrArg CDm.affected_dm_metadata_id hdm,
      congrArg CDm.current_dm_metadata_id hdm, congrArg CDm.scene_refresh_flag hdm, hmain,
      by rw [s29, s29'], ?_, by rw [n29, n29', p29.length_eq], by rw [n40, n40', p40.length_eq], e29, e40, p29, p40⟩
    have : (d.cmv40.isSome = true ↔ d'.cmv40.isSome = true) := by rw [i40, i40', e40]
    cases h1 : d.cmv40.isSome <;> cases h2 : d'.cmv40.isSome <;>
      first | rfl | (rw [h1, h2] at this; simp at this)

/-- if both payloads keep each container sorted by level (as every container touched by `add_block` /
`replace_metadata_block` is: `Container.update` sorts), agreement up to interleaving is equality -/
theorem dmSame_sorted_eq (d d' : DmData) (h : DmSame d d')
    (s29 : LevelSorted (containerBlocks d.cmv29)) (s29' : LevelSorted (containerBlocks d'.cmv29))
    (s40 : LevelSorted (containerBlocks d.cmv40)) (s40' : LevelSorted (containerBlocks d'.cmv40)) : d = d' := by
  obtain ⟨a, b, c, e, f, i29, i40, n29, n40, l29, l40, _, _⟩ := h
  have b29 := sorted_eq_of_levelLists _ _ s29 s29' l29
  have b40 := sorted_eq_of_levelLists _ _ s40 s40' l40
  have opt : ∀ (o o' : Option Container), o.isSome = o'.isSome → containerCount o = containerCount o' →
      containerBlocks o = containerBlocks o' → o = o' := by
    intro o o' h1 h2 h3
    cases o with
    | none => cases o' with
      | none => rfl
      | some c' => cases h1
    | some c => cases o' with
      | none => cases h1
      | some c' =>
        cases c; cases c'
        simp only [containerCount, containerBlocks] at h2 h3
        subst h2; subst h3; rfl
  have e29 := opt _ _ i29 n29 b29
  have e40 := opt _ _ i40 n40 b40
  cases d; cases d'
  simp only at a b c e f e29 e40
  subst a; subst b; subst c; subst e; subst f; subst e29; subst e40
  rfl

/-- **two parsed RPUs with the same C view and level-sorted containers are the same RPU** up to the two header
fields the C `RpuDataHeader` does not carry (`ext_mapping_idc_0_4`, `ext_mapping_idc_5_7`) and the parts the C API
has no getter for (the bytes between the DM data and the CRC, the CRC itself, the trailing zero count) -/
theorem cview_injective_parsed_sorted (a b : Bytes) (r r' : Rpu) (hp : parseRpu a = .ok r) (hp' : parseRpu b = .ok r')
    (hc : cview r = cview r')
    (hs : ∀ d, r.vdr_dm_data = some d → LevelSorted (containerBlocks d.cmv29) ∧ LevelSorted (containerBlocks d.cmv40))
    (hs' : ∀ d, r'.vdr_dm_data = some d → LevelSorted (containerBlocks d.cmv29) ∧ LevelSorted (containerBlocks d.cmv40)) :
    r' = { r with header := { r.header with ext_mapping_idc_0_4 := r'.header.ext_mapping_idc_0_4,
                                            ext_mapping_idc_5_7 := r'.header.ext_mapping_idc_5_7 },
                  remaining := r'.remaining, rpu_data_crc32 := r'.rpu_data_crc32,
                  trailing_zeroes := r'.trailing_zeroes } := by
  obtain ⟨h1, h2, h3, h4, h5, h6⟩ := cview_injective_parsed a b r r' hp hp' hc
  have hdm : r.vdr_dm_data = r'.vdr_dm_data := by
    cases hd : r.vdr_dm_data with
    | none => exact (h5.1 hd).symm
    | some d =>
      cases hd' : r'.vdr_dm_data with
      | none => rw [h5.2 hd'] at hd; cases hd
      | some d' =>
        have := dmSame_sorted_eq d d' (h6 d d' hd hd') (hs d hd).1 (hs' d' hd').1 (hs d hd).2 (hs' d' hd').2
        rw [this]
  have hm : r.modified = r'.modified := by
    obtain ⟨_, _, _, r0, hrd, rfl⟩ := parseRpu_parts hp
    obtain ⟨_, _, _, r0', hrd', rfl⟩ := parseRpu_parts hp'
    have e1 := (readRpuData_parts hrd).2.2.1
    have e2 := (readRpuData_parts hrd').2.2.1
    show r0.modified = r0'.modified
    rw [e1, e2]
  obtain ⟨p, e, hd, m, d, rem, crc, md, tz⟩ := r
  obtain ⟨p', e', hd', m', d', rem', crc', md', tz'⟩ := r'
  simp only at h1 h2 h3 h4 hdm hm ⊢
  subst h2; subst h3; subst h4; subst hdm; subst hm
  rw [h1]

/-- non-vacuity of the `parseRpu d = .ok r` hypotheses above: the bytes written for the generator's profile 8.1
RPU (polynomial mapping, CM v2.9 and v4.0 containers with L5, L6, L9, L11, L254) are accepted by the parser, so
`parsed_free_once` / `cview_injective_parsed` apply to it -/
example : ∃ a r, parseRpu a = .ok r ∧ r.rpu_data_mapping.isSome = true ∧ r.vdr_dm_data.isSome = true ∧
    r.ownershipOk = true ∧ (allocs r).length > 12 ∧
    (∀ d, r.vdr_dm_data = some d → LevelSorted (containerBlocks d.cmv29) ∧ LevelSorted (containerBlocks d.cmv40)) := by
  have hw : writeRpu C03.exRpu = .ok C03.exBytes := by
    have hok := C03.exRpu_wf.2
    unfold C03.exBytes
    cases h : writeRpu C03.exRpu with
    | ok b => rfl
    | error => rw [h] at hok; cases hok
    | panic => rw [h] at hok; cases hok
  obtain ⟨crc, hp, _⟩ := C03.write_parse_sound C03.exRpu C03.exBytes hw C03.exRpu_wf.1
  refine ⟨_, _, hp, (by decide : C03.exRpu.rpu_data_mapping.isSome = true),
    (by decide : C03.exRpu.vdr_dm_data.isSome = true), parsed_ownershipOk _ _ hp,
    (by decide : (allocs C03.exRpu).length > 12), ?_⟩
  intro d hd
  have : C03.exRpu.vdr_dm_data = some d := hd
  have hdec : ∀ d, C03.exRpu.vdr_dm_data = some d →
      (containerBlocks d.cmv29).Pairwise (fun a b => a.level ≤ b.level) ∧
      (containerBlocks d.cmv40).Pairwise (fun a b => a.level ≤ b.level) := by decide
  exact hdec d this

/-! ## the limit of the header view is a fact: parsed RPUs that differ only where the C struct has no field -/

/-- the generator's profile 8.1 RPU of `C03.exRpu` with `ext_mapping_idc_0_4 = 5` (the syntax packs the field into
the upper byte of the `el_bit_depth_minus8` code; nothing validates it) -/
def witRpu04 : Rpu := { C03.exRpu with header := { C03.exRpu.header with ext_mapping_idc_0_4 := 5 } }
/-- … and with `ext_mapping_idc_5_7 = 3` -/
def witRpu57 : Rpu := { C03.exRpu with header := { C03.exRpu.header with ext_mapping_idc_5_7 := 3 } }

set_option maxRecDepth 100000 in
theorem witRpu04_wf : RpuWf witRpu04 ∧ (writeRpu witRpu04).isOk = true := by
  refine ⟨⟨by decide, by decide, by decide, by decide, ?_, ?_, ?_⟩, by decide⟩
  · exact ⟨_, rfl, by decide⟩
  · refine ⟨_, rfl, ⟨by decide, ⟨_, rfl, ⟨by decide, ?_⟩⟩, ?_, by decide, by decide, by decide⟩⟩
    · intro b hb
      apply C03.BlockFits_of_dec
      revert b
      decide
    · intro c hc
      injection hc with hc
      subst hc
      refine ⟨⟨by decide, ?_⟩, by decide⟩
      intro b hb
      apply C03.BlockFits_of_dec
      revert b
      decide
  · intro rem hr
    cases hr

set_option maxRecDepth 100000 in
theorem witRpu57_wf : RpuWf witRpu57 ∧ (writeRpu witRpu57).isOk = true := by
  refine ⟨⟨by decide, by decide, by decide, by decide, ?_, ?_, ?_⟩, by decide⟩
  · exact ⟨_, rfl, by decide⟩
  · refine ⟨_, rfl, ⟨by decide, ⟨_, rfl, ⟨by decide, ?_⟩⟩, ?_, by decide, by decide, by decide⟩⟩
    · intro b hb
      apply C03.BlockFits_of_dec
      revert b
      decide
    · intro c hc
      injection hc with hc
      subst hc
      refine ⟨⟨by decide, ?_⟩, by decide⟩
      intro b hb
      apply C03.BlockFits_of_dec
      revert b
      decide
  · intro rem hr
    cases hr

/-- a well-formed RPU that the writer accepts is, up to the recomputed CRC, a parse result -/
theorem parsed_of_wf (w : Rpu) (hwf : RpuWf w) (hok : (writeRpu w).isOk = true) :
    ∃ bytes crc, parseRpu bytes = .ok { w with rpu_data_crc32 := crc, modified := false } := by
  cases h : writeRpu w with
  | ok b =>
    obtain ⟨crc, hp, _⟩ := C03.write_parse_sound w b h hwf
    exact ⟨b, crc, hp⟩
  | error => rw [h] at hok; cases hok
  | panic => rw [h] at hok; cases hok

/-- **non-injectivity witness, `ext_mapping_idc_0_4`**: two byte strings that `DoviRpu::parse` accepts, whose RPUs
differ in the header field `ext_mapping_idc_0_4` (0 and 5) — and, necessarily, in the CRC-32 of the payload — and in
nothing else, and whose C views (header, mapping and DM structs of the three getters) are equal. The C API cannot
tell these two RPUs apart; `cview_injective_parsed` cannot be strengthened to `r.header = r'.header` -/
theorem cview_not_injective_ext_mapping_idc_0_4 :
    ∃ (a b : Bytes) (r r' : Rpu), parseRpu a = .ok r ∧ parseRpu b = .ok r' ∧ cview r = cview r' ∧
      r.header.ext_mapping_idc_0_4 = 0 ∧ r'.header.ext_mapping_idc_0_4 = 5 ∧
      r' = { r with header := { r.header with ext_mapping_idc_0_4 := 5 }, rpu_data_crc32 := r'.rpu_data_crc32 } := by
  obtain ⟨a, c1, h1⟩ := parsed_of_wf C03.exRpu C03.exRpu_wf.1 C03.exRpu_wf.2
  obtain ⟨b, c2, h2⟩ := parsed_of_wf witRpu04 witRpu04_wf.1 witRpu04_wf.2
  exact ⟨a, b, _, _, h1, h2, rfl, (by decide : C03.exRpu.header.ext_mapping_idc_0_4 = 0), rfl, rfl⟩

/-- **non-injectivity witness, `ext_mapping_idc_5_7`** (same construction, values 0 and 3) -/
theorem cview_not_injective_ext_mapping_idc_5_7 :
    ∃ (a b : Bytes) (r r' : Rpu), parseRpu a = .ok r ∧ parseRpu b = .ok r' ∧ cview r = cview r' ∧
      r.header.ext_mapping_idc_5_7 = 0 ∧ r'.header.ext_mapping_idc_5_7 = 3 ∧
      r' = { r with header := { r.header with ext_mapping_idc_5_7 := 3 }, rpu_data_crc32 := r'.rpu_data_crc32 } := by
  obtain ⟨a, c1, h1⟩ := parsed_of_wf C03.exRpu C03.exRpu_wf.1 C03.exRpu_wf.2
  obtain ⟨b, c2, h2⟩ := parsed_of_wf witRpu57 witRpu57_wf.1 witRpu57_wf.2
  exact ⟨a, b, _, _, h1, h2, rfl, (by decide : C03.exRpu.header.ext_mapping_idc_5_7 = 0), rfl, rfl⟩

/-! ## source tie: the mirror structures and conversions are the `#[repr(C)]` structs and `From` impls of the
Rust sources (`tools/gen_source_cstructs.py` → `Gen/SourceCStructs.lean`, regenerated from /repo on every run) -/

open Lean Elab Term in
/-- `struct_fields% S`: the field names of the Lean structure `S`, in declaration order, as a `List String`
literal (read from the environment at elaboration time) -/
elab "struct_fields% " id:ident : term => do
  let n ← realizeGlobalConstNoOverloadWithInfo id
  let env ← getEnv
  unless isStructure env n do throwError "{n} is not a structure"
  return toExpr ((getStructureFields env n).toList.map fun f => f.toString)

/-- the `cFields` name lists written next to the mirror structures of `Model/CView.lean` are the field names of
those Lean structures, in order (the one Lean-only field, the null flag `nlq_pred_data_null`, set aside) -/
theorem source_cstructs_agree_mirrors :
    struct_fields% Dovi.CHeader = CHeader.cFields.map (·.1) ∧
    struct_fields% Dovi.CPoly = CPoly.cFields.map (·.1) ∧
    struct_fields% Dovi.CMmr = CMmr.cFields.map (·.1) ∧
    struct_fields% Dovi.CCurve = CCurve.cFields.map (·.1) ∧
    struct_fields% Dovi.CNlq = CNlq.cFields.map (·.1) ∧
    (struct_fields% Dovi.CMapping).filter (fun f => !cAuxFields.contains f) = CMapping.cFields.map (·.1) ∧
    struct_fields% Dovi.CLevels = CLevels.cFields.map (·.1) ∧
    struct_fields% Dovi.CDm = CDm.cFields.map (·.1) ∧
    CDm.cFields.map (·.1) = ["compressed", "affected_dm_metadata_id", "current_dm_metadata_id", "scene_refresh_flag"] ++
      dmMainNames ++ ["dm_data"] := by decide

/-- **source tie, C structs**: the `#[repr(C)]` structs of `c_structs/*.rs` as they stand in the Rust sources now —
which structs there are, their fields, the order and the C type of every field — are the structs and fields of the
model's mirrors (`cStructs`: `RpuDataHeader` ↦ `CHeader`, `RpuDataMapping` ↦ `CMapping`, `ReshapingCurve` ↦ `CCurve`,
`PolynomialCurve` ↦ `CPoly`, `MMRCurve` ↦ `CMmr`, `RpuDataNlq` ↦ `CNlq`, `VdrDmData` ↦ `CDm`, `DmData` ↦ `CLevels`,
the buffer structs and block lists ↦ `List`). Adding, removing, reordering or retyping a field of a C struct, or
adding a struct, breaks this proof obligation. (Only the seven struct-literal `From` impls are translated;
`combine_dm_data`, `set_blocks` and the three getters of capi.rs — `el_type` is set in `dovi_rpu_get_header` — are hand-modelled
(`cLevels`, `cHeader`, `cview`) and held by source pins, tools/check_source_pins.py.) -/
theorem source_cstructs_agree : Src.CS.structs = cStructs := by decide

/-- **source tie, block structs**: every `ExtMetadataBlockLevelN` is still `#[repr(C)]` (checked by the
translator) and its fields, in declaration order, are the fields the model prints for a block of that level
(`length` first for L8 / L9 / L10); the only `bool` member is L11's `reference_mode_flag` -/
theorem source_cstructs_agree_blocks :
    Src.CS.blockStructs.map (·.1) = cBlockLevels ∧
    (∀ p ∈ Src.CS.blockStructs, p.2.map (·.1) = cBlockFieldNames p.1) ∧
    (Src.CS.blockStructs.flatMap (·.2)).filter (·.2 == "bool") = [("reference_mode_flag", "bool")] := by decide

/-- **source tie, conversions**: the seven field-by-field `From<&Rust struct>` impls of `c_structs/*.rs`, translated
expression by expression into Lean functions over the model's structures, are the model's conversions — for every
argument. A swapped, dropped or differently cast field in a `From` impl changes the translated function and
breaks this proof obligation -/
theorem source_cstructs_agree_conversions :
    (∀ p, Src.CS.cPoly p = cPoly p) ∧ (∀ m, Src.CS.cMmr m = cMmr m) ∧ (∀ n, Src.CS.cNlq n = cNlq n) ∧
    (∀ c, Src.CS.cCurve c = cCurve c) ∧ (∀ m, Src.CS.cMapping m = cMapping m) ∧ (∀ d, Src.CS.cDm d = cDm d) ∧
    (∀ h, Src.CS.cHeaderFrom h = cHeaderFrom h) :=
  ⟨fun _ => rfl, fun _ => rfl, fun _ => rfl, fun _ => rfl, fun _ => rfl, fun _ => rfl, fun _ => rfl⟩

/-- the `From` impls of `buffers.rs` as they stand now: every buffer struct gets `len` = the number of elements and
a pointer from `Box::into_raw` (never null); only `U16Data::from(Option<..>)` can produce `U16Data::empty()` -/
def cBufferFromImpls : List (String × List (String × String)) := [
  ("Data <- Vec<u8>", [("len", "buf.len()"), ("data", "Box::into_raw(buf.into_boxed_slice()) as *const u8")]),
  ("Data <- Vec<bool>", [("let res", "buf.into_iter().map(|e| e as u8).collect()"), ("len", "res.len()"), ("data", "Box::into_raw(res.into_boxed_slice()) as *const u8")]),
  ("U16Data <- Vec<u16>", [("len", "buf.len()"), ("data", "Box::into_raw(buf.into_boxed_slice()) as *const u16")]),
  ("Data <- [bool; N]", [("let res", "array.map(|e| e as u8)"), ("len", "array.len()"), ("data", "Box::into_raw(Box::new(res)) as *const u8")]),
  ("U64Data <- Vec<u64>", [("len", "buf.len()"), ("data", "Box::into_raw(buf.into_boxed_slice()) as *const u64")]),
  ("U64Data <- ArrayVec<[u64; N]>", [("len", "buf.len()"), ("data", "Box::into_raw(buf.to_vec().into_boxed_slice()) as *const u64")]),
  ("I64Data <- Vec<i64>", [("len", "buf.len()"), ("data", "Box::into_raw(buf.into_boxed_slice()) as *const i64")]),
  ("I64Data <- ArrayVec<[i64; N]>", [("len", "buf.len()"), ("data", "Box::into_raw(buf.to_vec().into_boxed_slice()) as *const i64")]),
  ("U16Data <- [u16; N]", [("len", "array.len()"), ("data", "Box::into_raw(Box::new(array)) as *const u16")]),
  ("U64Data <- [u64; N]", [("len", "array.len()"), ("data", "Box::into_raw(Box::new(array)) as *const u64")])]

/-- the 2D / 3D buffers: one boxed inner buffer per element, in order (the nesting of the Rust vectors is kept) -/
def cNestedFromImpls : List (String × String × String) := [
  ("U64Data2D <- Vec<ArrayVec<[u64; N]>>", "buf_2d", "U64Data"),
  ("U64Data2D <- ArrayVec<[ArrayVec<[u64; N2]>; N]>", "buf_2d", "U64Data"),
  ("I64Data2D <- Vec<ArrayVec<[i64; N]>>", "buf_2d", "I64Data"),
  ("I64Data2D <- ArrayVec<[ArrayVec<[i64; N2]>; N]>", "buf_2d", "I64Data"),
  ("U64Data3D <- Vec<ArrayVec<[ArrayVec<[u64; N2]>; N]>>", "buf_3d", "U64Data2D"),
  ("I64Data3D <- Vec<ArrayVec<[ArrayVec<[i64; N2]>; N]>>", "buf_3d", "I64Data2D")]

def nestedImpl (x : String × String × String) : String × List (String × String) :=
  (x.1, [("let list", x.2.1 ++ ".into_iter().map(|buf| Box::into_raw(Box::new(" ++ x.2.2 ++ "::from(buf))) as *const " ++
            x.2.2 ++ ").collect()"),
         ("len", "list.len()"), ("list", "Box::into_raw(list.into_boxed_slice()) as *const *const " ++ x.2.2)])

/-- **source tie, buffers and `DmData`**: the `From` impls of `buffers.rs`, `U16Data::empty()`, the arms and list
assignments of `DmData::set_blocks`, the filters of the three `LevelNBlockList::from` and `DmData::default()`, as
they stand in the Rust sources now, are what the model assumes: a buffer is its elements in order with `len` their
number and a non-null pointer (so a `List`), an absent `nlq_pred_pivot_value` is `len` 0 with a null pointer, a
block of a single-instance level goes to the pointer of its level (`singleLevels`), L2 comes from the CM v2.9
container and L8 / L10 from the CM v4.0 container, each filtered by its own level -/
theorem source_cstructs_agree_buffers_and_levels :
    Src.CS.fromImpls.take 10 = cBufferFromImpls ∧
    (Src.CS.fromImpls.drop 10).take 6 = cNestedFromImpls.map nestedImpl ∧
    Src.CS.fromImpls.lookup "U16Data <- Option<[u16; N]>" = some [("=", "maybe_array.map_or(U16Data::empty(), U16Data::from)")] ∧
    Src.CS.u16Empty = [("len", "0"), ("data", "null()")] ∧
    Src.CS.setBlocksArms = cSetBlocksArms ∧ Src.CS.setBlocksLists = cSetBlocksLists ∧
    Src.CS.listFilters = cListFilters ∧ Src.CS.dmDataDefault = cDmDataDefault ∧
    Src.CS.fromImpls.map (·.1) = cBufferFromImpls.map (·.1) ++ cNestedFromImpls.map (·.1) ++
      ["U16Data <- Option<[u16; N]>", "Level2BlockList <- &[ExtMetadataBlock]", "Level8BlockList <- &[ExtMetadataBlock]",
       "Level10BlockList <- &[ExtMetadataBlock]", "RpuOpaque <- Result<DoviRpu, anyhow::Error>",
       "RpuDataHeader <- &RuRpuDataHeader", "RpuDataMapping <- &RuRpuDataMapping", "ReshapingCurve <- &DoviReshapingCurve",
       "PolynomialCurve <- &DoviPolynomialCurve", "MMRCurve <- &DoviMMRCurve", "RpuDataNlq <- &RuRpuDataNlq",
       "VdrDmData <- &RuVdrDmData"] := by decide

end Dovi.C20
