import DoviModel.Model.Editor
import DoviModel.Props.C12
/-! # C17 — determinism: the editor model depends only on the content of its map-typed config entries -/
namespace Dovi.C17
open Dovi Dovi.Editor

theorem lt_of_not {a b : String} (h1 : ¬ a < b) (h2 : a ≠ b) : b < a := by
  rcases Std.lt_trichotomy a b with h | h | h
  · exact absurd h h1
  · exact absurd h h2
  · exact h

theorem not_lt_of_lt {a b : String} (h : a < b) : ¬ b < a :=
  fun h' => String.lt_irrefl a (String.lt_trans h h')

theorem ne_of_lt' {a b : String} (h : a < b) : a ≠ b := by
  intro e; subst e; exact String.lt_irrefl a h

/-- `insertByKey` unfolded on a cons, by the three-way comparison -/
theorem ins_lt {α} (e x : String × α) (xs : List (String × α)) (h : e.1 < x.1) :
    insertByKey e (x :: xs) = e :: x :: xs := by simp [insertByKey, h]
theorem ins_eq {α} (e x : String × α) (xs : List (String × α)) (h : e.1 = x.1) :
    insertByKey e (x :: xs) = e :: xs := by
  have : ¬ e.1 < x.1 := by rw [h]; exact String.lt_irrefl _
  simp [insertByKey, this, h]
theorem ins_gt {α} (e x : String × α) (xs : List (String × α)) (h : x.1 < e.1) :
    insertByKey e (x :: xs) = x :: insertByKey e xs := by
  have h1 : ¬ e.1 < x.1 := not_lt_of_lt h
  have h2 : ¬ e.1 = x.1 := fun e' => ne_of_lt' h e'.symm
  simp [insertByKey, h1, h2]

/-- inserting two entries commutes when the first key is smaller -/
theorem insertByKey_comm_lt {α} (a b : String × α) (hab : a.1 < b.1) (l : List (String × α)) :
    insertByKey a (insertByKey b l) = insertByKey b (insertByKey a l) := by
  induction l with
  | nil =>
    have e1 : insertByKey b ([] : List (String × α)) = [b] := rfl
    have e2 : insertByKey a ([] : List (String × α)) = [a] := rfl
    rw [e1, e2, ins_lt a b [] hab, ins_gt b a [] hab, e1]
  | cons x xs ih =>
    rcases Std.lt_trichotomy a.1 x.1 with hax | hax | hax
    · rcases Std.lt_trichotomy b.1 x.1 with hbx | hbx | hbx
      · rw [ins_lt b x xs hbx, ins_lt a b _ hab, ins_lt a x xs hax, ins_gt b a _ hab, ins_lt b x xs hbx]
      · rw [ins_eq b x xs hbx, ins_lt a b _ hab, ins_lt a x xs hax, ins_gt b a _ hab, ins_eq b x xs hbx]
      · rw [ins_gt b x xs hbx, ins_lt a x _ hax, ins_lt a x xs hax, ins_gt b a _ hab, ins_gt b x xs hbx]
    · rcases Std.lt_trichotomy b.1 x.1 with hbx | hbx | hbx
      · exact absurd (String.lt_trans hab hbx) (by rw [hax]; exact String.lt_irrefl _)
      · exact absurd hab (by rw [hax, hbx]; exact String.lt_irrefl _)
      · rw [ins_gt b x xs hbx, ins_eq a x _ hax, ins_eq a x xs hax, ins_gt b a _ hab]
    · rcases Std.lt_trichotomy b.1 x.1 with hbx | hbx | hbx
      · exact absurd (String.lt_trans (String.lt_trans hax hab) hbx) (String.lt_irrefl _)
      · exact absurd (String.lt_trans hax hab) (by rw [hbx]; exact String.lt_irrefl _)
      · rw [ins_gt b x xs hbx, ins_gt a x _ hax, ins_gt a x xs hax, ins_gt b x _ hbx, ih]

/-- inserting two entries with different keys commutes -/
theorem insertByKey_comm {α} (a b : String × α) (h : a.1 ≠ b.1) (l : List (String × α)) :
    insertByKey a (insertByKey b l) = insertByKey b (insertByKey a l) := by
  rcases Std.lt_trichotomy a.1 b.1 with hab | hab | hab
  · exact insertByKey_comm_lt a b hab l
  · exact absurd hab h
  · exact (insertByKey_comm_lt b a hab l).symm

theorem pairwise_keys {α} (l : List (String × α)) (hk : l.Pairwise (fun a b => a.1 ≠ b.1))
    (x y : String × α) (hx : x ∈ l) (hy : y ∈ l) (hxy : x ≠ y) : x.1 ≠ y.1 := by
  induction l with
  | nil => cases hx
  | cons z zs ih =>
    rw [List.pairwise_cons] at hk
    rcases List.mem_cons.mp hx with rfl | hx' <;> rcases List.mem_cons.mp hy with rfl | hy'
    · exact absurd rfl hxy
    · exact hk.1 y hy'
    · exact fun e => hk.1 x hx' e.symm
    · exact ih hk.2 hx' hy'

/-- **the map a config object denotes does not depend on the order in which its entries are listed**:
any permutation of entries with pairwise different keys yields the same key-ordered list -/
theorem asMap_perm {α} (l l' : List (String × α)) (hp : l.Perm l')
    (hk : l.Pairwise (fun a b => a.1 ≠ b.1)) : asMap l = asMap l' := by
  unfold asMap
  apply List.Perm.foldl_eq' hp
  intro x hx y hy z
  by_cases hxy : x = y
  · subst hxy; rfl
  · have hne : x.1 ≠ y.1 := pairwise_keys l hk x y hx hy hxy
    exact insertByKey_comm y x (fun e => hne e.symm) z

/-- consequently the scene-cut and active-area range passes of the editor model give the same result for
every listing order of the same entries -/
theorem sceneCuts_order_independent (e e' : List (String × Bool)) (hp : e.Perm e')
    (hk : e.Pairwise (fun a b => a.1 ≠ b.1)) (rpus : List (Option Rpu)) :
    sceneCutRanges (asMap e) rpus = sceneCutRanges (asMap e') rpus := by
  rw [asMap_perm e e' hp hk]

theorem activeArea_order_independent (ps : List Preset) (e e' : List (String × Nat)) (hp : e.Perm e')
    (hk : e.Pairwise (fun a b => a.1 ≠ b.1)) (rpus : List (Option Rpu)) :
    activeAreaRanges ps (asMap e) rpus = activeAreaRanges ps (asMap e') rpus := by
  rw [asMap_perm e e' hp hk]

/-! non-vacuity: two overlapping ranges listed in both orders -/
example : asMap [("0-5", true), ("2-3", false)] = asMap [("2-3", false), ("0-5", true)] := by decide

/-! ## block lists built from unordered sources (XML target displays come out of a hash map) -/

theorem key_inj_of_pairwise (l : List Block) (hk : l.Pairwise (fun a b => a.sortKey ≠ b.sortKey))
    (a b : Block) (ha : a ∈ l) (hb : b ∈ l) (h : a.sortKey = b.sortKey) : a = b := by
  induction l with
  | nil => cases ha
  | cons x xs ih =>
    rw [List.pairwise_cons] at hk
    obtain ⟨hx, hxs⟩ := hk
    rcases List.mem_cons.mp ha with rfl | ha'
    · rcases List.mem_cons.mp hb with rfl | hb'
      · rfl
      · exact absurd h (hx b hb')
    · rcases List.mem_cons.mp hb with rfl | hb'
      · exact absurd h.symm (hx a ha')
      · exact ih hxs ha' hb'

/-- **the sorted container does not depend on the order in which the blocks were produced** — whenever the
(level, target) keys are pairwise distinct (one L10/L8/L2 block per target, one block per single-instance level),
any permutation of the same blocks sorts to the same list. With tied keys the stable sort keeps the production
order of the tied blocks, which is where a hash-map iteration order would show (seeded change C17-1). -/
theorem sortBlocks_order_independent (l l' : List Block) (hp : l.Perm l')
    (hk : l.Pairwise (fun a b => a.sortKey ≠ b.sortKey)) : sortBlocks l = sortBlocks l' := by
  apply List.Perm.eq_of_pairwise (le := fun a b => keyLt b a = false)
  · intro a b ha hb h1 h2
    have ha' : a ∈ l := (C12.mem_sortBlocks a l).mp ha
    have hb' : b ∈ l := hp.symm.subset ((C12.mem_sortBlocks b l').mp hb)
    apply key_inj_of_pairwise l hk a b ha' hb'
    -- neither key is strictly smaller: the keys are equal
    have n1 : ¬ (b.sortKey.1 < a.sortKey.1 ∨ (b.sortKey.1 = a.sortKey.1 ∧ b.sortKey.2 < a.sortKey.2)) := by
      intro h; have := (C12.keyLt_iff b a).mpr h; rw [h1] at this; cases this
    have n2 : ¬ (a.sortKey.1 < b.sortKey.1 ∨ (a.sortKey.1 = b.sortKey.1 ∧ a.sortKey.2 < b.sortKey.2)) := by
      intro h; have := (C12.keyLt_iff a b).mpr h; rw [h2] at this; cases this
    apply Prod.ext <;> omega
  · exact C12.sortBlocks_sorted l
  · exact C12.sortBlocks_sorted l'
  · exact (C12.sortBlocks_perm l).trans (hp.trans (C12.sortBlocks_perm l').symm)

/-- non-vacuity: two L10 blocks of different targets and an L9 block, in two production orders -/
example : sortBlocks [{ level := 10, length := 5, vals := [7, 2081, 0, 2] }, { level := 9, length := 1, vals := [0] },
      { level := 10, length := 5, vals := [3, 2081, 0, 2] }] =
    sortBlocks [{ level := 10, length := 5, vals := [3, 2081, 0, 2] }, { level := 10, length := 5, vals := [7, 2081, 0, 2] },
      { level := 9, length := 1, vals := [0] }] := by decide

end Dovi.C17
