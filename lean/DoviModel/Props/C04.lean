import DoviModel.Model.Ops
/-! # C04 — profile conversion modes do what is documented and preserve dynamic metadata -/
namespace Dovi.C04
open Dovi

/-- a mode number means the same conversion on every surface: the raw-integer map used by the library, the
editor config and the C API agrees with the CLI's `-m` map wherever the CLI accepts the number -/
theorem mode_surfaces_agree (n : Nat) (m : Mode) (h : modeOfCli n = some m) : modeOfU8 n = m := by
  unfold modeOfCli at h
  unfold modeOfU8
  split at h <;> simp_all

/-- out-of-range raw integers are the lossless mode -/
theorem mode_out_of_range (n : Nat) (h : 5 < n) : modeOfU8 n = .lossless := by
  unfold modeOfU8
  split <;> first | rfl | omega

/-- the extension blocks, ids, scene flag and source PQ range of the DM payload -/
def dmPayload (d : DmData) : Nat × Nat × Nat × Int × Int × Option Container × Option Container :=
  (d.affected_dm_metadata_id, d.current_dm_metadata_id, d.scene_refresh_flag, d.main.getD 29 0, d.main.getD 30 0, d.cmv29, d.cmv40)

theorem setP81Coeffs_payload (d : DmData) (h : d.main.length = 32) : dmPayload d.setP81Coeffs = dmPayload d := by
  unfold dmPayload DmData.setP81Coeffs
  simp only [Prod.mk.injEq, true_and, and_true]
  have hd : (d.main.drop 21).length = 11 := by simp [h]
  match hm : d.main.drop 21, hd with
  | [a0, a1, a2, a3, a4, a5, a6, a7, a8, a9, a10], _ =>
    have e : d.main = d.main.take 21 ++ [a0, a1, a2, a3, a4, a5, a6, a7, a8, a9, a10] := by
      rw [← hm, List.take_append_drop]
    have ht : (d.main.take 21).length = 21 := by simp [h]
    refine ⟨?_, ?_⟩
    · rw [e]
      simp [List.getD, List.getElem?_append_right, ht, List.getElem?_set]
    · rw [e]
      simp [List.getD, List.getElem?_append_right, ht, List.getElem?_set]

/-- mode 0 leaves the structure untouched (only profile / EL type are recomputed from it) -/
theorem mode0_unchanged (r r' : Rpu) (h : r.convertWithMode .lossless = .ok r') :
    r'.header = r.header ∧ r'.rpu_data_mapping = r.rpu_data_mapping ∧ r'.vdr_dm_data = r.vdr_dm_data ∧
    r'.modified = r.modified ∧ r'.remaining = r.remaining := by
  simp [Rpu.convertWithMode] at h
  subst h
  simp

/-- modes other than 0 mark the RPU as modified, and unsupported source profiles are errors -/
theorem mode5_requires_profile_7_or_8 (r : Rpu) (h7 : r.dovi_profile ≠ 7) (h8 : r.dovi_profile ≠ 8) :
    r.convertWithMode .to81MappingPreserved = .error := by
  simp [Rpu.convertWithMode, h7, h8]

theorem mode1_requires_profile_7_or_8 (r : Rpu) (h7 : r.dovi_profile ≠ 7) (h8 : r.dovi_profile ≠ 8) :
    r.convertWithMode .toMel = .error := by
  simp [Rpu.convertWithMode, h7, h8]

theorem mode2_requires_profile_5_7_8 (r : Rpu) (h5 : r.dovi_profile ≠ 5) (h7 : r.dovi_profile ≠ 7) (h8 : r.dovi_profile ≠ 8) :
    r.convertWithMode .to81 = .error := by
  simp [Rpu.convertWithMode, h5, h7, h8]

/-- mode 4 always yields the profile 8 header with the static reshaping -/
theorem mode4_target (r r' : Rpu) (h : r.convertWithMode .to84 = .ok r') :
    r'.rpu_data_mapping = some profile84Mapping ∧ r'.dovi_profile = 8 ∧ r'.header.vdr_rpu_profile = 1 := by
  simp [Rpu.convertWithMode, Rpu.convertToP84, Rpu.convertToP81] at h
  subst h
  refine ⟨rfl, ?_, rfl⟩
  simp [Header.getDoviProfile, p8DefaultHeader]

end Dovi.C04
