import DoviModel.Model.Ops
import DoviModel.Proofs.ConvertProof
import DoviModel.Proofs.WfPreserve
import DoviModel.Gen.SourceRules
/-! # C04 — profile conversion modes do what is documented and preserve dynamic metadata -/
namespace Dovi.C04
open Dovi

/-- a mode number means the same conversion on every surface: the raw-integer map used by the library, the
editor config and the C API agrees with the CLI's `-m` map wherever the CLI accepts the number -/
theorem mode_surfaces_agree (n : Nat) (m : Mode) (h : modeOfCli n = some m) : modeOfU8 n = m := by
  unfold modeOfCli at h
  unfold modeOfU8
  split at h <;> simp_all

/-- out-of-range raw integers are the lossless mode -/
theorem mode_out_of_range (n : Nat) (h : 5 < n) : modeOfU8 n = .lossless := by
  unfold modeOfU8
  split <;> first | rfl | omega

/-- the extension blocks, ids, scene flag and source PQ range of the DM payload -/
def dmPayload (d : DmData) : Nat × Nat × Nat × Int × Int × Option Container × Option Container :=
  (d.affected_dm_metadata_id, d.current_dm_metadata_id, d.scene_refresh_flag, d.main.getD 29 0, d.main.getD 30 0, d.cmv29, d.cmv40)

theorem setP81Coeffs_payload (d : DmData) (h : d.main.length = 32) : dmPayload d.setP81Coeffs = dmPayload d := by
  unfold dmPayload DmData.setP81Coeffs
  simp only [Prod.mk.injEq, true_and, and_true]
  have hd : (d.main.drop 21).length = 11 := by simp [h]
  match hm : d.main.drop 21, hd with
  | [a0, a1, a2, a3, a4, a5, a6, a7, a8, a9, a10], _ =>
    have e : d.main = d.main.take 21 ++ [a0, a1, a2, a3, a4, a5, a6, a7, a8, a9, a10] := by
      rw [← hm, List.take_append_drop]
    have ht : (d.main.take 21).length = 21 := by simp [h]
    refine ⟨?_, ?_⟩
    · rw [e]
      simp [List.getD, List.getElem?_append_right, ht, List.getElem?_set]
    · rw [e]
      simp [List.getD, List.getElem?_append_right, ht, List.getElem?_set]

/-- mode 0 leaves the structure untouched (only profile / EL type are recomputed from it) -/
theorem mode0_unchanged (r r' : Rpu) (h : r.convertWithMode .lossless = .ok r') :
    r'.header = r.header ∧ r'.rpu_data_mapping = r.rpu_data_mapping ∧ r'.vdr_dm_data = r.vdr_dm_data ∧
    r'.modified = r.modified ∧ r'.remaining = r.remaining := by
  simp [Rpu.convertWithMode] at h
  subst h
  simp

/-- modes other than 0 mark the RPU as modified, and unsupported source profiles are errors -/
theorem mode5_requires_profile_7_or_8 (r : Rpu) (h7 : r.dovi_profile ≠ 7) (h8 : r.dovi_profile ≠ 8) :
    r.convertWithMode .to81MappingPreserved = .error := by
  simp [Rpu.convertWithMode, h7, h8]

theorem mode1_requires_profile_7_or_8 (r : Rpu) (h7 : r.dovi_profile ≠ 7) (h8 : r.dovi_profile ≠ 8) :
    r.convertWithMode .toMel = .error := by
  simp [Rpu.convertWithMode, h7, h8]

theorem mode2_requires_profile_5_7_8 (r : Rpu) (h5 : r.dovi_profile ≠ 5) (h7 : r.dovi_profile ≠ 7) (h8 : r.dovi_profile ≠ 8) :
    r.convertWithMode .to81 = .error := by
  simp [Rpu.convertWithMode, h5, h7, h8]

/-- mode 4 always yields the profile 8 header with the static reshaping -/
theorem mode4_target (r r' : Rpu) (h : r.convertWithMode .to84 = .ok r') :
    r'.rpu_data_mapping = some profile84Mapping ∧ r'.dovi_profile = 8 ∧ r'.header.vdr_rpu_profile = 1 := by
  simp [Rpu.convertWithMode, Rpu.convertToP84, Rpu.convertToP81] at h
  subst h
  refine ⟨rfl, ?_, rfl⟩
  simp [Header.getDoviProfile, p8DefaultHeader]

/-! ## `convertWithMode` for ALL RPU values (arbitrary lists, arbitrary field values)

Vocabulary (definitions in `Proofs/ConvertProof.lean`, all one-line record updates):
`melHeader h` / `p81Header h` = `h` with `(el_spatial_resampling_filter_flag, disable_residual_flag)` set to
`(true, false)` / `(false, true)`; `p5Header h` = `p81Header h` with `vdr_rpu_profile := 1`,
`bl_video_full_range_flag := false`; `p84Header h` = `p8DefaultHeader` with `vdr_dm_metadata_present_flag` and
`reserved_zero_3bits` of `h`; `stripNlq m` = `m` without NLQ (`nlq*` fields `none`, partitions 0), curves kept;
`melMapping m` = `m` with the MEL NLQ; `Consistent r` = `dovi_profile` / `el_type` are the values derived from the
header / mapping (true of every parsed RPU and of every conversion result: `convert_consistent`). -/
open ConvertProof

/-! ### success / error table -/

/-- which sources a mode accepts -/
def Accepts (m : Mode) (r : Rpu) : Prop :=
  match m with
  | .lossless => True
  | .toMel => (r.dovi_profile = 7 ∨ r.dovi_profile = 8) ∧
              (∀ mp, r.rpu_data_mapping = some mp → mp.nlq = none → r.dovi_profile = 8)
  | .to81 => r.dovi_profile = 5 ∨ r.dovi_profile = 7 ∨ r.dovi_profile = 8
  | .to84 => True
  | .to81MappingPreserved => r.dovi_profile = 7 ∨ r.dovi_profile = 8

/-- the conversion succeeds exactly on the accepted sources, … -/
theorem convert_succeeds_iff (m : Mode) (r : Rpu) : (∃ r', r.convertWithMode m = .ok r') ↔ Accepts m r := by
  have e : Accepts m r ↔ ConvertOk m r := by cases m <;> exact Iff.rfl
  rw [e]
  constructor
  · rintro ⟨r', h⟩; exact ((cw_ok_iff m r r').1 h).1
  · intro h; exact ⟨_, cw_ok m r h⟩

/-- … is an error (never a panic) on all others -/
theorem convert_error_iff (m : Mode) (r : Rpu) : r.convertWithMode m = .error ↔ ¬ Accepts m r := by
  have e : Accepts m r ↔ ConvertOk m r := by cases m <;> exact Iff.rfl
  rw [e]
  constructor
  · intro h hok; rw [cw_ok m r hok] at h; cases h
  · exact cw_err m r

theorem convert_never_panics (m : Mode) (r : Rpu) : r.convertWithMode m ≠ .panic := by
  by_cases h : ConvertOk m r
  · rw [cw_ok m r h]; simp
  · rw [cw_err m r h]; simp

/-- mode 1 on a profile 7 RPU whose mapping carries no NLQ is rejected (the only non-profile reason to fail) -/
example : ({ dovi_profile := 7, rpu_data_mapping := some {} } : Rpu).convertWithMode .toMel = .error := by decide

/-! ### what every mode leaves alone -/

/-- 4. every mode other than 0 marks the RPU as modified (so the CRC is recomputed on write); mode 0 does not
touch the flag -/
theorem convert_marks_modified (m : Mode) (r r' : Rpu) (h : r.convertWithMode m = .ok r') :
    (m ≠ .lossless → r'.modified = true) ∧ (m = .lossless → r'.modified = r.modified) := by
  obtain ⟨hok, e⟩ := (cw_ok_iff m r r').1 h
  subst e
  cases m <;> simp [fin, preTarget]
  split <;> rfl

/-- the unparsed remainder, the stored CRC and the trailing-zero count are never touched -/
theorem convert_untouched (m : Mode) (r r' : Rpu) (h : r.convertWithMode m = .ok r') :
    r'.remaining = r.remaining ∧ r'.rpu_data_crc32 = r.rpu_data_crc32 ∧ r'.trailing_zeroes = r.trailing_zeroes := by
  obtain ⟨hok, e⟩ := (cw_ok_iff m r r').1 h
  subst e
  cases m <;> simp [fin, preTarget]
  split <;> simp

/-- every result has its profile / EL type derived from its own header / mapping -/
theorem convert_consistent (m : Mode) (r r' : Rpu) (h : r.convertWithMode m = .ok r') : Consistent r' := by
  obtain ⟨_, e⟩ := (cw_ok_iff m r r').1 h
  subst e
  exact fin_consistent _

/-! ### 1. the DM payload -/

/-- the DM payload of the result: untouched by modes 0 and 1, exactly `set_p81_coeffs` of the source for
modes 2/3, 4 and 5 (present iff it was present) -/
theorem convert_dm_exact (m : Mode) (r r' : Rpu) (h : r.convertWithMode m = .ok r') :
    r'.vdr_dm_data = if m = .lossless ∨ m = .toMel then r.vdr_dm_data else r.vdr_dm_data.map DmData.setP81Coeffs := by
  obtain ⟨hok, e⟩ := (cw_ok_iff m r r').1 h
  subst e
  cases m <;> simp [fin, preTarget]
  split <;> rfl

/-- what `set_p81_coeffs` keeps, field by field: everything except `main[0..21)` (the two colour matrices and
the YCC offsets) and `main[26]` (`signal_color_space`) — in particular `signal_eotf*` (21..24),
`signal_bit_depth` (25), `signal_chroma_format` (27), `signal_full_range_flag` (28), `source_min_pq` (29),
`source_max_pq` (30), `source_diagonal` (31) and anything beyond; no assumption on the length of `main` -/
def DmKept (d d' : DmData) : Prop :=
  d'.compressed = d.compressed ∧ d'.affected_dm_metadata_id = d.affected_dm_metadata_id ∧
  d'.current_dm_metadata_id = d.current_dm_metadata_id ∧ d'.scene_refresh_flag = d.scene_refresh_flag ∧
  d'.cmv29 = d.cmv29 ∧ d'.cmv40 = d.cmv40 ∧
  (∀ i, 21 ≤ i → i ≠ 26 → d'.main[i]? = d.main[i]?)

def DmKeptOpt : Option DmData → Option DmData → Prop
  | none, none => True
  | some d, some d' => DmKept d d'
  | _, _ => False

theorem setP81Coeffs_kept (d : DmData) : DmKept d d.setP81Coeffs := by
  refine ⟨rfl, rfl, rfl, rfl, rfl, rfl, fun i h1 h2 => setP81_getElem? d i h1 h2⟩

/-- … and what it overwrites: the first 21 entries become the BT.2020 / PQ constants and
`signal_color_space` (if the list is long enough to have it) becomes 0 -/
theorem setP81Coeffs_changed (d : DmData) :
    d.setP81Coeffs.main.take 21 =
      [9574, 0, 13802, 9574, -1540, -5348, 9574, 17610, 0, 16777216, 134217728, 134217728,
       7222, 8771, 390, 2654, 12430, 1300, 0, 422, 15962] ∧
    (∀ x, d.setP81Coeffs.main[26]? = some x → x = 0) ∧
    d.setP81Coeffs.main.length = max 21 d.main.length :=
  ⟨setP81_take d, setP81_cs d, setP81_length d⟩

/-- 1. in every mode the DM data is present iff it was, and every field outside `main[0..21)` and `main[26]`
is unchanged (all extension blocks of both containers, both metadata ids, the scene-refresh flag, the source
PQ range, …) -/
theorem convert_dm_unchanged (m : Mode) (r r' : Rpu) (h : r.convertWithMode m = .ok r') :
    DmKeptOpt r.vdr_dm_data r'.vdr_dm_data := by
  rw [convert_dm_exact m r r' h]
  split
  · cases r.vdr_dm_data with
    | none => trivial
    | some d => exact ⟨rfl, rfl, rfl, rfl, rfl, rfl, fun _ _ _ => rfl⟩
  · cases r.vdr_dm_data with
    | none => trivial
    | some d => exact setP81Coeffs_kept d

/-- `setP81Coeffs_payload` without the length hypothesis -/
theorem setP81Coeffs_payload' (d : DmData) : dmPayload d.setP81Coeffs = dmPayload d := by
  unfold dmPayload
  rw [setP81_getD d 29 (by omega) (by omega), setP81_getD d 30 (by omega) (by omega)]
  rfl

/-- the same as one equation on the payload tuple named by the property (ids, scene-refresh flag,
source PQ range, both containers) -/
theorem convert_dm_payload (m : Mode) (r r' : Rpu) (h : r.convertWithMode m = .ok r') :
    r'.vdr_dm_data.map dmPayload = r.vdr_dm_data.map dmPayload := by
  rw [convert_dm_exact m r r' h]
  split
  · rfl
  · cases r.vdr_dm_data <;> simp [setP81Coeffs_payload']

/-! ### 3. the target form, mode by mode -/

/-- what "mapping kept" means: `stripNlq` changes nothing but the NLQ part and the partition counts -/
theorem stripNlq_keeps (mp : Mapping) :
    (stripNlq mp).curves = mp.curves ∧ (stripNlq mp).vdr_rpu_id = mp.vdr_rpu_id ∧
    (stripNlq mp).mapping_color_space = mp.mapping_color_space ∧
    (stripNlq mp).mapping_chroma_format_idc = mp.mapping_chroma_format_idc ∧
    (stripNlq mp).nlq = none ∧ (stripNlq mp).nlq_method_idc = none ∧ (stripNlq mp).nlq_num_pivots_minus2 = none ∧
    (stripNlq mp).nlq_pred_pivot_value = none ∧
    (stripNlq mp).num_x_partitions_minus1 = 0 ∧ (stripNlq mp).num_y_partitions_minus1 = 0 :=
  ⟨rfl, rfl, rfl, rfl, rfl, rfl, rfl, rfl, rfl, rfl⟩

/-- the identity ("no-op") reshaping curve: one linear piece over [0, 1023] with coefficients (0, 1) -/
def identityCurve : Curve :=
  { num_pivots_minus2 := 0, pivots := [0, 1023], mapping_idc := .polynomial,
    polynomial := some { poly_order_minus1 := [0], linear_interp_flag := [false], poly_coef_int := [[0, 1]],
                         poly_coef := [[0, 0]] },
    mmr := none }

/-- the identity mapping derived from `mp`: no NLQ, every component curve replaced by `identityCurve` -/
def identityMapping (mp : Mapping) : Mapping :=
  { stripNlq mp with curves := mp.curves.map fun _ => identityCurve }

theorem identityMapping_eq (mp : Mapping) : (stripNlq mp).setEmptyP81 = identityMapping mp := rfl

/-- mode 0: nothing but the two derived fields is recomputed; on a consistent RPU it is the identity -/
theorem mode0_table (r r' : Rpu) (h : r.convertWithMode .lossless = .ok r') :
    r' = { r with dovi_profile := r.header.getDoviProfile, el_type := r.rpu_data_mapping.bind Mapping.elType } := by
  rw [cw_lossless] at h; cases h; rfl

theorem mode0_identity (r : Rpu) (hc : Consistent r) : r.convertWithMode .lossless = .ok r := by
  rw [cw_lossless, fin_of_consistent r hc]

/-- mode 1: header flags of a dual-layer stream, the NLQ of every present mapping is the MEL constant and the
EL type is MEL; curves, DM data untouched.  The resulting profile is 7 only when `vdr_bit_depth_minus8 = 4`
(otherwise 4: finding F8, see `mode1_p8_not_idempotent`) -/
theorem mode1_table (r r' : Rpu) (h : r.convertWithMode .toMel = .ok r') :
    r'.header = { r.header with el_spatial_resampling_filter_flag := true, disable_residual_flag := false } ∧
    r'.rpu_data_mapping = r.rpu_data_mapping.map (fun mp =>
      { mp with nlq_method_idc := some 0, nlq_num_pivots_minus2 := some 0, nlq_pred_pivot_value := some [0, 1023],
                nlq := some Nlq.melDefault }) ∧
    r'.el_type = r.rpu_data_mapping.map (fun _ => ElType.mel) ∧
    r'.vdr_dm_data = r.vdr_dm_data ∧
    r'.dovi_profile =
      (if r.header.vdr_rpu_profile = 0 then (if r.header.bl_video_full_range_flag then 5 else 0)
       else if r.header.vdr_rpu_profile = 1 then (if r.header.vdr_bit_depth_minus8 = 4 then 7 else 4) else 0) := by
  obtain ⟨hok, e⟩ := (cw_ok_iff _ r r').1 h
  subst e
  refine ⟨rfl, rfl, ?_, rfl, gdp_mel r.header⟩
  show (r.rpu_data_mapping.map melMapping).bind Mapping.elType = _
  cases r.rpu_data_mapping <;> simp [elType_mel]

/-- mode 1 on a consistent source with `vdr_bit_depth_minus8 = 4` (always the case for profile 7): profile 7 -/
theorem mode1_profile7 (r r' : Rpu) (h : r.convertWithMode .toMel = .ok r')
    (hc : r.dovi_profile = r.header.getDoviProfile) (hb : r.header.vdr_bit_depth_minus8 = 4) :
    r'.dovi_profile = 7 := by
  have hp := ((convert_succeeds_iff .toMel r).1 ⟨r', h⟩).1
  rw [(mode1_table r r' h).2.2.2.2]
  rw [hc] at hp
  unfold Header.getDoviProfile at hp
  by_cases h0 : r.header.vdr_rpu_profile = 0
  · simp [h0] at hp; split at hp <;> omega
  · by_cases h1 : r.header.vdr_rpu_profile = 1
    · simp [h1, hb]
    · simp [h0, h1] at hp

/-- modes 2/3 on a profile 5 source: profile 8.1 header, identity mapping, no EL -/
theorem mode2_table_p5 (r r' : Rpu) (h : r.convertWithMode .to81 = .ok r') (h5 : r.dovi_profile = 5) :
    r'.dovi_profile = 8 ∧ r'.el_type = none ∧
    r'.header = { r.header with el_spatial_resampling_filter_flag := false, disable_residual_flag := true,
                                vdr_rpu_profile := 1, bl_video_full_range_flag := false } ∧
    r'.rpu_data_mapping = r.rpu_data_mapping.map identityMapping ∧
    r'.vdr_dm_data = r.vdr_dm_data.map DmData.setP81Coeffs := by
  rw [cw_to81_5 r h5] at h
  cases h
  refine ⟨gdp_p5 r.header, bind_strip_empty _, rfl, ?_, rfl⟩
  show (r.rpu_data_mapping.map stripNlq).map Mapping.setEmptyP81 = _
  cases r.rpu_data_mapping <;> rfl

/-- modes 2/3 on a profile 7 / 8 source: 8.1 header flags, no EL; identity mapping iff the source was FEL
(as recorded in `el_type`), mapping kept otherwise -/
theorem mode2_table_p78 (r r' : Rpu) (h : r.convertWithMode .to81 = .ok r')
    (h78 : r.dovi_profile = 7 ∨ r.dovi_profile = 8) :
    r'.el_type = none ∧
    r'.header = { r.header with el_spatial_resampling_filter_flag := false, disable_residual_flag := true } ∧
    r'.rpu_data_mapping =
      (if r.el_type = some .fel then r.rpu_data_mapping.map identityMapping else r.rpu_data_mapping.map stripNlq) ∧
    r'.vdr_dm_data = r.vdr_dm_data.map DmData.setP81Coeffs ∧
    (r.header.vdr_rpu_profile = 1 → r'.dovi_profile = 8) := by
  rw [cw_to81_78 r h78] at h
  cases h
  refine ⟨?_, rfl, ?_, rfl, ?_⟩
  · show (if r.el_type = some .fel then _ else _ : Option Mapping).bind Mapping.elType = none
    split
    · exact bind_strip_empty _
    · exact bind_strip _
  · show (if r.el_type = some .fel then _ else _ : Option Mapping) = _
    split
    · cases r.rpu_data_mapping <;> rfl
    · rfl
  · intro h1
    show (p81Header r.header).getDoviProfile = 8
    rw [gdp_p81]; simp [h1]

/-- mode 4, from ANY source (every profile is accepted): the default profile 8 header keeping only the two DM
signalling fields, the static profile 8.4 reshaping, no EL -/
theorem mode4_table (r r' : Rpu) (h : r.convertWithMode .to84 = .ok r') :
    r'.dovi_profile = 8 ∧ r'.el_type = none ∧
    r'.header = { p8DefaultHeader with vdr_dm_metadata_present_flag := r.header.vdr_dm_metadata_present_flag,
                                       reserved_zero_3bits := r.header.reserved_zero_3bits } ∧
    r'.rpu_data_mapping = some profile84Mapping ∧
    r'.vdr_dm_data = r.vdr_dm_data.map DmData.setP81Coeffs := by
  rw [cw_to84] at h
  cases h
  exact ⟨gdp_p84 r.header, rfl, rfl, rfl, rfl⟩

/-- mode 5: 8.1 header flags, no EL, mapping kept -/
theorem mode5_table (r r' : Rpu) (h : r.convertWithMode .to81MappingPreserved = .ok r') :
    r'.el_type = none ∧
    r'.header = { r.header with el_spatial_resampling_filter_flag := false, disable_residual_flag := true } ∧
    r'.rpu_data_mapping = r.rpu_data_mapping.map stripNlq ∧
    r'.vdr_dm_data = r.vdr_dm_data.map DmData.setP81Coeffs ∧
    (r.header.vdr_rpu_profile = 1 → r'.dovi_profile = 8) := by
  have h78 := (convert_succeeds_iff .to81MappingPreserved r).1 ⟨r', h⟩
  rw [cw_to81mp_78 r h78] at h
  cases h
  refine ⟨bind_strip _, rfl, rfl, rfl, ?_⟩
  intro h1
  show (p81Header r.header).getDoviProfile = 8
  rw [gdp_p81]; simp [h1]

theorem getDoviProfile_78 (hd : Header) (h : hd.getDoviProfile = 7 ∨ hd.getDoviProfile = 8) :
    hd.vdr_rpu_profile = 1 ∧ (hd.getDoviProfile = 7 → hd.vdr_bit_depth_minus8 = 4) := by
  unfold Header.getDoviProfile at h ⊢
  by_cases h0 : hd.vdr_rpu_profile = 0
  · simp [h0] at h; split at h <;> omega
  · by_cases h1 : hd.vdr_rpu_profile = 1
    · refine ⟨h1, ?_⟩
      simp only [h1]
      intro h7
      by_cases hb : hd.vdr_bit_depth_minus8 = 4
      · exact hb
      · revert h7; simp [hb]; split <;> omega
    · simp [h0, h1] at h

/-- under consistency, "the source was FEL" (the stored `el_type` that modes 2/3 test) means: the mapping
carries an NLQ that is not the MEL constant -/
theorem fel_iff (r : Rpu) (hc : Consistent r) :
    r.el_type = some .fel ↔ ∃ mp n, r.rpu_data_mapping = some mp ∧ mp.nlq = some n ∧ n.isMel = false := by
  rw [hc.2]
  cases hm : r.rpu_data_mapping with
  | none => simp
  | some mp =>
    cases hn : mp.nlq with
    | none => simp [Mapping.elType, hn]
    | some n => cases hi : n.isMel <;> simp [Mapping.elType, hn, hi]

/-- 3. the documented table in one statement, for a consistent source: mode 0 is the identity; mode 1 gives a
MEL EL and profile 7 (or, F8, "profile 4" from a profile 8 source with `vdr_bit_depth_minus8 ≠ 4`); modes 2/3
give profile 8 without EL, with the identity mapping iff the source was profile 5 or FEL and the mapping kept
otherwise; mode 4 gives profile 8 with the static 8.4 reshaping; mode 5 gives profile 8 with the mapping kept -/
theorem convert_table (m : Mode) (r r' : Rpu) (h : r.convertWithMode m = .ok r') (hc : Consistent r) :
    match m with
    | .lossless => r' = r
    | .toMel =>
        r'.rpu_data_mapping = r.rpu_data_mapping.map melMapping ∧
        r'.el_type = r.rpu_data_mapping.map (fun _ => ElType.mel) ∧
        (r'.dovi_profile = 7 ∨ (r.dovi_profile = 8 ∧ r.header.vdr_bit_depth_minus8 ≠ 4 ∧ r'.dovi_profile = 4))
    | .to81 =>
        r'.dovi_profile = 8 ∧ r'.el_type = none ∧
        r'.rpu_data_mapping = (if r.dovi_profile = 5 ∨ r.el_type = some .fel then r.rpu_data_mapping.map identityMapping
                               else r.rpu_data_mapping.map stripNlq)
    | .to84 => r'.dovi_profile = 8 ∧ r'.el_type = none ∧ r'.rpu_data_mapping = some profile84Mapping
    | .to81MappingPreserved =>
        r'.dovi_profile = 8 ∧ r'.el_type = none ∧ r'.rpu_data_mapping = r.rpu_data_mapping.map stripNlq := by
  have hacc := (convert_succeeds_iff m r).1 ⟨r', h⟩
  cases m with
  | lossless =>
    rw [mode0_identity r hc] at h; cases h; rfl
  | toMel =>
    have ht := mode1_table r r' h
    have hg := getDoviProfile_78 r.header (by rw [← hc.1]; exact hacc.1)
    refine ⟨ht.2.1, ht.2.2.1, ?_⟩
    rw [ht.2.2.2.2]
    by_cases hb : r.header.vdr_bit_depth_minus8 = 4
    · left; simp [hg.1, hb]
    · right
      refine ⟨?_, hb, by simp [hg.1, hb]⟩
      rcases hacc.1 with h7 | h8
      · exact absurd (hg.2 (by rw [← hc.1]; exact h7)) hb
      · exact h8
  | to81 =>
    by_cases h5 : r.dovi_profile = 5
    · have ht := mode2_table_p5 r r' h h5
      exact ⟨ht.1, ht.2.1, by rw [ht.2.2.2.1]; simp [h5]⟩
    · have h78 : r.dovi_profile = 7 ∨ r.dovi_profile = 8 := by
        rcases hacc with h | h; exact absurd h h5; exact h
      have ht := mode2_table_p78 r r' h h78
      have hg := getDoviProfile_78 r.header (by rw [← hc.1]; exact h78)
      exact ⟨ht.2.2.2.2 hg.1, ht.1, by rw [ht.2.2.1]; simp [h5]⟩
  | to84 =>
    have ht := mode4_table r r' h
    exact ⟨ht.1, ht.2.1, ht.2.2.2.1⟩
  | to81MappingPreserved =>
    have ht := mode5_table r r' h
    have hg := getDoviProfile_78 r.header (by rw [← hc.1]; exact hacc)
    exact ⟨ht.2.2.2.2 hg.1, ht.1, ht.2.2.1⟩

/-! ### 2. idempotence -/

/-- the exact condition under which a successful conversion can be repeated with the same result -/
def Repeatable (m : Mode) (r : Rpu) : Prop :=
  match m with
  | .lossless => True
  | .toMel => r.header.vdr_rpu_profile = 1 ∧ r.header.vdr_bit_depth_minus8 = 4
  | .to81 => r.dovi_profile = 5 ∨ r.header.vdr_rpu_profile = 1
  | .to84 => True
  | .to81MappingPreserved => r.header.vdr_rpu_profile = 1

/-- converting twice equals converting once EXACTLY under `Repeatable` (so no weaker hypothesis works) -/
theorem convert_idempotent_iff (m : Mode) (r r' : Rpu) (h : r.convertWithMode m = .ok r') :
    r'.convertWithMode m = .ok r' ↔ Repeatable m r := by
  have e : Repeatable m r ↔ IdemCond m r := by cases m <;> exact Iff.rfl
  rw [e]; exact idem_iff m r r' h

/-- 2. for a source whose `dovi_profile` is the one derived from its header (every parsed RPU, every conversion
result), converting twice with the same mode equals converting once — except that mode 1 on a PROFILE 8 source
additionally needs `vdr_bit_depth_minus8 = 4` (finding F8; the hypothesis is vacuous for modes ≠ 1 and for
profile 7 sources) -/
theorem convert_idempotent (m : Mode) (r r' : Rpu) (h : r.convertWithMode m = .ok r')
    (hc : r.dovi_profile = r.header.getDoviProfile)
    (hb : m = .toMel → r.dovi_profile = 8 → r.header.vdr_bit_depth_minus8 = 4) :
    r'.convertWithMode m = .ok r' := by
  rw [convert_idempotent_iff m r r' h]
  have hacc := (convert_succeeds_iff m r).1 ⟨r', h⟩
  cases m with
  | lossless => trivial
  | to84 => trivial
  | toMel =>
    have hp := hacc.1
    have hg := getDoviProfile_78 r.header (by rw [← hc]; exact hp)
    refine ⟨hg.1, ?_⟩
    rcases hp with hp | hp
    · exact hg.2 (by rw [← hc]; exact hp)
    · exact hb rfl hp
  | to81 =>
    rcases hacc with h5 | h78
    · exact .inl h5
    · exact .inr (getDoviProfile_78 r.header (by rw [← hc]; exact h78)).1
  | to81MappingPreserved => exact (getDoviProfile_78 r.header (by rw [← hc]; exact hacc)).1

/-- F8, for all inputs: mode 1 on a profile-1 header with `vdr_bit_depth_minus8 ≠ 4` (possible only for
profile 8 sources; the validator allows 0..6) yields something classified as profile 4, and the second
conversion is an ERROR -/
theorem mode1_p8_not_idempotent (r r' : Rpu) (h : r.convertWithMode .toMel = .ok r')
    (h1 : r.header.vdr_rpu_profile = 1) (hb : r.header.vdr_bit_depth_minus8 ≠ 4) :
    r'.dovi_profile = 4 ∧ r'.convertWithMode .toMel = .error := by
  have hp : r'.dovi_profile = 4 := by rw [(mode1_table r r' h).2.2.2.2]; simp [h1, hb]
  exact ⟨hp, cw_toMel_err_profile r' (by omega) (by omega)⟩

/-- a valid, consistent profile 8.1 RPU (12-bit-signalled… here `vdr_bit_depth_minus8 = 2`) on which F8 shows -/
def f8Dm : DmData where
  main := p81Vals ++ [65535, 0, 0, 0, 12, 0, 0, 1, 7, 3079, 42]
  cmv29 := some { num_ext_blocks := 1, blocks := [⟨1, 5, [7, 3079, 1200]⟩] }

def f8Witness : Rpu where
  dovi_profile := 8
  el_type := none
  header := { p8DefaultHeader with vdr_bit_depth_minus8 := 2 }
  rpu_data_mapping := some (identityMapping {})
  vdr_dm_data := some f8Dm

theorem mode1_p8_not_idempotent_witness :
    f8Witness.validate = true ∧ Consistent f8Witness ∧
    ∃ r', f8Witness.convertWithMode .toMel = .ok r' ∧ r'.dovi_profile = 4 ∧ r'.validate = true ∧
          r'.convertWithMode .toMel = .error := by
  refine ⟨by decide, ⟨by decide, by decide⟩, _, rfl, by decide, by decide, by decide⟩

/-- the consistency hypothesis of `convert_idempotent` is needed too: an in-memory RPU (the Rust fields are
public) that claims profile 8 over a `vdr_rpu_profile = 0` header converts once and is rejected the second time -/
example : ∃ r', ({ dovi_profile := 8 } : Rpu).convertWithMode .to81MappingPreserved = .ok r' ∧
    r'.convertWithMode .to81MappingPreserved = .error := ⟨_, rfl, by decide⟩

/-- hypotheses of `convert_idempotent` are satisfiable by non-trivial values (mode 1 on `f8Witness` with the
bit depth repaired; mode 2 on a profile 5 RPU) -/
example : ∃ r r' : Rpu, r.header.vdr_bit_depth_minus8 = 4 ∧ r.dovi_profile = r.header.getDoviProfile ∧
    r.convertWithMode .toMel = .ok r' ∧ r'.dovi_profile = 7 ∧ r'.el_type = some .mel ∧ r'.modified = true :=
  ⟨{ f8Witness with header := p8DefaultHeader }, _, rfl, by decide, rfl, by decide, by decide, by decide⟩

example : ∃ r r' : Rpu, r.dovi_profile = 5 ∧ r.dovi_profile = r.header.getDoviProfile ∧
    r.convertWithMode .to81 = .ok r' ∧ r'.dovi_profile = 8 ∧ r'.rpu_data_mapping = some (identityMapping {}) :=
  ⟨({ dovi_profile := 5, header := { p8DefaultHeader with vdr_rpu_profile := 0, bl_video_full_range_flag := true },
       rpu_data_mapping := some {} } : Rpu), _, rfl, by decide, rfl, by decide, by decide⟩

/-! ### the result is accepted by the validator -/

/-- the result of every successful conversion of a source that `DoviRpu::validate` accepts (and whose
`dovi_profile` is the one derived from its header) is accepted by `DoviRpu::validate` — including the
"profile 4" result of F8.  (Whether the ENCODER then reproduces it is the write side: F12–F14.) -/
theorem convert_preserves_validate (m : Mode) (r r' : Rpu) (h : r.convertWithMode m = .ok r')
    (hv : r.validate = true) (hc : r.dovi_profile = r.header.getDoviProfile) : r'.validate = true :=
  validate_preserved m r r' h hv hc

/-- non-vacuity: `f8Witness` is valid and consistent and every mode accepts it … -/
example : f8Witness.validate = true ∧ f8Witness.dovi_profile = f8Witness.header.getDoviProfile ∧
    ∀ m, Accepts m f8Witness := by
  refine ⟨by decide, by decide, fun m => ?_⟩
  cases m <;> simp [Accepts] <;> decide

/-- … and the consistency hypothesis is needed: an in-memory RPU claiming profile 0 (for which the validator
checks nothing profile-specific) over a profile 5 header with NLQ signalling is valid, mode 0 re-derives
profile 5, and the result is no longer valid -/
example : ∃ r r' : Rpu, r.validate = true ∧ r.convertWithMode .lossless = .ok r' ∧ r'.validate = false :=
  ⟨{ dovi_profile := 0, header := { p8DefaultHeader with vdr_rpu_profile := 0, bl_video_full_range_flag := true },
     rpu_data_mapping := some { nlq_method_idc := some 0 } }, _, by decide, rfl, by decide⟩

/-! ## 3. the result encodes and re-parses: the write → parse theorem reaches every conversion result

`RpuWf` (Proofs/Rpu.lean) is the hypothesis of the write → parse theorem `C03.write_parse_sound`; every parse
result satisfies it (`C03.parsed_rpu_is_wf`).  This section carries it through `convert_with_mode`.

Vocabulary (Proofs/WfPreserve.lean; all decidable):
* `HdrSyntax h` — the header carries `el_spatial_resampling_filter_flag` / `disable_residual_flag` in its syntax:
  `vdr_seq_info_present_flag ∧ rpu_format & 0x700 = 0`.  Every header with `bl_bit_depth_minus8 = 2` (i.e. every
  header the validator accepts) satisfies it (`convert_side_of_valid`).
* `IntPartsCoded r` (finding F14) — `use_prev_vdr_rpu_flag = false → coefficient_data_type = 0`: with type 1 the
  writer omits the integer coefficient parts, so the constants the tool synthesises (MEL NLQ `vdr_in_max_int = 1`,
  identity polynomial `0 + 1·x`) cannot be written.
* `DmUncompressed r` (finding F15) — `vdr_dm_metadata_present_flag → reserved_zero_3bits ≠ 1`: a compressed DM
  payload has no colour matrices; `set_p81_coeffs` changes memory only.
* `ConvSide m r` — mode 0: nothing; mode 1: `HdrSyntax ∧ IntPartsCoded`; mode 2/3: `HdrSyntax ∧ DmUncompressed ∧
  ((profile 5 ∨ FEL) → IntPartsCoded)`; mode 5: `HdrSyntax ∧ DmUncompressed`; mode 4: `DmUncompressed`.
  `ConvLimits m r` = `ConvSide m r` without the `HdrSyntax` parts.
* `Rpu.fillLinear` / `Mapping.fillLinear` — the normalisation: every EMPTY `linear_interp_flag` vector of a
  polynomial curve is replaced by one `false` per piece (what the parser stores for pieces whose flag is not in
  the syntax).  Identity on every `RpuWf` RPU (`normalise_id_of_wf`), and the writer emits the same bytes
  (`normalise_writes_same`). -/
section Reparse
open WfPreserve

/-- **1. every conversion except mode 4 keeps `RpuWf`** under `ConvSide` … -/
theorem convert_preserves_wf (m : Mode) (r r' : Rpu) (hwf : RpuWf r) (h : r.convertWithMode m = .ok r')
    (hm : m ≠ .to84) (hs : ConvSide m r) : RpuWf r' :=
  convert_wf m r r' hwf h hm hs

/-- … and `ConvSide` is the weakest such condition: for EVERY well-formed source (not only for the witnesses
below) the result is `RpuWf` exactly when `ConvSide` holds -/
theorem convert_preserves_wf_iff (m : Mode) (r r' : Rpu) (hwf : RpuWf r) (h : r.convertWithMode m = .ok r')
    (hm : m ≠ .to84) : RpuWf r' ↔ ConvSide m r :=
  convert_wf_iff m r r' hwf h hm

/-- for a source the validator accepts, only the F14 / F15 limits remain -/
theorem convert_side_of_valid (m : Mode) (r : Rpu) (hwf : RpuWf r) (hv : r.header.validate r.dovi_profile = true)
    (hl : ConvLimits m r) : ConvSide m r :=
  convSide_of_limits m r (syntax_of_validate r.header r.dovi_profile hwf.hdr hv) hl

/-- **2. mode 4**: the result itself is never `RpuWf` (the static profile 8.4 mapping has EMPTY
`linear_interp_flag` vectors, the parser yields `[false, …]`) … -/
theorem convert84_not_wf (r r' : Rpu) (h : r.convertWithMode .to84 = .ok r') : ¬ RpuWf r' := by
  obtain ⟨_, e⟩ := (cw_ok_iff .to84 r r').1 h
  subst e
  exact not_wf_to84 r

/-- … its normalisation is, exactly when the DM payload is not compressed … -/
theorem convert84_normalised_wf_iff (r r' : Rpu) (hwf : RpuWf r) (h : r.convertWithMode .to84 = .ok r') :
    RpuWf r'.fillLinear ↔ DmUncompressed r :=
  convert84_wf_iff r r' hwf h

/-- … and `write_rpu_data` emits the same bytes for an RPU and its normalisation whenever no polynomial with an
empty flag vector has a piece of order 0 (`Mapping.fillSafe`; true of the profile 8.4 mapping and of every
well-formed mapping) -/
theorem normalise_writes_same (r : Rpu) (hs : ∀ m, r.rpu_data_mapping = some m → m.fillSafe = true) :
    writeRpu r.fillLinear = writeRpu r :=
  writeRpu_fill r hs

/-- the normalisation changes nothing on a well-formed RPU -/
theorem normalise_id_of_wf (r : Rpu) (hwf : RpuWf r) : r.fillLinear = r :=
  fillLinear_of_RpuWf r hwf

/-- all modes at once -/
theorem convert_normalised_wf (m : Mode) (r r' : Rpu) (hwf : RpuWf r) (h : r.convertWithMode m = .ok r')
    (hs : ConvSide m r) : RpuWf r'.fillLinear ∧ (m ≠ .to84 → r'.fillLinear = r') :=
  convert_wf_fill m r r' hwf h hs

/-- **3. C04 "encodes, re-parses"**: for every well-formed source (every parse result), whatever
`write_rpu_data` emits for the result of a conversion is accepted by the parser and decodes to that result —
every header, mapping, NLQ and DM field, every extension block — up to the representation of the unset
`linear_interp_flag`s of mode 4 (`fillLinear`, the identity for the other modes), within the limits F14 / F15
(`ConvLimits`; the `HdrSyntax` part of `ConvSide` follows from the write having succeeded). -/
theorem convert_result_encodes_reparses (m : Mode) (r r' : Rpu) (bytes : Bytes) (hwf : RpuWf r)
    (h : r.convertWithMode m = .ok r') (hl : ConvLimits m r) (hw : writeRpu r' = .ok bytes) :
    ∃ crc, parseRpu bytes = .ok { r'.fillLinear with rpu_data_crc32 := crc, modified := false } ∧
      (m ≠ .to84 → r'.fillLinear = r') :=
  convert_write_parse m r r' bytes hwf h hl hw

/-! ### the side conditions are real limits of the tool: witnesses -/

def okOr {α} [Inhabited α] (x : Res α) : α := match x with | .ok r => r | _ => default

/-- `HdrSyntax`: an in-memory RPU without sequence info (the Rust fields are public; the validator would reject
its `bl_bit_depth_minus8 = 0`, so no parsed RPU looks like this) is well formed, mode 5 accepts it and sets
`disable_residual_flag`, which its syntax cannot carry -/
def noSeqRpu : Rpu :=
  { dovi_profile := 8, header := { rpu_nal_prefix := 25, rpu_type := 2, vdr_rpu_profile := 1, use_prev_vdr_rpu_flag := true } }

example : RpuWf noSeqRpu ∧ ConvLimits .to81MappingPreserved noSeqRpu ∧ ¬ HdrSyntax noSeqRpu.header ∧
    ∃ r', noSeqRpu.convertWithMode .to81MappingPreserved = .ok r' ∧ ¬ RpuWf r' :=
  ⟨by decide, by decide, by decide, _, rfl, by decide⟩

/-- F14 source: a valid, well-formed profile 7 FEL RPU with `coefficient_data_type = 1` -/
def f14Rpu : Rpu :=
  { dovi_profile := 7, el_type := some .fel,
    header := { exHdrF with rpu_nal_prefix := 25, vdr_dm_metadata_present_flag := false },
    rpu_data_mapping := some exMapF, modified := true }

set_option maxRecDepth 100000 in
theorem f14Rpu_ok : RpuWf f14Rpu ∧ f14Rpu.validate = true ∧ HdrSyntax f14Rpu.header ∧ ¬ IntPartsCoded f14Rpu := by
  decide

def f14Mel : Rpu := okOr (f14Rpu.convertWithMode .toMel)
def f14MelBytes : Bytes := okOr (writeRpu f14Mel)
def zeroInMax (m : Mapping) : Mapping :=
  { m with nlq := m.nlq.map fun n => { n with vdr_in_max_int := [0, 0, 0] } }
/-- what is on the wire after mode 1: the NLQ integer parts are gone, the EL type is FEL -/
def f14MelWire : Rpu :=
  { f14Mel with el_type := some .fel, rpu_data_mapping := f14Mel.rpu_data_mapping.map zeroInMax }

set_option maxRecDepth 100000 in
/-- **F14 / F12, mode 1**: the conversion succeeds, the result says MEL, it is NOT `RpuWf`, it is written without
an error, and the written bytes decode to an FEL RPU (`vdr_in_max_int = [0, 0, 0]` instead of `[1, 1, 1]`) -/
theorem f14_mode1_witness :
    f14Rpu.convertWithMode .toMel = .ok f14Mel ∧ ¬ RpuWf f14Mel ∧ f14Mel.el_type = some .mel ∧
    writeRpu f14Mel = .ok f14MelBytes ∧
    ∃ crc, parseRpu f14MelBytes = .ok { f14MelWire with rpu_data_crc32 := crc, modified := false } := by
  have hw : writeRpu f14Mel = .ok f14MelBytes := by decide
  have hww : writeRpu f14MelWire = .ok f14MelBytes := by decide
  have hwf : RpuWf f14MelWire := by decide
  obtain ⟨crc, hp, _⟩ := parseRpu_writeRpu f14MelWire f14MelBytes hww hwf
  exact ⟨by decide, by decide, by decide, hw, crc, hp⟩

def f14P81 : Rpu := okOr (f14Rpu.convertWithMode .to81)
def f14P81Bytes : Bytes := okOr (writeRpu f14P81)
def noInts (m : Mapping) : Mapping :=
  { m with curves := m.curves.map fun c =>
      { c with polynomial := c.polynomial.map fun p => { p with poly_coef_int := [[]] } } }
/-- what is on the wire after mode 2: the identity `0 + 1·x` without its integer parts, i.e. the zero polynomial -/
def f14P81Wire : Rpu := { f14P81 with rpu_data_mapping := f14P81.rpu_data_mapping.map noInts }

set_option maxRecDepth 100000 in
/-- **F14, mode 2 on an FEL source**: the in-memory result carries the identity mapping, the written bytes decode
to the all-zero polynomial -/
theorem f14_mode2_witness :
    f14Rpu.convertWithMode .to81 = .ok f14P81 ∧ ¬ RpuWf f14P81 ∧
    f14P81.rpu_data_mapping = some (identityMapping exMapF) ∧
    writeRpu f14P81 = .ok f14P81Bytes ∧
    (∃ crc, parseRpu f14P81Bytes = .ok { f14P81Wire with rpu_data_crc32 := crc, modified := false }) ∧
    f14P81Wire.rpu_data_mapping ≠ f14P81.rpu_data_mapping := by
  have hw : writeRpu f14P81 = .ok f14P81Bytes := by decide
  have hww : writeRpu f14P81Wire = .ok f14P81Bytes := by decide
  have hwf : RpuWf f14P81Wire := by decide
  obtain ⟨crc, hp, _⟩ := parseRpu_writeRpu f14P81Wire f14P81Bytes hww hwf
  exact ⟨by decide, by decide, by decide, hw, ⟨crc, hp⟩, by decide⟩

/-- F15 source: a valid, well-formed profile 8.1 RPU with a compressed DM header -/
def f15Rpu : Rpu :=
  { dovi_profile := 8, header := { p8DefaultHeader with reserved_zero_3bits := 1 },
    rpu_data_mapping := some (identityMapping {}),
    vdr_dm_data := some { compressed := true, cmv29 := some {} }, modified := true }

theorem f15Rpu_ok : RpuWf f15Rpu ∧ f15Rpu.validate = true ∧ HdrSyntax f15Rpu.header ∧ ¬ DmUncompressed f15Rpu := by
  decide

def f15P81 : Rpu := okOr (f15Rpu.convertWithMode .to81MappingPreserved)
def f15P81Bytes : Bytes := okOr (writeRpu f15P81)
/-- what is on the wire after mode 5: a compressed DM payload has no colour matrices -/
def f15P81Wire : Rpu :=
  { f15P81 with vdr_dm_data := f15P81.vdr_dm_data.map fun d => { d with main := List.replicate 32 0 } }

set_option maxRecDepth 100000 in
/-- **F15, mode 5 on a compressed DM header**: the in-memory result carries the BT.2020 matrices, nothing of
them is written and no error is raised -/
theorem f15_mode5_witness :
    f15Rpu.convertWithMode .to81MappingPreserved = .ok f15P81 ∧ ¬ RpuWf f15P81 ∧
    (f15P81.vdr_dm_data.map fun d => d.main.take 21) = some p81Vals ∧
    writeRpu f15P81 = .ok f15P81Bytes ∧
    ∃ crc, parseRpu f15P81Bytes = .ok { f15P81Wire with rpu_data_crc32 := crc, modified := false } := by
  have hw : writeRpu f15P81 = .ok f15P81Bytes := by decide
  have hww : writeRpu f15P81Wire = .ok f15P81Bytes := by decide
  have hwf : RpuWf f15P81Wire := by decide
  obtain ⟨crc, hp, _⟩ := parseRpu_writeRpu f15P81Wire f15P81Bytes hww hwf
  exact ⟨by decide, by decide, by decide, hw, crc, hp⟩

/-- the hypotheses of `convert_result_encodes_reparses` are satisfiable by non-trivial values: every mode on the
valid profile 8.1 RPU `f8Witness` (with the bit depth of a real stream), with a successful write -/
def okRpu : Rpu := { f8Witness with header := p8DefaultHeader, modified := true }

set_option maxRecDepth 100000 in
example : RpuWf okRpu ∧ (∀ m, ConvLimits m okRpu) ∧
    ∀ m, ∃ r' bytes, okRpu.convertWithMode m = .ok r' ∧ writeRpu r' = .ok bytes := by
  refine ⟨by decide, fun m => by cases m <;> decide, fun m => ?_⟩
  cases m
  · exact ⟨okOr (okRpu.convertWithMode .lossless), okOr (writeRpu (okOr (okRpu.convertWithMode .lossless))), by decide, by decide⟩
  · exact ⟨okOr (okRpu.convertWithMode .toMel), okOr (writeRpu (okOr (okRpu.convertWithMode .toMel))), by decide, by decide⟩
  · exact ⟨okOr (okRpu.convertWithMode .to81), okOr (writeRpu (okOr (okRpu.convertWithMode .to81))), by decide, by decide⟩
  · exact ⟨okOr (okRpu.convertWithMode .to84), okOr (writeRpu (okOr (okRpu.convertWithMode .to84))), by decide, by decide⟩
  · exact ⟨okOr (okRpu.convertWithMode .to81MappingPreserved),
      okOr (writeRpu (okOr (okRpu.convertWithMode .to81MappingPreserved))), by decide, by decide⟩

end Reparse

/-- **source tie** (Gen/SourceRules.lean is regenerated from /repo on every run by tools/gen_source_rules.py):
`From<u8> for ConversionMode` and, per mode, the profiles for which `convert_with_mode` computes
`valid_conversion = true`, as they stand in the Rust sources now, are the mode table and the accept/reject
decisions of the model: a mode applied to a profile outside its list fails, a mode without a list never fails on
the profile test. (The translator reads the `From<u8>` table and the `valid_conversion` match; the statements around that
match — `modified`, the `bail!` on an invalid profile, the profile/EL-type update — are held by the source pin of
`convert_with_mode` in tools/check_source_pins.py.) -/
theorem source_modes_agree :
    (∀ n, Src.modeOfU8 n = modeOfU8 n) ∧
    (∀ (r : Rpu) (m : Mode) (ps : List Nat), Src.modeAccepts m = some ps → r.dovi_profile ∉ ps →
        r.convertWithMode m = .error) ∧
    (∀ (r : Rpu) (m : Mode), Src.modeAccepts m = none → ∃ r', r.convertWithMode m = .ok r') ∧
    (∀ (r : Rpu) (m : Mode) (ps : List Nat), Src.modeAccepts m = some ps → r.dovi_profile ∈ ps → m ≠ .toMel →
        ∃ r', r.convertWithMode m = .ok r') := by
  refine ⟨?_, ?_, ?_, ?_⟩
  · intro n
    unfold Src.modeOfU8 modeOfU8
    split <;> first | rfl | (split <;> first | rfl | simp_all)
  · intro r m ps hm hp
    cases m <;> simp [Src.modeAccepts] at hm <;> subst hm <;> simp at hp <;>
      simp [Rpu.convertWithMode, hp]
  · intro r m hm
    cases m <;> simp [Src.modeAccepts] at hm <;> simp [Rpu.convertWithMode]
  · intro r m ps hm hp hne
    cases m <;> simp [Src.modeAccepts] at hm <;> subst hm <;> simp at hp
    · exact absurd rfl hne
    · rcases hp with h | h | h <;> simp [Rpu.convertWithMode, h]
    · rcases hp with h | h <;> simp [Rpu.convertWithMode, h]

end Dovi.C04
