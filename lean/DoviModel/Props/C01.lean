import DoviModel.Model.RpuWrite
import DoviModel.Model.Nalu
import DoviModel.Proofs.PwRpu
import DoviModel.Props.C13
import DoviModel.Props.SourceTie
/-! # C01 — unmodified RPUs re-encode byte-exactly or fail (theorems added in `Proofs/` as they are completed) -/
namespace Dovi.C01
open Dovi

/-- what the CRC guard gives on its own: an unmodified successful write carries the parsed CRC -/
theorem write_unmodified_crc (r : Rpu) (out : Bytes) (hm : r.modified = false) (hw : writeRpu r = .ok out) :
    ∃ body : Bytes, out = body ++ bitsToBytes (toBits 32 r.rpu_data_crc32) ++ [0x80] ++ List.replicate r.trailing_zeroes 0
      ∧ crc32 (body.drop 1) = r.rpu_data_crc32 := by
  unfold writeRpu at hw
  split at hw
  · cases hw
  · cases hb : writeBody r with
    | error => simp [hb, Res.bind] at hw
    | panic => simp [hb, Res.bind] at hw
    | ok body =>
      simp only [hb, Res.bind, hm] at hw
      split at hw
      · cases hw
      · rename_i hc
        simp only [Bool.not_false, Bool.true_and, bne_iff_ne, ne_eq, Decidable.not_not] at hc
        injection hw with hw
        refine ⟨_, ?_, hc.symm⟩
        rw [← hw, hc]

/-! ## byte-exact re-encoding (parse → write), proved bottom-up in `Proofs/Pw*.lean` -/

/-- **C01, main theorem.** Whenever `DoviRpu::parse` accepts a byte string (prefix-less, emulation-prevention-free
form, any number of trailing zero bytes) and the unmodified result is written, the write either fails or
reproduces the input byte for byte — for every accepted input (every profile, coefficient type, any number of
pivots / pieces / blocks, data before the CRC, …) whose integer coefficient parts are below 2^52 in magnitude.
That bound is exactly where the third-party `get_se` (which goes through `f64`) stops being injective
(`PwMap.readSe_rounding_witness`); above it the CRC comparison of the unmodified write is the only guard. -/
theorem parse_write_exact (bytes out : Bytes) (r : Rpu) (hp : parseRpu bytes = .ok r)
    (hs : ∀ m, r.rpu_data_mapping = some m → m.seSmall = true) (hw : writeRpu r = .ok out) : out = bytes :=
  writeRpu_parseRpu bytes out r hp hs hw

/-- the same through `DoviRpu::parse_rpu` (any accepted start-code / NAL-header prefix): the output is the input
without its prefix -/
theorem entry_write_exact (data out : Bytes) (r : Rpu) (hp : parseRpuEntry data = .ok r)
    (hs : ∀ m, r.rpu_data_mapping = some m → m.seSmall = true) (hw : writeRpu r = .ok out) :
    trimPrefix data = .ok out := by
  unfold parseRpuEntry at hp
  cases ht : trimPrefix data with
  | error => simp [ht, Res.bind] at hp
  | panic => simp [ht, Res.bind] at hp
  | ok t =>
    simp only [ht, Res.bind] at hp
    rw [writeRpu_parseRpu t out r hp hs hw]

/-- the same through the HEVC NAL entry points: the written NAL is `7C 01` followed by the escaped form of the
input payload (compared in emulation-prevention-free form), and it is the input byte for byte when the input
was canonically escaped -/
theorem nalu_write_exact (d out : Bytes) (r : Rpu) (hp : parseNalu d = .ok r)
    (hs : ∀ m, r.rpu_data_mapping = some m → m.seSmall = true) (hw : writeNalu r = .ok out) :
    ∃ t, trimPrefix d = .ok t ∧ out = 0x7C :: 0x01 :: Esc.escape (Esc.unescape t) ∧
      (∀ b0 xs, b0 ≠ 0 → t = Esc.escape (b0 :: xs) → out = 0x7C :: 0x01 :: t) := by
  unfold parseNalu at hp
  cases ht : trimPrefix d with
  | error => simp [ht, Res.bind] at hp
  | panic => simp [ht, Res.bind] at hp
  | ok t =>
    simp only [ht, Res.bind] at hp
    unfold writeNalu at hw
    cases hwr : writeRpu r with
    | error => simp [hwr, Res.bind] at hw
    | panic => simp [hwr, Res.bind] at hw
    | ok o =>
      simp only [hwr, Res.bind] at hw
      injection hw with hw
      have ho := writeRpu_parseRpu (Esc.unescape t) o r hp hs hwr
      subst ho
      refine ⟨t, rfl, hw.symm, ?_⟩
      intro b0 xs h0 hcanon
      rw [← hw, hcanon, Dovi.C13.unesc_esc b0 xs h0]

/-- the written bytes parse back to the same RPU (write → parse, `C03.write_parse_sound`) whenever the parse
result has the parser's shape — so for such inputs `parse ∘ write ∘ parse = parse` and, with
`parse_write_exact`, `write ∘ parse` is the identity on accepted inputs or an error -/
theorem reparse_same (r : Rpu) (out : Bytes) (hw : writeRpu r = .ok out) (hwf : RpuWfB r = true) (hm : r.modified = false) :
    parseRpu out = .ok r := by
  obtain ⟨crc, hp, hc⟩ := parseRpu_writeRpu_dec r out hw hwf
  rw [hp, hc hm]
  congr
  cases r
  simp_all

/-- **source tie** (regenerated on every run from /repo by tools/gen_source_layouts.py): the field widths,
`length > k` thresholds, field order, `bytes_size()` and `required_bits()` of every extension-block level and
the 32 codings of the `vdr_dm_data` payload, as they stand in the Rust sources now, are the tables the model —
and therefore every theorem about the unmodified rewrite — is built on -/
theorem source_layouts_agree :
    (∀ level length, Src.blockParse level length = blockParseLayout level length) ∧
    (∀ level length, Src.blockWrite level length = blockWriteLayout level length) ∧
    (∀ level length, Src.blockBytes level length = blockBytes level length) ∧
    (∀ level length, level ≠ 0 → Src.blockRequired level length = blockRequiredBits level length) ∧
    Src.dmMainParse.map SourceTie.conv = dmMainParseLayout ∧
    Src.dmMainWrite.map SourceTie.conv = dmMainWriteLayout ∧
    Src.signedFields = [(2, 6)] :=
  ⟨SourceTie.parse_layout_from_source, SourceTie.write_layout_from_source, SourceTie.bytes_from_source,
   SourceTie.required_from_source, SourceTie.dm_parse_from_source, SourceTie.dm_write_from_source,
   SourceTie.signed_from_source⟩

/-- **source tie, validation rules** (regenerated on every run from /repo by tools/gen_source_rules.py): the
`validate()` of every extension-block level, of the header, of the mapping (outside its per-curve loop), of
`vdr_dm_data` and of the two containers
(allowed levels, per-level count limits), and the struct fields of every block level in declaration order, as
they stand in the Rust sources now, are the rules and names of the model — for every block, header, DM payload
and container -/
theorem source_rules_agree :
    (∀ level, Src.blockFieldNames level = blockFieldNames level) ∧
    (∀ b : Block, Src.blockValidate b = blockValidate b) ∧
    (∀ (h : Header) profile, Src.headerValidate h profile = h.validate profile) ∧
    (∀ d : DmData, Src.dmValidate d = d.validate) ∧
    (∀ (m : Mapping) profile, m.validate profile =
      (Src.mappingValidateHead m profile && m.curves.all Curve.piecesOk && Src.mappingValidateTail m)) ∧
    (∀ c : Container, c.validate29 =
      (c.blocks.all (fun b => Src.cmv29Allowed.contains b.level) && Src.cmv29Counts.all (SourceTie.countRule c.blocks))) ∧
    (∀ c : Container, c.validate40 =
      (c.blocks.all (fun b => Src.cmv40Allowed.contains b.level) && Src.cmv40Counts.all (SourceTie.countRule c.blocks))) ∧
    Src.cmv29Allowed = cmv29Levels ∧ Src.cmv40Allowed = cmv40Levels :=
  ⟨SourceTie.block_names_from_source, SourceTie.block_validate_from_source, SourceTie.header_validate_from_source,
   SourceTie.dm_validate_from_source, SourceTie.mapping_validate_from_source, SourceTie.cmv29_validate_from_source, SourceTie.cmv40_validate_from_source,
   SourceTie.allowed_levels_from_source.1, SourceTie.allowed_levels_from_source.2⟩

end Dovi.C01
