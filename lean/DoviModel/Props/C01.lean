import DoviModel.Model.RpuWrite
/-! # C01 — unmodified RPUs re-encode byte-exactly or fail (theorems added in `Proofs/` as they are completed) -/
namespace Dovi.C01
open Dovi

/-- what the CRC guard gives on its own: an unmodified successful write carries the parsed CRC -/
theorem write_unmodified_crc (r : Rpu) (out : Bytes) (hm : r.modified = false) (hw : writeRpu r = .ok out) :
    ∃ body : Bytes, out = body ++ bitsToBytes (toBits 32 r.rpu_data_crc32) ++ [0x80] ++ List.replicate r.trailing_zeroes 0
      ∧ crc32 (body.drop 1) = r.rpu_data_crc32 := by
  unfold writeRpu at hw
  split at hw
  · cases hw
  · cases hb : writeBody r with
    | error => simp [hb, Res.bind] at hw
    | panic => simp [hb, Res.bind] at hw
    | ok body =>
      simp only [hb, Res.bind, hm] at hw
      split at hw
      · cases hw
      · rename_i hc
        simp only [Bool.not_false, Bool.true_and, bne_iff_ne, ne_eq, Decidable.not_not] at hc
        injection hw with hw
        refine ⟨_, ?_, hc.symm⟩
        rw [← hw, hc]

end Dovi.C01
