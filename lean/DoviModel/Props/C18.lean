import DoviModel.Proofs.Split
import DoviModel.Proofs.Esc
import DoviModel.Proofs.Hevc
/-!
# C18 — --drop-hdr10plus removes exactly the HDR10+ SEI messages

Theorems about `Hevc.Sei.dropHdr10plus` (model of `prefix_sei_removed_hdr10plus_nalu` on top of the SEI walker
of hevc_parser) and about the place of the option in the five commands (`seiStage`).  `./check C18` ties the
model to the real CLI (ops `hevc.general`, `hevc.mux`, `hevc.inject`, `sei.drop`).

The NAL-level theorems quantify over **all** message lists: a prefix SEI NAL is any byte string `d` whose
unescaped form, trailing zero bytes stripped, is `seiRbsp h0 h1 ms` = 2-byte header, the messages `ms` coded as
H.265 7.3.5 prescribes (`0xFF`-extended type and size), `0x80` — with every payload type ≤ 255 (hevc_parser 0.6.8
holds the type in a `u8`; above that the tool fails, see the model) and at least one message.
-/
namespace Dovi.C18
open Dovi Dovi.Split Dovi.Hevc Dovi.Hevc.Sei

/-- both layers are read through the same chunked reader: the NAL list each layer contributes does not depend
on where its read boundaries fall -/
theorem layer_chunking_irrelevant (cs cs' : List Bytes) (l l' : Bytes)
    (h : cs.flatten ++ l = cs'.flatten ++ l') : run [] cs l = run [] cs' l' := by
  rw [run_eq_split, run_eq_split]; simp [h]

/-! ## one NAL unit -/

/-- the walker reads back exactly the coded messages (types, payload bytes, order), whatever the payloads
contain (emulation-prevention patterns, `0xFF` bytes) and whatever their sizes -/
theorem sei_walker_roundtrip (d : Bytes) (h0 h1 : UInt8) (ms : List (Nat × Bytes))
    (hp : Sei.stripZeros (Esc.unescape d) = seiRbsp h0 h1 ms) (hh : isSeiHdr h0) (hne : ms ≠ [])
    (ht : ∀ m ∈ ms, m.1 ≤ 255) : messages d = some ms :=
  messages_of_rbsp d h0 h1 ms hp hh hne ht

/-- **What the option does to a prefix SEI NAL**: no ST 2094-40 message → the input bytes; it is the only
message → the NAL is dropped; otherwise → the NAL re-coded without the *first* ST 2094-40 message. -/
theorem drop_result (d : Bytes) (h0 h1 : UInt8) (ms : List (Nat × Bytes))
    (hp : Sei.stripZeros (Esc.unescape d) = seiRbsp h0 h1 ms) (hh : isSeiHdr h0) (hne : ms ≠ [])
    (ht : ∀ m ∈ ms, m.1 ≤ 255) :
    dropHdr10plus d =
      if (∀ m ∈ ms, isHdrMsg m = false) then Res.keep d
      else if ms.length > 1 then Res.keep (Esc.escape (seiRbsp h0 h1 (ms.eraseP isHdrMsg)))
      else Res.dropped :=
  drop_spec d h0 h1 ms hp hh hne ht

/-- a NAL holding only the ST 2094-40 message is dropped -/
theorem only_hdr10plus_nal_dropped (d : Bytes) (h0 h1 : UInt8) (m : Nat × Bytes)
    (hp : Sei.stripZeros (Esc.unescape d) = seiRbsp h0 h1 [m]) (hh : isSeiHdr h0) (ht : m.1 ≤ 255)
    (hm : isHdrMsg m = true) : dropHdr10plus d = Res.dropped := by
  rw [drop_spec d h0 h1 [m] hp hh (by simp) (by simpa using ht)]
  simp [hm]

/-- **Every NAL that holds no HDR10+ message is passed through unchanged** (the very bytes, not a re-coding) -/
theorem non_hdr10plus_untouched (d : Bytes) (h0 h1 : UInt8) (ms : List (Nat × Bytes))
    (hp : Sei.stripZeros (Esc.unescape d) = seiRbsp h0 h1 ms) (hh : isSeiHdr h0) (hne : ms ≠ [])
    (ht : ∀ m ∈ ms, m.1 ≤ 255) (hno : ∀ m ∈ ms, isHdrMsg m = false) : dropHdr10plus d = Res.keep d := by
  rw [drop_spec d h0 h1 ms hp hh hne ht, if_pos hno]

/-- **The other messages keep their bytes and order**: the rewritten NAL holds the input's messages without
the first ST 2094-40 one — without all of them when there is at most one, as in conformant streams. -/
theorem drop_keeps_others (d d' : Bytes) (h0 h1 : UInt8) (ms : List (Nat × Bytes))
    (hp : Sei.stripZeros (Esc.unescape d) = seiRbsp h0 h1 ms) (hh : isSeiHdr h0) (hne : ms ≠ [])
    (ht : ∀ m ∈ ms, m.1 ≤ 255) (hhas : ∃ m ∈ ms, isHdrMsg m = true)
    (hk : dropHdr10plus d = Res.keep d') :
    messages d' = some (ms.eraseP isHdrMsg) ∧
    ((ms.filter isHdrMsg).length ≤ 1 → ms.eraseP isHdrMsg = ms.filter (fun m => !isHdrMsg m)) := by
  refine ⟨?_, eraseP_eq_filter_of_atMostOne isHdrMsg ms⟩
  rw [drop_spec d h0 h1 ms hp hh hne ht] at hk
  have hnot : ¬ (∀ m ∈ ms, isHdrMsg m = false) := by
    intro h; obtain ⟨m, hm, hmh⟩ := hhas; simp [h m hm] at hmh
  rw [if_neg hnot] at hk
  split at hk
  · rename_i hlen
    simp only [Res.keep.injEq] at hk
    subst hk
    apply messages_escape_rbsp h0 h1 _ hh
    · intro he
      have := congrArg List.length he
      obtain ⟨m, hm, hmh⟩ := hhas
      rw [List.length_eraseP_of_mem hm hmh] at this
      simp at this; omega
    · intro m hm; exact ht m (List.mem_of_mem_eraseP hm)
  · cases hk

/-- **No ST 2094-40 message remains** in a NAL the option lets through, for every NAL with at most one such
message (the property's quantifier; with two, the tool removes only the first — see `drop_result`). -/
theorem no_hdr10plus_left (d d' : Bytes) (h0 h1 : UInt8) (ms : List (Nat × Bytes))
    (hp : Sei.stripZeros (Esc.unescape d) = seiRbsp h0 h1 ms) (hh : isSeiHdr h0) (hne : ms ≠ [])
    (ht : ∀ m ∈ ms, m.1 ≤ 255) (hone : (ms.filter isHdrMsg).length ≤ 1)
    (hk : dropHdr10plus d = Res.keep d') :
    ∃ ms', messages d' = some ms' ∧ ∀ m ∈ ms', isHdrMsg m = false := by
  by_cases hno : ∀ m ∈ ms, isHdrMsg m = false
  · rw [non_hdr10plus_untouched d h0 h1 ms hp hh hne ht hno] at hk
    simp only [Res.keep.injEq] at hk
    subst hk
    exact ⟨ms, messages_of_rbsp d h0 h1 ms hp hh hne ht, hno⟩
  · have hhas : ∃ m ∈ ms, isHdrMsg m = true := by
      apply Classical.byContradiction
      intro hn
      apply hno
      intro m hm
      cases hmm : isHdrMsg m with
      | false => rfl
      | true => exact absurd ⟨m, hm, hmm⟩ hn
    obtain ⟨h1', h2'⟩ := drop_keeps_others d d' h0 h1 ms hp hh hne ht hhas hk
    refine ⟨_, h1', ?_⟩
    rw [h2' hone]
    intro m hm
    simpa using (List.mem_filter.mp hm).2

/-! ## the option inside the commands -/

/-- convert / demux / remove: with the option, the bytes written to every output are those of the same
command without it, run on the stream whose prefix SEI NALs were rewritten one by one (`seiStage`: dropped,
re-coded, or left alone); the command fails iff an SEI does not parse or the command without the option
fails.  In particular no NAL other than a prefix SEI is touched. -/
theorem general_drop_is_sei_stage (c : Cfg) (conv : Bytes → Option Bytes) (items : List Item) :
    (general { c with drop := true } conv items).map payS =
      (seiStage true items).bind (fun its => (general { c with drop := false } conv its).map payS) :=
  run_drop_stage c conv {} {} items rfl

/-- mux: likewise, exactly (start codes included), on the base layer -/
theorem mux_drop_is_sei_stage (c : MCfg) (aud : Nat → Bytes) (conv : Bytes → Option Bytes) (n : Nat) (bl el : List Item) :
    mux { c with drop := true } aud conv n bl el =
      (seiStage true bl).bind (fun b => mux { c with drop := false } aud conv n b el) :=
  mux_drop_stage c aud conv n bl el

/-- inject-rpu: likewise -/
theorem inject_drop_is_sei_stage (c : ICfg) (aud : Nat → Bytes) (pres : Nat → Nat) (n : Nat) (rpus : List Bytes)
    (items : List Item) (hn : n ≠ 0) :
    inject { c with drop := true } aud pres n rpus items =
      (seiStage true items).bind (fun its => inject { c with drop := false } aud pres n rpus its) :=
  inject_drop_stage c aud pres n rpus items hn

/-- every prefix SEI NAL of the staged stream is the rewrite (`keep`) of a prefix SEI NAL of the input in the
same access unit, every other NAL of it is a NAL of the input: together with `no_hdr10plus_left`, no
ST 2094-40 message remains in the output of any of the five commands -/
theorem staged_stream_origin (items its : List Item) (h : seiStage true items = some its) :
    ∀ x ∈ its, (x.typ = NAL_SEI_PREFIX → ∃ it ∈ items, it.typ = NAL_SEI_PREFIX ∧ it.au = x.au ∧
        dropHdr10plus it.data = Res.keep x.data) ∧
      (x.typ ≠ NAL_SEI_PREFIX → x ∈ items) :=
  seiStage_mem items its h

/-- a stream whose prefix SEI NALs hold no ST 2094-40 message goes through convert / demux / remove with the
option exactly as without it (start codes included) -/
theorem stream_without_hdr10plus_untouched (c : Cfg) (conv : Bytes → Option Bytes) (items : List Item)
    (h : ∀ it ∈ items, it.typ = NAL_SEI_PREFIX → dropHdr10plus it.data = Res.keep it.data) :
    general { c with drop := true } conv items = general { c with drop := false } conv items :=
  run_drop_id c conv {} items h

/-- **Option absent: the whole stream is passed through unchanged** — convert without any option writes the
input NAL sequence, every NAL with its bytes, in order; in mux and inject-rpu the SEI stage is the identity. -/
theorem option_absent_identity (conv : Bytes → Option Bytes) (items : List Item) (annexb : Bool) :
    (general { cfgConvert with annexb := annexb } conv items).map (fun s => s.sl.map pay) = some (items.map payI) ∧
    seiStage false items = some items := by
  refine ⟨?_, seiStage_false items⟩
  have := run_sl_spec { cfgConvert with annexb := annexb } conv {} items rfl rfl rfl
  rw [general, this]
  have e : (List.filter (fun it => decide ¬(it.typ = NAL_UNSPEC63 ∧ ({ cfgConvert with annexb := annexb } : Cfg).discard = true)) items) = items := by
    rw [List.filter_eq_self]; intro a _; simp [cfgConvert]
  rw [e]
  have : slSpec ({ cfgConvert with annexb := annexb } : Cfg).convSet conv = fun it => some (payI it) := by
    funext it; simp [slSpec, cfgConvert]
  rw [this, optMap_some]

/-! ## non-vacuity -/

/-- a prefix SEI NAL with three messages, the ST 2094-40 one in the middle; the cut joins `.. 00 00` with a
message of type 1, so the re-coded NAL needs an emulation-prevention byte the input did not have -/
def exSei : Bytes := Esc.escape (seiRbsp 0x4E 0x01
  [(144, [7, 0, 0]), (4, hdrHead ++ [0x11, 0x22]), (1, [0x33])])

example : Sei.stripZeros (Esc.unescape exSei) = seiRbsp 0x4E 0x01 [(144, [7, 0, 0]), (4, hdrHead ++ [0x11, 0x22]), (1, [0x33])]
    ∧ isSeiHdr 0x4E ∧ messages exSei = some [(144, [7, 0, 0]), (4, hdrHead ++ [0x11, 0x22]), (1, [0x33])] := by decide

example : dropHdr10plus exSei = Res.keep [0x4E, 0x01, 144, 3, 7, 0, 0, 3, 1, 1, 0x33, 0x80] := by decide

example : dropHdr10plus (Esc.escape (seiRbsp 0x4E 0x01 [(4, hdrHead ++ [0x11, 0x22])])) = Res.dropped := by decide

/-- a T.35 message of another provider is not taken for HDR10+ -/
example : dropHdr10plus (Esc.escape (seiRbsp 0x4E 0x01 [(4, [0xB5, 0, 0x31, 0x47, 0x41, 0x39, 0x34, 1])])) =
    Res.keep (Esc.escape (seiRbsp 0x4E 0x01 [(4, [0xB5, 0, 0x31, 0x47, 0x41, 0x39, 0x34, 1])])) := by decide

/-- inside a stream: the SEI-only NAL disappears, the multi-message one is re-coded, everything else stays -/
example : (general { cfgConvert with drop := true } (fun _ => none)
    [⟨35, [0x46, 1, 0x10], 0⟩, ⟨39, Esc.escape (seiRbsp 0x4E 0x01 [(4, hdrHead ++ [0x11])]), 0⟩, ⟨39, exSei, 0⟩,
     ⟨19, [0x26, 1, 0xAA], 0⟩, ⟨62, [0x7C, 1, 0x19, 0xA0], 0⟩]).map (fun s => s.sl.map pay) = some
    [(35, [0x46, 1, 0x10]), (39, [0x4E, 0x01, 144, 3, 7, 0, 0, 3, 1, 1, 0x33, 0x80]), (19, [0x26, 1, 0xAA]),
     (62, [0x7C, 1, 0x19, 0xA0])] := by decide

end Dovi.C18
