import DoviModel.Proofs.Split
/-!
# C05 — HEVC pass-through commands neither lose, alter nor reorder NAL units

The chunked reader (`hevc_parser::HevcProcessor::process_io` / `parse_nalus`, model `Split.run`) yields the same
NAL list as splitting the whole stream at once, for every chunking.
-/
namespace Dovi.C05
open Dovi Dovi.Split

/-- any chunking of a stream (full chunks `cs`, then the final short read `l`) yields exactly the Annex-B
split of the whole stream -/
theorem chunked_split_eq_spec (cs : List Bytes) (l : Bytes) :
    run [] cs l = (split (cs.flatten ++ l)).2 := by
  simpa using run_eq_split [] cs l

/-- two chunkings of the same bytes give the same NAL list: the result does not depend on where the read
boundaries fall, on the chunk size, or on NALs being larger than a chunk -/
theorem chunking_irrelevant (cs cs' : List Bytes) (l l' : Bytes)
    (h : cs.flatten ++ l = cs'.flatten ++ l') : run [] cs l = run [] cs' l' := by
  rw [chunked_split_eq_spec, chunked_split_eq_spec, h]

/-- piped stdin: whatever the fragmentation of the pipe writes, the reader accumulates them into some
chunking of the same byte stream, hence the same NAL list as the file -/
theorem stdin_fragmentation_irrelevant (frags : List Bytes) (cs : List Bytes) (l : Bytes)
    (h : cs.flatten ++ l = frags.flatten) : run [] cs l = (split frags.flatten).2 := by
  rw [chunked_split_eq_spec, h]

/-! non-vacuity: a start code straddling a chunk boundary -/
example : run [] [[0x11, 0, 0], [1, 0x22, 0]] [0, 1, 0x33] = [[0x22], [0x33]] := by
  simp [run, stepNonFinal, split, SC]

end Dovi.C05
