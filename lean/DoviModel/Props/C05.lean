import DoviModel.Proofs.Split
import DoviModel.Proofs.Hevc
import DoviModel.Props.C13
/-!
# C05 — HEVC pass-through commands neither lose, alter nor reorder NAL units

Two layers.  (1) The chunked reader (`hevc_parser::HevcProcessor::process_io` / `parse_nalus`, model
`Split.run`) yields the same NAL list as splitting the whole stream at once, for every chunking.  (2) On that
NAL list, `DoviProcessor::write_nals` (model `Hevc.general`) routes every NAL to exactly one output with its
bytes unchanged and in input order.  `./check C05` ties both models to the real CLI (chunk-size sweep; driver op
`hevc.general`).  The RPU rewrite of the library is the parameter `conv`; the frame labels of hevc_parser are
the field `Item.au` — the theorems hold for every value of both.
-/
namespace Dovi.C05
open Dovi Dovi.Split Dovi.Hevc

/-- any chunking of a stream (full chunks `cs`, then the final short read `l`) yields exactly the Annex-B
split of the whole stream -/
theorem chunked_split_eq_spec (cs : List Bytes) (l : Bytes) :
    Split.run [] cs l = (split (cs.flatten ++ l)).2 := by
  simpa using run_eq_split [] cs l

/-- two chunkings of the same bytes give the same NAL list: the result does not depend on where the read
boundaries fall, on the chunk size, or on NALs being larger than a chunk -/
theorem chunking_irrelevant (cs cs' : List Bytes) (l l' : Bytes)
    (h : cs.flatten ++ l = cs'.flatten ++ l') : Split.run [] cs l = Split.run [] cs' l' := by
  rw [chunked_split_eq_spec, chunked_split_eq_spec, h]

/-- piped stdin: whatever the fragmentation of the pipe writes, the reader accumulates them into some
chunking of the same byte stream, hence the same NAL list as the file -/
theorem stdin_fragmentation_irrelevant (frags : List Bytes) (cs : List Bytes) (l : Bytes)
    (h : cs.flatten ++ l = frags.flatten) : Split.run [] cs l = (split frags.flatten).2 := by
  rw [chunked_split_eq_spec, h]

/-! non-vacuity: a start code straddling a chunk boundary -/
example : Split.run [] [[0x11, 0, 0], [1, 0x22, 0]] [0, 1, 0x33] = [[0x22], [0x33]] := by
  simp [Split.run, stepNonFinal, split, SC]

/-! ## convert -/

/-- **convert, completely**: the (type, bytes) sequence written is the input sequence — minus the EL NALs
with --discard — in which every RPU is replaced by its library rewrite when a mode / edit config is set, and
by nothing else; the command fails iff the library refuses one of them. -/
theorem convert_payloads (c : Cfg) (conv : Bytes → Option Bytes) (items : List Item)
    (hsl : c.sl = true) (hdrop : c.drop = false) :
    (general c conv items).map (fun s => s.sl.map pay) =
      optMap (slSpec c.convSet conv) (items.filter (fun it => ¬ (it.typ = NAL_UNSPEC63 ∧ c.discard = true))) :=
  run_sl_spec c conv {} items hsl hdrop rfl

/-- **No NAL lost, duplicated, reordered or altered** (without --discard): as many NALs out as in, the same
type at every position, NAL `i` of the output is NAL `i` of the input or (an RPU under a mode) its library
rewrite, and the sequences with the RPUs filtered out coincide. -/
theorem convert_conserves (c : Cfg) (conv : Bytes → Option Bytes) (items : List Item) (s : Sinks)
    (hsl : c.sl = true) (hdrop : c.drop = false) (hdis : c.discard = false)
    (h : general c conv items = some s) :
    s.sl.length = items.length ∧
    (s.sl.map pay).map Prod.fst = items.map (·.typ) ∧
    (∀ i (hi : i < items.length), slSpec c.convSet conv items[i] = (s.sl.map pay)[i]?) ∧
    (s.sl.map pay).filter (fun x => x.1 ≠ NAL_UNSPEC62) = (items.map payI).filter (fun x => x.1 ≠ NAL_UNSPEC62) := by
  have hs := convert_payloads c conv items hsl hdrop
  rw [h] at hs
  have e : (items.filter (fun it => ¬ (it.typ = NAL_UNSPEC63 ∧ c.discard = true))) = items := by
    rw [List.filter_eq_self]; intro a _; simp [hdis]
  rw [e] at hs
  simp only [Option.map_some] at hs
  have hs' := hs.symm
  refine ⟨?_, slSpec_types _ _ _ _ hs', fun i hi => optMap_getElem _ _ _ hs' i hi, slSpec_filter _ _ _ _ hs'⟩
  have := optMap_length _ _ _ hs'
  simpa using this

/-- convert fails exactly when a mode / edit config is set and the library refuses an RPU of the stream -/
theorem convert_fails_iff (c : Cfg) (conv : Bytes → Option Bytes) (items : List Item)
    (hsl : c.sl = true) (hdrop : c.drop = false) (hdis : c.discard = false) :
    general c conv items = none ↔
      ∃ it ∈ items, it.typ = NAL_UNSPEC62 ∧ c.convSet = true ∧ conv it.data = none := by
  have hs := convert_payloads c conv items hsl hdrop
  have e : (items.filter (fun it => ¬ (it.typ = NAL_UNSPEC63 ∧ c.discard = true))) = items := by
    rw [List.filter_eq_self]; intro a _; simp [hdis]
  rw [e] at hs
  constructor
  · intro hn
    rw [hn] at hs
    obtain ⟨it, hit, hf⟩ := (optMap_eq_none_iff _ _).mp hs.symm
    refine ⟨it, hit, ?_⟩
    unfold slSpec at hf
    split at hf
    · rename_i hc
      refine ⟨hc.1, hc.2, ?_⟩
      cases hcv : conv it.data with
      | none => rfl
      | some m => simp [hcv] at hf
    · cases hf
  · rintro ⟨it, hit, h62, hcs, hcv⟩
    have : optMap (slSpec c.convSet conv) items = none :=
      (optMap_eq_none_iff _ _).mpr ⟨it, hit, by simp [slSpec, h62, hcs, hcv]⟩
    rw [this] at hs
    cases hg : general c conv items with
    | none => rfl
    | some s => rw [hg] at hs; cases hs

/-- **convert without a mode reproduces the whole NAL sequence**, for every stream and start-code preset -/
theorem convert_without_mode_identity (conv : Bytes → Option Bytes) (items : List Item) (annexb : Bool) :
    (general { cfgConvert with annexb := annexb } conv items).map (fun s => s.sl.map pay) = some (items.map payI) := by
  have := convert_payloads { cfgConvert with annexb := annexb } conv items rfl rfl
  rw [this]
  have e : (List.filter (fun it => decide ¬(it.typ = NAL_UNSPEC63 ∧ ({ cfgConvert with annexb := annexb } : Cfg).discard = true)) items) = items := by
    rw [List.filter_eq_self]; intro a _; simp [cfgConvert]
  rw [e]
  have : slSpec ({ cfgConvert with annexb := annexb } : Cfg).convSet conv = fun it => some (payI it) := by
    funext it; simp [slSpec, cfgConvert]
  rw [this, optMap_some]

/-- **--discard drops only enhancement-layer NALs**: what is written is the input without its UNSPEC63 NALs,
everything else unchanged and in order -/
theorem discard_drops_only_el (conv : Bytes → Option Bytes) (items : List Item) (annexb : Bool) :
    (general { cfgConvert with annexb := annexb, discard := true } conv items).map (fun s => s.sl.map pay) =
      some ((items.filter (fun it => it.typ ≠ NAL_UNSPEC63)).map payI) := by
  have := convert_payloads { cfgConvert with annexb := annexb, discard := true } conv items rfl rfl
  rw [this]
  have e : (List.filter (fun it => decide ¬(it.typ = NAL_UNSPEC63 ∧ ({ cfgConvert with annexb := annexb, discard := true } : Cfg).discard = true)) items)
      = items.filter (fun it => it.typ ≠ NAL_UNSPEC63) := by
    congr 1; funext it; simp
  rw [e]
  have : slSpec ({ cfgConvert with annexb := annexb, discard := true } : Cfg).convSet conv = fun it => some (payI it) := by
    funext it; simp [slSpec, cfgConvert]
  rw [this, optMap_some]

/-! ## demux, remove -/

theorem length_filter_isBl_isEl (items : List Item) :
    (items.filter isBl).length + (items.filter isEl).length = items.length := by
  induction items with
  | nil => rfl
  | cons it rest ih =>
    have hb : isBl it = !isEl it := rfl
    simp only [List.filter_cons, hb]
    cases isEl it <;> simp <;> omega

/-- **demux partitions the stream**: every input NAL lands in exactly one of the two files — the wrapped EL
NALs (without their 2-byte UNSPEC63 header) and the RPUs (rewritten under a mode) in the EL file, everything
else, itself, in the BL file — order preserved within each; for every stream in which the duplicate-RPU rule
does not fire (`NoDupFrom`: implied by at most one RPU per access unit). -/
theorem demux_partition (c : Cfg) (conv : Bytes → Option Bytes) (items : List Item) (s : Sinks)
    (hsl : c.sl = false) (hdrop : c.drop = false) (hrpu : c.rpu = false) (hel : c.el = true) (hbl : c.bl = true)
    (hnd : NoDupFrom 0 (rpuAus items)) (h : general c conv items = some s) :
    s.bl.map pay = (items.filter isBl).map payI ∧
    optMap (elSpec c.convSet conv) (items.filter isEl) = some (s.el.map pay) ∧
    s.bl.length + s.el.length = items.length := by
  have hb := run_bl_spec c conv {} items hsl hdrop hnd
  have he := run_el_spec c conv {} items hsl hdrop hrpu hel hnd
  rw [general] at h
  rw [h] at hb he
  simp only [Option.map_some, hbl, if_true] at hb he
  have hb' : s.bl.map pay = (items.filter isBl).map payI := by
    cases ho : optMap (fun it => rpuConv c.convSet conv it.data) (items.filter isRpu) with
    | none => rw [ho] at hb; cases hb
    | some x => rw [ho] at hb; simpa using hb
  refine ⟨hb', he.symm, ?_⟩
  have l1 : s.bl.length = (items.filter isBl).length := by
    have := congrArg List.length hb'; simpa using this
  have l2 : s.el.length = (items.filter isEl).length := by
    have := optMap_length _ _ _ he.symm; simpa using this
  rw [l1, l2, length_filter_isBl_isEl]

/-- with --el-only the EL file is the same and nothing else is written -/
theorem demux_el_only (conv : Bytes → Option Bytes) (items : List Item) (annexb convSet : Bool)
    (hnd : NoDupFrom 0 (rpuAus items)) :
    (general { cfgDemux true with annexb := annexb, convSet := convSet } conv items).map (fun s => (s.el.map pay, s.bl)) =
      (optMap (elSpec convSet conv) (items.filter isEl)).map (fun e => (e, [])) := by
  have he := run_el_spec { cfgDemux true with annexb := annexb, convSet := convSet } conv {} items rfl rfl rfl rfl hnd
  have hb := run_bl_spec { cfgDemux true with annexb := annexb, convSet := convSet } conv {} items rfl rfl hnd
  rw [general]
  cases hr : run { cfgDemux true with annexb := annexb, convSet := convSet } conv {} items with
  | none => rw [hr] at he; simp at he; rw [← he]; rfl
  | some s =>
    rw [hr] at he hb
    simp only [Option.map_some] at he hb ⊢
    rw [← he]
    simp only [Option.map_some, Option.some.injEq, Prod.mk.injEq, true_and]
    cases ho : optMap (fun it => rpuConv convSet conv it.data) (items.filter isRpu) with
    | none => rw [ho] at hb; cases hb
    | some x =>
      rw [ho] at hb
      simp only [Option.map_some, Option.some.injEq, cfgDemux] at hb
      have : s.bl.map pay = [] := by simpa using hb
      simpa using this

/-- **remove equals the BL half of demux**, start codes included, for every stream and every option -/
theorem remove_is_bl (conv : Bytes → Option Bytes) (items : List Item) (annexb convSet drop : Bool) :
    (general { cfgRemove with annexb := annexb, convSet := convSet, drop := drop } conv items).map (·.bl) =
    (general { cfgDemux false with annexb := annexb, convSet := convSet, drop := drop } conv items).map (·.bl) :=
  run_bl_indep_el { cfgRemove with annexb := annexb, convSet := convSet, drop := drop } false true conv {} items

/-! ## the read schedule below the NAL list -/

/-- The single dependence of convert / demux / remove on the read schedule (found by the correspondence check):
when the first read chunk holds only one start code, the first NAL of the stream is not recognised as such
(`generalFrom true`).  Every output then still holds **the same NALs with the same bytes** — only the length of
that NAL's start code under `--start-code annex-b` can differ (3 instead of 4 bytes when its type is not
AUD / VPS / SPS / PPS / UNSPEC62). -/
theorem late_first_nal_same_bytes (c : Cfg) (conv : Bytes → Option Bytes) (items : List Item) (late : Bool) :
    (generalFrom late c conv items).map payS = (general c conv items).map payS :=
  run_pay_indep c conv _ _ items rfl

/-- … and with the default preset (4-byte start codes everywhere) or a four-sized first NAL, nothing differs:
here for the preset -/
example : (generalFrom true cfgConvert (fun _ => none) [⟨39, [0x4E, 1, 5, 1, 7, 0x80], 0⟩, ⟨19, [0x26, 1, 0xAA], 0⟩]) =
    general cfgConvert (fun _ => none) [⟨39, [0x4E, 1, 5, 1, 7, 0x80], 0⟩, ⟨19, [0x26, 1, 0xAA], 0⟩] := by decide

/-- the difference, when there is one -/
example : ((generalFrom true { cfgConvert with annexb := true } (fun _ => none) [⟨39, [0x4E, 1, 5, 1, 7, 0x80], 0⟩]).map (fun s => s.sl.map (·.sc)),
           (general { cfgConvert with annexb := true } (fun _ => none) [⟨39, [0x4E, 1, 5, 1, 7, 0x80], 0⟩]).map (fun s => s.sl.map (·.sc)))
    = (some [3], some [4]) := by decide

/-! ## non-vacuity: one stream through the three commands -/

def exItems : List Item :=
  [⟨35, [0x46, 1, 0x10], 0⟩, ⟨32, [0x40, 1, 0x0C], 0⟩, ⟨19, [0x26, 1, 0xAA], 0⟩, ⟨63, [0x7E, 1, 0x26, 0x01, 0xAB], 0⟩,
   ⟨62, [0x7C, 1, 0x19, 0xA0], 0⟩, ⟨1, [0x02, 1, 0xBB], 1⟩, ⟨63, [0x7E, 1, 0x02], 1⟩, ⟨62, [0x7C, 1, 0x19, 0xA1], 1⟩,
   ⟨36, [0x48, 1], 1⟩]

/-- a "library" that rewrites the first RPU and refuses the second -/
def exConv : Bytes → Option Bytes := fun d => if d = [0x7C, 1, 0x19, 0xA0] then some [0x7C, 1, 0x19, 0xFF] else none

example : NoDupFrom 0 (rpuAus exItems) := by decide

example : (general (cfgDemux false) exConv exItems).map (fun s => (s.bl.map pay, s.el.map pay)) = some
    ([(35, [0x46, 1, 0x10]), (32, [0x40, 1, 0x0C]), (19, [0x26, 1, 0xAA]), (1, [0x02, 1, 0xBB]), (36, [0x48, 1])],
     [(19, [0x26, 0x01, 0xAB]), (62, [0x7C, 1, 0x19, 0xA0]), (1, [0x02]), (62, [0x7C, 1, 0x19, 0xA1])]) := by decide

/-- with a mode the command fails as soon as the library refuses an RPU … -/
example : general { cfgConvert with convSet := true } exConv exItems = none := by decide
/-- … and otherwise only the RPU payload differs -/
example : (general { cfgConvert with convSet := true } exConv (exItems.take 6)).map (fun s => s.sl.map pay) = some
    [(35, [0x46, 1, 0x10]), (32, [0x40, 1, 0x0C]), (19, [0x26, 1, 0xAA]), (63, [0x7E, 1, 0x26, 0x01, 0xAB]),
     (62, [0x7C, 1, 0x19, 0xFF]), (1, [0x02, 1, 0xBB])] := by decide

/-- start codes of `--start-code annex-b`: 4 bytes for AUD / parameter sets / RPU and the first NAL of a frame -/
example : (general { cfgConvert with annexb := true } exConv exItems).map (fun s => s.sl.map (·.sc)) =
    some [4, 4, 3, 3, 4, 4, 3, 4, 3] := by decide

/-! ## the link between the two layers: bytes ↔ NAL lists -/

/-- what a command writes, as a file: each NAL behind its 3- or 4-byte start code -/
def fileOf (outs : List Hevc.Out) : Bytes :=
  Split.render (outs.map fun o => (o.sc == 4, o.data))

/-- **written output, re-read**: splitting the bytes a command wrote at start codes (the reader's scan followed
by its `size - 1` rule) returns exactly the NAL payloads the NAL-level model says were written, in order — for
every list of written NALs, any mixture of 3- and 4-byte start codes, provided no NAL contains a start code and
none ends in a zero byte (true of every NAL the tool writes: RPUs by `C13.nal_no_start_code` / they end in
`0x80`; video NALs end in their rbsp trailing bits). Together with `chunked_split_eq_spec` (the chunked reader =
this scan, for every chunking) it connects the byte level to the `Item`/`Out` lists the routing theorems speak
about: the NAL list a command reads from a file another command wrote is the list that command wrote. -/
theorem written_output_resplits (outs : List Hevc.Out)
    (hsc : ∀ o ∈ outs, (Split.split o.data).2 = [])
    (hz : ∀ o ∈ outs, o.data.getLast? ≠ some 0) :
    Split.fixAll (Split.split (fileOf outs)).2 = outs.map (·.data) := by
  unfold fileOf
  have h1 : ∀ u ∈ outs.map (fun o => (o.sc == 4, o.data)), (Split.split u.2).2 = [] := by
    intro u hu
    obtain ⟨o, ho, rfl⟩ := List.mem_map.mp hu
    exact hsc o ho
  have h2 : ∀ u ∈ outs.map (fun o => (o.sc == 4, o.data)), u.2.getLast? ≠ some 0 := by
    intro u hu
    obtain ⟨o, ho, rfl⟩ := List.mem_map.mp hu
    exact hz o ho
  rw [Split.split_render _ h1]
  rw [C13.split_written_file_exact _ h1 h2]
  simp [List.map_map, Function.comp_def]

/-- … and the number of NAL units read back is the number written (nothing split or merged), even when
payloads end in zero bytes -/
theorem written_output_count (outs : List Hevc.Out) (hsc : ∀ o ∈ outs, (Split.split o.data).2 = []) :
    (Split.split (fileOf outs)).2.length = outs.length := by
  unfold fileOf
  have h1 : ∀ u ∈ outs.map (fun o => (o.sc == 4, o.data)), (Split.split u.2).2 = [] := by
    intro u hu
    obtain ⟨o, ho, rfl⟩ := List.mem_map.mp hu
    exact hsc o ho
  rw [C13.split_written_file_count _ h1]
  simp

example : Split.fixAll (Split.split (fileOf [⟨4, 32, [0x40, 1, 0x0C]⟩, ⟨3, 1, [0x02, 1, 0xD0, 0x80]⟩, ⟨4, 62, [0x7C, 1, 0x19, 8, 0x80]⟩])).2
    = [[0x40, 1, 0x0C], [0x02, 1, 0xD0, 0x80], [0x7C, 1, 0x19, 8, 0x80]] := by
  simp [fileOf, Split.render, Split.lead, Split.SC, Split.split, Split.fixAll, Split.fixTrail]

end Dovi.C05
