import DoviModel.Model.Av1
import DoviModel.Proofs.Bits
import DoviModel.Proofs.Av1Proof
import DoviModel.Props.C03
import DoviModel.Gen.SourceRules
/-!
# C15 — AV1 ITU-T T.35 wrapping round-trips every RPU of every size
-/
namespace Dovi.C15
open Dovi Dovi.Av1

theorem wcat_ok_cons {b : Bits} {ws : List (Res Bits)} : wcat (.ok b :: ws) = (wcat ws).bind fun r => .ok (b ++ r) := rfl

/-- every value up to the largest two-group value `2^n·2^n + 2^n − 1` (that fits the `u32` accumulator) is
written without error and read back exactly, with any following bits left untouched — in particular the
boundary `v = 2^n` between the one- and two-group forms -/
theorem variable_bits_roundtrip (n v fuel : Nat) (r : Bits)
    (hv : v ≤ 2^n * 2^n + 2^n - 1) (h32 : v < 2^32) (hf : 2 ≤ fuel) :
    ∃ w, writeVB n v = .ok w ∧ parseVB n fuel 0 (w ++ r) = .ok (v, r) := by
  have hp : 0 < 2^n := Nat.two_pow_pos n
  obtain ⟨f1, rfl⟩ : ∃ f1, fuel = f1 + 2 := ⟨fuel - 2, by omega⟩
  by_cases hge : v ≥ 2^n
  · -- two groups
    have hq1 : 1 ≤ v / 2^n := (Nat.le_div_iff_mul_le hp).mpr (by omega)
    have hq2 : v / 2^n - 1 < 2^n := by
      have : v / 2^n < 2^n + 1 := by
        apply (Nat.div_lt_iff_lt_mul hp).mpr
        have : (2^n + 1) * 2^n = 2^n * 2^n + 2^n := by rw [Nat.add_mul]; omega
        omega
      omega
    have hm : v % 2^n < 2^n := Nat.mod_lt _ hp
    have hdm := Nat.div_add_mod v (2^n)
    refine ⟨toBits n (v / 2^n - 1) ++ ([true] ++ (toBits n (v % 2^n) ++ ([false] ++ []))), ?_, ?_⟩
    · simp [writeVB, hge, writeN, hq2, hm, wcat, Res.bind]
    · have hmul : (v / 2^n - 1 + 1) * 2^n = v - v % 2^n := by
        rw [Nat.sub_add_cancel hq1, Nat.mul_comm]; omega
      have e1 : (toBits n (v / 2^n - 1) ++ ([true] ++ (toBits n (v % 2^n) ++ ([false] ++ [])))) ++ r =
          toBits n (v / 2^n - 1) ++ (true :: (toBits n (v % 2^n) ++ (false :: r))) := by simp
      rw [e1]
      simp only [parseVB]
      rw [P.bind_of_ok (readN_toBits n _ _ hq2)]
      have c1 : decide (0 + (v / 2^n - 1) < 2^32) = true := by simp; omega
      simp only [c1]
      rw [P.bind_of_ok (P.ensure_true _)]
      rw [P.bind_of_ok (readBit_cons true _)]
      simp only [Bool.not_true, Bool.false_eq_true, if_false]
      have c2 : (decide (0 + (v / 2^n - 1) + 1 < 2^32) && decide ((0 + (v / 2^n - 1) + 1) * 2^n < 2^32)) = true := by
        simp only [Nat.zero_add, hmul, Bool.and_eq_true, decide_eq_true_eq]
        omega
      simp only [c2]
      rw [P.bind_of_ok (P.ensure_true _)]
      rw [P.bind_of_ok (readN_toBits n _ _ hm)]
      have c3 : decide ((0 + (v / 2^n - 1) + 1) * 2^n + v % 2^n < 2^32) = true := by
        simp only [Nat.zero_add, hmul, decide_eq_true_eq]; omega
      simp only [c3]
      rw [P.bind_of_ok (P.ensure_true _)]
      rw [P.bind_of_ok (readBit_cons false _)]
      simp only [Bool.not_false, if_true, Nat.zero_add, hmul]
      have := Nat.mod_le v (2^n)
      show Res.ok (v - v % 2^n + v % 2^n, r) = _
      congr 2; omega
  · -- one group
    have hlt : v < 2^n := by omega
    refine ⟨toBits n v ++ ([false] ++ []), ?_, ?_⟩
    · simp [writeVB, hge, writeN, hlt, wcat, Res.bind]
    · have e1 : (toBits n v ++ ([false] ++ [])) ++ r = toBits n v ++ (false :: r) := by simp
      rw [e1]
      simp only [parseVB]
      rw [P.bind_of_ok (readN_toBits n _ _ hlt)]
      have c1 : decide (0 + v < 2^32) = true := by simp; omega
      simp only [c1]
      rw [P.bind_of_ok (P.ensure_true _)]
      rw [P.bind_of_ok (readBit_cons false _)]
      simp only [Bool.not_false, if_true, Nat.zero_add]
      rfl

/-- the 8-bit size field: every payload size up to 65791 -/
theorem size_field_roundtrip (size fuel : Nat) (r : Bits) (h : size ≤ 65791) (hf : 2 ≤ fuel) :
    ∃ w, writeVB 8 size = .ok w ∧ parseVB 8 fuel 0 (w ++ r) = .ok (size, r) :=
  variable_bits_roundtrip 8 size fuel r (by omega) (by omega) hf

/-- the boundary the unrepaired code rejected: a 256-byte payload -/
example : ∃ w, writeVB 8 256 = .ok w := ⟨_, rfl⟩
example : (writeVB 8 256).isOk = true := by decide

/-- the fixed T.35 / EMDF header: provider code 0x3B, oriented code 0x800, EMDF version 0, key 6,
payload id 31, id extension 225, flags — i.e. the nine header bytes and the three bits `001` -/
theorem emdf_prefix_bits :
    wcat [writeN 16 0x3B, writeN 32 0x800, writeEmdfHeader] =
      .ok (bytesToBits headerBytes ++ [false, false, true]) := by decide

/-! ## the whole wrapper: `convert_regular_rpu_to_av1_payload` then `convert_av1_rpu_payload_to_regular`

Sizes. `p` below is the EMDF payload: the RPU bytes without the `0x19` prefix and without the trailing zero
bytes, so `p.length = data.length - trailingZeroes data - 1`. The size field is `variable_bits(8)`; the writer
emits at most two groups, whose largest value is `256·256 + 255 = 65791`:

* `p.length ≤ 65791`  — written (`wrap_never_fails`), 13 bytes of overhead below 256 and 14 from 256 on;
* `p.length ≥ 65792`  — rejected with an error, never a panic (`wrap_rejects_larger`; first group value 256 does
  not fit 8 bits: "excessive value for bits written");
* reading back needs the T.35 payload to be at least 34 bytes (`av1_validated_trimmed_data`), i.e.
  `p.length ≥ 21` without and `p.length ≥ 20` with the `0xB5` country code; below that the written payload is
  refused by the reader (`short_payload_not_read_back`) — no RPU is that short (the property's minimum is 24). -/

open Dovi.Av1Proof

/-- the bytes of `data` up to its trailing zero padding (what the wrapper keeps) -/
abbrev rpuBytes (data : Bytes) : Bytes := data.take (data.length - trailingZeroes data)

/-- **payload level, every size 21 … 65791** (1-group form below 256, 2-group form from 256, the carry at
256 = `0x00 1 0x00 0` and the maximum 65791 = `0xFF 1 0xFF 0` included): `wrapPayload` succeeds, and reading
the result back — with or without the `0xB5` country code in front — gives the payload with the `0x19` prefix
re-added, byte for byte. -/
theorem payload_roundtrip (p : Bytes) (hlo : 21 ≤ p.length) (hhi : p.length ≤ 65791) :
    ∃ o, wrapPayload p = .ok o ∧ unwrap o = .ok (0x19 :: p) ∧ unwrap (0xB5 :: o) = .ok (0x19 :: p) := by
  obtain ⟨o, hw, _, _, h1, h2⟩ := wrapPayload_roundtrip p hhi
  exact ⟨o, hw, h1 hlo, h2 (by omega)⟩

example : ∃ p : Bytes, 21 ≤ p.length ∧ p.length ≤ 65791 := ⟨List.replicate 256 7, by rw [List.length_replicate]; omega⟩

/-- **C15, round trip.** For every buffer that starts with `0x19` and ends — before any trailing zero bytes —
with `0x80`, whose length without the zero padding is 22 … 65792 (payload 21 … 65791), the wrapper succeeds and
unwrapping its output returns the buffer without the trailing zero bytes, byte for byte. -/
theorem av1_roundtrip (data : Bytes) (h19 : data.head? = some 0x19)
    (hlast : (rpuBytes data).getLast? = some 0x80)
    (hlo : 22 ≤ data.length - trailingZeroes data) (hhi : data.length - trailingZeroes data ≤ 65792) :
    ∃ o, wrap data = .ok o ∧ unwrap o = .ok (rpuBytes data) := by
  have hpl := payload_length data
  obtain ⟨o, hw, hu, _⟩ := payload_roundtrip ((rpuBytes data).drop 1)
    (by simp only [rpuBytes, rpuEnd] at hpl ⊢; omega) (by simp only [rpuBytes, rpuEnd] at hpl ⊢; omega)
  refine ⟨o, ?_, ?_⟩
  · rw [wrap_eq h19 hlast]; exact hw
  · rw [hu, cons_drop_take h19 (by simp only [rpuEnd]; omega)]

/-- the same through `write_av1_rpu_metadata_obu_t35_complete`: the output starts with the `0xB5` country code
and is read back to the same bytes (one byte shorter inputs are still read back: 21 instead of 22) -/
theorem av1_roundtrip_complete (data : Bytes) (h19 : data.head? = some 0x19)
    (hlast : (rpuBytes data).getLast? = some 0x80)
    (hlo : 21 ≤ data.length - trailingZeroes data) (hhi : data.length - trailingZeroes data ≤ 65792) :
    ∃ o, wrapComplete data = .ok o ∧ o.head? = some 0xB5 ∧ unwrap o = .ok (rpuBytes data) := by
  have hpl := payload_length data
  obtain ⟨o, hw, _, _, _, hu⟩ := wrapPayload_roundtrip ((rpuBytes data).drop 1)
    (by simp only [rpuBytes, rpuEnd] at hpl ⊢; omega)
  refine ⟨0xB5 :: o, ?_, rfl, ?_⟩
  · unfold wrapComplete
    rw [wrap_eq h19 hlast]
    show (wrapPayload ((rpuBytes data).drop 1)).bind _ = _
    rw [hw]; rfl
  · rw [hu (by simp only [rpuBytes, rpuEnd] at hpl ⊢; omega),
      cons_drop_take h19 (by simp only [rpuEnd]; omega)]

/-- the explicit form: prefix, `q`, terminator, `z` zero bytes ↦ prefix, `q`, terminator -/
theorem av1_roundtrip_explicit (q : Bytes) (z : Nat) (hlo : 20 ≤ q.length) (hhi : q.length ≤ 65790) :
    ∃ o, wrap (0x19 :: q ++ [0x80] ++ List.replicate z 0) = .ok o ∧ unwrap o = .ok (0x19 :: q ++ [0x80]) ∧
      unwrap (0xB5 :: o) = .ok (0x19 :: q ++ [0x80]) := by
  have htz : trailingZeroes (0x19 :: q ++ [0x80] ++ List.replicate z 0) = z := trailingZeroes_tail (0x19 :: q) z
  have hlen : (0x19 :: q ++ [0x80] ++ List.replicate z 0).length = q.length + 2 + z := by simp; omega
  have hrb : rpuBytes (0x19 :: q ++ [0x80] ++ List.replicate z 0) = 0x19 :: q ++ [0x80] := by
    unfold rpuBytes
    rw [htz, hlen, Nat.add_sub_cancel]
    exact List.take_left' (by simp)
  have h19 : (0x19 :: q ++ [0x80] ++ List.replicate z 0).head? = some 0x19 := rfl
  have hlast : (rpuBytes (0x19 :: q ++ [0x80] ++ List.replicate z 0)).getLast? = some 0x80 := by
    rw [hrb]; exact List.getLast?_eq_some_iff.mpr ⟨0x19 :: q, rfl⟩
  obtain ⟨o, hw, hu⟩ := av1_roundtrip _ h19 hlast (by rw [htz, hlen]; omega) (by rw [htz, hlen]; omega)
  obtain ⟨o', hw', _, hu'⟩ := av1_roundtrip_complete _ h19 hlast (by rw [htz, hlen]; omega) (by rw [htz, hlen]; omega)
  unfold wrapComplete at hw'
  rw [hw] at hw'
  cases hw'
  rw [hrb] at hu hu'
  exact ⟨o, hw, hu, hu'⟩

/-- non-vacuity: a 258-byte RPU-shaped buffer (payload of exactly 256 bytes, the size the unrepaired code could
not encode) with three trailing zero bytes -/
example : ∃ o, wrap (0x19 :: List.replicate 255 7 ++ [0x80] ++ List.replicate 3 0) = .ok o ∧
    unwrap o = .ok (0x19 :: List.replicate 255 7 ++ [0x80]) :=
  let ⟨o, h1, h2, _⟩ := av1_roundtrip_explicit (List.replicate 255 7) 3
    (by rw [List.length_replicate]; omega) (by rw [List.length_replicate]; omega)
  ⟨o, h1, h2⟩

/-- **C15, encoding never fails** (no "excessive value for bits written") for any `0x19 … 0x80 00*` buffer of up
to 65792 bytes before the zero padding — no lower bound on the size -/
theorem wrap_never_fails (data : Bytes) (h19 : data.head? = some 0x19)
    (hlast : (rpuBytes data).getLast? = some 0x80) (hhi : data.length - trailingZeroes data ≤ 65792) :
    ∃ o, wrap data = .ok o ∧ o.length = data.length - trailingZeroes data - 1 +
      (if data.length - trailingZeroes data - 1 ≥ 256 then 14 else 13) := by
  have hpl := payload_length data
  obtain ⟨o, hw, hl, _⟩ := wrapPayload_roundtrip ((rpuBytes data).drop 1)
    (by simp only [rpuBytes, rpuEnd] at hpl ⊢; omega)
  refine ⟨o, ?_, ?_⟩
  · rw [wrap_eq h19 hlast]; exact hw
  · simp only [rpuBytes, rpuEnd] at hpl hl
    rw [hl, hpl]

/-- … and the first size beyond the bound (payload 65792 = `0x100 1 0x00 0`: the first group does not fit
8 bits) and every larger one is rejected with an error — not a panic, and not a wrong size field -/
theorem wrap_rejects_larger (data : Bytes) (h19 : data.head? = some 0x19)
    (hlast : (rpuBytes data).getLast? = some 0x80) (hbig : 65793 ≤ data.length - trailingZeroes data) :
    wrap data = .error := by
  have hpl := payload_length data
  rw [wrap_eq h19 hlast]
  exact wrapPayload_too_big _ (by simp only [rpuEnd] at hpl ⊢; omega)

example : writeVB 8 65791 = .ok (toBits 8 255 ++ [true] ++ toBits 8 255 ++ [false]) := by decide
example : writeVB 8 65792 = .error := by decide

/-- **C15, fixed header** — for every input on which the wrapper succeeds (whatever its size or content) the
output starts with the nine T.35/EMDF header bytes; with the country code, `0xB5` and then those nine -/
theorem av1_header_fixed (data o : Bytes) (h : wrap data = .ok o) : o.take 9 = headerBytes := by
  obtain ⟨_, _, hw⟩ := (wrap_ok_iff data o).mp h
  obtain ⟨vb, _, rfl⟩ := (wrapPayload_ok_iff _ o).mp hw
  rw [outBytes_header]
  exact List.take_left' rfl

theorem av1_header_fixed_complete (data o : Bytes) (h : wrapComplete data = .ok o) :
    o.take 10 = 0xB5 :: headerBytes := by
  unfold wrapComplete at h
  cases hw : wrap data with
  | ok o' =>
    rw [hw] at h
    cases h
    have := av1_header_fixed data o' hw
    rw [show (10 : Nat) = 9 + 1 from rfl, List.take_succ_cons, this]
  | error => rw [hw] at h; cases h
  | panic => rw [hw] at h; cases h

/-- the declared payload size as the reader sees it: provider code, provider-oriented code, EMDF container
header, `emdf_payload_size` -/
def declaredSize : P Nat := do
  let _ ← readN 16
  let _ ← readN 32
  parseEmdf

/-- **C15, exact size and layout** — for every input on which the wrapper succeeds: the output is
`payload + 13` bytes (`+ 14` from 256 on); its bits are the nine header bytes, `001`, the size field, the
payload bytes, the 17 trailer bits and fewer than 8 one-bits of padding; and the size the reader decodes from it
is exactly the number of payload bytes, with the reader then positioned at the payload. -/
theorem av1_size_exact (data o : Bytes) (h : wrap data = .ok o) :
    ∃ vb pad, writeVB 8 ((rpuBytes data).drop 1).length = .ok vb ∧
      ((rpuBytes data).drop 1).length = data.length - trailingZeroes data - 1 ∧
      pad.length < 8 ∧ pad.all (· == true) = true ∧
      bytesToBits o = bytesToBits headerBytes ++ [false, false, true] ++ vb ++
        bytesToBits ((rpuBytes data).drop 1) ++ tailBits ++ pad ∧
      declaredSize (bytesToBits o) =
        .ok (data.length - trailingZeroes data - 1, bytesToBits ((rpuBytes data).drop 1) ++ (tailBits ++ pad)) ∧
      o.length = data.length - trailingZeroes data - 1 +
        (if data.length - trailingZeroes data - 1 ≥ 256 then 14 else 13) := by
  obtain ⟨_, _, hw⟩ := (wrap_ok_iff data o).mp h
  obtain ⟨vb, hvb, rfl⟩ := (wrapPayload_ok_iff _ o).mp hw
  have hpl := payload_length data
  simp only [rpuEnd] at hpl hvb
  obtain ⟨_, hrd⟩ := writeVB8_ok hvb
  have hl1 : 1 ≤ vb.length := by
    have := writeVB_length hvb
    split at this <;> omega
  refine ⟨vb, padOnes (body vb ((rpuBytes data).drop 1)).length, hvb, hpl, ?_, ?_, ?_, ?_, ?_⟩
  · rw [padOnes_length]; omega
  · simp [padOnes]
  · rw [outBytes_bits hvb]
    simp only [body, preBits, List.append_assoc]
  · rw [outBytes_bits hvb]
    have e : body vb ((rpuBytes data).drop 1) ++ padOnes (body vb ((rpuBytes data).drop 1)).length =
        preBits ++ (vb ++ (bytesToBits ((rpuBytes data).drop 1) ++
          (tailBits ++ padOnes (body vb ((rpuBytes data).drop 1)).length))) := by
      simp only [body, List.append_assoc]
    rw [e, preBits_split, ← hpl]
    unfold declaredSize
    rw [P.bind_of_ok (readN_toBits 16 0x3B _ (by decide))]
    rw [P.bind_of_ok (readN_toBits 32 0x800 _ (by decide))]
    exact parseEmdf_written _ hl1 hrd
  · rw [outBytes_length hvb, hpl]

/-- non-vacuity of the two "whenever the wrapper succeeds" theorems -/
example : (wrap (0x19 :: List.replicate 30 7 ++ [0x80, 0, 0])).isOk = true := by decide

/-- the lower end: a 21-byte buffer (payload 20) is wrapped, but the 33-byte result is below the reader's
34-byte minimum and is refused; with the country code it is 34 bytes and is read back -/
theorem short_payload_not_read_back :
    ∃ o, wrap (0x19 :: List.replicate 19 7 ++ [0x80]) = .ok o ∧ o.length = 33 ∧ unwrap o = .error ∧
      unwrap (0xB5 :: o) = .ok (0x19 :: List.replicate 19 7 ++ [0x80]) := by
  obtain ⟨o, hw, _, hu⟩ := av1_roundtrip_complete (0x19 :: List.replicate 19 7 ++ [0x80])
    (by decide) (by decide) (by decide) (by decide)
  unfold wrapComplete at hw
  cases hw' : wrap (0x19 :: List.replicate 19 7 ++ [0x80]) with
  | ok o' =>
    rw [hw'] at hw
    cases hw
    obtain ⟨o2, hw2, hl2⟩ := wrap_never_fails (0x19 :: List.replicate 19 7 ++ [0x80]) (by decide) (by decide) (by decide)
    rw [hw'] at hw2
    cases hw2
    have hl : o'.length = 33 := by rw [hl2]; decide
    refine ⟨o', rfl, hl, ?_, ?_⟩
    · unfold unwrap trim
      simp [hl, Res.bind]
    · rw [hu]; decide
  | error => rw [hw'] at hw; cases hw
  | panic => rw [hw'] at hw; cases hw

/-! ## composition with the RPU parser -/

/-- **C15, the RPU comes back.** Every buffer `DoviRpu::parse` accepts, of 22 … 65792 bytes before its zero
padding, is wrapped without error, and `DoviRpu::parse_itu_t35_dovi_metadata_obu` of the result — with or
without the country code — is the same RPU (every field, the stored CRC included) with `trailing_zeroes = 0`. -/
theorem obu_roundtrip (data : Bytes) (r : Rpu) (hp : parseRpu data = .ok r)
    (hlo : 22 ≤ data.length - trailingZeroes data) (hhi : data.length - trailingZeroes data ≤ 65792) :
    ∃ o, wrap data = .ok o ∧ wrapComplete data = .ok (0xB5 :: o) ∧
      parseObu o = .ok { r with trailing_zeroes := 0 } ∧
      parseObu (0xB5 :: o) = .ok { r with trailing_zeroes := 0 } := by
  obtain ⟨h19, hlast, _⟩ := parseRpu_ok_shape hp
  obtain ⟨o, hw, hu⟩ := av1_roundtrip data h19 hlast hlo hhi
  obtain ⟨o', hw', _, hu'⟩ := av1_roundtrip_complete data h19 hlast (by omega) hhi
  have hc : wrapComplete data = .ok (0xB5 :: o) := by unfold wrapComplete; rw [hw]; rfl
  rw [hc] at hw'
  cases hw'
  have hpr : parseRpu (rpuBytes data) = .ok { r with trailing_zeroes := 0 } := by
    rw [parseRpu_take data hlast, hp]; rfl
  refine ⟨o, hw, hc, ?_, ?_⟩
  · unfold parseObu; rw [hu]; exact hpr
  · unfold parseObu; rw [hu']; exact hpr

/-- the general statement behind it: the OBU parser on the wrapped bytes is the RPU parser on the bytes without
their zero padding — for any `0x19 … 0x80 00*` buffer in the size range, valid RPU or not (errors and panics of
the RPU parser are reproduced too) -/
theorem obu_parse_eq (data : Bytes) (h19 : data.head? = some 0x19)
    (hlast : (rpuBytes data).getLast? = some 0x80)
    (hlo : 22 ≤ data.length - trailingZeroes data) (hhi : data.length - trailingZeroes data ≤ 65792) :
    ∃ o, wrap data = .ok o ∧ parseObu o = parseRpu (rpuBytes data) ∧
      parseRpu (rpuBytes data) = (parseRpu data).bind fun r => .ok { r with trailing_zeroes := 0 } := by
  obtain ⟨o, hw, hu⟩ := av1_roundtrip data h19 hlast hlo hhi
  refine ⟨o, hw, ?_, parseRpu_take data hlast⟩
  unfold parseObu; rw [hu]; rfl

/-- from the in-memory side: what `write_rpu_data` emits for an RPU of the parser's shape, wrapped and parsed
back as an OBU, is that RPU (with the recomputed CRC — the stored one when unmodified —, `modified` cleared and
no trailing zero bytes) -/
theorem obu_roundtrip_written (r : Rpu) (bytes : Bytes) (hw : writeRpu r = .ok bytes) (hwf : RpuWf r)
    (hlo : 22 ≤ bytes.length - trailingZeroes bytes) (hhi : bytes.length - trailingZeroes bytes ≤ 65792) :
    ∃ o crc, wrap bytes = .ok o ∧
      parseObu o = .ok { r with rpu_data_crc32 := crc, modified := false, trailing_zeroes := 0 } ∧
      (r.modified = false → crc = r.rpu_data_crc32) := by
  obtain ⟨crc, hp, hcrc⟩ := parseRpu_writeRpu r bytes hw hwf
  obtain ⟨o, hwr, _, hpo, _⟩ := obu_roundtrip bytes _ hp hlo hhi
  exact ⟨o, crc, hwr, hpo, hcrc⟩

set_option maxRecDepth 8000 in
/-- non-vacuity: the generator's profile 8.1 RPU (`C03.exRpu`, which meets `RpuWf` and is written) has a size in
the range, so it is wrapped and parsed back from the OBU -/
example : ∃ bytes o crc, writeRpu C03.exRpu = .ok bytes ∧ wrap bytes = .ok o ∧
    parseObu o = .ok { C03.exRpu with rpu_data_crc32 := crc, modified := false, trailing_zeroes := 0 } := by
  have hsz : (match writeRpu C03.exRpu with
    | .ok bytes => decide (22 ≤ bytes.length - trailingZeroes bytes ∧ bytes.length - trailingZeroes bytes ≤ 65792)
    | _ => false) = true := by decide
  cases hw : writeRpu C03.exRpu with
  | ok bytes =>
    rw [hw] at hsz
    have hsz' := of_decide_eq_true hsz
    obtain ⟨o, crc, h1, h2, _⟩ := obu_roundtrip_written _ _ hw C03.exRpu_wf.1 hsz'.1 hsz'.2
    exact ⟨bytes, o, crc, rfl, h1, h2⟩
  | error => rw [hw] at hsz; cases hsz
  | panic => rw [hw] at hsz; cases hsz


/-- **source tie**: `ITU_T35_DOVI_RPU_PAYLOAD_HEADER` of av1/mod.rs as it stands in the source now is the header the
model checks and emits -/
theorem source_t35_header_agrees : Src.ituT35Header = Av1.headerBytes.map (·.toNat) := by decide

end Dovi.C15
