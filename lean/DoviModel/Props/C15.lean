import DoviModel.Model.Av1
import DoviModel.Proofs.Bits
/-!
# C15 — AV1 ITU-T T.35 wrapping round-trips every RPU of every size
-/
namespace Dovi.C15
open Dovi Dovi.Av1

theorem wcat_ok_cons {b : Bits} {ws : List (Res Bits)} : wcat (.ok b :: ws) = (wcat ws).bind fun r => .ok (b ++ r) := rfl

/-- every value up to the largest two-group value `2^n·2^n + 2^n − 1` (that fits the `u32` accumulator) is
written without error and read back exactly, with any following bits left untouched — in particular the
boundary `v = 2^n` between the one- and two-group forms -/
theorem variable_bits_roundtrip (n v fuel : Nat) (r : Bits)
    (hv : v ≤ 2^n * 2^n + 2^n - 1) (h32 : v < 2^32) (hf : 2 ≤ fuel) :
    ∃ w, writeVB n v = .ok w ∧ parseVB n fuel 0 (w ++ r) = .ok (v, r) := by
  have hp : 0 < 2^n := Nat.two_pow_pos n
  obtain ⟨f1, rfl⟩ : ∃ f1, fuel = f1 + 2 := ⟨fuel - 2, by omega⟩
  by_cases hge : v ≥ 2^n
  · -- two groups
    have hq1 : 1 ≤ v / 2^n := (Nat.le_div_iff_mul_le hp).mpr (by omega)
    have hq2 : v / 2^n - 1 < 2^n := by
      have : v / 2^n < 2^n + 1 := by
        apply (Nat.div_lt_iff_lt_mul hp).mpr
        have : (2^n + 1) * 2^n = 2^n * 2^n + 2^n := by rw [Nat.add_mul]; omega
        omega
      omega
    have hm : v % 2^n < 2^n := Nat.mod_lt _ hp
    have hdm := Nat.div_add_mod v (2^n)
    refine ⟨toBits n (v / 2^n - 1) ++ ([true] ++ (toBits n (v % 2^n) ++ ([false] ++ []))), ?_, ?_⟩
    · simp [writeVB, hge, writeN, hq2, hm, wcat, Res.bind]
    · have hmul : (v / 2^n - 1 + 1) * 2^n = v - v % 2^n := by
        rw [Nat.sub_add_cancel hq1, Nat.mul_comm]; omega
      have e1 : (toBits n (v / 2^n - 1) ++ ([true] ++ (toBits n (v % 2^n) ++ ([false] ++ [])))) ++ r =
          toBits n (v / 2^n - 1) ++ (true :: (toBits n (v % 2^n) ++ (false :: r))) := by simp
      rw [e1]
      simp only [parseVB]
      rw [P.bind_of_ok (readN_toBits n _ _ hq2)]
      have c1 : decide (0 + (v / 2^n - 1) < 2^32) = true := by simp; omega
      simp only [c1]
      rw [P.bind_of_ok (P.ensure_true _)]
      rw [P.bind_of_ok (readBit_cons true _)]
      simp only [Bool.not_true, Bool.false_eq_true, if_false]
      have c2 : (decide (0 + (v / 2^n - 1) + 1 < 2^32) && decide ((0 + (v / 2^n - 1) + 1) * 2^n < 2^32)) = true := by
        simp only [Nat.zero_add, hmul, Bool.and_eq_true, decide_eq_true_eq]
        omega
      simp only [c2]
      rw [P.bind_of_ok (P.ensure_true _)]
      rw [P.bind_of_ok (readN_toBits n _ _ hm)]
      have c3 : decide ((0 + (v / 2^n - 1) + 1) * 2^n + v % 2^n < 2^32) = true := by
        simp only [Nat.zero_add, hmul, decide_eq_true_eq]; omega
      simp only [c3]
      rw [P.bind_of_ok (P.ensure_true _)]
      rw [P.bind_of_ok (readBit_cons false _)]
      simp only [Bool.not_false, if_true, Nat.zero_add, hmul]
      have := Nat.mod_le v (2^n)
      show Res.ok (v - v % 2^n + v % 2^n, r) = _
      congr 2; omega
  · -- one group
    have hlt : v < 2^n := by omega
    refine ⟨toBits n v ++ ([false] ++ []), ?_, ?_⟩
    · simp [writeVB, hge, writeN, hlt, wcat, Res.bind]
    · have e1 : (toBits n v ++ ([false] ++ [])) ++ r = toBits n v ++ (false :: r) := by simp
      rw [e1]
      simp only [parseVB]
      rw [P.bind_of_ok (readN_toBits n _ _ hlt)]
      have c1 : decide (0 + v < 2^32) = true := by simp; omega
      simp only [c1]
      rw [P.bind_of_ok (P.ensure_true _)]
      rw [P.bind_of_ok (readBit_cons false _)]
      simp only [Bool.not_false, if_true, Nat.zero_add]
      rfl

/-- the 8-bit size field: every payload size up to 65791 -/
theorem size_field_roundtrip (size fuel : Nat) (r : Bits) (h : size ≤ 65791) (hf : 2 ≤ fuel) :
    ∃ w, writeVB 8 size = .ok w ∧ parseVB 8 fuel 0 (w ++ r) = .ok (size, r) :=
  variable_bits_roundtrip 8 size fuel r (by omega) (by omega) hf

/-- the boundary the unrepaired code rejected: a 256-byte payload -/
example : ∃ w, writeVB 8 256 = .ok w := ⟨_, rfl⟩
example : (writeVB 8 256).isOk = true := by decide

/-- the fixed T.35 / EMDF header: provider code 0x3B, oriented code 0x800, EMDF version 0, key 6,
payload id 31, id extension 225, flags — i.e. the nine header bytes and the three bits `001` -/
theorem emdf_prefix_bits :
    wcat [writeN 16 0x3B, writeN 32 0x800, writeEmdfHeader] =
      .ok (bytesToBits headerBytes ++ [false, false, true]) := by decide

end Dovi.C15
