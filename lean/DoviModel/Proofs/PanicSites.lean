import DoviModel.Proofs.NoPanic
import DoviModel.Proofs.NoPanic2
/-!
# Positional no-panic tower: the parsers panic only INSIDE an exp-Golomb read, at some position of the input

`Proofs/NoPanic.lean` proves the absence of panics under the global hypothesis `Good s` (no run of 63 zero bits
anywhere in the input), which ordinary RPUs do not satisfy (`signal_eotf_param0/1/2 = 0` is a run of 64 zero
bits). Here the statement is positional and holds for EVERY input: `PU p` says that whenever `p` panics, one of
the two third-party exp-Golomb readers panics on some suffix of the input (the position the parser had reached),
and that `p` hands on a suffix of its input. The two sites are then characterised exactly on the bit level.
-/
namespace Dovi.PanicSites
open Dovi

/-- an exp-Golomb read panics at this position -/
def UePanic (t : Bits) : Prop := readUe t = .panic ∨ readSe t = .panic

/-- a parser panics only by panicking in an exp-Golomb read at some position of its input, and hands on a suffix
of its input -/
structure PU {α} (p : P α) : Prop where
  panic : ∀ s, p s = .panic → ∃ t, t <:+ s ∧ UePanic t
  suffix : ∀ s a s', p s = .ok (a, s') → s' <:+ s

namespace PU

/-- a parser that never panics and hands on a suffix -/
theorem of_never {α} {p : P α} (hn : ∀ s, p s ≠ .panic) (hs : ∀ s a s', p s = .ok (a, s') → s' <:+ s) :
    PU p :=
  ⟨fun s h => absurd h (hn s), hs⟩

theorem pure {α} (a : α) : PU (Pure.pure a : P α) := by
  refine of_never (fun s => by simp [Pure.pure, P.pure]) ?_
  intro s a' s' h
  simp [Pure.pure, P.pure] at h
  obtain ⟨_, rfl⟩ := h
  exact List.suffix_refl _

theorem fail {α} : PU (P.fail : P α) := by
  refine of_never (fun s => by simp [P.fail]) ?_
  intro s a s' h; simp [P.fail] at h

theorem ensure (c : Bool) : PU (P.ensure c) := by
  refine of_never (fun s => ?_) ?_
  · unfold P.ensure; split <;> simp
  · intro s a s' h
    unfold P.ensure at h
    split at h
    · simp at h; obtain ⟨_, rfl⟩ := h; exact List.suffix_refl _
    · simp at h

theorem available : PU P.available := by
  refine of_never (fun s => by simp [P.available]) ?_
  intro s a s' h; simp [P.available] at h; obtain ⟨_, rfl⟩ := h; exact List.suffix_refl _

theorem bind {α β} {x : P α} {f : α → P β} (hx : PU x) (hf : ∀ a, PU (f a)) : PU (x >>= f) := by
  constructor
  · intro s h
    rw [P.bind_apply] at h
    cases hxs : x s with
    | ok p =>
      obtain ⟨a, s1⟩ := p
      rw [hxs] at h
      obtain ⟨t, ht, hu⟩ := (hf a).panic s1 h
      exact ⟨t, ht.trans (hx.suffix s a s1 hxs), hu⟩
    | error => rw [hxs] at h; simp at h
    | panic => exact hx.panic s hxs
  · intro s b s' h
    obtain ⟨a, s1, h1, h2⟩ := P.bind_eq_ok.mp h
    exact ((hf a).suffix s1 b s' h2).trans (hx.suffix s a s1 h1)

theorem readN (n : Nat) : PU (readN n) := by
  refine of_never (fun s => ?_) ?_
  · unfold Dovi.readN; split <;> simp
  · intro s a s' h
    unfold Dovi.readN at h
    split at h
    · simp at h; obtain ⟨_, rfl⟩ := h; exact List.drop_suffix _ _
    · simp at h

theorem readBits (n : Nat) : PU (readBits n) := by
  refine of_never (fun s => ?_) ?_
  · unfold Dovi.readBits; split <;> simp
  · intro s a s' h
    unfold Dovi.readBits at h
    split at h
    · simp at h; obtain ⟨_, rfl⟩ := h; exact List.drop_suffix _ _
    · simp at h

theorem readBit : PU readBit := by
  refine of_never (fun s => ?_) ?_
  · cases s <;> simp [Dovi.readBit]
  · intro s a s' h
    cases s with
    | nil => simp [Dovi.readBit] at h
    | cons b t =>
      simp [Dovi.readBit] at h; obtain ⟨_, rfl⟩ := h; exact List.suffix_cons _ _

theorem readAlignZero : PU readAlignZero := by
  refine of_never (fun s => ?_) ?_
  · unfold Dovi.readAlignZero; simp only; split <;> simp
  · intro s a s' h
    unfold Dovi.readAlignZero at h
    simp only at h
    split at h
    · simp at h; obtain ⟨_, rfl⟩ := h; exact List.drop_suffix _ _
    · simp at h

theorem ite {α} (c : Prop) [Decidable c] {p q : P α} (hp : PU p) (hq : PU q) :
    PU (if c then p else q) := by
  split <;> assumption

end PU

/-! ### the unary prefix -/

/-- what `read_unary1` returns: it consumed `z` zero bits and the terminating one -/
theorem readUnaryAux_ok {k : Nat} {s : Bits} {r : Nat} {s' : Bits} (h : readUnaryAux k s = .ok (r, s')) :
    ∃ z, r = k + z ∧ s = List.replicate z false ++ true :: s' := by
  induction s generalizing k with
  | nil => simp [readUnaryAux] at h
  | cons b t ih =>
    cases b with
    | true =>
      simp [readUnaryAux] at h
      obtain ⟨rfl, rfl⟩ := h
      exact ⟨0, by simp, by simp⟩
    | false =>
      simp only [readUnaryAux] at h
      obtain ⟨z, hz, ht⟩ := ih h
      exact ⟨z + 1, by omega, by rw [ht, List.replicate_succ, List.cons_append]⟩

theorem readUnaryAux_ne_panic (k : Nat) (s : Bits) : readUnaryAux k s ≠ .panic := by
  induction s generalizing k with
  | nil => simp [readUnaryAux]
  | cons b t ih =>
    cases b with
    | true => simp [readUnaryAux]
    | false => simpa [readUnaryAux] using ih (k+1)

theorem readUnary_suffix {k : Nat} {s : Bits} {r : Nat} {s' : Bits} (h : readUnary k s = .ok (r, s')) :
    s' <:+ s := by
  obtain ⟨z, _, hs⟩ := readUnaryAux_ok (show readUnaryAux k s = .ok (r, s') from h)
  rw [hs]
  exact (List.suffix_cons _ _).trans (List.suffix_append _ _)

/-- decomposition of a successful `get_ue` -/
theorem readUe_ok {t : Bits} {v : Nat} {r : Bits} (h : readUe t = .ok (v, r)) :
    (v = 0 ∧ t = true :: r) ∨
    ∃ k s1 w, 1 ≤ k ∧ k ≤ 63 ∧ t = List.replicate k false ++ true :: s1 ∧ Dovi.readN k s1 = .ok (w, r) ∧
      v = w + 2^k - 1 := by
  unfold readUe at h
  obtain ⟨k, s1, h1, h2⟩ := P.bind_eq_ok.mp h
  obtain ⟨z, hz, ht⟩ := readUnaryAux_ok (show readUnaryAux 0 t = .ok (k, s1) from h1)
  have hkz : k = z := by omega
  subst hkz
  by_cases hk0 : k = 0
  · subst hk0
    simp at h2
    obtain ⟨rfl, rfl⟩ := h2
    left; exact ⟨rfl, by simpa using ht⟩
  · simp only [hk0, if_false] at h2
    by_cases hk64 : k > 64
    · simp [hk64] at h2
    · simp only [hk64, if_false] at h2
      obtain ⟨w, s2, h3, h4⟩ := P.bind_eq_ok.mp h2
      by_cases he : k = 64
      · simp [he, P.panic] at h4
      · simp only [he, if_false] at h4
        injection h4 with h4
        injection h4 with h5 h6
        subst h6
        right
        exact ⟨k, s1, w, by omega, by omega, ht, h3, h5.symm⟩

theorem readN_suffix {n : Nat} {s : Bits} {a : Nat} {s' : Bits} (h : Dovi.readN n s = .ok (a, s')) : s' <:+ s :=
  (PU.readN n).suffix s a s' h

theorem readUe_suffix {t : Bits} {v : Nat} {r : Bits} (h : readUe t = .ok (v, r)) : r <:+ t := by
  rcases readUe_ok h with ⟨_, ht⟩ | ⟨k, s1, w, _, _, ht, hn, _⟩
  · rw [ht]; exact List.suffix_cons _ _
  · rw [ht]
    exact (readN_suffix hn).trans ((List.suffix_cons _ _).trans (List.suffix_append _ _))

/-- every code number `get_ue` returns is at most `2^64 - 2` -/
theorem readUe_le {t : Bits} {v : Nat} {r : Bits} (h : readUe t = .ok (v, r)) : v ≤ 2^64 - 2 := by
  rcases readUe_ok h with ⟨hv, _⟩ | ⟨k, s1, w, hk1, hk63, _, hn, hv⟩
  · omega
  · have hw := readN_lt hn
    have hp : 2^k ≤ 2^63 := Nat.pow_le_pow_right (by omega) hk63
    omega

/-! ### the two sites, exactly -/

/-- **`get_ue` panics exactly on 64 zero bits, a one, and at least 64 further bits** (the `1 << 64`) -/
theorem readUe_panic_iff (t : Bits) :
    readUe t = .panic ↔ ∃ r, t = List.replicate 64 false ++ true :: r ∧ 64 ≤ r.length := by
  constructor
  · intro h
    unfold readUe at h
    rw [P.bind_apply] at h
    cases h1 : readUnary 0 t with
    | panic => exact absurd h1 (readUnaryAux_ne_panic 0 t)
    | error => rw [h1] at h; simp at h
    | ok p =>
      obtain ⟨k, s1⟩ := p
      rw [h1] at h
      simp only at h
      obtain ⟨z, hz, ht⟩ := readUnaryAux_ok (show readUnaryAux 0 t = .ok (k, s1) from h1)
      have hkz : k = z := by omega
      subst hkz
      by_cases hk0 : k = 0
      · simp [hk0, Pure.pure, P.pure] at h
      · simp only [hk0, if_false] at h
        by_cases hk64 : k > 64
        · simp [hk64] at h
        · simp only [hk64, if_false] at h
          rw [P.bind_apply] at h
          cases h3 : Dovi.readN k s1 with
          | panic => exact absurd h3 (by unfold Dovi.readN; split <;> simp)
          | error => rw [h3] at h; simp at h
          | ok q =>
            obtain ⟨w, s2⟩ := q
            rw [h3] at h
            simp only at h
            by_cases he : k = 64
            · subst he
              refine ⟨s1, ht, ?_⟩
              unfold Dovi.readN at h3
              split at h3
              · rename_i hal; exact (hasAtLeast_iff 64 s1).mp hal
              · simp at h3
            · simp [he, Pure.pure, P.pure] at h
  · rintro ⟨r, rfl, hr⟩
    unfold readUe
    rw [P.bind_of_ok (readUnary_replicate 0 64 r)]
    have hn : Dovi.readN (0 + 64) r = .ok (ofBits (r.take 64), r.drop 64) := by
      unfold Dovi.readN
      rw [if_pos ((hasAtLeast_iff _ r).mpr (by omega))]
    simp only [show (0 + 64 = 0) = False from by simp, show (0 + 64 > 64) = False from by simp, if_false]
    rw [P.bind_of_ok hn]
    simp [P.panic]

/-- `(n as f64 / 2.0).floor() as u64` reaches `2^63` exactly for `n ≥ 2^64 - 1024` (nearest-even rounding to a
53-bit mantissa rounds those up to `2^64`) -/
theorem roundToF64_half_ge_iff (n : Nat) (hn : n < 2^64) : roundToF64 n / 2 ≥ 2^63 ↔ 2^64 - 1024 ≤ n := by
  by_cases hlow : n < 2^63
  · constructor
    · intro h
      by_cases h0 : n = 0
      · subst h0; simp [roundToF64] at h
      · have := roundToF64_half_lt n h0 (by omega); omega
    · intro h; omega
  · have hn0 : n ≠ 0 := by omega
    have hlog : n.log2 = 63 := by
      have h1 : n.log2 < 64 := (Nat.log2_lt hn0).mpr hn
      have h2 : 63 ≤ n.log2 := (Nat.le_log2 hn0).mpr (by omega)
      omega
    have h53 : ¬ n < 2^53 := by omega
    unfold roundToF64
    rw [if_neg h53]
    simp only [hlog]
    have e1 : (2:Nat)^(63 + 1 - 53) = 2048 := by decide
    have e2 : (2:Nat)^(63 + 1 - 53 - 1) = 1024 := by decide
    rw [e1, e2]
    split <;> omega

/-- **`get_se` panics exactly when `get_ue` does, or on an even code number `≥ 2^64 - 1024`** — not only on
`2^64 - 2` (the code of `i64::MIN`): the detour through `f64` rounds `code + 1` up to `2^64` for all of them, so
`m = 2^63`, `m as i64 = i64::MIN` and the negation overflows -/
theorem readSe_panic_iff (t : Bits) :
    readSe t = .panic ↔
      (readUe t = .panic ∨ ∃ code r, readUe t = .ok (code, r) ∧ code % 2 = 0 ∧ 2^64 - 1024 ≤ code) := by
  unfold readSe
  rw [P.bind_apply]
  cases h1 : readUe t with
  | panic => simp
  | error => simp
  | ok p =>
    obtain ⟨code, s1⟩ := p
    have hle := readUe_le h1
    have hiff := roundToF64_half_ge_iff (code + 1) (by omega)
    simp only
    constructor
    · intro h
      right
      refine ⟨code, s1, rfl, ?_⟩
      split at h
      · rename_i hev
        split at h
        · rename_i hm; exact ⟨hev, by have := hiff.mp hm; omega⟩
        · simp [Pure.pure, P.pure] at h
      · split at h <;> simp [Pure.pure, P.pure] at h
    · rintro (h | ⟨c, r, hc, hev, hge⟩)
      · cases h
      · injection hc with hc
        injection hc with hc1 hc2
        subst hc1
        rw [if_pos hev, if_pos (hiff.mpr (by omega))]
        rfl

/-- the `se(v)` site on the bit level implies a run of 63 zero bits as well: `UePanic t` always starts with 63
zero bits -/
theorem UePanic_zero_run {t : Bits} (h : UePanic t) : ∃ r, t = List.replicate 63 false ++ r := by
  have hue : ∀ {t}, readUe t = .panic → ∃ r, t = List.replicate 63 false ++ r := by
    intro t h
    obtain ⟨r, rfl, _⟩ := (readUe_panic_iff t).mp h
    exact ⟨false :: true :: r, by rw [show (64:Nat) = 63 + 1 from rfl, List.replicate_succ']; simp⟩
  rcases h with h | h
  · exact hue h
  · rcases (readSe_panic_iff t).mp h with h | ⟨code, r, hc, _, hge⟩
    · exact hue h
    · rcases readUe_ok hc with ⟨hv, _⟩ | ⟨k, s1, w, hk1, hk63, ht, hn, hv⟩
      · omega
      · have hw := readN_lt hn
        by_cases hk : k = 63
        · subst hk; exact ⟨true :: s1, ht⟩
        · have hp : 2^k ≤ 2^62 := Nat.pow_le_pow_right (by omega) (by omega)
          omega

/-! ### the `se(v)` site on the bit level -/

theorem ofBits_append (x y : Bits) : ofBits (x ++ y) = ofBits x * 2^y.length + ofBits y := by
  induction x with
  | nil => simp [ofBits]
  | cons b x ih =>
    simp only [List.cons_append, ofBits, List.length_append, ih]
    cases b <;> simp [Nat.pow_add, Nat.add_mul, Nat.add_assoc]

theorem readN_append (a r : Bits) : Dovi.readN a.length (a ++ r) = .ok (ofBits a, r) := by
  have := readN_toBits a.length (ofBits a) r (ofBits_lt a)
  rwa [toBits_ofBits] at this

theorem split_at (n : Nat) (s : Bits) (h : n ≤ s.length) : ∃ x y, s = x ++ y ∧ x.length = n :=
  ⟨s.take n, s.drop n, (List.take_append_drop n s).symm, by rw [List.length_take]; omega⟩

theorem ofBits_all_ones (x : Bits) (h : ofBits x = 2^x.length - 1) : x = List.replicate x.length true := by
  induction x with
  | nil => rfl
  | cons b x ih =>
    have hlt := ofBits_lt x
    have hpos : 0 < 2^x.length := Nat.two_pow_pos _
    simp only [ofBits, List.length_cons, Nat.pow_succ] at h
    cases b with
    | false => simp at h; omega
    | true =>
      simp at h
      rw [List.length_cons, List.replicate_succ, ← ih (by omega)]

theorem ofBits_replicate_true (n : Nat) : ofBits (List.replicate n true) = 2^n - 1 := by
  induction n with
  | zero => rfl
  | succ n ih =>
    have hpos : 0 < 2^n := Nat.two_pow_pos _
    simp only [List.replicate_succ, ofBits, List.length_replicate, ih, if_true, Nat.pow_succ]
    omega

/-- **the `se(v)` panic on the bit level**: 63 zero bits, a one, then a 63-bit suffix whose top 53 bits are all
ones and whose last bit is one (the 9 bits in between are free: 512 code words) -/
theorem readSe_panic_bits (t : Bits) :
    readSe t = .panic ↔
      (readUe t = .panic ∨ ∃ m r, m.length = 9 ∧
        t = List.replicate 63 false ++ true :: (List.replicate 53 true ++ m ++ true :: r)) := by
  rw [readSe_panic_iff]
  constructor
  · rintro (h | ⟨code, r, hc, hev, hge⟩)
    · exact Or.inl h
    · right
      rcases readUe_ok hc with ⟨hv, _⟩ | ⟨k, s1, w, hk1, hk63, ht, hn, hv⟩
      · omega
      · have hw := readN_lt hn
        have hk : k = 63 := by
          apply Decidable.byContradiction
          intro hk
          have hp : 2^k ≤ 2^62 := Nat.pow_le_pow_right (by omega) (by omega)
          omega
        subst hk
        have h63 : 63 ≤ s1.length := by
          unfold Dovi.readN at hn
          split at hn
          · rename_i hal; exact (hasAtLeast_iff 63 s1).mp hal
          · simp at hn
        obtain ⟨x, y, hs1, hx⟩ := split_at 53 s1 (by omega)
        subst hs1
        rw [List.length_append] at h63
        obtain ⟨m, z, hy, hm⟩ := split_at 9 y (by omega)
        subst hy
        rw [List.length_append] at h63
        cases z with
        | nil => simp at h63; omega
        | cons b r' =>
          have hlen : (x ++ m ++ [b]).length = 63 := by simp; omega
          have hr := readN_append (x ++ m ++ [b]) r'
          rw [hlen] at hr
          have hre : x ++ (m ++ b :: r') = (x ++ m ++ [b]) ++ r' := by simp
          rw [hre, hr] at hn
          injection hn with hn
          injection hn with hw1 hr1
          subst hr1
          -- value facts
          have hv1 : w = (ofBits x * 2^9 + ofBits m) * 2 + (if b then 1 else 0) := by
            rw [← hw1, ofBits_append, ofBits_append]
            simp [ofBits, hm]
          have hxl := ofBits_lt x
          have hml := ofBits_lt m
          rw [hx] at hxl
          rw [hm] at hml
          have hxv : ofBits x = 2^53 - 1 := by
            cases b <;> simp at hv1 <;> omega
          have hb : b = true := by
            cases b with
            | true => rfl
            | false => simp at hv1; omega
          subst hb
          have hxr : x = List.replicate 53 true := by
            have := ofBits_all_ones x (by rw [hx]; exact hxv)
            rwa [hx] at this
          subst hxr
          exact ⟨m, r', hm, ht⟩
  · rintro (h | ⟨m, r, hm, rfl⟩)
    · exact Or.inl h
    · right
      have hlen : (List.replicate 53 true ++ m ++ [true]).length = 63 := by simp; omega
      have hr := readN_append (List.replicate 53 true ++ m ++ [true]) r
      rw [hlen] at hr
      have hre : List.replicate 53 true ++ m ++ true :: r = (List.replicate 53 true ++ m ++ [true]) ++ r := by
        simp
      have hv1 : ofBits (List.replicate 53 true ++ m ++ [true]) = ((2^53 - 1) * 2^9 + ofBits m) * 2 + 1 := by
        rw [ofBits_append, ofBits_append, ofBits_replicate_true]
        simp [ofBits, hm]
      have hml := ofBits_lt m
      rw [hm] at hml
      refine ⟨ofBits (List.replicate 53 true ++ m ++ [true]) + 2^63 - 1, r, ?_, by omega, by omega⟩
      unfold readUe
      rw [P.bind_of_ok (readUnary_replicate 0 63 _)]
      simp only [show (0 + 63 = 0) = False from by simp, show (0 + 63 > 64) = False from by simp, if_false]
      rw [hre, show 0 + 63 = 63 from rfl, P.bind_of_ok hr]
      rw [if_neg (by omega : ¬ (63:Nat) = 64)]
      rfl

/-! ### relation to the global hypothesis of `Proofs/NoPanic.lean` -/

theorem zeroRunAt_replicate (n : Nat) (r : Bits) : zeroRunAt n (List.replicate n false ++ r) = true := by
  induction n with
  | zero => cases r <;> rfl
  | succ n ih => simp [List.replicate_succ, zeroRunAt, ih]

theorem Good.of_suffix {t s : Bits} (h : t <:+ s) (hs : Good s) : Good t := by
  obtain ⟨p, rfl⟩ := h
  have := Good.drop p.length hs
  simpa using this

/-- `Good` (no run of 63 zero bits anywhere) excludes every site: the positional theorems imply the `Good` ones -/
theorem Good.no_site {s : Bits} (hs : Good s) : ∀ t, t <:+ s → ¬ UePanic t := by
  intro t ht hu
  obtain ⟨r, rfl⟩ := UePanic_zero_run hu
  have hg := good_zeroRun (Good.of_suffix ht hs)
  rw [zeroRunAt_replicate] at hg
  cases hg

instance (t : Bits) : Decidable (UePanic t) := inferInstanceAs (Decidable (_ ∨ _))

namespace PU

theorem readUe : PU readUe :=
  ⟨fun s h => ⟨s, List.suffix_refl _, Or.inl h⟩, fun _ _ _ h => readUe_suffix h⟩

theorem readSe : PU readSe := by
  refine ⟨fun s h => ⟨s, List.suffix_refl _, Or.inr h⟩, ?_⟩
  intro s a s' h
  unfold Dovi.readSe at h
  obtain ⟨code, s1, h1, h2⟩ := P.bind_eq_ok.mp h
  have hs := readUe_suffix h1
  split at h2
  · split at h2
    · simp [P.panic] at h2
    · simp at h2; obtain ⟨_, rfl⟩ := h2; exact hs
  · split at h2 <;> (simp at h2; obtain ⟨_, rfl⟩ := h2; exact hs)

theorem repeatP {α} (n : Nat) {p : P α} (hp : PU p) : PU (repeatP n p) := by
  induction n with
  | zero => exact PU.pure _
  | succ n ih =>
    unfold Dovi.repeatP
    exact PU.bind hp fun a => PU.bind ih fun as => PU.pure _

theorem readFld (f : Fld) : PU (readFld f) := by
  unfold Dovi.readFld
  exact PU.bind (PU.readN _) fun v => PU.pure _

theorem readFlds (fs : List Fld) : PU (readFlds fs) := by
  induction fs with
  | nil => exact PU.pure _
  | cons f fs ih =>
    unfold Dovi.readFlds
    exact PU.bind (PU.readFld f) fun v => PU.bind ih fun vs => PU.pure _

/-- one step of the structural argument: binds, reads, pures, conditionals -/
macro "pu_step" : tactic => `(tactic| first
  | exact PU.pure _
  | exact PU.fail
  | exact PU.ensure _
  | exact PU.available
  | exact PU.readN _
  | exact PU.readBit
  | exact PU.readBits _
  | exact PU.readUe
  | exact PU.readSe
  | exact PU.readAlignZero
  | exact PU.readFlds _
  | (apply PU.bind)
  | (intro _)
  | (split)
  | (dsimp only))

macro "pu" : tactic => `(tactic| repeat' pu_step)

theorem parseHeader : PU parseHeader := by
  unfold Dovi.parseHeader
  pu

theorem parseCoef (h : Header) : PU (parseCoef h) := by
  unfold Dovi.parseCoef
  pu

theorem parsePolyPiece (h : Header) (c : PolyCurve) : PU (parsePolyPiece h c) := by
  unfold Dovi.parsePolyPiece
  pu
  all_goals first | exact PU.repeatP _ (parseCoef h) | skip

theorem parseMmrPiece (h : Header) (c : MmrCurve) : PU (parseMmrPiece h c) := by
  unfold Dovi.parseMmrPiece
  pu
  all_goals first
    | exact parseCoef h
    | exact PU.repeatP _ (PU.repeatP _ (parseCoef h))
    | skip

theorem parsePieces (h : Header) (n : Nat) (c : Curve) : PU (parsePieces h n c) := by
  induction n generalizing c with
  | zero => exact PU.pure _
  | succ n ih =>
    unfold Dovi.parsePieces
    pu
    all_goals first
      | exact parsePolyPiece h _
      | exact parseMmrPiece h _
      | exact ih _
      | exact PU.repeatP _ (parseCoef h)
      | exact PU.repeatP _ (PU.repeatP _ (parseCoef h))
      | exact parseCoef h
      | skip

theorem parsePivots (bl : Nat) : PU (parsePivots bl) := by
  unfold Dovi.parsePivots
  pu
  all_goals first | exact PU.repeatP _ (PU.readN _) | skip

theorem parseCurvePieces (h : Header) (cs : List Curve) : PU (parseCurvePieces h cs) := by
  induction cs with
  | nil => exact PU.pure _
  | cons c cs ih =>
    unfold Dovi.parseCurvePieces
    pu
    all_goals first | exact parsePieces h _ _ | exact ih | exact PU.repeatP _ (parseCoef h) | exact PU.repeatP _ (PU.repeatP _ (parseCoef h)) | exact parseCoef h | skip

theorem parseNlqComp (h : Header) : PU (parseNlqComp h) := by
  unfold Dovi.parseNlqComp
  pu

theorem parseNlq (h : Header) : PU (parseNlq h) := by
  unfold Dovi.parseNlq
  pu
  all_goals first | exact PU.repeatP _ (parseNlqComp h) | skip

theorem parseMapping (h : Header) : PU (parseMapping h) := by
  unfold Dovi.parseMapping
  pu
  all_goals first
    | exact PU.repeatP _ (parsePivots _)
    | exact PU.repeatP _ (PU.readN _)
    | exact parseCurvePieces h _
    | exact parseNlq h
    | skip

theorem bind_ensure {β} (c : Bool) {p : P β} (hp : c = true → PU p) :
    PU (P.ensure c >>= fun _ => p) := by
  cases c with
  | false =>
    refine of_never (fun s => ?_) ?_
    · rw [P.bind_apply]; simp
    · intro s a s' h; rw [P.bind_apply] at h; simp at h
  | true => exact PU.bind (PU.ensure _) fun _ => hp rfl

/-- the `unreachable!()` of `required_bits()` is unreachable (`blockRequiredBits_some`), so a block parse panics
only in its `ue(v)` length -/
theorem parseBlock (allowed other : List Nat) (ha : allowed = cmv29Levels ∨ allowed = cmv40Levels) :
    PU (parseBlock allowed other) := by
  unfold Dovi.parseBlock
  apply PU.bind PU.readUe; intro len
  apply PU.bind (PU.readN 8); intro level
  split
  · exact PU.fail
  · split
    · exact PU.fail
    · rename_i hother hallowed
      apply bind_ensure; intro hvalid
      split
      · exact PU.fail
      · apply PU.bind (PU.readFlds _); intro raw
        dsimp only
        apply bind_ensure; intro _
        split
        · rename_i hnone
          have hc : allowed.contains level = true := by
            simpa using hallowed
          exact absurd hnone (blockRequiredBits_some allowed ha level len hc hvalid)
        · pu

theorem parseContainer (allowed other : List Nat) (ha : allowed = cmv29Levels ∨ allowed = cmv40Levels) :
    PU (parseContainer allowed other) := by
  unfold Dovi.parseContainer
  repeat' (first | exact PU.repeatP _ (parseBlock allowed other ha) | pu_step)

theorem parseDmData (h : Header) : PU (parseDmData h) := by
  unfold Dovi.parseDmData
  repeat' (first
    | exact parseContainer _ _ (Or.inl rfl)
    | exact parseContainer _ _ (Or.inr rfl)
    | pu_step)

theorem readRpuData : PU readRpuData := by
  unfold Dovi.readRpuData
  repeat' (first
    | exact parseHeader
    | exact parseMapping _
    | exact parseDmData _
    | pu_step)

end PU

/-! ### the entry points -/

/-- the RPU parser panics only in an exp-Golomb read at some position of the payload bits -/
theorem parseRpu_panic (data : Bytes) (h : parseRpu data = .panic) :
    ∃ t, t <:+ bytesToBits (data.take (data.length - trailingZeroes data)) ∧ UePanic t := by
  unfold parseRpu at h
  simp only at h
  split at h
  · simp at h
  · split at h
    · simp at h
    · cases hr : readRpuData (bytesToBits (List.take (data.length - trailingZeroes data) data)) with
      | panic => exact PU.readRpuData.panic _ hr
      | error => rw [hr] at h; simp at h
      | ok p =>
        obtain ⟨r, s⟩ := p
        rw [hr] at h
        simp only at h
        split at h
        · simp at h
        · split at h <;> simp at h

theorem trimPrefix_ne_panic (data : Bytes) : trimPrefix data ≠ .panic := by
  unfold trimPrefix
  split
  · simp
  · split <;> simp

theorem parseRpuEntry_panic (data : Bytes) (h : parseRpuEntry data = .panic) :
    ∃ b t, trimPrefix data = .ok b ∧ t <:+ bytesToBits (b.take (b.length - trailingZeroes b)) ∧ UePanic t := by
  unfold parseRpuEntry at h
  cases ht : trimPrefix data with
  | error => rw [ht] at h; simp [Res.bind] at h
  | panic => exact absurd ht (trimPrefix_ne_panic data)
  | ok b =>
    rw [ht] at h
    simp only [Res.bind] at h
    obtain ⟨t, h1, h2⟩ := parseRpu_panic b h
    exact ⟨b, t, rfl, h1, h2⟩

theorem parseNalu_panic (d : Bytes) (h : parseNalu d = .panic) :
    ∃ b t, trimPrefix d = .ok b ∧
      t <:+ bytesToBits ((Esc.unescape b).take ((Esc.unescape b).length - trailingZeroes (Esc.unescape b))) ∧
      UePanic t := by
  unfold parseNalu at h
  cases ht : trimPrefix d with
  | error => rw [ht] at h; simp [Res.bind] at h
  | panic => exact absurd ht (trimPrefix_ne_panic d)
  | ok b =>
    rw [ht] at h
    simp only [Res.bind] at h
    obtain ⟨t, h1, h2⟩ := parseRpu_panic _ h
    exact ⟨b, t, rfl, h1, h2⟩

theorem parseObu_panic (data : Bytes) (h : Av1.parseObu data = .panic) :
    ∃ b t, Av1.unwrap data = .ok b ∧ t <:+ bytesToBits (b.take (b.length - trailingZeroes b)) ∧ UePanic t := by
  unfold Av1.parseObu at h
  cases hu : Av1.unwrap data with
  | error => rw [hu] at h; simp [Res.bind] at h
  | panic => exact absurd hu (Av1.unwrap_never_panics data)
  | ok b =>
    rw [hu] at h
    simp only [Res.bind] at h
    obtain ⟨t, h1, h2⟩ := parseRpu_panic b h
    exact ⟨b, t, rfl, h1, h2⟩

/-- the RPU file reader panics only if the NAL parser panics on a slice of the file (contrapositive of
`RpuFile.parseRpuFile_no_panic`) -/
theorem parseRpuFile_panic (c : Nat) (file : Bytes) (h : RpuFile.parseRpuFile c file = .panic) :
    ∃ slice, slice <:+: file ∧ RpuFile.parseNalu slice = .panic := by
  apply Classical.byContradiction
  intro hne
  refine RpuFile.parseRpuFile_no_panic c file (fun d hd hp => hne ⟨d, hd, hp⟩) h

end Dovi.PanicSites

/-! ### ST 2094-10 -/
namespace Dovi.PanicSites.St
open Dovi Dovi.St2094 Dovi.PanicSites Dovi.PanicSites.PU

theorem readWide (n : Nat) : PU (readWide n) := by
  unfold St2094.readWide
  pu

theorem coefPair (len : Nat) : PU (coefPair len) := by
  unfold St2094.coefPair
  repeat' (first | exact readWide _ | pu_step)

theorem parsePiece (len : Nat) : PU (parsePiece len) := by
  unfold St2094.parsePiece
  repeat' (first
    | exact readWide _
    | exact PU.repeatP _ (coefPair _)
    | exact PU.repeatP _ (PU.repeatP _ (coefPair _))
    | pu_step)

theorem parsePivotsSt (elBits : Nat) : PU (parsePivotsSt elBits) := by
  unfold St2094.parsePivotsSt
  repeat' (first | exact PU.repeatP _ (PU.readN _) | pu_step)

theorem parsePiecesOf (len : Nat) (ns : List Nat) : PU (parsePiecesOf len ns) := by
  induction ns with
  | nil => unfold St2094.parsePiecesOf; pu
  | cons n ns ih =>
    unfold St2094.parsePiecesOf
    repeat' (first | exact ih | exact PU.repeatP _ (parsePiece _) | pu_step)

theorem nlqComp (elBits len : Nat) : PU (nlqComp elBits len) := by
  unfold St2094.nlqComp
  repeat' (first | exact readWide _ | pu_step)

theorem parseCm : PU parseCm := by
  unfold St2094.parseCm
  repeat' (first
    | exact PU.repeatP _ (parsePivotsSt _)
    | exact parsePiecesOf _ _
    | exact PU.repeatP _ (nlqComp _ _)
    | pu_step)

theorem parseDm : PU parseDm := by
  unfold St2094.parseDm
  repeat' (first | exact PU.parseContainer _ _ (Or.inl rfl) | pu_step)

theorem parseBits : PU parseBits := by
  unfold St2094.parseBits
  repeat' (first | exact parseCm | exact parseDm | pu_step)

theorem parse_panic (data : Bytes) (h : St2094.parse data = .panic) :
    ∃ b t, St2094.trim data = .ok b ∧ t <:+ bytesToBits (Esc.unescape b) ∧ UePanic t := by
  unfold St2094.parse at h
  cases ht : St2094.trim data with
  | error => rw [ht] at h; simp [Res.bind] at h
  | panic =>
    unfold St2094.trim at ht
    split at ht
    · cases ht
    · split at ht <;> cases ht
  | ok b =>
    rw [ht] at h
    simp only [Res.bind] at h
    cases hp : St2094.parseBits (bytesToBits (Esc.unescape b)) with
    | ok v => rw [hp] at h; simp at h
    | error => rw [hp] at h; simp at h
    | panic =>
      obtain ⟨t, h1, h2⟩ := parseBits.panic _ hp
      exact ⟨b, t, rfl, h1, h2⟩

end Dovi.PanicSites.St
