import DoviModel.Proofs.HevcMux
set_option linter.unusedSimpArgs false
namespace Dovi.Hevc
open Dovi

/-- labelled groups as the frame buffer produces them: non-empty, uniformly labelled, adjacent labels differ -/
def Chain (prev : Nat) : List (Nat × List Item) → Prop
  | [] => True
  | g :: rest => g.1 ≠ prev ∧ g.2 ≠ [] ∧ (∀ it ∈ g.2, it.au = g.1) ∧ Chain g.1 rest

theorem framesAux_groups (gs : List (Nat × List Item)) (a : Nat) (g acc : List Item)
    (hg : ∀ it ∈ g, it.au = a) (hc : Chain a gs) :
    framesAux a acc (g ++ gs.flatMap (·.2)) = (a, acc.reverse ++ g) :: gs := by
  induction gs generalizing a g acc with
  | nil =>
    induction g generalizing acc with
    | nil => simp [framesAux]
    | cons it g' ih =>
      have := ih (it :: acc) (fun x hx => hg x (by simp [hx]))
      simp only [List.cons_append, framesAux, hg it (by simp), if_true]
      simpa using this
  | cons b rest ih =>
    induction g generalizing acc with
    | nil =>
      obtain ⟨hne, hnn, hlab, hch⟩ := hc
      obtain ⟨b1, b2⟩ := b
      cases b2 with
      | nil => exact absurd rfl hnn
      | cons it h' =>
        simp only [List.nil_append, List.flatMap_cons, List.cons_append, framesAux]
        have hit : it.au = b1 := hlab it (by simp)
        rw [if_neg (by rw [hit]; exact hne)]
        have := ih it.au h' [it] (fun x hx => by rw [hit]; exact hlab x (by simp [hx])) (by rw [hit]; exact hch)
        rw [this, hit]
        simp
    | cons it g' ihg =>
      have := ihg (it :: acc) (fun x hx => hg x (by simp [hx]))
      simp only [List.cons_append, framesAux, hg it (by simp), if_true]
      simpa using this

/-- the BL frame buffers of a stream given by groups: the groups (the first labelled 0, possibly empty) -/
theorem frames_groups (g0 : List Item) (gs : List (Nat × List Item)) (hg : ∀ it ∈ g0, it.au = 0) (hc : Chain 0 gs) :
    frames (g0 ++ gs.flatMap (·.2)) = (0, g0) :: gs := by
  simpa [frames] using framesAux_groups gs 0 g0 [] hg hc

theorem runs_groups (g : Nat × List Item) (gs : List (Nat × List Item)) (hne : g.2 ≠ [])
    (hlab : ∀ it ∈ g.2, it.au = g.1) (hc : Chain g.1 gs) :
    runs (g.2 ++ gs.flatMap (·.2)) = g :: gs := by
  obtain ⟨a, l⟩ := g
  cases l with
  | nil => exact absurd rfl hne
  | cons it l' =>
    simp only [List.cons_append, runs]
    have hit : it.au = a := hlab it (by simp)
    rw [hit, framesAux_groups gs a l' [it] (fun x hx => hlab x (by simp [hx])) hc]
    simp

/-! ### mux of a demuxed stream -/

/-- one access unit of a dual-layer stream in the layout mux produces: base-layer NALs, then the EL NALs
(UNSPEC63) with the RPU, then EOS/EOB -/
structure DlFrame where
  au : Nat
  b : List Item
  e : List Item
  t : List Item

def DlFrame.all (f : DlFrame) : List Item := f.b ++ f.e ++ f.t

def DlFrame.Wf (f : DlFrame) : Prop :=
  f.b ≠ [] ∧ f.e ≠ [] ∧ (∀ it ∈ f.all, it.au = f.au) ∧
  (∀ it ∈ f.b, isBl it = true ∧ isEos it.typ = false) ∧
  (∀ it ∈ f.t, isEos it.typ = true) ∧
  (∀ it ∈ f.e, isEl it = true ∧
    (it.typ = NAL_UNSPEC63 → it.data.take 2 = EL_PREFIX ∧ nalType (it.data.drop 2) ≠ NAL_UNSPEC62))

/-- adjacent access units carry different frame numbers -/
def LabelsOk (prev : Nat) : List DlFrame → Prop
  | [] => True
  | f :: rest => f.au ≠ prev ∧ LabelsOk f.au rest

/-- the NAL demux writes to the EL file, with the frame label it came with -/
def unwrapItem (it : Item) : Item :=
  if it.typ = NAL_UNSPEC63 then ⟨nalType (it.data.drop 2), it.data.drop 2, it.au⟩ else it

theorem isEos_isBl (it : Item) (h : isEos it.typ = true) : isBl it = true := by
  simp only [isEos, Bool.or_eq_true, beq_iff_eq] at h
  rcases h with h | h <;> simp [isBl, h] <;> decide

theorem wf_filter_bl (f : DlFrame) (h : f.Wf) : f.all.filter isBl = f.b ++ f.t := by
  obtain ⟨_, _, _, hb, ht, he⟩ := h
  unfold DlFrame.all
  rw [List.filter_append, List.filter_append]
  rw [filter_eq_self_of_all_true isBl f.b (fun x hx => (hb x hx).1)]
  rw [filter_eq_self_of_all_true isBl f.t (fun x hx => isEos_isBl x (ht x hx))]
  rw [filter_eq_nil_of_all_false isBl f.e (fun x hx => by have := (he x hx).1; simp [isBl_payI, isEl_payI] at this ⊢; exact this)]
  simp

theorem wf_filter_el (f : DlFrame) (h : f.Wf) : f.all.filter isEl = f.e := by
  obtain ⟨_, _, _, hb, ht, he⟩ := h
  unfold DlFrame.all
  rw [List.filter_append, List.filter_append]
  rw [filter_eq_nil_of_all_false isEl f.b (fun x hx => by have := (hb x hx).1; simp [isBl_payI, isEl_payI] at this ⊢; exact this)]
  rw [filter_eq_nil_of_all_false isEl f.t (fun x hx => by have := isEos_isBl x (ht x hx); simp [isBl_payI, isEl_payI] at this ⊢; exact this)]
  rw [filter_eq_self_of_all_true isEl f.e (fun x hx => (he x hx).1)]
  simp

theorem flatMap_filter {α : Type} (p : Item → Bool) (f g : α → List Item) (l : List α)
    (h : ∀ a ∈ l, (f a).filter p = g a) : (l.flatMap f).filter p = l.flatMap g := by
  induction l with
  | nil => rfl
  | cons a l ih =>
    simp only [List.flatMap_cons, List.filter_append]
    rw [h a (by simp), ih (fun b hb => h b (by simp [hb]))]

theorem chain_bl (prev : Nat) (fs : List DlFrame) (hl : LabelsOk prev fs) (hwf : ∀ f ∈ fs, f.Wf) :
    Chain prev (fs.map (fun f => (f.au, f.b ++ f.t))) := by
  induction fs generalizing prev with
  | nil => trivial
  | cons f rest ih =>
    obtain ⟨h1, h2⟩ := hl
    have hw := hwf f (by simp)
    obtain ⟨hb, _, hlab, _⟩ := hw
    refine ⟨h1, by simp [hb], ?_, ih f.au h2 (fun x hx => hwf x (by simp [hx]))⟩
    intro it hit
    apply hlab
    simp only [DlFrame.all]
    rcases List.mem_append.mp hit with h | h
    · exact List.mem_append_left _ (List.mem_append_left _ h)
    · exact List.mem_append_right _ h

theorem unwrapItem_au (it : Item) : (unwrapItem it).au = it.au := by
  unfold unwrapItem; split <;> rfl

theorem chain_el (prev : Nat) (fs : List DlFrame) (hl : LabelsOk prev fs) (hwf : ∀ f ∈ fs, f.Wf) :
    Chain prev (fs.map (fun f => (f.au, f.e.map unwrapItem))) := by
  induction fs generalizing prev with
  | nil => trivial
  | cons f rest ih =>
    obtain ⟨h1, h2⟩ := hl
    have hw := hwf f (by simp)
    obtain ⟨_, he, hlab, _⟩ := hw
    refine ⟨h1, by simp [he], ?_, ih f.au h2 (fun x hx => hwf x (by simp [hx]))⟩
    intro it hit
    obtain ⟨x, hx, rfl⟩ := List.mem_map.mp hit
    rw [unwrapItem_au]
    apply hlab
    simp only [DlFrame.all]
    exact List.mem_append_left _ (List.mem_append_right _ hx)

theorem wrap_unwrap (it : Item) (hel : isEl it = true)
    (h63 : it.typ = NAL_UNSPEC63 → it.data.take 2 = EL_PREFIX ∧ nalType (it.data.drop 2) ≠ NAL_UNSPEC62) :
    wrapEl (unwrapItem it) = payI it := by
  by_cases h : it.typ = NAL_UNSPEC63
  · obtain ⟨h1, h2⟩ := h63 h
    have : EL_PREFIX ++ it.data.drop 2 = it.data := by rw [← h1]; exact List.take_append_drop 2 it.data
    simp [wrapEl, unwrapItem, h, h2, this, payI]
  · have h62 : it.typ = NAL_UNSPEC62 := by
      simp only [isEl, Bool.or_eq_true, beq_iff_eq] at hel
      rcases hel with h' | h'
      · exact h'
      · exact absurd h' h
    unfold unwrapItem
    rw [if_neg h]
    simp [wrapEl, h62, payI]

theorem flatMap_congr' {α β : Type} (f g : α → List β) (l : List α) (h : ∀ a ∈ l, f a = g a) :
    l.flatMap f = l.flatMap g := by
  induction l with
  | nil => rfl
  | cons a l ih => simp only [List.flatMap_cons, h a (by simp), ih (fun b hb => h b (by simp [hb]))]

/-- the payload of one muxed frame, from the payload of its EL frame -/
def muxFramePay (c : MCfg) (aud : Nat → Bytes) (fr : Nat × List Item) (ep : List (Nat × Bytes)) : List (Nat × Bytes) :=
  if c.eosBeforeEl then muxBody c aud fr ++ ep
  else (muxBody c aud fr).filter (fun x => !isEos x.1) ++ ep ++ (muxBody c aud fr).filter (fun x => isEos x.1)

theorem zip_muxFrame_pay (c : MCfg) (aud : Nat → Bytes) (frs : List (Nat × List Item)) (els : List (List Out)) :
    ((frs.zip els).flatMap (fun p => muxFrame c aud p.1 p.2)).map pay =
      (frs.zip (els.map (fun e => e.map pay))).flatMap (fun p => muxFramePay c aud p.1 p.2) := by
  induction frs generalizing els with
  | nil => rfl
  | cons fr rest ih =>
    cases els with
    | nil => rfl
    | cons e els' =>
      simp only [List.zip_cons_cons, List.flatMap_cons, List.map_append, List.map_cons, ih els']
      rw [muxFrame_pay]; rfl

/-- **mux(demux(s)) = s.**  A dual-layer stream whose access units have the layout [BL NALs][EL NALs + RPU]
[EOS/EOB] (each with at least one BL NAL and one EL-bound NAL, numbered from 0, adjacent numbers distinct):
muxing its BL half with its EL half (as demux writes them: UNSPEC63 header stripped) under --no-add-aud gives
back the original NAL sequence, every NAL with its bytes, and no error. -/
theorem demux_mux_id (c : MCfg) (aud : Nat → Bytes) (conv : Bytes → Option Bytes) (nFrames : Nat) (f0 : DlFrame) (rest : List DlFrame)
    (hna : c.noAddAud = true) (heos : c.eosBeforeEl = false) (hd : c.discard = false) (hcs : c.convSet = false)
    (hdrop : c.drop = false) (h0 : f0.au = 0)
    (hl : LabelsOk f0.au rest) (hwf : ∀ f ∈ f0 :: rest, f.Wf)
    (hfr : ∀ it ∈ (f0 :: rest).flatMap DlFrame.all, it.au < nFrames) :
    ∃ out, mux c aud conv nFrames (((f0 :: rest).flatMap DlFrame.all).filter isBl)
        ((((f0 :: rest).flatMap DlFrame.all).filter isEl).map unwrapItem) = some (out, false) ∧
      out.map pay = ((f0 :: rest).flatMap DlFrame.all).map payI := by
  have hw0 := hwf f0 (by simp)
  have hwr : ∀ f ∈ rest, f.Wf := fun f hf => hwf f (by simp [hf])
  -- the two layers, frame by frame
  have hbl : ((f0 :: rest).flatMap DlFrame.all).filter isBl = (f0 :: rest).flatMap (fun f => f.b ++ f.t) :=
    flatMap_filter isBl _ _ _ (fun f hf => wf_filter_bl f (hwf f hf))
  have hel : ((f0 :: rest).flatMap DlFrame.all).filter isEl = (f0 :: rest).flatMap (fun f => f.e) :=
    flatMap_filter isEl _ _ _ (fun f hf => wf_filter_el f (hwf f hf))
  have hframes : frames (((f0 :: rest).flatMap DlFrame.all).filter isBl) = (f0 :: rest).map (fun f => (f.au, f.b ++ f.t)) := by
    rw [hbl]
    have e : (f0 :: rest).flatMap (fun f => f.b ++ f.t) =
        (f0.b ++ f0.t) ++ (rest.map (fun f => (f.au, f.b ++ f.t))).flatMap (·.2) := by
      simp [List.flatMap_cons, List.flatMap_map]
    rw [e, frames_groups _ _ ?_ (by rw [← h0]; exact chain_bl f0.au rest hl hwr)]
    · simp [h0]
    · intro it hit
      rw [← h0]; apply hw0.2.2.1
      simp only [DlFrame.all]
      rcases List.mem_append.mp hit with h | h
      · exact List.mem_append_left _ (List.mem_append_left _ h)
      · exact List.mem_append_right _ h
  have hruns : runs ((((f0 :: rest).flatMap DlFrame.all).filter isEl).map unwrapItem) =
      (f0 :: rest).map (fun f => (f.au, f.e.map unwrapItem)) := by
    rw [hel]
    have e : ((f0 :: rest).flatMap (fun f => f.e)).map unwrapItem =
        (f0.au, f0.e.map unwrapItem).2 ++ (rest.map (fun f => (f.au, f.e.map unwrapItem))).flatMap (·.2) := by
      simp [List.flatMap_cons, List.flatMap_map, List.map_flatMap]
    rw [e, runs_groups _ _ (by simp [hw0.2.1]) ?_ (chain_el f0.au rest hl hwr)]
    · simp
    · intro it hit
      obtain ⟨x, hx, rfl⟩ := List.mem_map.mp hit
      rw [unwrapItem_au]; apply hw0.2.2.1
      simp only [DlFrame.all]
      exact List.mem_append_left _ (List.mem_append_right _ hx)
  -- the EL frames as mux buffers them
  have hp := elFrames_plain c conv (runs ((((f0 :: rest).flatMap DlFrame.all).filter isEl).map unwrapItem)) hd hcs
  cases hels : elFrames c conv (runs ((((f0 :: rest).flatMap DlFrame.all).filter isEl).map unwrapItem)) with
  | none => rw [hels] at hp; cases hp
  | some els =>
    rw [hels] at hp
    simp only [Option.map_some, Option.some.injEq] at hp
    have hlen : (frames (((f0 :: rest).flatMap DlFrame.all).filter isBl)).length =
        (runs ((((f0 :: rest).flatMap DlFrame.all).filter isEl).map unwrapItem)).length := by
      rw [hframes, hruns]; simp
    have hbody : ∀ f ∈ f0 :: rest, blBody c (f.b ++ f.t) = (f.b ++ f.t).map payI := by
      intro f hf
      unfold blBody
      rw [filter_eq_self_of_all_true]
      intro x hx
      have hxb : isBl x = true := by
        have hw := hwf f hf
        rcases List.mem_append.mp hx with h | h
        · exact (hw.2.2.2.1 x h).1
        · exact isEos_isBl x (hw.2.2.2.2.1 x h)
      simp only [isBl, Bool.not_eq_true', Bool.or_eq_false_iff, beq_eq_false_iff_ne] at hxb
      simp [hxb.1, hxb.2, hna]
    have hlast : ∀ fr, (frames (((f0 :: rest).flatMap DlFrame.all).filter isBl)).getLast? = some fr → blBody c fr.2 ≠ [] := by
      intro fr hfr
      rw [hframes] at hfr
      have hmem : fr ∈ (f0 :: rest).map (fun f => (f.au, f.b ++ f.t)) := List.mem_of_getLast? hfr
      obtain ⟨f, hf, rfl⟩ := List.mem_map.mp hmem
      rw [hbody f hf]
      have := (hwf f hf).1
      simp [this]
    refine ⟨_, mux_aligned c aud conv nFrames _ _ els hdrop hels hlen
      (fun it h => hfr it (List.mem_filter.mp h).1) hlast, ?_⟩
    rw [zip_muxFrame_pay, hp, hframes, hruns, List.map_map, List.zip_map']
    rw [List.flatMap_map, List.map_flatMap]
    apply flatMap_congr'
    intro f hf
    have hw := hwf f hf
    simp only [Function.comp, muxFramePay, heos, Bool.false_eq_true, if_false, muxBody, hna, if_true]
    rw [hbody f hf]
    have hbf : (f.b.map payI).filter (fun x => !isEos x.1) = f.b.map payI :=
      filter_eq_self_of_all_true _ _ (fun x hx => by
        obtain ⟨it, hit, rfl⟩ := List.mem_map.mp hx
        simp [payI, (hw.2.2.2.1 it hit).2])
    have hbe : (f.b.map payI).filter (fun x => isEos x.1) = [] :=
      filter_eq_nil_of_all_false _ _ (fun x hx => by
        obtain ⟨it, hit, rfl⟩ := List.mem_map.mp hx
        simp [payI, (hw.2.2.2.1 it hit).2])
    have htf : (f.t.map payI).filter (fun x => !isEos x.1) = [] :=
      filter_eq_nil_of_all_false _ _ (fun x hx => by
        obtain ⟨it, hit, rfl⟩ := List.mem_map.mp hx
        simp [payI, hw.2.2.2.2.1 it hit])
    have hte : (f.t.map payI).filter (fun x => isEos x.1) = f.t.map payI :=
      filter_eq_self_of_all_true _ _ (fun x hx => by
        obtain ⟨it, hit, rfl⟩ := List.mem_map.mp hx
        simp [payI, hw.2.2.2.2.1 it hit])
    have hwrap : (f.e.map unwrapItem).map wrapEl = f.e.map payI := by
      rw [List.map_map]
      apply List.map_congr_left
      intro it hit
      exact wrap_unwrap it (hw.2.2.2.2.2 it hit).1 (hw.2.2.2.2.2 it hit).2
    simp only [List.map_append, List.filter_append, hbf, hbe, htf, hte, hwrap, DlFrame.all, List.append_nil, List.nil_append,
      List.append_assoc]

end Dovi.Hevc
