import DoviModel.Proofs.DmData
import DoviModel.Proofs.Mapping
/-!
# Extension blocks, DM containers, vdr_dm_data: parse → write exactness

The opposite direction of `Block.lean` / `Container.lean` / `DmData.lean`: if the parser accepts the bits `s`
(leaving `t`) and the writer accepts the parsed value, then the written bits are *exactly* the consumed bits:
`s = w ++ t`. The writer may fail (`blockValidate`, …), hence the "for every successful write" form.

No side condition on the field values is needed: every bit the block / container / DM parser consumes is either
stored in the parsed value or checked to be zero.
-/

namespace Dovi.PwDm

/-! ### inversion of the parser-monad primitives -/

theorem pure_inv {α} {a b : α} {s t : Bits} (h : (pure a : P α) s = .ok (b, t)) : b = a ∧ t = s := by
  have h' : Res.ok (a, s) = .ok (b, t) := h
  injection h' with h'
  injection h' with h1 h2
  exact ⟨h1.symm, h2.symm⟩

theorem ensure_inv {c : Bool} {s t : Bits} {u : Unit} (h : P.ensure c s = .ok (u, t)) : c = true ∧ t = s := by
  cases c with
  | true =>
    have h' : Res.ok ((), s) = .ok (u, t) := h
    injection h' with h'
    injection h' with _ h2
    exact ⟨rfl, h2.symm⟩
  | false => exact absurd h (by simp)

theorem available_inv {s t : Bits} {n : Nat} (h : P.available s = .ok (n, t)) : n = s.length ∧ t = s := by
  have h' : Res.ok (s.length, s) = .ok (n, t) := h
  injection h' with h'
  injection h' with h1 h2
  exact ⟨h1.symm, h2.symm⟩

theorem ok_inj {α} {a b : α} (h : Res.ok a = Res.ok b) : a = b := by
  injection h

theorem writeN_eq {n v : Nat} {w : Bits} (h : writeN n v = .ok w) : w = toBits n v := by
  unfold writeN at h
  split at h
  · injection h with h; exact h.symm
  · cases h

theorem readN_inv {n v : Nat} {s t : Bits} (h : readN n s = .ok (v, t)) : v < 2 ^ n ∧ s = toBits n v ++ t := by
  obtain ⟨w, hw, hs⟩ := writeN_of_readN h
  exact ⟨readN_lt h, by rw [← hs, writeN_eq hw]⟩

theorem all_false_replicate : ∀ (l : Bits), l.all (· == false) = true → l = List.replicate l.length false
  | [], _ => rfl
  | b :: l, h => by
    simp only [List.all_cons, Bool.and_eq_true, beq_iff_eq] at h
    have ih := all_false_replicate l h.2
    rw [List.length_cons, List.replicate_succ, h.1, ← ih]

theorem readBits_inv {n : Nat} {s t p : Bits} (h : readBits n s = .ok (p, t)) : p.length = n ∧ s = p ++ t := by
  unfold readBits at h
  split at h
  · rename_i hn
    have hn := (hasAtLeast_iff _ _).mp hn
    injection h with h
    injection h with h1 h2
    subst h1 h2
    exact ⟨by simp [List.length_take]; omega, (List.take_append_drop n s).symm⟩
  · cases h

theorem readAlignZero_inv {s t : Bits} {u : Unit} (h : readAlignZero s = .ok (u, t)) :
    s = List.replicate (s.length % 8) false ++ t := by
  unfold readAlignZero at h
  dsimp only at h
  split at h
  · rename_i hall
    injection h with h
    injection h with _ h2
    subst h2
    have hrep := all_false_replicate _ hall
    have hlen : (s.take (s.length % 8)).length = s.length % 8 := by
      simp [List.length_take]; omega
    rw [hlen] at hrep
    rw [← hrep, List.take_append_drop]
  · cases h

/-! ### ue(v) -/

theorem readUnaryAux_inv {k0 : Nat} {s : Bits} {k : Nat} {t : Bits} (h : readUnaryAux k0 s = .ok (k, t)) :
    ∃ z, k = k0 + z ∧ s = List.replicate z false ++ true :: t := by
  induction s generalizing k0 with
  | nil => simp [readUnaryAux] at h
  | cons b rest ih =>
    cases b with
    | true =>
      simp only [readUnaryAux] at h
      injection h with h
      injection h with h1 h2
      exact ⟨0, by omega, by simp [h2]⟩
    | false =>
      simp only [readUnaryAux] at h
      obtain ⟨z, hz, hs⟩ := ih h
      exact ⟨z + 1, by omega, by simp [List.replicate_succ, hs]⟩

/-- **read → write for ue(v)**: an accepted exp-Golomb code is exactly what `write_ue` emits for its value -/
theorem readUe_inv {s t : Bits} {v : Nat} (h : readUe s = .ok (v, t)) :
    ∃ w, writeUe v = .ok w ∧ s = w ++ t := by
  unfold readUe at h
  obtain ⟨k, s1, hk, h⟩ := P.bind_eq_ok.mp h
  obtain ⟨z, hz, hs⟩ := readUnaryAux_inv (k0 := 0) hk
  have hzk : k = z := by omega
  subst hzk
  split at h
  · rename_i hk0
    obtain ⟨rfl, rfl⟩ := pure_inv h
    subst hk0
    exact ⟨[true], by simp [writeUe], by simpa using hs⟩
  · rename_i hk0
    split at h
    · simp at h
    · rename_i hk64
      obtain ⟨v', s2, hv', h⟩ := P.bind_eq_ok.mp h
      obtain ⟨hlt, hs1⟩ := readN_inv hv'
      split at h
      · simp [P.panic] at h
      · rename_i hne64
        obtain ⟨rfl, rfl⟩ := pure_inv h
        have hz1 : 1 ≤ k := by omega
        have h2z : 2 ^ 1 ≤ 2 ^ k := Nat.pow_le_pow_right (by omega) hz1
        have hz64 : 2 ^ (k + 1) ≤ 2 ^ 64 := Nat.pow_le_pow_right (by omega) (by omega)
        have hsucc : 2 ^ (k + 1) = 2 * 2 ^ k := by rw [Nat.pow_succ]; omega
        have hv0 : ¬ (v' + 2 ^ k - 1 = 0) := by omega
        have hnp : ¬ (v' + 2 ^ k - 1 + 1 ≥ 2 ^ 64) := by omega
        have hv1 : v' + 2 ^ k - 1 + 1 = v' + 2 ^ k := by omega
        obtain ⟨hlo, hhi⟩ := bitLen_spec (v := v' + 2 ^ k - 1 + 1) (by omega)
        have hL : bitLen (v' + 2 ^ k - 1 + 1) - 1 = k := by
          generalize bitLen (v' + 2 ^ k - 1 + 1) - 1 = L at hlo hhi
          rw [hv1] at hlo hhi
          by_cases h1 : L < k
          · have := Nat.pow_le_pow_right (n := 2) (by omega) (show L + 1 ≤ k by omega)
            omega
          · by_cases h2 : k < L
            · have := Nat.pow_le_pow_right (n := 2) (by omega) (show k + 1 ≤ L by omega)
              omega
            · omega
        refine ⟨List.replicate k false ++ [true] ++ toBits k v', ?_, ?_⟩
        · unfold writeUe
          rw [if_neg hv0, if_neg hnp]
          simp only [hL]
          have : v' + 2 ^ k - 1 + 1 - 2 ^ k = v' := by omega
          rw [this]
        · rw [hs, hs1]; simp

/-! ### fixed-width unsigned fields -/

/-- the bits of the values `ns` at the widths `ws` -/
def encU : List Nat → List Nat → Bits
  | w :: ws, n :: ns => toBits w n ++ encU ws ns
  | _, _ => []

/-- every value fits its width -/
def bounded : List Nat → List Nat → Prop
  | w :: ws, n :: ns => n < 2 ^ w ∧ bounded ws ns
  | _, _ => True

/-- what `readFlds` over unsigned widths consumed: the values are naturals, one per width, each below
`2^width`, and the consumed bits are their fixed-width encodings -/
theorem readFlds_u_inv (ws : List Nat) {s t : Bits} {raw : List Int}
    (h : readFlds (ws.map Fld.u) s = .ok (raw, t)) :
    ∃ ns : List Nat, raw = ns.map (Nat.cast : Nat → Int) ∧ ns.length = ws.length ∧ bounded ws ns ∧
      s = encU ws ns ++ t := by
  induction ws generalizing s raw with
  | nil =>
    obtain ⟨rfl, rfl⟩ := pure_inv (show (pure [] : P (List Int)) s = .ok (raw, t) from h)
    exact ⟨[], rfl, rfl, trivial, rfl⟩
  | cons w ws ih =>
    simp only [List.map_cons, readFlds] at h
    obtain ⟨v, s1, hv, h⟩ := P.bind_eq_ok.mp h
    obtain ⟨vs, s2, hvs, h⟩ := P.bind_eq_ok.mp h
    obtain ⟨rfl, rfl⟩ := pure_inv h
    unfold readFld at hv
    obtain ⟨n, s1', hn, hv⟩ := P.bind_eq_ok.mp hv
    obtain ⟨rfl, rfl⟩ := pure_inv hv
    have hn' : readN w s = .ok (n, s1) := hn
    obtain ⟨hlt, hs⟩ := readN_inv hn'
    obtain ⟨ns, hraw, hlen, hbd, hs1⟩ := ih hvs
    refine ⟨n :: ns, ?_, ?_, ⟨hlt, hbd⟩, ?_⟩
    · rw [hraw]; rfl
    · simp [hlen]
    · rw [hs, hs1]; simp [encU]



/-! ### what `parse_block` consumed -/

/-- everything a successful `parseBlock` tells about the consumed bits and the produced block -/
theorem parseBlock_inv {allowed other : List Nat} {s t : Bits} {b : Block}
    (hp : parseBlock allowed other s = .ok (b, t)) :
    ∃ (wl : Bits) (ws ns : List Nat) (req : Nat),
      writeUe b.length = .ok wl ∧ b.level < 2 ^ 8 ∧
      validBlockLength b.level b.length = true ∧
      blockParseLayout b.level b.length = some ws ∧
      ns.length = ws.length ∧ bounded ws ns ∧
      b.vals = blockPostParse b.level (ns.map (Nat.cast : Nat → Int)) ++
                (blockDefaults b.level).drop (blockPostParse b.level (ns.map (Nat.cast : Nat → Int))).length ∧
      b.length = blockBytes b.level b.length ∧
      blockRequiredBits b.level b.length = some req ∧
      s = wl ++ (toBits 8 b.level ++ (encU ws ns ++
            (List.replicate (blockBytes b.level b.length * 8 - req) false ++ t))) := by
  unfold parseBlock at hp
  obtain ⟨len, s1, hlen, hp1⟩ := P.bind_eq_ok.mp hp
  clear hp
  obtain ⟨level, s2, hlevel, hp2⟩ := P.bind_eq_ok.mp hp1
  clear hp1
  split at hp2
  · simp at hp2
  split at hp2
  · simp at hp2
  obtain ⟨u1, s3, he1, hp3⟩ := P.bind_eq_ok.mp hp2
  clear hp2
  obtain ⟨hvl, hs3⟩ := ensure_inv he1
  rcases hlay : blockParseLayout level len with _ | widths
  · rw [hlay] at hp3; simp at hp3
  rw [hlay] at hp3
  dsimp only at hp3
  obtain ⟨raw, s4, hraw, hp4⟩ := P.bind_eq_ok.mp hp3
  clear hp3
  obtain ⟨u2, s5, he2, hp5⟩ := P.bind_eq_ok.mp hp4
  clear hp4
  obtain ⟨hbytes, hs5⟩ := ensure_inv he2
  rcases hreq : blockRequiredBits level len with _ | req
  · rw [hreq] at hp5; simp [P.panic] at hp5
  rw [hreq] at hp5
  dsimp only at hp5
  obtain ⟨pad, s6, hpad, hp6⟩ := P.bind_eq_ok.mp hp5
  clear hp5
  obtain ⟨u3, s7, he3, hp7⟩ := P.bind_eq_ok.mp hp6
  clear hp6
  obtain ⟨hall, hs7⟩ := ensure_inv he3
  obtain ⟨hb, ht⟩ := pure_inv hp7
  subst hb; subst ht
  obtain ⟨wl, hwl, hs⟩ := readUe_inv hlen
  obtain ⟨hlv, hs1⟩ := readN_inv hlevel
  obtain ⟨ns, hrawe, hnl, hbd, hs2⟩ := readFlds_u_inv widths hraw
  obtain ⟨hpl, hs4⟩ := readBits_inv hpad
  have hpadrep := all_false_replicate pad hall
  rw [hpl] at hpadrep
  subst hrawe
  have hbytes' : len = blockBytes level len := by simpa using hbytes
  refine ⟨wl, widths, ns, req, hwl, hlv, hvl, hlay, hnl, hbd, rfl, hbytes', hreq, ?_⟩
  rw [hs, hs1, ← hs3, hs2, ← hs5, hs4, hpadrep, hs7]

/-! ### what `write` emits for the fields -/

theorem writeBlockField_ne2 {level : Nat} (h2 : level ≠ 2) (w : Nat) (v : Int) :
    writeBlockField level w v = writeN w v.toNat := by
  unfold writeBlockField
  have : (level == 2 && w == 13) = false := by simp [h2]
  simp [this]

theorem blockPostParse_generic {level : Nat} (h2 : level ≠ 2) (h11 : level ≠ 11) (raw : List Int) :
    blockPostParse level raw = raw := by
  unfold blockPostParse
  split
  · rename_i heq _; exact absurd rfl h2
  · rename_i heq _; exact absurd rfl h11
  · rfl

theorem blockWriteVals_generic (level length : Nat) (vals : List Int) (h11 : level ≠ 11) :
    blockWriteVals { level, length, vals } = vals := by
  unfold blockWriteVals
  split
  · rename_i heq _; exact absurd heq h11
  · rfl

/-- unsigned fields written with `write_n`: the encodings of the values (the struct may carry more fields than
the layout writes: `zip` truncates) -/
theorem fields_generic (level : Nat) (h2 : level ≠ 2) (ws ns : List Nat) (extra : List Int)
    (hnl : ns.length = ws.length) (pf : Bits)
    (hw : wcat ((ws.zip (ns.map (Nat.cast : Nat → Int) ++ extra)).map
            (fun (p : Nat × Int) => writeBlockField level p.1 p.2)) = .ok pf) :
    pf = encU ws ns := by
  induction ws generalizing ns pf with
  | nil =>
    have := wcat_nil_ok (by simpa using hw)
    subst this
    cases ns <;> rfl
  | cons w ws ih =>
    cases ns with
    | nil => simp at hnl
    | cons n ns =>
      simp only [List.map_cons, List.cons_append, List.zip_cons_cons] at hw
      obtain ⟨pa, pr, ha, hr, rfl⟩ := wcat_cons_ok hw
      rw [writeBlockField_ne2 h2] at ha
      have hpa := writeN_eq ha
      simp only [Int.toNat_natCast] at hpa
      rw [hpa, ih ns (by simpa using hnl) pr hr]
      rfl

theorem len4 {α} {l : List α} (h : l.length = 4) : ∃ a b c d, l = [a, b, c, d] := by
  rcases l with _ | ⟨a, _ | ⟨b, _ | ⟨c, _ | ⟨d, _ | ⟨e, l⟩⟩⟩⟩⟩
  all_goals first
    | exact ⟨_, _, _, _, rfl⟩
    | (simp only [List.length_cons, List.length_nil] at h; omega)

theorem len7 {α} {l : List α} (h : l.length = 7) : ∃ a b c d e f g, l = [a, b, c, d, e, f, g] := by
  rcases l with _ | ⟨a, _ | ⟨b, _ | ⟨c, _ | ⟨d, _ | ⟨e, _ | ⟨f, _ | ⟨g, _ | ⟨x, l⟩⟩⟩⟩⟩⟩⟩⟩
  all_goals first
    | exact ⟨_, _, _, _, _, _, _, rfl⟩
    | (simp only [List.length_cons, List.length_nil] at h; omega)

/-- L2 `ms_weight`: the 13 bits read, reinterpreted as two's complement by the parser, are what
`write_signed_n(…, 13)` emits -/
theorem writeSigned13_inv {ms : Nat} (hms : ms < 2 ^ 13) {p : Bits}
    (h : writeSigned16 13 (if (ms : Int) > 4095 then (ms : Int) - 8192 else (ms : Int)) = .ok p) :
    p = toBits 13 ms := by
  unfold writeSigned16 at h
  simp only [show ¬ (13 = 16) by omega, if_false, show (13 : Nat) - 1 = 12 by rfl] at h
  have e4096 : (2 : Int) ^ 12 = 4096 := by decide
  rw [e4096] at h
  have e13 : toBits 13 ms = (ms / 2 ^ 12 % 2 == 1) :: toBits 12 (ms % 2 ^ 12) := rfl
  by_cases hbig : (ms : Int) > 4095
  · simp only [hbig, if_true] at h
    have hneg : (ms : Int) - 8192 < 0 := by omega
    have hu : ¬ ((ms : Int) - 8192 + 4096 < 0) := by omega
    simp only [hneg, if_true, hu, if_false] at h
    obtain ⟨w, hw, hp⟩ := Res.bind_eq_ok' h
    have hp := (ok_inj hp).symm
    have hw := writeN_eq hw
    have e : ((ms : Int) - 8192 + 4096).toNat = ms - 4096 := by omega
    rw [e] at hw
    have h1 : ms / 2 ^ 12 % 2 = 1 := by omega
    have h2 : ms % 2 ^ 12 = ms - 4096 := by omega
    rw [hp, hw, e13, h1, h2]
    rfl
  · simp only [hbig, if_false] at h
    have hneg : ¬ ((ms : Int) < 0) := by omega
    simp only [hneg, if_false] at h
    obtain ⟨w, hw, hp⟩ := Res.bind_eq_ok' h
    have hp := (ok_inj hp).symm
    have hw := writeN_eq hw
    simp only [Int.toNat_natCast] at hw
    have h1 : ms / 2 ^ 12 % 2 = 0 := by omega
    have h2 : ms % 2 ^ 12 = ms := by omega
    rw [hp, hw, e13, h1, h2]
    rfl


theorem writeBlockField_u {level w : Nat} (h : (level == 2 && w == 13) = false) {v : Int} {p : Bits}
    (hw : writeBlockField level w v = .ok p) : p = toBits w v.toNat := by
  unfold writeBlockField at hw
  simp only [h, Bool.false_eq_true, if_false] at hw
  exact writeN_eq hw

/-- the parsed struct of a block (post-processed values + defaults of the fields a short block does not carry) -/
def parsedVals (level : Nat) (ns : List Nat) : List Int :=
  blockPostParse level (ns.map (Nat.cast : Nat → Int)) ++
    (blockDefaults level).drop (blockPostParse level (ns.map (Nat.cast : Nat → Int))).length

/-- L2: six 12-bit fields and the 13-bit two's complement `ms_weight` -/
theorem fields_inv_l2 (len : Nat) (ns : List Nat) (hnl : ns.length = 7)
    (hbd : bounded [12, 12, 12, 12, 12, 12, 13] ns) (pf : Bits)
    (hw : wcat (([12, 12, 12, 12, 12, 12, 13].zip
            (blockWriteVals { level := 2, length := len, vals := parsedVals 2 ns })).map
            (fun (p : Nat × Int) => writeBlockField 2 p.1 p.2)) = .ok pf) :
    pf = encU [12, 12, 12, 12, 12, 12, 13] ns := by
  obtain ⟨a, b, c, d, e, f, g, rfl⟩ := len7 hnl
  simp only [bounded] at hbd
  simp only [parsedVals, List.map_cons, List.map_nil, blockPostParse, blockDefaults, List.drop_nil,
    List.append_nil, blockWriteVals, List.zip_cons_cons, List.zip_nil_right] at hw
  obtain ⟨p1, r1, h1, hw1, rfl⟩ := wcat_cons_ok hw
  clear hw
  obtain ⟨p2, r2, h2, hw2, rfl⟩ := wcat_cons_ok hw1
  clear hw1
  obtain ⟨p3, r3, h3, hw3, rfl⟩ := wcat_cons_ok hw2
  clear hw2
  obtain ⟨p4, r4, h4, hw4, rfl⟩ := wcat_cons_ok hw3
  clear hw3
  obtain ⟨p5, r5, h5, hw5, rfl⟩ := wcat_cons_ok hw4
  clear hw4
  obtain ⟨p6, r6, h6, hw6, rfl⟩ := wcat_cons_ok hw5
  clear hw5
  obtain ⟨p7, r7, h7, hw7, rfl⟩ := wcat_cons_ok hw6
  clear hw6
  have := wcat_nil_ok hw7
  subst this
  have k : (2 == 2 && 12 == 13) = false := by decide
  have e1 := writeBlockField_u k h1
  have e2 := writeBlockField_u k h2
  have e3 := writeBlockField_u k h3
  have e4 := writeBlockField_u k h4
  have e5 := writeBlockField_u k h5
  have e6 := writeBlockField_u k h6
  have e7 : p7 = toBits 13 g := by
    have h7' : writeSigned16 13 (if (g : Int) > 4095 then (g : Int) - 8192 else (g : Int)) = .ok p7 := h7
    exact writeSigned13_inv hbd.2.2.2.2.2.2.1 h7'
  simp only [Int.toNat_natCast] at e1 e2 e3 e4 e5 e6
  subst e1 e2 e3 e4 e5 e6 e7
  simp [encU]

/-- L11: the whitepoint byte carries `reference_mode_flag` in bit 4; the writer folds it back -/
theorem fields_inv_l11 (len : Nat) (ns : List Nat) (hnl : ns.length = 4)
    (hbd : bounded [8, 8, 8, 8] ns) (pf : Bits)
    (hw : wcat (([8, 8, 8, 8].zip
            (blockWriteVals { level := 11, length := len, vals := parsedVals 11 ns })).map
            (fun (p : Nat × Int) => writeBlockField 11 p.1 p.2)) = .ok pf) :
    pf = encU [8, 8, 8, 8] ns := by
  obtain ⟨ct, wp, r2, r3, rfl⟩ := len4 hnl
  simp only [bounded] at hbd
  have k : (11 == 2 && 8 == 13) = false := by decide
  simp only [parsedVals, List.map_cons, List.map_nil, blockPostParse] at hw
  by_cases hwp : (wp : Int) > 15
  · simp only [hwp, if_true, blockDefaults, List.drop_nil,
      List.append_nil, blockWriteVals, List.zip_cons_cons, List.zip_nil_right, List.map_cons, List.map_nil] at hw
    obtain ⟨p1, q1, h1, hw1, rfl⟩ := wcat_cons_ok hw
    clear hw
    obtain ⟨p2, q2, h2, hw2, rfl⟩ := wcat_cons_ok hw1
    clear hw1
    obtain ⟨p3, q3, h3, hw3, rfl⟩ := wcat_cons_ok hw2
    clear hw2
    obtain ⟨p4, q4, h4, hw4, rfl⟩ := wcat_cons_ok hw3
    clear hw3
    have := wcat_nil_ok hw4
    subst this
    have e1 := writeBlockField_u k h1
    have e2 := writeBlockField_u k h2
    have e3 := writeBlockField_u k h3
    have e4 := writeBlockField_u k h4
    have hx : ((((wp : Int) - 16).toNat + (if ((1 : Int) != 0) = true then 16 else 0) : Int) % 256).toNat = wp := by
      have : ((1 : Int) != 0) = true := by decide
      simp only [this, if_true]
      omega
    rw [hx] at e2
    simp only [Int.toNat_natCast] at e1 e3 e4
    subst e1 e2 e3 e4
    simp [encU]
  · simp only [hwp, if_false, blockDefaults, List.drop_nil,
      List.append_nil, blockWriteVals, List.zip_cons_cons, List.zip_nil_right, List.map_cons, List.map_nil] at hw
    obtain ⟨p1, q1, h1, hw1, rfl⟩ := wcat_cons_ok hw
    clear hw
    obtain ⟨p2, q2, h2, hw2, rfl⟩ := wcat_cons_ok hw1
    clear hw1
    obtain ⟨p3, q3, h3, hw3, rfl⟩ := wcat_cons_ok hw2
    clear hw2
    obtain ⟨p4, q4, h4, hw4, rfl⟩ := wcat_cons_ok hw3
    clear hw3
    have := wcat_nil_ok hw4
    subst this
    have e1 := writeBlockField_u k h1
    have e2 := writeBlockField_u k h2
    have e3 := writeBlockField_u k h3
    have e4 := writeBlockField_u k h4
    have hx : ((((wp : Int)).toNat + (if ((0 : Int) != 0) = true then 16 else 0) : Int) % 256).toNat = wp := by
      have : ((0 : Int) != 0) = false := by decide
      simp only [this, Bool.false_eq_true, if_false]
      omega
    rw [hx] at e2
    simp only [Int.toNat_natCast] at e1 e3 e4
    subst e1 e2 e3 e4
    simp [encU]


/-- **all levels**: the fields `write` emits for a parsed block are the field bits `parse` consumed -/
theorem fields_inv (level len : Nat) (ws ns : List Nat)
    (hlay : blockParseLayout level len = some ws) (hnl : ns.length = ws.length) (hbd : bounded ws ns)
    (pf : Bits)
    (hw : wcat (blockWriteFields { level := level, length := len, vals := parsedVals level ns }) = .ok pf) :
    pf = encU ws ns := by
  unfold blockWriteFields at hw
  dsimp only at hw
  rw [← layouts_agree, hlay] at hw
  dsimp only at hw
  by_cases h2 : level = 2
  · subst h2
    simp only [blockParseLayout, Option.some.injEq] at hlay
    subst hlay
    exact fields_inv_l2 len ns hnl hbd pf hw
  by_cases h11 : level = 11
  · subst h11
    simp only [blockParseLayout, Option.some.injEq] at hlay
    subst hlay
    exact fields_inv_l11 len ns hnl hbd pf hw
  · rw [blockWriteVals_generic _ _ _ h11] at hw
    unfold parsedVals at hw
    rw [blockPostParse_generic h2 h11] at hw
    exact fields_generic level h2 ws ns _ hnl pf hw

end Dovi.PwDm

namespace Dovi
open PwDm

/-- **parse → write for one extension block** (every level, every length variant): whenever `parse_block`
accepts the bits `s` (leaving `t`) and `write` accepts the parsed block, the written bits are exactly the
consumed ones. No side condition: L2 `ms_weight` (13-bit two's complement), the L11 whitepoint byte
(`reference_mode_flag` in bit 4; bytes ≥ 32 are parsed but rejected by `validate`, so no write exists), the
defaults appended to short L8/L9/L10 blocks (not written) and the zero padding are all inverted exactly. -/
theorem writeBlock_parseBlock (allowed other : List Nat) (s t : Bits) (b : Block)
    (hp : parseBlock allowed other s = .ok (b, t)) (w : Bits) (hw : writeBlock b = .ok w) : s = w ++ t := by
  obtain ⟨wl, ws, ns, req, hwl, hlt, hvl, hlay, hnl, hbd, hvals, hbytes, hreq, hs⟩ := parseBlock_inv hp
  obtain ⟨level, len, vals⟩ := b
  dsimp only at hwl hlt hvl hlay hvals hbytes hreq hs
  unfold writeBlock at hw
  dsimp only at hw
  split at hw
  · cases hw
  rw [hreq] at hw
  dsimp only at hw
  split at hw
  · cases hw
  rw [← hbytes] at hw
  obtain ⟨p1, r1, h1, hw1, rfl⟩ := wcat_cons_ok hw
  clear hw
  obtain ⟨p2, r2, h2, hw2, rfl⟩ := wcat_cons_ok hw1
  clear hw1
  obtain ⟨p3, r3, h3, hw3, rfl⟩ := wcat_cons_ok hw2
  clear hw2
  obtain ⟨p4, r4, h4, hw4, rfl⟩ := wcat_cons_ok hw3
  clear hw3
  have := wcat_nil_ok hw4
  subst this
  rw [hwl] at h1
  have e1 := ok_inj h1
  have e2 := writeN_eq h2
  have e4 := ok_inj h4
  split at h3
  · subst hvals
    have e3 := fields_inv level len ws ns hlay hnl hbd p3 h3
    rw [hs, ← e1, e2, e3, ← e4, ← hbytes]
    simp
  · cases h3

end Dovi

namespace Dovi.PwDm

/-! ### containers -/

theorem blocks_inv (allowed other : List Nat) (n : Nat) {s t : Bits} {bs : List Block}
    (h : repeatP n (parseBlock allowed other) s = .ok (bs, t)) (w : Bits)
    (hw : wcat (bs.map writeBlock) = .ok w) : s = w ++ t := by
  induction n generalizing s bs w with
  | zero =>
    obtain ⟨rfl, rfl⟩ := pure_inv (show (pure [] : P (List Block)) s = .ok (bs, t) from h)
    have := wcat_nil_ok (by simpa using hw)
    subst this
    rfl
  | succ n ih =>
    simp only [repeatP] at h
    obtain ⟨b, s1, hb, h1⟩ := P.bind_eq_ok.mp h
    obtain ⟨rest, s2, hrest, h2⟩ := P.bind_eq_ok.mp h1
    obtain ⟨hbs, ht⟩ := pure_inv h2
    subst hbs
    subst ht
    obtain ⟨wb, wr, hwb, hwr, rfl⟩ := wcat_cons_ok (by simpa using hw)
    rw [writeBlock_parseBlock allowed other s s1 b hb wb hwb, ih hrest wr hwr]
    simp

/-! ### the main payload of `vdr_dm_data` -/

theorem readFld_inv {f : Fld} {s t : Bits} {v : Int} (h : readFld f s = .ok (v, t)) :
    ∃ n, n < 2 ^ f.width ∧ v = f.decode n ∧ s = toBits f.width n ++ t := by
  unfold readFld at h
  obtain ⟨n, s1, hn, h1⟩ := P.bind_eq_ok.mp h
  obtain ⟨hv, ht⟩ := pure_inv h1
  subst ht
  obtain ⟨hlt, hs⟩ := readN_inv hn
  exact ⟨n, hlt, hv, hs⟩

/-- a decoded field is written back as the bits it was decoded from (`.s16`: `v ≥ 32768 → v - 65536` is undone
by `write_signed_n(…, 16)` = the low 16 bits) -/
theorem writeFld_decode {f : Fld} {n : Nat} (hn : n < 2 ^ f.width) {p : Bits}
    (h : writeFld f (f.decode n) = .ok p) : p = toBits f.width n := by
  cases f with
  | u w =>
    have h' : writeN w ((n : Int)).toNat = .ok p := h
    rw [Int.toNat_natCast] at h'
    exact writeN_eq h'
  | s16 =>
    have hn' : n < 65536 := hn
    simp only [writeFld, writeSigned16, if_true] at h
    have hp := (ok_inj h).symm
    rw [hp]
    show toBits 16 _ = toBits 16 n
    congr 1
    simp only [Fld.decode]
    split <;> omega

theorem readFlds_inv (fs : List Fld) {s t : Bits} {vs : List Int}
    (h : readFlds fs s = .ok (vs, t)) (w : Bits)
    (hw : wcat ((fs.zip vs).map (fun (p : Fld × Int) => writeFld p.1 p.2)) = .ok w) : s = w ++ t := by
  induction fs generalizing s vs w with
  | nil =>
    obtain ⟨rfl, rfl⟩ := pure_inv (show (pure [] : P (List Int)) s = .ok (vs, t) from h)
    have := wcat_nil_ok (by simpa using hw)
    subst this
    rfl
  | cons f fs ih =>
    simp only [readFlds] at h
    obtain ⟨v, s1, hv, h1⟩ := P.bind_eq_ok.mp h
    obtain ⟨vs', s2, hvs, h2⟩ := P.bind_eq_ok.mp h1
    obtain ⟨hvs', ht⟩ := pure_inv h2
    subst hvs'
    subst ht
    simp only [List.zip_cons_cons, List.map_cons] at hw
    obtain ⟨pa, pr, ha, hr, rfl⟩ := wcat_cons_ok hw
    obtain ⟨n, hlt, hvd, hs⟩ := readFld_inv hv
    subst hvd
    rw [hs, writeFld_decode hlt ha, ih hvs pr hr]
    simp

end Dovi.PwDm

namespace Dovi
open PwDm

/-- **parse → write for a DM container** at bit position `pos` of a byte-aligned stream: the block count, the
zero bits up to the byte boundary (checked by the parser, re-created by `alignPad`) and every block. -/
theorem writeContainer_parseContainer (allowed other : List Nat) (pos : Nat) (s t : Bits) (c : Container)
    (hp : parseContainer allowed other s = .ok (c, t)) (halign : (pos + s.length) % 8 = 0)
    (w : Bits) (hw : writeContainer pos c = .ok w) : s = w ++ t := by
  unfold parseContainer at hp
  obtain ⟨n, s1, hn, hp1⟩ := P.bind_eq_ok.mp hp
  clear hp
  obtain ⟨avail, s2, hav, hp2⟩ := P.bind_eq_ok.mp hp1
  clear hp1
  obtain ⟨_, hs2⟩ := available_inv hav
  obtain ⟨u1, s3, he, hp3⟩ := P.bind_eq_ok.mp hp2
  clear hp2
  obtain ⟨_, hs3⟩ := ensure_inv he
  obtain ⟨u2, s4, hal, hp4⟩ := P.bind_eq_ok.mp hp3
  clear hp3
  obtain ⟨bs, s5, hbs, hp5⟩ := P.bind_eq_ok.mp hp4
  clear hp4
  obtain ⟨hc, ht⟩ := pure_inv hp5
  subst hc
  subst ht
  obtain ⟨wn, hwn, hs⟩ := readUe_inv hn
  unfold writeContainer at hw
  dsimp only at hw
  obtain ⟨un, hun, hw1⟩ := Res.bind_eq_ok' hw
  obtain ⟨wb, hwb, hw2⟩ := Res.bind_eq_ok' hw1
  have hw3 := ok_inj hw2
  rw [hwn] at hun
  have hun' := ok_inj hun
  subst hun'
  have hblocks := blocks_inv allowed other n hbs wb hwb
  rw [hs3, hs2] at hal
  have hpad := readAlignZero_inv hal
  have hk : (8 - (pos + wn.length) % 8) % 8 = s1.length % 8 := by
    rw [hs, List.length_append] at halign
    omega
  have hap : alignPad (pos + wn.length) = List.replicate (s1.length % 8) false := by
    unfold alignPad
    rw [hk]
  have e : s1 = List.replicate (s1.length % 8) false ++ (wb ++ t) := by
    rw [← hblocks]
    exact hpad
  rw [← hw3, hap, hs, List.append_assoc, List.append_assoc, ← e]

end Dovi

namespace Dovi
open PwDm

/-- **parse → write for the whole `vdr_dm_data` payload**: the three ids, the 32 main fields (absent when the DM
header is compressed; `d.compressed` is set from the header by the parser, so the writer skips them too), the
CM v2.9 container and the CM v4.0 container (present in the value iff the parser saw `available ≥ 56`). -/
theorem writeDmData_parseDmData (h : Header) (pos : Nat) (s t : Bits) (d : DmData)
    (hp : parseDmData h s = .ok (d, t)) (halign : (pos + s.length) % 8 = 0)
    (w : Bits) (hw : writeDmData pos d = .ok w) : s = w ++ t := by
  unfold parseDmData at hp
  obtain ⟨aff, s1, haff, hp1⟩ := P.bind_eq_ok.mp hp
  clear hp
  obtain ⟨cur, s2, hcur, hp2⟩ := P.bind_eq_ok.mp hp1
  clear hp1
  obtain ⟨scn, s3, hscn, hp3⟩ := P.bind_eq_ok.mp hp2
  clear hp2
  obtain ⟨main, s4, hmain, hp4⟩ := P.bind_eq_ok.mp hp3
  clear hp3
  obtain ⟨c29, s5, h29, hp5⟩ := P.bind_eq_ok.mp hp4
  clear hp4
  obtain ⟨avail, s6, hav, hp6⟩ := P.bind_eq_ok.mp hp5
  clear hp5
  obtain ⟨havail, hs6⟩ := available_inv hav
  obtain ⟨c40, s7, h40, hp7⟩ := P.bind_eq_ok.mp hp6
  clear hp6
  obtain ⟨hd, ht⟩ := pure_inv hp7
  subst hd
  subst ht
  -- the writer
  unfold writeDmData at hw
  dsimp only at hw
  obtain ⟨a, ha, hw1⟩ := Res.bind_eq_ok' hw
  clear hw
  obtain ⟨b, hb, hw2⟩ := Res.bind_eq_ok' hw1
  clear hw1
  obtain ⟨cw, hc, hw3⟩ := Res.bind_eq_ok' hw2
  clear hw2
  have hw4 := ok_inj hw3
  obtain ⟨ids, wm, hids, hwm, rfl⟩ := wcat_append_ok ha
  obtain ⟨pa, r1, hpa, hids1, rfl⟩ := wcat_cons_ok hids
  obtain ⟨pc, r2, hpc, hids2, rfl⟩ := wcat_cons_ok hids1
  obtain ⟨ps, r3, hps, hids3, rfl⟩ := wcat_cons_ok hids2
  have := wcat_nil_ok hids3
  subst this
  -- the three ids
  obtain ⟨wa, hwa, hsa⟩ := readUe_inv haff
  obtain ⟨wc, hwc, hsc⟩ := readUe_inv hcur
  obtain ⟨wsn, hwsn, hss⟩ := readUe_inv hscn
  rw [hwa] at hpa
  rw [hwc] at hpc
  rw [hwsn] at hps
  have e1 := ok_inj hpa
  have e2 := ok_inj hpc
  have e3 := ok_inj hps
  subst e1 e2 e3
  -- the main payload
  have hm : s3 = wm ++ s4 := by
    cases hcmp : (h.reserved_zero_3bits == 1) with
    | true =>
      simp only [hcmp, if_true, Bool.not_true, Bool.false_eq_true, if_false] at hmain hwm
      obtain ⟨_, hs4⟩ := pure_inv hmain
      have := wcat_nil_ok hwm
      subst this
      simp [hs4]
    | false =>
      simp only [hcmp, Bool.false_eq_true, if_false, Bool.not_false, if_true] at hmain hwm
      rw [main_layouts_agree] at hmain
      exact readFlds_inv dmMainWriteLayout hmain wm hwm
  -- CM v2.9
  have hlen : s.length = (wa ++ (wc ++ (wsn ++ [])) ++ wm).length + s4.length := by
    rw [hsa, hsc, hss, hm]
    simp only [List.length_append, List.length_nil]
    omega
  have hal29 : (pos + (wa ++ (wc ++ (wsn ++ [])) ++ wm).length + s4.length) % 8 = 0 := by
    rw [hlen] at halign
    omega
  have h29' := writeContainer_parseContainer cmv29Levels cmv40Levels _ s4 s5 c29 h29 hal29 b hb
  -- CM v4.0
  have h40' : s5 = cw ++ t := by
    rw [hs6] at h40
    split at h40
    · obtain ⟨c, s8, hc8, hp8⟩ := P.bind_eq_ok.mp h40
      obtain ⟨hc40, ht⟩ := pure_inv hp8
      subst hc40
      subst ht
      dsimp only at hc
      have hal40 : (pos + (wa ++ (wc ++ (wsn ++ [])) ++ wm).length + b.length + s5.length) % 8 = 0 := by
        have hl4 : s4.length = b.length + s5.length := by rw [h29', List.length_append]
        omega
      exact writeContainer_parseContainer cmv40Levels cmv29Levels _ s5 t c hc8 hal40 cw hc
    · obtain ⟨hc40, ht⟩ := pure_inv h40
      subst hc40
      subst ht
      dsimp only at hc
      have := ok_inj hc
      subst this
      rfl
  rw [← hw4, hsa, hsc, hss, hm, h29', h40']
  simp

end Dovi

namespace Dovi.PwDm

/-! ### concrete checks

* `exL11`: an L11 block whose whitepoint byte is 32 is *accepted* by the parser (`wp - 16 = 16`,
  `reference_mode_flag = 1`) but `validate` (`whitepoint ≤ 15`) makes every write fail — which is why
  `writeBlock_parseBlock` needs no hypothesis on the whitepoint byte: there is no successful write to compare.
* `exL2`: non-vacuity of the two's complement case — `ms_weight = -1` (13 one bits) is parsed, accepted by
  `validate` and re-encoded bit-exactly. -/

def exL11 : Bits := toBits 5 5 ++ toBits 8 11 ++ toBits 8 0 ++ toBits 8 32 ++ toBits 8 0 ++ toBits 8 0

theorem exL11_parsed_not_writable :
    parseBlock cmv40Levels cmv29Levels exL11 =
      .ok ({ level := 11, length := 4, vals := [0, 16, 1, 0, 0] }, []) ∧
    writeBlock { level := 11, length := 4, vals := [0, 16, 1, 0, 0] } = .error := by decide

def exL2 : Bits :=
  [false, false, false] ++ toBits 4 12 ++ toBits 8 2 ++ toBits 72 0 ++ toBits 13 8191 ++ [false, false, false]

theorem exL2_roundtrip :
    parseBlock cmv29Levels cmv40Levels exL2 =
      .ok ({ level := 2, length := 11, vals := [0, 0, 0, 0, 0, 0, -1] }, []) ∧
    writeBlock { level := 2, length := 11, vals := [0, 0, 0, 0, 0, 0, -1] } = .ok exL2 := by decide

end Dovi.PwDm
