import DoviModel.Proofs.ParseWf
import DoviModel.Proofs.ConvertProof
import DoviModel.Model.Generate
import DoviModel.Model.Editor
import DoviModel.Props.C12
/-!
# `RpuWf` is preserved by the operations of the tool

`parseRpu_writeRpu` (write → parse) assumes the shape predicate `RpuWf`; `parseRpu_wf` proves it for every parse
result.  This file carries `RpuWf` through the conversions (`convert_with_mode`), the DM-level block edits, the
RPU-level edits and the generator, so that the write → parse theorem reaches every RPU the tool can build from a
parsed one — with the exact side conditions under which that is true (each one documented by a witness in
`Props/C03.lean` / `Props/C04.lean`: findings F14, F15, F16).
-/
namespace Dovi.WfPreserve
open Dovi Dovi.ConvertProof

/-! ## header -/

/-- the two flags a conversion sets are carried by the syntax: sequence info present and `rpu_format & 0x700 = 0` -/
def HdrSyntax (h : Header) : Prop := h.vdr_seq_info_present_flag = true ∧ h.rpu_format &&& 0x700 = 0

instance (h : Header) : Decidable (HdrSyntax h) := by unfold HdrSyntax; infer_instance

/-- under `HdrSyntax`, `Header.Wf` does not look at the four fields the conversions edit -/
theorem Wf_edit (h : Header) (a b c : Bool) (p : Nat) (hs : HdrSyntax h) (hw : h.Wf = true) :
    ({ h with el_spatial_resampling_filter_flag := a, disable_residual_flag := b, vdr_rpu_profile := p,
              bl_video_full_range_flag := c } : Header).Wf = true := by
  obtain ⟨h1, h2⟩ := hs
  simp only [Header.Wf, h1, h2] at hw ⊢
  exact hw

theorem Wf_mel (h : Header) (hs : HdrSyntax h) (hw : h.Wf = true) : (melHeader h).Wf = true :=
  Wf_edit h true false h.bl_video_full_range_flag h.vdr_rpu_profile hs hw

theorem Wf_p81 (h : Header) (hs : HdrSyntax h) (hw : h.Wf = true) : (p81Header h).Wf = true :=
  Wf_edit h false true h.bl_video_full_range_flag h.vdr_rpu_profile hs hw

theorem Wf_p5 (h : Header) (hs : HdrSyntax h) (hw : h.Wf = true) : (p5Header h).Wf = true :=
  Wf_edit h false true false 1 hs hw

theorem Wf_p84 (h : Header) : (p84Header h).Wf = true := by
  simp [Header.Wf, p84Header, p8DefaultHeader]

/-- without `HdrSyntax` a well-formed header has both flags (and the bit depths) at their defaults -/
theorem fmtDefaults_of_not_syntax (h : Header) (hw : h.Wf = true) (hs : ¬ HdrSyntax h) : h.fmtDefaults = true := by
  unfold HdrSyntax at hs
  simp only [Header.Wf, Bool.and_eq_true] at hw
  obtain ⟨⟨_, hw⟩, _⟩ := hw
  cases hq : h.vdr_seq_info_present_flag with
  | false => simp only [hq, Bool.false_eq_true, if_false, Bool.and_eq_true] at hw; exact hw.2
  | true =>
    have hf : ¬ (h.rpu_format &&& 0x700 = 0) := fun e => hs ⟨hq, e⟩
    simp only [hq, if_true, Bool.and_eq_true, beq_iff_eq, hf, if_false] at hw
    exact hw.2

/-- every header the validator accepts (`bl_bit_depth_minus8 = 2`) carries the flags in its syntax -/
theorem syntax_of_bl (h : Header) (hw : h.Wf = true) (hb : h.bl_bit_depth_minus8 = 2) : HdrSyntax h := by
  by_cases hs : HdrSyntax h
  · exact hs
  · have := fmtDefaults_of_not_syntax h hw hs
    simp [Header.fmtDefaults, hb] at this

theorem syntax_of_validate (h : Header) (p : Nat) (hw : h.Wf = true) (hv : h.validate p = true) : HdrSyntax h := by
  apply syntax_of_bl h hw
  simp only [Header.validate, Bool.and_eq_true, beq_iff_eq] at hv
  exact hv.1.1.1.2

/-! ## mapping -/

theorem coefIntsOk_congr (q : Int → Bool) {h h' : Header} (hc : h'.coefficient_data_type = h.coefficient_data_type)
    (n : Nat) (l : List Int) : coefIntsOk q h' n l = coefIntsOk q h n l := by
  simp only [coefIntsOk, hc]

theorem CurveWf_congr (q : Int → Bool) {h h' : Header} (hc : h'.coefficient_data_type = h.coefficient_data_type)
    (c : Curve) : CurveWf q h' c = CurveWf q h c := by
  have e0 : coefIntsOk q h' = coefIntsOk q h := by
    funext n l; exact coefIntsOk_congr q hc n l
  have e1 : ∀ p, polyPieceWf q h' p = polyPieceWf q h p := by
    intro p; funext i; simp only [polyPieceWf, e0]
  have e2 : ∀ m, mmrPieceWf q h' m = mmrPieceWf q h m := by
    intro m; funext i; simp only [mmrPieceWf, e0, hc]
  simp only [CurveWf, PolyWf, MmrWf, e1, e2, hc]

theorem NlqWf_congr {h h' : Header} (hc : h'.coefficient_data_type = h.coefficient_data_type) (n : Nlq) :
    NlqWf h' n = NlqWf h n := by
  simp only [NlqWf, nlqIntsOk, hc]

/-- `MappingWfG` looks at three header fields only -/
theorem MappingWfG_congr (q : Int → Bool) {h h' : Header}
    (hc : h'.coefficient_data_type = h.coefficient_data_type) (hf : h'.rpu_format = h.rpu_format)
    (hd : h'.disable_residual_flag = h.disable_residual_flag) (m : Mapping) :
    MappingWfG q h' m = MappingWfG q h m := by
  have e1 : CurveWf q h' = CurveWf q h := funext (CurveWf_congr q hc)
  have e2 : NlqWf h' = NlqWf h := funext (NlqWf_congr hc)
  simp only [MappingWfG, e1, e2, hf, hd]

/-- the parts of `MappingWfG` -/
theorem MappingWfG_iff (q : Int → Bool) (h : Header) (m : Mapping) :
    MappingWfG q h m = true ↔
      m.curves.length = 3 ∧ (∀ c ∈ m.curves, CurveWf q h c = true) ∧
      (if (h.rpu_format &&& 0x700 == 0 && !h.disable_residual_flag) = true then
        m.nlq_method_idc = some 0 ∧ m.nlq_num_pivots_minus2 = some 0 ∧
        (∃ pv, m.nlq_pred_pivot_value = some pv ∧ pv.length = 2) ∧ (∃ n, m.nlq = some n ∧ NlqWf h n = true)
       else m.nlq_method_idc = none ∧ m.nlq_num_pivots_minus2 = none ∧ m.nlq_pred_pivot_value = none ∧ m.nlq = none) := by
  unfold MappingWfG
  cases hcnd : (h.rpu_format &&& 0x700 == 0 && !h.disable_residual_flag) with
  | true =>
    simp only [if_true, Bool.and_eq_true, beq_iff_eq, List.all_eq_true]
    cases m.nlq_pred_pivot_value <;> cases m.nlq <;> simp [and_assoc]
  | false =>
    simp only [Bool.false_eq_true, if_false, Bool.and_eq_true, beq_iff_eq, List.all_eq_true, and_assoc]

/-! ### the mapping edits of the conversions -/

/-- the component `set_empty_p81_mapping` installs -/
def p81Curve : Curve :=
  { num_pivots_minus2 := 0, pivots := [0, 1023], mapping_idc := .polynomial,
    polynomial := some p81PolyCurve, mmr := none }

theorem setEmptyP81_curves (m : Mapping) : m.setEmptyP81.curves = m.curves.map fun _ => p81Curve := rfl

/-- the identity component is well formed exactly because its integer parts `[0, 1]` are coded (type 0) -/
theorem CurveWf_p81Curve (h : Header) (hc : h.coefficient_data_type = 0) : CurveWf seExact h p81Curve = true := by
  have e : CurveWf seExact h p81Curve = CurveWf seExact ({} : Header) p81Curve := CurveWf_congr seExact hc p81Curve
  rw [e]; decide

/-- … and is not with any other coefficient type (F14) -/
theorem CurveWf_p81Curve_iff (h : Header) : CurveWf seExact h p81Curve = true ↔ h.coefficient_data_type = 0 := by
  refine ⟨fun hw => ?_, CurveWf_p81Curve h⟩
  cases hq : (h.coefficient_data_type == 0) with
  | true => simpa using hq
  | false =>
    simp [CurveWf, p81Curve, p81PolyCurve, PolyWf, polyPieceWf, coefIntsOk, hq] at hw

theorem MappingWf_empty (h : Header) (m : Mapping) (hc : h.coefficient_data_type = 0)
    (hw : MappingWf h m = true) : MappingWf h m.setEmptyP81 = true := by
  unfold MappingWf at hw ⊢
  rw [MappingWfG_iff] at hw ⊢
  obtain ⟨h1, _, h3⟩ := hw
  refine ⟨by rw [setEmptyP81_curves, List.length_map]; exact h1, ?_, h3⟩
  intro c hcm
  rw [setEmptyP81_curves, List.mem_map] at hcm
  obtain ⟨_, _, rfl⟩ := hcm
  exact CurveWf_p81Curve h hc

theorem MappingWf_strip (h h' : Header) (m : Mapping) (hc : h'.coefficient_data_type = h.coefficient_data_type)
    (hd : h'.disable_residual_flag = true) (hw : MappingWf h m = true) : MappingWf h' (stripNlq m) = true := by
  unfold MappingWf at hw ⊢
  rw [MappingWfG_iff] at hw ⊢
  obtain ⟨h1, h2, _⟩ := hw
  refine ⟨h1, fun c hcm => by rw [CurveWf_congr seExact hc]; exact h2 c hcm, ?_⟩
  simp [hd, stripNlq]

theorem NlqWf_melDefault (h : Header) (hc : h.coefficient_data_type = 0) : NlqWf h Nlq.melDefault = true := by
  simp [NlqWf, nlqIntsOk, hc, Nlq.melDefault]

theorem NlqWf_melDefault_iff (h : Header) : NlqWf h Nlq.melDefault = true ↔ h.coefficient_data_type = 0 := by
  refine ⟨fun hw => ?_, NlqWf_melDefault h⟩
  cases hq : (h.coefficient_data_type == 0) with
  | true => simpa using hq
  | false => simp [NlqWf, nlqIntsOk, hq, Nlq.melDefault] at hw

theorem MappingWf_mel (h h' : Header) (m : Mapping) (hc : h'.coefficient_data_type = h.coefficient_data_type)
    (hc0 : h.coefficient_data_type = 0)
    (hcond : (h'.rpu_format &&& 0x700 == 0 && !h'.disable_residual_flag) = true)
    (hw : MappingWf h m = true) : MappingWf h' (melMapping m) = true := by
  unfold MappingWf at hw ⊢
  rw [MappingWfG_iff] at hw ⊢
  obtain ⟨h1, h2, _⟩ := hw
  refine ⟨h1, fun c hcm => by rw [CurveWf_congr seExact hc]; exact h2 c hcm, ?_⟩
  rw [if_pos hcond]
  exact ⟨rfl, rfl, ⟨_, rfl, rfl⟩, ⟨_, rfl, NlqWf_melDefault h' (by rw [hc, hc0])⟩⟩

/-- the mapping clause of `RpuWf` after a header edit `h'` and a mapping edit `f` -/
theorem mapping_clause_map {r : Rpu} (hwf : RpuWf r) (h' : Header) (f : Mapping → Mapping)
    (hu : h'.use_prev_vdr_rpu_flag = r.header.use_prev_vdr_rpu_flag)
    (hf : ∀ m, r.header.use_prev_vdr_rpu_flag = false → r.rpu_data_mapping = some m →
            MappingWf r.header m = true → MappingWf h' (f m) = true) :
    if h'.use_prev_vdr_rpu_flag = true then r.rpu_data_mapping.map f = none
    else ∃ m, r.rpu_data_mapping.map f = some m ∧ MappingWf h' m = true := by
  have hm := hwf.mapping
  rw [hu]
  cases hq : r.header.use_prev_vdr_rpu_flag with
  | true =>
    simp only [hq, if_true] at hm ⊢
    rw [hm]; rfl
  | false =>
    simp only [hq, Bool.false_eq_true, if_false] at hm ⊢
    obtain ⟨m, hmm, hmw⟩ := hm
    exact ⟨f m, by rw [hmm]; rfl, hf m hq hmm hmw⟩

/-! ## DM payload -/

/-- what the parser reads back for the 32 main fields -/
def mainFix (main : List Int) : List Int :=
  (dmMainWriteLayout.zip main).map (fun p => p.1.decode (fldRaw p.1 p.2))

theorem map_eq_self_iff {α} {f : α → α} {l : List α} : l.map f = l ↔ ∀ a ∈ l, f a = a := by
  have h : l.map f = l.map id ↔ ∀ a ∈ l, f a = id a := List.map_inj_left
  simpa using h

theorem Container.reparsed_eq_iff (c : Container) :
    c.reparsed = c ↔ c.num_ext_blocks = c.blocks.length ∧ ∀ b ∈ c.blocks, b.reparsed = b := by
  cases c with
  | mk n bs =>
    simp only [Container.reparsed, Container.mk.injEq]
    constructor
    · rintro ⟨h1, h2⟩
      exact ⟨h1.symm, map_eq_self_iff.mp h2⟩
    · rintro ⟨h1, h2⟩
      exact ⟨h1.symm, map_eq_self_iff.mpr h2⟩

theorem reparsed_eq_iff (d : DmData) :
    d.reparsed = d ↔
      (if d.compressed = true then List.replicate 32 0 else mainFix d.main) = d.main ∧
      d.cmv29.map Container.reparsed = d.cmv29 ∧ d.cmv40.map Container.reparsed = d.cmv40 := by
  cases d
  simp only [DmData.reparsed, mainFix, DmData.mk.injEq, true_and]

theorem decode_fldRaw_conv (f : Fld) (v : Int) (h : f.decode (fldRaw f v) = v) : fldInRange f v := by
  cases f with
  | u n =>
    have h' : ((v.toNat : Nat) : Int) = v := h
    show 0 ≤ v
    omega
  | s16 =>
    have h1 : 0 ≤ v % 65536 ∧ v % 65536 < 65536 := ⟨Int.emod_nonneg _ (by omega), Int.emod_lt_of_pos _ (by omega)⟩
    have h' : (if (v % 65536).toNat ≥ 32768 then (((v % 65536).toNat : Nat) : Int) - 65536
               else (((v % 65536).toNat : Nat) : Int)) = v := h
    show -32768 ≤ v ∧ v < 32768
    split at h' <;> omega

instance (f : Fld) (v : Int) : Decidable (fldInRange f v) :=
  match f with
  | .u _ => inferInstanceAs (Decidable (0 ≤ v))
  | .s16 => inferInstanceAs (Decidable (-32768 ≤ v ∧ v < 32768))

/-- a 32-entry main payload is wire-normal iff every entry is in the range of its coding -/
theorem mainFix_iff (main : List Int) (hl : main.length = 32) :
    mainFix main = main ↔
      ∀ (i : Nat) (f : Fld) (v : Int), dmMainWriteLayout[i]? = some f → main[i]? = some v → fldInRange f v := by
  constructor
  · intro hfix i f v hf hv
    have hz : (dmMainWriteLayout.zip main)[i]? = some (f, v) := List.getElem?_zip_eq_some.mpr ⟨hf, hv⟩
    have h1 : (mainFix main)[i]? = some (f.decode (fldRaw f v)) := by
      unfold mainFix
      rw [List.getElem?_map, hz]; rfl
    rw [hfix, hv] at h1
    injection h1 with h1
    exact decode_fldRaw_conv f v h1.symm
  · intro hall
    apply zip_decode_id dmMainWriteLayout main (by rw [hl]; rfl)
    intro p hp
    obtain ⟨i, hi⟩ := List.mem_iff_getElem?.mp hp
    obtain ⟨h1, h2⟩ := List.getElem?_zip_eq_some.mp hi
    exact hall i p.1 p.2 h1 h2

/-- `DmWf` without the wire-normal part -/
structure DmShape (r : Rpu) (d : DmData) : Prop where
  comp : (r.header.reserved_zero_3bits == 1) = d.compressed
  c29 : ∃ c, d.cmv29 = some c ∧ ContainerOk cmv29Levels cmv40Levels c
  c40 : ∀ c, d.cmv40 = some c → ContainerOk cmv40Levels cmv29Levels c ∧ c.blocks ≠ []
  no40 : d.cmv40 = none → (r.remaining.getD []).length ≤ 8
  main : d.main.length = 32

theorem DmWf_iff (r : Rpu) (d : DmData) : DmWf r d ↔ DmShape r d ∧ d.reparsed = d :=
  ⟨fun h => ⟨⟨h.comp, h.c29, h.c40, h.no40, h.main⟩, h.normal⟩,
   fun h => ⟨h.1.comp, h.1.c29, h.1.c40, h.1.no40, h.1.main, h.2⟩⟩

/-- `DmShape` looks at two fields of the RPU only -/
theorem DmShape_congr {r r' : Rpu} {d : DmData} (h3 : r'.header.reserved_zero_3bits = r.header.reserved_zero_3bits)
    (hrem : r'.remaining = r.remaining) (h : DmShape r d) : DmShape r' d :=
  ⟨by rw [h3]; exact h.comp, h.c29, h.c40, by rw [hrem]; exact h.no40, h.main⟩

theorem DmWf_congr {r r' : Rpu} {d : DmData} (h3 : r'.header.reserved_zero_3bits = r.header.reserved_zero_3bits)
    (hrem : r'.remaining = r.remaining) (h : DmWf r d) : DmWf r' d :=
  (DmWf_iff r' d).mpr ⟨DmShape_congr h3 hrem ((DmWf_iff r d).mp h).1, h.normal⟩

/-- replacing the main payload of an uncompressed DM payload by another wire-normal one -/
theorem DmWf_main {r : Rpu} {d : DmData} (h : DmWf r d) (main' : List Int) (hl : main'.length = 32)
    (hc : d.compressed = false) (hfix : mainFix main' = main') : DmWf r { d with main := main' } := by
  refine ⟨h.comp, h.c29, h.c40, h.no40, hl, ?_⟩
  have hn := (reparsed_eq_iff d).mp h.normal
  rw [reparsed_eq_iff]
  refine ⟨?_, hn.2.1, hn.2.2⟩
  show (if d.compressed = true then List.replicate 32 0 else mainFix main') = main'
  rw [hc]; exact hfix

/-- the 21 colour-matrix entries of `set_p81_coeffs` are in the range of their codings -/
theorem p81Vals_inRange : ∀ p ∈ (dmMainWriteLayout.take 21).zip p81Vals, fldInRange p.1 p.2 := by decide

theorem setP81_fix (d : DmData) (hl : d.main.length = 32) (hfix : mainFix d.main = d.main) :
    mainFix d.setP81Coeffs.main = d.setP81Coeffs.main := by
  have hl' : d.setP81Coeffs.main.length = 32 := by rw [setP81_length, hl]; rfl
  rw [mainFix_iff _ hl'] 
  rw [mainFix_iff _ hl] at hfix
  intro i f v hf hv
  by_cases h21 : i < 21
  · have e1 : (d.setP81Coeffs.main.take 21)[i]? = some v := by rw [List.getElem?_take_of_lt h21]; exact hv
    rw [setP81_take] at e1
    have e2 : (dmMainWriteLayout.take 21)[i]? = some f := by rw [List.getElem?_take_of_lt h21]; exact hf
    exact p81Vals_inRange (f, v) (List.mem_iff_getElem?.mpr ⟨i, List.getElem?_zip_eq_some.mpr ⟨e2, e1⟩⟩)
  · by_cases h26 : i = 26
    · subst h26
      have := setP81_cs d v hv
      subst this
      have : f = .u 2 := by
        have e : dmMainWriteLayout[26]? = some (.u 2) := rfl
        rw [e] at hf; injection hf with hf; exact hf.symm
      subst this
      show (0 : Int) ≤ 0
      omega
    · rw [setP81_getElem? d i (by omega) h26] at hv
      exact hfix i f v hf hv

/-- **`set_p81_coeffs` keeps an uncompressed DM payload well formed** -/
theorem DmWf_setP81 {r : Rpu} {d : DmData} (h : DmWf r d) (hc : d.compressed = false) : DmWf r d.setP81Coeffs := by
  have hn := (reparsed_eq_iff d).mp h.normal
  have hfix : mainFix d.main = d.main := by
    have := hn.1
    rw [hc] at this
    simpa using this
  have := DmWf_main h d.setP81Coeffs.main (by rw [setP81_length, h.main]; rfl) hc (setP81_fix d h.main hfix)
  rw [setP81_eq d, ← setP81_main d]
  exact this

/-- … and breaks a compressed one (F15): the in-memory coefficients have no place in the syntax -/
theorem not_DmWf_setP81_compressed {r : Rpu} {d : DmData} (hc : d.compressed = true) : ¬ DmWf r d.setP81Coeffs := by
  intro h
  have hn := ((reparsed_eq_iff _).mp h.normal).1
  have hc' : d.setP81Coeffs.compressed = true := hc
  rw [hc', if_pos rfl] at hn
  have h0 : (d.setP81Coeffs.main.take 21) = p81Vals := setP81_take d
  rw [← hn] at h0
  revert h0
  decide

/-- the DM clause of `RpuWf` after an edit of the RPU (`r'`) whose DM payload is `f` of the old one -/
theorem dm_clause_map {r : Rpu} (hwf : RpuWf r) (r' : Rpu) (f : DmData → DmData)
    (hflag : r'.header.vdr_dm_metadata_present_flag = r.header.vdr_dm_metadata_present_flag)
    (hd : r'.vdr_dm_data = r.vdr_dm_data.map f)
    (hf : ∀ d, r.header.vdr_dm_metadata_present_flag = true → r.vdr_dm_data = some d → DmWf r d → DmWf r' (f d)) :
    if r'.header.vdr_dm_metadata_present_flag = true then ∃ d, r'.vdr_dm_data = some d ∧ DmWf r' d
    else r'.vdr_dm_data = none := by
  have hdm := hwf.dm
  rw [hflag, hd]
  cases hq : r.header.vdr_dm_metadata_present_flag with
  | false =>
    simp only [hq, Bool.false_eq_true, if_false] at hdm ⊢
    rw [hdm]; rfl
  | true =>
    simp only [hq, if_true] at hdm ⊢
    obtain ⟨d, hdd, hdw⟩ := hdm
    exact ⟨f d, by rw [hdd]; rfl, hf d hq hdd hdw⟩

/-! ## the representation of an unset `linear_interp_flag`

`linear_interp_flag` is in the syntax only for pieces of order 0 (`poly_order_minus1 = 0`); the parser stores
`false` for every other piece, while the static profile 8.4 mapping (`Profile84::rpu_data_mapping`) leaves the
whole vector empty.  `fillLinear` is the parser's representation; the writer emits the same bits for both. -/

/-- fill an empty `linear_interp_flag` vector with one `false` per piece -/
def _root_.Dovi.PolyCurve.fillLinear (p : PolyCurve) : PolyCurve :=
  if p.linear_interp_flag = [] then { p with linear_interp_flag := p.poly_order_minus1.map fun _ => false } else p

def _root_.Dovi.Curve.fillLinear (c : Curve) : Curve := { c with polynomial := c.polynomial.map PolyCurve.fillLinear }

def _root_.Dovi.Mapping.fillLinear (m : Mapping) : Mapping := { m with curves := m.curves.map Curve.fillLinear }

/-- the normalisation: an RPU with the parser's representation of unset `linear_interp_flag`s -/
def _root_.Dovi.Rpu.fillLinear (r : Rpu) : Rpu := { r with rpu_data_mapping := r.rpu_data_mapping.map Mapping.fillLinear }

/-- the writer never looks at an empty flag vector: no piece of order 0 -/
def _root_.Dovi.PolyCurve.fillSafe (p : PolyCurve) : Bool :=
  !p.linear_interp_flag.isEmpty || p.poly_order_minus1.all (· != 0)

def _root_.Dovi.Mapping.fillSafe (m : Mapping) : Bool :=
  m.curves.all fun c => match c.polynomial with | some p => p.fillSafe | none => true

theorem fillLinear_orders (p : PolyCurve) : p.fillLinear.poly_order_minus1 = p.poly_order_minus1 := by
  unfold PolyCurve.fillLinear; split <;> rfl

theorem writePolyPiece_fill (h : Header) (p : PolyCurve) (hs : p.fillSafe = true) (i : Nat) :
    writePolyPiece h p.fillLinear i = writePolyPiece h p i := by
  unfold PolyCurve.fillLinear
  split
  · rename_i he
    have hall : ∀ o ∈ p.poly_order_minus1, (o == 0) = false := by
      simp only [PolyCurve.fillSafe, he, List.isEmpty_nil, Bool.not_true, Bool.false_or, List.all_eq_true,
        bne_iff_ne, ne_eq] at hs
      intro o ho
      simpa using hs o ho
    unfold writePolyPiece
    dsimp only
    cases ho : idx p.poly_order_minus1 i with
    | error => rfl
    | panic => rfl
    | ok order =>
      have hmem : order ∈ p.poly_order_minus1 := List.mem_of_getElem? (idx_eq_ok ho)
      have h0 := hall order hmem
      simp only [Res.bind, h0, Bool.false_eq_true, if_false]
  · rfl

theorem idx_map_bind {α β γ} (l : List α) (f : α → β) (g : β → Res γ) (i : Nat) :
    (idx (l.map f) i).bind g = (idx l i).bind fun a => g (f a) := by
  unfold idx
  rw [List.getElem?_map]
  cases l[i]? <;> rfl

theorem idx_bind_congr {α γ} (l : List α) (g1 g2 : α → Res γ) (i : Nat) (h : ∀ a ∈ l, g1 a = g2 a) :
    (idx l i).bind g1 = (idx l i).bind g2 := by
  unfold idx
  cases hq : l[i]? with
  | none => rfl
  | some a => exact h a (List.mem_of_getElem? hq)

theorem writeCurvePieces_fill (h : Header) (c : Curve)
    (hs : (match c.polynomial with | some p => p.fillSafe | none => true) = true) :
    writeCurvePieces h c.fillLinear = writeCurvePieces h c := by
  unfold writeCurvePieces Curve.fillLinear
  cases hp : c.polynomial with
  | none => rfl
  | some p =>
    rw [hp] at hs
    have : ∀ i, writePolyPiece h p.fillLinear i = writePolyPiece h p i := writePolyPiece_fill h p hs
    simp only [Option.map_some, this]

/-- **the writer emits the same bits for a mapping and for its `fillLinear` normalisation** -/
theorem writeMapping_fill (h : Header) (m : Mapping) (hs : m.fillSafe = true) :
    writeMapping h m.fillLinear = writeMapping h m := by
  have hall : ∀ c ∈ m.curves, (match c.polynomial with | some p => p.fillSafe | none => true) = true := by
    simpa [Mapping.fillSafe] using hs
  unfold writeMapping Mapping.fillLinear
  dsimp only
  have e1 : ∀ cmp, ((idx (m.curves.map Curve.fillLinear) cmp).bind fun c =>
        wcat ([writeUe c.num_pivots_minus2] ++ c.pivots.map (writeN (h.bl_bit_depth_minus8 + 8)))) =
      ((idx m.curves cmp).bind fun c =>
        wcat ([writeUe c.num_pivots_minus2] ++ c.pivots.map (writeN (h.bl_bit_depth_minus8 + 8)))) := by
    intro cmp
    rw [idx_map_bind]; rfl
  have e2 : ∀ cmp, (idx (m.curves.map Curve.fillLinear) cmp).bind (writeCurvePieces h) =
      (idx m.curves cmp).bind (writeCurvePieces h) := by
    intro cmp
    rw [idx_map_bind]
    exact idx_bind_congr _ _ _ _ (fun c hc => writeCurvePieces_fill h c (hall c hc))
  simp only [e1, e2]
  rfl

theorem piecesOk_fill (c : Curve) : c.fillLinear.piecesOk = c.piecesOk := by
  unfold Curve.piecesOk Curve.fillLinear
  cases hp : c.polynomial with
  | none => rfl
  | some p => simp only [Option.map_some, fillLinear_orders]

theorem validate_fill (m : Mapping) (p : Nat) : m.fillLinear.validate p = m.validate p := by
  have e : (m.curves.map Curve.fillLinear).all Curve.piecesOk = m.curves.all Curve.piecesOk := by
    rw [List.all_map]
    have : (Curve.piecesOk ∘ Curve.fillLinear) = Curve.piecesOk := funext piecesOk_fill
    rw [this]
  unfold Mapping.validate Mapping.fillLinear
  dsimp only
  rw [e]

theorem rpu_validate_fill (r : Rpu) : r.fillLinear.validate = r.validate := by
  unfold Rpu.validate Rpu.fillLinear
  dsimp only
  cases r.rpu_data_mapping with
  | none => rfl
  | some m => simp only [Option.map_some, validate_fill]

theorem writeBody_fill (r : Rpu) (hs : ∀ m, r.rpu_data_mapping = some m → m.fillSafe = true) :
    writeBody r.fillLinear = writeBody r := by
  unfold writeBody Rpu.fillLinear
  dsimp only
  cases hm : r.rpu_data_mapping with
  | none => rfl
  | some m => simp only [Option.map_some, writeMapping_fill _ m (hs m hm)]

/-- **`write_rpu_data` emits the same bytes for an RPU and for its normalisation** -/
theorem writeRpu_fill (r : Rpu) (hs : ∀ m, r.rpu_data_mapping = some m → m.fillSafe = true) :
    writeRpu r.fillLinear = writeRpu r := by
  unfold writeRpu
  rw [rpu_validate_fill, writeBody_fill r hs]
  rfl

/-- a well-formed polynomial has one flag per piece, so nothing is filled -/
theorem fillLinear_of_CurveWf (q : Int → Bool) (h : Header) (c : Curve) (hw : CurveWf q h c = true) :
    c.fillLinear = c := by
  unfold Curve.fillLinear
  cases hp : c.polynomial with
  | none => cases c; simp_all
  | some p =>
    have hne : p.linear_interp_flag ≠ [] := by
      intro he
      unfold CurveWf at hw
      rw [hp] at hw
      simp only [Bool.and_eq_true] at hw
      obtain ⟨_, hw⟩ := hw
      split at hw
      · rename_i hpp _
        injection hpp with hpp
        subst hpp
        simp [PolyWf, he] at hw
      · rename_i hpp _
        cases hpp
      · cases hw
    have : p.fillLinear = p := by unfold PolyCurve.fillLinear; rw [if_neg hne]
    cases c
    simp_all

theorem fillLinear_of_MappingWf (h : Header) (m : Mapping) (hw : MappingWf h m = true) : m.fillLinear = m := by
  unfold MappingWf at hw
  rw [MappingWfG_iff] at hw
  have : m.curves.map Curve.fillLinear = m.curves :=
    map_eq_self_iff.mpr (fun c hc => fillLinear_of_CurveWf seExact h c (hw.2.1 c hc))
  unfold Mapping.fillLinear
  rw [this]

/-- **the normalisation is the identity on every well-formed RPU** (every parse result) -/
theorem fillLinear_of_RpuWf (r : Rpu) (hwf : RpuWf r) : r.fillLinear = r := by
  have hm := hwf.mapping
  have : r.rpu_data_mapping.map Mapping.fillLinear = r.rpu_data_mapping := by
    split at hm
    · rw [hm]; rfl
    · obtain ⟨m, hmm, hmw⟩ := hm
      rw [hmm, Option.map_some, fillLinear_of_MappingWf _ m hmw]
  unfold Rpu.fillLinear
  rw [this]

theorem fillLinear_idem_p84 : profile84Mapping.fillLinear.fillLinear = profile84Mapping.fillLinear := by decide

theorem p84_fillSafe : profile84Mapping.fillSafe = true := by decide

/-- the normalised static profile 8.4 mapping is well formed under the profile 8 default header … -/
theorem MappingWf_p84_fill : MappingWf p8DefaultHeader profile84Mapping.fillLinear = true := by decide

/-- … and the one in the code is not: its `linear_interp_flag` vectors are empty -/
theorem not_MappingWf_p84 : MappingWf p8DefaultHeader profile84Mapping = false := by decide

/-! ## write → parse up to the normalisation -/

/-- **write → parse for every RPU whose normalisation is `RpuWf`**: the emitted bytes decode to the normalised
RPU — i.e. to what was written, up to the representation of `linear_interp_flag` entries that are not part of
the syntax -/
theorem parseRpu_writeRpu_fill (r : Rpu) (bytes : Bytes) (hw : writeRpu r = .ok bytes) (hwf : RpuWf r.fillLinear)
    (hs : ∀ m, r.rpu_data_mapping = some m → m.fillSafe = true) :
    ∃ crc, parseRpu bytes = .ok { r.fillLinear with rpu_data_crc32 := crc, modified := false } ∧
      (r.modified = false → crc = r.rpu_data_crc32) := by
  rw [← writeRpu_fill r hs] at hw
  exact parseRpu_writeRpu r.fillLinear bytes hw hwf

/-- **well formed up to the normalisation**: the normalised RPU is `RpuWf` and the writer emits the same bytes
for both.  This is what every RPU the tool can build from a parsed one satisfies (within F14 / F15 / F16). -/
def WfN (r : Rpu) : Prop := RpuWf r.fillLinear ∧ ∀ m, r.rpu_data_mapping = some m → m.fillSafe = true

theorem fillSafe_of_MappingWf (h : Header) (m : Mapping) (hw : MappingWf h m = true) : m.fillSafe = true := by
  unfold MappingWf at hw
  rw [MappingWfG_iff] at hw
  simp only [Mapping.fillSafe, List.all_eq_true]
  intro c hc
  have hcw := hw.2.1 c hc
  cases hp : c.polynomial with
  | none => rfl
  | some p =>
    simp only [PolyCurve.fillSafe, Bool.or_eq_true, Bool.not_eq_true', List.isEmpty_eq_false_iff]
    left
    intro he
    unfold CurveWf at hcw
    rw [hp] at hcw
    simp only [Bool.and_eq_true] at hcw
    obtain ⟨_, hcw⟩ := hcw
    split at hcw
    · rename_i hpp _
      injection hpp with hpp
      subst hpp
      simp [PolyWf, he] at hcw
    · rename_i hpp _
      cases hpp
    · cases hcw

/-- every well-formed RPU (every parse result) is `WfN` -/
theorem WfN_of_RpuWf (r : Rpu) (hwf : RpuWf r) : WfN r := by
  refine ⟨by rw [fillLinear_of_RpuWf r hwf]; exact hwf, ?_⟩
  intro m hm
  have hmc := hwf.mapping
  split at hmc
  · rw [hmc] at hm; cases hm
  · obtain ⟨m0, hm0, hmw⟩ := hmc
    rw [hm0] at hm
    injection hm with hm
    subst hm
    exact fillSafe_of_MappingWf _ _ hmw

/-- what is written for a `WfN` RPU decodes to its normalisation -/
theorem WfN.write_parse {r : Rpu} (h : WfN r) (bytes : Bytes) (hw : writeRpu r = .ok bytes) :
    ∃ crc, parseRpu bytes = .ok { r.fillLinear with rpu_data_crc32 := crc, modified := false } ∧
      (r.modified = false → crc = r.rpu_data_crc32) :=
  parseRpu_writeRpu_fill r bytes hw h.1 h.2

/-! ## conversions -/

/-- F15: a DM payload, if present, is not compressed (`reserved_zero_3bits ≠ 1`) -/
def DmUncompressed (r : Rpu) : Prop :=
  r.header.vdr_dm_metadata_present_flag = true → r.header.reserved_zero_3bits ≠ 1

/-- F14: a mapping, if present, carries integer coefficient parts (`coefficient_data_type = 0`) -/
def IntPartsCoded (r : Rpu) : Prop :=
  r.header.use_prev_vdr_rpu_flag = false → r.header.coefficient_data_type = 0

instance (r : Rpu) : Decidable (DmUncompressed r) := by unfold DmUncompressed; infer_instance
instance (r : Rpu) : Decidable (IntPartsCoded r) := by unfold IntPartsCoded; infer_instance

/-- the side conditions under which the result of a conversion is still `RpuWf` -/
def ConvSide (m : Mode) (r : Rpu) : Prop :=
  match m with
  | .lossless => True
  | .toMel => HdrSyntax r.header ∧ IntPartsCoded r
  | .to81 => HdrSyntax r.header ∧ DmUncompressed r ∧
              ((r.dovi_profile = 5 ∨ r.el_type = some .fel) → IntPartsCoded r)
  | .to84 => DmUncompressed r
  | .to81MappingPreserved => HdrSyntax r.header ∧ DmUncompressed r

instance (m : Mode) (r : Rpu) : Decidable (ConvSide m r) := by
  cases m <;> unfold ConvSide <;> infer_instance

theorem uncompressed_of {r : Rpu} (hu : DmUncompressed r) (d : DmData)
    (hflag : r.header.vdr_dm_metadata_present_flag = true) (hw : DmWf r d) : d.compressed = false := by
  have := hu hflag
  rw [← hw.comp]
  simpa using this

/-- the DM clause for a result whose DM payload went through `set_p81_coeffs` -/
theorem dm_clause_setP81 {r : Rpu} (hwf : RpuWf r) (hu : DmUncompressed r) (r' : Rpu)
    (hflag : r'.header.vdr_dm_metadata_present_flag = r.header.vdr_dm_metadata_present_flag)
    (h3 : r'.header.reserved_zero_3bits = r.header.reserved_zero_3bits) (hrem : r'.remaining = r.remaining)
    (hd : r'.vdr_dm_data = r.vdr_dm_data.map DmData.setP81Coeffs) :
    if r'.header.vdr_dm_metadata_present_flag = true then ∃ d, r'.vdr_dm_data = some d ∧ DmWf r' d
    else r'.vdr_dm_data = none :=
  dm_clause_map hwf r' DmData.setP81Coeffs hflag hd
    (fun d hf _ hw => DmWf_congr h3 hrem (DmWf_setP81 hw (uncompressed_of hu d hf hw)))

/-- the DM clause for a result with the same DM payload -/
theorem dm_clause_same {r : Rpu} (hwf : RpuWf r) (r' : Rpu)
    (hflag : r'.header.vdr_dm_metadata_present_flag = r.header.vdr_dm_metadata_present_flag)
    (h3 : r'.header.reserved_zero_3bits = r.header.reserved_zero_3bits) (hrem : r'.remaining = r.remaining)
    (hd : r'.vdr_dm_data = r.vdr_dm_data) :
    if r'.header.vdr_dm_metadata_present_flag = true then ∃ d, r'.vdr_dm_data = some d ∧ DmWf r' d
    else r'.vdr_dm_data = none :=
  dm_clause_map hwf r' id hflag (by rw [hd]; cases r.vdr_dm_data <;> rfl)
    (fun _ _ _ hw => DmWf_congr h3 hrem hw)

theorem wf_lossless (r : Rpu) (hwf : RpuWf r) : RpuWf (fin r) :=
  ⟨hwf.hdr, hwf.pfx, rfl, rfl, hwf.mapping, dm_clause_same hwf (fin r) rfl rfl rfl rfl, hwf.remaining⟩

theorem wf_toMel (r : Rpu) (hwf : RpuWf r) (hs : HdrSyntax r.header) (hi : IntPartsCoded r) :
    RpuWf (fin (preTarget .toMel r)) := by
  refine ⟨Wf_mel _ hs hwf.hdr, hwf.pfx, rfl, rfl, ?_, dm_clause_same hwf _ rfl rfl rfl rfl, hwf.remaining⟩
  exact mapping_clause_map hwf (melHeader r.header) melMapping rfl
    (fun m hu _ hw => MappingWf_mel r.header (melHeader r.header) m rfl (hi hu) (by simp [melHeader, hs.2]) hw)

theorem wf_to81mp (r : Rpu) (hwf : RpuWf r) (hs : HdrSyntax r.header) (hu : DmUncompressed r) :
    RpuWf (fin (preTarget .to81MappingPreserved r)) := by
  refine ⟨Wf_p81 _ hs hwf.hdr, hwf.pfx, rfl, rfl, ?_, dm_clause_setP81 hwf hu _ rfl rfl rfl rfl, hwf.remaining⟩
  exact mapping_clause_map hwf (p81Header r.header) stripNlq rfl
    (fun m _ _ hw => MappingWf_strip r.header _ m rfl rfl hw)

theorem wf_to81_plain (r : Rpu) (hwf : RpuWf r) (hs : HdrSyntax r.header) (hu : DmUncompressed r)
    (h5 : r.dovi_profile ≠ 5) (hf : r.el_type ≠ some .fel) : RpuWf (fin (preTarget .to81 r)) := by
  have e : preTarget .to81 r = preTarget .to81MappingPreserved r := by
    simp only [preTarget, h5, hf, if_false]
  rw [e]; exact wf_to81mp r hwf hs hu

theorem wf_to81_fel (r : Rpu) (hwf : RpuWf r) (hs : HdrSyntax r.header) (hu : DmUncompressed r)
    (hi : IntPartsCoded r) (h5 : r.dovi_profile ≠ 5) (hf : r.el_type = some .fel) :
    RpuWf (fin (preTarget .to81 r)) := by
  have e : preTarget .to81 r =
      { r with modified := true, header := p81Header r.header,
               rpu_data_mapping := r.rpu_data_mapping.map (Mapping.setEmptyP81 ∘ stripNlq),
               vdr_dm_data := r.vdr_dm_data.map DmData.setP81Coeffs } := by
    simp only [preTarget, h5, hf, if_false, if_true, Option.map_map]
  rw [e]
  refine ⟨Wf_p81 _ hs hwf.hdr, hwf.pfx, rfl, rfl, ?_, dm_clause_setP81 hwf hu _ rfl rfl rfl rfl, hwf.remaining⟩
  exact mapping_clause_map hwf (p81Header r.header) (Mapping.setEmptyP81 ∘ stripNlq) rfl
    (fun m hq _ hw => MappingWf_empty _ _ (hi hq) (MappingWf_strip r.header _ m rfl rfl hw))

theorem wf_to81_p5 (r : Rpu) (hwf : RpuWf r) (hs : HdrSyntax r.header) (hu : DmUncompressed r)
    (hi : IntPartsCoded r) (h5 : r.dovi_profile = 5) : RpuWf (fin (preTarget .to81 r)) := by
  have e : preTarget .to81 r =
      { r with modified := true, dovi_profile := 8, header := p5Header r.header,
               rpu_data_mapping := r.rpu_data_mapping.map (Mapping.setEmptyP81 ∘ stripNlq),
               vdr_dm_data := r.vdr_dm_data.map DmData.setP81Coeffs } := by
    simp only [preTarget, h5, if_true, Option.map_map]
  rw [e]
  refine ⟨Wf_p5 _ hs hwf.hdr, hwf.pfx, rfl, rfl, ?_, dm_clause_setP81 hwf hu _ rfl rfl rfl rfl, hwf.remaining⟩
  exact mapping_clause_map hwf (p5Header r.header) (Mapping.setEmptyP81 ∘ stripNlq) rfl
    (fun m hq _ hw => MappingWf_empty _ _ (hi hq) (MappingWf_strip r.header _ m rfl rfl hw))

/-- **every conversion except mode 4 keeps `RpuWf`**, under `ConvSide` -/
theorem convert_wf (m : Mode) (r r' : Rpu) (hwf : RpuWf r) (h : r.convertWithMode m = .ok r')
    (hm : m ≠ .to84) (hs : ConvSide m r) : RpuWf r' := by
  obtain ⟨_, e⟩ := (cw_ok_iff m r r').1 h
  subst e
  cases m with
  | lossless => exact wf_lossless r hwf
  | toMel => exact wf_toMel r hwf hs.1 hs.2
  | to84 => exact absurd rfl hm
  | to81MappingPreserved => exact wf_to81mp r hwf hs.1 hs.2
  | to81 =>
    obtain ⟨h1, h2, h3⟩ := hs
    by_cases h5 : r.dovi_profile = 5
    · exact wf_to81_p5 r hwf h1 h2 (h3 (.inl h5)) h5
    · by_cases hf : r.el_type = some .fel
      · exact wf_to81_fel r hwf h1 h2 (h3 (.inr hf)) h5 hf
      · exact wf_to81_plain r hwf h1 h2 h5 hf

/-- **mode 4: the normalised result is `RpuWf`** -/
theorem wf_to84 (r : Rpu) (hwf : RpuWf r) (hu : DmUncompressed r) : RpuWf (fin (preTarget .to84 r)).fillLinear := by
  refine ⟨Wf_p84 _, rfl, rfl, rfl, ?_, ?_, hwf.remaining⟩
  · show if (p84Header r.header).use_prev_vdr_rpu_flag = true then _ else _
    rw [if_neg (by simp [p84Header, p8DefaultHeader])]
    refine ⟨_, rfl, ?_⟩
    have : MappingWf (p84Header r.header) profile84Mapping.fillLinear =
        MappingWf p8DefaultHeader profile84Mapping.fillLinear := MappingWfG_congr seExact rfl rfl rfl _
    show MappingWf (p84Header r.header) profile84Mapping.fillLinear = true
    rw [this]; exact MappingWf_p84_fill
  · exact dm_clause_setP81 hwf hu _ rfl rfl rfl rfl

/-- the unnormalised mode 4 result is never `RpuWf` -/
theorem not_wf_to84 (r : Rpu) : ¬ RpuWf (fin (preTarget .to84 r)) := by
  intro hwf
  have hm := hwf.mapping
  have e : (fin (preTarget .to84 r)).header.use_prev_vdr_rpu_flag = false := rfl
  rw [e] at hm
  simp only [Bool.false_eq_true, if_false] at hm
  obtain ⟨m, hmm, hmw⟩ := hm
  have e2 : (fin (preTarget .to84 r)).rpu_data_mapping = some profile84Mapping := rfl
  rw [e2] at hmm
  injection hmm with hmm
  subst hmm
  have : MappingWf (fin (preTarget .to84 r)).header profile84Mapping =
      MappingWf p8DefaultHeader profile84Mapping := MappingWfG_congr seExact rfl rfl rfl _
  rw [this, not_MappingWf_p84] at hmw
  cases hmw

/-- all modes at once: the normalised result is `RpuWf`; the normalisation is the identity except for mode 4 -/
theorem convert_wf_fill (m : Mode) (r r' : Rpu) (hwf : RpuWf r) (h : r.convertWithMode m = .ok r')
    (hs : ConvSide m r) : RpuWf r'.fillLinear ∧ (m ≠ .to84 → r'.fillLinear = r') := by
  by_cases hm : m = .to84
  · subst hm
    obtain ⟨_, e⟩ := (cw_ok_iff .to84 r r').1 h
    subst e
    exact ⟨wf_to84 r hwf hs, fun h => absurd rfl h⟩
  · have := convert_wf m r r' hwf h hm hs
    have e := fillLinear_of_RpuWf r' this
    exact ⟨by rw [e]; exact this, fun _ => e⟩

/-- the mapping of every conversion result is one the writer treats like its normalisation -/
theorem convert_fillSafe (m : Mode) (r r' : Rpu) (hwf : RpuWf r) (h : r.convertWithMode m = .ok r')
    (hs : ConvSide m r) : ∀ mp, r'.rpu_data_mapping = some mp → mp.fillSafe = true := by
  intro mp hmp
  by_cases hm : m = .to84
  · subst hm
    obtain ⟨_, e⟩ := (cw_ok_iff .to84 r r').1 h
    subst e
    have e2 : (fin (preTarget .to84 r)).rpu_data_mapping = some profile84Mapping := rfl
    rw [e2] at hmp
    injection hmp with hmp
    subst hmp
    exact p84_fillSafe
  · have hw := convert_wf m r r' hwf h hm hs
    have hmc := hw.mapping
    split at hmc
    · rw [hmc] at hmp; cases hmp
    · obtain ⟨m0, hm0, hmw⟩ := hmc
      rw [hm0] at hmp
      injection hmp with hmp
      subst hmp
      exact fillSafe_of_MappingWf _ _ hmw

/-- the limits of the tool that remain for an RPU the validator accepts (F14 / F15): `ConvSide` without the
`HdrSyntax` part, which every header with `bl_bit_depth_minus8 = 2` satisfies -/
def ConvLimits (m : Mode) (r : Rpu) : Prop :=
  match m with
  | .lossless => True
  | .toMel => IntPartsCoded r
  | .to81 => DmUncompressed r ∧ ((r.dovi_profile = 5 ∨ r.el_type = some .fel) → IntPartsCoded r)
  | .to84 => DmUncompressed r
  | .to81MappingPreserved => DmUncompressed r

instance (m : Mode) (r : Rpu) : Decidable (ConvLimits m r) := by
  cases m <;> unfold ConvLimits <;> infer_instance

theorem convSide_of_limits (m : Mode) (r : Rpu) (hs : HdrSyntax r.header) (hl : ConvLimits m r) : ConvSide m r := by
  cases m with
  | lossless => trivial
  | toMel => exact ⟨hs, hl⟩
  | to81 => exact ⟨hs, hl.1, hl.2⟩
  | to84 => exact hl
  | to81MappingPreserved => exact ⟨hs, hl⟩

theorem limits_of_convSide (m : Mode) (r : Rpu) (hl : ConvSide m r) : ConvLimits m r := by
  cases m with
  | lossless => trivial
  | toMel => exact hl.2
  | to81 => exact ⟨hl.2.1, hl.2.2⟩
  | to84 => exact hl
  | to81MappingPreserved => exact hl.2

/-- the conversions (mode 4 apart) do not touch `bl_bit_depth_minus8` -/
theorem convert_bl (m : Mode) (r r' : Rpu) (h : r.convertWithMode m = .ok r') (hm : m ≠ .to84) :
    r'.header.bl_bit_depth_minus8 = r.header.bl_bit_depth_minus8 := by
  obtain ⟨_, e⟩ := (cw_ok_iff m r r').1 h
  subst e
  cases m with
  | lossless => rfl
  | toMel => rfl
  | to84 => exact absurd rfl hm
  | to81MappingPreserved => rfl
  | to81 =>
    show (preTarget .to81 r).header.bl_bit_depth_minus8 = _
    unfold preTarget
    dsimp only
    split <;> rfl

/-- what `write_rpu_data` accepts has `bl_bit_depth_minus8 = 2` (`validate`) -/
theorem bl_of_write (r : Rpu) (bytes : Bytes) (hw : writeRpu r = .ok bytes) : r.header.bl_bit_depth_minus8 = 2 := by
  unfold writeRpu at hw
  cases hv : r.validate with
  | false => simp [hv] at hw
  | true =>
    simp only [Rpu.validate, Header.validate, Bool.and_eq_true, beq_iff_eq] at hv
    exact hv.1.1.1.1.1.2

/-- for a conversion result that `write_rpu_data` accepts, `ConvSide` reduces to `ConvLimits` -/
theorem convSide_of_write (m : Mode) (r r' : Rpu) (bytes : Bytes) (hwf : RpuWf r)
    (h : r.convertWithMode m = .ok r') (hw : writeRpu r' = .ok bytes) (hl : ConvLimits m r) : ConvSide m r := by
  by_cases hm : m = .to84
  · subst hm; exact hl
  · apply convSide_of_limits m r _ hl
    apply syntax_of_bl r.header hwf.hdr
    rw [← convert_bl m r r' h hm]
    exact bl_of_write r' bytes hw

/-- **a conversion result that is written decodes to (the normalisation of) itself** -/
theorem convert_write_parse (m : Mode) (r r' : Rpu) (bytes : Bytes) (hwf : RpuWf r)
    (h : r.convertWithMode m = .ok r') (hl : ConvLimits m r) (hw : writeRpu r' = .ok bytes) :
    ∃ crc, parseRpu bytes = .ok { r'.fillLinear with rpu_data_crc32 := crc, modified := false } ∧
      (m ≠ .to84 → r'.fillLinear = r') := by
  have hs := convSide_of_write m r r' bytes hwf h hw hl
  obtain ⟨hwf', he⟩ := convert_wf_fill m r r' hwf h hs
  obtain ⟨crc, hp, _⟩ := parseRpu_writeRpu_fill r' bytes hw hwf' (convert_fillSafe m r r' hwf h hs)
  exact ⟨crc, hp, he⟩

/-! ### the side conditions are necessary (for every input, not only for the witnesses) -/

theorem syntax_of_flag (h : Header) (hw : h.Wf = true)
    (hf : h.el_spatial_resampling_filter_flag = true ∨ h.disable_residual_flag = true) : HdrSyntax h := by
  by_cases hs : HdrSyntax h
  · exact hs
  · have := fmtDefaults_of_not_syntax h hw hs
    simp only [Header.fmtDefaults, Bool.and_eq_true, Bool.not_eq_true'] at this
    rcases hf with hf | hf
    · rw [this.1.2] at hf; cases hf
    · rw [this.2] at hf; cases hf

/-- from the DM clause of a result that went through `set_p81_coeffs` -/
theorem uncompressed_of_setP81 {r : Rpu} (hwf : RpuWf r) (r' : Rpu) (hwf' : RpuWf r')
    (hflag : r'.header.vdr_dm_metadata_present_flag = r.header.vdr_dm_metadata_present_flag)
    (hd : r'.vdr_dm_data = r.vdr_dm_data.map DmData.setP81Coeffs) : DmUncompressed r := by
  intro hf h1
  have hd' := hwf'.dm
  rw [hflag, hf, if_pos rfl] at hd'
  obtain ⟨d', hdd', hdw'⟩ := hd'
  have hdm := hwf.dm
  rw [hf, if_pos rfl] at hdm
  obtain ⟨d, hdd, hdw⟩ := hdm
  rw [hd, hdd] at hdd'
  injection hdd' with hdd'
  subst hdd'
  have hc : d.compressed = true := by rw [← hdw.comp, h1]; rfl
  exact not_DmWf_setP81_compressed hc hdw'

/-- from the mapping clause of a result whose mapping is `f` of the source's -/
theorem mapping_of_result {r : Rpu} (hwf : RpuWf r) (r' : Rpu) (hwf' : RpuWf r') (f : Mapping → Mapping)
    (hu : r'.header.use_prev_vdr_rpu_flag = r.header.use_prev_vdr_rpu_flag)
    (hmap : r'.rpu_data_mapping = r.rpu_data_mapping.map f) (hq : r.header.use_prev_vdr_rpu_flag = false) :
    ∃ m, r.rpu_data_mapping = some m ∧ MappingWf r.header m = true ∧ MappingWf r'.header (f m) = true := by
  have hm := hwf.mapping
  rw [hq] at hm
  simp only [Bool.false_eq_true, if_false] at hm
  obtain ⟨m, hmm, hmw⟩ := hm
  have hm' := hwf'.mapping
  rw [hu, hq] at hm'
  simp only [Bool.false_eq_true, if_false] at hm'
  obtain ⟨m', hmm', hmw'⟩ := hm'
  rw [hmap, hmm] at hmm'
  injection hmm' with hmm'
  subst hmm'
  exact ⟨m, hmm, hmw, hmw'⟩

theorem cdt_of_empty (h' : Header) (m : Mapping) (hm : m.curves.length = 3)
    (hw : MappingWf h' m.setEmptyP81 = true) : h'.coefficient_data_type = 0 := by
  unfold MappingWf at hw
  rw [MappingWfG_iff] at hw
  have hmem : p81Curve ∈ m.setEmptyP81.curves := by
    rw [setEmptyP81_curves]
    match hc : m.curves, hm with
    | [a, b, c], _ => simp
  exact (CurveWf_p81Curve_iff h').mp (hw.2.1 _ hmem)

theorem cdt_of_mel (h' : Header) (m : Mapping) (hs : HdrSyntax h') (hd : h'.disable_residual_flag = false)
    (hw : MappingWf h' (melMapping m) = true) : h'.coefficient_data_type = 0 := by
  unfold MappingWf at hw
  rw [MappingWfG_iff] at hw
  have hc : (h'.rpu_format &&& 0x700 == 0 && !h'.disable_residual_flag) = true := by simp [hs.2, hd]
  rw [if_pos hc] at hw
  obtain ⟨n, hn, hnw⟩ := hw.2.2.2.2.2
  have : n = Nlq.melDefault := by
    have e : (melMapping m).nlq = some Nlq.melDefault := rfl
    rw [e] at hn; injection hn with hn; exact hn.symm
  subst this
  exact (NlqWf_melDefault_iff h').mp hnw

theorem curves3_of_wf {h : Header} {m : Mapping} (hw : MappingWf h m = true) : m.curves.length = 3 := by
  unfold MappingWf at hw
  rw [MappingWfG_iff] at hw
  exact hw.1

/-- **`ConvSide` is exactly the condition under which the result of a conversion (modes ≠ 4) is `RpuWf`** -/
theorem convert_wf_iff (m : Mode) (r r' : Rpu) (hwf : RpuWf r) (h : r.convertWithMode m = .ok r')
    (hm : m ≠ .to84) : RpuWf r' ↔ ConvSide m r := by
  refine ⟨fun hwf' => ?_, convert_wf m r r' hwf h hm⟩
  obtain ⟨_, e⟩ := (cw_ok_iff m r r').1 h
  subst e
  cases m with
  | lossless => trivial
  | to84 => exact absurd rfl hm
  | toMel =>
    have hs : HdrSyntax r.header := syntax_of_flag (melHeader r.header) hwf'.hdr (.inl rfl)
    refine ⟨hs, fun hq => ?_⟩
    obtain ⟨m0, _, _, hw'⟩ := mapping_of_result hwf _ hwf' melMapping rfl rfl hq
    exact cdt_of_mel (melHeader r.header) m0 hs rfl hw'
  | to81MappingPreserved =>
    exact ⟨syntax_of_flag (p81Header r.header) hwf'.hdr (.inr rfl),
      uncompressed_of_setP81 hwf _ hwf' rfl rfl⟩
  | to81 =>
    by_cases h5 : r.dovi_profile = 5
    · have e : preTarget .to81 r =
          { r with modified := true, dovi_profile := 8, header := p5Header r.header,
                   rpu_data_mapping := r.rpu_data_mapping.map (Mapping.setEmptyP81 ∘ stripNlq),
                   vdr_dm_data := r.vdr_dm_data.map DmData.setP81Coeffs } := by
        simp only [preTarget, h5, if_true, Option.map_map]
      rw [e] at hwf'
      refine ⟨syntax_of_flag (p5Header r.header) hwf'.hdr (.inr rfl),
        uncompressed_of_setP81 hwf _ hwf' rfl rfl, fun _ hq => ?_⟩
      obtain ⟨m0, _, hw0, hw'⟩ := mapping_of_result hwf _ hwf' (Mapping.setEmptyP81 ∘ stripNlq) rfl rfl hq
      exact cdt_of_empty (p5Header r.header) (stripNlq m0) (curves3_of_wf (m := m0) hw0) hw'
    · by_cases hf : r.el_type = some .fel
      · have e : preTarget .to81 r =
            { r with modified := true, header := p81Header r.header,
                     rpu_data_mapping := r.rpu_data_mapping.map (Mapping.setEmptyP81 ∘ stripNlq),
                     vdr_dm_data := r.vdr_dm_data.map DmData.setP81Coeffs } := by
          simp only [preTarget, h5, hf, if_false, if_true, Option.map_map]
        rw [e] at hwf'
        refine ⟨syntax_of_flag (p81Header r.header) hwf'.hdr (.inr rfl),
          uncompressed_of_setP81 hwf _ hwf' rfl rfl, fun _ hq => ?_⟩
        obtain ⟨m0, _, hw0, hw'⟩ := mapping_of_result hwf _ hwf' (Mapping.setEmptyP81 ∘ stripNlq) rfl rfl hq
        exact cdt_of_empty (p81Header r.header) (stripNlq m0) (curves3_of_wf (m := m0) hw0) hw'
      · have e : preTarget .to81 r = preTarget .to81MappingPreserved r := by
          simp only [preTarget, h5, hf, if_false]
        rw [e] at hwf'
        refine ⟨syntax_of_flag (p81Header r.header) hwf'.hdr (.inr rfl),
          uncompressed_of_setP81 hwf _ hwf' rfl rfl, fun hc => ?_⟩
        rcases hc with hc | hc
        · exact absurd hc h5
        · exact absurd hc hf

/-- mode 4: the normalised result is `RpuWf` exactly when the DM payload (if any) is not compressed -/
theorem convert84_wf_iff (r r' : Rpu) (hwf : RpuWf r) (h : r.convertWithMode .to84 = .ok r') :
    RpuWf r'.fillLinear ↔ DmUncompressed r := by
  obtain ⟨_, e⟩ := (cw_ok_iff .to84 r r').1 h
  subst e
  exact ⟨fun hwf' => uncompressed_of_setP81 hwf _ hwf' rfl rfl, wf_to84 r hwf⟩

/-! ## DM-level block edits (`add_metadata_block`, `remove_metadata_level`, `replace_metadata_block(s)`) -/

section BlockOps
open Dovi.C12

def otherOf : Which → List Nat
  | .v29 => cmv40Levels
  | .v40 => cmv29Levels

/-- the block carries at least the values its length variant writes (a typing condition of the model: the Rust
block structs have all their fields) -/
def ValsFit (b : Block) : Prop :=
  ∀ ws, blockWriteLayout b.level b.length = some ws → ws.length ≤ (blockWriteVals b).length

/-- what a block an edit inserts must satisfy for the write → parse theorem: enough values, and every value in
the wire-normal form of its field (`Block.reparsed`: stored length = `bytes_size()`, values = what the parser
reads back) -/
structure BlockNormal (b : Block) : Prop where
  fits : ValsFit b
  normal : b.reparsed = b

theorem whichContainer_other {l : Nat} {w : Which} (h : whichContainer l = some w) :
    (otherOf w).contains l = false := by
  unfold whichContainer at h
  split at h
  · rename_i h29
    injection h with h; subst h
    simp only [cmv29Levels, cmv40Levels, otherOf, List.contains_eq_mem, List.mem_cons, List.not_mem_nil, or_false,
      decide_eq_true_eq, decide_eq_false_iff_not] at h29 ⊢
    omega
  · rename_i h29
    split at h
    · injection h with h; subst h
      simpa [otherOf] using h29
    · cases h

theorem whichContainer_ne0 {l : Nat} {w : Which} (h : whichContainer l = some w) : l ≠ 0 := by
  intro h0; subst h0
  simp [whichContainer, cmv29Levels, cmv40Levels] at h

theorem fits_of_which {b : Block} {w : Which} (h : whichContainer b.level = some w) (hv : ValsFit b) :
    BlockFits (allowedOf w) (otherOf w) b :=
  ⟨whichContainer_allowed h, whichContainer_other h, whichContainer_ne0 h, hv⟩

/-- every present container has the right count and all its blocks satisfy `Q` -/
def DmAll (Q : Which → Block → Prop) (d : DmData) : Prop :=
  ∀ w c, d.get w = some c → c.num_ext_blocks = c.blocks.length ∧ ∀ x ∈ c.blocks, Q w x

/-- the ids, the main payload and the presence of the two containers are the same -/
structure SameFrame (d d' : DmData) : Prop where
  compressed : d'.compressed = d.compressed
  main : d'.main = d.main
  p29 : d'.cmv29.isSome = d.cmv29.isSome
  p40 : d'.cmv40.isSome = d.cmv40.isSome

theorem SameFrame.refl (d : DmData) : SameFrame d d := ⟨rfl, rfl, rfl, rfl⟩

theorem SameFrame.trans {a b c : DmData} (h1 : SameFrame a b) (h2 : SameFrame b c) : SameFrame a c :=
  ⟨h2.compressed.trans h1.compressed, h2.main.trans h1.main, h2.p29.trans h1.p29, h2.p40.trans h1.p40⟩

theorem SameFrame_set (d : DmData) (w : Which) (c c' : Container) (hg : d.get w = some c) :
    SameFrame d (d.set w c') := by
  cases w with
  | v29 =>
    have : d.cmv29 = some c := hg
    exact ⟨rfl, rfl, by show (some c').isSome = _; rw [this]; rfl, rfl⟩
  | v40 =>
    have : d.cmv40 = some c := hg
    exact ⟨rfl, rfl, rfl, by show (some c').isSome = _; rw [this]; rfl⟩

/-- CM v4.0, if present, has at least one block -/
def Nonempty40 (d : DmData) : Prop := ∀ c, d.cmv40 = some c → c.blocks ≠ []

theorem set_set (d : DmData) (w : Which) (c1 c2 : Container) : (d.set w c1).set w c2 = d.set w c2 := by
  cases w <;> rfl

/-- `c'` is `c` with `b` upserted: right count, `b` present, everything else old -/
structure Upsert (b : Block) (c c' : Container) : Prop where
  count : c'.num_ext_blocks = c'.blocks.length
  mem : b ∈ c'.blocks
  old : ∀ x ∈ c'.blocks, x = b ∨ x ∈ c.blocks

/-- `c'` is `c` with some blocks removed -/
structure Shrunk (c c' : Container) : Prop where
  count : c'.num_ext_blocks = c'.blocks.length
  old : ∀ x ∈ c'.blocks, x ∈ c.blocks

theorem upsert_push (c : Container) (b : Block) : Upsert b c ({ c with blocks := c.blocks ++ [b] }).update := by
  refine ⟨update_count _, ?_, ?_⟩
  · show b ∈ sortBlocks (c.blocks ++ [b])
    rw [mem_sortBlocks]; simp
  · intro x hx
    have hx' : x ∈ sortBlocks (c.blocks ++ [b]) := hx
    rw [mem_sortBlocks] at hx'
    simp only [List.mem_append, List.mem_singleton] at hx'
    exact hx'.symm

theorem shrunk_removeLevel (c : Container) (l : Nat) : Shrunk c (c.removeLevel l) :=
  ⟨(removeLevel_sorted c l).2.1, fun x hx => (removeLevel_spec c l x hx).1⟩

theorem Upsert_of_shrunk {b : Block} {c c1 c2 : Container} (h1 : Shrunk c c1) (h2 : Upsert b c1 c2) : Upsert b c c2 :=
  ⟨h2.count, h2.mem, fun x hx => (h2.old x hx).imp id (h1.old x)⟩

theorem mem_replaceFirstOrPush (p : Block → Bool) (b : Block) (l : List Block) :
    b ∈ replaceFirstOrPush p b l ∧ ∀ y ∈ replaceFirstOrPush p b l, y = b ∨ y ∈ l := by
  induction l with
  | nil => simp [replaceFirstOrPush]
  | cons z zs ih =>
    simp only [replaceFirstOrPush]
    split
    · refine ⟨by simp, ?_⟩
      intro y hy
      rcases List.mem_cons.mp hy with rfl | hy'
      · exact .inl rfl
      · exact .inr (List.mem_cons_of_mem _ hy')
    · refine ⟨List.mem_cons_of_mem _ ih.1, ?_⟩
      intro y hy
      rcases List.mem_cons.mp hy with rfl | hy'
      · exact .inr (by simp)
      · exact (ih.2 y hy').imp id (List.mem_cons_of_mem _)

theorem upsert_replaceKeyed (c : Container) (b : Block) : Upsert b c (c.replaceKeyed b) := by
  refine ⟨update_count _, ?_, ?_⟩
  · show b ∈ sortBlocks _
    rw [mem_sortBlocks]
    exact (mem_replaceFirstOrPush _ b c.blocks).1
  · intro x hx
    have hx' : x ∈ sortBlocks (replaceFirstOrPush
        (fun x => x.level == b.level && x.vals.getD 0 0 == b.vals.getD 0 0) b c.blocks) := hx
    rw [mem_sortBlocks] at hx'
    exact (mem_replaceFirstOrPush _ b c.blocks).2 x hx'

/-- what an insertion does: nothing (level unknown or container absent), or one present container — the one
the block's level belongs to — gets the block upserted -/
def Inserted (b : Block) (d d' : DmData) : Prop :=
  d' = d ∨ ∃ w c c', whichContainer b.level = some w ∧ d.get w = some c ∧ d' = d.set w c' ∧ Upsert b c c'

theorem addBlock_form (d d' : DmData) (b : Block) (h : d.addBlock b = .ok d') : Inserted b d d' := by
  unfold DmData.addBlock at h
  cases hw : whichContainer b.level with
  | none => simp only [hw] at h; injection h with h; exact .inl h.symm
  | some w =>
    simp only [hw] at h
    cases hg : d.get w with
    | none => simp only [hg] at h; injection h with h; exact .inl h.symm
    | some c =>
      simp only [hg, Container.addBlock, whichContainer_allowed hw, if_true, Res.bind] at h
      injection h with h
      exact .inr ⟨w, c, _, hw, hg, h.symm, upsert_push c b⟩

theorem removeLevel_form (d : DmData) (l : Nat) :
    d.removeLevel l = d ∨ ∃ w c c', whichContainer l = some w ∧ d.get w = some c ∧
      d.removeLevel l = d.set w c' ∧ Shrunk c c' := by
  cases hw : whichContainer l with
  | none => left; simp only [DmData.removeLevel, hw]
  | some w =>
    cases hg : d.get w with
    | none => left; simp only [DmData.removeLevel, hw, hg]
    | some c =>
      exact .inr ⟨w, c, c.removeLevel l, rfl, hg, by simp only [DmData.removeLevel, hw, hg], shrunk_removeLevel c l⟩

theorem replaceLevel_form (d d' : DmData) (b : Block) (h : d.replaceLevel b = .ok d') : Inserted b d d' := by
  unfold DmData.replaceLevel at h
  rcases removeLevel_form d b.level with e | ⟨w, c, c1, hw, hg, e, hs⟩
  · rw [e] at h; exact addBlock_form d d' b h
  · rw [e] at h
    rcases addBlock_form _ d' b h with e2 | ⟨w2, c2, c3, hw2, hg2, e2, hu⟩
    · -- impossible: the container is present, so the block was added
      exfalso
      unfold DmData.addBlock at h
      simp only [hw, get_set_same, Container.addBlock, whichContainer_allowed hw, if_true, Res.bind] at h
      injection h with h
      rw [set_set] at h
      have := congrArg (fun x => (x.get w).map (fun c => c.blocks.length)) (e2.symm.trans h.symm)
      simp only [get_set_same, Option.map_some, Container.update, sortBlocks_length, List.length_append,
        List.length_cons, List.length_nil, Option.some.injEq] at this
      omega
    · rw [hw] at hw2
      injection hw2 with hw2
      subst hw2
      rw [get_set_same] at hg2
      injection hg2 with hg2
      subst hg2
      rw [set_set] at e2
      exact .inr ⟨w, c, c3, hw, hg, e2, Upsert_of_shrunk hs hu⟩

theorem replaceBlock_form (d d' : DmData) (b : Block) (h : d.replaceBlock b = .ok d') : Inserted b d d' := by
  unfold DmData.replaceBlock at h
  split at h
  · cases hw : whichContainer b.level with
    | none => simp only [hw] at h; cases h
    | some w =>
      simp only [hw] at h
      cases hg : d.get w with
      | none => simp only [hg] at h; cases h
      | some c =>
        simp only [hg] at h
        injection h with h
        exact .inr ⟨w, c, _, hw, hg, h.symm, upsert_replaceKeyed c b⟩
  · split at h
    · cases h
    · exact replaceLevel_form d d' b h

/-! ### what an insertion / a removal preserves -/

theorem Inserted.frame {b : Block} {d d' : DmData} (h : Inserted b d d') : SameFrame d d' := by
  rcases h with rfl | ⟨w, c, c', _, hg, rfl, _⟩
  · exact SameFrame.refl _
  · exact SameFrame_set d w c c' hg

theorem Inserted.all {b : Block} {d d' : DmData} (h : Inserted b d d') (Q : Which → Block → Prop)
    (hd : DmAll Q d) (hb : ∀ w, whichContainer b.level = some w → Q w b) : DmAll Q d' := by
  rcases h with rfl | ⟨w, c, c', hw, hg, rfl, hu⟩
  · exact hd
  · intro w' c'' hg'
    by_cases hww : w' = w
    · subst hww
      rw [get_set_same] at hg'
      injection hg' with hg'
      subst hg'
      refine ⟨hu.count, fun x hx => ?_⟩
      rcases hu.old x hx with rfl | hold
      · exact hb _ hw
      · exact (hd _ c hg).2 x hold
    · rw [get_set_other d w w' c' hww] at hg'
      exact hd w' c'' hg'

theorem Inserted.nonempty {b : Block} {d d' : DmData} (h : Inserted b d d') (hd : Nonempty40 d) : Nonempty40 d' := by
  rcases h with rfl | ⟨w, c, c', _, hg, rfl, hu⟩
  · exact hd
  · intro c'' hc''
    cases w with
    | v29 => exact hd c'' hc''
    | v40 =>
      have : c'' = c' := by
        have e : (d.set .v40 c').cmv40 = some c' := rfl
        rw [e] at hc''; injection hc'' with hc''; exact hc''.symm
      subst this
      exact List.ne_nil_of_mem hu.mem

theorem removeLevel_frame (d : DmData) (l : Nat) : SameFrame d (d.removeLevel l) := by
  rcases removeLevel_form d l with e | ⟨w, c, c', _, hg, e, _⟩
  · rw [e]; exact SameFrame.refl _
  · rw [e]; exact SameFrame_set d w c c' hg

theorem removeLevel_all (d : DmData) (l : Nat) (Q : Which → Block → Prop) (hd : DmAll Q d) :
    DmAll Q (d.removeLevel l) := by
  rcases removeLevel_form d l with e | ⟨w, c, c', _, hg, e, hs⟩
  · rw [e]; exact hd
  · rw [e]
    intro w' c'' hg'
    by_cases hww : w' = w
    · subst hww
      rw [get_set_same] at hg'
      injection hg' with hg'
      subst hg'
      exact ⟨hs.count, fun x hx => (hd _ c hg).2 x (hs.old x hx)⟩
    · rw [get_set_other d w w' c' hww] at hg'
      exact hd w' c'' hg'

/-! ### `DmShape` / `DmWf` in terms of the per-block invariants -/

def FitsQ : Which → Block → Prop := fun w x => BlockFits (allowedOf w) (otherOf w) x
def NormalQ : Which → Block → Prop := fun _ x => x.reparsed = x

theorem DmShape.all {r : Rpu} {d : DmData} (h : DmShape r d) : DmAll FitsQ d := by
  intro w c hg
  cases w with
  | v29 =>
    obtain ⟨c0, h0, hok⟩ := h.c29
    have : d.cmv29 = some c := hg
    rw [this] at h0; injection h0 with h0; subst h0
    exact ⟨hok.count, hok.fits⟩
  | v40 =>
    have hok := (h.c40 c hg).1
    exact ⟨hok.count, hok.fits⟩

theorem DmShape.nonempty {r : Rpu} {d : DmData} (h : DmShape r d) : Nonempty40 d := fun c hc => (h.c40 c hc).2

/-- rebuild `DmShape` after an edit that kept the frame -/
theorem DmShape_of {r : Rpu} {d d' : DmData} (h : DmShape r d) (hf : SameFrame d d') (ha : DmAll FitsQ d')
    (hn : Nonempty40 d') : DmShape r d' := by
  refine ⟨by rw [hf.compressed]; exact h.comp, ?_, ?_, ?_, by rw [hf.main]; exact h.main⟩
  · obtain ⟨c0, h0, _⟩ := h.c29
    have hs : d'.cmv29.isSome = true := by rw [hf.p29, h0]; rfl
    cases hc : d'.cmv29 with
    | none => rw [hc] at hs; cases hs
    | some c => exact ⟨c, rfl, ⟨(ha .v29 c hc).1, (ha .v29 c hc).2⟩⟩
  · intro c hc
    exact ⟨⟨(ha .v40 c hc).1, (ha .v40 c hc).2⟩, hn c hc⟩
  · intro hnone
    apply h.no40
    have := hf.p40
    rw [hnone] at this
    cases hq : d.cmv40 with
    | none => rfl
    | some c => rw [hq] at this; cases this

theorem normal_all {d : DmData} (h : d.reparsed = d) : DmAll NormalQ d := by
  obtain ⟨_, h29, h40⟩ := (reparsed_eq_iff d).mp h
  intro w c hg
  cases w with
  | v29 =>
    have e : d.cmv29 = some c := hg
    rw [e, Option.map_some] at h29
    injection h29 with h29
    exact (Container.reparsed_eq_iff c).mp h29
  | v40 =>
    have e : d.cmv40 = some c := hg
    rw [e, Option.map_some] at h40
    injection h40 with h40
    exact (Container.reparsed_eq_iff c).mp h40

/-- rebuild the wire-normal part after an edit that kept the frame -/
theorem normal_of {d d' : DmData} (h : d.reparsed = d) (hf : SameFrame d d') (ha : DmAll NormalQ d') :
    d'.reparsed = d' := by
  obtain ⟨hm, _, _⟩ := (reparsed_eq_iff d).mp h
  rw [reparsed_eq_iff]
  refine ⟨by rw [hf.compressed, hf.main]; exact hm, ?_, ?_⟩
  · cases hc : d'.cmv29 with
    | none => rfl
    | some c => rw [Option.map_some, (Container.reparsed_eq_iff c).mpr (ha .v29 c hc)]
  · cases hc : d'.cmv40 with
    | none => rfl
    | some c => rw [Option.map_some, (Container.reparsed_eq_iff c).mpr (ha .v40 c hc)]

/-- **an insertion keeps `DmShape`** (the inserted block only has to carry enough values) -/
theorem Inserted.shape {r : Rpu} {b : Block} {d d' : DmData} (h : Inserted b d d') (hd : DmShape r d)
    (hv : ValsFit b) : DmShape r d' :=
  DmShape_of hd h.frame (h.all FitsQ hd.all (fun _ hw => fits_of_which hw hv)) (h.nonempty hd.nonempty)

/-- **an insertion of a wire-normal block keeps `DmWf`** -/
theorem Inserted.wf {r : Rpu} {b : Block} {d d' : DmData} (h : Inserted b d d') (hd : DmWf r d)
    (hb : BlockNormal b) : DmWf r d' :=
  (DmWf_iff r d').mpr ⟨h.shape ((DmWf_iff r d).mp hd).1 hb.fits,
    normal_of hd.normal h.frame (h.all NormalQ (normal_all hd.normal) (fun _ _ => hb.normal))⟩

theorem replaceBlocks_shape {r : Rpu} (bs : List Block) : ∀ (d d' : DmData), DmShape r d →
    d.replaceBlocks bs = .ok d' → (∀ b ∈ bs, ValsFit b) → DmShape r d' := by
  induction bs with
  | nil => intro d d' hd h _; simp only [DmData.replaceBlocks] at h; injection h with h; subst h; exact hd
  | cons b bs ih =>
    intro d d' hd h hb
    simp only [DmData.replaceBlocks] at h
    cases h1 : d.replaceBlock b with
    | error => simp [h1, Res.bind] at h
    | panic => simp [h1, Res.bind] at h
    | ok d1 =>
      simp only [h1, Res.bind] at h
      exact ih d1 d' ((replaceBlock_form d d1 b h1).shape hd (hb b (by simp))) h
        (fun x hx => hb x (List.mem_cons_of_mem _ hx))

theorem replaceBlocks_wf {r : Rpu} (bs : List Block) : ∀ (d d' : DmData), DmWf r d →
    d.replaceBlocks bs = .ok d' → (∀ b ∈ bs, BlockNormal b) → DmWf r d' := by
  induction bs with
  | nil => intro d d' hd h _; simp only [DmData.replaceBlocks] at h; injection h with h; subst h; exact hd
  | cons b bs ih =>
    intro d d' hd h hb
    simp only [DmData.replaceBlocks] at h
    cases h1 : d.replaceBlock b with
    | error => simp [h1, Res.bind] at h
    | panic => simp [h1, Res.bind] at h
    | ok d1 =>
      simp only [h1, Res.bind] at h
      exact ih d1 d' ((replaceBlock_form d d1 b h1).wf hd (hb b (by simp))) h
        (fun x hx => hb x (List.mem_cons_of_mem _ hx))

/-- **`remove_metadata_level` keeps `DmShape` / `DmWf`** as long as CM v4.0 is not emptied -/
theorem removeLevel_shape {r : Rpu} (d : DmData) (l : Nat) (hd : DmShape r d)
    (hn : Nonempty40 (d.removeLevel l)) : DmShape r (d.removeLevel l) :=
  DmShape_of hd (removeLevel_frame d l) (removeLevel_all d l FitsQ hd.all) hn

theorem removeLevel_wf {r : Rpu} (d : DmData) (l : Nat) (hd : DmWf r d)
    (hn : Nonempty40 (d.removeLevel l)) : DmWf r (d.removeLevel l) :=
  (DmWf_iff r _).mpr ⟨removeLevel_shape d l ((DmWf_iff r d).mp hd).1 hn,
    normal_of hd.normal (removeLevel_frame d l) (removeLevel_all d l NormalQ (normal_all hd.normal))⟩

end BlockOps

/-! ## RPU-level edits -/

/-- an edit that touches nothing but the DM payload (and `modified`, the CRC field, the trailing zero count) -/
theorem RpuWf_dm_edit {r : Rpu} (hwf : RpuWf r) (r' : Rpu)
    (hh : r'.header = r.header) (hp : r'.dovi_profile = r.dovi_profile) (he : r'.el_type = r.el_type)
    (hm : r'.rpu_data_mapping = r.rpu_data_mapping) (hrem : r'.remaining = r.remaining)
    (hd : ∀ d, r.vdr_dm_data = some d → DmWf r d → ∃ d', r'.vdr_dm_data = some d' ∧ DmWf r d')
    (hn : r.vdr_dm_data = none → r'.vdr_dm_data = none) : RpuWf r' := by
  refine ⟨by rw [hh]; exact hwf.hdr, by rw [hh]; exact hwf.pfx, by rw [hp, hh]; exact hwf.profile,
    by rw [he, hm]; exact hwf.elType, by rw [hh, hm]; exact hwf.mapping, ?_, by rw [hrem]; exact hwf.remaining⟩
  have hdm := hwf.dm
  rw [hh]
  split
  · rename_i hf
    rw [if_pos hf] at hdm
    obtain ⟨d, hdd, hdw⟩ := hdm
    obtain ⟨d', hdd', hdw'⟩ := hd d hdd hdw
    exact ⟨d', hdd', DmWf_congr (by rw [hh]) hrem hdw'⟩
  · rename_i hf
    rw [if_neg hf] at hdm
    exact hn hdm

/-- `withDm`-shaped edits: the DM payload, if any, goes through a fallible `f` -/
theorem RpuWf_withDm {r : Rpu} (hwf : RpuWf r) (f : DmData → Res DmData) (mod : Bool) (r' : Rpu)
    (h : (match r.vdr_dm_data with
          | none => Res.ok { r with modified := mod }
          | some d => (f d).bind fun d' => Res.ok { r with modified := mod, vdr_dm_data := some d' }) = .ok r')
    (hf : ∀ d d', r.vdr_dm_data = some d → f d = .ok d' → DmWf r d → DmWf r d') : RpuWf r' := by
  cases hd : r.vdr_dm_data with
  | none =>
    rw [hd] at h
    injection h with h
    subst h
    exact RpuWf_dm_edit hwf _ rfl rfl rfl rfl rfl (fun d hdd => by rw [hd] at hdd; cases hdd) (fun _ => rfl)
  | some d =>
    rw [hd] at h
    cases hfd : f d with
    | error => simp [hfd, Res.bind] at h
    | panic => simp [hfd, Res.bind] at h
    | ok d' =>
      simp only [hfd, Res.bind] at h
      injection h with h
      subst h
      exact RpuWf_dm_edit hwf _ rfl rfl rfl rfl rfl
        (fun d0 hd0 hw0 => by
          rw [hd] at hd0; injection hd0 with hd0; subst hd0
          exact ⟨d', rfl, hf d d' hd hfd hw0⟩)
        (fun hn => by rw [hd] at hn; cases hn)

/-- a block made of unsigned configuration values for a fixed-layout level other than L2 / L11 is wire-normal
as soon as it has exactly the level's number of values -/
theorem natBlock_normal (level length : Nat) (v ws : List Nat)
    (hlay : blockWriteLayout level length = some ws) (h2 : level ≠ 2) (h11 : level ≠ 11)
    (hb : blockBytes level length = length) (hl : v.length = ws.length) (hdef : blockDefaults level = []) :
    BlockNormal { level := level, length := length, vals := v.map Int.ofNat } := by
  have hwv : blockWriteVals { level := level, length := length, vals := v.map Int.ofNat } = v.map Int.ofNat := by
    unfold blockWriteVals
    split
    · rename_i heq _; exact absurd heq h11
    · rfl
  refine ⟨?_, ?_⟩
  · intro ws' hws'
    have e : blockWriteLayout level length = some ws' := hws'
    rw [hlay] at e; injection e with e; subst e
    rw [hwv, List.length_map, hl]; exact Nat.le_refl _
  · have hv : reparsedVals { level := level, length := length, vals := v.map Int.ofNat } = v.map Int.ofNat :=
      reparsedVals_eq _ ws hlay h2 h11 (by simp [hl])
        (by intro x hx; simp only [List.mem_map] at hx; obtain ⟨n, _, rfl⟩ := hx; exact Int.natCast_nonneg n)
        (by
          show (blockDefaults level).drop ws.length = (v.map Int.ofNat).drop ws.length
          rw [hdef, List.drop_nil, List.drop_of_length_le (by simp [hl])])
    unfold Block.reparsed
    rw [hv]
    show ({ level := level, length := blockBytes level length, vals := v.map Int.ofNat } : Block) = _
    rw [hb]

theorem l5Block_normal (l r t b : Nat) : BlockNormal (l5Block l r t b) :=
  natBlock_normal 5 7 [l, r, t, b] [13, 13, 13, 13] rfl (by decide) (by decide) rfl rfl rfl

/-- **`crop`** -/
theorem crop_wf (r r' : Rpu) (hwf : RpuWf r) (h : r.crop = .ok r') : RpuWf r' :=
  RpuWf_withDm hwf (fun d => d.replaceBlock (l5Block 0 0 0 0)) true r' h
    (fun d d' _ hf hw => (replaceBlock_form d d' _ hf).wf hw (l5Block_normal 0 0 0 0))

/-- **`set_active_area_offsets`** -/
theorem setActiveAreaOffsets_wf (r r' : Rpu) (l rr t b : Nat) (hwf : RpuWf r)
    (h : r.setActiveAreaOffsets l rr t b = .ok r') : RpuWf r' :=
  RpuWf_withDm hwf (fun d => d.replaceBlock (l5Block l rr t b)) true r' h
    (fun d d' _ hf hw => (replaceBlock_form d d' _ hf).wf hw (l5Block_normal l rr t b))

/-- **replace / insert one block of the DM payload at RPU level** (`replace_metadata_block` under the editor's
L6 / L9 / L11 / L255 options, any wire-normal block) -/
theorem replaceBlock_rpu_wf (r r' : Rpu) (b : Block) (mod : Bool) (hwf : RpuWf r) (hb : BlockNormal b)
    (h : (match r.vdr_dm_data with
          | none => Res.ok { r with modified := mod }
          | some d => (d.replaceBlock b).bind fun d' => Res.ok { r with modified := mod, vdr_dm_data := some d' }) = .ok r') :
    RpuWf r' :=
  RpuWf_withDm hwf (fun d => d.replaceBlock b) mod r' h (fun d d' _ hf hw => (replaceBlock_form d d' _ hf).wf hw hb)

/-! ### source levels -/

def GoodMain (m : List Int) : Prop := m.length = 32 ∧ mainFix m = m

theorem GoodMain_set {m : List Int} (h : GoodMain m) (i : Nat) (n : Nat)
    (hu : ∀ f, dmMainWriteLayout[i]? = some f → ∃ k, f = .u k) : GoodMain (m.set i (n : Int)) := by
  obtain ⟨hl, hfix⟩ := h
  have hl' : (m.set i (n : Int)).length = 32 := by rw [List.length_set]; exact hl
  refine ⟨hl', ?_⟩
  rw [mainFix_iff _ hl] at hfix
  rw [mainFix_iff _ hl']
  intro j f v hf hv
  by_cases hij : i = j
  · subst hij
    obtain ⟨k, rfl⟩ := hu f hf
    have hi : i < m.length := by
      have h1 := (List.getElem?_eq_some_iff.mp hf).1
      have : dmMainWriteLayout.length = 32 := rfl
      omega
    rw [List.getElem?_set_self hi] at hv
    injection hv with hv
    subst hv
    show (0 : Int) ≤ (n : Int)
    exact Int.natCast_nonneg n
  · rw [List.getElem?_set_ne hij] at hv
    exact hfix j f v hf hv

theorem GoodMain_set29 {m : List Int} (h : GoodMain m) (n : Nat) : GoodMain (m.set 29 (n : Int)) :=
  GoodMain_set h 29 n (fun f hf => by
    have e : dmMainWriteLayout[29]? = some (.u 12) := rfl
    rw [e] at hf; injection hf with hf; exact ⟨12, hf.symm⟩)

theorem GoodMain_set30 {m : List Int} (h : GoodMain m) (n : Nat) : GoodMain (m.set 30 (n : Int)) :=
  GoodMain_set h 30 n (fun f hf => by
    have e : dmMainWriteLayout[30]? = some (.u 12) := rfl
    rw [e] at hf; injection hf with hf; exact ⟨12, hf.symm⟩)

/-- `change_source_levels` only rewrites entries 29 / 30 of the main payload with unsigned values: any property
of the main payload that survives such a rewrite survives `change_source_levels` -/
theorem changeSourceLevels_ind (P : List Int → Prop) (h29 : ∀ m (n : Nat), P m → P (m.set 29 (n : Int)))
    (h30 : ∀ m (n : Nat), P m → P (m.set 30 (n : Int))) (d : DmData) (a b : Option Nat) (h0 : P d.main) :
    ∃ m', d.changeSourceLevels a b = { d with main := m' } ∧ P m' := by
  unfold DmData.changeSourceLevels
  cases a <;> cases b <;> dsimp only
  all_goals split
  all_goals refine ⟨_, rfl, ?_⟩
  all_goals repeat' split
  all_goals repeat (first | exact h0 | apply h29 | apply h30)

theorem changeSourceLevels_form (d : DmData) (a b : Option Nat) (h : GoodMain d.main) :
    ∃ m', d.changeSourceLevels a b = { d with main := m' } ∧ GoodMain m' :=
  changeSourceLevels_ind GoodMain (fun _ n h => GoodMain_set29 h n) (fun _ n h => GoodMain_set30 h n) d a b h

/-- **`change_source_levels` keeps an uncompressed DM payload well formed** -/
theorem changeSourceLevels_wf {r : Rpu} {d : DmData} (h : DmWf r d) (hc : d.compressed = false)
    (a b : Option Nat) : DmWf r (d.changeSourceLevels a b) := by
  have hfix : mainFix d.main = d.main := by
    have := ((reparsed_eq_iff d).mp h.normal).1
    rw [hc] at this
    simpa using this
  obtain ⟨m', e, hl', hfix'⟩ := changeSourceLevels_form d a b ⟨h.main, hfix⟩
  rw [e]
  exact DmWf_main h m' hl' hc hfix'

/-- the editor's `min_pq` / `max_pq` step -/
theorem changeSourceLevels_rpu_wf (r : Rpu) (hwf : RpuWf r) (hu : DmUncompressed r) (a b : Option Nat) :
    RpuWf { r with modified := true, vdr_dm_data := r.vdr_dm_data.map fun d => d.changeSourceLevels a b } := by
  refine RpuWf_dm_edit hwf _ rfl rfl rfl rfl rfl ?_ ?_
  · intro d hd hw
    refine ⟨d.changeSourceLevels a b, by show Option.map _ r.vdr_dm_data = _; rw [hd]; rfl, ?_⟩
    have hflag : r.header.vdr_dm_metadata_present_flag = true := by
      have hdm := hwf.dm
      cases hq : r.header.vdr_dm_metadata_present_flag with
      | true => rfl
      | false => rw [hq] at hdm; simp only [Bool.false_eq_true, if_false] at hdm; rw [hdm] at hd; cases hd
    exact changeSourceLevels_wf hw (uncompressed_of hu d hflag hw) a b
  · intro hn
    show Option.map _ r.vdr_dm_data = none
    rw [hn]; rfl

/-! ### `remove_cmv40` (F16) and `remove_mapping` (F14) -/

/-- **`remove_cmv40`** keeps `RpuWf` iff nothing (more than one byte) precedes the CRC, or there was no CM v4.0 -/
theorem removeCmv40_wf (r : Rpu) (hwf : RpuWf r)
    (hrem : (∃ d, r.vdr_dm_data = some d ∧ d.cmv40.isSome = true) → (r.remaining.getD []).length ≤ 8) :
    RpuWf r.removeCmv40 := by
  unfold Rpu.removeCmv40
  cases hd : r.vdr_dm_data with
  | none => exact hwf
  | some d =>
    dsimp only
    split
    · rename_i h40
      refine RpuWf_dm_edit hwf _ rfl rfl rfl rfl rfl ?_ (fun hn => by rw [hd] at hn; cases hn)
      intro d0 hd0 hw
      rw [hd] at hd0; injection hd0 with hd0; subst hd0
      refine ⟨_, rfl, ⟨hw.comp, hw.c29, (fun c hc => by cases hc), (fun _ => hrem ⟨d, hd, h40⟩), hw.main, ?_⟩⟩
      have hn := (reparsed_eq_iff d).mp hw.normal
      rw [reparsed_eq_iff]
      exact ⟨hn.1, hn.2.1, rfl⟩
    · exact hwf

theorem removeCmv40_wf_conv (r : Rpu) (hwf : RpuWf r.removeCmv40) :
    (∃ d, r.vdr_dm_data = some d ∧ d.cmv40.isSome = true) → (r.remaining.getD []).length ≤ 8 := by
  rintro ⟨d, hd, h40⟩
  have e : r.removeCmv40 = { r with modified := true, vdr_dm_data := some { d with cmv40 := none } } := by
    unfold Rpu.removeCmv40; rw [hd]; dsimp only; rw [if_pos h40]
  rw [e] at hwf
  have hdm := hwf.dm
  split at hdm
  · obtain ⟨d', hd', hw'⟩ := hdm
    have : d' = { d with cmv40 := none } := by
      have e2 : some ({ d with cmv40 := none } : DmData) = some d' := hd'
      injection e2 with e2; exact e2.symm
    subst this
    exact hw'.no40 rfl
  · cases hdm

/-- **`remove_mapping`** keeps `RpuWf` when the integer parts it synthesises are coded -/
theorem removeMapping_wf (r : Rpu) (hwf : RpuWf r) (hi : IntPartsCoded r) : RpuWf r.removeMapping := by
  refine ⟨hwf.hdr, hwf.pfx, hwf.profile, ?_, ?_, dm_clause_same hwf _ rfl rfl rfl rfl, hwf.remaining⟩
  · show r.el_type = (r.rpu_data_mapping.map Mapping.setEmptyP81).bind Mapping.elType
    rw [hwf.elType]
    cases r.rpu_data_mapping <;> rfl
  · exact mapping_clause_map hwf r.header Mapping.setEmptyP81 rfl (fun m hq _ hw => MappingWf_empty _ m (hi hq) hw)

theorem removeMapping_wf_conv (r : Rpu) (hwf : RpuWf r) (hwf' : RpuWf r.removeMapping) : IntPartsCoded r := by
  intro hq
  obtain ⟨m0, _, hw0, hw'⟩ := mapping_of_result hwf _ hwf' Mapping.setEmptyP81 rfl rfl hq
  exact cdt_of_empty r.header m0 (curves3_of_wf hw0) hw'

/-- the editor's scene-cut step: setting `scene_refresh_flag` -/
theorem sceneFlag_wf (r : Rpu) (hwf : RpuWf r) (v : Nat) :
    RpuWf (match r.vdr_dm_data with
           | some d => { r with modified := true, vdr_dm_data := some { d with scene_refresh_flag := v } }
           | none => r) := by
  cases hd : r.vdr_dm_data with
  | none => exact hwf
  | some d =>
    refine RpuWf_dm_edit hwf _ rfl rfl rfl rfl rfl ?_ (fun hn => by rw [hd] at hn; cases hn)
    intro d0 hd0 hw
    rw [hd] at hd0; injection hd0 with hd0; subst hd0
    refine ⟨_, rfl, ⟨hw.comp, hw.c29, hw.c40, hw.no40, hw.main, ?_⟩⟩
    have hn := (reparsed_eq_iff d).mp hw.normal
    rw [reparsed_eq_iff]
    exact hn

/-- removing a CM v2.9 level never empties CM v4.0 -/
theorem removeLevel_nonempty29 (d : DmData) (l : Nat) (hl : cmv29Levels.contains l = true) (hn : Nonempty40 d) :
    Nonempty40 (d.removeLevel l) := by
  have hw : whichContainer l = some .v29 := by unfold whichContainer; rw [if_pos hl]
  rcases removeLevel_form d l with e | ⟨w, c, c', hw', _, e, _⟩
  · rw [e]; exact hn
  · rw [hw] at hw'; injection hw' with hw'; subst hw'
    rw [e]; exact hn

/-- the editor's `drop_l5` step -/
theorem dropL5_wf (r : Rpu) (d : DmData) (hwf : RpuWf r) (hd : r.vdr_dm_data = some d) :
    RpuWf { r with modified := true, vdr_dm_data := some (d.removeLevel 5) } := by
  refine RpuWf_dm_edit hwf _ rfl rfl rfl rfl rfl ?_ (fun hn => by rw [hd] at hn; cases hn)
  intro d0 hd0 hw
  rw [hd] at hd0; injection hd0 with hd0; subst hd0
  exact ⟨_, rfl, removeLevel_wf d 5 hw (removeLevel_nonempty29 d 5 (by decide) ((DmWf_iff r d).mp hw).1.nonempty)⟩

/-! ## generator -/

section Generator
open Dovi.Gen

/-- executable form of `BlockNormal` -/
def BlockNormalB (b : Block) : Bool :=
  (match blockWriteLayout b.level b.length with
   | some ws => decide (ws.length ≤ (blockWriteVals b).length)
   | none => true) && decide (b.reparsed = b)

theorem BlockNormal_of_B (b : Block) (h : BlockNormalB b = true) : BlockNormal b := by
  simp only [BlockNormalB, Bool.and_eq_true, decide_eq_true_eq] at h
  refine ⟨?_, h.2⟩
  intro ws hws
  have h1 := h.1
  rw [hws] at h1
  simpa using h1

/-- what the generator needs from its configuration: the model-level typing of the L5 / L6 value lists, and
wire-normal blocks everywhere a block is given -/
structure CfgOk (c : Config) : Prop where
  l5 : c.level5.length = 4
  l6 : ∀ v, c.level6 = some v → v.length = 4
  defaults : ∀ b ∈ c.defaults, BlockNormal b

/-- the payload `from_generate_config` starts from -/
def d0 (p : Profile) (cm : Bool) : DmData :=
  { main := dmMainOf p, cmv29 := some {},
    cmv40 := if cm then some { num_ext_blocks := 1, blocks := [{ level := 254, length := 2, vals := [0, 2] }] } else none }

theorem d0_wf (p : Profile) (cm : Bool) : DmWf ({} : Rpu) (d0 p cm) := by
  cases p <;> cases cm <;> exact DmWf_of_B _ _ (by decide)

theorem DmWf_uncompressed {r : Rpu} {d : DmData} (h : DmWf r d) (h3 : r.header.reserved_zero_3bits = 0) :
    d.compressed = false := by
  rw [← h.comp, h3]; rfl

/-- **`VdrDmData::from_generate_config`** yields a well-formed DM payload (for an RPU with an uncompressed DM
header and nothing before the CRC) -/
theorem dmFromConfig_wf (c : Config) (d : DmData) (rr : Rpu) (h3 : rr.header.reserved_zero_3bits = 0)
    (hrem : rr.remaining = none) (hc : CfgOk c) (h : dmFromConfig c = .ok d) : DmWf rr d := by
  have hw0 : DmWf rr (d0 c.profile c.cmv40) :=
    DmWf_congr (r := ({} : Rpu)) h3 hrem (d0_wf c.profile c.cmv40)
  unfold dmFromConfig at h
  change ((d0 c.profile c.cmv40).replaceBlock _).bind _ = _ at h
  obtain ⟨d1, h1, h⟩ := Res.bind_eq_ok' h
  have hw1 : DmWf rr d1 := (replaceBlock_form _ d1 _ h1).wf hw0
    (natBlock_normal 5 7 c.level5 [13, 13, 13, 13] rfl (by decide) (by decide) rfl hc.l5 rfl)
  obtain ⟨d2, h2, h⟩ := Res.bind_eq_ok' h
  have hw2 : DmWf rr d2 := by
    cases h6 : c.level6 with
    | none => rw [h6] at h2; injection h2 with h2; subst h2; exact hw1
    | some v =>
      rw [h6] at h2
      exact (replaceBlock_form _ d2 _ h2).wf hw1
        (natBlock_normal 6 8 v [16, 16, 16, 16] rfl (by decide) (by decide) rfl (hc.l6 v h6) rfl)
  obtain ⟨d3, h3', h⟩ := Res.bind_eq_ok' h
  have hw3 : DmWf rr d3 := (replaceBlock_form _ d3 _ h3').wf hw2 (BlockNormal_of_B _ (by decide))
  obtain ⟨d4, h4, h⟩ := Res.bind_eq_ok' h
  have hw4 : DmWf rr d4 := (replaceBlock_form _ d4 _ h4).wf hw3 (BlockNormal_of_B _ (by decide))
  obtain ⟨d5, h5, h⟩ := Res.bind_eq_ok' h
  injection h with h
  subst h
  have hw5 : DmWf rr d5 := replaceBlocks_wf _ d4 d5 hw4 h5
    (fun b hb => hc.defaults b (List.mem_filter.mp hb).1)
  exact changeSourceLevels_wf hw5 (DmWf_uncompressed hw5 h3) _ _

theorem p81Mapping_wf5 :
    MappingWf { p8DefaultHeader with vdr_rpu_profile := 0, bl_video_full_range_flag := true } p81Mapping = true := by
  decide

theorem p81Mapping_wf8 : MappingWf p8DefaultHeader p81Mapping = true := by decide

/-- `RpuWf` of an RPU with a mapping, a DM payload and nothing before the CRC, from its parts -/
theorem RpuWf_of_parts (r : Rpu) (m : Mapping) (d : DmData) (hh : r.header.Wf = true)
    (hp : r.header.rpu_nal_prefix = 25) (hprof : r.dovi_profile = r.header.getDoviProfile)
    (hel : r.el_type = m.elType) (hu : r.header.use_prev_vdr_rpu_flag = false)
    (hm : r.rpu_data_mapping = some m) (hmw : MappingWf r.header m = true)
    (hf : r.header.vdr_dm_metadata_present_flag = true) (hd : r.vdr_dm_data = some d) (hdw : DmWf r d)
    (hrem : r.remaining = none) : RpuWf r := by
  refine ⟨hh, hp, hprof, by rw [hel, hm]; rfl, ?_, ?_, fun rem hr => by rw [hrem] at hr; cases hr⟩
  · rw [hu]; exact ⟨m, hm, hmw⟩
  · rw [hf]; exact ⟨d, hd, hdw⟩

theorem p8_wf : p8DefaultHeader.Wf = true := by decide
theorem p5hdr_wf : ({ p8DefaultHeader with vdr_rpu_profile := 0, bl_video_full_range_flag := true } : Header).Wf = true := by
  decide
theorem p81Mapping_safe : p81Mapping.fillSafe = true := by decide

/-- **the generator's base RPU**: its normalisation is `RpuWf`, its mapping is one the writer treats like the
normalisation, and for profiles 5 / 8.1 it is `RpuWf` itself -/
theorem baseRpu_wf (c : Config) (r : Rpu) (hc : CfgOk c) (h : baseRpu c = .ok r) :
    RpuWf r.fillLinear ∧ (∀ m, r.rpu_data_mapping = some m → m.fillSafe = true) ∧
    (c.profile ≠ .p84 → RpuWf r) := by
  unfold baseRpu at h
  obtain ⟨d, hd, h⟩ := Res.bind_eq_ok' h
  injection h with h
  cases hp : c.profile with
  | p5 =>
    rw [hp] at h; dsimp only at h; subst h
    have hw : RpuWf ({ dovi_profile := 5
                       modified := true
                       header := { p8DefaultHeader with vdr_rpu_profile := 0, bl_video_full_range_flag := true }
                       rpu_data_mapping := some p81Mapping
                       vdr_dm_data := some d } : Rpu) :=
      RpuWf_of_parts _ p81Mapping d p5hdr_wf rfl rfl rfl rfl rfl p81Mapping_wf5 rfl rfl
        (dmFromConfig_wf c d _ rfl rfl hc hd) rfl
    exact ⟨by rw [fillLinear_of_RpuWf _ hw]; exact hw,
      fun m hm => by injection hm with hm; subst hm; exact p81Mapping_safe, fun _ => hw⟩
  | p81 =>
    rw [hp] at h; dsimp only at h; subst h
    have hw : RpuWf ({ dovi_profile := 8
                       modified := true
                       header := p8DefaultHeader
                       rpu_data_mapping := some p81Mapping
                       vdr_dm_data := some d } : Rpu) :=
      RpuWf_of_parts _ p81Mapping d p8_wf rfl rfl rfl rfl rfl p81Mapping_wf8 rfl rfl
        (dmFromConfig_wf c d _ rfl rfl hc hd) rfl
    exact ⟨by rw [fillLinear_of_RpuWf _ hw]; exact hw,
      fun m hm => by injection hm with hm; subst hm; exact p81Mapping_safe, fun _ => hw⟩
  | p84 =>
    rw [hp] at h; dsimp only at h; subst h
    refine ⟨?_, fun m hm => by injection hm with hm; subst hm; exact p84_fillSafe, fun hne => absurd rfl hne⟩
    exact RpuWf_of_parts _ profile84Mapping.fillLinear d p8_wf rfl rfl rfl rfl rfl MappingWf_p84_fill rfl rfl
      (dmFromConfig_wf c d _ rfl rfl hc hd) rfl

theorem DmWf_sceneFlag {r : Rpu} {d : DmData} (hw : DmWf r d) (v : Nat) : DmWf r { d with scene_refresh_flag := v } := by
  refine ⟨hw.comp, hw.c29, hw.c40, hw.no40, hw.main, ?_⟩
  have hn := (reparsed_eq_iff d).mp hw.normal
  rw [reparsed_eq_iff]
  exact hn

/-- what the generator needs from a shot: wire-normal blocks -/
structure ShotOk (s : Shot) : Prop where
  blocks : ∀ b ∈ s.blocks, BlockNormal b
  edits : ∀ e ∈ s.edits, ∀ b ∈ e.blocks, BlockNormal b

/-- closed form of a successful `frameRpu` on a base RPU with a DM payload -/
theorem frameRpu_form (c : Config) (base r : Rpu) (s : Shot) (i : Nat) (d : DmData)
    (hd : base.vdr_dm_data = some d) (h : frameRpu c base s i = .ok r) :
    ∃ d2 d3, (if (i == 0 || c.longPlay) = true then { d with scene_refresh_flag := 1 } else d).replaceBlocks s.blocks = .ok d2 ∧
      (∀ e, s.edits.find? (fun (e : FrameEdit) => e.offset == i) = some e → d2.replaceBlocks e.blocks = .ok d3) ∧
      (s.edits.find? (fun (e : FrameEdit) => e.offset == i) = none → d3 = d2) ∧
      r = { base with vdr_dm_data := some d3 } := by
  unfold frameRpu at h
  rw [hd] at h
  dsimp only at h
  obtain ⟨d2, h1, h⟩ := Res.bind_eq_ok' h
  obtain ⟨d3, h2, h⟩ := Res.bind_eq_ok' h
  injection h with h
  refine ⟨d2, d3, h1, ?_, ?_, h.symm⟩
  · intro e he; rw [he] at h2; exact h2
  · intro he; rw [he] at h2; injection h2 with h2; exact h2.symm

theorem frameRpu_none (c : Config) (base : Rpu) (s : Shot) (i : Nat) (hd : base.vdr_dm_data = none) :
    frameRpu c base s i = .ok base := by
  unfold frameRpu; rw [hd]

/-- **one generated frame** keeps `RpuWf` (and everything but the DM payload) -/
theorem frameRpu_wf (c : Config) (base r : Rpu) (s : Shot) (i : Nat) (hwf : RpuWf base) (hs : ShotOk s)
    (h : frameRpu c base s i = .ok r) : RpuWf r := by
  cases hd : base.vdr_dm_data with
  | none => rw [frameRpu_none c base s i hd] at h; injection h with h; subst h; exact hwf
  | some d =>
    obtain ⟨d2, d3, h1, h2, h2n, rfl⟩ := frameRpu_form c base r s i d hd h
    have hw0 : DmWf base d := by
      have hdm := hwf.dm
      split at hdm
      · obtain ⟨d', hd', hw'⟩ := hdm
        rw [hd] at hd'; injection hd' with hd'; subst hd'; exact hw'
      · rw [hd] at hdm; cases hdm
    have hw1 : DmWf base (if (i == 0 || c.longPlay) = true then { d with scene_refresh_flag := 1 } else d) := by
      split
      · exact DmWf_sceneFlag hw0 1
      · exact hw0
    have hw2 : DmWf base d2 := replaceBlocks_wf _ _ d2 hw1 h1 hs.blocks
    have hw3 : DmWf base d3 := by
      cases hf : s.edits.find? (fun (e : FrameEdit) => e.offset == i) with
      | none => rw [h2n hf]; exact hw2
      | some e => exact replaceBlocks_wf _ d2 d3 hw2 (h2 e hf) (hs.edits e (List.mem_of_find?_eq_some hf))
    exact RpuWf_dm_edit hwf _ rfl rfl rfl rfl rfl (fun _ _ _ => ⟨d3, rfl, hw3⟩)
      (fun hn => by rw [hd] at hn; cases hn)

/-- a frame differs from the base RPU in the DM payload only … -/
theorem frameRpu_mapping (c : Config) (base r : Rpu) (s : Shot) (i : Nat) (h : frameRpu c base s i = .ok r) :
    ∃ dm, r = { base with vdr_dm_data := dm } := by
  cases hd : base.vdr_dm_data with
  | none =>
    rw [frameRpu_none c base s i hd] at h; injection h with h; subst h
    exact ⟨none, by rw [← hd]⟩
  | some d =>
    obtain ⟨_, d3, _, _, _, e⟩ := frameRpu_form c base r s i d hd h
    exact ⟨some d3, e⟩

/-- … and the generator does not look at anything else: frames of the normalised base are the normalised frames -/
theorem frameRpu_fill (c : Config) (base r : Rpu) (s : Shot) (i : Nat) (h : frameRpu c base s i = .ok r) :
    frameRpu c base.fillLinear s i = .ok r.fillLinear := by
  cases hd : base.vdr_dm_data with
  | none =>
    rw [frameRpu_none c base s i hd] at h; injection h with h; subst h
    exact frameRpu_none c _ s i hd
  | some d =>
    obtain ⟨d2, d3, h1, h2, h2n, rfl⟩ := frameRpu_form c base r s i d hd h
    unfold frameRpu
    have e : base.fillLinear.vdr_dm_data = some d := hd
    rw [e]
    dsimp only
    rw [h1]
    simp only [Res.ok_bind]
    cases hf : s.edits.find? (fun (e : FrameEdit) => e.offset == i) with
    | none => rw [h2n hf]; rfl
    | some e => simp only [h2 e hf, Res.ok_bind]; rfl

theorem frameRpu_ok (c : Config) (base r : Rpu) (s : Shot) (i : Nat) (hb : WfN base) (hs : ShotOk s)
    (h : frameRpu c base s i = .ok r) : WfN r := by
  refine ⟨frameRpu_wf c base.fillLinear r.fillLinear s i hb.1 hs (frameRpu_fill c base r s i h), ?_⟩
  obtain ⟨dm, rfl⟩ := frameRpu_mapping c base r s i h
  exact hb.2

/-- a property of the base RPU that every frame step preserves holds for all frames of a shot … -/
theorem shotFrames_ind (P : Rpu → Prop) (c : Config) (base : Rpu) (s : Shot)
    (step : ∀ r i, frameRpu c base s i = .ok r → P r) :
    ∀ (n i : Nat) (rs : List Rpu), shotFrames c base s n i = .ok rs → ∀ r ∈ rs, P r := by
  intro n
  induction n with
  | zero => intro i rs h r hr; simp only [shotFrames] at h; injection h with h; subst h; cases hr
  | succ n ih =>
    intro i rs h r hr
    simp only [shotFrames] at h
    obtain ⟨r1, h1, h⟩ := Res.bind_eq_ok' h
    obtain ⟨t, h2, h⟩ := Res.bind_eq_ok' h
    injection h with h
    subst h
    rcases List.mem_cons.mp hr with rfl | hr'
    · exact step _ i h1
    · exact ih (i + 1) t h2 r hr'

/-- … and of all shots -/
theorem allFrames_ind (P : Rpu → Prop) (c : Config) (base : Rpu) :
    ∀ (shots : List Shot) (rs : List Rpu),
      (∀ s ∈ shots, ∀ r i, frameRpu c base s i = .ok r → P r) → allFrames c base shots = .ok rs →
      ∀ r ∈ rs, P r := by
  intro shots
  induction shots with
  | nil => intro rs _ h r hr; simp only [allFrames] at h; injection h with h; subst h; cases hr
  | cons s rest ih =>
    intro rs hs h r hr
    simp only [allFrames] at h
    obtain ⟨a, h1, h⟩ := Res.bind_eq_ok' h
    obtain ⟨b, h2, h⟩ := Res.bind_eq_ok' h
    injection h with h
    subst h
    rcases List.mem_append.mp hr with hr' | hr'
    · exact shotFrames_ind P c base s (hs s (by simp)) _ _ a h1 r hr'
    · exact ih b (fun s' hs' => hs s' (List.mem_cons_of_mem _ hs')) h2 r hr'

/-- **every RPU of `generate_rpu_list`**: its normalisation is `RpuWf`, the writer treats it like the
normalisation, and for profiles 5 / 8.1 it is `RpuWf` itself -/
theorem generateList_ok (c : Config) (rs : List Rpu) (hc : CfgOk c) (hs : ∀ s ∈ c.shots, ShotOk s)
    (h : generateList c = .ok rs) :
    (∀ r ∈ rs, WfN r) ∧ (c.profile ≠ .p84 → ∀ r ∈ rs, RpuWf r) := by
  unfold generateList at h
  obtain ⟨base, hb, h⟩ := Res.bind_eq_ok' h
  split at h
  · cases h
  · obtain ⟨h1, h2, h3⟩ := baseRpu_wf c base hc hb
    refine ⟨allFrames_ind WfN c base c.shots rs
        (fun s hs' r i hf => frameRpu_ok c base r s i ⟨h1, h2⟩ (hs s hs') hf) h, fun hne => ?_⟩
    exact allFrames_ind RpuWf c base c.shots rs
      (fun s hs' r i hf => frameRpu_wf c base r s i (h3 hne) (hs s hs') hf) h

end Generator

/-! ## the executable shape check is complete (so `RpuWf` is decidable: used for the witnesses) -/

theorem BlockFitsB_of (allowed other : List Nat) (b : Block) (h : BlockFits allowed other b) :
    BlockFitsB allowed other b = true := by
  obtain ⟨h1, h2, h3, h4⟩ := h
  simp only [BlockFitsB, h1, h2, Bool.not_false, Bool.and_true, Bool.true_and, Bool.and_eq_true, bne_iff_ne, ne_eq]
  refine ⟨h3, ?_⟩
  cases hl : blockWriteLayout b.level b.length with
  | none => rfl
  | some ws => simpa using h4 ws hl

theorem ContainerOkB_of (allowed other : List Nat) (c : Container) (h : ContainerOk allowed other c) :
    ContainerOkB allowed other c = true := by
  simp only [ContainerOkB, Bool.and_eq_true, beq_iff_eq, List.all_eq_true]
  exact ⟨h.count, fun b hb => BlockFitsB_of _ _ b (h.fits b hb)⟩

theorem DmWfB_of (r : Rpu) (d : DmData) (h : DmWf r d) : DmWfB r d = true := by
  simp only [DmWfB, Bool.and_eq_true, beq_iff_eq, decide_eq_true_eq]
  refine ⟨⟨⟨⟨h.comp, ?_⟩, ?_⟩, h.main⟩, h.normal⟩
  · obtain ⟨c, hc, hok⟩ := h.c29
    rw [hc]; exact ContainerOkB_of _ _ c hok
  · cases hc : d.cmv40 with
    | none => simpa using h.no40 hc
    | some c =>
      obtain ⟨hok, hne⟩ := h.c40 c hc
      simp only [Bool.and_eq_true, Bool.not_eq_true', List.isEmpty_eq_false_iff]
      exact ⟨ContainerOkB_of _ _ c hok, hne⟩

theorem RpuWfB_of (r : Rpu) (h : RpuWf r) : RpuWfB r = true := by
  simp only [RpuWfB, Bool.and_eq_true, beq_iff_eq, decide_eq_true_eq]
  refine ⟨⟨⟨⟨⟨⟨h.hdr, h.pfx⟩, h.profile⟩, h.elType⟩, ?_⟩, ?_⟩, ?_⟩
  · have hm := h.mapping
    split at hm
    · rename_i hu; rw [if_pos hu, hm]; rfl
    · rename_i hu
      rw [if_neg hu]
      obtain ⟨m, hmm, hmw⟩ := hm
      rw [hmm]; exact hmw
  · have hd := h.dm
    split at hd
    · rename_i hu
      rw [if_pos hu]
      obtain ⟨d, hdd, hdw⟩ := hd
      rw [hdd]; exact DmWfB_of r d hdw
    · rename_i hu; rw [if_neg hu, hd]; rfl
  · cases hr : r.remaining with
    | none => rfl
    | some rem =>
      obtain ⟨h1, h2⟩ := h.remaining rem hr
      simp only [Bool.and_eq_true, Bool.not_eq_true', List.isEmpty_eq_false_iff, beq_iff_eq]
      exact ⟨h1, h2⟩

theorem RpuWf_iff_B (r : Rpu) : RpuWf r ↔ RpuWfB r = true := ⟨RpuWfB_of r, RpuWf_of_B r⟩

instance (r : Rpu) : Decidable (RpuWf r) := decidable_of_iff _ (RpuWf_iff_B r).symm

theorem DmWf_iff_B (r : Rpu) (d : DmData) : DmWf r d ↔ DmWfB r d = true := ⟨DmWfB_of r d, DmWf_of_B r d⟩

instance (r : Rpu) (d : DmData) : Decidable (DmWf r d) := decidable_of_iff _ (DmWf_iff_B r d).symm

theorem BlockNormal_iff_B (b : Block) : BlockNormal b ↔ BlockNormalB b = true := by
  refine ⟨fun h => ?_, BlockNormal_of_B b⟩
  simp only [BlockNormalB, Bool.and_eq_true, decide_eq_true_eq]
  refine ⟨?_, h.normal⟩
  cases hl : blockWriteLayout b.level b.length with
  | none => rfl
  | some ws => simpa using h.fits ws hl

instance (b : Block) : Decidable (BlockNormal b) := decidable_of_iff _ (BlockNormal_iff_B b).symm

/-! ## closure: `WfN` is preserved by every operation, in any order -/

section Closure

theorem PolyCurve.fillLinear_idem (p : PolyCurve) : p.fillLinear.fillLinear = p.fillLinear := by
  unfold PolyCurve.fillLinear
  split
  · dsimp only
    split
    · rename_i h2; rw [h2]
    · rfl
  · rfl

theorem Curve.fillLinear_idem (c : Curve) : c.fillLinear.fillLinear = c.fillLinear := by
  unfold Curve.fillLinear
  cases hp : c.polynomial with
  | none => rfl
  | some p => simp only [Option.map_some, PolyCurve.fillLinear_idem]

theorem Mapping.fillLinear_idem (m : Mapping) : m.fillLinear.fillLinear = m.fillLinear := by
  unfold Mapping.fillLinear
  simp only [List.map_map]
  have : Curve.fillLinear ∘ Curve.fillLinear = Curve.fillLinear := funext Curve.fillLinear_idem
  rw [this]

theorem Rpu.fillLinear_idem (r : Rpu) : r.fillLinear.fillLinear = r.fillLinear := by
  unfold Rpu.fillLinear
  cases r.rpu_data_mapping with
  | none => rfl
  | some m => simp only [Option.map_some, Mapping.fillLinear_idem]

/-- `DmWf` does not look at the mapping -/
theorem DmWf_fill {r : Rpu} {d : DmData} : DmWf r.fillLinear d ↔ DmWf r d :=
  ⟨DmWf_congr (r := r.fillLinear) (r' := r) rfl rfl, DmWf_congr (r := r) (r' := r.fillLinear) rfl rfl⟩

/-- DM-only edits preserve `WfN` -/
theorem WfN_dm_edit {r : Rpu} (h : WfN r) (r' : Rpu)
    (hh : r'.header = r.header) (hp : r'.dovi_profile = r.dovi_profile) (he : r'.el_type = r.el_type)
    (hm : r'.rpu_data_mapping = r.rpu_data_mapping) (hrem : r'.remaining = r.remaining)
    (hd : ∀ d, r.vdr_dm_data = some d → DmWf r d → ∃ d', r'.vdr_dm_data = some d' ∧ DmWf r d')
    (hn : r.vdr_dm_data = none → r'.vdr_dm_data = none) : WfN r' := by
  refine ⟨RpuWf_dm_edit h.1 r'.fillLinear hh hp he ?_ hrem ?_ hn, by rw [hm]; exact h.2⟩
  · show r'.rpu_data_mapping.map Mapping.fillLinear = r.rpu_data_mapping.map Mapping.fillLinear
    rw [hm]
  · intro d hd0 hw
    obtain ⟨d', h1, h2⟩ := hd d hd0 (DmWf_fill.mp hw)
    exact ⟨d', h1, DmWf_fill.mpr h2⟩

/-- the DM payload of a `WfN` RPU is `DmWf`, and present exactly when the header says so -/
theorem WfN.dm {r : Rpu} (h : WfN r) (d : DmData) (hd : r.vdr_dm_data = some d) :
    DmWf r d ∧ r.header.vdr_dm_metadata_present_flag = true := by
  have hdm := h.1.dm
  have e1 : r.fillLinear.header = r.header := rfl
  have e2 : r.fillLinear.vdr_dm_data = r.vdr_dm_data := rfl
  rw [e1, e2] at hdm
  split at hdm
  · rename_i hf
    obtain ⟨d', hd', hw'⟩ := hdm
    rw [hd] at hd'; injection hd' with hd'; subst hd'
    exact ⟨DmWf_fill.mp hw', hf⟩
  · rw [hd] at hdm; cases hdm

theorem WfN_withDm {r : Rpu} (hwf : WfN r) (f : DmData → Res DmData) (mod : Bool) (r' : Rpu)
    (h : (match r.vdr_dm_data with
          | none => Res.ok { r with modified := mod }
          | some d => (f d).bind fun d' => Res.ok { r with modified := mod, vdr_dm_data := some d' }) = .ok r')
    (hf : ∀ d d', r.vdr_dm_data = some d → f d = .ok d' → DmWf r d → DmWf r d') : WfN r' := by
  cases hd : r.vdr_dm_data with
  | none =>
    rw [hd] at h
    injection h with h
    subst h
    exact WfN_dm_edit hwf _ rfl rfl rfl rfl rfl (fun d hdd => by rw [hd] at hdd; cases hdd) (fun _ => rfl)
  | some d =>
    rw [hd] at h
    obtain ⟨d', hfd, h⟩ := Res.bind_eq_ok' h
    injection h with h
    subst h
    exact WfN_dm_edit hwf _ rfl rfl rfl rfl rfl
      (fun d0 hd0 hw0 => by
        rw [hd] at hd0; injection hd0 with hd0; subst hd0
        exact ⟨d', rfl, hf d d' hd hfd hw0⟩)
      (fun hn => by rw [hd] at hn; cases hn)

/-! ### conversions commute with the normalisation -/

theorem fill_map_comm (f : Mapping → Mapping) (hf : ∀ m, f m.fillLinear = (f m).fillLinear) (o : Option Mapping) :
    (o.map Mapping.fillLinear).map f = (o.map f).map Mapping.fillLinear := by
  cases o with
  | none => rfl
  | some m => simp only [Option.map_some, hf]

theorem strip_fill (m : Mapping) : stripNlq m.fillLinear = (stripNlq m).fillLinear := rfl
theorem mel_fill (m : Mapping) : melMapping m.fillLinear = (melMapping m).fillLinear := rfl

theorem p81Curve_fill : p81Curve.fillLinear = p81Curve := by decide

theorem empty_fill (m : Mapping) : m.fillLinear.setEmptyP81 = m.setEmptyP81.fillLinear := by
  have e1 : m.fillLinear.setEmptyP81 = { m with curves := (m.curves.map Curve.fillLinear).map fun _ => p81Curve } := rfl
  have e2 : m.setEmptyP81.fillLinear = { m with curves := (m.curves.map fun _ => p81Curve).map Curve.fillLinear } := rfl
  rw [e1, e2, List.map_map, List.map_map]
  have : ((fun _ => p81Curve) ∘ Curve.fillLinear : Curve → Curve) = (Curve.fillLinear ∘ fun _ => p81Curve) := by
    funext c; simp only [Function.comp, p81Curve_fill]
  rw [this]

theorem empty_strip_fill (m : Mapping) :
    (Mapping.setEmptyP81 ∘ stripNlq) m.fillLinear = ((Mapping.setEmptyP81 ∘ stripNlq) m).fillLinear := by
  show (stripNlq m.fillLinear).setEmptyP81 = ((stripNlq m).setEmptyP81).fillLinear
  rw [strip_fill, empty_fill]

theorem elType_fill (o : Option Mapping) : (o.map Mapping.fillLinear).bind Mapping.elType = o.bind Mapping.elType := by
  cases o <;> rfl

theorem fin_fill (x : Rpu) : fin x.fillLinear = (fin x).fillLinear := by
  have := elType_fill x.rpu_data_mapping
  unfold fin Rpu.fillLinear
  dsimp only
  rw [this]

theorem convertOk_fill (m : Mode) (r : Rpu) : ConvertOk m r.fillLinear ↔ ConvertOk m r := by
  have hmel : melOk r.fillLinear ↔ melOk r := by
    unfold melOk
    show (∀ m, r.rpu_data_mapping.map Mapping.fillLinear = some m → m.nlq = none → r.dovi_profile = 8) ↔ _
    cases r.rpu_data_mapping with
    | none => simp
    | some m0 =>
      simp only [Option.map_some, Option.some.injEq]
      constructor
      · intro h m hm hn; subst hm; exact h _ rfl hn
      · intro h m hm hn; subst hm; exact h _ rfl hn
  cases m with
  | lossless => exact Iff.rfl
  | to84 => exact Iff.rfl
  | to81 => exact Iff.rfl
  | to81MappingPreserved => exact Iff.rfl
  | toMel =>
    show ((r.dovi_profile = 7 ∨ r.dovi_profile = 8) ∧ melOk r.fillLinear) ↔ _
    rw [hmel]; exact Iff.rfl

theorem preTarget_fill (m : Mode) (r : Rpu) (hm : m ≠ .to84) :
    preTarget m r.fillLinear = (preTarget m r).fillLinear := by
  cases r with
  | mk prof el hdr mp dm rem crc mod tz =>
  cases mp with
  | none =>
    cases m with
    | to84 => exact absurd rfl hm
    | to81 =>
      by_cases h5 : prof = 5
      · simp only [preTarget, Rpu.fillLinear, h5, if_true, Option.map_none]
      · by_cases hf : el = some .fel
        · simp only [preTarget, Rpu.fillLinear, h5, hf, if_false, if_true, Option.map_none]
        · simp only [preTarget, Rpu.fillLinear, h5, hf, if_false, Option.map_none]
    | lossless => rfl
    | toMel => rfl
    | to81MappingPreserved => rfl
  | some mp =>
    cases m with
    | to84 => exact absurd rfl hm
    | lossless => rfl
    | toMel => rfl
    | to81MappingPreserved => rfl
    | to81 =>
      have e := empty_strip_fill mp
      simp only [Function.comp] at e
      by_cases h5 : prof = 5
      · simp only [preTarget, Rpu.fillLinear, h5, if_true, Option.map_some, e]
      · by_cases hf : el = some .fel
        · simp only [preTarget, Rpu.fillLinear, h5, hf, if_false, if_true, Option.map_some, e]
        · simp only [preTarget, Rpu.fillLinear, h5, hf, if_false, Option.map_some]
          rfl

theorem preTarget_fill84 (r : Rpu) :
    (preTarget .to84 r.fillLinear).fillLinear = (preTarget .to84 r).fillLinear := rfl

/-- **conversions commute with the normalisation** (up to the normalisation of the result) -/
theorem convert_fill (m : Mode) (r r' : Rpu) (h : r.convertWithMode m = .ok r') :
    ∃ r'', r.fillLinear.convertWithMode m = .ok r'' ∧ r''.fillLinear = r'.fillLinear := by
  obtain ⟨hok, e⟩ := (cw_ok_iff m r r').1 h
  subst e
  refine ⟨_, cw_ok m r.fillLinear ((convertOk_fill m r).mpr hok), ?_⟩
  by_cases hm : m = .to84
  · subst hm
    rw [← fin_fill, ← fin_fill, preTarget_fill84]
  · rw [preTarget_fill m r hm, fin_fill, Rpu.fillLinear_idem]

theorem convSide_fill (m : Mode) (r : Rpu) : ConvSide m r.fillLinear ↔ ConvSide m r := by
  cases m <;> exact Iff.rfl

theorem fillSafe_strip (m : Mapping) (h : m.fillSafe = true) : (stripNlq m).fillSafe = true := h
theorem fillSafe_mel (m : Mapping) (h : m.fillSafe = true) : (melMapping m).fillSafe = true := h
theorem fillSafe_iff (m : Mapping) :
    m.fillSafe = true ↔ ∀ c ∈ m.curves, ∀ p, c.polynomial = some p → p.fillSafe = true := by
  simp only [Mapping.fillSafe, List.all_eq_true]
  constructor
  · intro h c hc p hp
    have := h c hc
    rw [hp] at this
    exact this
  · intro h c hc
    cases hp : c.polynomial with
    | none => rfl
    | some p => exact h c hc p hp

theorem fillSafe_empty (m : Mapping) : m.setEmptyP81.fillSafe = true := by
  rw [fillSafe_iff]
  intro c hc p hp
  rw [setEmptyP81_curves, List.mem_map] at hc
  obtain ⟨_, _, rfl⟩ := hc
  have e : p81Curve.polynomial = some p81PolyCurve := rfl
  rw [e] at hp
  injection hp with hp
  subst hp
  decide

/-- the mapping of a conversion result is `fillSafe` when the source's is -/
theorem convert_fillSafe' (m : Mode) (r r' : Rpu) (h : r.convertWithMode m = .ok r')
    (hs : ∀ mp, r.rpu_data_mapping = some mp → mp.fillSafe = true) :
    ∀ mp, r'.rpu_data_mapping = some mp → mp.fillSafe = true := by
  obtain ⟨_, e⟩ := (cw_ok_iff m r r').1 h
  subst e
  intro mp hmp
  have hmp' : (preTarget m r).rpu_data_mapping = some mp := hmp
  clear hmp
  cases hq : r.rpu_data_mapping with
  | none =>
    cases m with
    | to84 =>
      have e2 : (preTarget .to84 r).rpu_data_mapping = some profile84Mapping := rfl
      rw [e2] at hmp'; injection hmp' with hmp'; subst hmp'; exact p84_fillSafe
    | lossless => rw [show (preTarget .lossless r).rpu_data_mapping = r.rpu_data_mapping from rfl, hq] at hmp'; cases hmp'
    | toMel =>
      rw [show (preTarget .toMel r).rpu_data_mapping = r.rpu_data_mapping.map melMapping from rfl, hq] at hmp'
      cases hmp'
    | to81MappingPreserved =>
      rw [show (preTarget .to81MappingPreserved r).rpu_data_mapping = r.rpu_data_mapping.map stripNlq from rfl, hq] at hmp'
      cases hmp'
    | to81 =>
      unfold preTarget at hmp'
      dsimp only at hmp'
      rw [hq] at hmp'
      split at hmp'
      · cases hmp'
      · split at hmp' <;> cases hmp'
  | some m0 =>
    have hs0 := hs m0 hq
    cases m with
    | to84 =>
      have e2 : (preTarget .to84 r).rpu_data_mapping = some profile84Mapping := rfl
      rw [e2] at hmp'; injection hmp' with hmp'; subst hmp'; exact p84_fillSafe
    | lossless =>
      rw [show (preTarget .lossless r).rpu_data_mapping = r.rpu_data_mapping from rfl, hq] at hmp'
      injection hmp' with hmp'; subst hmp'; exact hs0
    | toMel =>
      rw [show (preTarget .toMel r).rpu_data_mapping = r.rpu_data_mapping.map melMapping from rfl, hq] at hmp'
      injection hmp' with hmp'; subst hmp'; exact fillSafe_mel m0 hs0
    | to81MappingPreserved =>
      rw [show (preTarget .to81MappingPreserved r).rpu_data_mapping = r.rpu_data_mapping.map stripNlq from rfl, hq] at hmp'
      injection hmp' with hmp'; subst hmp'; exact fillSafe_strip m0 hs0
    | to81 =>
      unfold preTarget at hmp'
      dsimp only at hmp'
      rw [hq] at hmp'
      split at hmp'
      · injection hmp' with hmp'; subst hmp'; exact fillSafe_empty _
      · split at hmp'
        · injection hmp' with hmp'; subst hmp'; exact fillSafe_empty _
        · injection hmp' with hmp'; subst hmp'; exact fillSafe_strip m0 hs0

/-- **conversions preserve `WfN`** under `ConvSide` -/
theorem convert_WfN (m : Mode) (r r' : Rpu) (hwf : WfN r) (h : r.convertWithMode m = .ok r') (hs : ConvSide m r) :
    WfN r' := by
  obtain ⟨r'', h2, e⟩ := convert_fill m r r' h
  have := (convert_wf_fill m r.fillLinear r'' hwf.1 h2 ((convSide_fill m r).mpr hs)).1
  rw [e] at this
  exact ⟨this, convert_fillSafe' m r r' h hwf.2⟩

/-! ### the other operations -/

theorem crop_WfN (r r' : Rpu) (hwf : WfN r) (h : r.crop = .ok r') : WfN r' :=
  WfN_withDm hwf (fun d => d.replaceBlock (l5Block 0 0 0 0)) true r' h
    (fun d d' _ hf hw => (replaceBlock_form d d' _ hf).wf hw (l5Block_normal 0 0 0 0))

theorem setActiveAreaOffsets_WfN (r r' : Rpu) (l rr t b : Nat) (hwf : WfN r)
    (h : r.setActiveAreaOffsets l rr t b = .ok r') : WfN r' :=
  WfN_withDm hwf (fun d => d.replaceBlock (l5Block l rr t b)) true r' h
    (fun d d' _ hf hw => (replaceBlock_form d d' _ hf).wf hw (l5Block_normal l rr t b))

theorem dmInsert_WfN (r : Rpu) (d d' : DmData) (b : Block) (mod : Bool) (hwf : WfN r) (hd : r.vdr_dm_data = some d)
    (hb : BlockNormal b) (hi : Inserted b d d') : WfN { r with modified := mod, vdr_dm_data := some d' } :=
  WfN_dm_edit hwf _ rfl rfl rfl rfl rfl
    (fun d0 hd0 hw => by
      rw [hd] at hd0; injection hd0 with hd0; subst hd0
      exact ⟨d', rfl, hi.wf hw hb⟩)
    (fun hn => by rw [hd] at hn; cases hn)

theorem dmReplaceBlocks_WfN (r : Rpu) (d d' : DmData) (bs : List Block) (mod : Bool) (hwf : WfN r)
    (hd : r.vdr_dm_data = some d) (hb : ∀ b ∈ bs, BlockNormal b) (h : d.replaceBlocks bs = .ok d') :
    WfN { r with modified := mod, vdr_dm_data := some d' } :=
  WfN_dm_edit hwf _ rfl rfl rfl rfl rfl
    (fun d0 hd0 hw => by
      rw [hd] at hd0; injection hd0 with hd0; subst hd0
      exact ⟨d', rfl, replaceBlocks_wf bs d d' hw h hb⟩)
    (fun hn => by rw [hd] at hn; cases hn)

theorem dmRemoveLevel_WfN (r : Rpu) (d : DmData) (l : Nat) (mod : Bool) (hwf : WfN r) (hd : r.vdr_dm_data = some d)
    (hn : Nonempty40 (d.removeLevel l)) : WfN { r with modified := mod, vdr_dm_data := some (d.removeLevel l) } :=
  WfN_dm_edit hwf _ rfl rfl rfl rfl rfl
    (fun d0 hd0 hw => by
      rw [hd] at hd0; injection hd0 with hd0; subst hd0
      exact ⟨_, rfl, removeLevel_wf d l hw hn⟩)
    (fun hn' => by rw [hd] at hn'; cases hn')

theorem sourceLevels_WfN (r : Rpu) (hwf : WfN r) (hu : DmUncompressed r) (a b : Option Nat) :
    WfN { r with modified := true, vdr_dm_data := r.vdr_dm_data.map fun d => d.changeSourceLevels a b } := by
  refine WfN_dm_edit hwf _ rfl rfl rfl rfl rfl ?_ ?_
  · intro d hd hw
    refine ⟨d.changeSourceLevels a b, by show Option.map _ r.vdr_dm_data = _; rw [hd]; rfl, ?_⟩
    exact changeSourceLevels_wf hw (uncompressed_of hu d (hwf.dm d hd).2 hw) a b
  · intro hn
    show Option.map _ r.vdr_dm_data = none
    rw [hn]; rfl

theorem sceneFlag_WfN (r : Rpu) (hwf : WfN r) (v : Nat) :
    WfN (match r.vdr_dm_data with
         | some d => { r with modified := true, vdr_dm_data := some { d with scene_refresh_flag := v } }
         | none => r) := by
  cases hd : r.vdr_dm_data with
  | none => exact hwf
  | some d =>
    exact WfN_dm_edit hwf _ rfl rfl rfl rfl rfl
      (fun d0 hd0 hw => by
        rw [hd] at hd0; injection hd0 with hd0; subst hd0
        exact ⟨_, rfl, DmWf_sceneFlag hw v⟩)
      (fun hn => by rw [hd] at hn; cases hn)

theorem removeCmv40_WfN (r : Rpu) (hwf : WfN r)
    (hrem : (∃ d, r.vdr_dm_data = some d ∧ d.cmv40.isSome = true) → (r.remaining.getD []).length ≤ 8) :
    WfN r.removeCmv40 := by
  unfold Rpu.removeCmv40
  cases hd : r.vdr_dm_data with
  | none => exact hwf
  | some d =>
    dsimp only
    split
    · rename_i h40
      refine WfN_dm_edit hwf _ rfl rfl rfl rfl rfl ?_ (fun hn => by rw [hd] at hn; cases hn)
      intro d0 hd0 hw
      rw [hd] at hd0; injection hd0 with hd0; subst hd0
      refine ⟨_, rfl, ⟨hw.comp, hw.c29, (fun c hc => by cases hc), (fun _ => hrem ⟨d, hd, h40⟩), hw.main, ?_⟩⟩
      have hn := (reparsed_eq_iff d).mp hw.normal
      rw [reparsed_eq_iff]
      exact ⟨hn.1, hn.2.1, rfl⟩
    · exact hwf

theorem removeMapping_fill (r : Rpu) : r.removeMapping.fillLinear = r.fillLinear.removeMapping := by
  have := fill_map_comm Mapping.setEmptyP81 empty_fill r.rpu_data_mapping
  unfold Rpu.removeMapping Rpu.fillLinear
  dsimp only
  rw [this]

theorem removeMapping_WfN (r : Rpu) (hwf : WfN r) (hi : IntPartsCoded r) : WfN r.removeMapping := by
  refine ⟨?_, ?_⟩
  · rw [removeMapping_fill]
    exact removeMapping_wf r.fillLinear hwf.1 hi
  · intro m hm
    have e : r.removeMapping.rpu_data_mapping = r.rpu_data_mapping.map Mapping.setEmptyP81 := rfl
    rw [e] at hm
    cases hq : r.rpu_data_mapping with
    | none => rw [hq] at hm; cases hm
    | some m0 => rw [hq] at hm; injection hm with hm; subst hm; exact fillSafe_empty m0


/-- the blocks of a well-formed DM payload are wire-normal -/
theorem levelBlocks_normal {r : Rpu} {d : DmData} (hw : DmWf r d) (l : Nat) : ∀ b ∈ d.levelBlocks l, BlockNormal b := by
  intro b hb
  unfold DmData.levelBlocks at hb
  cases hwc : whichContainer l with
  | none => rw [hwc] at hb; cases hb
  | some w =>
    rw [hwc] at hb
    dsimp only at hb
    cases hg : d.get w with
    | none => rw [hg] at hb; cases hb
    | some c =>
      rw [hg] at hb
      have hbc : b ∈ c.blocks := (List.mem_filter.mp hb).1
      have h1 := (((DmWf_iff r d).mp hw).1.all w c hg).2 b hbc
      have h2 := (normal_all hw.normal w c hg).2 b hbc
      exact ⟨h1.2.2.2, h2⟩

theorem replaceLevelsFrom_go_wf {r : Rpu} (sd : DmData) (hsd : ∀ l, ∀ b ∈ sd.levelBlocks l, BlockNormal b)
    (lv : List Nat) : ∀ (d d' : DmData), DmWf r d → Rpu.replaceLevelsFrom.go sd d lv = .ok d' → DmWf r d' := by
  induction lv with
  | nil => intro d d' hd h; simp only [Rpu.replaceLevelsFrom.go] at h; injection h with h; subst h; exact hd
  | cons l ls ih =>
    intro d d' hd h
    simp only [Rpu.replaceLevelsFrom.go] at h
    obtain ⟨d1, h1, h⟩ := Res.bind_eq_ok' h
    exact ih d1 d' (replaceBlocks_wf _ d d1 hd h1 (hsd l)) h

theorem replaceLevelsFrom_WfN (r r' src : Rpu) (levels : List Nat) (hwf : WfN r) (hsrc : WfN src)
    (h : r.replaceLevelsFrom src levels = .ok r') : WfN r' := by
  unfold Rpu.replaceLevelsFrom at h
  split at h
  · cases h
  · split at h
    · rename_i d sd hd hsd
      obtain ⟨d', hg, h⟩ := Res.bind_eq_ok' h
      injection h with h
      subst h
      refine WfN_dm_edit hwf _ rfl rfl rfl rfl rfl ?_ (fun hn => by rw [hd] at hn; cases hn)
      intro d0 hd0 hw
      rw [hd] at hd0; injection hd0 with hd0; subst hd0
      exact ⟨d', rfl, replaceLevelsFrom_go_wf sd (fun l => levelBlocks_normal (hsrc.dm sd hsd).1 l) levels d d' hw hg⟩
    · injection h with h; subst h; exact hwf

/-! ### any sequence of operations -/

/-- F16 side condition of `remove_cmv40` -/
def Cmv40Removable (r : Rpu) : Prop :=
  (∃ d, r.vdr_dm_data = some d ∧ d.cmv40.isSome = true) → (r.remaining.getD []).length ≤ 8

/-- one operation of the tool on an in-memory RPU, with the side condition under which its result is still
inside the write → parse theorem -/
inductive Step : Rpu → Rpu → Prop
  /-- `convert_with_mode` -/
  | convert (m : Mode) {r r' : Rpu} : r.convertWithMode m = .ok r' → ConvSide m r → Step r r'
  /-- `crop` -/
  | crop {r r' : Rpu} : r.crop = .ok r' → Step r r'
  /-- `set_active_area_offsets` -/
  | activeArea (l rr t b : Nat) {r r' : Rpu} : r.setActiveAreaOffsets l rr t b = .ok r' → Step r r'
  /-- `add_metadata_block` -/
  | addBlock (b : Block) (mod : Bool) {r : Rpu} {d d' : DmData} : r.vdr_dm_data = some d → BlockNormal b →
      d.addBlock b = .ok d' → Step r { r with modified := mod, vdr_dm_data := some d' }
  /-- `replace_metadata_block` (L5 / L6 / L9 / L11 / L255 edits, trims, …) -/
  | replaceBlock (b : Block) (mod : Bool) {r : Rpu} {d d' : DmData} : r.vdr_dm_data = some d → BlockNormal b →
      d.replaceBlock b = .ok d' → Step r { r with modified := mod, vdr_dm_data := some d' }
  /-- `replace_metadata_blocks` -/
  | replaceBlocks (bs : List Block) (mod : Bool) {r : Rpu} {d d' : DmData} : r.vdr_dm_data = some d →
      (∀ b ∈ bs, BlockNormal b) → d.replaceBlocks bs = .ok d' → Step r { r with modified := mod, vdr_dm_data := some d' }
  /-- `remove_metadata_level` -/
  | removeLevel (l : Nat) (mod : Bool) {r : Rpu} {d : DmData} : r.vdr_dm_data = some d →
      Nonempty40 (d.removeLevel l) → Step r { r with modified := mod, vdr_dm_data := some (d.removeLevel l) }
  /-- source min / max PQ (`change_source_levels`) -/
  | sourceLevels (a b : Option Nat) {r : Rpu} : DmUncompressed r →
      Step r { r with modified := true, vdr_dm_data := r.vdr_dm_data.map fun d => d.changeSourceLevels a b }
  /-- scene-cut edit (`scene_refresh_flag`) -/
  | sceneCut (v : Nat) {r : Rpu} :
      Step r (match r.vdr_dm_data with
              | some d => { r with modified := true, vdr_dm_data := some { d with scene_refresh_flag := v } }
              | none => r)
  /-- `remove_cmv40` -/
  | removeCmv40 {r : Rpu} : Cmv40Removable r → Step r r.removeCmv40
  /-- `remove_mapping` -/
  | removeMapping {r : Rpu} : IntPartsCoded r → Step r r.removeMapping
  /-- marking the RPU (un)modified -/
  | setModified (mod : Bool) {r : Rpu} : Step r { r with modified := mod }
  /-- `replace_levels_from_rpu`: copy levels from another (well-formed) RPU -/
  | copyLevels (src : Rpu) (levels : List Nat) {r r' : Rpu} : WfN src → r.replaceLevelsFrom src levels = .ok r' →
      Step r r'

theorem Step.wfN {r r' : Rpu} (h : Step r r') (hwf : WfN r) : WfN r' := by
  cases h with
  | convert m hc hs => exact convert_WfN m r r' hwf hc hs
  | crop hc => exact crop_WfN r r' hwf hc
  | activeArea l rr t b hc => exact setActiveAreaOffsets_WfN r r' l rr t b hwf hc
  | addBlock b mod hd hb ha => exact dmInsert_WfN r _ _ b mod hwf hd hb (addBlock_form _ _ b ha)
  | replaceBlock b mod hd hb ha => exact dmInsert_WfN r _ _ b mod hwf hd hb (replaceBlock_form _ _ b ha)
  | replaceBlocks bs mod hd hb ha => exact dmReplaceBlocks_WfN r _ _ bs mod hwf hd hb ha
  | removeLevel l mod hd hn => exact dmRemoveLevel_WfN r _ l mod hwf hd hn
  | sourceLevels a b hu => exact sourceLevels_WfN r hwf hu a b
  | sceneCut v => exact sceneFlag_WfN r hwf v
  | removeCmv40 hr => exact removeCmv40_WfN r hwf hr
  | removeMapping hi => exact removeMapping_WfN r hwf hi
  | setModified mod =>
    exact WfN_dm_edit hwf _ rfl rfl rfl rfl rfl (fun d hd hw => ⟨d, hd, hw⟩) (fun hn => hn)
  | copyLevels src levels hsrc hc => exact replaceLevelsFrom_WfN r r' src levels hwf hsrc hc

/-- any finite sequence of operations -/
inductive Steps : Rpu → Rpu → Prop
  | refl (r : Rpu) : Steps r r
  | tail {r r' r'' : Rpu} : Steps r r' → Step r' r'' → Steps r r''

/-- **closure**: `WfN` survives any sequence of operations -/
theorem Steps.wfN {r r' : Rpu} (h : Steps r r') (hwf : WfN r) : WfN r' := by
  induction h with
  | refl => exact hwf
  | tail _ hs ih => exact hs.wfN ih

theorem Steps.single {r r' : Rpu} (h : Step r r') : Steps r r' := .tail (.refl r) h

theorem Steps.trans {a b c : Rpu} (h1 : Steps a b) (h2 : Steps b c) : Steps a c := by
  induction h2 with
  | refl => exact h1
  | tail _ hs ih => exact .tail ih hs

end Closure

/-! ## the editor pipeline (`Editor::edit`) -/

section EditorPipeline
open Dovi.Editor

/-- the header-level limits: flags in the syntax, coded integer parts (F14), uncompressed DM (F15), nothing
before the CRC (F16).  No operation of the tool leaves this class. -/
structure HdrTame (r : Rpu) : Prop where
  syn : HdrSyntax r.header
  ints : IntPartsCoded r
  dm : DmUncompressed r
  rem : r.remaining = none

/-- an RPU inside all the limits of the tool -/
structure Tame (r : Rpu) : Prop where
  wfn : WfN r
  hdr : HdrTame r

theorem HdrTame_same {r r' : Rpu} (h : HdrTame r) (hh : r'.header = r.header) (hrem : r'.remaining = r.remaining) :
    HdrTame r' :=
  ⟨by rw [hh]; exact h.syn, by unfold IntPartsCoded; rw [hh]; exact h.ints,
   by unfold DmUncompressed; rw [hh]; exact h.dm, by rw [hrem]; exact h.rem⟩

theorem HdrTame.convSide {r : Rpu} (h : HdrTame r) (m : Mode) : ConvSide m r :=
  convSide_of_limits m r h.syn (by
    cases m with
    | lossless => trivial
    | toMel => exact h.ints
    | to81 => exact ⟨h.dm, fun _ => h.ints⟩
    | to84 => exact h.dm
    | to81MappingPreserved => exact h.dm)

theorem convert_HdrTame (m : Mode) (r r' : Rpu) (h : r.convertWithMode m = .ok r') (ht : HdrTame r) : HdrTame r' := by
  obtain ⟨_, e⟩ := (cw_ok_iff m r r').1 h
  subst e
  obtain ⟨h1, h2, h3, h4⟩ := ht
  cases m with
  | lossless => exact ⟨h1, h2, h3, h4⟩
  | toMel => exact ⟨h1, h2, h3, h4⟩
  | to81MappingPreserved => exact ⟨h1, h2, h3, h4⟩
  | to84 =>
    refine ⟨⟨rfl, (by show (18 : Nat) &&& 0x700 = 0; decide)⟩, fun _ => rfl, h3, h4⟩
  | to81 =>
    by_cases h5 : r.dovi_profile = 5
    · have e : (fin (preTarget .to81 r)).header = p5Header r.header := by simp [fin, preTarget, h5]
      have e2 : (fin (preTarget .to81 r)).remaining = r.remaining := by simp [fin, preTarget, h5]
      refine ⟨by rw [e]; exact h1, ?_, ?_, by rw [e2]; exact h4⟩
      · unfold IntPartsCoded; rw [e]; exact h2
      · unfold DmUncompressed; rw [e]; exact h3
    · have e : (fin (preTarget .to81 r)).header = p81Header r.header := by simp [fin, preTarget, h5]
      have e2 : (fin (preTarget .to81 r)).remaining = r.remaining := by simp [fin, preTarget, h5]
      refine ⟨by rw [e]; exact h1, ?_, ?_, by rw [e2]; exact h4⟩
      · unfold IntPartsCoded; rw [e]; exact h2
      · unfold DmUncompressed; rw [e]; exact h3

/-- closed form of `withDm`-shaped operations: only `modified` and the DM payload change -/
theorem withDm_frame (r r' : Rpu) (f : DmData → Res DmData) (mod : Bool)
    (h : (match r.vdr_dm_data with
          | none => Res.ok { r with modified := mod }
          | some d => (f d).bind fun d' => Res.ok { r with modified := mod, vdr_dm_data := some d' }) = .ok r') :
    r'.header = r.header ∧ r'.remaining = r.remaining := by
  cases hd : r.vdr_dm_data with
  | none => rw [hd] at h; injection h with h; subst h; exact ⟨rfl, rfl⟩
  | some d =>
    rw [hd] at h
    obtain ⟨d', _, h⟩ := Res.bind_eq_ok' h
    injection h with h; subst h; exact ⟨rfl, rfl⟩

theorem removeCmv40_frame (r : Rpu) : r.removeCmv40.header = r.header ∧ r.removeCmv40.remaining = r.remaining := by
  unfold Rpu.removeCmv40
  cases r.vdr_dm_data with
  | none => exact ⟨rfl, rfl⟩
  | some d => dsimp only; split <;> exact ⟨rfl, rfl⟩

theorem replaceLevelsFrom_frame (r r' src : Rpu) (lv : List Nat) (h : r.replaceLevelsFrom src lv = .ok r') :
    r'.header = r.header ∧ r'.remaining = r.remaining := by
  unfold Rpu.replaceLevelsFrom at h
  split at h
  · cases h
  · split at h
    · obtain ⟨d', _, h⟩ := Res.bind_eq_ok' h
      injection h with h; subst h; exact ⟨rfl, rfl⟩
    · injection h with h; subst h; exact ⟨rfl, rfl⟩

/-- **no operation leaves the header-level limits** -/
theorem Step.hdrTame {r r' : Rpu} (h : Step r r') (ht : HdrTame r) : HdrTame r' := by
  cases h with
  | convert m hc _ => exact convert_HdrTame m r r' hc ht
  | crop hc => obtain ⟨a, b⟩ := withDm_frame r r' _ true hc; exact HdrTame_same ht a b
  | activeArea l rr t b hc => obtain ⟨a, b⟩ := withDm_frame r r' _ true hc; exact HdrTame_same ht a b
  | addBlock => exact HdrTame_same ht rfl rfl
  | replaceBlock => exact HdrTame_same ht rfl rfl
  | replaceBlocks => exact HdrTame_same ht rfl rfl
  | removeLevel => exact HdrTame_same ht rfl rfl
  | sourceLevels => exact HdrTame_same ht rfl rfl
  | sceneCut v =>
    cases hd : r.vdr_dm_data with
    | none => exact ht
    | some d => exact HdrTame_same ht rfl rfl
  | removeCmv40 => obtain ⟨a, b⟩ := removeCmv40_frame r; exact HdrTame_same ht a b
  | removeMapping => exact HdrTame_same ht rfl rfl
  | setModified => exact HdrTame_same ht rfl rfl
  | copyLevels src lv _ hc => obtain ⟨a, b⟩ := replaceLevelsFrom_frame r r' src lv hc; exact HdrTame_same ht a b

theorem Step.tame {r r' : Rpu} (h : Step r r') (ht : Tame r) : Tame r' := ⟨h.wfN ht.wfn, h.hdrTame ht.hdr⟩

theorem Steps.tame {r r' : Rpu} (h : Steps r r') (ht : Tame r) : Tame r' := by
  induction h with
  | refl => exact ht
  | tail _ hs ih => exact hs.tame ih

/-! ### `execute_single_rpu` is a sequence of `Step`s -/

/-- the blocks the editor builds from its configuration are wire-normal: model-level typing of the value lists
(L6: 4 values, L255: 6 values, L11: 5 values) and an L11 whitepoint ≤ 15 / flag ∈ {0, 1} -/
structure EditCfgOk (c : Editor.Config) : Prop where
  l6 : ∀ v, c.level6 = some v → v.length = 4
  l11 : ∀ v, c.level11 = some v → BlockNormal { level := 11, length := 4, vals := v.map Int.ofNat }
  l255 : ∀ v, c.level255 = some v → v.length = 6

theorem l9Block_normal (idx : Nat) :
    BlockNormal { level := 9, length := 1, vals := [(idx : Int), 0, 0, 0, 0, 0, 0, 0, 0] } := by
  refine ⟨?_, ?_⟩
  · intro ws hws
    have e : blockWriteLayout 9 1 = some ws := hws
    simp [blockWriteLayout] at e
    subst e
    simp [blockWriteVals]
  · have hv : reparsedVals { level := 9, length := 1, vals := [(idx : Int), 0, 0, 0, 0, 0, 0, 0, 0] } =
        [(idx : Int), 0, 0, 0, 0, 0, 0, 0, 0] :=
      reparsedVals_eq _ [8] rfl (by simp) (by simp) (by simp)
        (by intro v hv; simp only [List.mem_cons, List.not_mem_nil, or_false] at hv
            rcases hv with rfl | rfl | rfl | rfl | rfl | rfl | rfl | rfl | rfl <;> omega)
        rfl
    unfold Block.reparsed
    rw [hv]
    rfl

/-- `replaceIfDm` is one `Step` -/
theorem replaceIfDm_steps (r r' : Rpu) (b : Block) (am : Bool) (hb : BlockNormal b)
    (h : replaceIfDm r b am = .ok r') : Steps r r' := by
  unfold replaceIfDm at h
  split at h
  · injection h with h
    subst h
    cases am with
    | false => show Steps r r; exact .refl _
    | true => show Steps r { r with modified := true }; exact .single (.setModified true)
  · rename_i d hd
    obtain ⟨d', h1, h⟩ := Res.bind_eq_ok' h
    injection h with h
    subst h
    exact .single (.replaceBlock b true hd hb h1)

/-- `setOffsets` is one `Step` -/
theorem setOffsets_steps (r r' : Rpu) (p : Preset) (h : setOffsets r p = .ok r') : Steps r r' := by
  have : r.setActiveAreaOffsets p.left p.right p.top p.bottom = .ok r' := h
  exact .single (.activeArea _ _ _ _ this)

theorem sceneCut_fold_steps (edits : List (String × Bool)) : ∀ (r : Rpu),
    Steps r (edits.foldl (fun r (e : String × Bool) =>
       if e.1.toLower == "all" then
         match r.vdr_dm_data with
         | some d => { r with modified := true, vdr_dm_data := some { d with scene_refresh_flag := if e.2 then 1 else 0 } }
         | none => r
       else r) r) := by
  induction edits with
  | nil => intro r; exact .refl _
  | cons e rest ih =>
    intro r
    simp only [List.foldl_cons]
    refine Steps.trans ?_ (ih _)
    split
    · exact .single (.sceneCut (if e.2 then 1 else 0))
    · exact .refl _

theorem activeArea_go_steps (presets : List Preset) (edits : List (String × Nat)) : ∀ (r r' : Rpu),
    activeAreaSingle.go presets r edits = .ok r' → Steps r r' := by
  induction edits with
  | nil => intro r r' h; simp only [activeAreaSingle.go] at h; injection h with h; subst h; exact .refl _
  | cons e rest ih =>
    intro r r' h
    obtain ⟨k, id⟩ := e
    simp only [activeAreaSingle.go] at h
    split at h
    · split at h
      · rename_i p _
        obtain ⟨r1, h1, h⟩ := Res.bind_eq_ok' h
        exact Steps.trans (setOffsets_steps r r1 p h1) (ih r1 r' h)
      · cases h
    · exact ih r r' h

theorem ite_ok_cases {b : Bool} {A B r2 : Rpu} (h : (if b = true then Res.ok A else Res.ok B) = Res.ok r2) :
    r2 = A ∨ r2 = B := by
  cases b with
  | true => simp only [if_true] at h; injection h with h; exact .inl h.symm
  | false => simp only [Bool.false_eq_true, if_false] at h; injection h with h; exact .inr h.symm

theorem activeAreaSingle_steps (c : Editor.Config) (r r' : Rpu) (ht : Tame r) (h : activeAreaSingle c r = .ok r') :
    Steps r r' := by
  unfold activeAreaSingle at h
  obtain ⟨r1, h1, h⟩ := Res.bind_eq_ok' h
  have s1 : Steps r r1 := by
    split at h1
    · exact .single (.crop h1)
    · injection h1 with h1; subst h1; exact .refl _
  have t1 := s1.tame ht
  obtain ⟨r2, h2, h⟩ := Res.bind_eq_ok' h
  have s2 : Steps r1 r2 := by
    cases hdl : c.dropL5 with
    | none => rw [hdl] at h2; injection h2 with h2; subst h2; exact .refl _
    | some opt =>
      rw [hdl] at h2
      dsimp only at h2
      cases hd : r1.vdr_dm_data with
      | none => rw [hd] at h2; injection h2 with h2; subst h2; exact .refl _
      | some d =>
        simp only [hd] at h2
        rcases ite_ok_cases h2 with rfl | rfl
        · refine .single (.removeLevel 5 true hd ?_)
          exact removeLevel_nonempty29 d 5 (by decide) ((DmWf_iff _ _).mp (t1.wfn.dm d hd).1).1.nonempty
        · exact .refl _
  refine Steps.trans (Steps.trans s1 s2) ?_
  split at h
  · exact activeArea_go_steps _ _ r2 r' h
  · injection h with h; subst h; exact .refl _

/-- **`execute_single_rpu` on a tame RPU is a sequence of `Step`s** (each within its limit) -/
theorem executeSingle_steps (c : Editor.Config) (r r' : Rpu) (ht : Tame r) (hc : EditCfgOk c)
    (h : executeSingle c r = .ok r') : Steps r r' := by
  unfold executeSingle at h
  -- remove CM v4.0
  obtain ⟨r1, h1, h⟩ := Res.bind_eq_ok' h
  have s1 : Steps r r1 := by
    split at h1
    · injection h1 with h1; subst h1
      exact .single (.removeCmv40 (fun _ => by rw [ht.hdr.rem]; exact Nat.zero_le _))
    · injection h1 with h1; subst h1; exact .refl _
  have t1 := s1.tame ht
  -- conversion
  obtain ⟨r2, h2, h⟩ := Res.bind_eq_ok' h
  have s2 : Steps r1 r2 := by
    split at h2
    · exact .single (.convert _ h2 (t1.hdr.convSide _))
    · injection h2 with h2; subst h2; exact .refl _
  have t2 := s2.tame t1
  -- source levels
  obtain ⟨r3, h3, h⟩ := Res.bind_eq_ok' h
  have s3 : Steps r2 r3 := by
    split at h3
    · injection h3 with h3; subst h3; exact .single (.sourceLevels _ _ t2.hdr.dm)
    · injection h3 with h3; subst h3; exact .refl _
  have t3 := s3.tame t2
  -- remove mapping
  obtain ⟨r4, h4, h⟩ := Res.bind_eq_ok' h
  have s4 : Steps r3 r4 := by
    split at h4
    · injection h4 with h4; subst h4; exact .single (.removeMapping t3.hdr.ints)
    · injection h4 with h4; subst h4; exact .refl _
  have t4 := s4.tame t3
  -- L6
  obtain ⟨r5, h5, h⟩ := Res.bind_eq_ok' h
  have s5 : Steps r4 r5 := by
    split at h5
    · rename_i v hv
      exact replaceIfDm_steps r4 r5 _ true
        (natBlock_normal 6 8 v [16, 16, 16, 16] rfl (by decide) (by decide) rfl (hc.l6 v hv) rfl) h5
    · injection h5 with h5; subst h5; exact .refl _
  -- L9
  obtain ⟨r6, h6, h⟩ := Res.bind_eq_ok' h
  have s6 : Steps r5 r6 := by
    split at h6
    · rename_i idx _
      exact replaceIfDm_steps r5 r6 _ false (l9Block_normal idx) h6
    · injection h6 with h6; subst h6; exact .refl _
  -- L11
  obtain ⟨r7, h7, h⟩ := Res.bind_eq_ok' h
  have s7 : Steps r6 r7 := by
    split at h7
    · rename_i v hv
      exact replaceIfDm_steps r6 r7 _ false (hc.l11 v hv) h7
    · injection h7 with h7; subst h7; exact .refl _
  -- L255
  obtain ⟨r8, h8, h⟩ := Res.bind_eq_ok' h
  have s8 : Steps r7 r8 := by
    split at h8
    · rename_i v hv
      exact replaceIfDm_steps r7 r8 _ true
        (natBlock_normal 255 6 v [8, 8, 8, 8, 8, 8] rfl (by decide) (by decide) rfl (hc.l255 v hv) rfl) h8
    · injection h8 with h8; subst h8; exact .refl _
  -- scene cuts
  obtain ⟨r9, h9, h⟩ := Res.bind_eq_ok' h
  have s9 : Steps r8 r9 := by
    split at h9
    · injection h9 with h9; subst h9; exact sceneCut_fold_steps _ r8
    · injection h9 with h9; subst h9; exact .refl _
  have s19 : Steps r r9 := (((((((s1.trans s2).trans s3).trans s4).trans s5).trans s6).trans s7).trans s8).trans s9
  have t9 := s19.tame ht
  -- active area
  split at h
  · exact s19.trans (activeAreaSingle_steps c r9 r' t9 h)
  · injection h with h; subst h; exact s19


/-! ### the list-wide passes of `EditConfig::execute` and `Editor::edit` -/

/-- every present entry satisfies `P` -/
def AllSome (P : Rpu → Prop) (l : List (Option Rpu)) : Prop := ∀ r, some r ∈ l → P r

theorem AllSome_nil (P : Rpu → Prop) : AllSome P [] := fun _ h => by cases h

theorem AllSome_cons {P : Rpu → Prop} {x : Option Rpu} {l : List (Option Rpu)}
    (hx : ∀ r, x = some r → P r) (hl : AllSome P l) : AllSome P (x :: l) := by
  intro r hr
  rcases List.mem_cons.mp hr with e | hr'
  · exact hx r e.symm
  · exact hl r hr'

theorem AllSome_tail {P : Rpu → Prop} {x : Option Rpu} {l : List (Option Rpu)} (h : AllSome P (x :: l)) :
    AllSome P l := fun r hr => h r (List.mem_cons_of_mem _ hr)

theorem setNone_sub (l : List (Option Rpu)) (a b : Nat) (r : Rpu) (h : some r ∈ setNone l a b) : some r ∈ l := by
  unfold setNone at h
  rw [List.mem_map] at h
  obtain ⟨⟨i, x⟩, hm, he⟩ := h
  dsimp only at he
  split at he
  · cases he
  · subst he; exact (List.of_mem_zip hm).2

theorem removeFrames_all (P : Rpu → Prop) (ranges : List String) : ∀ (l l' : List (Option Rpu)),
    removeFrames ranges l = .ok l' → AllSome P l → AllSome P l' := by
  induction ranges with
  | nil => intro l l' h hl; simp only [removeFrames] at h; injection h with h; subst h; exact hl
  | cons rg rest ih =>
    intro l l' h hl
    simp only [removeFrames] at h
    split at h
    · split at h
      · cases h
      · split at h
        · cases h
        · split at h
          · cases h
          · exact ih _ l' h (fun r hr => hl r (setNone_sub l _ _ r hr))
    · split at h
      · split at h
        · exact ih _ l' h (fun r hr => hl r (setNone_sub l _ _ r hr))
        · cases h
      · exact ih l l' h hl

theorem mapSome_all (P : Rpu → Prop) (f : Rpu → Res Rpu) (hf : ∀ r r', P r → f r = .ok r' → P r') :
    ∀ (l l' : List (Option Rpu)), mapSome f l = .ok l' → AllSome P l → AllSome P l' := by
  intro l
  induction l with
  | nil => intro l' h _; simp only [mapSome] at h; injection h with h; subst h; exact AllSome_nil P
  | cons x rest ih =>
    intro l' h hl
    cases x with
    | none =>
      simp only [mapSome] at h
      obtain ⟨t, ht, h⟩ := Res.bind_eq_ok' h
      injection h with h; subst h
      exact AllSome_cons (fun r e => by cases e) (ih t ht (AllSome_tail hl))
    | some r0 =>
      simp only [mapSome] at h
      obtain ⟨r1, h1, h⟩ := Res.bind_eq_ok' h
      obtain ⟨t, ht, h⟩ := Res.bind_eq_ok' h
      injection h with h; subst h
      refine AllSome_cons (fun r e => ?_) (ih t ht (AllSome_tail hl))
      injection e with e; subst e
      exact hf r0 _ (hl r0 (by simp)) h1

theorem mapRange_go_all (P : Rpu → Prop) (f : Rpu → Res Rpu) (a b : Nat)
    (hf : ∀ r r', P r → f r = .ok r' → P r') :
    ∀ (l l' : List (Option Rpu)) (i : Nat), mapRange.go f a b i l = .ok l' → AllSome P l → AllSome P l' := by
  intro l
  induction l with
  | nil => intro l' i h _; simp only [mapRange.go] at h; injection h with h; subst h; exact AllSome_nil P
  | cons x rest ih =>
    intro l' i h hl
    simp only [mapRange.go] at h
    obtain ⟨x', hx, h⟩ := Res.bind_eq_ok' h
    obtain ⟨t, ht, h⟩ := Res.bind_eq_ok' h
    injection h with h; subst h
    refine AllSome_cons (fun r e => ?_) (ih t (i + 1) ht (AllSome_tail hl))
    subst e
    cases x with
    | none => cases hx
    | some r0 =>
      dsimp only at hx
      split at hx
      · obtain ⟨r1, h1, hx⟩ := Res.bind_eq_ok' hx
        injection hx with hx; injection hx with hx; subst hx
        exact hf r0 _ (hl r0 (by simp)) h1
      · injection hx with hx; injection hx with hx; subst hx
        exact hl r0 (by simp)

theorem mapRange_all (P : Rpu → Prop) (f : Rpu → Res Rpu) (a b : Nat)
    (hf : ∀ r r', P r → f r = .ok r' → P r') (l l' : List (Option Rpu))
    (h : mapRange f a b l = .ok l') (hl : AllSome P l) : AllSome P l' :=
  mapRange_go_all P f a b hf l l' 0 h hl

theorem sceneCutRanges_tame (edits : List (String × Bool)) : ∀ (l l' : List (Option Rpu)),
    sceneCutRanges edits l = .ok l' → AllSome Tame l → AllSome Tame l' := by
  induction edits with
  | nil => intro l l' h hl; simp only [sceneCutRanges] at h; injection h with h; subst h; exact hl
  | cons e rest ih =>
    intro l l' h hl
    obtain ⟨k, v⟩ := e
    simp only [sceneCutRanges] at h
    split at h
    · exact ih l l' h hl
    · split at h
      · cases h
      · split at h
        · cases h
        · split at h
          · cases h
          · obtain ⟨l1, h1, h⟩ := Res.bind_eq_ok' h
            refine ih l1 l' h (mapRange_all Tame _ _ _ ?_ l l1 h1 hl)
            intro r r' hr hf
            have : Steps r r' := by
              cases hd : r.vdr_dm_data with
              | none => rw [hd] at hf; injection hf with hf; subst hf; exact .refl _
              | some d =>
                have hs : Step r _ := Step.sceneCut (if v then 1 else 0) (r := r)
                rw [hd] at hf hs
                injection hf with hf
                subst hf
                exact .single hs
            exact this.tame hr

theorem activeAreaRanges_tame (presets : List Preset) (edits : List (String × Nat)) :
    ∀ (l l' : List (Option Rpu)), activeAreaRanges presets edits l = .ok l' → AllSome Tame l → AllSome Tame l' := by
  induction edits with
  | nil => intro l l' h hl; simp only [activeAreaRanges] at h; injection h with h; subst h; exact hl
  | cons e rest ih =>
    intro l l' h hl
    obtain ⟨k, id⟩ := e
    simp only [activeAreaRanges] at h
    split at h
    · exact ih l l' h hl
    · split at h
      · cases h
      · split at h
        · cases h
        · split at h
          · cases h
          · split at h
            · cases h
            · rename_i p _
              obtain ⟨l1, h1, h⟩ := Res.bind_eq_ok' h
              exact ih l1 l' h (mapRange_all Tame _ _ _
                (fun r r' hr hf => (setOffsets_steps r r' p hf).tame hr) l l1 h1 hl)

theorem replaceFromSource_tame (levels : List Nat) : ∀ (l : List (Option Rpu)) (src : List Rpu)
    (l' : List (Option Rpu)), replaceFromSource levels l src = .ok l' → AllSome Tame l →
    (∀ s ∈ src, WfN s) → AllSome Tame l' := by
  intro l
  induction l with
  | nil => intro src l' h _ _; simp only [replaceFromSource] at h; injection h with h; subst h; exact AllSome_nil _
  | cons x rest ih =>
    intro src l' h hl hsrc
    cases x with
    | none =>
      simp only [replaceFromSource] at h
      obtain ⟨t, ht, h⟩ := Res.bind_eq_ok' h
      injection h with h; subst h
      exact AllSome_cons (fun r e => by cases e) (ih src t ht (AllSome_tail hl) hsrc)
    | some r0 =>
      cases src with
      | nil =>
        simp only [replaceFromSource] at h
        obtain ⟨t, ht, h⟩ := Res.bind_eq_ok' h
        injection h with h; subst h
        refine AllSome_cons (fun r e => ?_) (ih [] t ht (AllSome_tail hl) hsrc)
        injection e with e; subst e; exact hl r0 (by simp)
      | cons s0 srest =>
        simp only [replaceFromSource] at h
        obtain ⟨r1, h1, h⟩ := Res.bind_eq_ok' h
        obtain ⟨t, ht, h⟩ := Res.bind_eq_ok' h
        injection h with h; subst h
        refine AllSome_cons (fun r e => ?_)
          (ih srest t ht (AllSome_tail hl) (fun s hs => hsrc s (List.mem_cons_of_mem _ hs)))
        injection e with e; subst e
        exact (Step.copyLevels s0 levels (hsrc s0 (by simp)) h1).tame (hl r0 (by simp))

/-- **`EditConfig::execute` keeps every frame inside the write → parse theorem** -/
theorem execute_tame (c : Editor.Config) (rpus out : List (Option Rpu)) (hc : EditCfgOk c)
    (hsrc : ∀ src, c.source = some src → ∀ s ∈ src, WfN s) (hin : AllSome Tame rpus)
    (h : execute c rpus = .ok out) : AllSome Tame out := by
  unfold execute at h
  obtain ⟨l1, h1, h⟩ := Res.bind_eq_ok' h
  have a1 : AllSome Tame l1 := by
    split at h1
    · exact removeFrames_all Tame _ rpus l1 h1 hin
    · injection h1 with h1; subst h1; exact hin
  obtain ⟨l2, h2, h⟩ := Res.bind_eq_ok' h
  have a2 : AllSome Tame l2 :=
    mapSome_all Tame _ (fun r r' hr hf => (executeSingle_steps c r r' hr hc hf).tame hr) l1 l2 h2 a1
  obtain ⟨l3, h3, h⟩ := Res.bind_eq_ok' h
  have a3 : AllSome Tame l3 := by
    split at h3
    · exact sceneCutRanges_tame _ l2 l3 h3 a2
    · injection h3 with h3; subst h3; exact a2
  obtain ⟨l4, h4, h⟩ := Res.bind_eq_ok' h
  have a4 : AllSome Tame l4 := by
    split at h4
    · split at h4
      · split at h4
        · injection h4 with h4; subst h4; exact a3
        · split at h4
          · exact activeAreaRanges_tame _ _ l3 l4 h4 a3
          · injection h4 with h4; subst h4; exact a3
      · injection h4 with h4; subst h4; exact a3
    · injection h4 with h4; subst h4; exact a3
  split at h
  · injection h with h; subst h; exact a4
  · rename_i src hs
    split at h
    · cases h
    · split at h
      · cases h
      · exact replaceFromSource_tame _ l4 src out h a4 (hsrc src hs)

theorem encodeAll_mem : ∀ (l : List (Option Rpu)) (data : List Bytes), encodeAll l = .ok data →
    ∀ nal ∈ data, ∃ r o, some r ∈ l ∧ writeRpu r = .ok o ∧ nal = 0x7C :: 0x01 :: Esc.escape o := by
  intro l
  induction l with
  | nil => intro data h nal hn; simp only [encodeAll] at h; injection h with h; subst h; cases hn
  | cons x rest ih =>
    intro data h nal hn
    cases x with
    | none =>
      simp only [encodeAll] at h
      obtain ⟨r, o, hr, hw, e⟩ := ih data h nal hn
      exact ⟨r, o, List.mem_cons_of_mem _ hr, hw, e⟩
    | some r0 =>
      simp only [encodeAll] at h
      obtain ⟨o, ho, h⟩ := Res.bind_eq_ok' h
      obtain ⟨t, ht, h⟩ := Res.bind_eq_ok' h
      injection h with h; subst h
      rcases List.mem_cons.mp hn with rfl | hn'
      · exact ⟨r0, o, by simp, ho, rfl⟩
      · obtain ⟨r, o', hr, hw, e⟩ := ih t ht nal hn'
        exact ⟨r, o', List.mem_cons_of_mem _ hr, hw, e⟩

theorem duplicateAll_sub (dups : List (Nat × Nat × Nat)) : ∀ (data out : List Bytes),
    duplicateAll dups data = .ok out → ∀ nal ∈ out, nal ∈ data := by
  induction dups with
  | nil => intro data out h nal hn; simp only [duplicateAll] at h; injection h with h; subst h; exact hn
  | cons d rest ih =>
    intro data out h nal hn
    obtain ⟨src, off, len⟩ := d
    simp only [duplicateAll] at h
    split at h
    · cases h
    · rename_i hg
      have hn' := ih _ out h nal hn
      simp only [Bool.not_eq_true, Bool.not_eq_false', Bool.and_eq_true, decide_eq_true_eq] at hg
      rcases List.mem_append.mp hn' with h1 | h1
      · rcases List.mem_append.mp h1 with h2 | h2
        · exact List.mem_of_mem_take h2
        · have := (List.mem_replicate.mp h2).2
          subst this
          have hlt : src < data.length := hg.1
          simp only [List.getD, List.getElem?_eq_getElem hlt, Option.getD_some]
          exact List.getElem_mem hlt
      · exact List.mem_of_mem_drop h1

/-- **every NAL `Editor::edit` writes** (for tame inputs, i.e. within F14 / F15 / F16) is the escaped encoding
of an in-memory RPU of the editing pipeline, and that encoding decodes to the normalisation of this RPU -/
theorem edit_nals_decode (c : Editor.Config) (rpus : List Rpu) (nals : List Bytes) (hc : EditCfgOk c)
    (hsrc : ∀ src, c.source = some src → ∀ s ∈ src, WfN s) (hin : ∀ r ∈ rpus, Tame r)
    (h : edit c rpus = .ok nals) :
    ∀ nal ∈ nals, ∃ r o crc, Tame r ∧ writeRpu r = .ok o ∧ nal = 0x7C :: 0x01 :: Esc.escape o ∧
      parseRpu o = .ok { r.fillLinear with rpu_data_crc32 := crc, modified := false } := by
  unfold edit at h
  obtain ⟨out, h1, h⟩ := Res.bind_eq_ok' h
  obtain ⟨data, h2, h⟩ := Res.bind_eq_ok' h
  have hall : AllSome Tame out := execute_tame c _ out hc hsrc
    (fun r hr => by
      rw [List.mem_map] at hr
      obtain ⟨r0, hr0, e⟩ := hr
      injection e with e; subst e
      exact hin r0 hr0) h1
  have key : ∀ nal ∈ data, ∃ r o crc, Tame r ∧ writeRpu r = .ok o ∧ nal = 0x7C :: 0x01 :: Esc.escape o ∧
      parseRpu o = .ok { r.fillLinear with rpu_data_crc32 := crc, modified := false } := by
    intro nal hn
    obtain ⟨r, o, hr, hw, e⟩ := encodeAll_mem out data h2 nal hn
    obtain ⟨crc, hp, _⟩ := (hall r hr).wfn.write_parse o hw
    exact ⟨r, o, crc, hall r hr, hw, e, hp⟩
  intro nal hn
  split at h
  · exact key nal (duplicateAll_sub _ data nals h nal hn)
  · injection h with h; subst h; exact key nal hn

/-- every parse result within the three limits is tame -/
theorem Tame_of_parse (bytes : Bytes) (r : Rpu) (hp : parseRpu bytes = .ok r)
    (hs : ∀ m, r.rpu_data_mapping = some m → m.seSmall = true)
    (hi : IntPartsCoded r) (hd : DmUncompressed r) (hrem : r.remaining = none) : Tame r := by
  have hwf := parseRpu_wf bytes r hp hs
  refine ⟨WfN_of_RpuWf r hwf, ⟨?_, hi, hd, hrem⟩⟩
  -- a parse result is validated
  have hv : r.validate = true := by
    unfold parseRpu at hp
    dsimp only at hp
    split at hp
    · cases hp
    · split at hp
      · cases hp
      · split at hp
        · cases hp
        · cases hp
        · split at hp
          · cases hp
          · split at hp
            · rename_i hval
              injection hp with hp
              subst hp
              exact hval
            · cases hp
  have hhv : r.header.validate r.dovi_profile = true := by
    simp only [Rpu.validate, Bool.and_eq_true] at hv
    exact hv.1.1
  exact syntax_of_validate r.header r.dovi_profile hwf.hdr hhv

end EditorPipeline

end Dovi.WfPreserve
