import DoviModel.Model.RpuWrite
import DoviModel.Proofs.Bits
/-!
# Extension blocks: what `write` emits is read back by `parse` (write → parse soundness, generic in the level)
-/
namespace Dovi

/-- `wcat` succeeds iff every part does, and then it is their concatenation -/
theorem wcat_eq_ok {l : List (Res Bits)} {out : Bits} (h : wcat l = .ok out) :
    ∃ parts : List Bits, l = parts.map Res.ok ∧ out = parts.flatten := by
  induction l generalizing out with
  | nil => simp [wcat] at h; subst h; exact ⟨[], rfl, rfl⟩
  | cons w ws ih =>
    cases w with
    | error => simp [wcat] at h
    | panic => simp [wcat] at h
    | ok b =>
      simp only [wcat] at h
      cases hr : wcat ws with
      | error => simp [hr, Res.bind] at h
      | panic => simp [hr, Res.bind] at h
      | ok rest =>
        simp only [hr, Res.bind] at h
        injection h with h; subst h
        obtain ⟨parts, hp, hf⟩ := ih hr
        exact ⟨b :: parts, by simp [hp], by simp [hf]⟩

theorem wcat_map_ok (parts : List Bits) : wcat (parts.map Res.ok) = .ok parts.flatten := by
  induction parts with
  | nil => rfl
  | cons p ps ih => simp [wcat, ih, Res.bind]

/-- the unsigned value a block field occupies on the wire -/
def rawOf (level w : Nat) (v : Int) : Nat :=
  if level == 2 && w == 13 then (if v < 0 then (v + 8192).toNat else v.toNat) else v.toNat

theorem toBits_succ (n v : Nat) : toBits (n+1) v = (v / 2^n % 2 == 1) :: toBits n (v % 2^n) := rfl

/-- one written block field reads back as its wire value -/
theorem readN_writeBlockField {level w : Nat} {v : Int} {part : Bits} (r : Bits)
    (h : writeBlockField level w v = .ok part) :
    readN w (part ++ r) = .ok (rawOf level w v, r) := by
  unfold writeBlockField at h
  unfold rawOf
  split at h
  · rename_i hc
    have hc' := hc
    simp only [Bool.and_eq_true, beq_iff_eq] at hc'
    obtain ⟨_, rfl⟩ := hc'
    simp only [hc, if_true]
    unfold writeSigned16 at h
    simp only [show ¬ (13 = 16) by omega, if_false] at h
    split at h
    · rename_i hneg
      simp only [hneg, if_true]
      split at h
      · cases h
      · rename_i hu
        have e4096 : (2:Int)^(13-1) = 4096 := by decide
        simp only [e4096, show (13:Nat) - 1 = 12 by rfl] at h hu
        cases hw : writeN 12 (v + 4096).toNat with
        | error => simp [hw, Res.bind] at h
        | panic => simp [hw, Res.bind] at h
        | ok wbits =>
          simp only [hw, Res.bind] at h
          injection h with h; subst h
          unfold writeN at hw
          split at hw
          · rename_i hfit
            injection hw with hw; subst hw
            have hx : (v + 8192).toNat = 4096 + (v + 4096).toNat := by omega
            have hlt : (v + 8192).toNat < 2^13 := by omega
            have := readN_toBits 13 (v + 8192).toNat r hlt
            rw [toBits_succ] at this
            have h1 : (v + 8192).toNat / 2^12 % 2 = 1 := by omega
            have h2 : (v + 8192).toNat % 2^12 = (v + 4096).toNat := by omega
            simp only [h1, h2, beq_self_eq_true] at this
            exact this
          · cases hw
    · rename_i hneg
      simp only [hneg, if_false]
      simp only [show (13:Nat) - 1 = 12 by rfl] at h
      cases hw : writeN 12 v.toNat with
      | error => simp [hw, Res.bind] at h
      | panic => simp [hw, Res.bind] at h
      | ok wbits =>
        simp only [hw, Res.bind] at h
        injection h with h; subst h
        unfold writeN at hw
        split at hw
        · rename_i hfit
          injection hw with hw; subst hw
          have hlt : v.toNat < 2^13 := by omega
          have := readN_toBits 13 v.toNat r hlt
          rw [toBits_succ] at this
          have h1 : ¬ (v.toNat / 2^12 % 2 = 1) := by
            have : v.toNat / 2^12 = 0 := Nat.div_eq_of_lt hfit
            omega
          have h2 : v.toNat % 2^12 = v.toNat := Nat.mod_eq_of_lt hfit
          simp only [h2] at this
          have h3 : (v.toNat / 2^12 % 2 == 1) = false := by simpa using h1
          rw [h3] at this
          exact this
        · cases hw
  · rename_i hc
    simp only [hc, if_false, Bool.false_eq_true]
    exact readN_writeN h

/-- a whole field list: what the field writers emit is what `readFlds` reads -/
theorem readFlds_written (level : Nat) (ws : List Nat) (vs : List Int) (parts : List Bits) (r : Bits)
    (h : (ws.zip vs).map (fun (p : Nat × Int) => writeBlockField level p.1 p.2) = parts.map Res.ok) :
    readFlds (((ws.zip vs).map (·.1)).map Fld.u) (parts.flatten ++ r) =
      .ok ((ws.zip vs).map (fun p => ((rawOf level p.1 p.2 : Nat) : Int)), r) := by
  induction ws generalizing vs parts with
  | nil =>
    simp at h
    subst h
    simp only [List.zip_nil_left, List.map_nil, readFlds, List.flatten_nil, List.nil_append]
    rfl
  | cons w ws ih =>
    cases vs with
    | nil =>
      simp at h
      subst h
      simp only [List.zip_nil_right, List.map_nil, readFlds, List.flatten_nil, List.nil_append]
      rfl
    | cons v vs =>
      cases parts with
      | nil => simp at h
      | cons p ps =>
        simp only [List.zip_cons_cons, List.map_cons, List.cons.injEq] at h
        obtain ⟨hp, hrest⟩ := h
        simp only [List.zip_cons_cons, List.map_cons, List.flatten_cons, List.append_assoc, readFlds]
        have h1 : readFld (Fld.u w) (p ++ (ps.flatten ++ r)) = .ok ((rawOf level w v : Nat), ps.flatten ++ r) := by
          unfold readFld
          simp only [Fld.width]
          rw [P.bind_of_ok (readN_writeBlockField _ hp)]
          rfl
        rw [P.bind_of_ok h1]
        rw [P.bind_of_ok (ih vs ps hrest)]
        rfl

end Dovi

namespace Dovi

theorem layouts_agree (level length : Nat) : blockParseLayout level length = blockWriteLayout level length := by
  unfold blockParseLayout blockWriteLayout
  split <;> first | rfl | (split <;> simp_all)

theorem blockBytes_default (level length : Nat) (h : level ∉ [1, 2, 3, 4, 5, 6, 11, 254, 255]) :
    blockBytes level length = length := by
  unfold blockBytes
  split <;> simp_all

theorem blockBytes_idem (level length : Nat) : blockBytes level (blockBytes level length) = blockBytes level length := by
  by_cases h : level ∈ [1, 2, 3, 4, 5, 6, 11, 254, 255]
  · simp only [List.mem_cons, List.mem_nil_iff, or_false] at h
    rcases h with rfl | rfl | rfl | rfl | rfl | rfl | rfl | rfl | rfl <;> rfl
  · rw [blockBytes_default _ _ h, blockBytes_default _ _ h]

/-- `validate()` of the variable-length levels checks the length first -/
theorem blockValidate_length (b : Block) (hv : blockValidate b = true)
    (h8 : b.level = 8 ∨ b.level = 9 ∨ b.level = 10) : validBlockLength b.level b.length = true := by
  unfold blockValidate at hv
  rcases h8 with h | h | h <;> simp only [h] at hv ⊢ <;>
    simp only [Bool.and_eq_true, and_assoc] at hv <;> exact hv.1

theorem blockRequiredBits_bytes (level length : Nat) :
    blockRequiredBits level (blockBytes level length) = blockRequiredBits level length := by
  unfold blockBytes
  split <;> first | rfl | simp_all [blockRequiredBits]

theorem blockParseLayout_bytes (level length : Nat) :
    blockParseLayout level (blockBytes level length) = blockParseLayout level length := by
  unfold blockBytes
  split <;> first | rfl | simp_all [blockParseLayout]

theorem validBlockLength_bytes (level length : Nat) :
    validBlockLength level (blockBytes level length) = validBlockLength level length := by
  unfold blockBytes
  split <;> first | rfl | simp_all [validBlockLength]

/-- what the parser reconstructs from the wire values of a written block -/
def reparsedVals (b : Block) : List Int :=
  match blockWriteLayout b.level b.length with
  | some ws =>
    let raw := (ws.zip (blockWriteVals b)).map fun p => ((rawOf b.level p.1 p.2 : Nat) : Int)
    let vals := blockPostParse b.level raw
    vals ++ (blockDefaults b.level).drop vals.length
  | none => []

theorem readBits_replicate (n : Nat) (r : Bits) :
    readBits n (List.replicate n false ++ r) = .ok (List.replicate n false, r) := by
  have hl : hasAtLeast n (List.replicate n false ++ r) = true := (hasAtLeast_iff _ _).mpr (by simp)
  simp [readBits, hl, List.take_left', List.drop_left']

/-- **write → parse for one extension block**: whatever `write` emits for a block (any level, any length
variant, any field values the writer accepts) is parsed back by the container's `parse_block` to the same
level, the written length and the values `reparsedVals` — with the following bits untouched. -/
theorem parseBlock_writeBlock (allowed other : List Nat) (b : Block) (w r : Bits)
    (hw : writeBlock b = .ok w)
    (hal : allowed.contains b.level = true) (hot : other.contains b.level = false)
    (hlen : ∀ ws, blockWriteLayout b.level b.length = some ws → ws.length ≤ (blockWriteVals b).length) :
    parseBlock allowed other (w ++ r) =
      .ok ({ level := b.level, length := blockBytes b.level b.length, vals := reparsedVals b }, r) := by
  unfold writeBlock at hw
  split at hw
  · cases hw
  · rename_i hv8
    split at hw
    · cases hw
    · rename_i req hreq
      dsimp only at hw
      split at hw
      · cases hw
      · rename_i hpadlen
        obtain ⟨parts, hparts, hout⟩ := wcat_eq_ok hw
        -- the four parts: length code, level byte, fields, padding
        obtain ⟨pLen, pLevel, pFields, pPad, rfl⟩ : ∃ a b c d, parts = [a, b, c, d] := by
          match parts, hparts with
          | [], h => simp at h
          | [_], h => simp at h
          | [_, _], h => simp at h
          | [_, _, _], h => simp at h
          | [a, b, c, d], _ => exact ⟨a, b, c, d, rfl⟩
          | _ :: _ :: _ :: _ :: _ :: _, h => simp at h
        · simp only [List.map_cons, List.map_nil, List.cons.injEq, and_true] at hparts
          obtain ⟨hL, hLv, hF, hP⟩ := hparts
          injection hP with hP
          -- fields
          have hvalid : blockValidate b = true := by
            cases hbv : blockValidate b with
            | true => rfl
            | false => simp [hbv] at hF
          simp only [hvalid, if_true] at hF
          obtain ⟨fparts, hfp, hff⟩ := wcat_eq_ok hF
          -- layout
          cases hlay : blockWriteLayout b.level b.length with
          | none =>
            simp [blockWriteFields, hlay] at hfp
            cases fparts <;> simp at hfp
          | some ws =>
            simp only [blockWriteFields, hlay] at hfp
            have hzipfst : (ws.zip (blockWriteVals b)).map (·.1) = ws := by
              apply List.map_fst_zip
              exact hlen ws hlay
            have hread := readFlds_written b.level ws (blockWriteVals b) fparts (pPad ++ r) hfp
            rw [hzipfst] at hread
            -- assemble the parse
            subst hout
            have hlv256 : b.level < 2^8 := by
              unfold writeN at hLv; split at hLv
              · assumption
              · cases hLv
            simp only [List.flatten_cons, List.flatten_nil, List.append_nil, List.append_assoc]
            unfold parseBlock
            rw [P.bind_of_ok (readUe_writeUe _ hL)]
            rw [P.bind_of_ok (readN_writeN hLv)]
            simp only [hot, Bool.false_eq_true, if_false, hal, Bool.not_true]
            have hvl : validBlockLength b.level (blockBytes b.level b.length) = true := by
              rw [validBlockLength_bytes]
              by_cases h8 : (b.level == 8 || b.level == 9 || b.level == 10) = true
              · simp only [Bool.or_eq_true, beq_iff_eq] at h8
                exact blockValidate_length b hvalid (by rcases h8 with (h | h) | h <;> simp [h])
              · unfold validBlockLength
                simp only [Bool.or_eq_true, beq_iff_eq, not_or] at h8
                obtain ⟨⟨h8a, h8b⟩, h8c⟩ := h8
                split <;> first | rfl | (exfalso; omega)
            rw [P.bind_of_ok (by rw [hvl]; exact P.ensure_true _)]
            rw [blockParseLayout_bytes, layouts_agree, hlay]
            simp only
            rw [hff] 
            rw [P.bind_of_ok hread]
            simp only [blockBytes_idem, beq_self_eq_true]
            rw [P.bind_of_ok (P.ensure_true _)]
            rw [blockRequiredBits_bytes, hreq]
            simp only
            subst hP
            rw [P.bind_of_ok (readBits_replicate _ r)]
            have hall : (List.replicate (blockBytes b.level b.length * 8 - req) false).all (· == false) = true := by
              simp
            rw [hall]
            rw [P.bind_of_ok (P.ensure_true _)]
            simp only [reparsedVals, hlay]
            rfl

end Dovi

namespace Dovi

theorem zip_map_take {α β γ} (f : α → β → γ) (ws : List α) (vs : List β) (h : ws.length ≤ vs.length) :
    (ws.zip vs).map (fun p => f p.1 p.2) = (ws.zip (vs.take ws.length)).map (fun p => f p.1 p.2) := by
  induction ws generalizing vs with
  | nil => simp
  | cons w ws ih =>
    cases vs with
    | nil => simp at h
    | cons v vs =>
      simp only [List.zip_cons_cons, List.map_cons, List.length_cons, List.take_succ_cons]
      rw [ih vs (by simpa using h)]

theorem zip_rawOf_nonneg (level : Nat) (ws : List Nat) (vs : List Int) (hl : vs.length = ws.length)
    (hnn : ∀ v ∈ vs, 0 ≤ v) (h2 : level ≠ 2) :
    (ws.zip vs).map (fun p => ((rawOf level p.1 p.2 : Nat) : Int)) = vs := by
  induction ws generalizing vs with
  | nil => cases vs <;> simp_all
  | cons w ws ih =>
    cases vs with
    | nil => simp at hl
    | cons v vs =>
      simp only [List.zip_cons_cons, List.map_cons]
      have hv : 0 ≤ v := hnn v (by simp)
      have e : ((rawOf level w v : Nat) : Int) = v := by
        unfold rawOf
        have : (level == 2 && w == 13) = false := by simp [h2]
        simp only [this, Bool.false_eq_true, if_false]
        omega
      rw [e, ih vs (by simpa using hl) (fun x hx => hnn x (by simp [hx]))]

/-- **for every level other than L2 and L11**: a block whose values are non-negative and whose unwritten
fields carry the struct defaults is reconstructed exactly -/
theorem reparsedVals_eq (b : Block) (ws : List Nat) (hlay : blockWriteLayout b.level b.length = some ws)
    (h2 : b.level ≠ 2) (h11 : b.level ≠ 11) (hlen : ws.length ≤ b.vals.length)
    (hnn : ∀ v ∈ b.vals, 0 ≤ v)
    (hdef : (blockDefaults b.level).drop ws.length = b.vals.drop ws.length) :
    reparsedVals b = b.vals := by
  unfold reparsedVals
  simp only [hlay]
  have hwv : blockWriteVals b = b.vals := by
    unfold blockWriteVals
    split
    · rename_i heq _
      exact absurd heq h11
    · rfl
  rw [hwv]
  rw [zip_map_take (fun w v => ((rawOf b.level w v : Nat) : Int)) ws b.vals hlen]
  rw [zip_rawOf_nonneg b.level ws (b.vals.take ws.length) (by simp [List.length_take]; omega)
        (fun v hv => hnn v (List.mem_of_mem_take hv)) h2]
  have hpp : blockPostParse b.level (b.vals.take ws.length) = b.vals.take ws.length := by
    unfold blockPostParse
    split
    · rename_i heq _; exact absurd heq h2
    · rename_i heq _; exact absurd heq h11
    · rfl
  rw [hpp]
  have hl : (b.vals.take ws.length).length = ws.length := by simp [List.length_take]; omega
  rw [hl, hdef, List.take_append_drop]

/-- L2: `ms_weight` −1 survives the 13-bit two's complement trip -/
theorem reparsedVals_l2 (a c d e f g ms : Int) (hnn : 0 ≤ a ∧ 0 ≤ c ∧ 0 ≤ d ∧ 0 ≤ e ∧ 0 ≤ f ∧ 0 ≤ g)
    (hms : -1 ≤ ms ∧ ms ≤ 4095) :
    reparsedVals { level := 2, length := 11, vals := [a, c, d, e, f, g, ms] } = [a, c, d, e, f, g, ms] := by
  obtain ⟨h1, h2, h3, h4, h5, h6⟩ := hnn
  simp only [reparsedVals, blockWriteLayout, blockWriteVals, List.zip_cons_cons, List.zip_nil_right, List.map_cons,
    List.map_nil, rawOf, blockPostParse, blockDefaults]
  simp only [show (2 == 2 && 12 == 13) = false by decide, show (2 == 2 && 13 == 13) = true by decide,
    Bool.false_eq_true, if_false, if_true]
  have e1 : ((a.toNat : Nat) : Int) = a := by omega
  have e2 : ((c.toNat : Nat) : Int) = c := by omega
  have e3 : ((d.toNat : Nat) : Int) = d := by omega
  have e4 : ((e.toNat : Nat) : Int) = e := by omega
  have e5 : ((f.toNat : Nat) : Int) = f := by omega
  have e6 : ((g.toNat : Nat) : Int) = g := by omega
  rw [e1, e2, e3, e4, e5, e6]
  by_cases hneg : ms < 0
  · have : ms = -1 := by omega
    subst this
    simp
  · simp only [hneg, if_false]
    have e7 : ((ms.toNat : Nat) : Int) = ms := by omega
    rw [e7]
    have : ¬ ms > 4095 := by omega
    simp [this]

/-- L11: whitepoint and reference-mode flag survive being folded into one byte -/
theorem reparsedVals_l11 (ct wp ref r2 r3 : Int) (hct : 0 ≤ ct) (hwp : 0 ≤ wp ∧ wp ≤ 15)
    (href : ref = 0 ∨ ref = 1) (hr2 : 0 ≤ r2) (hr3 : 0 ≤ r3) :
    reparsedVals { level := 11, length := 4, vals := [ct, wp, ref, r2, r3] } = [ct, wp, ref, r2, r3] := by
  simp only [reparsedVals, blockWriteLayout, blockWriteVals, List.zip_cons_cons, List.zip_nil_right, List.map_cons,
    List.map_nil, rawOf, blockPostParse, blockDefaults]
  simp only [show (11 == 2 && 8 == 13) = false by decide, Bool.false_eq_true, if_false]
  have e1 : ((ct.toNat : Nat) : Int) = ct := by omega
  have e3 : ((r2.toNat : Nat) : Int) = r2 := by omega
  have e4 : ((r3.toNat : Nat) : Int) = r3 := by omega
  rw [e1, e3, e4]
  rcases href with rfl | rfl
  · simp only [show ((0:Int) != 0) = false by decide, Bool.false_eq_true, if_false]
    have e2 : (((((wp.toNat : Int) + 0) % 256).toNat : Nat) : Int) = wp := by omega
    rw [e2]
    have : ¬ wp > 15 := by omega
    simp [this]
  · simp only [show ((1:Int) != 0) = true by decide, if_true]
    have e2 : (((((wp.toNat : Int) + 16) % 256).toNat : Nat) : Int) = wp + 16 := by omega
    rw [e2]
    have : wp + 16 > 15 := by omega
    simp [this]

end Dovi
