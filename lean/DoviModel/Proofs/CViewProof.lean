import DoviModel.Model.CView
import DoviModel.Proofs.ParseWf
/-!
# Helper lemmas for C20: what a parse result looks like to the C layer, and how much of an RPU the C view keeps

* `readRpuData_parts`: the mapping / DM payload of a `read_rpu_data` result come from `parseMapping` /
  `parseDmData` on the result's own header; profile and `el_type` are derived fields.
* `shape_notMixed`: a mapping of the parser's shape never has a component with both a polynomial and an MMR box.
* left inverses of the field-by-field conversions (`toPoly`, `toMmr`, `toNlq`, `toCurve`, `toMapping`, `perLevel`,
  `cDm_mainVals`): the C mapping / DM structures determine the Rust structures, up to the interleaving of DM blocks
  of different levels.
* the header: `cHeaderFrom_eq` (the C header determines every Rust header field but the three it lacks),
  `denomLength_of_wf` (`coefficient_log2_denom_length` of a parsed header is a function of carried fields).
-/
namespace Dovi.CViewP
open Dovi Dovi.PwDm

/-! ## parse results -/

/-- the parts of a `read_rpu_data` result -/
theorem readRpuData_parts {bits rest : Bits} {r : Rpu} (hp : readRpuData bits = .ok (r, rest)) :
    r.dovi_profile = r.header.getDoviProfile ∧ r.el_type = r.rpu_data_mapping.bind Mapping.elType ∧
    r.modified = false ∧ r.trailing_zeroes = 0 ∧
    (∀ m, r.rpu_data_mapping = some m → ∃ s s', parseMapping r.header s = .ok (m, s')) ∧
    (∀ d, r.vdr_dm_data = some d → ∃ s s', parseDmData r.header s = .ok (d, s')) := by
  unfold readRpuData at hp
  obtain ⟨pfx, s1, e1, q1⟩ := P.bind_eq_ok.mp hp
  clear hp
  obtain ⟨u1, s1', e1', q2⟩ := P.bind_eq_ok.mp q1
  clear q1
  obtain ⟨h0, s2, e2, q3⟩ := P.bind_eq_ok.mp q2
  clear q2
  obtain ⟨u2, s2', e2', q4⟩ := P.bind_eq_ok.mp q3
  clear q3
  obtain ⟨mp, s3, e3, q5⟩ := P.bind_eq_ok.mp q4
  clear q4
  obtain ⟨dm, s4, e4, q6⟩ := P.bind_eq_ok.mp q5
  clear q5
  obtain ⟨u3, s5x, e5, q7⟩ := P.bind_eq_ok.mp q6
  clear q6
  obtain ⟨avail, s5, e5', q8⟩ := P.bind_eq_ok.mp q7
  clear q7
  obtain ⟨rem, s6, e6, q9⟩ := P.bind_eq_ok.mp q8
  clear q8
  obtain ⟨crc, s7, e7, q10⟩ := P.bind_eq_ok.mp q9
  clear q9
  obtain ⟨last, s8, e8, q11⟩ := P.bind_eq_ok.mp q10
  clear q10
  obtain ⟨u4, s8', e8', q12⟩ := P.bind_eq_ok.mp q11
  clear q11
  obtain ⟨hr, _⟩ := pure_inv q12
  clear q12
  subst hr
  generalize hH : ({ h0 with rpu_nal_prefix := pfx } : Header) = H at *
  refine ⟨rfl, rfl, rfl, rfl, ?_, ?_⟩
  · intro m hm
    dsimp only at hm ⊢
    cases hup : H.use_prev_vdr_rpu_flag with
    | true =>
      simp only [hup, Bool.not_true, Bool.false_eq_true, if_false] at e3
      obtain ⟨rfl, _⟩ := pure_inv e3
      cases hm
    | false =>
      simp only [hup, Bool.not_false, if_true] at e3
      obtain ⟨m', s3', em, pm⟩ := P.bind_eq_ok.mp e3
      obtain ⟨rfl, _⟩ := pure_inv pm
      injection hm with hm
      subst hm
      exact ⟨_, _, em⟩
  · intro d hd
    dsimp only at hd ⊢
    cases hdp : H.vdr_dm_metadata_present_flag with
    | false =>
      simp only [hdp, Bool.false_eq_true, if_false] at e4
      obtain ⟨rfl, _⟩ := pure_inv e4
      cases hd
    | true =>
      simp only [hdp, if_true] at e4
      obtain ⟨d', s4', ed, pd⟩ := P.bind_eq_ok.mp e4
      obtain ⟨rfl, _⟩ := pure_inv pd
      injection hd with hd
      subst hd
      exact ⟨_, _, ed⟩

/-- `DoviRpu::parse` = `read_rpu_data` + the trailing-zero count + `validate` -/
theorem parseRpu_parts {data : Bytes} {r : Rpu} (hp : parseRpu data = .ok r) :
    r.validate = true ∧ ∃ bits rest r0, readRpuData bits = .ok (r0, rest) ∧
      r = { r0 with trailing_zeroes := trailingZeroes data } := by
  unfold parseRpu at hp
  dsimp only at hp
  split at hp
  · cases hp
  · split at hp
    · cases hp
    · split at hp
      · cases hp
      · cases hp
      · rename_i r0 rest hrd
        split at hp
        · cases hp
        · split at hp
          · rename_i hval
            injection hp with hp
            subst hp
            exact ⟨hval, _, _, _, hrd, rfl⟩
          · cases hp

/-- every mapping of a parsed RPU has the parser's shape -/
theorem parseRpu_mapping_shape {data : Bytes} {r : Rpu} (hp : parseRpu data = .ok r) :
    ∀ m, r.rpu_data_mapping = some m → MappingShape r.header m = true := by
  obtain ⟨hval, bits, rest, r0, hrd, rfl⟩ := parseRpu_parts hp
  obtain ⟨_, _, _, _, hm, _⟩ := readRpuData_parts hrd
  intro m hmm
  obtain ⟨s, s', hs⟩ := hm m hmm
  have hv : m.curves.all Curve.piecesOk = true := by
    simp only [Rpu.validate, Bool.and_eq_true] at hval
    have hvm := hval.1.2
    dsimp only at hmm hvm
    rw [hmm] at hvm
    simp only [Mapping.validate, Bool.and_eq_true] at hvm
    exact hvm.1.1.2
  exact parseMapping_shape _ _ _ m hs hv

/-- the header of a `read_rpu_data` result is the parser's header (`Header.Wf`), whatever the mapping holds -/
theorem readRpuData_header_wf {bits rest : Bits} {r : Rpu} (hp : readRpuData bits = .ok (r, rest)) :
    r.header.Wf = true := by
  unfold readRpuData at hp
  obtain ⟨pfx, s1, e1, q1⟩ := P.bind_eq_ok.mp hp
  clear hp
  obtain ⟨u1, s1', e1', q2⟩ := P.bind_eq_ok.mp q1
  clear q1
  obtain ⟨h0, s2, e2, q3⟩ := P.bind_eq_ok.mp q2
  clear q2
  obtain ⟨u2, s2', e2', q4⟩ := P.bind_eq_ok.mp q3
  clear q3
  obtain ⟨mp, s3, e3, q5⟩ := P.bind_eq_ok.mp q4
  clear q4
  obtain ⟨dm, s4, e4, q6⟩ := P.bind_eq_ok.mp q5
  clear q5
  obtain ⟨u3, s5x, e5, q7⟩ := P.bind_eq_ok.mp q6
  clear q6
  obtain ⟨avail, s5, e5', q8⟩ := P.bind_eq_ok.mp q7
  clear q7
  obtain ⟨rem, s6, e6, q9⟩ := P.bind_eq_ok.mp q8
  clear q8
  obtain ⟨crc, s7, e7, q10⟩ := P.bind_eq_ok.mp q9
  clear q9
  obtain ⟨last, s8, e8, q11⟩ := P.bind_eq_ok.mp q10
  clear q10
  obtain ⟨u4, s8', e8', q12⟩ := P.bind_eq_ok.mp q11
  clear q11
  obtain ⟨hr, _⟩ := pure_inv q12
  clear q12
  subst hr
  exact (ParseWf.Wf_prefix h0 pfx).trans (ParseWf.parseHeader_wf e2)

/-- every header `DoviRpu::parse` returns is `Header.Wf` and passed `validate` -/
theorem parseRpu_header_wf {data : Bytes} {r : Rpu} (hp : parseRpu data = .ok r) : r.header.Wf = true := by
  obtain ⟨_, bits, rest, r0, hrd, rfl⟩ := parseRpu_parts hp
  exact readRpuData_header_wf (r := r0) hrd

/-! ## no component of a shaped mapping mixes polynomial and MMR boxes -/

theorem curveWf_one_kind (q : Int → Bool) (h : Header) (c : Curve) (hw : CurveWf q h c = true) :
    (c.polynomial.isSome = true ∧ c.mmr = none ∧ c.mapping_idc = .polynomial) ∨
    (c.polynomial = none ∧ c.mmr.isSome = true ∧ c.mapping_idc = .mmr) := by
  unfold CurveWf at hw
  simp only [Bool.and_eq_true] at hw
  obtain ⟨_, hw⟩ := hw
  cases hi : c.mapping_idc <;> cases hpl : c.polynomial <;> cases hmm : c.mmr <;>
    simp only [hi, hpl, hmm] at hw <;> first | exact absurd hw (by decide) | simp

theorem curveWf_notMixed (q : Int → Bool) (h : Header) (c : Curve) (hw : CurveWf q h c = true) :
    c.notMixed = true := by
  rcases curveWf_one_kind q h c hw with ⟨_, hm, _⟩ | ⟨hp, _, _⟩
  · simp [Curve.notMixed, hm]
  · simp [Curve.notMixed, hp]

theorem shape_curves (q : Int → Bool) (h : Header) (m : Mapping) (hs : MappingWfG q h m = true) :
    m.curves.length = 3 ∧ ∀ i, i < 3 → CurveWf q h (m.curve i) = true := by
  unfold MappingWfG at hs
  simp only [Bool.and_eq_true, beq_iff_eq, List.all_eq_true] at hs
  obtain ⟨⟨hl, hall⟩, _⟩ := hs
  refine ⟨hl, fun i hi => ?_⟩
  apply hall
  unfold Mapping.curve
  have hlt : i < m.curves.length := by omega
  rw [List.getD_eq_getElem?_getD, List.getElem?_eq_getElem hlt]
  exact List.getElem_mem hlt

/-- **a mapping of the parser's shape is not mixed** -/
theorem shape_notMixed (h : Header) (m : Mapping) (hs : MappingShape h m = true) : m.notMixed = true := by
  obtain ⟨_, hc⟩ := shape_curves _ h m hs
  simp only [Mapping.notMixed, Bool.and_eq_true]
  exact ⟨⟨curveWf_notMixed _ h _ (hc 0 (by omega)), curveWf_notMixed _ h _ (hc 1 (by omega))⟩,
    curveWf_notMixed _ h _ (hc 2 (by omega))⟩

/-! ## left inverses of the conversions -/

/-- the `u8` the C struct stores for the mapping method, read back -/
def methodOfNat : Nat → MappingMethod
  | 0 => .polynomial
  | 1 => .mmr
  | _ => .invalid

theorem methodOfNat_toNat (m : MappingMethod) : methodOfNat m.toNat = m := by
  cases m <;> rfl

/-- the Rust polynomial pieces a C `PolynomialCurve` stands for (a flag byte is a `bool`) -/
def toPoly (p : CPoly) : PolyCurve :=
  { poly_order_minus1 := p.poly_order_minus1, linear_interp_flag := p.linear_interp_flag.map (· != 0),
    poly_coef_int := p.poly_coef_int, poly_coef := p.poly_coef }

theorem toPoly_cPoly (p : PolyCurve) : toPoly (cPoly p) = p := by
  cases p
  simp only [toPoly, cPoly, List.map_map, PolyCurve.mk.injEq, true_and, and_true]
  rw [List.map_congr_left (g := id)]
  · simp
  · intro b _
    cases b <;> rfl

def toMmr (m : CMmr) : MmrCurve :=
  { mmr_order_minus1 := m.mmr_order_minus1, mmr_constant_int := m.mmr_constant_int, mmr_constant := m.mmr_constant,
    mmr_coef_int := m.mmr_coef_int, mmr_coef := m.mmr_coef }

theorem toMmr_cMmr (m : MmrCurve) : toMmr (cMmr m) = m := rfl

def toNlq (n : CNlq) : Nlq :=
  { nlq_offset := n.nlq_offset, vdr_in_max_int := n.vdr_in_max_int, vdr_in_max := n.vdr_in_max,
    linear_deadzone_slope_int := n.linear_deadzone_slope_int, linear_deadzone_slope := n.linear_deadzone_slope,
    linear_deadzone_threshold_int := n.linear_deadzone_threshold_int,
    linear_deadzone_threshold := n.linear_deadzone_threshold }

theorem toNlq_cNlq (n : Nlq) : toNlq (cNlq n) = n := rfl

/-- the Rust component a C `ReshapingCurve` stands for -/
def toCurve (c : CCurve) : Curve :=
  { num_pivots_minus2 := c.num_pivots_minus2, pivots := c.pivots, mapping_idc := methodOfNat c.mapping_idc,
    polynomial := c.polynomial.map toPoly, mmr := c.mmr.map toMmr }

theorem toCurve_cCurve (c : Curve) : toCurve (cCurve c) = c := by
  obtain ⟨a, b, i, p, m⟩ := c
  cases p <;> cases m <;> simp [toCurve, cCurve, methodOfNat_toNat, toPoly_cPoly, toMmr_cMmr]

/-- `-1` ↦ `None`, a non-negative value ↦ `Some` -/
def unMarker (z : Int) : Option Nat := if z < 0 then none else some z.toNat

theorem unMarker_optMarker (o : Option Nat) : unMarker (optMarker o) = o := by
  cases o with
  | none => rfl
  | some v =>
    have : ¬ ((v : Int) < 0) := by omega
    simp [unMarker, optMarker, this]

/-- the Rust mapping a C `RpuDataMapping` stands for -/
def toMapping (m : CMapping) : Mapping :=
  { vdr_rpu_id := m.vdr_rpu_id, mapping_color_space := m.mapping_color_space,
    mapping_chroma_format_idc := m.mapping_chroma_format_idc,
    num_x_partitions_minus1 := m.num_x_partitions_minus1, num_y_partitions_minus1 := m.num_y_partitions_minus1,
    curves := m.curves.map toCurve,
    nlq_method_idc := unMarker m.nlq_method_idc, nlq_num_pivots_minus2 := unMarker m.nlq_num_pivots_minus2,
    nlq_pred_pivot_value := if m.nlq_pred_data_null then none else some m.nlq_pred_pivot_value,
    nlq := m.nlq.map toNlq }

theorem toMapping_cMapping (m : Mapping) (hl : m.curves.length = 3) : toMapping (cMapping m) = m := by
  obtain ⟨a, b, c, d, e, curves, f, g, pv, n⟩ := m
  match curves, hl with
  | [x, y, z], _ =>
    cases pv <;> cases n <;>
      simp [toMapping, cMapping, Mapping.curve, toCurve_cCurve, unMarker_optMarker, toNlq_cNlq]

/-! ## the header: which Rust fields the C struct carries -/

/-- `coefficient_log2_denom_length` as the parser derives it from fields the C struct does carry
(`rpu_data_header.rs`: `coefficient_log2_denom as u32` for coefficient data type 0, 32 for type 1, untouched
without sequence info) -/
def derivedDenomLength (h : Header) : Nat :=
  if h.vdr_seq_info_present_flag then (if h.coefficient_data_type == 0 then h.coefficient_log2_denom % 2^32 else 32)
  else 0

/-- for a header of the parser's shape the derived field is that function of the carried fields -/
theorem denomLength_of_wf (h : Header) (hw : h.Wf = true) :
    h.coefficient_log2_denom_length = derivedDenomLength h := by
  unfold derivedDenomLength
  unfold Header.Wf at hw
  cases hs : h.vdr_seq_info_present_flag with
  | false =>
    simp only [hs, Bool.false_eq_true, if_false, Header.seqDefaults, Bool.and_eq_true, beq_iff_eq] at hw
    simp [hw.1.2.1.1.1.2]
  | true =>
    simp only [hs, if_true, Bool.and_eq_true, Bool.or_eq_true, beq_iff_eq] at hw
    rcases hw.1.2.1 with ⟨h0, hl⟩ | ⟨⟨h1, _⟩, hl⟩
    · simp [h0, hl]
    · simp [h1, hl]

/-- **what the C header determines of the Rust header**: two Rust headers with the same `RpuDataHeader::from`
agree in every field except the three the C struct does not have -/
theorem cHeaderFrom_eq (h h' : Header) (hc : cHeaderFrom h = cHeaderFrom h') :
    h = { h' with coefficient_log2_denom_length := h.coefficient_log2_denom_length,
                  ext_mapping_idc_0_4 := h.ext_mapping_idc_0_4, ext_mapping_idc_5_7 := h.ext_mapping_idc_5_7 } := by
  cases h; cases h'
  simp only [cHeaderFrom, CHeader.mk.injEq] at hc
  simp only [Header.mk.injEq, true_and, and_true]
  simp_all

/-- … and for two headers of the parser's shape also in `coefficient_log2_denom_length`: only the two
`ext_mapping_idc` fields stay undetermined -/
theorem cHeaderFrom_eq_wf (h h' : Header) (hw : h.Wf = true) (hw' : h'.Wf = true)
    (hc : cHeaderFrom h = cHeaderFrom h') :
    h = { h' with ext_mapping_idc_0_4 := h.ext_mapping_idc_0_4, ext_mapping_idc_5_7 := h.ext_mapping_idc_5_7 } := by
  have e := cHeaderFrom_eq h h' hc
  have hl : h.coefficient_log2_denom_length = h'.coefficient_log2_denom_length := by
    rw [denomLength_of_wf h hw, denomLength_of_wf h' hw']
    rw [e]
    rfl
  rw [e]
  cases h; cases h'
  simp only at hl
  simp only [Header.mk.injEq, true_and, and_true]
  exact hl

/-! ## the 32 payload fields of `vdr_dm_data` -/

/-- the 32 named fields of the C `VdrDmData`, read in declaration order, are the model's `main` list -/
theorem cDm_mainVals (d : DmData) (h : d.main.length = 32) : (cDm d).mainVals = d.main := by
  obtain ⟨c, a, cu, sr, main, c29, c40⟩ := d
  simp only at h
  match main, h with
  | [_, _, _, _, _, _, _, _, _, _, _, _, _, _, _, _, _, _, _, _, _, _, _, _, _, _, _, _, _, _, _, _], _ =>
    rfl

/-! ## the DM levels -/

/-- the pointer of a single-instance level -/
def single (x : CLevels) (l : Nat) : Option Block :=
  if l = 1 then x.level1 else if l = 3 then x.level3 else if l = 4 then x.level4 else if l = 5 then x.level5
  else if l = 6 then x.level6 else if l = 9 then x.level9 else if l = 11 then x.level11
  else if l = 254 then x.level254 else if l = 255 then x.level255 else none

/-- everything the C `DmData` shows of level `l`: the list for L2 / L8 / L10, the pointee (if any) otherwise -/
def perLevel (x : CLevels) (l : Nat) : List Block :=
  if l = 2 then x.level2 else if l = 8 then x.level8 else if l = 10 then x.level10 else (single x l).toList

theorem levelList_append (a b : List Block) (l : Nat) : levelList (a ++ b) l = levelList a l ++ levelList b l := by
  simp [levelList, List.filter_append]

theorem levelList_nil_of_levels (bs : List Block) (L : List Nat) (l : Nat)
    (h : ∀ b ∈ bs, b.level ∈ L) (hl : l ∉ L) : levelList bs l = [] := by
  simp only [levelList, List.filter_eq_nil_iff]
  intro b hb hbl
  have : b.level = l := by simpa using hbl
  exact hl (this ▸ h b hb)

theorem getLast?_toList_of_le_one (f : List Block) (h : f.length ≤ 1) : f.getLast?.toList = f := by
  match f, h with
  | [], _ => rfl
  | [x], _ => rfl

theorem single_cLevels (d : DmData) (l : Nat) (hl : l ∈ singleLevels) :
    single (cLevels d) l = lastOfLevel d.allBlocks l := by
  simp only [singleLevels, List.mem_cons, List.not_mem_nil, or_false] at hl
  rcases hl with rfl | rfl | rfl | rfl | rfl | rfl | rfl | rfl | rfl <;> rfl

/-! ## lists sorted by level are determined by their per-level sublists -/

/-- non-decreasing levels (what `sort_by_key` of a container guarantees) -/
def LevelSorted (l : List Block) : Prop := l.Pairwise fun a b => a.level ≤ b.level

theorem levelList_cons_self (x : Block) (xs : List Block) : levelList (x :: xs) x.level = x :: levelList xs x.level := by
  simp [levelList]

theorem levelList_cons_ne (x : Block) (xs : List Block) (l : Nat) (h : x.level ≠ l) :
    levelList (x :: xs) l = levelList xs l := by
  simp [levelList, h]

theorem levelList_nil_of_gt (l : List Block) (m : Nat) (h : ∀ b ∈ l, m < b.level) : levelList l m = [] := by
  simp only [levelList, List.filter_eq_nil_iff]
  intro b hb hbl
  have : b.level = m := by simpa using hbl
  have := h b hb
  omega

theorem sorted_eq_of_levelLists : ∀ (a b : List Block), LevelSorted a → LevelSorted b →
    (∀ l, levelList a l = levelList b l) → a = b := by
  intro a
  induction a with
  | nil =>
    intro b _ _ h
    cases b with
    | nil => rfl
    | cons y ys =>
      have := h y.level
      rw [levelList_cons_self] at this
      cases this
  | cons x xs ih =>
    intro b ha hb h
    cases b with
    | nil =>
      have := h x.level
      rw [levelList_cons_self] at this
      cases this
    | cons y ys =>
      have hax := List.pairwise_cons.1 ha
      have hby := List.pairwise_cons.1 hb
      have hlev : x.level = y.level := by
        apply Nat.le_antisymm
        · apply Nat.le_of_not_lt
          intro hlt
          have e := h y.level
          rw [levelList_cons_self, levelList_cons_ne x xs y.level (by omega),
            levelList_nil_of_gt xs y.level (fun b hb => by have := hax.1 b hb; omega)] at e
          cases e
        · apply Nat.le_of_not_lt
          intro hlt
          have e := h x.level
          rw [levelList_cons_self, levelList_cons_ne y ys x.level (by omega),
            levelList_nil_of_gt ys x.level (fun b hb => by have := hby.1 b hb; omega)] at e
          cases e
      have e := h x.level
      rw [levelList_cons_self] at e
      rw [hlev, levelList_cons_self] at e
      injection e with e1 e2
      subst e1
      congr 1
      apply ih ys hax.2 hby.2
      intro l
      by_cases hl : x.level = l
      · subst hl; rw [hlev]; exact e2
      · have := h l
        rwa [levelList_cons_ne x xs l hl, levelList_cons_ne x ys l hl] at this

end Dovi.CViewP
