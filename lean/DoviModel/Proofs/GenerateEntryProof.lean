import DoviModel.Proofs.EditGenProof
/-!
# Helper lemmas for C10 — the generator entry point `Gen.generate`
(length / default-shot normalisation, `-p` / `--long-play-mode` overrides, L1 clamp, writer)
-/
namespace Dovi.GenerateEntryProof
open Dovi Dovi.Gen Dovi.EditGenProof.Gen

/-! ## `normalize`: the config `generate` hands to `generate_rpu_list` -/

/-- sum of the shot durations, as the model computes it -/
def durSum (shots : List Shot) : Nat := (shots.map (·.duration)).foldl (· + ·) 0

/-- step 1a: `length` omitted (0) and shots given — `length` becomes the sum of the shot durations -/
def withLength (c : Config) : Config :=
  if c.length == 0 && !c.shots.isEmpty then { c with length := durSum c.shots } else c

/-- step 1b: no shots — one default shot covering `length` frames -/
def withShots (c : Config) : Config :=
  if c.shots.isEmpty then { c with shots := [{ start := 0, duration := c.length }] } else c

/-- step 2: the CLI overrides `-p` and `--long-play-mode` -/
def withOverrides (c : Config) (po : Option Profile) (lo : Option Bool) : Config :=
  { c with profile := po.getD c.profile, longPlay := lo.getD c.longPlay }

/-- step 3a: which average-PQ floor the L1 clamp uses is fixed to the config's CM version unless given -/
def withL1Avg (c : Config) : Config := { c with l1AvgCmv40 := some (c.l1AvgCmv40.getD c.cmv40) }

/-- the config that reaches `generate_rpu_list` -/
def normalize (c : Config) (po : Option Profile) (lo : Option Bool) : Config :=
  fixupL1 (withL1Avg (withOverrides (withShots (withLength c)) po lo))

/-- `generate` = input check, `normalize`, `generate_rpu_list`, writer -/
theorem generate_unfold (c : Config) (po : Option Profile) (lo : Option Bool) :
    generate c po lo =
      if c.length = 0 ∧ c.shots.isEmpty = true then .error
      else (generateList (normalize c po lo)).bind writeAll := by
  unfold generate normalize withL1Avg withOverrides withShots withLength durSum
  cases hs : c.shots.isEmpty <;> by_cases hl : c.length = 0 <;> cases po <;> cases lo <;>
    simp [hs, hl]

/-- the L1 clamp applied to one shot: its blocks and the blocks of all its frame edits -/
def clampShot (cm : Bool) (s : Shot) : Shot :=
  { s with blocks := s.blocks.map (clampL1 cm),
           edits := s.edits.map fun e => { e with blocks := e.blocks.map (clampL1 cm) } }

/-- the shots before clamping: the config's, or the single default shot -/
def baseShots (c : Config) : List Shot :=
  if c.shots.isEmpty then [{ start := 0, duration := c.length }] else c.shots

/-- the clamp's average-PQ mode: `l1AvgCmv40` if given, else the config's CM version -/
def clampMode (c : Config) : Bool := c.l1AvgCmv40.getD c.cmv40

theorem withShots_shots (c : Config) : (withShots c).shots = baseShots c := by
  unfold withShots baseShots; split <;> rfl

theorem withShots_other (c : Config) :
    (withShots c).cmv40 = c.cmv40 ∧ (withShots c).profile = c.profile ∧ (withShots c).longPlay = c.longPlay ∧
    (withShots c).length = c.length ∧ (withShots c).sourceMinPq = c.sourceMinPq ∧
    (withShots c).sourceMaxPq = c.sourceMaxPq ∧ (withShots c).level5 = c.level5 ∧ (withShots c).level6 = c.level6 ∧
    (withShots c).l1AvgCmv40 = c.l1AvgCmv40 ∧ (withShots c).defaults = c.defaults := by
  unfold withShots; split <;> simp

theorem withLength_length (c : Config) :
    (withLength c).length = (if c.length = 0 ∧ c.shots.isEmpty = false then durSum c.shots else c.length) := by
  unfold withLength
  cases hs : c.shots.isEmpty <;> by_cases hl : c.length = 0 <;> simp [hl]

theorem withLength_other (c : Config) :
    (withLength c).cmv40 = c.cmv40 ∧ (withLength c).profile = c.profile ∧ (withLength c).longPlay = c.longPlay ∧
    (withLength c).shots = c.shots ∧ (withLength c).sourceMinPq = c.sourceMinPq ∧
    (withLength c).sourceMaxPq = c.sourceMaxPq ∧ (withLength c).level5 = c.level5 ∧ (withLength c).level6 = c.level6 ∧
    (withLength c).l1AvgCmv40 = c.l1AvgCmv40 ∧ (withLength c).defaults = c.defaults := by
  unfold withLength; split <;> simp

theorem baseShots_withLength (c : Config) : baseShots (withLength c) = baseShots c := by
  unfold baseShots
  rw [(withLength_other c).2.2.2.1]
  split
  · rename_i h
    have : withLength c = c := by unfold withLength; simp [h]
    rw [this]
  · rfl

theorem normalize_fields (c : Config) (po : Option Profile) (lo : Option Bool) :
    (normalize c po lo).cmv40 = c.cmv40 ∧
    (normalize c po lo).profile = po.getD c.profile ∧
    (normalize c po lo).longPlay = lo.getD c.longPlay ∧
    (normalize c po lo).length = (if c.length = 0 ∧ c.shots.isEmpty = false then durSum c.shots else c.length) ∧
    (normalize c po lo).sourceMinPq = c.sourceMinPq ∧ (normalize c po lo).sourceMaxPq = c.sourceMaxPq ∧
    (normalize c po lo).level5 = c.level5 ∧ (normalize c po lo).level6 = c.level6 ∧
    (normalize c po lo).l1AvgCmv40 = some (clampMode c) ∧
    (normalize c po lo).defaults = c.defaults.map (clampL1 (clampMode c)) ∧
    (normalize c po lo).shots = (baseShots c).map (clampShot (clampMode c)) := by
  obtain ⟨a1, a2, a3, a4, a5, a6, a7, a8, a9, a10⟩ := withShots_other (withLength c)
  obtain ⟨b1, b2, b3, b4, b5, b6, b7, b8, b9, b10⟩ := withLength_other c
  have hcm : (withL1Avg (withOverrides (withShots (withLength c)) po lo)).l1AvgCmv40.getD
      (withL1Avg (withOverrides (withShots (withLength c)) po lo)).cmv40 = clampMode c := by
    show (some ((withShots (withLength c)).l1AvgCmv40.getD (withShots (withLength c)).cmv40) : Option Bool).getD
      (withShots (withLength c)).cmv40 = clampMode c
    rw [a9, a1, b9, b1]; rfl
  refine ⟨?_, ?_, ?_, ?_, ?_, ?_, ?_, ?_, ?_, ?_, ?_⟩
  · exact a1.trans b1
  · show po.getD (withShots (withLength c)).profile = _; rw [a2, b2]
  · show lo.getD (withShots (withLength c)).longPlay = _; rw [a3, b3]
  · exact a4.trans (withLength_length c)
  · exact a5.trans b5
  · exact a6.trans b6
  · exact a7.trans b7
  · exact a8.trans b8
  · show some ((withShots (withLength c)).l1AvgCmv40.getD (withShots (withLength c)).cmv40) = _
    rw [a9, a1, b9, b1]; rfl
  · show (withShots (withLength c)).defaults.map (clampL1 _) = _
    rw [hcm, a10, b10]
  · show (withShots (withLength c)).shots.map _ = _
    rw [hcm, withShots_shots, baseShots_withLength]; rfl

theorem durSum_clamp (cm : Bool) (l : List Shot) : durSum (l.map (clampShot cm)) = durSum l := by
  unfold durSum
  rw [List.map_map]
  rfl

theorem durSum_normalize (c : Config) (po : Option Profile) (lo : Option Bool) :
    durSum (normalize c po lo).shots = durSum (baseShots c) := by
  rw [(normalize_fields c po lo).2.2.2.2.2.2.2.2.2.2, durSum_clamp]

/-! ## the writer loop -/

theorem writeAll_length (l : List Rpu) : ∀ out, writeAll l = .ok out → out.length = l.length := by
  induction l with
  | nil => intro out h; simp only [writeAll, Res.ok.injEq] at h; subst h; rfl
  | cons r rest ih =>
    intro out h
    simp only [writeAll, bind_ok_iff, Res.ok.injEq] at h
    obtain ⟨o, _, t, h2, h3⟩ := h
    subst h3
    simp [ih t h2]

theorem writeAll_panic (l : List Rpu) (h : writeAll l = .panic) : ∃ r ∈ l, writeRpu r = .panic := by
  induction l with
  | nil => cases h
  | cons r rest ih =>
    simp only [writeAll, bind_panic_iff, reduceCtorEq, and_false, exists_false, or_false] at h
    rcases h with h | ⟨o, _, h⟩
    · exact ⟨r, List.mem_cons_self, h⟩
    · obtain ⟨r', hr', hp⟩ := ih h
      exact ⟨r', List.mem_cons_of_mem _ hr', hp⟩

/-- every frame handed to the writer is written -/
theorem writeAll_ok (l : List Rpu) (out : List Bytes) (h : writeAll l = .ok out) :
    ∀ r ∈ l, ∃ o, writeRpu r = .ok o ∧ o ∈ out := by
  induction l generalizing out with
  | nil => intro r hr; cases hr
  | cons r0 rest ih =>
    simp only [writeAll, bind_ok_iff, Res.ok.injEq] at h
    obtain ⟨o, h1, t, h2, h3⟩ := h
    subst h3
    intro r hr
    rcases List.mem_cons.1 hr with rfl | hr
    · exact ⟨o, h1, List.mem_cons_self⟩
    · obtain ⟨o', a, b⟩ := ih t h2 r hr
      exact ⟨o', a, List.mem_cons_of_mem _ b⟩

/-! ## `generate`: decomposition of success / panic, length -/

theorem generate_ok (c : Config) (po : Option Profile) (lo : Option Bool) (out : List Bytes) :
    generate c po lo = .ok out ↔
      ¬ (c.length = 0 ∧ c.shots.isEmpty = true) ∧
      ∃ l, generateList (normalize c po lo) = .ok l ∧ writeAll l = .ok out := by
  rw [generate_unfold]
  split
  · rename_i h; simp [h]
  · rename_i h; simp only [bind_ok_iff, h, not_false_eq_true, true_and]

theorem generate_panic (c : Config) (po : Option Profile) (lo : Option Bool) (h : generate c po lo = .panic) :
    ∃ l r, generateList (normalize c po lo) = .ok l ∧ r ∈ l ∧ writeRpu r = .panic := by
  rw [generate_unfold] at h
  split at h
  · cases h
  · simp only [bind_panic_iff] at h
    rcases h with h | ⟨l, hl, hw⟩
    · exact absurd h (generateList_ne_panic _)
    · obtain ⟨r, hr, hp⟩ := writeAll_panic l hw
      exact ⟨l, r, hl, hr, hp⟩

theorem generate_len (c : Config) (po : Option Profile) (lo : Option Bool) (out : List Bytes)
    (h : generate c po lo = .ok out) :
    out.length = (normalize c po lo).length ∧ (normalize c po lo).length = durSum (normalize c po lo).shots := by
  obtain ⟨_, l, h1, h2⟩ := (generate_ok c po lo out).1 h
  obtain ⟨_, _, h3, h4⟩ := (generateList_ok _ l).1 h1
  have hl : l.length = (normalize c po lo).length := by
    rw [h3]
    -- `allFrames` returns one frame per unit of duration
    have := Dovi.EditGenProof.Gen.allFrames_map (fun _ => ()) (fun _ _ => ()) _ _ _ l h4 (fun _ _ _ _ _ _ => rfl)
    have hlen := congrArg List.length this
    simp only [List.length_map] at hlen
    rw [hlen]
    generalize (normalize c po lo).shots = shots
    have gen : ∀ (acc : Nat) (l : List Nat), l.foldl (· + ·) acc = acc + l.foldl (· + ·) 0 := by
      intro acc l
      induction l generalizing acc with
      | nil => simp
      | cons x xs ih => simp only [List.foldl_cons]; rw [ih (acc + x), ih (0 + x)]; omega
    induction shots with
    | nil => rfl
    | cons s rest ih =>
      simp only [List.flatMap_cons, List.length_append, List.length_map, List.length_range, ih,
        List.map_cons, List.foldl_cons]
      rw [gen (0 + s.duration)]; omega
  exact ⟨(writeAll_length l out h2).trans hl, h3⟩

/-- `length` given but different from the sum of the shot durations: `generate_rpu_list` fails -/
theorem generateList_length_mismatch (c : Config) (h : c.length ≠ durSum c.shots) : generateList c = .error := by
  unfold generateList
  have hne : (c.length != (c.shots.map (·.duration)).foldl (· + ·) 0) = true := by
    simpa [durSum] using h
  cases hb : baseRpu c with
  | ok base => simp only [Res.bind, hne, if_true]
  | error => rfl
  | panic => exact absurd hb (baseRpu_ne_panic c)

/-! ## where the blocks of a frame come from -/

theorem mem_editBlocks {s : Shot} {i : Nat} {x : Block} (h : x ∈ editBlocks s i) :
    ∃ e ∈ s.edits, x ∈ e.blocks := by
  unfold editBlocks at h
  split at h
  · rename_i e he; exact ⟨e, List.mem_of_find?_eq_some he, h⟩
  · cases h

theorem statics_levels (c : Config) : ∀ b ∈ statics c, b.level = 5 ∨ b.level = 6 ∨ b.level = 9 ∨ b.level = 11 := by
  intro b hb
  unfold statics at hb
  cases h6 : c.level6 <;> simp only [h6, List.cons_append, List.nil_append, List.mem_cons, List.not_mem_nil,
    or_false] at hb
  · rcases hb with rfl | rfl | rfl <;> simp
  · rcases hb with rfl | rfl | rfl | rfl <;> simp

/-- **provenance**: every block of every generated frame is a block of a frame edit or of a shot of the
config, a default block, one of the static blocks, or the initial L254 -/
theorem frame_block_origin (c : Config) (l : List Rpu) (h : generateList c = .ok l) (r : Rpu) (hr : r ∈ l)
    (d : DmData) (hd : r.vdr_dm_data = some d) (x : Block) (hx : x ∈ d.levelBlocks x.level) :
    (∃ s ∈ c.shots, (∃ e ∈ s.edits, x ∈ e.blocks) ∨ x ∈ s.blocks) ∨
      x ∈ defaultBlocks c ∨ x ∈ statics c ∨ x = l254 := by
  obtain ⟨base, h1, _, h3⟩ := (generateList_ok c l).1 h
  obtain ⟨dm0, h4, h5⟩ := (baseRpu_ok c base).1 h1
  obtain ⟨hu, _, hs, _, _, _, _, hm⟩ := dmFromConfig_spec c dm0 h4
  have hf : dm0.scene_refresh_flag = 0 := congrArg DmData.scene_refresh_flag hs
  have hb : base.vdr_dm_data = some dm0 := by rw [h5]; exact baseOf_dm c dm0
  have hstruct := allFrames_structure c base c.shots l h3
  have : Res.ok r ∈ l.map Res.ok := List.mem_map_of_mem hr
  rw [hstruct, List.mem_flatMap] at this
  obtain ⟨s, hs', hmm⟩ := this
  rw [List.mem_map] at hmm
  obtain ⟨i, _, hri⟩ := hmm
  obtain ⟨d', e1, _, _, _, e5⟩ := frameRpu_spec c base s i r dm0 hb hf hu hri
  subst e1
  simp only [Option.some.injEq] at hd
  subst hd
  rcases (e5 x).1 hx with ⟨_, hw⟩ | ⟨_, _, hw⟩ | ⟨_, _, hx0⟩
  · exact .inl ⟨s, hs', .inl (mem_editBlocks (lastWins_mem hw).1)⟩
  · exact .inl ⟨s, hs', .inr (lastWins_mem hw).1⟩
  · rcases (hm x).1 hx0 with ⟨_, hw⟩ | ⟨_, _, hw⟩ | ⟨_, _, _, he⟩
    · exact .inr (.inl (lastWins_mem hw).1)
    · exact .inr (.inr (.inl (lastWins_mem hw).1))
    · exact .inr (.inr (.inr he))

/-! ## the L1 clamp -/

/-- legal L1 values: min PQ in 0..12, max PQ in 2081..4095, avg PQ at least 1229 (CM v4.0) / 819 (CM v2.9) and
below max PQ -/
def L1Legal (cm : Bool) (v : List Int) : Prop :=
  v.length = 3 ∧ 0 ≤ v.getD 0 0 ∧ v.getD 0 0 ≤ 12 ∧ 2081 ≤ v.getD 1 0 ∧ v.getD 1 0 ≤ 4095 ∧
    (if cm then 1229 else 819) ≤ v.getD 2 0 ∧ v.getD 2 0 ≤ v.getD 1 0 - 1

theorem clampL1_level (cm : Bool) (b : Block) : (clampL1 cm b).level = b.level := by
  unfold clampL1; split <;> rfl

theorem clampL1_legal (cm : Bool) (b : Block) (h : (clampL1 cm b).level = 1) : L1Legal cm (clampL1 cm b).vals := by
  rw [clampL1_level] at h
  simp only [L1Legal, clampL1, h, beq_self_eq_true, if_true]
  simp only [List.getD_cons_zero, List.getD_cons_succ, List.length_cons, List.length_nil]
  cases cm <;> simp <;> omega

/-- after `fixup_l1` every L1 block of every frame has legal values -/
theorem normalize_l1 (c : Config) (po : Option Profile) (lo : Option Bool) (l : List Rpu)
    (h : generateList (normalize c po lo) = .ok l) (r : Rpu) (hr : r ∈ l) (d : DmData)
    (hd : r.vdr_dm_data = some d) (x : Block) (hx : x ∈ d.levelBlocks 1) : L1Legal (clampMode c) x.vals := by
  have hl : x.level = 1 := by
    obtain ⟨_, _, _, _, _, hl⟩ := (mem_levelBlocks d x 1).1 hx; exact hl
  obtain ⟨_, _, _, _, _, _, _, _, _, hdef, hsh⟩ := normalize_fields c po lo
  have key : ∃ b, x = clampL1 (clampMode c) b := by
    rcases frame_block_origin _ l h r hr d hd x (by rw [hl]; exact hx) with
      ⟨s, hs, hse⟩ | hdf | hst | h254
    · rw [hsh, List.mem_map] at hs
      obtain ⟨s0, _, rfl⟩ := hs
      rcases hse with ⟨e, he, hxe⟩ | hxs
      · simp only [clampShot, List.mem_map] at he
        obtain ⟨e0, _, rfl⟩ := he
        simp only [List.mem_map] at hxe
        obtain ⟨b, _, hb⟩ := hxe
        exact ⟨b, hb.symm⟩
      · simp only [clampShot, List.mem_map] at hxs
        obtain ⟨b, _, hb⟩ := hxs
        exact ⟨b, hb.symm⟩
    · unfold defaultBlocks at hdf
      rw [hdef] at hdf
      have := (List.mem_filter.1 hdf).1
      rw [List.mem_map] at this
      obtain ⟨b, _, hb⟩ := this
      exact ⟨b, hb.symm⟩
    · have := statics_levels _ x hst
      omega
    · rw [h254] at hl; cases hl
  obtain ⟨b, rfl⟩ := key
  exact clampL1_legal _ b hl

/-! ## the writer does not panic on generated frames -/

theorem writeN_ne_panic (n v : Nat) : writeN n v ≠ .panic := by
  unfold writeN; split <;> simp

theorem writeUe_ne_panic (v : Nat) (h : v + 1 < 2 ^ 64) : writeUe v ≠ .panic := by
  unfold writeUe
  split
  · simp
  · split
    · omega
    · simp

theorem writeSigned16_ne_panic (n : Nat) (v : Int) : writeSigned16 n v ≠ .panic := by
  unfold writeSigned16
  have hb : ∀ (k m : Nat) (b : Bool), ((writeN k m).bind fun w => Res.ok (b :: w)) ≠ .panic := by
    intro k m b h
    rw [bind_panic_iff] at h
    rcases h with h | ⟨_, _, h⟩
    · exact writeN_ne_panic k m h
    · cases h
  split
  · simp
  · split
    · simp only []
      split
      · simp
      · exact hb _ _ _
    · exact hb _ _ _

theorem writeFld_ne_panic (f : Fld) (v : Int) : writeFld f v ≠ .panic := by
  cases f with
  | u n => exact writeN_ne_panic n _
  | s16 => exact writeSigned16_ne_panic 16 v

theorem wcat_panic (l : List (Res Bits)) (h : wcat l = .panic) : ∃ w ∈ l, w = .panic := by
  induction l with
  | nil => cases h
  | cons w ws ih =>
    cases w with
    | ok b =>
      simp only [wcat, bind_panic_iff, reduceCtorEq, and_false, exists_false, or_false] at h
      obtain ⟨w', h1, h2⟩ := ih h
      exact ⟨w', List.mem_cons_of_mem _ h1, h2⟩
    | error => simp [wcat] at h
    | panic => exact ⟨_, List.mem_cons_self, rfl⟩

theorem wcat_ne_panic (l : List (Res Bits)) (h : ∀ w ∈ l, w ≠ .panic) : wcat l ≠ .panic := by
  intro hp
  obtain ⟨w, hw, e⟩ := wcat_panic l hp
  exact h w hw e

theorem writeBlockField_ne_panic (lv w : Nat) (v : Int) : writeBlockField lv w v ≠ .panic := by
  unfold writeBlockField
  split
  · exact writeSigned16_ne_panic _ _
  · exact writeN_ne_panic _ _

theorem blockWriteFields_ne_panic (b : Block) : ∀ w ∈ blockWriteFields b, w ≠ .panic := by
  intro w hw
  unfold blockWriteFields at hw
  split at hw
  · rw [List.mem_map] at hw
    obtain ⟨⟨a, v⟩, _, rfl⟩ := hw
    exact writeBlockField_ne_panic _ _ _
  · simp only [List.mem_singleton] at hw
    subst hw; simp

/-- the emitting part of `writeBlock` once `required_bits` is known -/
theorem writeBlock_emit_ne_panic (b : Block) (n : Nat) (hn : n + 1 < 2 ^ 64) (pad : Bits) :
    wcat [writeUe n, writeN 8 b.level,
          (if blockValidate b then wcat (blockWriteFields b) else .error), .ok pad] ≠ .panic := by
  apply wcat_ne_panic
  intro w hw
  simp only [List.mem_cons, List.not_mem_nil, or_false] at hw
  rcases hw with rfl | rfl | rfl | rfl
  · exact writeUe_ne_panic n hn
  · exact writeN_ne_panic _ _
  · split
    · exact wcat_ne_panic _ (blockWriteFields_ne_panic b)
    · simp
  · simp


theorem writeBlock_ne_panic_var (lv length : Nat) (vals : List Int) (h8 : lv = 8 ∨ lv = 9 ∨ lv = 10) :
    writeBlock ⟨lv, length, vals⟩ ≠ .panic := by
  unfold writeBlock
  split
  · simp
  · rename_i hv
    have hval : blockValidate ⟨lv, length, vals⟩ = true := by
      rcases h8 with h | h | h <;> subst h <;> simpa using hv
    rcases h8 with h | h | h <;> subst h
    · have hlen : validBlockLength 8 length = true := by
        revert hval; simp only [blockValidate]; cases validBlockLength 8 length <;> simp
      simp only [validBlockLength, Bool.or_eq_true, beq_iff_eq] at hlen
      rcases hlen with (((h|h)|h)|h)|h <;> subst h <;> simp only [blockRequiredBits, blockBytes] <;>
        rw [if_neg (by decide)] <;> refine writeBlock_emit_ne_panic ⟨_, _, vals⟩ _ ?_ _ <;> decide
    · have hlen : validBlockLength 9 length = true := by
        revert hval; simp only [blockValidate]; cases validBlockLength 9 length <;> simp
      simp only [validBlockLength, Bool.or_eq_true, beq_iff_eq] at hlen
      rcases hlen with h|h <;> subst h <;> simp only [blockRequiredBits, blockBytes] <;>
        rw [if_neg (by decide)] <;> refine writeBlock_emit_ne_panic ⟨_, _, vals⟩ _ ?_ _ <;> decide
    · have hlen : validBlockLength 10 length = true := by
        revert hval; simp only [blockValidate]; cases validBlockLength 10 length <;> simp
      simp only [validBlockLength, Bool.or_eq_true, beq_iff_eq] at hlen
      rcases hlen with h|h <;> subst h <;> simp only [blockRequiredBits, blockBytes] <;>
        rw [if_neg (by decide)] <;> refine writeBlock_emit_ne_panic ⟨_, _, vals⟩ _ ?_ _ <;> decide

theorem writeBlock_ne_panic_fix (lv length : Nat) (vals : List Int)
    (h : lv = 1 ∨ lv = 2 ∨ lv = 3 ∨ lv = 4 ∨ lv = 5 ∨ lv = 6 ∨ lv = 11 ∨ lv = 254 ∨ lv = 255) :
    writeBlock ⟨lv, length, vals⟩ ≠ .panic := by
  unfold writeBlock
  split
  · simp
  · rcases h with h|h|h|h|h|h|h|h|h <;> subst h <;> simp only [blockRequiredBits, blockBytes] <;>
      rw [if_neg (by decide)] <;> refine writeBlock_emit_ne_panic ⟨_, _, vals⟩ _ ?_ _ <;> decide

theorem writeBlock_ne_panic (b : Block) (hl : b.level ∈ cmv29Levels ∨ b.level ∈ cmv40Levels) :
    writeBlock b ≠ .panic := by
  obtain ⟨level, length, vals⟩ := b
  simp only [cmv29Levels, cmv40Levels, List.mem_cons, List.not_mem_nil, or_false] at hl
  by_cases h8 : level = 8 ∨ level = 9 ∨ level = 10
  · exact writeBlock_ne_panic_var level length vals h8
  · exact writeBlock_ne_panic_fix level length vals (by omega)


theorem writeContainer_ne_panic (pos : Nat) (c : Container) (hn : c.num_ext_blocks + 1 < 2 ^ 64)
    (hl : ∀ b ∈ c.blocks, b.level ∈ cmv29Levels ∨ b.level ∈ cmv40Levels) : writeContainer pos c ≠ .panic := by
  unfold writeContainer
  intro h
  simp only [bind_panic_iff, reduceCtorEq, and_false, exists_false, or_false] at h
  rcases h with h | ⟨_, _, h⟩
  · exact writeUe_ne_panic _ hn h
  · refine wcat_ne_panic _ ?_ h
    intro w hw
    rw [List.mem_map] at hw
    obtain ⟨b, hb, rfl⟩ := hw
    exact writeBlock_ne_panic b (hl b hb)

theorem dmMainWriteFields_ne_panic (d : DmData) : ∀ w ∈ dmMainWriteFields d, w ≠ .panic := by
  intro w hw
  unfold dmMainWriteFields at hw
  rw [List.mem_map] at hw
  obtain ⟨⟨f, v⟩, _, rfl⟩ := hw
  exact writeFld_ne_panic f v

/-- what the writer needs of a container: a sane count and only allowed levels -/
def ContOk (c : Container) : Prop :=
  c.num_ext_blocks + 1 < 2 ^ 64 ∧ ∀ b ∈ c.blocks, b.level ∈ cmv29Levels ∨ b.level ∈ cmv40Levels

theorem writeDmData_ne_panic (pos : Nat) (d : DmData)
    (h1 : d.affected_dm_metadata_id + 1 < 2 ^ 64) (h2 : d.current_dm_metadata_id + 1 < 2 ^ 64)
    (h3 : d.scene_refresh_flag + 1 < 2 ^ 64)
    (h29 : ∀ c, d.cmv29 = some c → ContOk c) (h40 : ∀ c, d.cmv40 = some c → ContOk c) :
    writeDmData pos d ≠ .panic := by
  unfold writeDmData
  intro h
  simp only [bind_panic_iff, reduceCtorEq, and_false, exists_false, or_false] at h
  rcases h with h | ⟨a, _, h | ⟨b, _, h⟩⟩
  · refine wcat_ne_panic _ ?_ h
    intro w hw
    simp only [List.cons_append, List.nil_append, List.mem_cons] at hw
    rcases hw with rfl | rfl | rfl | hw
    · exact writeUe_ne_panic _ h1
    · exact writeUe_ne_panic _ h2
    · exact writeUe_ne_panic _ h3
    · split at hw
      · exact dmMainWriteFields_ne_panic d w hw
      · cases hw
  · split at h
    · rename_i c hc; exact writeContainer_ne_panic _ c (h29 c hc).1 (h29 c hc).2 h
    · cases h
  · split at h
    · rename_i c hc; exact writeContainer_ne_panic _ c (h40 c hc).1 (h40 c hc).2 h
    · cases h

/-- the three header / mapping combinations the generator produces -/
theorem gen_header_mapping_ne_panic (p : Profile) :
    wcat [writeN 8 0x19, writeHeader (baseOf { profile := p } default).header] ≠ .panic ∧
    ∀ m, (baseOf { profile := p } default).rpu_data_mapping = some m →
      writeMapping (baseOf { profile := p } default).header m ≠ .panic := by
  cases p <;> refine ⟨by decide, ?_⟩ <;> intro m hm <;> simp only [baseOf, Option.some.injEq] at hm <;>
    subst hm <;> decide


theorem writeBody_ne_panic_of (r : Rpu) (p : Profile)
    (hh : r.header = (baseOf { profile := p } default).header)
    (hm : r.rpu_data_mapping = (baseOf { profile := p } default).rpu_data_mapping)
    (d : DmData) (hd : r.vdr_dm_data = some d) (hdm : ∀ pos, writeDmData pos d ≠ .panic) :
    writeBody r ≠ .panic := by
  obtain ⟨g1, g2⟩ := gen_header_mapping_ne_panic p
  have ht : (baseOf { profile := p } default).header.rpu_type = 2 ∧
      (baseOf { profile := p } default).header.use_prev_vdr_rpu_flag = false ∧
      (baseOf { profile := p } default).header.vdr_dm_metadata_present_flag = true := by
    cases p <;> exact ⟨rfl, rfl, rfl⟩
  unfold writeBody
  rw [hh, hm, hd, ht.1, ht.2.1, ht.2.2]
  intro h
  simp only [bind_panic_iff, reduceCtorEq, and_false, exists_false, or_false] at h
  rcases h with h | ⟨a, _, h⟩
  · exact g1 h
  · simp only [beq_self_eq_true, if_true, Bool.not_false, bind_panic_iff, reduceCtorEq, and_false,
      exists_false, or_false] at h
    rcases h with h | ⟨b, _, h⟩
    · split at h
      · rename_i m hm'; exact g2 m hm' h
      · cases h
    · exact hdm _ h

theorem writeRpu_ne_panic_of (r : Rpu) (hb : r.validate = true → writeBody r ≠ .panic) : writeRpu r ≠ .panic := by
  unfold writeRpu
  split
  · simp
  · rename_i hv
    intro h
    simp only [bind_panic_iff] at h
    rcases h with h | ⟨body, _, h⟩
    · exact hb (by simpa using hv) h
    · split at h <;> cases h


/-! ### the stored block count is the number of blocks -/

/-- every present container's `num_ext_blocks` is its number of blocks -/
def CountOk (d : DmData) : Prop := ∀ w c, d.get w = some c → c.num_ext_blocks = c.blocks.length

theorem countOk_set (d : DmData) (w : Which) (c' : Container) (hc : CountOk d)
    (h' : c'.num_ext_blocks = c'.blocks.length) : CountOk (d.set w c') := by
  intro w' c'' hg
  rw [get_set] at hg
  split at hg
  · cases hg; exact h'
  · exact hc w' c'' hg

theorem replaceBlock_count (d d' : DmData) (b : Block) (hc : CountOk d) (h : d.replaceBlock b = .ok d') :
    CountOk d' := by
  unfold DmData.replaceBlock at h
  split at h
  · cases hw : whichContainer b.level with
    | none => simp [hw] at h
    | some w =>
      cases hg : d.get w with
      | none => simp [hw, hg] at h
      | some c =>
        simp only [hw, hg, Res.ok.injEq] at h
        subst h
        exact countOk_set d w _ hc (C12.update_count _)
  · split at h
    · cases h
    · unfold DmData.replaceLevel DmData.removeLevel at h
      cases hw : whichContainer b.level with
      | none =>
        simp only [hw, DmData.addBlock, Res.ok.injEq] at h
        subst h; exact hc
      | some w =>
        cases hg : d.get w with
        | none =>
          simp only [hw, hg, DmData.addBlock, Res.ok.injEq] at h
          subst h; exact hc
        | some c =>
          simp only [hw, hg, DmData.addBlock, get_set, if_true, Container.addBlock, which_allowed hw,
            Res.bind, set_set, Res.ok.injEq] at h
          subst h
          exact countOk_set d w _ hc (C12.update_count _)

theorem replaceBlocks_count (bs : List Block) : ∀ (d d' : DmData), CountOk d → d.replaceBlocks bs = .ok d' →
    CountOk d' := by
  induction bs with
  | nil => intro d d' hc h; simp only [DmData.replaceBlocks, Res.ok.injEq] at h; subst h; exact hc
  | cons b bs ih =>
    intro d d' hc h
    simp only [DmData.replaceBlocks, bind_ok_iff] at h
    obtain ⟨d1, h1, h2⟩ := h
    exact ih d1 d' (replaceBlock_count d d1 b hc h1) h2

theorem countOk_dmInit (c : Config) : CountOk (dmInit c) := by
  intro w k h
  cases w
  · simp only [dmInit, DmData.get, Option.some.injEq] at h; subst h; rfl
  · simp only [dmInit, DmData.get] at h
    split at h
    · cases h; rfl
    · cases h

theorem dmFromConfig_count (c : Config) (dm0 : DmData) (h : dmFromConfig c = .ok dm0) : CountOk dm0 := by
  rw [dmFromConfig_eq] at h
  simp only [bind_ok_iff, Res.ok.injEq] at h
  obtain ⟨d1, h1, h2⟩ := h
  subst h2
  have := replaceBlocks_count _ _ _ (countOk_dmInit c) h1
  intro w k hk
  rw [csl_get] at hk
  exact this w k hk

theorem frameRpu_count (c : Config) (base : Rpu) (s : Shot) (i : Nat) (r : Rpu) (dm0 : DmData)
    (hb : base.vdr_dm_data = some dm0) (hf : dm0.scene_refresh_flag = 0) (hc : CountOk dm0)
    (h : frameRpu c base s i = .ok r) : ∃ d, r.vdr_dm_data = some d ∧ CountOk d := by
  rw [frameRpu_eq c base s i dm0 hb hf] at h
  simp only [bind_ok_iff, Res.ok.injEq] at h
  obtain ⟨d1, h1, d2, h2, h3⟩ := h
  have hc' : CountOk (withFlag dm0 (cutFlag c i)) := by
    intro w k hk; rw [withFlag_get] at hk; exact hc w k hk
  refine ⟨d2, by rw [← h3], ?_⟩
  exact replaceBlocks_count _ _ _ (replaceBlocks_count _ _ _ hc' h1) h2

/-! ### `validate` bounds the number of blocks -/

theorem countLevel_cons (b : Block) (t : List Block) (l : Nat) :
    countLevel (b :: t) l = countLevel t l + (if b.level = l then 1 else 0) := by
  unfold countLevel
  by_cases h : b.level = l <;> simp [h]

theorem length_cmv29 (bs : List Block) (h : ∀ b ∈ bs, b.level ∈ cmv29Levels) :
    bs.length = countLevel bs 1 + countLevel bs 2 + countLevel bs 4 + countLevel bs 5 + countLevel bs 6 +
      countLevel bs 255 := by
  induction bs with
  | nil => rfl
  | cons b t ih =>
    have hb := h b List.mem_cons_self
    have := ih (fun x hx => h x (List.mem_cons_of_mem _ hx))
    simp only [cmv29Levels, List.mem_cons, List.not_mem_nil, or_false] at hb
    simp only [countLevel_cons, List.length_cons]
    rcases hb with e | e | e | e | e | e <;> rw [e] <;> simp <;> omega

theorem length_cmv40 (bs : List Block) (h : ∀ b ∈ bs, b.level ∈ cmv40Levels) :
    bs.length = countLevel bs 3 + countLevel bs 8 + countLevel bs 9 + countLevel bs 10 + countLevel bs 11 +
      countLevel bs 254 := by
  induction bs with
  | nil => rfl
  | cons b t ih =>
    have hb := h b List.mem_cons_self
    have := ih (fun x hx => h x (List.mem_cons_of_mem _ hx))
    simp only [cmv40Levels, List.mem_cons, List.not_mem_nil, or_false] at hb
    simp only [countLevel_cons, List.length_cons]
    rcases hb with e | e | e | e | e | e <;> rw [e] <;> simp <;> omega

theorem validate29_contOk (c : Container) (hn : c.num_ext_blocks = c.blocks.length) (hv : c.validate29 = true) :
    ContOk c := by
  simp only [Container.validate29, Bool.and_eq_true, List.all_eq_true, List.contains_iff_mem,
    decide_eq_true_eq] at hv
  obtain ⟨⟨⟨⟨⟨⟨hl, c1⟩, c2⟩, c255⟩, c4⟩, c5⟩, c6⟩ := hv
  have := length_cmv29 c.blocks (fun b hb => by simpa using hl b hb)
  refine ⟨by rw [hn]; omega, fun b hb => .inl (by simpa using hl b hb)⟩

theorem validate40_contOk (c : Container) (hn : c.num_ext_blocks = c.blocks.length) (hv : c.validate40 = true) :
    ContOk c := by
  simp only [Container.validate40, Bool.and_eq_true, List.all_eq_true, List.contains_iff_mem,
    decide_eq_true_eq, beq_iff_eq] at hv
  obtain ⟨⟨⟨⟨⟨⟨hl, c254⟩, c3⟩, c8⟩, c9⟩, c10⟩, c11⟩ := hv
  have := length_cmv40 c.blocks (fun b hb => by simpa using hl b hb)
  refine ⟨by rw [hn]; omega, fun b hb => .inr (by simpa using hl b hb)⟩


/-- **the writer never panics on a generated frame** (it returns the bytes or an error) -/
theorem gen_writeRpu_ne_panic (c : Config) (l : List Rpu) (h : generateList c = .ok l) (r : Rpu) (hr : r ∈ l) :
    writeRpu r ≠ .panic := by
  obtain ⟨base, h1, _, h3⟩ := (generateList_ok c l).1 h
  obtain ⟨dm0, h4, h5⟩ := (baseRpu_ok c base).1 h1
  obtain ⟨hu, _, hs, _⟩ := dmFromConfig_spec c dm0 h4
  have hf : dm0.scene_refresh_flag = 0 := congrArg DmData.scene_refresh_flag hs
  have ha0 : dm0.affected_dm_metadata_id = 0 := congrArg DmData.affected_dm_metadata_id hs
  have hc0 : dm0.current_dm_metadata_id = 0 := congrArg DmData.current_dm_metadata_id hs
  have hb : base.vdr_dm_data = some dm0 := by rw [h5]; exact baseOf_dm c dm0
  have hstruct := allFrames_structure c base c.shots l h3
  have : Res.ok r ∈ l.map Res.ok := List.mem_map_of_mem hr
  rw [hstruct, List.mem_flatMap] at this
  obtain ⟨s, _, hmm⟩ := this
  rw [List.mem_map] at hmm
  obtain ⟨i, _, hri⟩ := hmm
  obtain ⟨d, e1, _, e3, _, _⟩ := frameRpu_spec c base s i r dm0 hb hf hu hri
  obtain ⟨d', hd', hcnt⟩ := frameRpu_count c base s i r dm0 hb hf (dmFromConfig_count c dm0 h4) hri
  have hdd : d' = d := by rw [e1] at hd'; simpa using hd'.symm
  subst hdd
  have ea : d'.affected_dm_metadata_id = 0 := by
    have := congrArg DmData.affected_dm_metadata_id e3; exact this.trans ha0
  have ec : d'.current_dm_metadata_id = 0 := by
    have := congrArg DmData.current_dm_metadata_id e3; exact this.trans hc0
  have ef : d'.scene_refresh_flag = cutFlag c i := congrArg DmData.scene_refresh_flag e3
  have hhdr : r.header = (baseOf { profile := c.profile } default).header := by
    rw [e1, h5]; unfold baseOf; cases c.profile <;> rfl
  have hmap : r.rpu_data_mapping = (baseOf { profile := c.profile } default).rpu_data_mapping := by
    rw [e1, h5]; unfold baseOf; cases c.profile <;> rfl
  apply writeRpu_ne_panic_of
  intro hv
  have hdv : d'.validate = true := by
    simp only [Rpu.validate, hd', Bool.and_eq_true] at hv; exact hv.2
  simp only [DmData.validate, Bool.and_eq_true] at hdv
  obtain ⟨⟨_, v29⟩, v40⟩ := hdv
  refine writeBody_ne_panic_of r c.profile hhdr hmap d' hd' (fun pos => ?_)
  refine writeDmData_ne_panic pos d' (by rw [ea]; decide) (by rw [ec]; decide) ?_ ?_ ?_
  · rw [ef]; unfold cutFlag; split <;> decide
  · intro k hk
    rw [hk] at v29
    exact validate29_contOk k (hcnt .v29 k hk) v29
  · intro k hk
    rw [hk] at v40
    exact validate40_contOk k (hcnt .v40 k hk) v40

/-- **`generate` never panics** -/
theorem generate_ne_panic (c : Config) (po : Option Profile) (lo : Option Bool) : generate c po lo ≠ .panic := by
  intro h
  obtain ⟨l, r, hl, hr, hp⟩ := generate_panic c po lo h
  exact gen_writeRpu_ne_panic _ l hl r hr hp


end Dovi.GenerateEntryProof
