import DoviModel.Model.XmlSpec
import DoviModel.Proofs.PqCert
import DoviModel.Proofs.EditGenProof
/-!
# Helper lemmas and the remaining XML value encodings for C11

* one threshold lemma for "round half away from zero, convert saturating, clamp" (`clampRound_ge_iff`), from which
  range, monotonicity, nearest-integer and clamp-order facts of every `Model/XmlSpec.lean` encoding follow;
* the PQ-from-nits codes (`Model/PqTable.lean`, certified against ST 2084 by `Props/C19.lean`): range, monotone,
  anchors, and the order of the certified brackets behind `codeOfRat`;
* the value functions of the XML nodes that `Model/XmlSpec.lean` takes as already-computed integers
  (L6 / mastering display, L11, L254, target display PQ codes), as specification functions over scaled decimals;
* the XML generation path: base DM data and per-frame precedence (as `C10.gen_precedence`, for `generateListXml`).

Core Lean only.
-/
namespace Dovi.XmlMore
open Dovi Dovi.Gen Dovi.Xml Dovi.PqTable

/-! ## rounding -/

theorem roundDivNat_ge_iff (num den k : Nat) (hd : 0 < den) :
    k ≤ roundDivNat num den ↔ 2 * (k * den) ≤ 2 * num + den := by
  unfold roundDivNat
  rw [Nat.le_div_iff_mul_le (by omega)]
  have : k * (2 * den) = 2 * (k * den) := by
    rw [Nat.mul_left_comm]
  rw [this]

theorem roundDivNat_mono (a b den : Nat) (h : a ≤ b) : roundDivNat a den ≤ roundDivNat b den := by
  unfold roundDivNat
  exact Nat.div_le_div_right (by omega)

/-- exact on multiples -/
theorem roundDivNat_mul (k den : Nat) (hd : 0 < den) : roundDivNat (k * den) den = k := by
  apply Nat.le_antisymm
  · apply Nat.le_of_lt_succ
    apply Nat.lt_of_not_le
    intro h
    have := (roundDivNat_ge_iff (k * den) den (k + 1) hd).1 h
    rw [Nat.add_mul] at this
    omega
  · exact (roundDivNat_ge_iff (k * den) den k hd).2 (by omega)

theorem roundHalfAway_nonneg (num : Int) (den : Nat) (h : 0 ≤ num) :
    roundHalfAway num den = (roundDivNat num.toNat den : Nat) := by
  unfold roundHalfAway
  have : ¬ num < 0 := by omega
  rw [if_neg this]
  congr 2
  omega

theorem roundHalfAway_neg_le (num : Int) (den : Nat) (h : num < 0) : roundHalfAway num den ≤ 0 := by
  unfold roundHalfAway
  rw [if_pos h]
  omega

/-- the number the encodings produce: round, convert to an unsigned type (negative ↦ 0), clamp to `hi` -/
def clampRound (hi : Nat) (A : Int) (D : Nat) : Nat := min hi (roundHalfAway A D).toNat

/-- **threshold characterisation**: the result is at least `k` (for `1 ≤ k ≤ hi`) exactly when the exact value
`A / D` is at least `k − 1/2` -/
theorem clampRound_ge_iff (hi k : Nat) (A : Int) (D : Nat) (hD : 0 < D) (hk : 1 ≤ k) (hkh : k ≤ hi) :
    k ≤ clampRound hi A D ↔ (2 * (k : Int) - 1) * D ≤ 2 * A := by
  unfold clampRound
  have e : (2 * (k : Int) - 1) * D = 2 * ((k : Int) * D) - D := by
    rw [Int.sub_mul, Int.mul_assoc, Int.one_mul]
  rw [e]
  by_cases hA : A < 0
  · have h0 := roundHalfAway_neg_le A D hA
    have : (roundHalfAway A D).toNat = 0 := by omega
    rw [this]
    have hkd : 0 < (k : Int) * D := Int.mul_pos (by omega) (by omega)
    have hkd' : (D : Int) ≤ (k : Int) * D := by
      have := Int.mul_le_mul_of_nonneg_right (show (1 : Int) ≤ k by omega) (show (0 : Int) ≤ D by omega)
      simpa using this
    constructor
    · intro h; omega
    · intro h; omega
  · have hA' : 0 ≤ A := by omega
    rw [roundHalfAway_nonneg A D hA', Int.toNat_natCast]
    have h1 : k ≤ min hi (roundDivNat A.toNat D) ↔ k ≤ roundDivNat A.toNat D := by omega
    rw [h1, roundDivNat_ge_iff _ _ _ hD]
    have hcast : ((k * D : Nat) : Int) = (k : Int) * D := by simp
    generalize hkd : k * D = kd at hcast ⊢
    generalize (k : Int) * (D : Int) = kdi at hcast
    omega

theorem clampRound_le (hi : Nat) (A : Int) (D : Nat) : clampRound hi A D ≤ hi := Nat.min_le_left _ _

/-- monotone in the exact value -/
theorem clampRound_mono (hi : Nat) (A B : Int) (D : Nat) (hD : 0 < D) (h : A ≤ B) :
    clampRound hi A D ≤ clampRound hi B D := by
  by_cases h0 : clampRound hi A D = 0
  · omega
  · have hk : 1 ≤ clampRound hi A D := by omega
    have := (clampRound_ge_iff hi _ A D hD hk (clampRound_le hi A D)).1 (Nat.le_refl _)
    exact (clampRound_ge_iff hi _ B D hD hk (clampRound_le hi A D)).2 (by omega)

/-- saturation at the top: exactly from `hi − 1/2` on -/
theorem clampRound_eq_hi_iff (hi : Nat) (A : Int) (D : Nat) (hD : 0 < D) (hhi : 1 ≤ hi) :
    clampRound hi A D = hi ↔ (2 * (hi : Int) - 1) * D ≤ 2 * A := by
  rw [← clampRound_ge_iff hi hi A D hD hhi (Nat.le_refl _)]
  have := clampRound_le hi A D
  omega

/-- zero: exactly below `1/2` -/
theorem clampRound_eq_zero_iff (hi : Nat) (A : Int) (D : Nat) (hD : 0 < D) (hhi : 1 ≤ hi) :
    clampRound hi A D = 0 ↔ 2 * A < D := by
  have := clampRound_ge_iff hi 1 A D hD (Nat.le_refl _) hhi
  simp only [Int.natCast_one] at this
  omega

/-- **nearest integer, clamped after rounding**: strictly inside the range the result `q` is the integer with
`q − 1/2 ≤ A/D < q + 1/2` -/
theorem clampRound_nearest (hi : Nat) (A : Int) (D : Nat) (hD : 0 < D)
    (h1 : 1 ≤ clampRound hi A D) (h2 : clampRound hi A D < hi) :
    (2 * (clampRound hi A D : Int) - 1) * D ≤ 2 * A ∧ 2 * A < (2 * (clampRound hi A D : Int) + 1) * D := by
  refine ⟨(clampRound_ge_iff hi _ A D hD h1 (by omega)).1 (Nat.le_refl _), ?_⟩
  have := clampRound_ge_iff hi (clampRound hi A D + 1) A D hD (by omega) (by omega)
  have e : (2 * ((clampRound hi A D + 1 : Nat) : Int) - 1) = 2 * (clampRound hi A D : Int) + 1 := by omega
  rw [e] at this
  omega

/-- exact on integers inside the range -/
theorem clampRound_int (hi k : Nat) (D : Nat) (hD : 0 < D) (hk : k ≤ hi) : clampRound hi ((k : Int) * D) D = k := by
  unfold clampRound
  have h0 : 0 ≤ (k : Int) * D := Int.mul_nonneg (by omega) (by omega)
  rw [roundHalfAway_nonneg _ _ h0, Int.toNat_natCast]
  have : ((k : Int) * D).toNat = k * D := by
    have : (k : Int) * D = ((k * D : Nat) : Int) := by simp
    rw [this, Int.toNat_natCast]
  rw [this, roundDivNat_mul k D hD]
  omega

theorem min_satTo (hi hi' : Nat) (z : Int) (h : hi ≤ hi') : min hi (satTo hi' z) = min hi z.toNat := by
  unfold satTo
  omega

/-! ## the encodings of `Model/XmlSpec.lean` as `clampRound` -/

theorem M_pos : 0 < M := by decide

theorem lin12_eq (v : Int) : lin12 v = clampRound 4095 (v * 2048 + 2048 * M) M := by
  unfold lin12 clampRound; exact min_satTo _ _ _ (by decide)

theorem slope12_eq (lift gain : Int) : slope12 lift gain =
    clampRound 4095 (((gain + 2 * M) * (2 * M - lift) - 4 * M * M) * 2048 + 2048 * (2 * M * M)) (2 * M * M) := by
  unfold slope12 clampRound; exact min_satTo _ _ _ (by decide)

theorem offset12_eq (lift gain : Int) : offset12 lift gain =
    clampRound 4095 ((gain + 2 * M) * lift * 2048 + 2048 * (2 * M * M)) (2 * M * M) := by
  unfold offset12 clampRound; exact min_satTo _ _ _ (by decide)

theorem power12_eq (gamma : Int) : power12 gamma =
    clampRound 4095 (2048 * (2 * M - clampGamma gamma)) (2 * M + clampGamma gamma).toNat := by
  unfold power12 clampRound; exact min_satTo _ _ _ (by decide)

theorem vec8_eq (v : Int) : vec8 v = clampRound 255 (v * 128 + 128 * M) M := by
  unfold vec8 clampRound; exact min_satTo _ _ _ (by decide)

theorem satTo_eq (hi : Nat) (z : Int) : satTo hi z = min hi z.toNat := by unfold satTo; omega

theorem pq12_eq (v : Int) : pq12 v = clampRound 65535 (v * 4095) M := by
  unfold pq12 clampRound; exact satTo_eq _ _

theorem l3off_eq (v : Int) : l3off v = clampRound 65535 (v * 2048 + 2048 * M) M := by
  unfold l3off clampRound; exact satTo_eq _ _

theorem prim16_eq (v : Int) : prim16 v = clampRound 65535 (v * 32767) M := by
  unfold prim16 clampRound; exact satTo_eq _ _

/-! ## PQ codes from nits: the certified tables -/

theorem inBracket_parts {yn yd c : Nat} (h : inBracket yn yd c = true) :
    c ≤ 4095 ∧ 0 < yd ∧ yn ≤ yd ∧ (c = 0 ∨ yUp (c - 1) * yd ≤ yn * 2 ^ SY) ∧ (c = 4095 ∨ yn * 2 ^ SY ≤ yDown c * yd) := by
  simp only [inBracket, Bool.and_eq_true, Bool.or_eq_true, decide_eq_true_eq, beq_iff_eq] at h
  obtain ⟨⟨⟨⟨a, b⟩, c⟩, d⟩, e⟩ := h
  exact ⟨a, b, c, d, e⟩

theorem nits_inBracket (n : Nat) (hn : n ≤ 10000) : inBracket n 10000 (codeOfNits n) = true := by
  have := nits_ok (j := n) (Nat.zero_le _) (by omega)
  rwa [nitsCheck, withNat_eq] at this

theorem minLum_inBracket (k : Nat) (hk : k ≤ 10000) : inBracket k 100000000 (codeOfMinLum k) = true := by
  have := minLum_ok (j := k) (Nat.zero_le _) (by omega)
  rwa [minLumCheck, withNat_eq] at this

theorem codeOfNits_le (n : Nat) (hn : n ≤ 10000) : codeOfNits n ≤ 4095 := (inBracket_parts (nits_inBracket n hn)).1
theorem codeOfMinLum_le (k : Nat) (hk : k ≤ 10000) : codeOfMinLum k ≤ 4095 := (inBracket_parts (minLum_inBracket k hk)).1

theorem nits_mono_steps : allRange (fun n => decide (codeOfNits n ≤ codeOfNits (n + 1))) 0 10000 = true := by decide +kernel
theorem minLum_mono_steps : allRange (fun n => decide (codeOfMinLum n ≤ codeOfMinLum (n + 1))) 0 10000 = true := by decide +kernel

theorem mono_of_steps (f : Nat → Nat) (N : Nat) (hs : ∀ n, n < N → f n ≤ f (n + 1)) :
    ∀ a b, a ≤ b → b ≤ N → f a ≤ f b := by
  intro a b hab hb
  induction b with
  | zero => have : a = 0 := by omega
            subst this; exact Nat.le_refl _
  | succ b ih =>
    by_cases h : a = b + 1
    · subst h; exact Nat.le_refl _
    · exact Nat.le_trans (ih (by omega) (by omega)) (hs b (by omega))

/-- the table of integer nits is non-decreasing -/
theorem codeOfNits_mono (a b : Nat) (hab : a ≤ b) (hb : b ≤ 10000) : codeOfNits a ≤ codeOfNits b :=
  mono_of_steps codeOfNits 10000 (fun n hn => of_decide_eq_true (allRange_ok nits_mono_steps (Nat.zero_le n) (by omega))) a b hab hb

theorem codeOfMinLum_mono (a b : Nat) (hab : a ≤ b) (hb : b ≤ 10000) : codeOfMinLum a ≤ codeOfMinLum b :=
  mono_of_steps codeOfMinLum 10000 (fun n hn => of_decide_eq_true (allRange_ok minLum_mono_steps (Nat.zero_le n) (by omega))) a b hab hb

/-! ### the certified brackets are disjoint and ordered -/

theorem bracket_gap_steps : allRange (fun j => decide (yDown j < yUp j)) 0 4095 = true := by decide +kernel
theorem bracket_order_steps : allRange (fun j => decide (yUp j ≤ yDown (j + 1))) 0 4094 = true := by decide +kernel

theorem yDown_lt_yUp (j : Nat) (hj : j < 4095) : yDown j < yUp j :=
  of_decide_eq_true (allRange_ok bracket_gap_steps (Nat.zero_le j) (by omega))

theorem yDown_mono (a b : Nat) (hab : a ≤ b) (hb : b ≤ 4094) : yDown a ≤ yDown b :=
  mono_of_steps yDown 4094 (fun n hn => by
    have h1 := yDown_lt_yUp n (by omega)
    have h2 : yUp n ≤ yDown (n + 1) := of_decide_eq_true (allRange_ok bracket_order_steps (Nat.zero_le n) (by omega))
    omega) a b hab hb

theorem cross_le (U D a b da db S : Nat) (hda : 0 < da) (hdb : 0 < db) (h1 : U * da ≤ a * S) (h2 : b * S ≤ D * db)
    (h3 : a * db ≤ b * da) : U ≤ D := by
  have s1 : (U * da) * db ≤ (a * S) * db := Nat.mul_le_mul_right db h1
  have s2 : (a * db) * S ≤ (b * da) * S := Nat.mul_le_mul_right S h3
  have s3 : (b * S) * da ≤ (D * db) * da := Nat.mul_le_mul_right da h2
  have e1 : (a * S) * db = (a * db) * S := Nat.mul_right_comm a S db
  have e2 : (b * da) * S = (b * S) * da := Nat.mul_right_comm b da S
  have e3 : (U * da) * db = U * (da * db) := Nat.mul_assoc U da db
  have e4 : (D * db) * da = D * (da * db) := by rw [Nat.mul_assoc, Nat.mul_comm db da]
  have : U * (da * db) ≤ D * (da * db) := by omega
  exact Nat.le_of_mul_le_mul_right this (Nat.mul_pos hda hdb)

/-- **brackets are ordered**: a luminance `a/da ≤ b/db` never lies in the bracket of a larger code -/
theorem inBracket_mono {a da b db c c' : Nat} (h1 : inBracket a da c = true) (h2 : inBracket b db c' = true)
    (hle : a * db ≤ b * da) : c ≤ c' := by
  obtain ⟨hc, hda, _, hlo, _⟩ := inBracket_parts h1
  obtain ⟨_, hdb, _, _, hhi⟩ := inBracket_parts h2
  apply Nat.le_of_not_lt
  intro hlt
  have hlo' : yUp (c - 1) * da ≤ a * 2 ^ SY := by
    rcases hlo with h | h
    · omega
    · exact h
  have hhi' : b * 2 ^ SY ≤ yDown c' * db := by
    rcases hhi with h | h
    · omega
    · exact h
  have hUD := cross_le _ _ _ _ _ _ _ hda hdb hlo' hhi' hle
  have m := yDown_mono c' (c - 1) (by omega) (by omega)
  have g := yDown_lt_yUp (c - 1) (by omega)
  omega

/-- a luminance lies in at most one bracket -/
theorem inBracket_unique {a da b db c c' : Nat} (h1 : inBracket a da c = true) (h2 : inBracket b db c' = true)
    (heq : a * db = b * da) : c = c' :=
  Nat.le_antisymm (inBracket_mono h1 h2 (by omega)) (inBracket_mono h2 h1 (by omega))

theorem codeOfRat_inBracket {yn yd c : Nat} (h : codeOfRat yn yd = some c) : inBracket yn yd c = true := by
  unfold codeOfRat at h
  simp only at h
  split at h
  · rename_i hb
    injection h with h
    subst h
    exact hb
  · cases h

/-! ## the PQ codes of the XML path -/

/-- `min(4095, round(4095·PQ(n)))` for an integer luminance `n` (a `u16` in the XML): the certified table up to
10000 nits, saturated above (PQ ≥ 1 there, `C19.pq_strictMono` / `pq_endpoints`).  This is `target_max_pq` of an
L10 block for every `n`, and `ExtMetadataBlockLevel2::from_nits` / `source_max_pq` (which do not clamp) for
`n ≤ 10000` -/
def pqOfNits (n : Nat) : Nat := if n ≤ 10000 then codeOfNits n else 4095

/-- `min(4095, round(4095·PQ(x)))` for a decimal luminance `x = mn · 10⁻⁶` nits (`target_min_pq`, an `f64` in the
XML): the certified code of the exact rational `mn / 10¹⁰` of full scale; `none` inside one of the 6·10⁻⁶ code
units wide gaps around a rounding tie (where the specification does not decide) or above 10000 nits -/
def pqOfDecimal (mn : Nat) : Option Nat := codeOfRat mn (10000 * M)

/-- `source_min_pq`: the code of `k / 10000` nits, `k` the L6 `min_display_mastering_luminance` -/
def pqOfMinLum (k : Nat) : Nat := codeOfMinLum k

theorem pqOfNits_le (n : Nat) : pqOfNits n ≤ 4095 := by
  unfold pqOfNits
  split
  · rename_i h; exact codeOfNits_le n h
  · exact Nat.le_refl _

theorem codeOfNits_top : codeOfNits 10000 = 4095 := by decide +kernel

theorem pqOfNits_mono (a b : Nat) (h : a ≤ b) : pqOfNits a ≤ pqOfNits b := by
  unfold pqOfNits
  by_cases hb : b ≤ 10000
  · have ha : a ≤ 10000 := by omega
    rw [if_pos ha, if_pos hb]
    exact codeOfNits_mono a b h hb
  · rw [if_neg hb]
    split
    · rename_i ha; exact codeOfNits_le a ha
    · exact Nat.le_refl _

theorem pqOfDecimal_le (mn c : Nat) (h : pqOfDecimal mn = some c) : c ≤ 4095 :=
  (inBracket_parts (codeOfRat_inBracket h)).1

theorem pqOfDecimal_mono (a b c c' : Nat) (hab : a ≤ b) (h1 : pqOfDecimal a = some c) (h2 : pqOfDecimal b = some c') :
    c ≤ c' :=
  inBracket_mono (codeOfRat_inBracket h1) (codeOfRat_inBracket h2) (Nat.mul_le_mul_right _ hab)

/-- on whole nits the decimal code is the table's -/
theorem pqOfDecimal_nits (n c : Nat) (hn : n ≤ 10000) (h : pqOfDecimal (n * M) = some c) : c = codeOfNits n :=
  inBracket_unique (codeOfRat_inBracket h) (nits_inBracket n hn) (by simp only [M]; omega)

/-- on the four-decimal grid the decimal code is the min-luminance table's -/
theorem pqOfDecimal_grid (k c : Nat) (hk : k ≤ 10000) (h : pqOfDecimal (k * 100) = some c) : c = codeOfMinLum k :=
  inBracket_unique (codeOfRat_inBracket h) (minLum_inBracket k hk) (by simp only [M]; omega)

/-! ## the XML generation path -/

section gen
open Dovi.EditGenProof.Gen

/-- the L254 block a CM v4.0 XML document starts from: the `Level254` node's values, `(0, 2)` without a node -/
def l254Block (l254 : Option (Nat × Nat)) : Block :=
  { level := 254, length := 2, vals := match l254 with | some (m, v) => [(m : Int), (v : Int)] | none => [0, 2] }

/-- the DM data before any block is applied (XML path) -/
def dmInitXml (c : Config) (l254 : Option (Nat × Nat)) : DmData :=
  { main := dmMainOf c.profile, cmv29 := some {},
    cmv40 := if c.cmv40 then some { num_ext_blocks := 1, blocks := [l254Block l254] } else none }

theorem dmFromXmlConfig_eq (c : Config) (l254 : Option (Nat × Nat)) :
    dmFromXmlConfig c l254 = ((dmInitXml c l254).replaceBlocks (statics c ++ defaultBlocks c)).bind fun d =>
      .ok (d.changeSourceLevels c.sourceMinPq c.sourceMaxPq) := by
  rw [replaceBlocks_append]
  unfold dmFromXmlConfig statics
  cases c.level6 <;>
    simp only [List.cons_append, List.nil_append, DmData.replaceBlocks, bind_assoc, ok_bind] <;> rfl

theorem uniq_dmInitXml (c : Config) (l254 : Option (Nat × Nat)) : Uniq (dmInitXml c l254) := by
  intro w k h
  cases w
  · simp only [dmInitXml, DmData.get, Option.some.injEq] at h; subst h; exact List.Pairwise.nil
  · simp only [dmInitXml, DmData.get] at h
    split at h
    · cases h; exact List.pairwise_singleton _ _
    · cases h

theorem holds_dmInitXml (c : Config) (l254 : Option (Nat × Nat)) (lv : Nat) :
    holds (dmInitXml c l254) lv ↔ (lv ∈ cmv29Levels ∨ (c.cmv40 = true ∧ lv ∈ cmv40Levels)) := by
  unfold holds whichContainer
  by_cases h1 : lv ∈ cmv29Levels
  · simp [h1, dmInitXml, DmData.get]
  · by_cases h2 : lv ∈ cmv40Levels
    · cases hc : c.cmv40 <;> simp [h1, h2, dmInitXml, DmData.get, hc]
    · simp [h1, h2]

theorem mem_dmInitXml (c : Config) (l254 : Option (Nat × Nat)) (x : Block) :
    x ∈ (dmInitXml c l254).levelBlocks x.level ↔ (c.cmv40 = true ∧ x = l254Block l254) := by
  rw [mem_levelBlocks]
  constructor
  · rintro ⟨w, k, h1, h2, h3, _⟩
    cases w
    · simp only [dmInitXml, DmData.get, Option.some.injEq] at h2; subst h2; cases h3
    · simp only [dmInitXml, DmData.get] at h2
      split at h2
      · cases h2; simp only [List.mem_singleton] at h3; exact ⟨by assumption, h3⟩
      · cases h2
  · rintro ⟨hc, rfl⟩
    exact ⟨.v40, { num_ext_blocks := 1, blocks := [l254Block l254] }, rfl,
      by simp only [dmInitXml, DmData.get, hc, if_true], List.mem_singleton.2 rfl, rfl⟩

/-- **the base DM data of the XML path**: default blocks (L10 of custom targets, L11 of the `Level11` node) win
over the static blocks (L5, L6, L9, the default L11), which win over the initial L254 -/
theorem dmFromXmlConfig_spec (c : Config) (l254 : Option (Nat × Nat)) (dm0 : DmData)
    (h : dmFromXmlConfig c l254 = .ok dm0) :
    Uniq dm0 ∧ dm0.scene_refresh_flag = 0 ∧
    (∀ lv, holds dm0 lv ↔ (lv ∈ cmv29Levels ∨ (c.cmv40 = true ∧ lv ∈ cmv40Levels))) ∧
    dm0.main.length = 32 ∧
    (∀ j, j ≠ 29 → j ≠ 30 → dm0.main[j]? = (dmMainOf c.profile)[j]?) ∧
    (∀ v, c.sourceMinPq = some v → dm0.main[29]? = some (v : Int)) ∧
    (∀ v, c.sourceMaxPq = some v → dm0.main[30]? = some (v : Int)) ∧
    ∀ x, x ∈ dm0.levelBlocks x.level ↔
      (holds dm0 x.level ∧ (defaultBlocks c).reverse.find? (sameKey x) = some x) ∨
      ((defaultBlocks c).all (fun b => !sameKey b x) = true ∧ holds dm0 x.level ∧
        (statics c).reverse.find? (sameKey x) = some x) ∨
      ((defaultBlocks c).all (fun b => !sameKey b x) = true ∧ (statics c).all (fun b => !sameKey b x) = true ∧
        c.cmv40 = true ∧ x = l254Block l254) := by
  rw [dmFromXmlConfig_eq, replaceBlocks_append] at h
  simp only [bind_assoc, bind_ok_iff, Res.ok.injEq] at h
  obtain ⟨d1, h1, d2, h2, h3⟩ := h
  obtain ⟨a1, a2, a3, a4⟩ := replaceBlocks2_spec _ _ _ _ _ (uniq_dmInitXml c l254) h1 h2
  subst h3
  have hm : d2.main = dmMainOf c.profile := by
    have := congrArg DmData.main a2
    simpa [shell, dmInitXml] using this
  have hfl : d2.scene_refresh_flag = 0 := by
    have := congrArg DmData.scene_refresh_flag a2
    simpa [shell, dmInitXml] using this
  have hlen : d2.main.length = 32 := by rw [hm, dmMainOf_length]
  refine ⟨(csl_uniq _ _ _).2 a1, ?_, ?_, ?_, ?_, ?_, ?_, ?_⟩
  · have := congrArg DmData.scene_refresh_flag (csl_shell d2 c.sourceMinPq c.sourceMaxPq)
    simpa [shell, hfl] using this
  · intro lv; rw [csl_holds, a3, holds_dmInitXml]
  · rw [csl_length, hlen]
  · intro j j1 j2; rw [csl_other _ _ _ _ j1 j2, hm]
  · intro v hv; rw [hv]; exact csl_min _ _ _ (by omega)
  · intro v hv; rw [hv]; exact csl_max _ _ _ (by omega)
  · intro x
    rw [csl_levelBlocks, a4 x, mem_dmInitXml, csl_holds, a3]

/-- the base RPU of the XML path around given DM data (`DoviRpu::profile81_config`) -/
def baseXml (d : DmData) : Rpu :=
  { dovi_profile := 8, modified := true, header := p8DefaultHeader,
    rpu_data_mapping := some p81Mapping, vdr_dm_data := some d }

theorem generateListXml_ok (c : Config) (l254 : Option (Nat × Nat)) (l : List Rpu) :
    generateListXml c l254 = .ok l ↔
      ∃ dm0, dmFromXmlConfig c l254 = .ok dm0 ∧ allFrames c (baseXml dm0) (sortShots c.shots) = .ok l := by
  unfold generateListXml baseRpuXml
  simp only [bind_assoc, bind_ok_iff, ok_bind]
  rfl

/-- index of the first frame of shot `k` of a shot list -/
def startOf (shots : List Shot) (k : Nat) : Nat := ((shots.take k).map (·.duration)).sum

/-- a frame is the shot-only frame with the blocks of the applicable edit put on top -/
theorem frameRpu_split (c : Config) (base : Rpu) (s : Shot) (i : Nat) (r : Rpu) (dm0 : DmData)
    (hb : base.vdr_dm_data = some dm0) (hf : dm0.scene_refresh_flag = 0) (hu : Uniq dm0)
    (h : frameRpu c base s i = .ok r) :
    ∃ d0 d, frameRpu c base { s with edits := [] } i = .ok { base with vdr_dm_data := some d0 } ∧ Uniq d0 ∧
      shell d0 = { shell dm0 with scene_refresh_flag := cutFlag c i } ∧ (∀ lv, holds d0 lv ↔ holds dm0 lv) ∧
      d0.replaceBlocks (editBlocks s i) = .ok d ∧ r = { base with vdr_dm_data := some d } := by
  rw [frameRpu_eq c base s i dm0 hb hf] at h
  simp only [bind_ok_iff, Res.ok.injEq] at h
  obtain ⟨d1, h1, d2, h2, h3⟩ := h
  have hu' : Uniq (withFlag dm0 (cutFlag c i)) := by
    intro w k hk; rw [withFlag_get] at hk; exact hu w k hk
  have hh : ∀ lv, holds (withFlag dm0 (cutFlag c i)) lv ↔ holds dm0 lv := by
    intro lv; unfold holds; simp only [withFlag_get]
  obtain ⟨a1, a2, a3, _⟩ := replaceBlocks_spec s.blocks _ d1 hu' h1
  refine ⟨d1, d2, ?_, a1, a2, fun lv => (a3 lv).trans (hh lv), h2, h3.symm⟩
  rw [frameRpu_eq c base { s with edits := [] } i dm0 hb hf]
  show ((withFlag dm0 (cutFlag c i)).replaceBlocks s.blocks).bind _ = _
  rw [h1]
  rfl

theorem editBlocks_nil_of_no_edit (s : Shot) (i : Nat) (h : ∀ e ∈ s.edits, e.offset ≠ i) : editBlocks s i = [] := by
  have hf : s.edits.find? (fun (e : FrameEdit) => e.offset == i) = none := by
    rw [List.find?_eq_none]
    intro e he
    simpa using h e he
  simp [editBlocks, hf]

theorem find_edit_iff (s : Shot) (i : Nat) :
    (∃ e, s.edits.find? (fun (e : FrameEdit) => e.offset == i) = some e) ↔ ∃ e ∈ s.edits, e.offset = i := by
  constructor
  · rintro ⟨e, he⟩
    exact ⟨e, List.mem_of_find?_eq_some he, by simpa using List.find?_some he⟩
  · rintro ⟨e, he, hi⟩
    cases hf : s.edits.find? (fun (e : FrameEdit) => e.offset == i) with
    | some e' => exact ⟨e', rfl⟩
    | none =>
      rw [List.find?_eq_none] at hf
      have := hf e he
      simp [hi] at this

/-- **list level**: the generated list is, shot by shot (sorted by start) and offset by offset, `frameRpu` of one
base RPU around the base DM data -/
theorem generateListXml_frames (c : Config) (l254 : Option (Nat × Nat)) (l : List Rpu)
    (h : generateListXml c l254 = .ok l) :
    ∃ dm0, dmFromXmlConfig c l254 = .ok dm0 ∧ Uniq dm0 ∧ dm0.scene_refresh_flag = 0 ∧
      ∀ (k : Nat) (hk : k < (sortShots c.shots).length) (i : Nat), i < (sortShots c.shots)[k].duration →
        ∃ r, l[startOf (sortShots c.shots) k + i]? = some r ∧
          frameRpu c (baseXml dm0) (sortShots c.shots)[k] i = .ok r := by
  obtain ⟨dm0, h1, h2⟩ := (generateListXml_ok c l254 l).1 h
  obtain ⟨hu, hf, _⟩ := dmFromXmlConfig_spec c l254 dm0 h1
  refine ⟨dm0, h1, hu, hf, ?_⟩
  intro k hk i hi
  have hs := allFrames_structure c (baseXml dm0) (sortShots c.shots) l h2
  have := getElem?_flatMap_range (fun s : Shot => s.duration) (frameRpu c (baseXml dm0)) (sortShots c.shots) k i hk hi
  rw [← hs, List.getElem?_map] at this
  unfold startOf
  cases hl : l[((List.take k (sortShots c.shots)).map (·.duration)).sum + i]? with
  | none => rw [hl] at this; cases this
  | some r =>
    rw [hl] at this
    simp only [Option.map_some, Option.some.injEq] at this
    exact ⟨r, rfl, this.symm⟩

end gen

/-! ## the value functions of the remaining XML nodes (specification functions over scaled decimals) -/

/-- `Level6/MaxCLL`, `Level6/MaxFALL`: `text.parse::<f32>().round() as u16` -/
def l6Light (v : Int) : Nat := clampRound 65535 v M

/-- `MasteringDisplay/MinimumBrightness`: `(v * 10000.0).round() as u16` — rounded to the nearest 1/10000 nit
(repository fix 530e538; the earlier truncation read 0.0007 as 6) -/
def l6MinLum (v : Int) : Nat := clampRound 65535 (v * 10000) M

/-- `config.level6` in struct order: max / min mastering display luminance, MaxCLL, MaxFALL
(`peak` = `MasteringDisplay/PeakBrightness`, an integer) -/
def l6OfXml (peak : Nat) (minLum maxCll maxFall : Int) : List Nat :=
  [peak, l6MinLum minLum, l6Light maxCll, l6Light maxFall]

/-- the L6 block `set_static_metadata` stores for `config.level6 = some v` -/
def l6Block (v : List Nat) : Block := { level := 6, length := 8, vals := v.map Int.ofNat }

/-- `source_min_pq = round(4095·PQ(min_display_mastering_luminance / 10000))` -/
def sourceMinPqOfXml (minLum : Int) : Nat := pqOfMinLum (l6MinLum minLum)

/-- `add_level11`: content type and intended white point from the node, reference mode flag and reserved bytes 0 -/
def l11OfXml (ct wp : Nat) : Block := { level := 11, length := 4, vals := [(ct : Int), (wp : Int), 0, 0, 0] }

/-- the L11 block `set_static_metadata` stores when the document has no `Level11` node -/
def l11Static : Block := { level := 11, length := 4, vals := [1, 0, 1, 0, 0] }

end Dovi.XmlMore
